----------------------------- MODULE Gen_Names -----------------------------
(* Emits one of the universes of NameUniverse (chosen by Kind), one element per line,
   for the drivers.  For these pure functions a behaviour is one input. *)
EXTENDS NameUniverse, TLC, Json

CONSTANT Kind
VARIABLE x

Universe == CASE Kind = "u06" -> U06
              [] Kind = "v06" -> V06
              [] Kind = "mimic" -> UMimic
              [] Kind = "neigh" -> NeighbourCases
              [] Kind = "namesA" -> NamesA
              [] Kind = "texts" -> Texts
              [] Kind = "ctl" -> CtlNames
              [] Kind = "tokpairs" -> TokPairs
              [] Kind = "strnames" -> StrNames
              [] Kind = "wires" -> PlainCases
              [] Kind = "segs" -> SegCases
              [] Kind = "wnames" -> WNames
              [] Kind = "cons" -> ConstructInputs
              [] Kind = "len" -> {<<"r", n>> : n \in LenRel} \cup {<<"o", n>> : n \in LenOrg}

GInit == x \in Universe
GNext == FALSE /\ x' = x
Emit == PrintT("BEH " \o ToJson(<<x>>))
=============================================================================
