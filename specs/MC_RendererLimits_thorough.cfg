SPECIFICATION MSpec
CONSTANTS
  MaxExtra = 2
  Pads = {0, 16, 128, 468}
  Step = 1
INVARIANT EveryLimit
CHECK_DEADLOCK FALSE
