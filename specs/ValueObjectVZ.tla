---------------------------- MODULE ValueObjectVZ ----------------------------
(* The ValueObject discipline applied to a snapshot of a versioned zone (property C11,
   immutability part).

   A snapshot is a collection of objects reachable from a read transaction: the
   transaction, its version, the version's node map, nodes, a node's rdataset sequence,
   rdatasets, an rdataset's item map, the delegation set (B-tree zone) and the zone's own
   non-transactional API.  Each object has an observable state `st`; the whole zone has
   an observable state `world`.  A value object offers ONLY these actions:

     Observe        - any read: nothing changes
     Refused(m)     - a mutating call m is attempted, raises, and nothing changes

   There is no action for a mutating call that succeeds, and none for a call after which
   the object or the zone looks different.  Mutators(kind) is the catalogue of mutating
   calls that must have been attempted (each with arguments that really change a mutable
   twin of the object) before an object counts as examined. *)
EXTENDS Integers, Sequences, FiniteSets, TLC

CONSTANTS Kinds,     \* object kinds
          States     \* abstract object / zone states (digests); model checking only

VARIABLES kind,      \* kind of the object under examination ("" = none)
          st,        \* its observable state
          world,     \* observable state of the whole zone (all versions, all open readers)
          attempted, \* kind -> mutator names attempted (and refused) on objects of that kind so far
          offered,   \* kind -> names that the mutable twins of the examined objects of that kind offer
          examined   \* number of objects completely examined

vars == <<kind, st, world, attempted, offered, examined>>

(* The catalogue.  MutableMapping / MutableSet / list / dns.set.Set / Rdataset / Node /
   BTree / Version / Transaction / Zone mutating APIs, by object kind.  A name that the
   mutable twin of an object does not offer is not required for that object. *)
Mutators(k) ==
    CASE k = "txn"         -> {"add", "replace", "delete", "delete_exact", "update_serial"}
      [] k = "version"     -> {"put_rdataset", "delete_rdataset", "delete_node", "update_glue_flag",
                               "__setattr__", "__delattr__"}
      [] k = "nodes"       -> {"__setitem__", "__delitem__", "update", "clear", "pop", "popitem", "setdefault",
                               "insert_element", "delete_key", "delete_exact"}
      [] k = "delegations" -> {"add", "discard", "remove", "clear", "pop", "insert_element", "delete_key", "delete_exact",
                               "__ior__", "__isub__", "__ixor__"}
      [] k = "node"        -> {"replace_rdataset", "delete_rdataset", "find_rdataset", "get_rdataset",
                               "__setattr__", "__delattr__"}
      [] k = "rdatasets"   -> {"append", "extend", "insert", "pop", "remove", "clear", "reverse",
                               "__setitem__", "__delitem__", "__iadd__"}
      [] k = "rdataset"    -> {"add", "update", "update_ttl", "union_update", "intersection_update",
                               "difference_update", "symmetric_difference_update", "remove", "discard", "pop",
                               "clear", "__delitem__", "__ior__", "__iand__", "__iadd__", "__isub__", "__ixor__",
                               "__setattr__", "__delattr__"}
      [] k = "rdsitems"    -> {"__setitem__", "__delitem__", "update", "clear", "pop", "popitem", "setdefault"}
      [] k = "zone"        -> {"find_node", "get_node", "delete_node", "find_rdataset", "get_rdataset",
                               "delete_rdataset", "replace_rdataset", "__setitem__", "__delitem__"}
      [] OTHER             -> {}

(* Calls of a mutator with arguments that request NO change (same TTL, an element that is
   already present, an empty operand ...) must be refused as well - with the exceptions
   listed here, which are exact calls observed on the current tree (triaged in
   notes/C11.md, section 8): inherited collections.abc / dns.set.Set code that, given an
   empty operand / an absent key with a default / a present key, returns before it reaches
   any write.  <<kind, class, method, arguments>>. *)
NoopTolerated ==
    {<<"rdataset", "ImmutableRdataset", "difference_update", "(rds_empty)">>,
     <<"nodes", "BTreeDict", "pop", "(absent,node_new)">>,
     <<"nodes", "BTreeDict", "setdefault", "(present)">>,
     <<"nodes", "BTreeDict", "setdefault", "(present,node_new)">>,
     <<"nodes", "BTreeDict", "update", "()">>,
     <<"nodes", "BTreeDict", "update", "(empty_map)">>,
     <<"delegations", "Delegations", "__ior__", "(empty_set)">>,
     <<"delegations", "Delegations", "__isub__", "(empty_set)">>,
     <<"delegations", "Delegations", "__ixor__", "(empty_set)">>}

Begin(k, s, w) ==
    /\ kind = ""
    /\ kind' = k /\ st' = s /\ world' = w
    /\ UNCHANGED <<attempted, offered, examined>>

Observe == kind # "" /\ UNCHANGED vars

Refused(m) ==
    /\ kind # ""
    /\ attempted' = [attempted EXCEPT ![kind] = @ \cup {m}]
    /\ UNCHANGED <<kind, st, world, offered, examined>>

(* a mutator called with arguments that request no change: refused too ... *)
RefusedNoop(m) == kind # "" /\ UNCHANGED vars
(* ... or, for the listed calls only, a silent return that changes nothing *)
SilentNoop(cls, m, args) == kind # "" /\ <<kind, cls, m, args>> \in NoopTolerated /\ UNCHANGED vars

(* end of the examination of one object; `available` = the names its mutable twin offers *)
Done(available) ==
    /\ kind # ""
    /\ offered' = [offered EXCEPT ![kind] = @ \cup available]
    /\ kind' = "" /\ examined' = examined + 1
    /\ UNCHANGED <<st, world, attempted>>

(* a snapshot counts as examined when, for every kind, every catalogue mutator that some
   twin offered has been attempted (objects of degenerate shape - an empty map, a
   one-element list - cannot witness every mutator on their own) *)
Covered == \A k \in Kinds : (Mutators(k) \cap offered[k]) \subseteq attempted[k]

Init == /\ kind = "" /\ st \in States /\ world \in States /\ examined = 0
        /\ attempted = [k \in Kinds |-> {}] /\ offered = [k \in Kinds |-> {}]

AllNames == UNION {Mutators(k) : k \in Kinds}
Next ==
    \/ \E k \in Kinds, s \in States : Begin(k, s, world)
    \/ Observe
    \/ \E m \in AllNames : Refused(m) \/ RefusedNoop(m)
    \/ \E c \in NoopTolerated : SilentNoop(c[2], c[3], c[4])
    \/ \E av \in {{}, Mutators(kind)} : Done(av)

Spec == Init /\ [][Next]_vars

(* the zone never changes, and an object never changes while it is examined *)
WorldFrozen == [][world' = world]_vars
ObjectFrozen == [][(kind # "" /\ kind' # "") => st' = st]_vars
(* nothing that was attempted is ever forgotten *)
AttemptsMonotone == [][\A k \in Kinds : attempted[k] \subseteq attempted'[k] /\ offered[k] \subseteq offered'[k]]_vars
=============================================================================
