------------------------------ MODULE AddrNames ------------------------------
(* Special names built from addresses and numbers, and the dns.inet classifiers, on top
   of AddrCodec.  Sources:
   RFC 1035 3.5: "the IN-ADDR.ARPA name for 10.2.0.52 is 52.0.2.10.IN-ADDR.ARPA" - four
     labels, each a decimal octet, in reverse order;
   RFC 3596 2.5: "An IPv6 address is represented as a name in the IP6.ARPA domain by a
     sequence of nibbles separated by dots with the suffix .IP6.ARPA.  The sequence of
     nibbles is encoded in reverse order";
   dns.reversename docstrings: from_address "raises dns.exception.SyntaxError: If the
     address is badly formed", to_address "raises dns.exception.SyntaxError: If the name
     does not have a reverse-map form", v4_origin / v6_origin "Domain to append ... instead of";
   dns.e164 docstrings: "Non-digits in the text are ignored"; "The name is relativized to
     this domain before conversion"; "emitted as a simple string of digits, prefixed by a
     '+' (unless want_plus_prefix is False)";
   dns.inet docstrings; RFC 5771 / RFC 1112 4 (224.0.0.0/4), RFC 4291 2.7 (ff00::/8). *)
EXTENDS AddrCodec

LowerLabel(l) == [k \in 1..Len(l) |-> Lower(l[k])]
SameLabel(x, y) == LowerLabel(x) = LowerLabel(y)                 \* RFC 4343
IsAbs(n) == n # <<>> /\ n[Len(n)] = <<>>
(* n is origin or below it (names compare ASCII-case-insensitively) *)
Under(n, o) == /\ Len(n) >= Len(o)
               /\ \A k \in 1..Len(o) : SameLabel(n[Len(n) - Len(o) + k], o[k])
(* dns.name.Name.relativize: "If self is a subdomain of origin, return a new name which is
   self relative to origin.  Otherwise return self." *)
Relativize(n, o) == IF Under(n, o) THEN SubSeq(n, 1, Len(n) - Len(o)) ELSE n
SameName(x, y) == Len(x) = Len(y) /\ \A k \in 1..Len(x) : SameLabel(x[k], y[k])

-----------------------------------------------------------------------------
(* reverse names *)
Rev4(a, o) == <<Dec(a[4]), Dec(a[3]), Dec(a[2]), Dec(a[1])>> \o o
Nibble(a, k) == IF k % 2 = 1 THEN a[(k + 1) \div 2] \div 16 ELSE a[k \div 2] % 16     \* k in 1..32
Rev6(a, o) == [k \in 1..32 |-> <<HexChar(Nibble(a, 33 - k))>>] \o o

(* from_address(text): the set of acceptable outcomes <<"ok", name>> / <<"err">>.
   Free choices: an IPv4-mapped IPv6 address may be mapped as its IPv4 address; a text the
   parsers leave Free; a scoped address (from_address does not say). *)
FromAddressAllowed(t, o4, o6) ==
    LET r4 == Aton4(t)
        r6 == IF PercentAt(t) = {} THEN Aton6(t) ELSE Loose(Aton6S(t, TRUE))
        ok4 == IF IsErr(r4) THEN {} ELSE {Ok(Rev4(r4[2], o4))}
        ok6 == IF IsErr(r6) THEN {}
               ELSE {Ok(Rev6(r6[2], o6))} \cup (IF IsMapped(r6[2]) THEN {Ok(Rev4(Low32(r6[2]), o4))} ELSE {})
        free == r4[1] = "free" \/ r6[1] = "free" \/ (IsErr(r4) /\ IsErr(r6))
    IN  ok4 \cup ok6 \cup (IF free THEN {Err} ELSE {})

(* to_address(name): <<"ok4", a>>, <<"ok6", a>>, <<"free4", a>> (octet labels with leading
   zeros), <<"err">>.  Reverse-map form = exactly 4 decimal-octet labels below the v4 origin,
   exactly 32 one-hex-digit labels below the v6 origin. *)
ToAddress(n, o4, o6) ==
    IF Under(n, o4) THEN
        LET rel == Relativize(n, o4)
        IN  IF Len(rel) # 4 THEN Err
            ELSE LET q == Quad([k \in 1..4 |-> DecOctet(rel[5 - k])])
                 IN  IF IsErr(q) THEN Err ELSE IF IsOk(q) THEN <<"ok4", q[2]>> ELSE <<"free4", q[2]>>
    ELSE IF Under(n, o6) THEN
        LET rel == Relativize(n, o6)
        IN  IF Len(rel) # 32 \/ \E k \in 1..32 : Len(rel[k]) # 1 \/ ~IsHex(rel[k][1]) THEN Err
            ELSE <<"ok6", [j \in 1..16 |-> HexVal(rel[34 - 2 * j][1]) * 16 + HexVal(rel[33 - 2 * j][1])]>>
    ELSE Err
(* the text to_address returns for verdict v *)
ToAddressTextOK(v, text) ==
    CASE v[1] = "ok4" -> text = Ntoa4(v[2])
      [] v[1] = "free4" -> text = Ntoa4(v[2])
      [] v[1] = "ok6" -> text \in Canon6(v[2])
      [] OTHER -> FALSE

-----------------------------------------------------------------------------
(* ENUM names.  origin: <<"some", name>> or <<"none">> *)
NoOrigin == <<"none">>
Some(o) == <<"some", o>>
Digits(t) == SelectSeq(t, IsDigit)
FromE164(t, origin) == LET d == Digits(t)
                       IN  [k \in 1..Len(d) |-> <<d[Len(d) + 1 - k]>>] \o (IF origin[1] = "some" THEN origin[2] ELSE <<>>)
ToE164(n, origin, plus) ==
    LET rel == IF origin[1] = "some" THEN Relativize(n, origin[2]) ELSE n
    IN  IF \E k \in 1..Len(rel) : Len(rel[k]) # 1 \/ ~IsDigit(rel[k][1]) THEN Err
        ELSE Ok((IF plus THEN <<Plus>> ELSE <<>>) \o [k \in 1..Len(rel) |-> rel[Len(rel) + 1 - k][1]])

-----------------------------------------------------------------------------
(* dns.inet: af_for_address "Determine the address family of a textual-form network
   address ... raises ValueError: If the address family cannot be determined";
   is_multicast; is_address; canonicalize "IPv6 addresses with scopes are rejected";
   inet_pton(AF_INET6) is the scope-ignoring parser (zone ids name an interface, not an address).
   Verdicts: <<"v4", a>>, <<"v6", a>>, <<"none">>, and free variants <<"free4", a>>, <<"free6", a>>. *)
Classify(t) ==
    LET r4 == Aton4(t)
        r6 == Aton6S(t, TRUE)
    IN  IF IsOk(r4) THEN <<"v4", r4[2]>>
        ELSE IF r4[1] = "free" THEN <<"free4", r4[2]>>
        ELSE IF IsOk(r6) THEN <<"v6", r6[2]>>
        ELSE IF r6[1] = "free" THEN <<"free6", r6[2]>>
        ELSE <<"none">>
Fam(c) == IF c[1] \in {"v4", "free4"} THEN 4 ELSE 6
IsFreeC(c) == c[1] \in {"free4", "free6"}
Multicast(c) == IF Fam(c) = 4 THEN c[2][1] >= 224 /\ c[2][1] <= 239 ELSE c[2][1] = 255

RECURSIVE DecNumFrom(_, _, _)
DecNumFrom(p, i, acc) == IF i > Len(p) THEN acc ELSE DecNumFrom(p, i + 1, acc * 10 + (p[i] - 48))
AllDigits(p) == p # <<>> /\ \A k \in 1..Len(p) : IsDigit(p[k])
(* low_level_address_tuple((text, port)): v4 -> (text, port); v6 without zone ->
   (text, port, 0, 0); v6 with a decimal zone id -> (address part, port, 0, zone);
   a named zone needs the operating system: not specified here. *)
LowLevel(t, port) ==
    LET c == Classify(t)
    IN  IF c[1] = "none" THEN Err
        ELSE IF IsFreeC(c) THEN <<"any">>
        ELSE IF Fam(c) = 4 THEN Ok(<<t, <<port>>>>)
        ELSE IF PercentAt(t) = {} THEN Ok(<<t, <<port, 0, 0>>>>)
        ELSE IF AllDigits(ScopePart(t)) /\ Len(ScopePart(t)) <= 6
             THEN Ok(<<AddrPart(t), <<port, 0, DecNumFrom(ScopePart(t), 1, 0)>>>>)
        ELSE <<"any">>
=============================================================================
