---------------------------- MODULE RegistriesText ----------------------------
(* X09 (part 2 of the Registries specification) - the text side of a registry.

   A registry is <<prefix, maximum>> plus a mnemonic table.  Its text forms are
     - a mnemonic (letters, digits, "-"; read without regard to ASCII case), and
     - the generic form: RFC 3597 section 5 "the word TYPE immediately followed by the
       decimal RR type number, with no intervening whitespace" / "the word CLASS
       immediately followed by the decimal class number"; RFC 9460 2.1 "keyNNNNN"; for
       registries without such a word the documentation of dns.rcode.from_text allows "an
       integer in textual form" (prefix "").
   The LAWS below are stated for an arbitrary table; the tables themselves
   (RegistriesTables) are only used by the strict (drift) configuration. *)
EXTENDS RegistriesBits

LowerAZ == "abcdefghijklmnopqrstuvwxyz"
UpperAZ == "ABCDEFGHIJKLMNOPQRSTUVWXYZ"
CharSet(alpha) == {SubSeq(alpha, i, i) : i \in 1..Len(alpha)}
UpMap == [ch \in CharSet(LowerAZ) |-> LET i == CHOOSE i \in 1..26 : SubSeq(LowerAZ, i, i) = ch IN SubSeq(UpperAZ, i, i)]
LoMap == [ch \in CharSet(UpperAZ) |-> LET i == CHOOSE i \in 1..26 : SubSeq(UpperAZ, i, i) = ch IN SubSeq(LowerAZ, i, i)]
DigitMap == [ch \in CharSet(DigitStr) |-> (CHOOSE i \in 1..10 : SubSeq(DigitStr, i, i) = ch) - 1]
WordChars == CharSet(UpperAZ) \cup CharSet(LowerAZ) \cup CharSet(DigitStr) \cup {"-", "_"}
AsciiOther == CharSet(" !\"#$%&'()*+,./:;<=>?@[\\]^`{|}~") \cup {"\t", "\n"}
Ascii == WordChars \cup AsciiOther

Ch(s, i) == SubSeq(s, i, i)
RECURSIVE MapFrom(_, _, _)
MapFrom(s, i, m) == IF i > Len(s) THEN "" ELSE (IF Ch(s, i) \in DOMAIN m THEN m[Ch(s, i)] ELSE Ch(s, i)) \o MapFrom(s, i + 1, m)
Upper(s) == IF \A i \in 1..Len(s) : Ch(s, i) \notin DOMAIN UpMap THEN s ELSE MapFrom(s, 1, UpMap)
Lower(s) == IF \A i \in 1..Len(s) : Ch(s, i) \notin DOMAIN LoMap THEN s ELSE MapFrom(s, 1, LoMap)
IsAscii(s) == \A i \in 1..Len(s) : Ch(s, i) \in Ascii
IsWord(s) == Len(s) > 0 /\ \A i \in 1..Len(s) : Ch(s, i) \in WordChars
AllDigits(s) == Len(s) > 0 /\ \A i \in 1..Len(s) : Ch(s, i) \in DOMAIN DigitMap
StartsWith(s, p) == Len(s) >= Len(p) /\ SubSeq(s, 1, Len(p)) = p
After(s, p) == SubSeq(s, Len(p) + 1, Len(s))

(* the whitespace-separated tokens of a text *)
RECURSIVE SplitFrom(_, _, _, _)
SplitFrom(s, i, cur, acc) ==
    IF i > Len(s) THEN (IF cur = "" THEN acc ELSE Append(acc, cur))
    ELSE IF Ch(s, i) \in {" ", "\t", "\n"} THEN SplitFrom(s, i + 1, "", IF cur = "" THEN acc ELSE Append(acc, cur))
    ELSE SplitFrom(s, i + 1, cur \o Ch(s, i), acc)
Split(s) == SplitFrom(s, 1, "", <<>>)

(* decimal value of a digit string, saturating at cap + 1 (TLC integers are 32 bit) *)
RECURSIVE DecFold(_, _, _, _)
DecFold(s, i, acc, cap) ==
    IF i > Len(s) THEN acc
    ELSE DecFold(s, i + 1, IF acc > cap THEN cap + 1 ELSE acc * 10 + DigitMap[Ch(s, i)], cap)
ParseDec(s, cap) == LET n == DecFold(s, 1, 0, cap) IN IF n > cap THEN cap + 1 ELSE n

(* ------------------------------------------------------------------ registries *)
Regs == {"type", "class", "rcode", "opcode", "option", "ede", "svcparam", "algorithm", "dsdigest",
         "nsec3hash", "section", "updsection", "zonemdscheme", "zonemdhash"}
Prefix(reg) == CASE reg = "type" -> "TYPE" [] reg = "class" -> "CLASS" [] reg = "svcparam" -> "KEY" [] OTHER -> ""
(* type/class: 16 bits (RFC 1035 3.2.2/3.2.4, RFC 3597); rcode: 12 bits (RFC 6891 6.1.3); opcode: 4
   bits (RFC 1035 4.1.1); EDNS option code, EDE info-code, SvcParamKey: 16 bits (RFC 6891 6.1.2,
   RFC 8914 2, RFC 9460 2.2); DNSSEC algorithm, DS digest type, NSEC3 hash, ZONEMD scheme / hash:
   one octet (RFC 4034 2.1.3 / 5.1.3, RFC 5155 3.1.1, RFC 8976 2.2); four message sections *)
Max(reg) == CASE reg \in {"type", "class", "option", "ede", "svcparam"} -> 65535
              [] reg = "rcode" -> 4095
              [] reg = "opcode" -> 15
              [] reg \in {"section", "updsection"} -> 3
              [] OTHER -> 255
(* registries whose documentation / RFC states that the generic form is read *)
GenericStated == {"type", "class", "rcode", "svcparam"}

Generic(reg, v) == Prefix(reg) \o Dec(v)

(* what a text is, lexically: <<"generic", n>> (n <= Max), <<"toobig">>, <<"word", W>> (W upper
   case), <<"junk">> (holds an ASCII character no mnemonic can hold, or is empty), <<"foreign">> *)
Lex(reg, s) ==
    LET u == Upper(s)
        p == Prefix(reg)
    IN  IF ~IsAscii(s) THEN <<"foreign">>
        ELSE IF StartsWith(u, p) /\ AllDigits(After(u, p))
             THEN LET n == ParseDec(After(u, p), Max(reg)) IN IF n <= Max(reg) THEN <<"generic", n>> ELSE <<"toobig">>
        ELSE IF IsWord(s) THEN <<"word", u>>
        ELSE <<"junk">>

(* a table is a sequence of <<value, NAME>>; the first entry of a value is its canonical name,
   later ones are aliases.  "-" and "_" are the same character in a mnemonic (NSAP-PTR is the
   Python identifier NSAP_PTR; both are read). *)
Dash(s) == IF \A i \in 1..Len(s) : Ch(s, i) # "_" THEN s ELSE MapFrom(s, 1, [c \in {"_"} |-> "-"])
HasValue(tab, v) == \E k \in 1..Len(tab) : tab[k][1] = v
HasName(tab, W) == LET d == Dash(W) IN \E k \in 1..Len(tab) : tab[k][2] = d
CanonName(tab, v) == tab[CHOOSE k \in 1..Len(tab) : tab[k][1] = v /\ \A j \in 1..(k - 1) : tab[j][1] # v][2]
ValueOf(tab, W) == LET d == Dash(W) IN tab[CHOOSE k \in 1..Len(tab) : tab[k][2] = d][1]

ToText(reg, tab, v) == IF HasValue(tab, v) THEN CanonName(tab, v) ELSE Generic(reg, v)
(* <<"ok", v>> | <<"err", kind>> *)
FromText(reg, tab, s) ==
    LET x == Lex(reg, s)
        u == Upper(s)
    IN  IF x[1] \in {"word", "generic"} /\ HasName(tab, u) THEN <<"ok", ValueOf(tab, u)>>
        ELSE IF x[1] = "generic" THEN <<"ok", x[2]>>
        ELSE IF x[1] = "toobig" THEN <<"err", "range">>
        ELSE <<"err", "unknown">>

(* a table is sane when names are unique, upper case words, values in range, and no name has the
   generic shape of another value ("TYPE0" for 0 is fine) *)
TableSane(reg, tab) ==
    /\ \A k \in 1..Len(tab) : /\ tab[k][1] \in 0..Max(reg)
                              /\ IsWord(tab[k][2]) /\ Upper(tab[k][2]) = tab[k][2] /\ Dash(tab[k][2]) = tab[k][2]
                              /\ LET x == Lex(reg, tab[k][2]) IN x[1] = "word" \/ (x[1] = "generic" /\ x[2] = tab[k][1])
    /\ \A j, k \in 1..Len(tab) : tab[j][2] = tab[k][2] => j = k

(* ------------------------------------------------------------------ the laws (for v in 0..Max) *)
LawRoundTrip(reg, tab, v) == FromText(reg, tab, ToText(reg, tab, v)) = <<"ok", v>>
LawGeneric(reg, tab, v) == /\ FromText(reg, tab, Generic(reg, v)) = <<"ok", v>>
                           /\ FromText(reg, tab, Lower(Generic(reg, v))) = <<"ok", v>>
LawCaseBlind(reg, tab, s) == /\ FromText(reg, tab, Lower(s)) = FromText(reg, tab, s)
                             /\ FromText(reg, tab, Upper(s)) = FromText(reg, tab, s)
LawCanonical(reg, tab, s) ==
    LET r == FromText(reg, tab, s)
    IN  r[1] = "ok" => LET c == ToText(reg, tab, r[2]) IN FromText(reg, tab, c) = r /\ ToText(reg, tab, FromText(reg, tab, c)[2]) = c
LawDecimal(v) == Dec(v) = ToString(v) /\ ParseDec(Dec(v), 65535) = v /\ AllDigits(Dec(v))

(* ------------------------------------------------------------------ flag tokens read back
   a token is a known mnemonic (any case), or FLAGn, "where n is the bit position" (whatsnew 2.9.0)
   - stated for the bits to_text renders that way: nameless bits inside the mask.
   TokenBit: the bit (0..15); -1 = nothing stated (free); -2 = not a flag token at all *)
TokenBit(lay, names, mask, tok) ==
    LET u == Upper(tok)
    IN  IF ~IsAscii(tok) THEN -1
        ELSE IF u \in ToSet(names) THEN Lo(lay, u)
        ELSE IF StartsWith(u, "FLAG") /\ AllDigits(After(u, "FLAG"))
             THEN LET n == ParseDec(After(u, "FLAG"), 99) IN IF n <= 15 /\ Bit(mask, n) = 1 /\ n \notin KnownBits(lay, names) THEN n ELSE -1
        ELSE -2
TokensToMask(lay, names, mask, toks) == MaskOf({TokenBit(lay, names, mask, toks[k]) : k \in 1..Len(toks)})
=============================================================================
