-------------------------- MODULE Trace_UdpExchange --------------------------
(* Trace validation for the datagram half of C18.  One trace = one call of dns.query.udp /
   receive_udp / udp_with_fallback (or the dns.asyncquery equivalent) against a scripted
   socket.  Every would-block, every datagram the library took from the socket and the end
   of the call must be a step of UdpExchange; what the library did with each datagram
   (kept listening / returned it / raised) is judged by the hard clauses below. *)
EXTENDS UdpExchange, VTrace

VARIABLES t, l
tvars == <<vars, t, l>>

TraceInit ==
    /\ RegInit
    /\ t \in 1..NTraces /\ l = 1
    /\ cfg = Log[t].cfg
    /\ now = 0 /\ nblocks = 0 /\ consumed = 0 /\ last = <<>> /\ status = "open" /\ exc = "-"

e == Ev(t)[l]
Adv == l' = l + 1 /\ t' = t

\* the query goes out once, unchanged, to the queried address, before anything is read
TSend == /\ e.op = "send"
         /\ Check(t, l, "QuerySentToDestination",
                  e.wire = Log[t].q.wire /\ e.dest = Log[t].q.dest /\ consumed = 0 /\ nblocks = 0)
         /\ UNCHANGED vars /\ Adv

\* once the deadline has passed (status = "timeout") the library must not touch the socket again
AfterDeadline == Check(t, l, "NothingAfterDeadline", status # "timeout")
TBlock == e.op = "block" /\ AfterDeadline /\ Block /\ Adv
TSilence == e.op = "silence" /\ AfterDeadline /\ Silence /\ Adv

Acceptable(d) == FromDest(d, cfg) /\ Parses(d, cfg) /\ (Verify(cfg) => RespondsTo(d, cfg.qop))

TDgram ==
    /\ e.op = "dgram"
    /\ LET d == e.d
           A == AllowedKinds(d, cfg)
       IN /\ AfterDeadline
          /\ Check(t, l, "ScriptOrder", e.i = consumed + 1 /\ status = "open")
          \* Return(d) => Genuine(d): never a spoofed, mismatched or malformed datagram
          /\ Check(t, l, "NeverReturnSpoofed", e.obs = "ret" => FromDest(d, cfg))
          /\ Check(t, l, "NeverReturnMismatched", e.obs = "ret" => (Verify(cfg) => RespondsTo(d, cfg.qop)))
          /\ Check(t, l, "NeverReturnMalformed", e.obs = "ret" => Parses(d, cfg))
          /\ Check(t, l, "TruncationReported", e.obs = "ret" => ~(d.tc /\ Rot(cfg)))
          \* the reply that was asked for ends the exchange
          /\ Check(t, l, "GenuineReplyNotSkipped", e.obs = "skip" => ~Acceptable(d))
          \* skipped only as configured (ignore_unexpected / ignore_errors)
          /\ Check(t, l, "SkippedOnlyAsConfigured", e.obs = "skip" => "skip" \in A)
          \* raised only as configured: with ignore_errors / ignore_unexpected a forged or
          \* broken datagram cannot end the exchange, and a genuine reply is not an error
          /\ Check(t, l, "RaisedOnlyAsConfigured", e.obs = "raise" => "raise" \in A)
          /\ Check(t, l, "TruncatedFamily", e.obs = "raise" => e.fam \in AllowedExc(d, cfg))
          /\ Deliver(d, e.obs)
          /\ (e.obs = "raise" => exc' = e.fam)
    /\ Adv

Summary == IF cfg.api = "fallback" /\ e.kind = "ret" /\ e.ret.tcp THEN "ret_tcp" ELSE e.kind

TEnd ==
    /\ e.op = "end"
    \* termination by return, raise or deadline, nothing else
    \* (a deadline that has already been reached may be reported without touching the socket)
    /\ Check(t, l, "EndsByReturnRaiseOrDeadline",
             status # "open" \/ (HasDeadline /\ now >= cfg.deadline /\ e.kind = "timeout" /\ e.now = now))
    /\ Check(t, l, "DeadlineIsTimeout", status = "timeout" => (e.kind = "timeout" /\ e.now = now))
    /\ Check(t, l, "NoDeadlineWaits", status = "hang" => e.kind = "hang")
    /\ Check(t, l, "Outcome",
             /\ status = "ret" => e.kind = "ret"
             /\ status = "raise" =>
                  IF cfg.api = "fallback" /\ exc = "Truncated"
                    THEN e.kind = "ret" => (e.ret.tcp /\ e.ret.mark = 99)
                    ELSE e.kind # "ret")
    \* the message handed back is the datagram just taken, not something else
    /\ Check(t, l, "ReturnedIsDelivered",
             status = "ret" => /\ e.ret.mark = Ev(t)[l - 1].mk
                               /\ e.ret.qr = last.qr /\ e.ret.tc = last.tc
                               /\ e.ret.idm = last.idm /\ e.ret.opm = last.opm)
    \* the asynchronous functions are documented to behave as the synchronous ones
    /\ Check(t, l, "SyncAsyncAgree", Log[t].flavor = "async" => Log[t].peer = <<Summary, consumed>>)
    /\ UNCHANGED vars /\ Adv

TraceNext ==
    /\ l <= Len(Ev(t))
    /\ \/ TSend \/ TBlock \/ TSilence \/ TDgram \/ TEnd

Accepted == Accepting(t, l)
=============================================================================
