---------------------------- MODULE Gen_CacheLin ----------------------------
(* Enumerates the concurrent test programs for C17: an initial sequential setup, then one
   short sequence of cache calls per thread.  One behaviour (= one initial state) per
   program; the interleavings are explored on the real code by the deterministic
   scheduler (every schedule with a bounded number of preemptions), and every recorded
   history is judged by Trace_CacheLin. *)
EXTENDS CacheLin, Json
CONSTANTS ProgCalls, MaxProg, MaxRest, Setups
VARIABLES prog, setup
Progs == UNION {[1..n -> ProgCalls] : n \in 1..MaxProg}
GInit == /\ LInit
         /\ setup \in Setups
         /\ prog \in {f \in [Threads -> Progs] : \A th \in Threads \ {"t1"} : Len(f[th]) <= MaxRest}
GNext == FALSE /\ UNCHANGED <<lvars, prog, setup>>
Emit == PrintT("BEH " \o ToJson([kind |-> kind, max |-> max, setup |-> setup, prog |-> prog]))

G(k) == [op |-> "get", k |-> k]
P(k, v, e) == [op |-> "put", k |-> k, v |-> v, exp |-> e]
F(k) == [op |-> "flush", k |-> k]
(* "tick": a thread advances the clock (the property quantifies over clock advances issued from the
   threads too); it is one atomic event of the history, matched by Trace_CacheLin!TTick *)
CallsSmall == {G("k1"), G("k2"), P("k1", 2, 5), P("k3", 2, 5), F("k1"), [op |-> "setmax", n |-> 1], [op |-> "hits"],
               [op |-> "tick", d |-> 2]}
CallsWide == CallsSmall \cup {G("k3"), P("k2", 2, 1), F("k2"), [op |-> "flushall"], [op |-> "reset"], [op |-> "misses"],
                              [op |-> "hitsfor", k |-> "k1"], [op |-> "setmax", n |-> 2]}
(* setups: sequences of sequential calls/ticks made before the threads start *)
S0 == <<>>
S1 == <<P("k1", 1, 1), P("k2", 1, 3), [op |-> "tick", d |-> 1]>>      \* k1 present but expired, k2 fresh
S2 == <<P("k1", 1, 5), P("k2", 1, 5), G("k1")>>                         \* full (max 2), k2 least recent
\* a periodic cleaning pass of the plain cache is due (interval 2) and k1 is expired: the next call cleans
S3 == <<P("k1", 1, 1), P("k2", 1, 9), [op |-> "tick", d |-> 3]>>
AllSetups == {S0, S1, S2, S3}
=============================================================================
