-------------------------------- MODULE Tsig --------------------------------
(* TSIG (RFC 8945) as used by dnspython: digest COMPOSITION and the VALIDATION automaton,
   property C14.

   The MAC is an uninterpreted injective function: H(alg, secret, input) is the free
   constructor [hash, secret, input], so two MACs are equal iff hash function, secret and
   input are equal (trusted: collision resistance of HMAC, also of its truncations).  The
   content of this specification is therefore WHAT is digested (section 4.3, 5.3.1) and in
   which cases a receiver accepts (section 5.2 - 5.4).

   `input` is a sequence of tagged components <<tag, value>>.  The same composition
   operators are used by the bounded model (abstract values) and by Trace_Tsig, which
   supplies values parsed from the octets of a real message and an encoding per tag and
   compares the concatenation with the octets the library really fed to HMAC.

   An exchange is one of
     "query"    one signed message, no prior MAC
     "response" one signed message bound to the MAC of the request
     "stream"   <= MaxEnv envelopes answering one request (AXFR style, section 5.3.1): the
                first and the last are signed, every subset of the others may be unsigned.
   The environment signs and sends (Send), may alter the message in flight or the
   receiver's configuration (fault actions), and delivers it (Deliver) to the receiver
   automaton, whose verdicts are collected in `verdicts`. *)
EXTENDS Integers, Sequences, FiniteSets, TLC

CONSTANTS KeyNames,    \* canonical key names
          Secrets,
          Algs,        \* subset of AllAlgs
          Fudges,
          Skews,       \* receiver clock minus signing clock, values the environment may pick
          Errors,      \* TSIG error field values a signer may put (0 = none)
          Kinds,       \* subset of {"query", "response", "stream"}
          MaxEnv,      \* envelopes per stream
          MaxFaults,   \* fault actions per message
          MaxResign,   \* renderings of one message object after the first (query / response)
          ResignMods   \* subset of {"none", "id", "head", "body"}: what is modified before rendering again

---------------------------------------------------------------------------
(* Algorithms (RFC 8945 section 6 and the fixed-truncation names the library offers) *)
AllAlgs == {"hmac-md5.sig-alg.reg.int", "hmac-sha1", "hmac-sha224", "hmac-sha256", "hmac-sha256-128",
            "hmac-sha384", "hmac-sha384-192", "hmac-sha512", "hmac-sha512-256"}
HashOf(a) == CASE a = "hmac-md5.sig-alg.reg.int" -> "md5"
               [] a = "hmac-sha1" -> "sha1"
               [] a = "hmac-sha224" -> "sha224"
               [] a \in {"hmac-sha256", "hmac-sha256-128"} -> "sha256"
               [] a \in {"hmac-sha384", "hmac-sha384-192"} -> "sha384"
               [] a \in {"hmac-sha512", "hmac-sha512-256"} -> "sha512"
FullBits(h) == CASE h = "md5" -> 128 [] h = "sha1" -> 160 [] h = "sha224" -> 224
                 [] h = "sha256" -> 256 [] h = "sha384" -> 384 [] h = "sha512" -> 512
MacBits(a) == CASE a = "hmac-sha256-128" -> 128
                [] a = "hmac-sha384-192" -> 192
                [] a = "hmac-sha512-256" -> 256
                [] OTHER -> FullBits(HashOf(a))
Max(a, b) == IF a > b THEN a ELSE b
Abs(a) == IF a < 0 THEN -a ELSE a
(* section 5.2.2.1: a MAC shorter than max(10 octets, half the hash) MUST be refused *)
MinMacBits(a) == Max(80, FullBits(HashOf(a)) \div 2)

(* the uninterpreted MAC *)
H(a, secret, input) == [hash |-> HashOf(a), secret |-> secret, input |-> input]
Trunc(h, n) == [h |-> h, bits |-> n]
Mac(a, secret, input) == Trunc(H(a, secret, input), MacBits(a))
AbsMacLen(mac) == mac.bits \div 8

---------------------------------------------------------------------------
(* DIGEST COMPOSITION.  x is a record:
     prior  <<>> or <<mac>>: request MAC (first message) / MAC of the previous signed envelope
     pend   the unsigned envelopes received since the last signed one (later envelopes only)
     origid the ORIGINAL id from the TSIG RR (not the id in the header)
     head   header octets 2..9 (flags, QDCOUNT, ANCOUNT, NSCOUNT)
     ar     ARCOUNT as transmitted, TSIG RR included
     body   the octets between the header and the TSIG RR
     owner  key name (owner of the TSIG RR), canonical form;  class, ttl of the TSIG RR
     alg    algorithm name, canonical form;  time, fudge, error, other of the TSIG RDATA
   ML(_) gives the length in octets of a MAC value. *)
Prior(p, ML(_)) == IF p = <<>> THEN <<>> ELSE << <<"u16", ML(p[1])>>, <<"mac", p[1]>> >>
Wholes(ws) == [i \in 1..Len(ws) |-> <<"whole", ws[i]>>]
MsgPart(x) == << <<"u16", x.origid>>, <<"head", x.head>>, <<"u16", x.ar - 1>>, <<"body", x.body>> >>
Variables(x) == << <<"name", x.owner>>, <<"u16", x.class>>, <<"ttl", x.ttl>>, <<"name", x.alg>>,
                   <<"time", x.time>>, <<"u16", x.fudge>>, <<"u16", x.error>>,
                   <<"u16", Len(x.other)>>, <<"bytes", x.other>> >>
Timers(x) == << <<"time", x.time>>, <<"u16", x.fudge>> >>

(* section 4.3: request (prior = <<>>), response (prior = <<request MAC>>), and the first
   envelope of a stream *)
DigestFirst(x, ML(_)) == Prior(x.prior, ML) \o MsgPart(x) \o Variables(x)
(* section 5.3.1: later envelopes of a stream *)
DigestNext(x, ML(_)) == Prior(x.prior, ML) \o Wholes(x.pend) \o MsgPart(x) \o Timers(x)
Digest(x, first, ML(_)) == IF first THEN DigestFirst(x, ML) ELSE DigestNext(x, ML)

---------------------------------------------------------------------------
(* Abstract messages.  rr is the TSIG RR (NoRR when pos = "none"); pos says where the TSIG
   RR sits: "last" (last record of the additional section), "notlast", "none". *)
ANY == 255
NoRR == [owner |-> [n |-> "-", sp |-> 0], class |-> ANY, ttl |-> 0, alg |-> [n |-> "-", sp |-> 0],
         time |-> 0, fudge |-> 0, mac |-> Trunc(H("hmac-sha1", "-", <<>>), 0), origid |-> 0, error |-> 0,
         other |-> <<>>]
(* names on the wire have a spelling (case, compression); Canon forgets it *)
Canon(nm) == nm.n

XOf(m, prior, pend) ==
    [prior |-> prior, pend |-> pend, origid |-> m.rr.origid, head |-> m.head, ar |-> m.ar, body |-> m.body,
     owner |-> Canon(m.rr.owner), class |-> m.rr.class, ttl |-> m.rr.ttl, alg |-> Canon(m.rr.alg),
     time |-> m.rr.time, fudge |-> m.rr.fudge, error |-> m.rr.error, other |-> m.rr.other]

(* VALIDATION AUTOMATON (receiver).  ring: set of keys [name, secret, alg]; now: receiver
   clock; prior/pend: receiver's chain state; first: no signed envelope accepted yet in
   this exchange.  Verdicts: "ok", "unsigned" (no TSIG RR: nothing was authenticated),
   "FormErr", "Peer", "BadTime", "BadKey", "BadAlg", "BadSig". *)
Verdict(m, ring, now, prior, pend, first) ==
    IF m.pos = "none" THEN "unsigned"
    ELSE IF m.pos # "last" \/ m.rr.class # ANY THEN "FormErr"
    ELSE LET rr == m.rr
             ks == {k \in ring : k.name = Canon(rr.owner)}
         IN IF rr.error # 0 THEN "Peer"
            ELSE IF Abs(now - rr.time) > rr.fudge THEN "BadTime"
            ELSE IF ks = {} THEN "BadKey"
            ELSE LET k == CHOOSE k \in ks : TRUE
                 IN IF k.alg # Canon(rr.alg) THEN "BadAlg"
                    ELSE IF rr.mac # Mac(k.alg, k.secret, Digest(XOf(m, prior, pend), first, AbsMacLen))
                         THEN "BadSig"
                         ELSE "ok"
Rejections == {"FormErr", "Peer", "BadTime", "BadKey", "BadAlg", "BadSig"}

---------------------------------------------------------------------------
VARIABLES kind,      \* kind of exchange
          skey,      \* the signer's key
          fudge,     \* fudge the signer uses
          serror,    \* error field the signer puts
          ring,      \* receiver's keyring
          rreq,      \* request MAC as the receiver knows it (<<>> or <<mac>>)
          sprior, spend,   \* signer's chain state
          rprior, rpend,   \* receiver's chain state
          raccepted, \* number of signed envelopes the receiver accepted
          net,       \* <<>> or <<message in flight>>
          sent,      \* envelopes sent
          lastsigned,\* the last envelope sent was signed
          mf,        \* faults applied to the message in flight
          cf,        \* faults applied to the receiver's configuration (persist)
          skew,      \* receiver clock - signer clock
          taint,     \* an unsigned envelope was accepted although it is not what the signer sent
          verdicts,  \* sequence of [v, bad, signed]
          dead       \* receiver refused a message: exchange over
vars == <<kind, skey, fudge, serror, ring, rreq, sprior, spend, rprior, rpend, raccepted, net, sent,
          lastsigned, mf, cf, skew, taint, verdicts, dead>>

Keys == [name : KeyNames, secret : Secrets, alg : Algs]
T0 == 1000            \* signer's clock (abstract)
ReqMac(k) == Mac(k.alg, k.secret, << <<"request">> >>)
OtherMac(k) == Mac(k.alg, k.secret, << <<"another request">> >>)

Init ==
    /\ kind \in Kinds /\ skey \in Keys /\ fudge \in Fudges /\ serror \in Errors
    /\ ring = {skey}
    /\ rreq = IF kind = "query" THEN <<>> ELSE <<ReqMac(skey)>>
    /\ sprior = rreq /\ rprior = rreq /\ spend = <<>> /\ rpend = <<>> /\ raccepted = 0
    /\ net = <<>> /\ sent = 0 /\ lastsigned = FALSE /\ mf = {} /\ cf = {} /\ skew = 0 /\ taint = FALSE
    /\ verdicts = <<>> /\ dead = FALSE

Multi == kind = "stream"
Limit == IF Multi THEN MaxEnv ELSE 1 + MaxResign

(* the signer *)
BaseMsg(i) == [id |-> 7, head |-> <<"head", i>>, ar |-> 1, body |-> <<"body", i>>, pos |-> "none", rr |-> NoRR]
(* render m0; when signed, the TSIG RR carries origid and a MAC over what is rendered NOW *)
SendMsg(m0, origid, signed) ==
    /\ net = <<>> /\ ~dead /\ sent < Limit
    /\ (signed \/ (Multi /\ sent >= 1))
    /\ IF signed
       THEN LET rr0 == [NoRR EXCEPT !.owner = [n |-> skey.name, sp |-> 0], !.alg = [n |-> skey.alg, sp |-> 0],
                                    !.time = T0, !.fudge = fudge, !.origid = origid, !.error = serror]
                m1 == [m0 EXCEPT !.ar = 2, !.pos = "last", !.rr = rr0]
                mac == Mac(skey.alg, skey.secret, Digest(XOf(m1, sprior, spend), sent = 0 \/ ~Multi, AbsMacLen))
            IN /\ net' = << [m1 EXCEPT !.rr.mac = mac] >>
               /\ sprior' = IF Multi THEN <<mac>> ELSE sprior
               /\ spend' = <<>>
       ELSE /\ net' = <<m0>>
            /\ spend' = Append(spend, m0)
            /\ sprior' = sprior
    /\ sent' = sent + 1 /\ lastsigned' = signed /\ mf' = {}
    /\ UNCHANGED <<kind, skey, fudge, serror, ring, rreq, rprior, rpend, raccepted, cf, skew, taint, verdicts, dead>>
Send(signed) ==
    /\ (Multi \/ sent = 0)
    /\ SendMsg(BaseMsg(sent + 1), BaseMsg(sent + 1).id, signed)
(* The SAME message object (TSIG arranged once, original id fixed then) is rendered again,
   after no change or after a change of its id, header or content: every rendering is a
   message the library signs, so its MAC covers what THIS rendering contains.  In a stream
   the re-rendering is the next envelope. *)
Modify(m, mod) ==
    CASE mod = "none" -> m
      [] mod = "id" -> [m EXCEPT !.id = 9]
      [] mod = "head" -> [m EXCEPT !.head = <<"head", 100 + @[2]>>]
      [] mod = "body" -> [m EXCEPT !.body = <<"body", 100 + @[2]>>]
Resign(mod) ==
    /\ sent >= 1 /\ lastsigned /\ mod \in ResignMods
    /\ SendMsg(Modify(BaseMsg(sent), mod), BaseMsg(sent).id, TRUE)

(* faults on the message in flight.  Authenticated regions: *)
SignedRegions == {"head", "ar", "body", "tsig.time", "tsig.fudge", "tsig.mac", "tsig.origid", "tsig.error",
                  "tsig.other", "tsig.owner", "tsig.alg", "tsig.class", "tsig.ttl", "mac.short"}
UnsignedRegions == {"id", "head", "ar", "body"}
Other(S, v) == CHOOSE w \in S : w # v
TamperMsg(m, region) ==
    CASE region = "id" -> [m EXCEPT !.id = 8]
      [] region = "head" -> [m EXCEPT !.head = <<"head", 0>>]
      [] region = "ar" -> [m EXCEPT !.ar = @ + 1]
      [] region = "body" -> [m EXCEPT !.body = <<"body", 0>>]
      [] region = "tsig.time" -> [m EXCEPT !.rr.time = @ + 1]
      [] region = "tsig.fudge" -> [m EXCEPT !.rr.fudge = @ + 1]
      [] region = "tsig.mac" -> [m EXCEPT !.rr.mac.h.input = << <<"forged">> >>]
      [] region = "tsig.origid" -> [m EXCEPT !.rr.origid = @ + 1]
      [] region = "tsig.error" -> [m EXCEPT !.rr.error = IF @ = 0 THEN 16 ELSE 0]
      [] region = "tsig.other" -> [m EXCEPT !.rr.other = Append(@, 1)]
      [] region = "tsig.owner" -> [m EXCEPT !.rr.owner.n = "forged-name"]
      [] region = "tsig.alg" -> [m EXCEPT !.rr.alg.n = IF @ = "hmac-sha1" THEN "hmac-sha224" ELSE "hmac-sha1"]
      [] region = "tsig.class" -> [m EXCEPT !.rr.class = 1]
      [] region = "tsig.ttl" -> [m EXCEPT !.rr.ttl = 1]
      [] region = "mac.short" -> [m EXCEPT !.rr.mac.bits = MinMacBits(m.rr.alg.n) - 8]
Tamper(region) ==
    /\ net # <<>> /\ Cardinality(mf) < MaxFaults /\ region \notin mf
    /\ region \in (IF net[1].pos = "none" THEN UnsignedRegions ELSE SignedRegions)
    /\ net' = <<TamperMsg(net[1], region)>>
    /\ mf' = mf \cup {region}
    /\ UNCHANGED <<kind, skey, fudge, serror, ring, rreq, sprior, spend, rprior, rpend, raccepted, sent, lastsigned, cf, skew, taint, verdicts, dead>>
(* alterations of octets that are NOT authenticated: the id of a signed message (the
   original id is digested instead), the spelling of the key and algorithm names *)
Benign(what) ==
    /\ net # <<>> /\ net[1].pos # "none" /\ Cardinality(mf) < MaxFaults /\ what \notin mf
    /\ what \in {"benign.id", "benign.owner", "benign.alg"}
    /\ net' = << CASE what = "benign.id" -> [net[1] EXCEPT !.id = 8]
                   [] what = "benign.owner" -> [net[1] EXCEPT !.rr.owner.sp = 1]
                   [] what = "benign.alg" -> [net[1] EXCEPT !.rr.alg.sp = 1] >>
    /\ mf' = mf \cup {what}
    /\ UNCHANGED <<kind, skey, fudge, serror, ring, rreq, sprior, spend, rprior, rpend, raccepted, sent, lastsigned, cf, skew, taint, verdicts, dead>>
MoveTsig ==
    /\ net # <<>> /\ net[1].pos = "last" /\ Cardinality(mf) < MaxFaults /\ "move" \notin mf
    /\ net' = << [net[1] EXCEPT !.pos = "notlast", !.ar = @ + 1] >>
    /\ mf' = mf \cup {"move"}
    /\ UNCHANGED <<kind, skey, fudge, serror, ring, rreq, sprior, spend, rprior, rpend, raccepted, sent, lastsigned, cf, skew, taint, verdicts, dead>>
StripTsig ==
    /\ net # <<>> /\ net[1].pos = "last" /\ Cardinality(mf) < MaxFaults /\ "strip" \notin mf
    /\ net' = << [net[1] EXCEPT !.pos = "none", !.ar = @ - 1, !.rr = NoRR] >>
    /\ mf' = mf \cup {"strip"}
    /\ UNCHANGED <<kind, skey, fudge, serror, ring, rreq, sprior, spend, rprior, rpend, raccepted, sent, lastsigned, cf, skew, taint, verdicts, dead>>

(* faults on the receiver's side *)
ConfigFault(what) ==
    /\ ~dead /\ net # <<>> /\ Cardinality(cf) < MaxFaults /\ what \notin cf
    /\ CASE what = "wrongkey" -> /\ (raccepted = 0 \/ ~Multi)    \* the secret is bound when the exchange starts (running HMAC context)
                                 /\ ring' = {[skey EXCEPT !.secret = "forged-secret"]} /\ UNCHANGED <<rreq, rprior>>
         [] what = "wrongname" -> ring' = {[skey EXCEPT !.name = "another-name"]} /\ UNCHANGED <<rreq, rprior>>
         [] what = "wrongalg" -> ring' = {[skey EXCEPT !.alg = IF @ = "hmac-sha1" THEN "hmac-sha224" ELSE "hmac-sha1"]}
                                 /\ UNCHANGED <<rreq, rprior>>
         [] what = "wrongreqmac" -> /\ kind # "query" /\ (raccepted = 0 \/ ~Multi)
                                    /\ rreq' = <<OtherMac(skey)>> /\ rprior' = <<OtherMac(skey)>> /\ ring' = ring
         [] what = "noreqmac" -> /\ kind # "query" /\ (raccepted = 0 \/ ~Multi)
                                 /\ rreq' = <<>> /\ rprior' = <<>> /\ ring' = ring
    /\ cf' = cf \cup {what}
    /\ UNCHANGED <<kind, skey, fudge, serror, rpend, raccepted, spend, sprior, net, sent, lastsigned, mf, skew, taint, verdicts, dead>>
ClockSkew(d) ==
    /\ ~dead /\ net # <<>> /\ skew = 0 /\ d # 0
    /\ skew' = d
    /\ UNCHANGED <<kind, skey, fudge, serror, ring, rreq, sprior, spend, rprior, rpend, raccepted, net, sent, lastsigned, mf, cf, taint, verdicts, dead>>

(* is the message in flight, in the receiver's present configuration, something a
   receiver must refuse?  (what the property states, NOT how the automaton decides) *)
(* Section 5.3.1: from the second signed envelope of a stream on, only the timers of the
   TSIG RR are digested; its other data and TTL are then not covered by the MAC (owner,
   algorithm, class and error are still checked against the key / fixed values). *)
RFirst == raccepted = 0 \/ ~Multi
AuthFaults(first) == (SignedRegions \cup UnsignedRegions \cup {"move"})
                        \ (IF first THEN {} ELSE {"tsig.other", "tsig.ttl"})
MustRefuse ==
    \/ taint
    \/ mf \cap AuthFaults(RFirst) # {}
    \/ cf # {}
    \/ Abs(skew) > fudge
    \/ serror # 0

Deliver ==
    /\ net # <<>> /\ ~dead
    /\ LET m == net[1]
           first == raccepted = 0 \/ ~Multi
           v == Verdict(m, ring, T0 + skew, rprior, rpend, first)
       IN /\ verdicts' = Append(verdicts, [v |-> v, bad |-> MustRefuse, signed |-> m.pos # "none", mf |-> mf, cf |-> cf,
                                            skew |-> skew, taint |-> taint])
          /\ CASE v = "ok" -> /\ rprior' = IF Multi THEN <<m.rr.mac>> ELSE rprior
                              /\ rpend' = <<>> /\ raccepted' = raccepted + 1 /\ taint' = FALSE /\ dead' = FALSE
               [] v = "unsigned" -> /\ rpend' = IF Multi /\ raccepted > 0 THEN Append(rpend, m) ELSE rpend
                                    /\ taint' = (Multi /\ (taint \/ mf # {}))   \* only a stream carries state from one message to the next
                                    /\ UNCHANGED <<rprior, raccepted>> /\ dead' = FALSE
               [] OTHER -> dead' = TRUE /\ UNCHANGED <<rprior, rpend, raccepted, taint>>
    /\ net' = <<>> /\ mf' = {}
    /\ UNCHANGED <<kind, skey, fudge, serror, ring, rreq, sprior, spend, sent, lastsigned, cf, skew>>

Next ==
    \/ \E s \in BOOLEAN : Send(s)
    \/ \E md \in ResignMods : Resign(md)
    \/ \E r \in SignedRegions \cup UnsignedRegions : Tamper(r)
    \/ \E w \in {"benign.id", "benign.owner", "benign.alg"} : Benign(w)
    \/ MoveTsig \/ StripTsig
    \/ \E w \in {"wrongkey", "wrongname", "wrongalg", "wrongreqmac", "noreqmac"} : ConfigFault(w)
    \/ \E d \in Skews : ClockSkew(d)
    \/ Deliver

Spec == Init /\ [][Next]_vars

---------------------------------------------------------------------------
(* PROPERTIES *)
Last == verdicts[Len(verdicts)]
(* every genuine signed message validates: all algorithms, request / response / every
   signed-unsigned pattern of a stream, under alterations of unauthenticated octets *)
GenuineAccepted == \A i \in 1..Len(verdicts) :
    (verdicts[i].signed /\ ~verdicts[i].bad) => verdicts[i].v = "ok"
(* nothing that must be refused is ever accepted as validly signed *)
AlteredRefused == \A i \in 1..Len(verdicts) :
    (verdicts[i].signed /\ verdicts[i].bad) => verdicts[i].v \in Rejections
(* a message without TSIG is never reported as signed; a stream whose envelopes were
   altered can not end (the last envelope must be signed, and that one is refused) *)
UnsignedNeverOk == \A i \in 1..Len(verdicts) : ~verdicts[i].signed => verdicts[i].v = "unsigned"
(* time window, inclusive edges *)
Window == \A i \in 1..Len(verdicts) :
    LET r == verdicts[i] IN
    (r.signed /\ r.mf = {} /\ r.cf = {} /\ serror = 0 /\ ~r.taint)
       => /\ (Abs(r.skew) <= fudge) => r.v = "ok"
          /\ (Abs(r.skew) > fudge) => r.v = "BadTime"
(* family of single class-level faults *)
Family == \A i \in 1..Len(verdicts) :
    LET r == verdicts[i] IN
    (r.signed /\ Abs(r.skew) <= fudge /\ serror = 0 /\ Cardinality(r.mf \cup r.cf) = 1 /\ ~r.taint) =>
        /\ "move" \in r.mf => r.v = "FormErr"
        /\ "tsig.class" \in r.mf => r.v = "FormErr"
        /\ "tsig.error" \in r.mf => r.v = "Peer"
        /\ "wrongkey" \in r.cf => r.v = "BadSig"
        /\ "wrongname" \in r.cf => r.v = "BadKey"
        /\ "wrongalg" \in r.cf => r.v = "BadAlg"
        /\ "wrongreqmac" \in r.cf => r.v = "BadSig"
        /\ "noreqmac" \in r.cf => r.v = "BadSig"
PeerReported == \A i \in 1..Len(verdicts) :
    (verdicts[i].signed /\ serror # 0 /\ verdicts[i].mf = {}) => verdicts[i].v = "Peer"
TypeOK == /\ kind \in Kinds /\ sent \in 0..MaxEnv /\ Len(net) <= 1 /\ dead \in BOOLEAN
          /\ \A i \in 1..Len(verdicts) : verdicts[i].v \in Rejections \cup {"ok", "unsigned"}
=============================================================================
