INIT LInit
NEXT LNext
CONSTANTS
  Keys = {"k1", "k2"}
  Vals = {1}
  TTLs = {1, 3}
  Sizes = {1, 2}
  Steps = {1}
  Kinds = {"lru", "plain"}
  Threads = {"t1", "t2"}
  Depth = 7
CONSTRAINT Bound
INVARIANT LinLruBound
INVARIANT LinOrderIsData
INVARIANT LinCounters
CHECK_DEADLOCK FALSE
