INIT TraceInit
NEXT TraceNext
CONSTANTS
  Keys = {}
  Queries = {}
  Vals = {}
  MaxOps = 0
  CheckItems = TRUE
CONSTRAINT Accepted
POSTCONDITION Post
CHECK_DEADLOCK FALSE
