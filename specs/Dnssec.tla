------------------------------- MODULE Dnssec -------------------------------
(* C15 - the DNSSEC computations that need no private key, written from the RFCs as an
   ORACLE (pure operators).  Nothing here is taken from the dnspython source.

   Values.  An octet string is a sequence over 0..255.  A NAME is a sequence of non-empty
   labels (octet strings), implicitly absolute: <<>> is the root.  An RDATA is given
   abstractly as a sequence of SEGMENTS in wire order: <<"b", octets>> (literal octets) or
   <<"n", name>> (an embedded domain name); its plain wire form is the concatenation with
   every name written uncompressed.  An RR of a zone is [o, t, c, ttl, segs] with owner o,
   numeric type t and class c, ttl as 4 octets (TLC integers are 32 bit signed).

   Sources: RFC 4034 6.1 (canonical name order), 6.2 (canonical RR form), 6.3 (canonical
   RR order), 3.1.8.1 (signature input), Appendix B (key tag), 5.1.4 (DS digest), 4.1.2
   (type bitmap); RFC 4035 2.2 / 2.3 (what is signed, NSEC chain, bitmap at a
   delegation), 5.3.2 (wildcard owner reconstruction); RFC 6840 5.1; RFC 3597 7;
   RFC 5155 5 (NSEC3 hash), RFC 4648 7 (base32hex); RFC 8976 3.3.1 (ZONEMD SIMPLE). *)
EXTENDS Integers, Sequences, FiniteSets, DnssecTable

Octet == 0..255

(* concatenation of a sequence of sequences; divide and conquer keeps TLC's recursion
   depth logarithmic (linear recursion overflows the Java stack on long inputs) *)
RECURSIVE FlatR(_, _, _)
FlatR(ss, lo, hi) ==
    IF lo > hi THEN <<>>
    ELSE IF lo = hi THEN ss[lo]
    ELSE LET mid == (lo + hi) \div 2 IN FlatR(ss, lo, mid) \o FlatR(ss, mid + 1, hi)
Flat(ss) == FlatR(ss, 1, Len(ss))
U16(x) == <<x \div 256, x % 256>>
ToSet(s) == {s[i] : i \in 1..Len(s)}

-----------------------------------------------------------------------------
(* Names: only the 26 ASCII upper-case letters fold (RFC 4343); canonical wire form is
   lower-cased and never compressed (RFC 4034 6.2 items 1 and 2). *)
Lower(c)      == IF c >= 65 /\ c <= 90 THEN c + 32 ELSE c
LowerLabel(x) == [i \in 1..Len(x) |-> Lower(x[i])]
LowerName(n)  == [i \in 1..Len(n) |-> LowerLabel(n[i])]
NameWire(n)   == Flat([i \in 1..Len(n) |-> <<Len(n[i])>> \o n[i]]) \o <<0>>
CanonName(n)  == NameWire(LowerName(n))
SameName(a, b) == LowerName(a) = LowerName(b)

(* left-justified unsigned octet order, "absence of an octet sorts before a zero octet" *)
RECURSIVE OctLessFrom(_, _, _)
OctLessFrom(a, b, i) ==
    IF i + 15 <= Len(a) /\ i + 15 <= Len(b) /\ SubSeq(a, i, i + 15) = SubSeq(b, i, i + 15)
    THEN OctLessFrom(a, b, i + 16)                    \* equal chunk: skip it (bounds the depth)
    ELSE IF i > Len(a) THEN i <= Len(b)
    ELSE IF i > Len(b) THEN FALSE
    ELSE IF a[i] < b[i] THEN TRUE
    ELSE IF a[i] > b[i] THEN FALSE
    ELSE OctLessFrom(a, b, i + 1)
OctLess(a, b) == OctLessFrom(a, b, 1)

(* RFC 4034 6.1: compare label by label from the most significant (rightmost) label,
   each label as a lower-cased octet string; a proper suffix sorts first. *)
RECURSIVE NameLessFrom(_, _, _)         \* k rightmost labels already found equal
NameLessFrom(a, b, k) ==
    IF k = Len(a) THEN k < Len(b)
    ELSE IF k = Len(b) THEN FALSE
    ELSE LET x == LowerLabel(a[Len(a) - k])
             y == LowerLabel(b[Len(b) - k])
         IN  IF OctLess(x, y) THEN TRUE
             ELSE IF OctLess(y, x) THEN FALSE
             ELSE NameLessFrom(a, b, k + 1)
NameLess(a, b) == NameLessFrom(a, b, 0)

(* sorting a finite set under a strict TOTAL order: the i-th element is the one with
   exactly i-1 smaller elements (no recursion through an operator argument) *)
SortBy(S, Less(_, _)) ==
    [i \in 1..Cardinality(S) |-> CHOOSE x \in S : Cardinality({y \in S : Less(y, x)}) = i - 1]
IntLess(a, b) == a < b

-----------------------------------------------------------------------------
(* RFC 4034 6.2 canonical RDATA.  Which embedded names fold is a per-type fact of the
   table (DnssecTable, from specs/canon_rfc4034.json); absent = keep (RFC 3597 7). *)
NameIdx(segs, i) == Cardinality({j \in 1..i : segs[j][1] = "n"})
LowerField(t, k) == t \in DOMAIN CanonTable /\ k <= Len(CanonTable[t]) /\ CanonTable[t][k]
SegWire(s)       == IF s[1] = "n" THEN NameWire(s[2]) ELSE s[2]
SegCanon(t, segs, i) ==
    IF segs[i][1] = "n" /\ LowerField(t, NameIdx(segs, i)) THEN CanonName(segs[i][2])
    ELSE SegWire(segs[i])
Wire(segs)     == Flat([i \in 1..Len(segs) |-> SegWire(segs[i])])
Canon(t, segs) == Flat([i \in 1..Len(segs) |-> SegCanon(t, segs, i)])

(* RFC 4034 6.3: RRs of an RRset sorted by canonical RDATA as octet strings; duplicates
   are removed (the liberal reading the RFC permits; see the trace spec for the other) *)
CanonOrder(rdatas) == SortBy(ToSet(rdatas), OctLess)

RRWire(ownerWire, t, c, ttl, rd) == ownerWire \o U16(t) \o U16(c) \o ttl \o U16(Len(rd)) \o rd

-----------------------------------------------------------------------------
(* RFC 4034 3.1.8.1 signature input.  sg = [cov, alg, labels, ottl, exp, inc, tag, signer]
   (cov, tag: 2 octets; ottl, exp, inc: 4 octets).  RFC 4035 5.3.2: an owner with more
   labels than the Labels field is replaced by "*." + its rightmost Labels labels; one
   with fewer labels cannot have been signed by this RRSIG. *)
IsWild(owner) == Len(owner) > 0 /\ owner[1] = <<42>>
SigOwner(owner, labels) ==
    IF labels < Len(owner) THEN << <<42>> >> \o SubSeq(owner, Len(owner) - labels + 1, Len(owner))
    ELSE owner
SigVerdict(owner, labels) ==
    IF labels > Len(owner) THEN "reject"
    ELSE IF IsWild(owner) /\ labels # Len(owner) - 1 THEN "free"   \* inconsistent wildcard count
    ELSE "accept"
SigPrefix(sg) == sg.cov \o <<sg.alg, sg.labels>> \o sg.ottl \o sg.exp \o sg.inc \o sg.tag
SigInput(sg, owner, t, c, rrs) ==
    LET ow     == CanonName(SigOwner(owner, sg.labels))
        sorted == CanonOrder([i \in 1..Len(rrs) |-> Canon(t, rrs[i])])
    IN  SigPrefix(sg) \o CanonName(sg.signer)
            \o Flat([i \in 1..Len(sorted) |-> RRWire(ow, t, c, sg.ottl, sorted[i])])

-----------------------------------------------------------------------------
(* RFC 4034 Appendix B key tag over the DNSKEY RDATA octets (B.1: algorithm 1). *)
RECURSIVE KtSum(_, _, _)               \* sum over positions lo..hi, divide and conquer
KtSum(rd, lo, hi) ==
    IF lo > hi THEN 0
    ELSE IF lo = hi THEN (IF lo % 2 = 1 THEN rd[lo] * 256 ELSE rd[lo])
    ELSE LET mid == (lo + hi) \div 2 IN KtSum(rd, lo, mid) + KtSum(rd, mid + 1, hi)
KeyTag(rd) ==
    IF rd[4] = 1 THEN rd[Len(rd) - 2] * 256 + rd[Len(rd) - 1]
    ELSE LET ac == KtSum(rd, 1, Len(rd)) IN (ac + ((ac \div 65536) % 65536)) % 65536

(* RFC 4034 5.1.4: digest = hash(canonical owner | DNSKEY RDATA); DS RDATA 5.1 *)
DsPreimage(owner, key) == CanonName(owner) \o key
DsRdata(key, dt, dig)  == U16(KeyTag(key)) \o <<key[4], dt>> \o dig

(* RFC 5155 5: IH(salt, x, 0) = H(x | salt), IH(salt, x, k) = H(IH(salt, x, k-1) | salt),
   x = canonical owner name; presented as base32hex (RFC 4648 7) without padding. *)
Nsec3Pre0(n, salt) == CanonName(n) \o salt
Bits(o) == [i \in 1..8 |-> (o \div (2 ^ (8 - i))) % 2]
B32Vals(bytes) ==
    LET bs == Flat([i \in 1..Len(bytes) |-> Bits(bytes[i])])
    IN  [k \in 1..(Len(bs) \div 5) |->
            16 * bs[5 * k - 4] + 8 * bs[5 * k - 3] + 4 * bs[5 * k - 2] + 2 * bs[5 * k - 1] + bs[5 * k]]
B32Char(v) == IF v < 10 THEN 48 + v ELSE 97 + (v - 10)          \* lower-case alphabet
Base32Hex(bytes) == [k \in 1..Len(B32Vals(bytes)) |-> B32Char(B32Vals(bytes)[k])]

-----------------------------------------------------------------------------
(* RFC 4034 4.1.2 type bitmap: windows in increasing order, each window block number,
   length 1..32, then octets with bit 0 the most significant; no trailing zero octets. *)
BitVal(inw, j, b) == IF ((j - 1) * 8 + b) \in inw THEN 2 ^ (7 - b) ELSE 0
WinOctets(T, w) ==
    LET inw == {t % 256 : t \in {u \in T : u \div 256 = w}}
        mx  == CHOOSE m \in inw : \A k \in inw : k <= m
    IN  [j \in 1..(mx \div 8 + 1) |->
            BitVal(inw, j, 0) + BitVal(inw, j, 1) + BitVal(inw, j, 2) + BitVal(inw, j, 3)
          + BitVal(inw, j, 4) + BitVal(inw, j, 5) + BitVal(inw, j, 6) + BitVal(inw, j, 7)]
BitmapWire(T) ==
    LET ws == SortBy({t \div 256 : t \in T}, IntLess)
    IN  Flat([i \in 1..Len(ws) |-> <<ws[i], Len(WinOctets(T, ws[i]))>> \o WinOctets(T, ws[i])])

RECURSIVE BitmapTypes(_)                \* inverse, used only by the model's round-trip law
BitmapTypes(bm) ==
    IF bm = <<>> THEN {}
    ELSE LET w == bm[1]
             n == bm[2]
         IN  {t \in (w * 256)..(w * 256 + 255) :
                 LET j == (t % 256) \div 8 + 1
                     b == (t % 256) % 8
                 IN  j <= n /\ (bm[2 + j] \div (2 ^ (7 - b))) % 2 = 1}
             \cup BitmapTypes(SubSeq(bm, 3 + n, Len(bm)))

-----------------------------------------------------------------------------
(* Zones.  z = [origin |-> name, rrs |-> sequence of RRs].  Owner identity is the name
   as a DNS name (case-insensitive), so node sets live in lower-cased space. *)
TSOA == 6   TNS == 2   TDS == 43   TRRSIG == 46   TNSEC == 47   TZONEMD == 63

Apex(z)       == LowerName(z.origin)
ZNames(z)     == {LowerName(z.rrs[i].o) : i \in 1..Len(z.rrs)}
RRsAt(z, n)   == {i \in 1..Len(z.rrs) : LowerName(z.rrs[i].o) = n}
TypesAt(z, n) == {z.rrs[i].t : i \in RRsAt(z, n)}
IsSuffix(s, n)      == Len(s) <= Len(n) /\ SubSeq(n, Len(n) - Len(s) + 1, Len(n)) = s
StrictlyBelow(n, d) == Len(n) > Len(d) /\ IsSuffix(d, n)

(* RFC 4035 2.2/2.3: a zone cut is a non-apex name owning NS; everything strictly below
   a cut (glue, occluded data) is not authoritative and gets neither RRSIG nor NSEC;
   the cut itself is in the chain.  Empty non-terminals own nothing, hence no NSEC. *)
IsCut(z, n)    == n # Apex(z) /\ TNS \in TypesAt(z, n)
Occluded(z, n) == \E d \in ZNames(z) : IsCut(z, d) /\ StrictlyBelow(n, d)
AuthNames(z)   == {n \in ZNames(z) : ~Occluded(z, n)}

(* RFC 4035 2.3: at a delegation point the bits for NS and for the RRsets the parent is
   authoritative for (DS, and the NSEC / its RRSIG) are set, every other bit MUST be clear. *)
NsecTypes(z, n) ==
    (IF IsCut(z, n) THEN TypesAt(z, n) \cap {TNS, TDS} ELSE TypesAt(z, n)) \cup {TRRSIG, TNSEC}

ChainOrder(z) == SortBy(AuthNames(z), NameLess)
NsecChain(z) ==
    LET s == ChainOrder(z)
    IN  {<<s[i], IF i = Len(s) THEN Apex(z) ELSE s[i + 1], BitmapWire(NsecTypes(z, s[i]))>> : i \in 1..Len(s)}

(* RFC 4035 2.2: every authoritative RRset is signed - at a cut only DS (and the NSEC) -
   RRSIGs themselves never. *)
SignedRRsets(z) ==
    UNION {{<<n, t>> : t \in ((IF IsCut(z, n) THEN TypesAt(z, n) \cap {TDS} ELSE TypesAt(z, n) \ {TRRSIG})
                              \cup {TNSEC})} : n \in AuthNames(z)}

(* RFC 8976 3.3.1 SIMPLE scheme: every RR of the zone - glue and occluded data included -
   in canonical form and canonical order (owner 6.1, then numeric type, then 6.3),
   duplicates dropped, except the apex ZONEMD RRset and the RRSIG covering it. *)
Covered(rr) == rr.segs[1][2][1] * 256 + rr.segs[1][2][2]      \* RRSIG: first two RDATA octets
ZmdExcluded(z, rr) ==
    /\ LowerName(rr.o) = Apex(z)
    /\ rr.t = TZONEMD \/ (rr.t = TRRSIG /\ Covered(rr) = TZONEMD)
ZmdKey(rr) == [o |-> LowerName(rr.o), t |-> rr.t, c |-> rr.c, ttl |-> rr.ttl, rd |-> Canon(rr.t, rr.segs)]
ZmdLess(a, b) ==
    IF a.o # b.o THEN NameLess(a.o, b.o)
    ELSE IF a.t # b.t THEN a.t < b.t
    ELSE IF a.rd # b.rd THEN OctLess(a.rd, b.rd)
    ELSE OctLess(a.ttl, b.ttl)
ZonemdPreimage(z) ==
    LET keep == {ZmdKey(z.rrs[i]) : i \in {j \in 1..Len(z.rrs) : ~ZmdExcluded(z, z.rrs[j])}}
        s    == SortBy(keep, ZmdLess)
    IN  Flat([i \in 1..Len(s) |-> RRWire(NameWire(s[i].o), s[i].t, s[i].c, s[i].ttl, s[i].rd)])
SoaSerial(z) ==
    LET i == CHOOSE j \in RRsAt(z, Apex(z)) : z.rrs[j].t = TSOA
    IN  SubSeq(z.rrs[i].segs[3][2], 1, 4)
ZonemdRdata(z, alg, dig) == SoaSerial(z) \o <<1, alg>> \o dig
=============================================================================
