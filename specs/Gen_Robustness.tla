--------------------------- MODULE Gen_Robustness ---------------------------
(* Emits every reachable state of the fault generator as ONE input: its descriptor (kind,
   base, fault actions in order - the environment's choices) and its concretisation
   (octets / text).  No expected result is emitted. *)
EXTENDS Robustness, Json

Common == [kind |-> kind, base |-> base, hist |-> hist]
InputRec ==
    CASE kind = "msg" -> Common @@ [w |-> Wire(kind, lay, post)]
      [] kind = "namew" -> Common @@ [w |-> Wire(kind, lay, post), cur |-> lay.cur]
      [] kind \in {"rdw", "optw"} -> Common @@ [w |-> SpecBytes(lay), cur |-> Len(NPrefix), len |-> lay.len]
      [] kind = "optm" -> Common @@ [w |-> OptmBytes(lay), cur |-> OptmCur, len |-> Len(OptmRdata(lay))]
      [] kind = "zinc" -> Common @@ [s |-> Text(ZincMain(lay)), sub |-> Text(ZincSub(lay))]
      [] OTHER -> Common @@ [s |-> Text(lay)]
Emit == PrintT("BEH " \o ToJson(InputRec))
=============================================================================
