---------------------------- MODULE Gen_ProcOrder ----------------------------
(* Enumerates the abstract rdatasets handed to processing_order(): every multiset of at
   most MaxRecs records <<a, b, w>> (a = NAPTR order, b = preference/priority, w = weight)
   over the declared value sets, as one canonical (sorted) sequence each.  The
   "behaviour" is this single input; which concrete rdata types can carry it, the
   insertion order and the seeds are chosen by the check (environment choices, logged). *)
EXTENDS Integers, Sequences, FiniteSets, TLC, Json

CONSTANTS GA, GB, GW, MaxRecs
VARIABLE inp

Recs == {<<a, b, w>> : a \in GA, b \in GB, w \in GW}
RLeq(r, s) == \/ r[1] < s[1]
              \/ r[1] = s[1] /\ r[2] < s[2]
              \/ r[1] = s[1] /\ r[2] = s[2] /\ r[3] <= s[3]
RECURSIVE Sorted(_)
\* all non-decreasing sequences of length n
Sorted(n) == IF n = 0 THEN {<<>>}
             ELSE {Append(s, x) : s \in Sorted(n - 1), x \in Recs} \cap
                  {q \in UNION {[1..n -> Recs]} : \A i \in 1..(n - 1) : RLeq(q[i], q[i + 1])}
Universe == UNION {Sorted(n) : n \in 0..MaxRecs}

GInit == \E x \in Universe : inp = x /\ PrintT("BEH " \o ToJson([recs |-> x]))
GNext == FALSE /\ UNCHANGED inp
=============================================================================
