--------------------------- MODULE Trace_AddrCodec ---------------------------
(* Trace validation for X01.  Every trace is ONE event = one group of calls of the real
   dns.ipv4 / dns.ipv6 / dns.inet / dns.reversename / dns.e164 functions on one input; every
   logged outcome is recomputed with the operators of AddrCodec / AddrNames.
   Outcomes: <<"ok", value>> or <<"err", syn, val>> (syn: the exception is a
   dns.exception.SyntaxError, val: it is a ValueError); <<"skip">> = call not made.
   Hard: what the RFCs / docstrings state (verdict, value, canonical form, the DOCUMENTED
   exception class).  Free: everything AddrCodec marks Free, the exception class where
   none is documented, the spelling of an embedded address, letter case of name labels. *)
EXTENDS AddrNames, VTrace

VARIABLES t, l
InAddrT == <<<<105, 110, 45, 97, 100, 100, 114>>, <<97, 114, 112, 97>>, <<>>>>          \* in-addr.arpa.
Ip6T == <<<<105, 112, 54>>, <<97, 114, 112, 97>>, <<>>>>                               \* ip6.arpa.
TraceInit == RegInit /\ t \in 1..NTraces /\ l = 1
e == Ev(t)[l]
Adv == l' = l + 1 /\ t' = t
C(id, cond) == Check(t, l, id, cond)

IsE(r) == r[1] = "err"
Syn(r) == r[1] = "err" /\ r[2]
Val(r) == r[1] = "err" /\ r[3]
(* logged outcome r against specification verdict s (Ok / Err / Free) *)
Agrees(r, s) == CASE s[1] = "ok" -> r[1] = "ok" /\ r[2] = s[2]
                  [] s[1] = "err" -> IsE(r)
                  [] s[1] = "free" -> IsE(r) \/ (r[1] = "ok" /\ r[2] = s[2])
SkipOr(r, s) == r[1] = "skip" \/ Agrees(r, s)
(* canonicalize-like call: the text of whatever the parser verdict s denotes, in set F(a) *)
CanonAgrees(r, s, F(_)) == CASE s[1] = "ok" -> r[1] = "ok" /\ r[2] \in F(s[2])
                             [] s[1] = "err" -> IsE(r)
                             [] s[1] = "free" -> IsE(r) \/ (r[1] = "ok" /\ r[2] \in F(s[2]))
T4(a) == {Ntoa4(a)}

TNtoa6 ==
    /\ e.op = "ntoa6"
    /\ IF Len(e.a) = 16
       THEN /\ C("Ntoa6Total", e.res[1] = "ok" /\ e.ntop = e.res)
            /\ C("Ntoa6RoundTrip", Aton6(e.res[2]) = Ok(e.a))
            /\ C("Ntoa6Canonical", e.res[2] \in Canon6(e.a))
            /\ C("IsMapped", e.mapped = IsMapped(e.a))
       ELSE C("Ntoa6BadLength", Val(e.res))           \* "raises ValueError: If the address is not 16 bytes long"
    /\ Adv
TNtoa4 ==
    /\ e.op = "ntoa4"
    /\ IF Len(e.a) = 4
       THEN C("Ntoa4", e.res = Ok(Ntoa4(e.a)) /\ e.ntop = e.res)
       ELSE C("Ntoa4BadLength", IsE(e.res))
    /\ Adv
TAton ==
    /\ e.op = "aton"
    /\ LET s4 == Aton4(e.text)
           s6 == Aton6S(e.text, FALSE)
           s6s == Aton6S(e.text, TRUE)
       IN  /\ C("Aton4", Agrees(e.r4, s4))
           /\ C("Aton6", Agrees(e.r6, s6))
           /\ C("Aton6IgnoreScope", Agrees(e.r6s, s6s))
           /\ C("Aton4Bytes", SkipOr(e.r4b, s4))
           /\ C("Aton6Bytes", SkipOr(e.r6b, s6))
           /\ C("Pton4", Agrees(e.p4, s4))
           /\ C("Pton6", Agrees(e.p6, s6s))
    /\ Adv
TCanon ==
    /\ e.op = "canon"
    /\ LET s4 == Aton4(e.text)
           s6 == Aton6S(e.text, FALSE)
           si == IF IsErr(s6) THEN s4 ELSE s6
       IN  /\ C("Canon4", CanonAgrees(e.c4, s4, T4))
           /\ C("Canon4Error", IsE(e.c4) => Syn(e.c4))          \* "raises dns.exception.SyntaxError: If the text is not valid"
           /\ C("Canon6", CanonAgrees(e.c6, s6, Canon6))
           /\ C("Canon6Error", IsE(e.c6) => Syn(e.c6))
           /\ C("CanonInet", IF IsErr(s6) THEN CanonAgrees(e.ci, s4, T4) ELSE CanonAgrees(e.ci, s6, Canon6))
           /\ C("CanonInetError", IsE(e.ci) => Val(e.ci))        \* "raises ValueError: If the text is not a valid address"
    /\ Adv
TInet ==
    /\ e.op = "inet"
    /\ LET c == Classify(e.text)
           none == c[1] = "none"
           ll == LowLevel(e.text, e.port)
       IN  /\ C("AfForAddress", IF none THEN IsE(e.af) ELSE (e.af = Ok(Fam(c)) \/ (IsFreeC(c) /\ IsE(e.af))))
           /\ C("AfForAddressError", IsE(e.af) => Val(e.af))     \* "raises ValueError: If the address family cannot be determined"
           /\ C("IsAddress", IsFreeC(c) \/ e.isaddr = Ok(~none))
           /\ C("IsMulticast", IF none THEN IsE(e.mc) ELSE (e.mc = Ok(Multicast(c)) \/ (IsFreeC(c) /\ IsE(e.mc))))
           /\ C("IsMulticastError", IsE(e.mc) => Val(e.mc))
           /\ C("LowLevelTuple", ll[1] = "any" \/ Agrees(e.ll, ll))
    /\ Adv
NameAllowed(r, S) == IF IsE(r) THEN Err \in S ELSE \E s \in S : IsOk(s) /\ SameName(r[2], s[2])
TFromAddr ==
    /\ e.op = "fromaddr"
    /\ C("FromAddress", NameAllowed(e.res, FromAddressAllowed(e.text, InAddrT, Ip6T)))
    /\ C("FromAddressOrigins", NameAllowed(e.alt, FromAddressAllowed(e.text, e.o4, e.o6)))
    /\ C("FromAddressError", (IsE(e.res) => Syn(e.res)) /\ (IsE(e.alt) => Syn(e.alt)))   \* documented SyntaxError
    /\ Adv
TToAddr ==
    /\ e.op = "toaddr"
    /\ LET v == ToAddress(e.n, e.o4, e.o6)
       IN  /\ C("ToAddressRefuses", v[1] = "err" => IsE(e.res))      \* "If the name does not have a reverse-map form"
           /\ C("ToAddressAccepts", v[1] \in {"ok4", "ok6"} => e.res[1] = "ok")
           /\ C("ToAddressText", e.res[1] = "ok" /\ v[1] # "err" => ToAddressTextOK(v, e.res[2]))
           /\ C("ToAddressError", IsE(e.res) => Syn(e.res))
    /\ Adv
TE164F ==
    /\ e.op = "e164f"
    /\ C("FromE164", e.res[1] = "ok" /\ SameName(e.res[2], FromE164(e.text, e.origin)))
    /\ Adv
TE164T ==
    /\ e.op = "e164t"
    /\ C("ToE164", Agrees(e.res, ToE164(e.n, e.origin, e.plus)))
    /\ Adv

(* any_for_af "Return the 'any' address for the specified address family"; inet_pton / inet_ntop
   "raises NotImplementedError: If the address family is not implemented" *)
NotImpl(r) == r[1] = "err" /\ r[4] = "NotImplementedError"
TFamily ==
    /\ e.op = "family"
    /\ C("AnyForAf", /\ e.any4[1] = "ok" /\ Aton4(e.any4[2]) = Ok(Zeros(4))
                      /\ e.any6[1] = "ok" /\ Aton6(e.any6[2]) = Ok(Zeros(16)))
    /\ C("FamilyNotImplemented", NotImpl(e.anybad) /\ NotImpl(e.ptonbad) /\ NotImpl(e.ntopbad) /\ NotImpl(e.llbad))
    /\ Adv

TraceNext == l <= Len(Ev(t)) /\ (TFamily \/ TNtoa6 \/ TNtoa4 \/ TAton \/ TCanon \/ TInet \/ TFromAddr \/ TToAddr \/ TE164F \/ TE164T)
Accepted == Accepting(t, l)
=============================================================================
