INIT TraceInit
NEXT TraceNext
CONSTANTS
  Names = {}
  Queries = {}
  OpTypes = {}
  RdIds = {}
  LoadSets = {}
  MaxOps = 0
  MaxTxns = 0
  NameLessC <- TabLess
CONSTRAINT Accepted
POSTCONDITION Post
CHECK_DEADLOCK FALSE
