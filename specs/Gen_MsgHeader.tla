---------------------------- MODULE Gen_MsgHeader ----------------------------
(* MsgHeader plus a history variable: a behaviour is make_query(arguments) followed by a
   sequence of calls on the message (the environment's choices only: which call, which
   argument values, how an argument is spelled).  "wire" replaces the message by
   from_wire(to_wire()), "make_response" by the response made for it.  Histories with at
   least MinCalls calls are printed as JSON from their own "fin" step. *)
EXTENDS MC_MsgHeader, Json

CONSTANTS AllOps,   \* subset of the call kinds
          Order,    \* <<>>, or the call kinds allowed at each position of the history
          RcodeSp,  \* subset of {"int", "enum"}
          MinCalls
VARIABLES hist, fin
gvars == <<vars, hist, fin>>

GenRcodesSmall == {0, 3, 15, 16, 23, 4095}
GenRcodes == GenRcodesSmall \cup {-1, 1, 17, 255, 256, 2748, 4080, 4096}
GenOptionSeqs == {<<>>, <<"NSID">>, <<"PAD">>, <<"COOKIE", "NSID">>}
GenOptionFew == {<<>>, <<"NSID">>}
H(ev) == hist' = Append(hist, ev)
fr0 == Free0
OrderNone == <<>>
OrderSweep == <<{"set_rcode"}, {"wire"}>>
OrderRespWire == <<{"make_response", "use_tsig", "want_dnssec"}, {"make_response", "wire"}, {"wire", "is_response"}>>
Ops == IF Order = <<>> THEN AllOps ELSE Order[ncalls + 1] \cap AllOps

GInit == /\ \E a \in QSets[QSel] : m = AfterQuery(a, FALSE, fr0) /\ hist = <<[op |-> "make_query", a |-> a]>>
         /\ ncalls = 0 /\ last = <<"make_query">> /\ res = "ok" /\ fin = FALSE

GStep ==
    /\ ncalls < MaxCalls
    /\ \/ "use_edns" \in Ops /\ \E sp \in {"none", "false", "neg"}, junk \in BOOLEAN :
            UseEdnsOff(fr0) /\ H([op |-> "use_edns", sp |-> sp, junk |-> junk])
       \/ "use_edns" \in Ops /\ \E lvl \in Levels, ex \in ExtVals, z \in ZVals, pl \in Payloads, hr \in BOOLEAN, rp \in Payloads,
                                    ops \in OptionSeqs, pd \in Pads, sp \in {"int", "true", "default"} :
            /\ (~hr => rp = pl) /\ (sp = "true" => lvl = 0)
            /\ (sp = "default" => lvl = 0 /\ ex = 0 /\ z = 0 /\ pl = 1232 /\ ~hr /\ ops = <<>> /\ pd = 0)
            /\ UseEdnsOn(lvl, ex, z, pl, hr, rp, ops, pd)
            /\ H([op |-> "use_edns", sp |-> sp, lvl |-> lvl, ext |-> ex, z |-> z, pl |-> pl, hasrp |-> hr, rp |-> rp, ops |-> ops, pd |-> pd])
       \/ "want_dnssec" \in Ops /\ \E b \in BOOLEAN, sp \in {"pos", "default"} :
            (sp = "default" => b) /\ WantDnssec(b, fr0) /\ H([op |-> "want_dnssec", b |-> b, sp |-> sp])
       \/ "set_rcode" \in Ops /\ \E v \in RcodeVals, sp \in RcodeSp :
            (sp = "enum" => v \in 0..4095) /\ SetRcode(v, fr0) /\ H([op |-> "set_rcode", v |-> v, sp |-> sp])
       \/ "set_opcode" \in Ops /\ \E o \in Opcodes : SetOpcode(o) /\ H([op |-> "set_opcode", o |-> o])
       \/ "flags" \in Ops /\ \E f \in FlagVals : SetFlags(f) /\ H([op |-> "flags", f |-> f])
       \/ "ednsflags" \in Ops /\ \E ex \in ExtVals, vr \in Levels, z \in ZVals :
            \* (the model's two readings of "all zero without OPT" do not change what may follow)
            /\ Step(<<"ednsflags", ex, vr, z>>, IF m.opt THEN [m EXCEPT !.ext = ex, !.ver = vr, !.z = z]
                                               ELSE IF ex = 0 /\ vr = 0 /\ z = 0 THEN m ELSE [Implicit(m, ex, z, fr0) EXCEPT !.ver = vr], "ok")
            /\ H([op |-> "ednsflags", ext |-> ex, ver |-> vr, z |-> z])
       \/ "wire" \in Ops /\ Wire(fr0) /\ H([op |-> "wire"])
       \/ "make_response" \in Ops /\ \E ra \in BOOLEAN, op \in Payloads, hp \in BOOLEAN, pa \in Pads, fu \in {300, 600} :
            /\ (~hp => pa = 0) /\ ~Bit(m.flags, QR)
            /\ MakeResponse(Skeleton(m, ra), ra, op, hp, pa, fr0)
            /\ H([op |-> "make_response", ra |-> ra, ourpay |-> op, haspad |-> hp, padarg |-> pa, fudge |-> fu])
       \/ "make_response" \in Ops /\ Bit(m.flags, QR) /\ Refused(<<"make_response", FALSE, 512, FALSE, 0>>)
            /\ H([op |-> "make_response", ra |-> FALSE, ourpay |-> 512, haspad |-> FALSE, padarg |-> 0, fudge |-> 300])
       \/ "use_tsig" \in Ops /\ ~m.tsig /\ UseTsig /\ H([op |-> "use_tsig"])
       \/ "is_response" \in Ops /\ Probe /\ H([op |-> "is_response"])

GNext == \/ ~fin /\ GStep /\ UNCHANGED fin
         \/ ~fin /\ ncalls >= MinCalls /\ fin' = TRUE /\ UNCHANGED <<vars, hist>>
Emit == fin => PrintT("BEH " \o ToJson(hist))
=============================================================================
