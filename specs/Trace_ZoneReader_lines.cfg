INIT TraceInit
NEXT TraceNext
CONSTANT CheckLines = TRUE
CONSTRAINT Accepted
POSTCONDITION Post
CHECK_DEADLOCK FALSE
