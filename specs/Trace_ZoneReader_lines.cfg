INIT TraceInit
NEXT TraceNext
CONSTANTS
  CheckLines = TRUE
  Pinned = FALSE
CONSTRAINT Accepted
POSTCONDITION Post
CHECK_DEADLOCK FALSE
