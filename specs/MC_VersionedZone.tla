-------------------------- MODULE MC_VersionedZone --------------------------
(* Bounded instance of VersionedZone for exhaustive model checking. *)
EXTENDS VersionedZone

CONSTANTS MaxCommits,   \* bound on committed versions
          MaxDepth      \* bound on the length of a history

C(s, it) == [serial |-> s, items |-> it]
A1 == <<"a", 1>>
A2 == <<"a", 2>>
B1 == <<"b", 1>>
MCContentsSmall == {C(1, {}), C(1, {A1}), C(2, {A1})}
MCContents == {C(1, {}), C(1, {A1}), C(2, {A1}), C(2, {A1, A2, B1}), C(3, {B1})}

Bound == Len(allIds) <= MaxCommits + 1 /\ TLCGet("level") <= MaxDepth

(* reachability witnesses: each must be VIOLATED (checked in a separate run) *)
Vac_PrunedWhilePinned == ~(Len(versions) >= 3 /\ DOMAIN readers # {} /\ Head(versions).id > 1)
Vac_PolicyKeeps == ~(Len(versions) >= 2 /\ DOMAIN readers = {} /\ policy[1] = "custom")
=============================================================================
