-------------------------- MODULE MC_VersionedZone --------------------------
(* Bounded instance of VersionedZone for exhaustive model checking: at most MaxCommits
   commits and MaxDepth calls per history.  The call counter is a variable (and not
   TLCGet("level")) so that the explored state space does not depend on how TLC's worker
   threads interleave. *)
EXTENDS VersionedZone

CONSTANTS MaxCommits,   \* bound on committed versions
          MaxDepth      \* bound on the length of a history

VARIABLE steps
mcvars == <<vars, steps>>

C(s, it) == [serial |-> s, items |-> it]
A1 == <<"a", 1>>
A2 == <<"a", 2>>
B1 == <<"b", 1>>
MCContentsSmall == {C(0, {}), C(1, {A1}), C(2, {A1})}
MCContents == {C(0, {}), C(1, {A1}), C(2, {A1}), C(2, {A1, A2, B1}), C(3, {B1})}

MCInit == Init /\ steps = 0
MCNext == steps < MaxDepth /\ Next /\ steps' = steps + 1
MCSpec == MCInit /\ [][MCNext]_mcvars

Bound == Len(allIds) <= MaxCommits + 1

(* reachability witnesses: each must be VIOLATED (checked in separate runs) *)
Vac_PrunedWhilePinned == ~(Len(versions) >= 2 /\ DOMAIN readers # {} /\ Head(versions).id > 1 /\ policy[1] = "default")
Vac_PolicyKeeps == ~(Len(versions) >= 2 /\ DOMAIN readers = {} /\ policy[1] = "custom")
=============================================================================
