------------------------------ MODULE BTZNames ------------------------------
(* The name universe shared by MC_BTreeZone and Gen_BTreeZone (C20).  Labels are octet
   sequences, names are label sequences relative to the origin (see BTreeZone.tla). *)
l_ns == <<110, 115>>
l_d == <<100>>
l_x == <<120>>
l_y == <<121>>
l_e == <<101>>
l_f == <<102>>
l_b == <<98>>
l_c == <<99>>
l_a == <<97>>
l_z == <<122>>
l_0 == <<48>>
l_zzz == <<122, 122, 122>>
l_dd == <<100, 100>>
l_X == <<88>>
l_D == <<68>>
l_star == <<42>>

n_apex == <<>>
n_ns == <<l_ns>>
n_d == <<l_d>>
n_xd == <<l_x, l_d>>
n_yxd == <<l_y, l_x, l_d>>
n_ed == <<l_e, l_d>>
n_f == <<l_f>>
n_bc == <<l_b, l_c>>
n_dd == <<l_dd>>
n_zyxd == <<l_z, l_y, l_x, l_d>>

(* DESIGN.md universe: a chain of three possible cuts d > x.d > y.x.d with a sibling e.d,
   two unrelated top-level names, and b.c whose parent c is an empty non-terminal *)
UNames == {n_apex, n_ns, n_d, n_xd, n_yxd, n_ed, n_f, n_bc}
(* a wider universe for the thorough tier: dd sorts after the whole subtree of d *)
WNames == UNames \cup {n_dd, n_zyxd}

(* query names: the universe plus names that are absent, empty non-terminals, beneath
   cuts at several depths, before / after every subtree, and upper-case spellings *)
ExtraQueries == {<<l_0>>, <<l_a, l_x, l_d>>, <<l_z, l_d>>, <<l_c>>, <<l_a, l_c>>, <<l_zzz>>,
                 n_dd, n_zyxd, <<l_X, l_D>>, <<l_a, l_b, l_c>>, <<l_e>>, <<l_star, l_d>>,
                 <<l_z, l_f>>}
UQueries == UNames \cup ExtraQueries
WQueries == WNames \cup ExtraQueries

SOA == <<n_apex, "SOA", 1>>
ApexNS == <<n_apex, "NS", 1>>
=============================================================================
