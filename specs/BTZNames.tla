------------------------------ MODULE BTZNames ------------------------------
(* The name universe shared by MC_BTreeZone, Gen_BTreeZone and Trace_BTreeZone (C20),
   and the name table through which the driver and the trace specification exchange
   names (as 1-based indices).  Labels are octet sequences, names are label sequences
   relative to the origin (see BTreeZone.tla). *)
EXTENDS BTreeZone

l_ns == <<110, 115>>
l_d == <<100>>
l_x == <<120>>
l_y == <<121>>
l_e == <<101>>
l_f == <<102>>
l_b == <<98>>
l_c == <<99>>
l_a == <<97>>
l_z == <<122>>
l_0 == <<48>>
l_zzz == <<122, 122, 122>>
l_dd == <<100, 100>>
l_X == <<88>>
l_D == <<68>>
l_star == <<42>>

n_apex == <<>>
n_ns == <<l_ns>>
n_d == <<l_d>>
n_xd == <<l_x, l_d>>
n_yxd == <<l_y, l_x, l_d>>
n_ed == <<l_e, l_d>>
n_f == <<l_f>>
n_bc == <<l_b, l_c>>
n_dd == <<l_dd>>
n_zyxd == <<l_z, l_y, l_x, l_d>>

ToSet(s) == {s[i] : i \in DOMAIN s}
(* DESIGN.md universe: a chain of three possible cuts d > x.d > y.x.d with a sibling e.d,
   two unrelated top-level names, and b.c whose parent c is an empty non-terminal *)
UNameSeq == <<n_apex, n_ns, n_d, n_xd, n_yxd, n_ed, n_f, n_bc>>
UNames == ToSet(UNameSeq)
(* a wider universe for the thorough tier: dd sorts after the whole subtree of d, and
   z.y.x.d makes a chain of four *)
WNameSeq == UNameSeq \o <<n_dd, n_zyxd>>
WNames == ToSet(WNameSeq)

(* query names (in the order in which the driver asks and logs them): the universe plus
   names that are absent, empty non-terminals, beneath cuts at several depths, before /
   after every subtree, and an upper-case spelling *)
ExtraQuerySeq == <<<<l_0>>, <<l_a, l_x, l_d>>, <<l_z, l_d>>, <<l_c>>, <<l_a, l_c>>, <<l_zzz>>,
                   n_dd, n_zyxd, <<l_X, l_D>>, <<l_a, l_b, l_c>>, <<l_e>>, <<l_star, l_d>>,
                   <<l_z, l_f>>>>
UQuerySeq == UNameSeq \o ExtraQuerySeq
WQuerySeq == UQuerySeq \o <<<<l_a, l_dd>>, <<l_a, l_z, l_y, l_x, l_d>>>>
UQueries == ToSet(UQuerySeq)
WQueries == ToSet(WQuerySeq)

SOA == <<n_apex, "SOA", 1>>
ApexNS == <<n_apex, "NS", 1>>

-----------------------------------------------------------------------------
(* The name table: every canonical name the driver may have to report, closed under
   ancestors.  The driver receives it from TLC (Gen_BTreeZone prints it). *)
AncestorsOf(n) == {Suffix(n, k) : k \in 0..Len(n)}
TabSet == UNION {AncestorsOf(Canon(n)) : n \in WQueries}
RankTab == Eager([n \in TabSet |-> Cardinality({m \in TabSet : NameLessDef(m, n)})])
NameTable == LET r == RankTab IN Tup([i \in 1..Cardinality(TabSet) |-> CHOOSE n \in TabSet : r[n] = i - 1])
IdxTab == LET tab == NameTable IN Eager([n \in TabSet |-> CHOOSE i \in DOMAIN tab : tab[i] = n])
(* override for NameLessC *)
TabLess(m, n) == RankTab[m] < RankTab[n]

(* The same name structure on table indices, for the second instance of BTZDerived used
   by trace validation: index order is canonical order because NameTable is sorted. *)
ApexIdx == IdxTab[Apex]
DepthTab == Tup([i \in DOMAIN NameTable |-> Len(NameTable[i])])
AncTab == Tup([i \in DOMAIN NameTable |->
                 Tup([k1 \in 1..(Len(NameTable[i]) + 1) |-> IdxTab[Suffix(NameTable[i], k1 - 1)]])])
IdxLess(i, j) == i < j
IdxDepth(i) == DepthTab[i]
IdxAnc(i, k) == AncTab[i][k + 1]
IdxBelow(i, j) == DepthTab[i] > DepthTab[j] /\ AncTab[i][DepthTab[j] + 1] = j
UQueryIdx == Tup([i \in DOMAIN UQuerySeq |-> IdxTab[Canon(UQuerySeq[i])]])
WQueryIdx == Tup([i \in DOMAIN WQuerySeq |-> IdxTab[Canon(WQuerySeq[i])]])

TableOK == /\ \A i, j \in DOMAIN NameTable : NameTable[i] = NameTable[j] => i = j
           /\ \A n \in TabSet : n = Canon(n) /\ AncestorsOf(n) \subseteq TabSet
           /\ \A n \in TabSet : RankTab[n] = Cardinality({m \in TabSet : TabLess(m, n)})
           (* sorted by the RFC order, so i < j <=> NameTable[i] sorts before NameTable[j] *)
           /\ \A i \in 1..(Len(NameTable) - 1) : NameLessDef(NameTable[i], NameTable[i + 1])
           /\ \A i \in DOMAIN NameTable : NameTable[IdxTab[NameTable[i]]] = NameTable[i] /\ IdxTab[NameTable[i]] = i
           /\ \A i, j \in DOMAIN NameTable : IdxBelow(i, j) <=> StrictlyBelow(NameTable[i], NameTable[j])
           /\ \A i \in DOMAIN NameTable : \A k \in 0..IdxDepth(i) : NameTable[IdxAnc(i, k)] = Suffix(NameTable[i], k)
           /\ \A i \in DOMAIN NameTable : IdxDepth(i) = Len(NameTable[i])
=============================================================================
