----------------------------- MODULE Pre_Dnssec -----------------------------
(* Evaluation pass: for every job of the input file (ndjson, env TRACE_FILE) print the
   PREIMAGE the specification says gets hashed (DS digest input, first NSEC3 iteration,
   ZONEMD SIMPLE input).  The driver only applies hashlib to these octets; Trace_Dnssec
   recomputes them again from the logged inputs, so a plumbing error cannot hide. *)
EXTENDS Dnssec, TLC, Json, IOUtils

Jobs == ndJsonDeserialize(IOEnv.TRACE_FILE)
PreOf(j) == CASE j.k = "ds"     -> DsPreimage(j.owner, j.key)
              [] j.k = "nsec3"  -> Nsec3Pre0(j.n, j.salt)
              [] j.k = "zonemd" -> ZonemdPreimage(j.z)
VARIABLE i
PInit == i = 1
PNext == /\ i <= Len(Jobs)
         /\ PrintT("PRE " \o ToJson(<<Jobs[i].tid, PreOf(Jobs[i])>>))
         /\ i' = i + 1
=============================================================================
