------------------------------ MODULE Gen_Lexer ------------------------------
(* Inputs for the real Tokenizer: a behaviour of the environment is an input string and a
   POLICY, a cycle of call patterns the driver repeats until EOF or an exception:
     [sk, wl, wc, un, fl]:  sk  call skip_whitespace() first
                            get(want_leading = wl, want_comment = wc)
                            un  unget the token and get it again - with the same options,
                                or with both options negated when fl.
   Mode "all":  every string of length N over Alphabet x every policy of Policies.
   Mode "walk": the string is built from Fragments, one per step, and the policy grows by
                a random pattern per step (used with -simulate).  Only choices of the
                environment are emitted, never expected results. *)
EXTENDS Lexer, TLC, Json

CONSTANTS Mode, Alphabet, N, Policies, Fragments, Steps
VARIABLES x, pol, fin
gvars == <<x, pol, fin>>

P(sk, wl, wc, un, fl) == [sk |-> sk, wl |-> wl, wc |-> wc, un |-> un, fl |-> fl]
Patterns == {P(sk, wl, wc, un, fl) : sk \in BOOLEAN, wl \in BOOLEAN, wc \in BOOLEAN, un \in BOOLEAN, fl \in BOOLEAN}
Plain4 == {<<P(FALSE, wl, wc, FALSE, FALSE)>> : wl \in BOOLEAN, wc \in BOOLEAN}
Unget4 == {<<P(FALSE, wl, wc, TRUE, FALSE)>> : wl \in BOOLEAN, wc \in BOOLEAN}
Extra == {<<P(FALSE, TRUE, TRUE, TRUE, TRUE)>>, <<P(FALSE, FALSE, FALSE, TRUE, TRUE)>>,
          <<P(TRUE, TRUE, TRUE, FALSE, FALSE)>>, <<P(TRUE, FALSE, FALSE, FALSE, FALSE)>>,
          <<P(FALSE, TRUE, FALSE, FALSE, FALSE), P(FALSE, FALSE, TRUE, FALSE, FALSE)>>,
          <<P(FALSE, FALSE, FALSE, FALSE, FALSE), P(TRUE, TRUE, TRUE, TRUE, TRUE)>>}
AllPolicies == Plain4 \cup Unget4 \cup Extra
CorePolicies == Plain4 \cup {<<P(FALSE, TRUE, TRUE, TRUE, FALSE)>>, <<P(FALSE, TRUE, TRUE, TRUE, TRUE)>>}
TwoPolicies == {<<P(FALSE, FALSE, FALSE, FALSE, FALSE)>>, <<P(FALSE, TRUE, TRUE, FALSE, FALSE)>>}

\* fragments for the walk: every character of the alphabet and some longer pieces
WalkFragments ==
    {<<c>> : c \in FullAlphabet} \cup
    {<<97, 49>>, <<SP, SP>>, <<SP, TAB>>, <<CR, NL>>, <<LP, NL>>, <<NL, RP>>, <<SEMI, 97, NL>>, <<SEMI, SP, 97>>,
     <<DQ, 97, SP, 49, DQ>>, <<DQ, DQ>>, <<DQ, SEMI, LP, DQ>>, <<DQ, BS, DQ, DQ>>, <<BS, 49, 49, 49>>, <<BS, SP>>,
     <<BS, LP>>, <<BS, SEMI>>, <<BS, DQ>>, <<BS, BS>>, <<BS, NL>>, <<DQ, 97, NL>>, <<97, SP, 97>>, <<NL, SP>>, <<NL, 97>>,
     <<LP, SP, 97, SP, SEMI, 49, NL, SP, 233, RP>>, <<SP, RP>>, <<LP, 97>>}

GInit == /\ fin = FALSE
         /\ IF Mode = "all" THEN x \in [1..N -> Alphabet] /\ pol \in Policies
            ELSE x = <<>> /\ pol = <<>>
GNext == /\ Mode = "walk" /\ ~fin
         /\ IF Len(pol) < Steps
            THEN \E f \in Fragments, p \in Patterns : x' = x \o f /\ pol' = Append(pol, p) /\ fin' = FALSE
            ELSE fin' = TRUE /\ UNCHANGED <<x, pol>>
Emit == (Mode = "all" \/ fin) => PrintT("BEH " \o ToJson([s |-> x, pol |-> pol]))
=============================================================================
