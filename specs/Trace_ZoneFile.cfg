INIT TraceInit
NEXT TraceNext
CONSTANTS
  ZO <- UZO
  LabelRank <- URank
  SpOrigins = {}
  SpTTLs = {}
  SpNoise = {}
  SpGenerates = {}
  SpMaxExtra = 0
  SpForms <- PlainForms
CONSTRAINT Accepted
POSTCONDITION Post
CHECK_DEADLOCK FALSE
