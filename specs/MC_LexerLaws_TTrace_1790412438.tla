---- MODULE MC_LexerLaws_TTrace_1790412438 ----
EXTENDS Sequences, TLCExt, MC_LexerLaws, Toolbox, Naturals, TLC

_expression ==
    LET MC_LexerLaws_TEExpression == INSTANCE MC_LexerLaws_TEExpression
    IN MC_LexerLaws_TEExpression!expression
----

_trace ==
    LET MC_LexerLaws_TETrace == INSTANCE MC_LexerLaws_TETrace
    IN MC_LexerLaws_TETrace!trace
----

_inv ==
    ~(
        TLCGet("level") = Len(_TETrace)
        /\
        d = ([cr |-> "char", nlq |-> "refuse", escnl |-> "end", wsq |-> FALSE])
        /\
        x = (<<40, 13, 59, 10>>)
    )
----

_init ==
    /\ d = _TETrace[1].d
    /\ x = _TETrace[1].x
----

_next ==
    /\ \E i,j \in DOMAIN _TETrace:
        /\ \/ /\ j = i + 1
              /\ i = TLCGet("level")
        /\ d  = _TETrace[i].d
        /\ d' = _TETrace[j].d
        /\ x  = _TETrace[i].x
        /\ x' = _TETrace[j].x

\* Uncomment the ASSUME below to write the states of the error trace
\* to the given file in Json format. Note that you can pass any tuple
\* to `JsonSerialize`. For example, a sub-sequence of _TETrace.
    \* ASSUME
    \*     LET J == INSTANCE Json
    \*         IN J!JsonSerialize("MC_LexerLaws_TTrace_1790412438.json", _TETrace)

=============================================================================

 Note that you can extract this module `MC_LexerLaws_TEExpression`
  to a dedicated file to reuse `expression` (the module in the 
  dedicated `MC_LexerLaws_TEExpression.tla` file takes precedence 
  over the module `MC_LexerLaws_TEExpression` below).

---- MODULE MC_LexerLaws_TEExpression ----
EXTENDS Sequences, TLCExt, MC_LexerLaws, Toolbox, Naturals, TLC

expression == 
    [
        \* To hide variables of the `MC_LexerLaws` spec from the error trace,
        \* remove the variables below.  The trace will be written in the order
        \* of the fields of this record.
        d |-> d
        ,x |-> x
        
        \* Put additional constant-, state-, and action-level expressions here:
        \* ,_stateNumber |-> _TEPosition
        \* ,_dUnchanged |-> d = d'
        
        \* Format the `d` variable as Json value.
        \* ,_dJson |->
        \*     LET J == INSTANCE Json
        \*     IN J!ToJson(d)
        
        \* Lastly, you may build expressions over arbitrary sets of states by
        \* leveraging the _TETrace operator.  For example, this is how to
        \* count the number of times a spec variable changed up to the current
        \* state in the trace.
        \* ,_dModCount |->
        \*     LET F[s \in DOMAIN _TETrace] ==
        \*         IF s = 1 THEN 0
        \*         ELSE IF _TETrace[s].d # _TETrace[s-1].d
        \*             THEN 1 + F[s-1] ELSE F[s-1]
        \*     IN F[_TEPosition - 1]
    ]

=============================================================================



Parsing and semantic processing can take forever if the trace below is long.
 In this case, it is advised to uncomment the module below to deserialize the
 trace from a generated binary file.

\*
\*---- MODULE MC_LexerLaws_TETrace ----
\*EXTENDS IOUtils, MC_LexerLaws, TLC
\*
\*trace == IODeserialize("MC_LexerLaws_TTrace_1790412438.bin", TRUE)
\*
\*=============================================================================
\*

---- MODULE MC_LexerLaws_TETrace ----
EXTENDS MC_LexerLaws, TLC

trace == 
    <<
    ([d |-> [cr |-> "char", nlq |-> "refuse", escnl |-> "end", wsq |-> FALSE],x |-> <<>>]),
    ([d |-> [cr |-> "char", nlq |-> "refuse", escnl |-> "end", wsq |-> FALSE],x |-> <<40>>]),
    ([d |-> [cr |-> "char", nlq |-> "refuse", escnl |-> "end", wsq |-> FALSE],x |-> <<40, 13>>]),
    ([d |-> [cr |-> "char", nlq |-> "refuse", escnl |-> "end", wsq |-> FALSE],x |-> <<40, 13, 59>>]),
    ([d |-> [cr |-> "char", nlq |-> "refuse", escnl |-> "end", wsq |-> FALSE],x |-> <<40, 13, 59, 10>>])
    >>
----


=============================================================================

---- CONFIG MC_LexerLaws_TTrace_1790412438 ----
CONSTANTS
    Alphabet <- ClassTabAlphabet
    MaxLen = 4
    DialectSet <- LibDialects

INVARIANT
    _inv

CHECK_DEADLOCK
    \* CHECK_DEADLOCK off because of PROPERTY or INVARIANT above.
    FALSE

INIT
    _init

NEXT
    _next

CONSTANT
    _TETrace <- _trace

ALIAS
    _expression
=============================================================================
\* Generated on Sat Sep 26 08:47:28 UTC 2026