---------------------------- MODULE MC_NameDict ----------------------------
EXTENDS NameDict

\* the 7-name tree (depths 0..4) and two relative names
KEmpty == <<>>
KRoot == <<"">>
Tree7 == {KEmpty, KRoot, <<"a", "">>, <<"b", "">>, <<"x", "a", "">>, <<"y", "a", "">>, <<"z", "x", "a", "">>}
RelKeys == {<<"a">>, <<"x", "a">>}
Tree5 == {KEmpty, KRoot, <<"a", "">>, <<"x", "a", "">>, <<"z", "x", "a", "">>}
Keys9 == Tree7 \cup RelKeys
\* queries: every key, deeper names, siblings, label-boundary traps ("xa." is not under "a."),
\* reversed label order, relative names
Probes == Keys9 \cup {<<"w", "z", "x", "a", "">>, <<"q", "x", "a", "">>, <<"q", "y", "a", "">>, <<"c", "">>,
                      <<"q", "b", "">>, <<"xa", "">>, <<"a", "x", "">>, <<"q">>, <<"q", "a">>, <<"z", "x", "a">>,
                      <<"a", "b", "">>}
MCVals == {1, 2}
=============================================================================
