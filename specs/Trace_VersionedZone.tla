------------------------- MODULE Trace_VersionedZone -------------------------
(* Trace validation for C11 (retention / snapshot part): every recorded call on a real
   dns.versioned.Zone / dns.btreezone.Zone must be the corresponding VersionedZone action
   from the current model state, and after EVERY call the recorded retained version ids,
   the recorded content of every retained version, the registered readers and what every
   open reader observes through every read route must equal the model's. *)
EXTENDS VersionedZone, VTrace

VARIABLES t, l
tvars == <<vars, t, l>>

Cont(p) == [serial |-> p[1], items |-> ToSetOf(p[2])]
NamesOf(c) == (IF c.serial >= 0 THEN {"@"} ELSE {}) \cup {it[1] : it \in c.items}

first == Ev(t)[1]
TraceInit ==
    /\ RegInit
    /\ t \in 1..NTraces /\ l = 1
    /\ IF first.op = "init"
       THEN /\ versions = [i \in 1..Len(first.vids) |-> [id |-> first.vids[i], content |-> Cont(first.vcont[i])]]
            /\ allIds = first.vids
            /\ published = [n \in ToSetOf(first.vids) |->
                              Cont(first.vcont[CHOOSE i \in 1..Len(first.vids) : first.vids[i] = n])]
       ELSE /\ versions = <<[id |-> 1, content |-> Empty]>> /\ allIds = <<1>> /\ published = (1 :> Empty)
    /\ readers = <<>> /\ policy = <<"default">> /\ writer = NoWriter /\ res = "ok"

e == Ev(t)[l]
Adv == l' = l + 1 /\ t' = t
Outcome == Check(t, l, "Outcome", (res' = "refused") <=> (e.res = "err"))

HasObs(r) == \E i \in 1..Len(e.obs) : e.obs[i].rid = r
ObsOf(r) == e.obs[CHOOSE i \in 1..Len(e.obs) : e.obs[i].rid = r]

(* the recorded state after the call equals the model state after the action *)
StateOK ==
    /\ Check(t, l, "RetainedIds", e.vids = Ids(versions'))
    /\ Check(t, l, "VersionsImmutable",
             Len(e.vcont) = Len(versions') /\ \A i \in 1..Len(versions') : Cont(e.vcont[i]) = versions'[i].content)
    /\ Check(t, l, "ReadersRegistered", ToSetOf(e.rd) = {<<r, readers'[r].vid>> : r \in DOMAIN readers'})
    /\ Check(t, l, "ReadersObserved", {e.obs[i].rid : i \in 1..Len(e.obs)} = DOMAIN readers' /\ Len(e.obs) = Cardinality(DOMAIN readers'))
    /\ \A i \in 1..Len(e.obs) :
         LET o == e.obs[i]
             seen == readers'[o.rid].seen
         IN /\ Check(t, l, "SnapshotVersion", o.vid = readers'[o.rid].vid)
            /\ Check(t, l, "SnapshotIterate", Cont(o.iter) = seen)
            /\ Check(t, l, "SnapshotGet", Cont(o.get) = seen)
            /\ Check(t, l, "SnapshotGetNode", Cont(o.node) = seen)
            /\ Check(t, l, "SnapshotNames", ToSetOf(o.names) = NamesOf(seen) /\ ToSetOf(o.exists) = NamesOf(seen))

TInitEv == /\ e.op = "init" /\ l = 1
           /\ UNCHANGED vars /\ StateOK /\ Adv

TOpenLatest == /\ e.op = "open" /\ e.how = "latest"
               /\ OpenLatest(e.rid) /\ Outcome /\ StateOK /\ Adv
TOpenId == /\ e.op = "open" /\ e.how = "id"
           /\ OpenById(e.rid, e.arg) /\ Outcome /\ StateOK /\ Adv
(* reader(serial=): the model allows any retained version with that serial; follow the
   one the implementation chose *)
TOpenSerial ==
    /\ e.op = "open" /\ e.how = "serial"
    /\ IF e.res = "ok"
       THEN /\ Check(t, l, "ReadersObserved", HasObs(e.rid))
            /\ Check(t, l, "OpenedRequestedSerial",
                     \E i \in 1..Len(versions) : versions[i].id = ObsOf(e.rid).vid /\ versions[i].content.serial = e.arg)
       ELSE TRUE
    /\ OpenBySerial(e.rid, e.arg)
    /\ (res' = "ok" /\ e.res = "ok") => readers'[e.rid].vid = ObsOf(e.rid).vid
    /\ Outcome /\ StateOK /\ Adv
TOpenBoth == /\ e.op = "open" /\ e.how = "both"
             /\ OpenBoth(e.rid) /\ Outcome /\ StateOK /\ Adv
TClose == /\ e.op = "close"
          /\ CloseReader(e.rid) /\ Outcome /\ StateOK /\ Adv
TBegin == /\ e.op = "begin"
          /\ BeginWrite(e.repl) /\ Outcome /\ StateOK /\ Adv
TStage == /\ e.op = "stage"
          /\ Stage(Cont(e.content)) /\ Outcome /\ StateOK /\ Adv
(* a commit with a fault armed in the pruning predicate; e.fired says whether it raised *)
TEndFault ==
    /\ e.op = "end" /\ e.how = "commit_fault"
    /\ IF ~e.fired
       THEN IF writer.state = "dirty"
            THEN Check(t, l, "IdsIncrease", Last(e.vids) > Last(allIds)) /\ CommitChanged(Last(e.vids))
            ELSE CommitUnchanged
       ELSE LET pub == Last(e.vids) # Last(allIds)
                vs == IF pub THEN Append(versions, [id |-> Last(e.vids), content |-> writer.work]) ELSE versions
                n == Len(vs)
            IN /\ Check(t, l, "IdsIncrease", pub => Last(e.vids) > Last(allIds))
               /\ Check(t, l, "RetainedIds", Len(e.vids) >= 1 /\ Len(e.vids) <= n)
               /\ Check(t, l, "PinnedRetained",
                        \A j \in 1..(n - Len(e.vids)) : vs[j].id < LeastKept(readers, vs))
               /\ CommitFaulted(pub, Last(e.vids), n - Len(e.vids) + 1)
    /\ Outcome /\ StateOK /\ Adv
TReuse == /\ e.op = "reuse"
          /\ ReuseEndedWriter
          /\ Check(t, l, "EndedWriterRefused", \A i \in 1..Len(e.raised) : e.raised[i])
          /\ StateOK /\ Adv
TEnd ==
    /\ e.op = "end" /\ e.how # "commit_fault"
    /\ IF e.how \in {"commit", "exit"}
       THEN IF writer.state = "dirty"
            THEN /\ Check(t, l, "IdsIncrease", Last(e.vids) > Last(allIds))
                 /\ CommitChanged(Last(e.vids))
            ELSE CommitUnchanged
       ELSE Rollback
    /\ Outcome /\ StateOK /\ Adv
TSetMax == /\ e.op = "setmax" /\ SetMaxVersions(e.n) /\ Outcome /\ StateOK /\ Adv
TSetMaxNone == /\ e.op = "setmax_none" /\ SetUnlimited /\ Outcome /\ StateOK /\ Adv
TSetPolicy == /\ e.op = "setpolicy"
              /\ IF e.p = "default" THEN SetDefaultPolicy ELSE SetCustomPolicy(e.p)
              /\ Outcome /\ StateOK /\ Adv
TMutate == /\ e.op = "mutate"
           /\ MutateThroughReader(e.rid)
           /\ Check(t, l, "MutatorRefused", \A i \in 1..Len(e.raised) : e.raised[i])
           /\ StateOK /\ Adv
TZMutate == /\ e.op = "zmutate"
            /\ MutateZone
            /\ Check(t, l, "ZoneMutatorRefused", \A i \in 1..Len(e.raised) : e.raised[i])
            /\ StateOK /\ Adv

(* the caller scribbles on its own Rdataset / RRset objects: every retained version and
   every open reader must look exactly as before (StateOK against the unchanged model) *)
TScribble == /\ e.op = "scribble"
             /\ CallerReusesObjects /\ StateOK /\ Adv

TraceNext ==
    /\ l <= Len(Ev(t))
    /\ \/ TInitEv \/ TOpenLatest \/ TOpenId \/ TOpenSerial \/ TOpenBoth \/ TClose \/ TBegin \/ TStage
       \/ TEnd \/ TSetMax \/ TSetMaxNone \/ TSetPolicy \/ TMutate \/ TZMutate \/ TScribble \/ TEndFault \/ TReuse

Accepted == Accepting(t, l)
=============================================================================
