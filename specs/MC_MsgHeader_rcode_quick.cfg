SPECIFICATION MCSpec
CONSTANTS
  Ids = {7}
  FlagVals <- MCFlags
  RcodeVals <- AllRcodes
  Opcodes = {5}
  Levels = {0}
  ExtVals = {255}
  ZVals = {32768}
  Payloads = {512}
  OptionSeqs <- MCOptionNone
  Pads = {0}
  Frees <- MCFrees
  MaxCalls = 1
  QSel = "mid"
INVARIANT TypeOK
INVARIANT NoOptMeansDefaults
INVARIANT RcodeReadBack
INVARIANT RcodeNeedsOpt
INVARIANT EdnsOffIsOff
PROPERTY Frame
CHECK_DEADLOCK FALSE
