----------------------------- MODULE Resolution -----------------------------
(* Stub resolution (property C16): dns.resolver.Resolver.resolve and its asynchronous
   twin, as documented: candidate names by the search-list / ndots rules of
   resolv.conf(5); for each candidate the configured servers are asked in rounds;
   a server that proved broken is not asked again for that candidate; a truncated UDP
   reply is retried once over TCP on the same server; SERVFAIL keeps the server only with
   retry_servfail; when a round is exhausted the list of still-usable servers is re-armed
   after a back-off sleep; every query gets min(remaining lifetime, timeout) and none is
   issued once the lifetime is used up; results are cached under the queried name.

   Time is in integer ticks (Tick seconds each; the driver uses 1/16 s so that the
   implementation's float arithmetic is exact).  TTLs are in seconds.
   Names are sequences of labels, absolute names end with "".

   One resolver, one clock, a sequence of resolutions sharing the resolver's cache.
   The environment chooses, for every query, an outcome and a clock advance.  It may set
   the clock back (at most MaxBack times per resolution), but only for a resolver without
   a cache: what a cache may do with an entry that was expired and becomes unexpired again
   is not part of this property (the caches are C17).

   Every resolve() call names a type and a class; the cache is keyed by (queried name,
   type, class), so an entry of another class or type is never served.  The RRsets of a
   response are in the class of the question.

   Outcome of one query (all fields always present):
     [k |-> "exc", x |-> "Timeout" | "FormError" | "EOF" | "OSError" | "NotImpl" | "Truncated" | "Other", ...]
     [k |-> "msg", rcode, qr, nq, ans, auth]     (see Chaining)                         *)
EXTENDS Integers, Sequences, FiniteSets, TLC

CONSTANTS Configs,        \* set of resolver configurations (records, see below)
          StartTimes,     \* possible initial clock values (ticks)
          MaxRes,         \* resolutions per behaviour (model checking bound)
          MaxQ,           \* queries per resolution (model checking bound)
          MaxBack,        \* times the environment may set the clock back during one resolution
          TicksPerSec,    \* 16
          MaxChain,       \* see Chaining
          BackoffTable,   \* sleeps before the 2nd, 3rd ... round, in ticks (0.1 s doubling, capped at 2 s)
          Requests,       \* set of [qname, search, life]: what resolve() may be called with
          IdleAdvances,   \* clock advances between resolutions
          Outcomes(_, _), \* Outcomes(candidate, qtype): outcomes the environment may choose for a query
          Advances(_, _)  \* Advances(timeout, lifetime): clock advances the environment may choose for a query

(* A request: [qname, search ("none"|"true"|"false"), life (0 = resolver default), qtype, qclass].
   A configuration (its qtype field is only a default kept for the driver):
   [ns |-> number of servers, rsf |-> retry_servfail, tcp |-> BOOLEAN, rna |-> raise_on_no_answer,
    cache |-> "none" | "simple" | "lru", life |-> lifetime, tmo |-> per-query timeout, qtype |-> STRING,
    search |-> Seq(name), domain |-> name, ndots |-> Int (-1 = unset), usd |-> use_search_by_default,
    glue |-> "scripted" | "do53" (driver only: scripted Nameserver objects, or real Do53Nameserver objects
    over stubbed transports)]  *)

VARIABLES cfg,         \* the resolver's configuration (fixed during a behaviour)
          qtype, qclass,  \* type and class asked for by the running resolve() call ("A"/"TXT"..., "IN"/"CH")
          now,         \* the clock
          cache,       \* the resolver's cache: <<name, type>> -> entry
          phase,       \* "idle" | "rest" (a resolution just ended) | "request" | "server" | "sleep" | "timeout" | "query" | "done"
          allCands,    \* candidate names of the running resolution, in order
          cands,       \* candidates not yet started
          qn,          \* current candidate
          usable,      \* servers not proved broken for this candidate
          cur,         \* usable servers not yet asked in this round
          round,       \* round number for this candidate
          server,      \* server of the current / last query
          tcpAttempt,  \* the current / last query is over TCP
          retryTcp,    \* the last UDP reply was truncated: repeat over TCP on the same server
          backoffIdx,  \* index into BackoffTable of the next back-off
          start, life, \* start time and lifetime of the running resolution
          tmo,         \* timeout of the query being issued
          nx,          \* candidates for which NXDOMAIN was obtained
          broken,      \* history: servers dropped for this candidate
          last,        \* history: verdict on the last reply ("-" before any)
          nxCount,     \* history: candidates (positions of allCands) concluded with NXDOMAIN
          queried,     \* history: every question <<name, type, class>> ever sent by this resolver
          result,      \* <<"none">> | <<"exc", class>> | <<"answer", candidate, entry>>
          nres, nq, backs   \* counters: resolutions started, queries / clock set-backs in this resolution

vars == <<cfg, qtype, qclass, now, cache, phase, allCands, cands, qn, usable, cur, round, server, tcpAttempt, retryTcp,
          backoffIdx, start, life, tmo, nx, broken, last, nxCount, queried, result, nres, nq, backs>>

cfgv  == <<cfg, qtype, qclass>>
candv == <<allCands, cands, qn, nx, nxCount>>
srvv  == <<usable, cur, round, server, tcpAttempt, retryTcp, backoffIdx, broken>>
timev == <<start, life, tmo>>
ctrv  == <<nres, nq, backs>>

Ch == INSTANCE Chaining

---------------------------------------------------------------------------
Root == <<"">>
IsAbs(n) == Len(n) > 0 /\ n[Len(n)] = ""
Min(a, b) == IF a < b THEN a ELSE b
Servers == 1..cfg.ns
UseCache == cfg.cache # "none"
NoEntry == [created |-> 0, ttl |-> 0, rcode |-> "-", cname |-> <<>>, rr |-> <<"none">>]

(* resolv.conf(5): a relative name with at least ndots dots is tried as an absolute name
   first, otherwise after the search list; the search list is `search`, or the local
   domain if there is no search list; an absolute name is tried as is; without searching
   only the absolute form is tried. *)
QnamesToTry(q, sflag, c) ==
    LET search == IF sflag = "none" THEN c.usd ELSE sflag = "true"
        absq == q \o Root
        slist == IF Len(c.search) > 0 THEN c.search
                 ELSE IF c.domain # Root THEN <<c.domain>> ELSE <<>>
        nd == IF c.ndots < 0 THEN 1 ELSE c.ndots
        withs == [i \in 1..Len(slist) |-> q \o slist[i]]
        dots == Len(q) - 1
    IN IF IsAbs(q) THEN <<q>>
       ELSE IF ~search THEN <<absq>>
       ELSE IF dots >= nd THEN <<absq>> \o withs
       ELSE withs \o <<absq>>

SeqToSet(s) == {s[i] : i \in 1..Len(s)}

(* a cache entry is usable while now < created + ttl seconds (written without computing
   ttl * TicksPerSec, which overflows for the maximal TTL) *)
Expired(e) == now >= e.created /\ e.ttl <= (now - e.created) \div TicksPerSec
Fresh(key) == key \in DOMAIN cache /\ ~Expired(cache[key])
Put(c, key, e) == [k \in DOMAIN c \cup {key} |-> IF k = key THEN e ELSE c[k]]

Elapsed == IF now < start THEN 0 ELSE now - start

(* What one reply means (the decision table of the property). *)
R(o) == Ch!Resolve(o, qn, qtype)
Verdict(o) ==
    IF o.k = "exc" THEN
        IF o.x \in {"FormError", "EOF", "OSError", "NotImpl"} THEN "drop"   \* malformed reply, network error, unsupported
        ELSE IF o.x = "Truncated" THEN (IF tcpAttempt THEN "drop" ELSE "retrytcp")
        ELSE "keep"                                                          \* timeout (or anything else): ask again later
    ELSE IF o.rcode = "NOERROR" THEN
        IF R(o).err # "" THEN "drop" ELSE IF R(o).answer = 0 THEN "nodata" ELSE "answer"
    ELSE IF o.rcode = "NXDOMAIN" THEN
        IF R(o).err # "" THEN "drop" ELSE "nxdomain"
    ELSE IF o.rcode = "YXDOMAIN" THEN "yxdomain"
    ELSE IF o.rcode = "SERVFAIL" /\ cfg.rsf THEN "keep"
    ELSE "drop"

EntryOf(o, t) ==
    LET r == R(o)
    IN [created |-> t, ttl |-> r.ttl, rcode |-> o.rcode, cname |-> r.cname,
        rr |-> IF r.answer = 0 THEN <<"none">>
               ELSE <<"rr", o.ans[r.answer].n, o.ans[r.answer].ty, o.ans[r.answer].ttl>>]

---------------------------------------------------------------------------
InitRest ==
    /\ qtype = "A" /\ qclass = "IN"
    /\ cache = <<>> /\ phase = "idle"
    /\ allCands = <<>> /\ cands = <<>> /\ qn = <<>> /\ nx = {} /\ nxCount = 0
    /\ usable = {} /\ cur = {} /\ round = 0 /\ server = 0 /\ tcpAttempt = FALSE /\ retryTcp = FALSE
    /\ backoffIdx = 1 /\ broken = {}
    /\ start = 0 /\ life = 0 /\ tmo = 0
    /\ last = "-" /\ queried = {} /\ result = <<"none">> /\ nres = 0 /\ nq = 0 /\ backs = 0

Init == cfg \in Configs /\ now \in StartTimes /\ InitRest

(* resolve(qname, rdtype=qt, rdclass=qc, search=sflag, lifetime=lifeArg) is called;
   lifeArg = 0: the resolver's lifetime *)
Begin(q, sflag, lifeArg, qt, qc) ==
    /\ phase \in {"idle", "rest"}
    /\ qtype' = qt /\ qclass' = qc
    /\ allCands' = QnamesToTry(q, sflag, cfg) /\ cands' = allCands' /\ nx' = {} /\ nxCount' = 0
    /\ start' = now /\ life' = IF lifeArg = 0 THEN cfg.life ELSE lifeArg
    /\ result' = <<"none">> /\ last' = "-" /\ nres' = nres + 1 /\ nq' = 0 /\ backs' = 0
    /\ phase' = "request"
    /\ UNCHANGED <<cfg, now, cache, qn, srvv, tmo, queried>>

(* resolve_name(): the address lookup asks AAAA and then A for ONE host -- the second lookup is for
   the (absolute) candidate name the first one settled on, never for the search list again *)
BeginFollowUp(lifeArg) ==
    /\ phase = "rest" /\ result[1] = "answer"
    /\ Begin(result[2], "none", lifeArg, "A", qclass)

Advance(d) ==
    /\ phase = "rest" /\ now' = now + d /\ phase' = "idle"
    /\ UNCHANGED <<cfgv, cache, candv, srvv, timev, ctrv, last, queried, result>>

(* take the next candidate; consult the cache; arm the full server list *)
NextRequest ==
    /\ phase = "request"
    /\ IF cands = <<>> THEN
          /\ result' = <<"exc", "NXDOMAIN">> /\ phase' = "done"
          /\ UNCHANGED <<candv, srvv>>
       ELSE LET c == Head(cands)
                pk == <<c, qtype, qclass>>
                nk == <<c, "ANY", qclass>>
            IN /\ qn' = c /\ cands' = Tail(cands) /\ UNCHANGED allCands
               /\ IF UseCache /\ Fresh(pk) THEN
                     /\ result' = IF cache[pk].rr = <<"none">> /\ cfg.rna THEN <<"exc", "NoAnswer">>
                                  ELSE <<"answer", c, cache[pk]>>
                     /\ phase' = "done"
                     /\ UNCHANGED <<nx, nxCount, srvv>>
                  ELSE IF UseCache /\ Fresh(nk) /\ cache[nk].rcode = "NXDOMAIN" THEN
                     /\ nx' = nx \cup {c} /\ nxCount' = nxCount + 1 /\ phase' = "request"
                     /\ UNCHANGED <<result, srvv>>
                  ELSE
                     /\ usable' = Servers /\ cur' = Servers /\ round' = 1 /\ broken' = {}
                     /\ retryTcp' = FALSE /\ tcpAttempt' = FALSE /\ backoffIdx' = 1 /\ phase' = "server"
                     /\ UNCHANGED <<result, nx, nxCount, server>>
    /\ UNCHANGED <<cfgv, now, cache, timev, ctrv, last, queried>>

(* the reply to the last UDP query was truncated: same server, TCP *)
RetryTcp ==
    /\ phase = "server" /\ retryTcp
    /\ tcpAttempt' = TRUE /\ retryTcp' = FALSE /\ phase' = "timeout"
    /\ UNCHANGED <<cfgv, now, cache, candv, usable, cur, round, server, backoffIdx, broken, timev, ctrv,
                   last, queried, result>>

(* no server left at all *)
GiveUp ==
    /\ phase = "server" /\ ~retryTcp /\ cur = {} /\ usable = {}
    /\ result' = <<"exc", "NoNameservers">> /\ phase' = "done"
    /\ UNCHANGED <<cfgv, now, cache, candv, srvv, timev, ctrv, last, queried>>

(* round exhausted: re-arm the usable servers, after a back-off *)
Rearm ==
    /\ phase = "server" /\ ~retryTcp /\ cur = {} /\ usable # {}
    /\ cur' = usable /\ round' = round + 1 /\ phase' = "sleep"
    /\ UNCHANGED <<cfgv, now, cache, candv, usable, server, tcpAttempt, retryTcp, backoffIdx, broken, timev,
                   ctrv, last, queried, result>>

MaxSleep == 2 * TicksPerSec
Sleep(d) ==
    /\ phase = "sleep" /\ d >= 1 /\ d <= MaxSleep
    /\ now' = now + d /\ backoffIdx' = Min(backoffIdx + 1, Len(BackoffTable)) /\ phase' = "server"
    /\ UNCHANGED <<cfgv, cache, candv, usable, cur, round, server, tcpAttempt, retryTcp, broken, timev, ctrv,
                   last, queried, result>>

(* any server not yet asked in this round (the order inside a round is not prescribed) *)
Pick(s) ==
    /\ phase = "server" /\ ~retryTcp /\ s \in cur
    /\ server' = s /\ cur' = cur \ {s} /\ tcpAttempt' = cfg.tcp /\ phase' = "timeout"
    /\ UNCHANGED <<cfgv, now, cache, candv, usable, round, retryTcp, backoffIdx, broken, timev, ctrv,
                   last, queried, result>>

(* the budget of the next query; a clock set back by more than a second may also end the resolution *)
Expire ==
    /\ phase = "timeout"
    /\ (Elapsed >= life \/ now - start < -TicksPerSec)
    /\ result' = <<"exc", "Timeout">> /\ phase' = "done"
    /\ UNCHANGED <<cfgv, now, cache, candv, srvv, timev, ctrv, last, queried>>
Budget ==
    /\ phase = "timeout"
    /\ Elapsed < life
    /\ tmo' = Min(life - Elapsed, cfg.tmo) /\ phase' = "query"
    /\ UNCHANGED <<cfgv, now, cache, candv, srvv, start, life, ctrv, last, queried, result>>

(* the query is sent; the environment answers with outcome o and lets d ticks pass *)
Query(o, d) ==
    /\ phase = "query"
    /\ now' = now + d /\ nq' = nq + 1 /\ backs' = (IF d < 0 THEN backs + 1 ELSE backs)
    /\ queried' = queried \cup {<<qn, qtype, qclass>>}
    /\ LET v == Verdict(o)
           e == EntryOf(o, now + d)
       IN /\ last' = v
          /\ usable' = IF v = "drop" THEN usable \ {server} ELSE usable
          /\ broken' = IF v = "drop" THEN broken \cup {server} ELSE broken
          /\ retryTcp' = (v = "retrytcp")
          /\ nx' = IF v = "nxdomain" THEN nx \cup {qn} ELSE nx
          /\ nxCount' = IF v = "nxdomain" THEN nxCount + 1 ELSE nxCount
          /\ cache' = IF ~UseCache THEN cache
                      ELSE IF v \in {"answer", "nodata"} THEN Put(cache, <<qn, qtype, qclass>>, e)
                      ELSE IF v = "nxdomain" THEN Put(cache, <<qn, "ANY", qclass>>, e)
                      ELSE cache
          /\ result' = IF v = "answer" \/ (v = "nodata" /\ ~cfg.rna) THEN <<"answer", qn, e>>
                       ELSE IF v = "nodata" THEN <<"exc", "NoAnswer">>
                       ELSE IF v = "yxdomain" THEN <<"exc", "YXDOMAIN">>
                       ELSE result
          /\ phase' = IF v \in {"answer", "nodata", "yxdomain"} THEN "done"
                      ELSE IF v = "nxdomain" THEN "request"
                      ELSE "server"
    /\ UNCHANGED <<cfgv, allCands, cands, qn, cur, round, server, tcpAttempt, backoffIdx, timev, nres>>

(* resolve() returns / raises *)
Finish ==
    /\ phase = "done" /\ phase' = "rest"
    /\ UNCHANGED <<cfgv, now, cache, candv, srvv, timev, ctrv, last, queried, result>>

SleepChoices == {BackoffTable[backoffIdx]}

Step ==      \* everything that happens inside one resolution
    \/ NextRequest \/ RetryTcp \/ GiveUp \/ Rearm \/ (\E d \in SleepChoices : Sleep(d))
    \/ (\E s \in cur : Pick(s)) \/ Expire \/ Budget
    \/ (nq < MaxQ /\ \E o \in Outcomes(qn, qtype) : \E d \in Advances(tmo, life) :
            (d < 0 => (backs < MaxBack /\ ~UseCache)) /\ Query(o, d))
    \/ Finish

Next ==
    \/ Step
    \/ (nres < MaxRes /\ \E r \in Requests : Begin(r.qname, r.search, r.life, r.qtype, r.qclass))
    \/ (nres < MaxRes /\ nres > 0 /\ \E d \in IdleAdvances : Advance(d))

Spec == Init /\ [][Next]_vars
FairSpec == Spec /\ WF_vars(Step)

---------------------------------------------------------------------------
(* Properties *)
Phases == {"idle", "rest", "request", "server", "sleep", "timeout", "query", "done"}
TypeOK ==
    /\ phase \in Phases /\ cur \subseteq usable /\ usable \subseteq Servers
    /\ tcpAttempt \in BOOLEAN /\ retryTcp \in BOOLEAN
    /\ backoffIdx \in 1..Len(BackoffTable)
    /\ nx \subseteq SeqToSet(allCands)
    /\ result[1] \in {"none", "exc", "answer"}

(* no query once the lifetime is used up, never a non-positive timeout, never more than
   the remaining lifetime nor the per-query timeout *)
WithinLifetime ==
    phase = "query" => /\ tmo >= 1 /\ tmo <= cfg.tmo /\ tmo <= life - Elapsed
                       /\ Elapsed < life

(* a server that proved broken is not asked again for this candidate *)
BrokenNeverAskedAgain ==
    /\ usable \cap broken = {}
    /\ phase \in {"timeout", "query"} => server \notin broken

(* truncation: only a UDP reply arms the retry; the retry is the very next query, same server, TCP;
   a truncated TCP reply never arms another retry *)
TruncatedRetry ==
    [][ /\ (retryTcp' /\ ~retryTcp) => (phase = "query" /\ ~tcpAttempt /\ server' = server)
        /\ (retryTcp /\ phase' # phase) => (phase' = "timeout" /\ server' = server /\ tcpAttempt')
        /\ (phase = "query" /\ tcpAttempt) => ~retryTcp' ]_vars

(* SERVFAIL keeps the server iff retry_servfail; other error rcodes drop it *)
ServfailRule ==
    LET m(rc) == [k |-> "msg", x |-> "-", rcode |-> rc, qr |-> TRUE, nq |-> 1, ans |-> <<>>, auth |-> <<>>]
    IN /\ Verdict(m("SERVFAIL")) = (IF cfg.rsf THEN "keep" ELSE "drop")
       /\ Verdict(m("REFUSED")) = "drop"

(* re-arming costs time (this is what makes every resolution end) *)
RearmCostsTime ==
    [][ /\ (round' > round /\ phase # "request") => phase' = "sleep"
        /\ (phase = "sleep" /\ phase' # "sleep") => now' > now ]_vars

(* result classification *)
Position == Len(allCands) - Len(cands)      \* index in allCands of the current candidate
Classification ==
    phase = "done" =>
       /\ result[1] # "none"
       /\ (result = <<"exc", "NXDOMAIN">>) <=> (nxCount = Len(allCands))
       /\ (result = <<"exc", "NXDOMAIN">>) => (cands = <<>> /\ SeqToSet(allCands) \subseteq nx)
       /\ (result = <<"exc", "NoNameservers">>) <=> (usable = {} /\ broken = Servers /\ last \in {"drop"})
       /\ (result = <<"exc", "Timeout">>) => (Elapsed >= life \/ now - start < -TicksPerSec)
       /\ (result = <<"exc", "YXDOMAIN">>) <=> (last = "yxdomain")
       /\ (result = <<"exc", "NoAnswer">>) => cfg.rna
       /\ (result[1] = "answer") =>
             /\ result[2] = qn /\ allCands[Position] = qn
             /\ nxCount = Position - 1           \* every earlier candidate got NXDOMAIN
             /\ (result[3].rr = <<"none">>) => ~cfg.rna
       /\ (last \in {"answer", "nodata"}) => (result[1] = "answer" \/ result = <<"exc", "NoAnswer">>)

(* cache keys are questions that were asked (queried name -- never the canonical name -- type and
   class), NXDOMAIN under type ANY and the class that was asked *)
CacheKeys ==
    \A key \in DOMAIN cache :
        /\ UseCache
        /\ \E q \in queried : key[1] = q[1] /\ key[3] = q[3] /\ key[2] \in {q[2], "ANY"}
        /\ (key[2] = "ANY") <=> (cache[key].rcode = "NXDOMAIN")
(* an answer taken from the cache was stored for the same name, type and class *)
CacheHitSameQuestion ==
    (phase = "done" /\ result[1] = "answer" /\ last = "-") =>
        /\ <<qn, qtype, qclass>> \in DOMAIN cache /\ result[3] = cache[<<qn, qtype, qclass>>]

Terminates == (phase = "request") ~> (phase = "done")
=============================================================================
