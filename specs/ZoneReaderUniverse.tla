------------------------ MODULE ZoneReaderUniverse ------------------------
(* Line alphabets of X05.  Every line is a record with the SAME fields (TLC compares
   records of one set), built from L0.  `ord` (tc = TTL before class, ct = class before
   TTL) only matters to the printer: the specification gives both orders one meaning. *)
EXTENDS ZoneReaderStep

None == <<"none">>
At == <<"at">>
Blank == <<"blank">>
Omit == <<"omit">>
Rel(x) == <<"rel", x>>
AbsN(x) == <<"abs", x>>
P(t) == [k |-> "s", t |-> t, o |-> 0, w |-> 0, b |-> "d"]
M(o, w, b) == [k |-> "m", t |-> "", o |-> o, w |-> w, b |-> b]
D == M(0, 0, "d")

L0 == [k |-> "rr", owner |-> Blank, ttl |-> -1, cls |-> "none", ord |-> "tc", y |-> "TXT", yg |-> TRUE, i |-> 0,
       s |-> "", tgt |-> None, name |-> None, v |-> 0, org |-> None, lo |-> 0, hi |-> 0, step |-> 1,
       lhs |-> <<>>, labs |-> FALSE, rhs |-> <<>>, rk |-> "text"]
Txt(o, t, s) == [L0 EXCEPT !.owner = o, !.ttl = t, !.s = s]
Mx(o, t, pref, tg) == [L0 EXCEPT !.owner = o, !.ttl = t, !.y = "MX", !.i = pref, !.tgt = tg]
Soa(o, t, min) == [L0 EXCEPT !.owner = AbsN("example."), !.ttl = t, !.y = "SOA", !.i = min, !.tgt = AbsN("ns.example.")]
Cls(l, c, ord) == [l EXCEPT !.cls = c, !.ord = ord]
NoType(l) == [l EXCEPT !.yg = FALSE]
OriginL(nm) == [L0 EXCEPT !.k = "origin", !.name = nm]
TtlL(v) == [L0 EXCEPT !.k = "ttl", !.v = v]
IncL(o) == [L0 EXCEPT !.k = "inc", !.org = o]
EndL == [L0 EXCEPT !.k = "end"]
GenL(lo, hi, st, lhs, labs, t, y, rhs, rk) ==
    [L0 EXCEPT !.k = "gen", !.lo = lo, !.hi = hi, !.step = st, !.lhs = lhs, !.labs = labs, !.ttl = t, !.y = y,
               !.rhs = rhs, !.rk = rk]

\* G1 - TTL state: $TTL, last stated TTL, SOA minimum, TTL 0
G1 == {Txt(Rel("n1"), 5, "a"), Txt(Rel("n1"), -1, "b"), Txt(Blank, -1, "c"), Txt(Rel("n2"), 0, "d"),
       Cls(Txt(Rel("n2"), 300, "e"), "IN", "ct"), TtlL(300), TtlL(0), Soa(At, -1, 7), Soa(At, 300, 7)}
\* G2 - owner / origin state: blank, @, relative, absolute, names inside the rdata
G2 == {Mx(Rel("n1"), 5, 1, Rel("m")), Mx(Blank, 5, 2, At), Mx(At, 5, 3, AbsN("m.example.")), Mx(AbsN("n1.example."), 5, 4, Rel("m")),
       Txt(Blank, 5, "f"), OriginL(AbsN("s.example.")), OriginL(Rel("s")), OriginL(AbsN("example."))}
\* G3 - $INCLUDE: origin argument, nesting, state on return
G3 == {IncL(None), IncL(Rel("s")), EndL, Mx(Blank, -1, 1, Rel("m")), Mx(Rel("n1"), 5, 2, Rel("m")), Txt(At, -1, "g"),
       TtlL(300), OriginL(AbsN("s.example.")), Txt(Rel("n2"), 0, "h")}
G3b == {IncL(AbsN("s.example.")), IncL(None), EndL, Txt(Blank, -1, "i"), Txt(Rel("n1"), 5, "j"), Soa(At, -1, 7), TtlL(0), OriginL(Rel("s"))}
\* G4 - $GENERATE between records (owner / TTL inheritance around it)
GenA == {GenL(1, 3, 2, <<P("h"), D>>, FALSE, 5, "A", <<P("10.0.0."), D>>, "text"),
         GenL(9, 11, 1, <<P("h"), M(-4, 3, "d")>>, FALSE, -1, "PTR", <<P("t"), M(0, 2, "x")>>, "rel"),
         GenL(2, 2, 1, <<D, P(".g.example.")>>, TRUE, -1, "PTR", <<P("p"), D, P(".example.")>>, "abs"),
         GenL(0, 8, 8, <<P("o"), M(0, 3, "o")>>, FALSE, 0, "NS", <<P("ns"), M(10, 0, "X")>>, "rel")}
G4 == GenA \cup {Txt(Blank, -1, "k"), Txt(Rel("n1"), 300, "l"), TtlL(5), OriginL(Rel("s")), Mx(Blank, -1, 1, Rel("m"))}
\* G5 - class stated or not, both orders, a class that is not the zone's
G5 == {Cls(Txt(Rel("n1"), 5, "m"), "IN", "tc"), Cls(Txt(Rel("n1"), 5, "n"), "IN", "ct"), Cls(Txt(Blank, -1, "o"), "IN", "tc"),
       Cls(Txt(Rel("n2"), 5, "p"), "CH", "tc"), Cls(Txt(Rel("n2"), 5, "q"), "CH", "ct"), Cls(Txt(Blank, -1, "r"), "CH", "ct"),
       Txt(Rel("n1"), -1, "s"), Cls(Mx(Rel("in"), 300, 1, Rel("m")), "none", "tc"), Cls(Mx(Rel("300"), -1, 2, At), "IN", "tc")}
\* G7 - every $GENERATE form of the universe, alone after a $TTL (modifier semantics)
GenB == {GenL(7, 7, 1, <<P("a"), M(0, 0, b)>>, FALSE, -1, "A", <<P("10.0.0."), D>>, "text") : b \in {"d", "o", "x", "X"}}
   \cup {GenL(26, 26, 1, <<P("a"), M(5, w, b)>>, FALSE, -1, "A", <<P("10.0.0.1")>>, "text") : w \in {0, 1, 2, 4}, b \in {"d", "o", "x", "X"}}
   \cup {GenL(v, v, 1, <<M(0, w, b), P("r")>>, FALSE, -1, "A", <<P("10.0.0.1")>>, "text") : v \in {5, 299}, w \in {0, 1, 3, 4, 5, 6}, b \in {"n", "N"}}
   \cup {GenL(3, 4, 1, <<P("a"), D, P("-"), D>>, FALSE, -1, "A", <<P("10."), D, P(".0."), D>>, "text"),
         GenL(3, 4, 1, <<P("a"), M(0, 2, "d"), P("-"), M(1, 2, "d")>>, FALSE, -1, "A", <<P("10.0.0."), D>>, "text"),
         GenL(3, 4, 1, <<P("a"), D, P("-"), M(1, 2, "d")>>, FALSE, -1, "AAAA", <<P("fd00::"), D>>, "text"),
         GenL(3, 4, 1, <<P("c"), D>>, FALSE, -1, "CNAME", <<P("t"), D, P(".example.")>>, "abs"),
         GenL(3, 4, 1, <<P("a"), D>>, FALSE, -1, "DNAME", <<P("d"), M(1, 2, "d"), P("-"), D>>, "rel"),
         Cls(GenL(3, 4, 1, <<P("a"), D>>, FALSE, 5, "A", <<P("10.0.0."), D>>, "text"), "IN", "tc"),
         Cls(GenL(3, 4, 1, <<P("a"), D>>, FALSE, 5, "A", <<P("10.0.0."), D>>, "text"), "IN", "ct"),
         Cls(GenL(3, 4, 1, <<P("a"), D>>, FALSE, -1, "A", <<P("10.0.0."), D>>, "text"), "CH", "tc")}
G7 == GenB \cup {TtlL(300)}
\* G6 - everything (simulation)
G6 == G1 \cup G2 \cup G3 \cup G3b \cup G4 \cup G5
\* R1 - read_rrsets: record lines only; owner / TTL / class / type stated or not
R1 == {Mx(Rel("n1"), 5, 1, Rel("m")), Mx(Rel("n2"), -1, 2, Rel("m")), Mx(Omit, 5, 3, At), Mx(Omit, -1, 4, Rel("m")),
       Cls(Mx(Rel("n1"), 300, 5, Rel("m")), "IN", "ct"), Cls(Mx(Omit, -1, 6, Rel("m")), "IN", "tc"),
       Cls(Mx(Rel("n2"), 0, 7, Rel("m")), "CH", "tc"),
       NoType(Mx(Rel("n1"), 5, 8, Rel("m"))), NoType(Mx(Omit, -1, 9, Rel("m"))), NoType(Mx(Rel("n2"), -1, 10, At))}
=============================================================================
