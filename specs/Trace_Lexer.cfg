INIT TraceInit
NEXT TraceNext
CONSTANTS
  DialectFilter <- Dialects
  StrictLine = FALSE
CONSTRAINT Accepted
POSTCONDITION Post
CHECK_DEADLOCK FALSE
