SPECIFICATION Spec
CONSTANTS
  Names <- UNames
  Queries <- UQueries
  OpTypes = {"NS", "A"}
  RdIds = {1}
  LoadSets <- MCLoadSets
  MaxOps = 2
  MaxTxns = 2
INVARIANT TypeOK
INVARIANT CommittedLaws
INVARIANT WorkingLaws
PROPERTY OnlyCommitChanges
CHECK_DEADLOCK FALSE
