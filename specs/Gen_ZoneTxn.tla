---------------------------- MODULE Gen_ZoneTxn ----------------------------
(* ZoneTxn plus a history variable: every behaviour is one transaction script
   (the environment's choices only: calls, argument forms, name spellings, how the
   transaction ends).  Terminal states print the script as JSON; the driver replays it on
   the real zone classes.  Expected results are NOT emitted: the oracle is Trace_ZoneTxn. *)
EXTENDS ZoneTxn, Json

CONSTANTS Spellings,   \* subset of {"rel", "abs"}: how an owner name is handed to the API
          AddForms,    \* subset of {"rdata", "rdataset", "rrset"}
          DelForms,    \* subset of {"rdata", "rdataset", "rrset"}
          Kinds,       \* subset of {"write", "read"}
          Replacements,\* subset of BOOLEAN
          Ops,         \* subset of the call kinds below (which calls a script may contain)
          Ends         \* subset of {"commit", "rollback", "raise", "cm_commit"}: explicit commit(),
                       \* explicit rollback(), exception leaving the with-block, normal with-block exit
VARIABLE hist
gvars == <<vars, hist>>

R(ttl, rds) == [ttl |-> ttl, rds |-> rds]
ZApex == (<<"@", "SOA">> :> R(300, {<<0, 1>>})) @@ (<<"@", "NS">> :> R(300, {<<1>>}))
ZA    == ZApex @@ (<<"a", "A">> :> R(600, {<<1>>}))
ZC    == ZApex @@ (<<"a", "CNAME">> :> R(300, {<<1>>})) @@ (<<"a", "NSEC">> :> R(300, {<<1>>}))
ZW    == (<<"@", "SOA">> :> R(300, {<<65535, 65535>>})) @@ (<<"@", "NS">> :> R(300, {<<1>>}))
           @@ (<<"b.a", "A">> :> R(300, {<<1>>, <<2>>})) @@ (<<"b.a", "RRSIG/A">> :> R(300, {<<1>>}))
\* two RRSIG rdatasets (different covered types) next to their data at one owner
ZS    == ZApex @@ (<<"a", "A">> :> R(300, {<<1>>})) @@ (<<"a", "RRSIG/A">> :> R(300, {<<1>>}))
           @@ (<<"a", "RRSIG/NS">> :> R(300, {<<1>>, <<2>>}))
GenInitZones == {ZApex, ZA, ZC, ZW, ZS}
GenInitSmall == {ZA, ZC}
GenInitMid == {ZA, ZC, ZW, ZS}
GenInitEmpty == {<<>>}
GenInitC == {ZC}
GenSerials == {<<0, 1>>, <<32768, 0>>}
GenSerialArgs == {[neg |-> FALSE, value |-> <<0, 1>>, relative |-> TRUE],
                  [neg |-> FALSE, value |-> <<32767, 65535>>, relative |-> TRUE],
                  [neg |-> FALSE, value |-> <<32768, 0>>, relative |-> TRUE],
                  [neg |-> FALSE, value |-> <<0, 0>>, relative |-> FALSE],
                  [neg |-> FALSE, value |-> <<1, 2>>, relative |-> FALSE],
                  [neg |-> TRUE, value |-> <<0, 1>>, relative |-> TRUE]}
GenSerialSmall == {[neg |-> FALSE, value |-> <<0, 1>>, relative |-> TRUE]}

ProjOf(w) == {<<k[1], k[2], w[k].ttl, w[k].rds>> : k \in DOMAIN w}
H(e) == hist' = Append(hist, e)

GInit == Init /\ hist = <<[op |-> "init", zone |-> ProjOf(committed), origin |-> corigin]>>

GBegin == \E k \in Kinds, r \in Replacements :
    /\ (k = "read" => ~r)
    /\ Begin(k, r) /\ H([op |-> "begin", kind |-> k, repl |-> r])

GStep ==
    \/ \E sp \in Spellings, f \in AddForms, n \in Names, ty \in Types, ttl \in TTLs : \E rds \in RdSets(ty) :
         \/ "add" \in Ops /\ (f = "rdata" => Cardinality(rds) = 1) /\ Add(TRUE, n, ty, ttl, rds)
              /\ H([op |-> "add", form |-> f, sp |-> sp, name |-> n, type |-> ty, ttl |-> ttl, rds |-> rds])
         \/ "replace" \in Ops /\ (f = "rdata" => Cardinality(rds) = 1) /\ Replace(TRUE, n, ty, ttl, rds)
              /\ H([op |-> "replace", form |-> f, sp |-> sp, name |-> n, type |-> ty, ttl |-> ttl, rds |-> rds])
    \/ \E sp \in Spellings, n \in Names, ex \in BOOLEAN :
         "delname" \in Ops /\ DeleteName(ex, TRUE, n) /\ H([op |-> "delname", exact |-> ex, sp |-> sp, name |-> n])
    \/ \E sp \in Spellings, n \in Names, ty \in Types, ex \in BOOLEAN :
         "deltype" \in Ops /\ DeleteType(ex, TRUE, n, ty) /\ H([op |-> "deltype", exact |-> ex, sp |-> sp, name |-> n, type |-> ty])
    \/ \E sp \in Spellings, f \in DelForms, n \in Names, ty \in Types, ex \in BOOLEAN : \E rds \in RdSets(ty) :
         /\ "delrds" \in Ops
         /\ (f = "rdata" => Cardinality(rds) = 1)
         /\ DeleteRdatas(ex, TRUE, n, ty, rds)
         /\ H([op |-> "delrds", form |-> f, exact |-> ex, sp |-> sp, name |-> n, type |-> ty, rds |-> rds])
    \/ \E a \in SerialArgs, nf \in {"default"} \cup Spellings :
         "serial" \in Ops /\ UpdateSerial(a) /\ H([op |-> "serial", neg |-> a.neg, value |-> a.value, relative |-> a.relative, nameform |-> nf])
    \/ \E sp \in Spellings, n \in Names, ty \in Types :
         "get" \in Ops /\ Get(TRUE, n, ty) /\ H([op |-> "get", sp |-> sp, name |-> n, type |-> ty])
    \/ \E sp \in Spellings, n \in Names :
         "exists" \in Ops /\ Exists(TRUE, n) /\ H([op |-> "exists", sp |-> sp, name |-> n])
    \/ \E sp \in Spellings, n \in Names :
         "getnode" \in Ops /\ GetNode(TRUE, n) /\ H([op |-> "getnode", sp |-> sp, name |-> n])
    \/ "names" \in Ops /\ IterNames /\ H([op |-> "names"])
    \/ "changed" \in Ops /\ (\E b \in BOOLEAN : Changed(b)) /\ H([op |-> "changed"])
    \/ "learn" \in Ops /\ LearnOrigin /\ H([op |-> "learn"])
    \/ "outzone" \in Ops /\ DeleteName(FALSE, FALSE, "@") /\ H([op |-> "outzone"])
    \/ \E sp \in Spellings, n \in Names, ty \in Types \ {"SOA"}, ttl \in TTLs :
         "cbraise" \in Ops /\ CallbackRaises /\ H([op |-> "cbraise", sp |-> sp, name |-> n, type |-> ty, ttl |-> ttl, rds |-> {<<1>>}])

GEnd == \E how \in Ends :
    /\ IF how \in {"commit", "cm_commit"} THEN Commit ELSE Rollback
    /\ H([op |-> "end", how |-> how])

GNext ==
    \/ GBegin
    \/ (nops < MaxOps /\ GStep)
    \/ (nops > 0 /\ GEnd)

GSpec == GInit /\ [][GNext]_gvars

Emit == (mode = "ended") => PrintT("BEH " \o ToJson(hist))
=============================================================================
