---------------------------- MODULE MC_NameText ----------------------------
(* Bounded instance of NameText.
   mode "parse": the parser automaton as a state machine on EVERY text of the universe
                 Texts (all malformed escapes, \DD at the end, \256, \999, a digit after a
                 complete escape, \. and \@ as whole labels ...), one action per input class;
   mode "write": for every name of TextNames = NamesA + CtlNames, the round-trip law through ToText / ParseText. *)
EXTENDS NameText, NameUniverse, TLC

CONSTANTS Modes
VARIABLES mode, text, name, ps
vars == <<mode, text, name, ps>>

Lead(n) == IF n = <<>> \/ n[1] = <<>> THEN <<>> ELSE <<n[1][1]>>
Init == /\ mode \in Modes
        /\ \/ mode = "parse" /\ text \in Texts /\ name = <<>> /\ ps = PInit
           \/ mode = "write" /\ text = <<>> /\ name \in {Lead(n) : n \in TextNames} /\ ps = PInit

Running == mode = "parse" /\ ps.st = "run"
Cur == text[ps.i]
Act(a) == Running /\ ps.i <= Len(text) /\ ActionOf(ps, Cur) = a /\ ps' = PStep(ps, Cur) /\ UNCHANGED <<mode, text, name>>
Ordinary   == Act("Ordinary")
DotA       == Act("Dot")
Backslash  == Act("Backslash")
EscDigit   == Act("EscDigit")
EscLiteral == Act("EscLiteral")
EscBad     == Act("EscBad")
End        == Running /\ ps.i > Len(text) /\ ps' = PEnd(ps) /\ UNCHANGED <<mode, text, name>>
(* mode "write": first the leading octet, then the name, so that TLC's workers share the enumeration *)
Pick == /\ mode = "write" /\ text = <<>> /\ UNCHANGED <<mode, ps>>
        /\ name' \in {n \in TextNames : Lead(n) = name}
        /\ text' = ToText(name')
Next == Pick \/ Ordinary \/ DotA \/ Backslash \/ EscDigit \/ EscLiteral \/ EscBad \/ End
Spec == Init /\ [][Next]_vars

-----------------------------------------------------------------------------
TypeOK == /\ ps.i \in 1..Len(text) + 1 /\ ps.ndig \in 0..2 /\ ps.tot \in 0..99
          /\ ps.st \in {"run", "ok", "err"} /\ (ps.esc \/ (ps.ndig = 0 /\ ps.tot = 0))
          /\ \A k \in 1..Len(ps.label) : ps.label[k] \in Octet
Progress == [][mode = "parse" => ps'.i > ps.i \/ ps'.st # "run"]_vars                  \* one octet per step: terminates
(* the step function and its fold agree: what the state machine ends in is ParseText *)
FoldAgrees == mode = "parse" /\ ps.st # "run" /\ ~(text \in {<<>>, <<At>>, <<Dot>>}) =>
                  LET r == ParseText(text, NoOrigin)
                  IN  IF ps.st = "err" THEN r = Err(ps.kind) ELSE r = Construct(ps.labels)
(* an accepted text denotes a legal name whose text form parses back to it; escapes decode to one octet *)
AcceptedIsValid == mode = "parse" /\ ps.st = "ok" =>
                  \A o \in OriginsA : LET r == ParseText(text, o)
                                      IN  IsOk(r) => /\ Valid(r[2])
                                                     /\ ParseText(ToText(r[2]), NoOrigin) = r
                                                     /\ WireLen(r[2]) <= Len(text) + 1 + (IF o[1] = "some" THEN WireLen(o[2]) ELSE 0)
(* the classes of malformed text the property names are refused *)
BadEscapeRefused == mode = "parse" /\ ps.st # "run" =>
                  /\ (Len(text) > 0 /\ text[Len(text)] = BackSl /\ (Len(text) = 1 \/ text[Len(text) - 1] # BackSl) => ps.st = "err")
                  /\ ((\E k \in 1..Len(text) - 1 : text[k] = Dot /\ text[k + 1] = Dot /\ (k = 1 \/ text[k - 1] # BackSl)) => ps.st = "err")
                  /\ (Len(text) > 1 /\ text[1] = Dot => ps.st = "err")
(* C01 round trip through text, for every name of the universe and every origin: the text
   of a name parses back to exactly that name (to name + origin when it was relative) *)
Written == mode = "write" /\ text # <<>>
TextRoundTrip == Written => \A o \in OriginsA : ParseText(text, o) = Reparsed(name, o)
OmitRoundTrip == Written /\ IsAbs(name) /\ name # Root =>
                     ParseText(ToTextOmit(name), Some(Root)) = Ok(name)
TokRoundTrip == Written => /\ TokName(text, NoOrigin, FALSE, NoOrigin) = Ok(name)
                           /\ (IsAbs(name) => TokName(text, Some(Root), TRUE, NoOrigin) = Ok(Relativize(name, Root)))
(* RFC 1035 5.1 octet by octet: a one-octet label is written as itself iff it is a printable
   non-special character, as backslash + itself iff special, as backslash + 3 decimal digits otherwise *)
EscapifyExact ==
    (Written /\ Len(name) = 1 /\ Len(name[1]) = 1) =>
        LET oc == name[1][1]
            d3 == <<BackSl, 48 + (oc \div 100), 48 + ((oc \div 10) % 10), 48 + (oc % 10)>>
        IN  IF oc \in Special THEN text = <<BackSl, oc>>
            ELSE IF oc >= 33 /\ oc <= 126 THEN text = <<oc>>
            ELSE text = d3
(* the text never contains a raw special: every octet of it is printable ASCII, and a
   special character only follows a backslash *)
TextIsPrintable == Written => \A k \in 1..Len(text) : /\ text[k] > 32 /\ text[k] < 127
                                                       /\ (text[k] \in Special \ {Dot, BackSl, At} => text[k - 1] = BackSl)
=============================================================================
