INIT TraceInit
NEXT TraceNext
CONSTANTS
  MaxChain = 16
CONSTRAINT Accepted
POSTCONDITION Post
CHECK_DEADLOCK FALSE
