INIT TraceInit
NEXT TraceNext
CONSTANTS
  Strict = TRUE
  Tier = "thorough"
  Ops = {}
  Rcs = {}
  Vers = {}
  ELos = {}
  RVals = {}
  RTexts = {}
CONSTRAINT Accepted
POSTCONDITION Post
CHECK_DEADLOCK FALSE
