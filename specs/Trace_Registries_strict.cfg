INIT TraceInit
NEXT TraceNext
CONSTANTS
  Strict = TRUE
  Tier = "thorough"
  Ops = {}
  Rcs = {}
  Names = {}
  Vers = {}
  ELos = {}
  RVals = {}
  RTexts = {}
CONSTRAINT Accepted
POSTCONDITION Post
CHECK_DEADLOCK FALSE
