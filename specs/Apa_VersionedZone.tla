-------------------------- MODULE Apa_VersionedZone --------------------------
(* X04 - Apalache wrapper of VersionedZoneAbs: the inductive invariant is checked
   symbolically for a fixed number of reader handles and a bound on the number of retained
   versions / history length in the ARBITRARY start state (Gen), for unbounded version ids
   and uninterpreted contents.
     base:  apalache-mc check --cinit=CInit --init=Init    --next=ApaNext --inv=ApaIndInv --length=0
     step:  apalache-mc check --cinit=CInit --init=IndInit --next=ApaNext --inv=ApaIndInv --length=1
     goal:  apalache-mc check --cinit=CInit --init=IndInit --next=ApaNext --inv=Safety    --length=0 *)
EXTENDS VersionedZoneAbs, Apalache

CInit ==
    /\ Rids = {1, 2, 3}
    /\ Contents = {"a_OF_CONTENT", "b_OF_CONTENT"}
    /\ Empty = "e_OF_CONTENT"
    /\ IdSpace = {}          \* not used: ApaNext commits with any natural number

(* Next with IdSpace = Nat (an infinite set cannot be the value of a constant here) *)
ApaNext ==
    \/ \E r \in Rids : \E i \in DOMAIN versions : Open(r, i)
    \/ \E r \in Rids : Close(r)
    \/ \E nid \in Nat : \E c \in Contents : Commit(nid, c)
    \/ Reprune

(* TypeSeq is the type annotation here *)
ApaIndInv == TypeRest /\ IndCore

IndInit ==
    /\ versions = Gen(5)
    /\ allIds = Gen(7)
    /\ published = Gen(7)
    /\ readers = Gen(3)
    /\ ApaIndInv

(* non-vacuity: each of these must be VIOLATED from IndInit (the arbitrary start state is
   not trivial) *)
Wit_Rich == ~(Len(versions) >= 3 /\ Len(allIds) > Len(versions) /\ {1, 2} \subseteq DOMAIN readers
              /\ readers[1].vid # readers[2].vid)
Wit_BigIds == ~(versions[1].id > 1000000)
=============================================================================
