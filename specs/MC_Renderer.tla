---------------------------- MODULE MC_Renderer ----------------------------
(* Bounded instance of Renderer (low-level actions): every sequence of at most MaxRecs
   record sets (plus question, reserve/release, OPT with padding, header, TSIG) over a small
   universe of names with sharing patterns, under budgets small enough to hit rollbacks. *)
EXTENDS Renderer

CONSTANTS MaxRecs,     \* record sets (accepted or rolled back) per behaviour
          NameSel,     \* subset of 1..6: which universe names may be owners
          KindSel,     \* subset of {"A", "NS", "RRSIG", "SOA", "SRV"}
          Budgets,     \* set of max_size values
          BigLen       \* length of the big opaque record (0 = none); pushes names past 0x3FFF

lex == <<101, 120>>  lEX == <<69, 88>>  la == <<97>>  lA == <<65>>  lb == <<98>>
lother == <<111, 116, 104, 101, 114>>
UName(i) == CASE i = 1 -> <<lex>> [] i = 2 -> <<la, lex>> [] i = 3 -> <<lb, la, lex>>
              [] i = 4 -> <<lA, lEX>> [] i = 5 -> <<lother>> [] OTHER -> <<>>
Owners == {UName(i) : i \in NameSel}
Targets == {UName(2), UName(4), UName(3)} \cap ({UName(i) : i \in NameSel} \cup {UName(4)})
Ttl300 == <<0, 300>>
Rec(sec, name, kind, n1, n2, k, nrd) ==
    [sec |-> sec, name |-> name, kind |-> kind, n1 |-> n1, n2 |-> n2, k |-> k, nrd |-> nrd,
     ttl |-> Ttl300, form |-> "plain"]
RecU(sec) ==
    {Rec(sec, n, "A", <<>>, <<>>, 1, c) : n \in Owners, c \in (IF "A" \in KindSel THEN {0, 1, 2} ELSE {})}
    \cup {Rec(sec, n, kd, tg, <<>>, 1, 1) : n \in Owners, kd \in KindSel \cap {"NS", "RRSIG", "SRV"}, tg \in Targets}
    \cup {Rec(sec, UName(1), "SOA", tg, UName(4), 7, 1) : tg \in (IF "SOA" \in KindSel THEN {UName(2), UName(5)} ELSE {})}
    \cup {Rec(sec, UName(5), "BIG", <<>>, <<>>, BigLen, 1) : x \in (IF BigLen > 0 THEN {1} ELSE {})}
Questions == {[name |-> n, type |-> TyA, cls |-> ClsIN] : n \in Owners \cap {UName(2), UName(4)}}
Opt0 == MkOpt(1232, <<0, 0>>, <<>>)
Opt1 == MkOpt(4096, OptTtl(2561, 0, 32768), <<<<10, Fill(8, 7)>>>>)     \* ext rcode, DO, one option
KeyName == <<<<107>>, lex>>                                         \* k.ex.
Alg == <<<<104>>>>                                                  \* "h." stands for the algorithm name
Tsig0 == MkTsig(KeyName, Alg, <<0, 0, 0, 0, 0, 9>>, 300, Fill(4, 85), 4660, 0, <<>>)

TsigDone == \E i \in 1..Len(st.xs) : st.xs[i].type = TyTSIG
Attempts == Len(st.xs) + Len(st.rb)      \* grows with every accepted record / rollback
MCInit == \E max \in Budgets : RInit(4660, 256, max)
MCNext ==
    \/ \E q \in Questions : Len(st.qs) = 0 /\ AddQuestion(q)
    \/ \E sec \in 1..3 : \E r \in RecU(sec) :
         /\ Attempts < MaxRecs /\ sec + 1 >= st.section /\ ~TsigDone
         /\ AddRRset(sec, MkRRset(r, RfcCmp, ClsIN))
    \/ \E n \in {11} : st.maxSize < 65535 /\ st.reserved = 0 /\ Attempts = 0 /\ st.qs = <<>> /\ st.rb = <<>> /\ Reserve(n)
    \/ st.reserved > 0 /\ Release
    \/ \E op \in {<<Opt0, 0>>, <<Opt1, 16>>} : LET o == op[1] pad == op[2] IN
         /\ Attempts = MaxRecs /\ ~st.padded /\ ~TsigDone /\ \A i \in 1..Len(st.xs) : st.xs[i].type # TyOPT
         /\ AddOpt(o, pad, PlainSize(o) + (IF pad > 0 THEN 4 ELSE 0), PlainSize(Tsig0))
    \/ (st.padded \/ TsigDone \/ Attempts = MaxRecs) /\ WriteHeader
    \/ Attempts = MaxRecs /\ (\A i \in 1..Len(st.xs) : st.xs[i].type # TyTSIG) /\ AddTsig(Tsig0)
Spec == MCInit /\ [][MCNext]_vars
\* with padding, the low-level sequence OPT(pad) ; TSIG ends on a block boundary
PadExact ==
    (st.padded /\ TsigDone /\ st.res = "ok" /\ st.xs[Len(st.xs)].type = TyTSIG
        /\ Len(st.xs) >= 2 /\ st.xs[Len(st.xs) - 1].type = TyOPT) => Len(st.out) % 16 = 0
=============================================================================
