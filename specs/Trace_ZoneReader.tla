------------------------- MODULE Trace_ZoneReader -------------------------
(* Trace validation of X05.  A trace = one line sequence loaded prefix by prefix through one
   API configuration (Log[t].cfg); event l = abstract line l + what the real reader
   returned for the first l lines.  The policy (one consistent reading of everything the
   sources leave open) is chosen in TraceInit among the fields that can matter for this
   trace; the trace is accepted iff SOME policy explains every event.
   Hard clauses: Outcome, Content, ErrFile, IncludeRefusal; CheckLines adds ErrLine (the
   line number in the message - not promised anywhere, judged for the drift counter only).
   Pinned = TRUE admits only PolA (the reading the pinned dnspython was seen to take): used to
   MEASURE that reading (evidence), never for a verdict. *)
EXTENDS ZoneReader, VTrace

CONSTANTS CheckLines, Pinned
VARIABLES t, l
tvars == <<vars, t, l>>

Has(tr, P(_)) == \E i \in 1..Len(tr.ev) : P(tr.ev[i])
IsInc(e) == e.k = "inc"
IsGen(e) == e.k = "gen"
IsSoa(e) == e.k = "rr" /\ e.y = "SOA"
IsBlank(e) == e.k = "rr" /\ e.owner[1] = "blank"
Relevant(tr) ==
    (IF Has(tr, IsInc) THEN {"incOwner", "incTtl", "incIn"} ELSE {})
    \cup (IF Has(tr, IsBlank) /\ (tr.cfg.api # "rrsets" \/ tr.cfg.fname = "") THEN {"blank0"} ELSE {})
    \cup (IF Has(tr, IsInc) /\ tr.cfg.inc = "dflt" /\ tr.cfg.incDoc = "text" /\ tr.cfg.dirs = <<"*">> THEN {"incDflt"} ELSE {})
    \cup (IF Has(tr, IsSoa) THEN {"soaDef", "soaOwn"} ELSE {})
    \cup (IF Has(tr, IsGen) THEN {"genOwner"} ELSE {})
    \cup (IF tr.cfg.api = "rrsets" /\ tr.cfg.dttl < 0 /\ tr.cfg.fttl < 0 THEN {"rrsTtl"} ELSE {})

TraceInit == /\ RegInit
             /\ t \in 1..NTraces
             /\ l = 1
             /\ \E p \in (IF Pinned THEN {PolA} ELSE PoliciesOver(Relevant(Log[t]))) : InitWith(Log[t].cfg, p)

\* the refusal the docstring names: "encountering a $INCLUDE will raise a SyntaxError"
IncRefused(e) == status = "ok" /\ e.k = "inc" /\ ~DirAllowed(cfg, "$INCLUDE", pol)

Judge(e) ==
    LET r == e.res IN
    /\ Check(t, l, "Outcome", (r.st = "ok") = (status' = "ok"))
    /\ IF r.st = "ok"
       THEN Check(t, l, "Content", IF r.mode = "bag" THEN BagOf(r.recs) = BagOf(out')
                                                      ELSE ToSetOf(r.recs) = Observable(out'))
       ELSE /\ Check(t, l, "IncludeRefusal", IncRefused(e) => r.syn)
            /\ Check(t, l, "ErrFile", r.syn => r.file = errAt'[1])
            /\ Check(t, l, "ErrLine", (CheckLines /\ r.syn) => r.line = errAt'[2])

TraceNext == /\ l <= Len(Ev(t))
             /\ LET e == Ev(t)[l] IN
                /\ e.k \in {"rr", "gen", "origin", "ttl", "inc", "end"}
                /\ IF status = "ok" THEN Read(e) ELSE Become([Cur EXCEPT !.n = @ + 1])
                /\ Judge(e)
             /\ l' = l + 1
             /\ t' = t
Accepted == Accepting(t, l)
=============================================================================
