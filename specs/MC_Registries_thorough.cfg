SPECIFICATION MCSpec
CONSTANTS
  Tier = "thorough"
  Modes = {"fields", "flags", "rcode", "ehi", "value", "text", "header", "reg"}
  MDepth = 2
  MRDepth = 2
  ValueRegs <- Regs
  Slices = 1
  Slice = 0
  Ops <- MOps
  Rcs <- MRcs
  Names <- MNames
  Vers <- MVers
  ELos <- MELos
  RVals <- GRVals
  RTexts <- GRTexts
INVARIANT FieldLaws
INVARIANT FlagsLaws
INVARIANT RcodeLaws
INVARIANT EhiLaws
INVARIANT ValueLaws
INVARIANT TextLaws
INVARIANT HeaderOK
INVARIANT RegLaws
PROPERTY OpcodeFrame
PROPERTY RcodeFrame
PROPERTY FlagFrame
PROPERTY DnssecFrame
CHECK_DEADLOCK FALSE
