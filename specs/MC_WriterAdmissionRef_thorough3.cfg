SPECIFICATION Spec
CONSTANTS
  Writers = {1, 2}
  Readers = {5}
  NTxn = 2
  NReads = 1
  MCHows = {"commit", "rollback"}
  Plans <- MCPlansLive
  RPlans <- MCRPlans
  RModes <- MCRModes
  MCRModeSet = {"latest"}
  InitVid = 2
  Policers = {7}
  PPlans <- MCPPlans
PROPERTY AbsSpec
PROPERTY AbsNoCuts
INVARIANT AbsIndInv
INVARIANT AbsSafety
INVARIANT SameProperties
