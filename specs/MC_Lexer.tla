------------------------------ MODULE MC_Lexer ------------------------------
(* The lexer as a machine: the environment supplies the input one character at a time
   (lazily, so TLC explores every string up to MaxLen without enumerating them first),
   calls get(want_leading, want_comment) and unget(); every reachable configuration is
   checked against the properties below, and when the input is complete the token
   sequence the machine produced is compared with the pure function (RunScript). *)
EXTENDS Lexer, TLC

CONSTANTS Alphabet, MaxLen, MaxUnget, DialectSet
VARIABLES inp, ended, m, toks, calls, d, ungets
vars == <<inp, ended, m, toks, calls, d, ungets>>

Init == /\ inp = <<>> /\ ended = FALSE /\ m = Start0 /\ toks = <<>> /\ calls = <<>>
        /\ d \in DialectSet /\ ungets = 0

Done == m.st # "ok" \/ (toks # <<>> /\ toks[Len(toks)].k = "EOF" /\ m.held = <<>>)

Call(wl, wc) ==
    /\ m.mode = "idle" /\ ~Done
    /\ m' = Begin(m, wl, wc, d)
    /\ calls' = Append(calls, <<"get", wl, wc>>)
    /\ toks' = IF m'.mode = "idle" /\ m'.st = "ok" THEN Append(toks, m'.ret[1]) ELSE toks
    /\ UNCHANGED <<inp, ended, d, ungets>>
Unget ==
    /\ CanUnget(m) /\ ungets < MaxUnget
    /\ m' = UngetTok(m) /\ ungets' = ungets + 1
    /\ calls' = Append(calls, <<"unget", FALSE, FALSE>>)
    /\ UNCHANGED <<inp, ended, toks, d>>
Feed ==
    /\ m.mode # "idle"
    /\ \E c \in Alphabet \cup {END} :
         /\ IF m.pos <= Len(inp) THEN c = inp[m.pos] /\ UNCHANGED <<inp, ended>>
            ELSE IF ended THEN c = END /\ UNCHANGED <<inp, ended>>
            ELSE IF c = END THEN ended' = TRUE /\ inp' = inp
            ELSE Len(inp) < MaxLen /\ inp' = Append(inp, c) /\ ended' = ended
         /\ m' = Step(m, c, d)
    /\ toks' = IF m'.mode = "idle" /\ m'.st = "ok" THEN Append(toks, m'.ret[1]) ELSE toks
    /\ UNCHANGED <<calls, d, ungets>>
Next == Feed \/ Unget \/ \E wl, wc \in BOOLEAN : Call(wl, wc)
Spec == Init /\ [][Next]_vars

\* ------------------------------------------------------------------ properties
TokenOK(tk) == /\ tk.k \in Kinds /\ tk.e \in BOOLEAN
               /\ (tk.k = "IDENTIFIER" => tk.v # <<>>)
               /\ (tk.e => tk.k \in {"IDENTIFIER", "QUOTED_STRING"})
TypeOK == /\ m.pos \in 1..(Len(inp) + 1) /\ m.depth \in Nat /\ Len(m.held) <= 1 /\ Len(m.ret) <= 1
          /\ \A i \in 1..Len(toks) : TokenOK(toks[i])
DepthNonNeg == m.depth >= 0
\* "increased by one every time a '(' delimiter is read, decreased by one every time a ')' is read"
DepthSteps == [][m'.depth # m.depth =>
                   /\ m.mode = "item" /\ m'.pos = m.pos + 1
                   /\ \/ inp'[m.pos] = LP /\ m'.depth = m.depth + 1
                      \/ inp'[m.pos] = RP /\ m'.depth = m.depth - 1]_vars
\* the current line number is 1 + the newlines consumed, and never goes back
LineMonotone == [][m'.pos >= m.pos /\ LineOf(m', inp') >= LineOf(m, inp) /\ LineAhead(m', inp') >= LineAhead(m, inp)]_vars
\* "line terminations are not recognized within parentheses": a line (and the input) ends at depth 0
EolOutsideParens == [][Len(toks') > Len(toks) /\ toks'[Len(toks')].k \in {"EOL", "EOF"} /\ m.held = <<>>
                          => m'.depth = 0]_vars
\* an escaped special character does not end the item: every unescaped character of an IDENTIFIER is
\* not special, a QUOTED_STRING has no unescaped quote; has_escape <=> a backslash is present
RECURSIVE Bare(_, _)   \* positions of v (from i) that are not protected by a backslash
Bare(v, i) == IF i > Len(v) THEN {} ELSE IF v[i] = BS THEN Bare(v, i + 2) ELSE {i} \cup Bare(v, i + 1)
TokenShape == \A i \in 1..Len(toks) : LET tk == toks[i] IN
    /\ tk.k = "IDENTIFIER" => \A j \in Bare(tk.v, 1) : ~Special(tk.v[j], d)
    /\ tk.k = "QUOTED_STRING" => \A j \in Bare(tk.v, 1) : tk.v[j] # DQ /\ (tk.v[j] = NL => d.nlq = "keep")
    /\ tk.k \in {"IDENTIFIER", "QUOTED_STRING"} => (tk.e <=> \E j \in 1..Len(tk.v) : tk.v[j] = BS)
    /\ tk.k \in {"IDENTIFIER", "QUOTED_STRING"} => (tk.v = <<>> \/ tk.v[Len(tk.v)] # BS \/ Len(tk.v) \notin Bare(tk.v, 1))
    /\ tk.k = "COMMENT" => \A j \in 1..Len(tk.v) : tk.v[j] # NL
\* a failed tokenizer stays failed and delivers nothing more
FailedStays == [][m.st # "ok" => UNCHANGED <<m, toks>>]_vars
\* WHITESPACE / COMMENT are only delivered to callers that asked for them
OnlyOnRequest == [][Len(toks') > Len(toks) =>
                      LET tk == toks'[Len(toks')] IN
                      /\ tk.k = "WHITESPACE" => m'.wl \/ (m.held # <<>> /\ calls'[Len(calls')][2])
                      /\ tk.k = "COMMENT" => m'.wc \/ (m.held # <<>> /\ calls'[Len(calls')][3])]_vars

\* ------------------------------------------------------------------ machine = function
\* replay of the recorded calls on the complete input with the pure function
RECURSIVE RunScript(_, _, _, _)
RunScript(mm, s, cs, D) ==
    IF cs = <<>> \/ mm.st # "ok" THEN <<>>
    ELSE IF cs[1][1] = "unget" THEN RunScript(UngetTok(mm), s, Tail(cs), D)
    ELSE LET m1 == GetTok(mm, s, cs[1][2], cs[1][3], D)
         IN  (IF m1.st = "ok" THEN <<m1.ret[1]>> ELSE <<>>) \o RunScript(m1, s, Tail(cs), D)
MachineIsFunction == m.mode = "idle" => toks = RunScript(Start0, inp, calls, d)

=============================================================================
