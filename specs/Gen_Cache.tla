------------------------------ MODULE Gen_Cache ------------------------------
(* Cache plus a history variable: every behaviour is a script of cache calls and clock
   advances (environment choices only).  Printed as JSON at depth MaxLen. *)
EXTENDS Cache, Json
CONSTANT MaxLen
VARIABLE hist
gvars == <<vars, hist>>
H(e) == hist' = Append(hist, e)

GInit == Init /\ hist = <<[op |-> "init", kind |-> kind, max |-> max]>>

GNext ==
    /\ Len(hist) <= MaxLen
    /\ \/ \E d \in Steps : Advance(d) /\ H([op |-> "advance", d |-> d])
       \/ \E k \in Keys, v \in Vals, ttl \in TTLs :
             Put(k, v, now + ttl) /\ H([op |-> "put", k |-> k, v |-> v, ttl |-> ttl])
       \/ \E k \in Keys : Get(k) /\ H([op |-> "get", k |-> k])
       \/ \E k \in Keys : Flush(k) /\ H([op |-> "flush", k |-> k])
       \/ \E k \in Keys : GetHitsForKey(k) /\ H([op |-> "hitsfor", k |-> k])
       \/ FlushAll /\ H([op |-> "flushall"])
       \/ ResetStatistics /\ H([op |-> "reset"])
       \/ \E n \in Sizes : SetMaxSize(n) /\ H([op |-> "setmax", n |-> n])

Emit == (Len(hist) = MaxLen + 1) => PrintT("BEH " \o ToJson(hist))
=============================================================================
