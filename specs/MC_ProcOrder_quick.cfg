SPECIFICATION Spec
CONSTANTS
  RdSets <- MCRdSets
  MaxRecs = 3
INVARIANT PrefixOk
INVARIANT DoneAllowed
CHECK_DEADLOCK FALSE
