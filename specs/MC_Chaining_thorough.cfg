INIT Init
NEXT Next
CONSTANTS
  MaxChain = 16
  MaxLen = 3
INVARIANT Laws
CHECK_DEADLOCK FALSE
