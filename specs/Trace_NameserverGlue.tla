------------------------- MODULE Trace_NameserverGlue -------------------------
(* Trace validation of the real dns.nameserver classes against NameserverGlue: one trace
   per (call, reply) of the MC_NameserverGlue universe with two events, the call made
   through query() and the one made through async_query(), each with the arguments the
   (stubbed) transport function received and what came back to the caller. *)
EXTENDS NameserverGlue, VTrace

VARIABLES t, l
TraceInit == RegInit /\ t \in 1..NTraces /\ l = 1 /\ m = [call |-> Log[t].call, reply |-> Log[t].reply]
e == Ev(t)[l]
c == Log[t].call
NoBackend(a) == [k \in DOMAIN a \ {"backend"} |-> a[k]]
TCall ==
    /\ l <= Len(Ev(t)) /\ e.op = "nscall"
    /\ Check(t, l, "RightTransport", RightTransport(c, e.args))
    /\ Check(t, l, "Destination", Destination(c, e.args))
    /\ Check(t, l, "TimeoutPassed", TimeoutPassed(c, e.args))
    /\ Check(t, l, "FlagsPassed", FlagsPassed(c, e.args))
    /\ Check(t, l, "SourcePassed", SourcePassed(c, e.args))
    /\ Check(t, l, "RaiseOnTruncation", RaiseOnTruncation(c, e.args))
    /\ Check(t, l, "Attributes", Attributes(c, e.args))
    /\ Check(t, l, "NothingElse", NothingElse(c, e.args))
    /\ Check(t, l, "Decision", e.outcome = Decision(c, Log[t].reply))
    /\ (l > 1) => /\ Check(t, l, "SyncAsyncIdentical", NoBackend(e.args) = NoBackend(Ev(t)[1].args))
                  /\ Check(t, l, "SyncAsyncIdentical", e.outcome = Ev(t)[1].outcome)
    /\ l' = l + 1 /\ t' = t /\ UNCHANGED m
TraceNext == TCall
Accepted == Accepting(t, l)
=============================================================================
