----------------------------- MODULE Trace_Lexer -----------------------------
(* Trace validation for X07: one trace = one input string (Log[t].s, character codes) and the
   calls the driver made on the real dns.tokenizer.Tokenizer:
     get    get(want_leading = wl, want_comment = wc) -> token (k, v, e) or an exception,
            then where()[1] (line) and .multiline (depth)
     unget  unget(last token)          skip   skip_whitespace() -> n
   The model state m follows every call (GetTok / UngetTok / SkipWs of Lexer.tla).  The
   dialect d is chosen once per trace among the readings the texts leave open (and that can
   matter for this input): a trace is accepted iff SOME dialect explains all its events.

   Hard: outcome (token <=> no failure), kind, text of IDENTIFIER / QUOTED_STRING / COMMENT,
   has_escape, parenthesis depth, line number (1 + newlines consumed; one character of
   look-ahead may already be counted), a failure is a dns.exception.SyntaxError.
   Free: which subclass; the value of EOF / EOL / WHITESPACE tokens; the dialect.
   DialectFilter / StrictLine narrow the free choices for the drift counters only. *)
EXTENDS Lexer, VTrace

CONSTANTS DialectFilter, StrictLine
VARIABLES m, d, t, l
tvars == <<m, d, t, l>>

s == Log[t].s
e == Ev(t)[l]
TraceInit == /\ RegInit /\ t \in 1..NTraces /\ l = 1 /\ m = Start0
             /\ d \in {Pin(D, Log[t].s) : D \in DialectFilter}
Adv == l' = l + 1 /\ t' = t /\ d' = d
\* the diagnostic names the clause that fails under the reading the code follows (LibDialect) whenever
\* that reading is admitted; the verdict is unaffected (some dialect must explain the whole trace)
Quiet == LibDialect \in DialectFilter
C(id, cond) == IF cond THEN TRUE ELSE IF Quiet /\ d # LibDialect THEN FALSE ELSE Fail(t, l, id)
Texty(k) == k \in {"IDENTIFIER", "QUOTED_STRING", "COMMENT"}
LineOk(m1, line) == line = LineOf(m1, s) \/ (~StrictLine /\ line = LineAhead(m1, s))

TGet ==
    /\ e.op = "get"
    /\ LET m1 == GetTok(m, s, e.wl, e.wc, d) IN
       /\ IF m1.st # "ok"
          THEN /\ C("Refused_" \o m1.st, e.res = "err")
               /\ C("ErrorIsSyntaxError", e.fam)
          ELSE LET tk == m1.ret[1] IN
               /\ C("Accepted_" \o tk.k, e.res = "tok")
               /\ C("Kind_" \o tk.k, e.k = tk.k)
               /\ C("Text_" \o tk.k, Texty(tk.k) => e.v = tk.v)
               /\ C("HasEscape", e.e = tk.e)
               /\ C("Depth", e.depth = m1.depth)
               /\ C("Line", LineOk(m1, e.line))
       /\ m' = m1
    /\ Adv
TUnget ==
    /\ e.op = "unget"
    /\ C("UngetAccepted", e.res = "ok" /\ CanUnget(m))
    /\ m' = UngetTok(m)
    /\ Adv
TSkip ==
    /\ e.op = "skip"
    /\ m.held = <<>> /\ m.st = "ok"
    /\ LET m1 == SkipWs(m, s, d) IN
       /\ C("SkipCount", e.res = "ok" /\ e.n = SkipCount(m, s, d))
       /\ C("Depth", e.depth = m1.depth)
       /\ C("Line", LineOk(m1, e.line))
       /\ m' = m1
    /\ Adv

TraceNext == l <= Len(Ev(t)) /\ m.st = "ok" /\ (TGet \/ TUnget \/ TSkip)
Accepted == Accepting(t, l)
RfcDialects == {D \in Dialects : D.nlq = "keep" /\ D.escnl = "quote"}
CrBlankDialects == {D \in Dialects : D.cr = "blank"}
=============================================================================
