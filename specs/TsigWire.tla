------------------------------ MODULE TsigWire ------------------------------
(* Octet-level reading of a DNS message (RFC 1035 section 4) and of the TSIG RR
   (RFC 8945 section 4.2), written from the RFCs.  Pure operators; indices are 1-based,
   octets are 0..255.  Used by Trace_Tsig to concretise the digest composition of Tsig
   from the octets of a real message. *)
EXTENDS Integers, Sequences

W16(w, p) == w[p] * 256 + w[p + 1]
B16(v) == <<v \div 256, v % 256>>
Lower(b) == IF b >= 65 /\ b <= 90 THEN b + 32 ELSE b

BadName == [ok |-> FALSE, labels |-> <<>>, end |-> 0]
(* a possibly compressed name starting at p; `end` = first octet after it in the stream *)
RECURSIVE NameAt(_, _, _)
NameAt(w, p, hops) ==
    IF p > Len(w) \/ hops > 16 THEN BadName
    ELSE LET c == w[p] IN
         IF c = 0 THEN [ok |-> TRUE, labels |-> <<>>, end |-> p + 1]
         ELSE IF c >= 192 THEN
              IF p + 1 > Len(w) THEN BadName
              ELSE LET tgt == (c - 192) * 256 + w[p + 1] + 1 IN
                   IF tgt >= p THEN BadName
                   ELSE LET r == NameAt(w, tgt, hops + 1) IN
                        IF r.ok THEN [ok |-> TRUE, labels |-> r.labels, end |-> p + 2] ELSE BadName
         ELSE IF c >= 64 THEN BadName
         ELSE IF p + c > Len(w) THEN BadName
         ELSE LET r == NameAt(w, p + 1 + c, hops) IN
              IF r.ok THEN [ok |-> TRUE, labels |-> <<SubSeq(w, p + 1, p + c)>> \o r.labels, end |-> r.end]
              ELSE BadName

(* canonical wire form (RFC 4034 section 6.2): uncompressed, ASCII letters lower-cased *)
RECURSIVE CanonWire(_)
CanonWire(labels) ==
    IF labels = <<>> THEN <<0>>
    ELSE <<Len(labels[1])>> \o [i \in 1..Len(labels[1]) |-> Lower(labels[1][i])] \o CanonWire(Tail(labels))

(* skip n question entries starting at p; 0 on failure *)
RECURSIVE SkipQ(_, _, _)
SkipQ(w, p, n) ==
    IF n = 0 THEN p
    ELSE LET nm == NameAt(w, p, 0) IN
         IF ~nm.ok \/ nm.end + 3 > Len(w) THEN 0 ELSE SkipQ(w, nm.end + 4, n - 1)

(* the resource records from p on: sequence of [start, owner, type, class, ttl, rdstart, rdlen] *)
BadRRs == [ok |-> FALSE, rrs |-> <<>>, end |-> 0]
RECURSIVE RRsAt(_, _, _)
RRsAt(w, p, n) ==
    IF n = 0 THEN [ok |-> TRUE, rrs |-> <<>>, end |-> p]
    ELSE LET nm == NameAt(w, p, 0) IN
         IF ~nm.ok \/ nm.end + 9 > Len(w) THEN BadRRs
         ELSE LET q == nm.end
                  rdlen == W16(w, q + 8)
                  rr == [start |-> p, owner |-> nm.labels, type |-> W16(w, q), class |-> W16(w, q + 2),
                         ttl |-> SubSeq(w, q + 4, q + 7), rdstart |-> q + 10, rdlen |-> rdlen]
              IN IF q + 9 + rdlen > Len(w) THEN BadRRs
                 ELSE LET rest == RRsAt(w, q + 10 + rdlen, n - 1) IN
                      IF rest.ok THEN [ok |-> TRUE, rrs |-> <<rr>> \o rest.rrs, end |-> rest.end] ELSE BadRRs

TSIGTYPE == 250
BadMsg == [ok |-> FALSE, tsig |-> "none"]
(* TSIG RDATA (section 4.2): algorithm name, time signed (48 bits), fudge, MAC size, MAC,
   original id, error, other len, other data - and nothing else *)
TsigRdata(w, rr) ==
    LET an == NameAt(w, rr.rdstart, 0)
        last == rr.rdstart + rr.rdlen - 1
    IN IF ~an.ok \/ an.end + 9 > last THEN [ok |-> FALSE]
       ELSE LET a == an.end
                msz == W16(w, a + 8)
                b == a + 10 + msz          \* original id
            IN IF b + 5 > last THEN [ok |-> FALSE]
               ELSE LET olen == W16(w, b + 4) IN
                    IF b + 5 + olen # last THEN [ok |-> FALSE]
                    ELSE [ok |-> TRUE, alg |-> an.labels, time |-> SubSeq(w, a, a + 5), fudge |-> W16(w, a + 6),
                          mac |-> SubSeq(w, a + 10, a + 9 + msz), origid |-> W16(w, b), error |-> W16(w, b + 2),
                          other |-> SubSeq(w, b + 6, b + 5 + olen)]

(* whole message.  tsig = "none": well formed, no TSIG RR; "last": exactly one TSIG RR and
   it is the last record of the additional section; "misplaced": a TSIG RR elsewhere. *)
ParseMsg(w) ==
    IF Len(w) < 12 THEN BadMsg
    ELSE LET qd == W16(w, 5) an == W16(w, 7) ns == W16(w, 9) ar == W16(w, 11)
             pq == SkipQ(w, 13, qd)
         IN IF pq = 0 THEN BadMsg
            ELSE LET r == RRsAt(w, pq, an + ns + ar) IN
                 IF ~r.ok \/ r.end # Len(w) + 1 THEN BadMsg
                 ELSE LET n == Len(r.rrs)
                          ts == {i \in 1..n : r.rrs[i].type = TSIGTYPE}
                      IN IF ts = {} THEN [ok |-> TRUE, tsig |-> "none"]
                         ELSE IF ts # {n} \/ ar = 0 THEN [ok |-> TRUE, tsig |-> "misplaced"]
                         ELSE LET rr == r.rrs[n]
                                  rd == TsigRdata(w, rr)
                              IN IF ~rd.ok THEN BadMsg
                                 ELSE [ok |-> TRUE, tsig |-> "last", start |-> rr.start, owner |-> rr.owner,
                                       class |-> rr.class, ttl |-> rr.ttl, ar |-> ar,
                                       head |-> SubSeq(w, 3, 10), body |-> SubSeq(w, 13, rr.start - 1),
                                       alg |-> rd.alg, time |-> rd.time, fudge |-> rd.fudge, mac |-> rd.mac,
                                       origid |-> rd.origid, error |-> rd.error, other |-> rd.other]

(* encoding of one tagged digest component (see Tsig!Digest) *)
Enc(c) == CASE c[1] = "u16" -> B16(c[2])
            [] c[1] = "name" -> CanonWire(c[2])
            [] OTHER -> c[2]            \* "mac", "whole", "head", "body", "ttl", "time", "bytes": octets as they are
RECURSIVE Flatten(_)
Flatten(cs) == IF cs = <<>> THEN <<>> ELSE Enc(cs[1]) \o Flatten(Tail(cs))

FlipBit(w, b) ==   \* bit b (0-based, most significant bit of octet 0 first)
    LET i == (b \div 8) + 1
        k == 7 - (b % 8)
        p == 2 ^ k
        v == w[i]
    IN [w EXCEPT ![i] = IF (v \div p) % 2 = 1 THEN v - p ELSE v + p]
=============================================================================
