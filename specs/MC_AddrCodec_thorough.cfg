SPECIFICATION Spec
CONSTANTS
  Schemes = {1, 2, 3, 4, 5}
  QuadOctets = {0, 1, 10, 100, 255}
  V4Octets = {0, 1, 9, 10, 99, 100, 255}
  Modes = {"a6", "emb", "a4", "e164"}
  E164Alphabet = {48, 49, 57, 43, 32, 45, 46, 40, 97}
  WideFaults = TRUE
  KeySel <- AllKeys
  E164Len = 4
INVARIANT RoundTrip6
INVARIANT CanonIsCanonical
INVARIANT SpellingsParse
INVARIANT CanonUnique
INVARIANT FaultsWellFormed
INVARIANT FaultsCanonUnique
INVARIANT ScopeLaw
INVARIANT Classify6
INVARIANT Reverse6
INVARIANT Reverse6Faults
INVARIANT RoundTrip4
INVARIANT Faults4
INVARIANT Reverse4
INVARIANT Reverse4Faults
INVARIANT Mapped
INVARIANT E164RoundTrip
INVARIANT E164Elsewhere
CHECK_DEADLOCK FALSE
