SPECIFICATION Spec
CONSTANTS
  MaxLabel = 63
  MaxWire = 255
  KLabel = 1
  KTwo = 1
  KText = 1
  KWire = 4
  VAlpha = {65}
  BigK = {1}
  BigFill = {255}
  Modes = {"decode", "write", "plain"}
  MaxWrites = 2
  WriteOctets = {97, 65, 98}
INVARIANT HopsOk
INVARIANT DecodeAgrees
INVARIANT OkIsValid
INVARIANT EncodeDecode
INVARIANT NoStuck
INVARIANT WriteRoundTrip
INVARIANT WriteTableSound
INVARIANT WriteShortest
INVARIANT EncodersBounded
PROPERTY PointerBackwards
PROPERTY DecTerminates
CHECK_DEADLOCK FALSE
