---------------------------- MODULE MC_ZoneFile ----------------------------
(* Bounded instance of ZoneFile: the round-trip theorems
     Read(Write(z, style)) = z     for every zone of the universe and every style vector
     Read(sp) = z                  for every sp in Spell(z)
   checked over all emission orders the writer / re-speller may choose. *)
EXTENDS ZfUniverse

CONSTANTS MCZones, MCStyles, MCModes, MCOriginGiven

MCInit ==
    \E z \in MCZones, mode \in MCModes, og \in MCOriginGiven :
        /\ rs = RInit(og)
        /\ IF mode = "write"
           THEN \E st \in MCStyles, rel \in BOOLEAN :
                  /\ (~og => st.wantOrigin)        \* without $ORIGIN the reader must be told the origin
                  /\ em = [mode |-> "write", src |-> z, rel |-> rel, st |-> st, pend |-> Recs(z),
                           hdr |-> Header(st), cur |-> NoCur, extra |-> 0, last |-> <<>>]
           ELSE em = [mode |-> "spell", src |-> z, rel |-> TRUE, st |-> <<>>, pend |-> Recs(z),
                      hdr |-> <<>>, cur |-> NoCur, extra |-> 0, last |-> <<>>]
MCNext == WEmit \/ SEmit
MCSpec == MCInit /\ [][MCNext]_vars

SinglesQuick == {ZoneOf({r}) : r \in {r \in AllRecs : r[3] = 300 /\ r[1] = (IF r[2] \in {"SOA", "NS", "MX"} THEN <<>> ELSE <<"b", "a">>)}}
ZonesQuick == Curated \cup SinglesQuick
ZonesSpellQuick == {Z1, Z2, Z3, ZG, ZG2} \cup GenZones
ZonesSpellThorough == Curated \cup SinglesQuick \cup GenZones
ZonesVac == {Z1, ZG}
ZonesThorough == Curated \cup {ZoneOf({r}) : r \in {r \in AllRecs : r[3] = 300}} \cup WellFormedPairs

(* vacuity witnesses (expected to be violated) *)
Vac_Done == ~EmitDone
Vac_Generate == ~(em.last # <<>> /\ em.last[1] = "gen")
Vac_Inherit == ~(em.mode = "spell" /\ em.last # <<>> /\ em.last[2] /\ em.last[3])
=============================================================================
