SPECIFICATION Spec
CONSTANTS
  Configs <- MCConfigsA
  StartTimes = {1600}
  MaxRes = 1
  MaxQ = 3
  MaxBack = 1
  TicksPerSec = 16
  MaxChain = 16
  BackoffTable <- MCBackoff
  Requests <- MCRequests1
  IdleAdvances = {0}
  Outcomes <- MCOutcomesA
  Advances <- MCAdvancesA
INVARIANT TypeOK
INVARIANT WithinLifetime
INVARIANT BrokenNeverAskedAgain
INVARIANT ServfailRule
INVARIANT Classification
INVARIANT CacheKeys
PROPERTY TruncatedRetry
PROPERTY RearmCostsTime
CHECK_DEADLOCK FALSE
