SPECIFICATION Spec
CONSTANTS
  Configs <- MCConfigsQuick
  StartTimes = {1600}
  MaxRes = 2
  MaxQ = 5
  MaxBack = 1
  TicksPerSec = 16
  MaxChain = 16
  BackoffTable <- MCBackoff
  Requests <- MCRequests
  IdleAdvances = {0, 32, 96}
  Outcomes <- MCOutcomes
  Advances <- MCAdvances
INVARIANT TypeOK
INVARIANT WithinLifetime
INVARIANT BrokenNeverAskedAgain
INVARIANT ServfailRule
INVARIANT Classification
INVARIANT CacheKeys
PROPERTY TruncatedRetry
PROPERTY RearmCostsTime
CHECK_DEADLOCK FALSE
