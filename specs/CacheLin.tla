------------------------------ MODULE CacheLin ------------------------------
(* Concurrent histories of one resolver cache (property C17, linearizability).

   Threads call the cache; a call takes effect atomically at some instant between its
   invocation and its return (its linearization point).  `pend[th]` is the call thread th
   has in flight: after Invoke it waits, Lin(th) applies the sequential effect of the call
   to the Cache state (module Cache) and fixes the result, Return hands that result back.
   A recorded history is linearizable iff it is a behaviour of this specification. *)
EXTENDS Cache

CONSTANTS Threads
VARIABLE pend    \* th -> <<"idle">> | <<"called", call>> | <<"done", call, result>>
lvars == <<vars, pend>>

Idle(th) == pend[th][1] = "idle"

Invoke(th, call) ==
    /\ Idle(th)
    /\ pend' = [pend EXCEPT ![th] = <<"called", call>>]
    /\ UNCHANGED vars

(* the sequential effect of a call, as defined by Cache *)
Effect(c) ==
    \/ c.op = "put" /\ Put(c.k, c.v, c.exp)
    \/ c.op = "get" /\ Get(c.k)
    \/ c.op = "flush" /\ Flush(c.k)
    \/ c.op = "flushall" /\ FlushAll
    \/ c.op = "setmax" /\ SetMaxSize(c.n)
    \/ c.op = "reset" /\ ResetStatistics
    \/ c.op = "hitsfor" /\ GetHitsForKey(c.k)
    \/ c.op = "hits" /\ res' = <<"int", hits>> /\ UNCHANGED <<kind, now, data, order, max, hits, misses, gets>>
    \/ c.op = "misses" /\ res' = <<"int", misses>> /\ UNCHANGED <<kind, now, data, order, max, hits, misses, gets>>

Lin(th) ==
    /\ pend[th][1] = "called"
    /\ Effect(pend[th][2])
    /\ pend' = [pend EXCEPT ![th] = <<"done", pend[th][2], res'>>]

Return(th, result) ==
    /\ pend[th][1] = "done"
    /\ pend[th][3] = result
    /\ pend' = [pend EXCEPT ![th] = <<"idle">>]
    /\ UNCHANGED vars

(* the clock is advanced by the environment between steps *)
Tick(d) == Advance(d) /\ UNCHANGED pend

LInit == Init /\ pend = [th \in Threads |-> <<"idle">>]

Calls == [op : {"get", "flush", "hitsfor"}, k : Keys]
         \cup [op : {"put"}, k : Keys, v : Vals, exp : {now + ttl : ttl \in TTLs}]
         \cup [op : {"flushall", "reset", "hits", "misses"}]
         \cup [op : {"setmax"}, n : Sizes]

LNext ==
    \/ \E th \in Threads : \E c \in Calls : Invoke(th, c)
    \/ \E th \in Threads : Lin(th)
    \/ \E th \in Threads : pend[th][1] = "done" /\ Return(th, pend[th][3])
    \/ \E d \in Steps : Tick(d)

LSpec == LInit /\ [][LNext]_lvars

(* the sequential invariants hold in every reachable state of the concurrent object *)
LinLruBound == LruBound
LinOrderIsData == OrderIsData
LinCounters == CountersAccount
=============================================================================
