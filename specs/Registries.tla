------------------------------ MODULE Registries ------------------------------
(* X09 - registries and header bit-field codecs: the specification.
   RegistriesBits  : bit fields, RFC 1035 / RFC 6891 layouts, opcode / rcode / flag-text codecs
   RegistriesText  : text forms of a registry (mnemonic, generic form), the laws
   RegistriesTables: the published / IANA mnemonic tables (strict configuration only)
   here            : two state machines -
     the header of a dns.message.Message (flags word, EDNS flags limbs, presence of OPT) under
     set_opcode / set_rcode / flag raising and clearing / want_dnssec / use_edns, and
     the dynamic type registry under dns.rdatatype.register_type.
   Universes (Ops, Rcs, ...) are parameters; the definitions are unbounded. *)
EXTENDS RegistriesTables

CONSTANTS Ops, Rcs, Names, Vers, ELos,   \* header machine: opcodes, rcodes, flag names, EDNS versions, EDNS low limbs offered
          RVals, RTexts                   \* registration machine: values and texts offered
VARIABLES flags, ehi, elo, opt,           \* header word; EDNS TTL limbs; is there an OPT record
          regs                            \* sequence of registrations <<value, text, singleton>>
hvars == <<flags, ehi, elo, opt>>
vars == <<flags, ehi, elo, opt, regs>>

TypeOK == flags \in 0..65535 /\ ehi \in 0..65535 /\ elo \in 0..65535 /\ opt \in BOOLEAN /\ (~opt => ehi = 0 /\ elo = 0)

(* ------------------------------------------------------------------ header machine *)
Opcode == OpcodeFromFlags(flags)
Rcode == RcodeFromFlags(flags, ehi)
Version == IF opt THEN Get(EdnsHi, "VERSION", ehi) ELSE -1     \* Message.edns: -1 = no EDNS
Tokens == FlagTokens(Header, FlagNames, FlagsMask, flags)
ETokens == FlagTokens(EdnsLo, EFlagNames, EFlagsMask, elo)

(* "set_opcode: opcode, the opcode to set" - the OPCODE field and nothing else *)
SetOpcode(op) == /\ flags' = Put(Header, "OPCODE", flags, op)
                 /\ UNCHANGED <<ehi, elo, opt, regs>>
(* "set_rcode: rcode, the rcode to set".  The upper eight bits live in the OPT record (RFC 6891
   6.1.3); an rcode above 15 therefore needs one ("If EDNS is not in use, then the rcode is
   encoded solely in the DNS header", doc/message-rcode.rst) *)
SetRcode(r) == /\ flags' = Put(Header, "RCODE", flags, r % 16)
               /\ opt' = (opt \/ r > 15)
               /\ ehi' = IF opt' THEN Put(EdnsHi, "EXTRCODE", ehi, r \div 16) ELSE ehi
               /\ UNCHANGED <<elo, regs>>
(* m.flags |= dns.flags.X  /  m.flags &= ~dns.flags.X *)
Raise(n) == flags' = Put(Header, n, flags, 1) /\ UNCHANGED <<ehi, elo, opt, regs>>
Clear(n) == flags' = Put(Header, n, flags, 0) /\ UNCHANGED <<ehi, elo, opt, regs>>
(* want_dnssec: "If True, DNSSEC data is desired in the response, EDNS is enabled if required, and
   the DO bit is set.  If False, the DO bit is cleared if EDNS is enabled." *)
WantDnssec(b) == /\ IF b THEN opt' = TRUE /\ elo' = Put(EdnsLo, "DO", elo, 1)
                      ELSE opt' = opt /\ elo' = (IF opt THEN Put(EdnsLo, "DO", elo, 0) ELSE elo)
                 /\ UNCHANGED <<flags, ehi, regs>>
(* use_edns(edns, ednsflags): "The EDNS level to use.  Specifying None, False, or -1 means do not
   use EDNS"; "ednsflags: The EDNS flag values" (the version inside them is made to agree) *)
UseEdns(ver, xr, lo) == /\ opt' = TRUE /\ ehi' = Put(EdnsHi, "VERSION", Put(EdnsHi, "EXTRCODE", 0, xr), ver) /\ elo' = lo
                        /\ UNCHANGED <<flags, regs>>
NoEdns == opt' = FALSE /\ ehi' = 0 /\ elo' = 0 /\ UNCHANGED <<flags, regs>>

HNext == \/ \E op \in Ops : SetOpcode(op)
         \/ \E r \in Rcs : SetRcode(r)
         \/ \E n \in Names : Raise(n) \/ Clear(n)
         \/ \E b \in BOOLEAN : WantDnssec(b)
         \/ \E ver \in Vers, lo \in ELos : UseEdns(ver, 0, lo)
         \/ NoEdns

(* what the calls must NOT touch (RFC 1035 4.1.1: the fields are disjoint) *)
FlagBits == And(flags, FlagsMask, 16)
OpcodeFrame == [][\A op \in Ops : SetOpcode(op) => Opcode' = op /\ Rcode' = Rcode /\ FlagBits' = FlagBits /\ Tokens' = Tokens]_vars
RcodeFrame == [][\A r \in Rcs : SetRcode(r) => Rcode' = r /\ Opcode' = Opcode /\ FlagBits' = FlagBits
                                  /\ (opt => Version' = Version) /\ ETokens' = ETokens]_vars
FlagFrame == [][\A n \in Names :
                  /\ Raise(n) => Opcode' = Opcode /\ Rcode' = Rcode /\ ToSet(Tokens') = ToSet(Tokens) \cup {n}
                  /\ Clear(n) => Opcode' = Opcode /\ Rcode' = Rcode /\ ToSet(Tokens') = ToSet(Tokens) \ {n}]_vars
DnssecFrame == [][\A b \in BOOLEAN : WantDnssec(b) => flags' = flags /\ Rcode' = Rcode /\ (opt => Version' = Version)
                                       /\ (b => "DO" \in ToSet(ETokens')) /\ (~b => "DO" \notin ToSet(ETokens'))]_vars

(* ------------------------------------------------------------------ registration machine
   dns.rdatatype.register_type(rdtype, rdtype_text, is_singleton=False): "Dynamically register an
   rdatatype.  rdtype: The rdatatype to register.  rdtype_text: The textual form of the rdatatype.
   is_singleton: If True, RRsets of this type can have only one member."
   Read as: afterwards rdtype_text is a text form of rdtype - to_text gives it, from_text reads it
   (mnemonics are read without regard to case) - and is_singleton(rdtype) holds if asked for.
   Collisions with the built-in table or between registrations are not described: the built-in
   table wins and the latest registration wins here, and only the strict configuration says so. *)
Register(v, txt, single) == regs' = Append(regs, <<v, txt, single>>) /\ UNCHANGED hvars
RNext == \E v \in RVals, txt \in RTexts, s \in BOOLEAN : Register(v, txt, s)

(* the registry after the registrations rs *)
LatestIn(rs, P(_)) == CHOOSE k \in 1..Len(rs) : P(rs[k]) /\ \A j \in (k + 1)..Len(rs) : ~P(rs[j])
RToTextIn(rs, v) == IF HasValue(TypeTable, v) THEN CanonName(TypeTable, v)
                    ELSE IF \E k \in 1..Len(rs) : rs[k][1] = v THEN rs[LatestIn(rs, LAMBDA r : r[1] = v)][2]
                    ELSE Generic("type", v)
RFromTextIn(rs, s) == LET b == FromText("type", TypeTable, s)
                      IN  IF b[1] = "ok" THEN b
                          ELSE IF \E k \in 1..Len(rs) : Upper(rs[k][2]) = Upper(s)
                               THEN <<"ok", rs[LatestIn(rs, LAMBDA r : Upper(r[2]) = Upper(s))][1]>>
                          ELSE b
RSingletonIn(rs, v) == v \in SingletonTypes \/ \E k \in 1..Len(rs) : rs[k][1] = v /\ rs[k][3]
RToText(v) == RToTextIn(regs, v)
RFromText(s) == RFromTextIn(regs, s)
RSingleton(v) == RSingletonIn(regs, v)

(* a registration nothing interferes with: the value has no built-in mnemonic, the text is a word
   that is neither a built-in name nor of generic shape, and no other registration uses the value
   with another text or the text with another value *)
CleanIn(rs, k) == LET v == rs[k][1]
                      txt == rs[k][2]
                  IN  /\ ~HasValue(TypeTable, v)
                      /\ Lex("type", txt)[1] = "word" /\ ~HasName(TypeTable, Upper(txt))
                      /\ \A j \in 1..Len(rs) : (rs[j][1] = v) = (Upper(rs[j][2]) = Upper(txt))
Clean(k) == CleanIn(regs, k)
RegisteredRoundTrip == \A k \in 1..Len(regs) : Clean(k) =>
                          /\ Upper(RToText(regs[k][1])) = Upper(regs[k][2])
                          /\ RFromText(RToText(regs[k][1])) = <<"ok", regs[k][1]>>
                          /\ RFromText(Lower(regs[k][2])) = <<"ok", regs[k][1]>>
BuiltinsKept == \A k \in 1..Len(TypeTable) : /\ RFromText(TypeTable[k][2]) = <<"ok", TypeTable[k][1]>>
                                             /\ RToText(TypeTable[k][1]) = ToText("type", TypeTable, TypeTable[k][1])

Init == flags \in 0..65535 /\ ehi = 0 /\ elo = 0 /\ opt = FALSE /\ regs = <<>>
Next == HNext \/ RNext
Spec == Init /\ [][Next]_vars
=============================================================================
