----------------------------- MODULE MsgHeader -----------------------------
(* Header and EDNS state of a dns.message.Message, written from RFC 1035 4.1.1, RFC 6891
   6.1.2-6.1.4 and the docstrings of dns.message (quoted in notes/X06.md):

   RFC 1035 4.1.1: ID "is copied [into] the corresponding reply"; QR "specifies whether this message
     is a query (0), or a response (1)"; OPCODE "A four bit field ... set by the originator of a
     query and copied into the response"; RD "may be set in a query and is copied into the response";
     RA "is set or cleared in a response"; RCODE "4 bit field".
   RFC 6891 6.1.3: the OPT TTL is EXTENDED-RCODE (8 bits) | VERSION (8 bits) | DO | Z (15 bits);
     EXTENDED-RCODE "Forms the upper 8 bits of extended 12-bit RCODE (together with the 4 bits
     defined in [RFC1035])".  6.1.1 / 7: "If an OPT record is present in a received request,
     compliant responders MUST include an OPT record in their respective responses."  "Lack of
     presence of an OPT record in a request MUST be taken as an indication that the requestor does
     not implement any part of this specification and that the responder MUST NOT include an OPT
     record in its response."
   The message m is a record; EDNS fields are 0 / <<>> while there is no OPT record ("edns: The
   default is -1, no EDNS"; "payload: The default is 0"; "options: The default is the empty list").
   Free choices (not documented) are parameters `fr` of the actions: the trace specification
   takes them from the log, the bounded model from a small set. *)
EXTENDS Integers, Sequences, FiniteSets, TLC

CONSTANTS Ids, FlagVals, RcodeVals, Opcodes, Levels, ExtVals, ZVals, Payloads, OptionSeqs, Pads,
          Frees,      \* free-choice records [payload, reqpay, pad, ver, ext, z, options]
          MaxCalls

VARIABLES m, ncalls, last, res
vars == <<m, ncalls, last, res>>

QR == 32768  AA == 1024  TC == 512  RD == 256  RA == 128  ZBIT == 64  AD == 32  CD == 16
DO == 32768
Bit(f, b) == (f \div b) % 2 = 1
SetBit(f, b) == IF Bit(f, b) THEN f ELSE f + b
ClearBit(f, b) == IF Bit(f, b) THEN f - b ELSE f
Low4(f) == f % 16
OpcodeOf(f) == (f \div 2048) % 16
WithLow4(f, v) == f - Low4(f) + v
WithOpcode(f, o) == f - 2048 * OpcodeOf(f) + 2048 * o

RcodeOf(x) == Low4(x.flags) + 16 * x.ext          \* RFC 6891 6.1.3
EdnsLevel(x) == IF x.opt THEN x.ver ELSE -1
ClassOf(o) == IF o = 0 THEN "QueryMessage" ELSE IF o = 5 THEN "UpdateMessage" ELSE "Message"
NoOpt(x) == [x EXCEPT !.opt = FALSE, !.ext = 0, !.ver = 0, !.z = 0, !.payload = 0, !.options = <<>>]
\* EDNS switched on as a side effect ("EDNS is enabled if required"): level 0, nothing else asked for
Implicit(x, e, z, fr) == [x EXCEPT !.opt = TRUE, !.ext = e, !.ver = 0, !.z = z, !.payload = fr.payload,
                                   !.options = <<>>, !.reqpay = fr.reqpay, !.pad = fr.pad]

Step(call, x, r) == m' = x /\ res' = r /\ last' = call /\ ncalls' = ncalls + 1
Refused(call) == Step(call, m, "refused")

(* make_query: "The query id is chosen at random [or id], and the DNS flags are set to [flags,
   default] dns.flags.RD"; "use_edns: The EDNS level; None enables EDNS only if other EDNS
   parameters are set"; "want_dnssec: If True, DNSSEC data is desired" (see WantDnssec).
   a = [id, flags, ue (-2 = None, -1 = off, else the level), hasef, ext, z, haspl, payload, hasrp, reqpay, hasops,
        options, pad, dnssec]; pad alone with use_edns=None: either reading is admitted (on). *)
QueryLevel(a, on) == IF a.ue = -2 THEN (IF a.hasef \/ a.haspl \/ a.hasrp \/ a.hasops \/ on THEN 0 ELSE -1)
                     ELSE a.ue
AfterQuery(a, on, fr) ==
    LET lvl == QueryLevel(a, on)
        pl == IF a.haspl THEN a.payload ELSE fr.payload
        base == [cls |-> "QueryMessage", id |-> a.id, flags |-> a.flags, opt |-> FALSE, ext |-> 0, ver |-> 0, z |-> 0,
                 payload |-> 0, options |-> <<>>, reqpay |-> fr.reqpay, pad |-> fr.pad, tsig |-> FALSE]
        q == IF lvl < 0 THEN base
             ELSE [base EXCEPT !.opt = TRUE, !.ext = IF a.hasef THEN a.ext ELSE 0, !.ver = lvl,
                               !.z = IF a.hasef THEN a.z ELSE 0, !.payload = pl,
                               !.options = IF a.hasops THEN a.options ELSE <<>>,
                               !.reqpay = IF a.hasrp THEN a.reqpay ELSE pl, !.pad = a.pad]
    IN IF ~a.dnssec THEN q
       ELSE IF q.opt THEN [q EXCEPT !.z = SetBit(q.z, DO)] ELSE Implicit(q, 0, DO, fr)

Init == /\ \E a \in [id : Ids, flags : FlagVals, ue : {-2, -1} \cup Levels, hasef : BOOLEAN, ext : ExtVals, z : ZVals,
                     haspl : BOOLEAN, payload : Payloads, hasrp : BOOLEAN, reqpay : Payloads, hasops : BOOLEAN,
                     options : OptionSeqs, pad : Pads, dnssec : BOOLEAN], on \in BOOLEAN, fr \in Frees :
              /\ (~a.hasef => a.ext = 0 /\ a.z = 0) /\ (~a.haspl => a.payload = 0) /\ (~a.hasrp => a.reqpay = 0)
              /\ (~a.hasops => a.options = <<>>) /\ (on => a.pad > 0)
              /\ m = AfterQuery(a, on, fr)
        /\ ncalls = 0 /\ last = <<"make_query">> /\ res = "ok"

(* use_edns: "edns: The EDNS level to use. Specifying None, False, or -1 means 'do not use EDNS'
   (other parameters are ignored). Specifying True is equivalent to specifying 0 (use EDNS0)."
   "ednsflags: The EDNS flag values." "payload: The EDNS sender's payload field" "request_payload:
   ... Defaults to the value of payload." "options: The EDNS options." "pad: ..." *)
UseEdnsOff(fr) == Step(<<"use_edns", -1>>, [NoOpt(m) EXCEPT !.reqpay = fr.reqpay, !.pad = fr.pad], "ok")
UseEdnsOn(lvl, e, z, pl, hasrp, rp, ops, pd) ==
    Step(<<"use_edns", lvl>>, [m EXCEPT !.opt = TRUE, !.ext = e, !.ver = lvl, !.z = z, !.payload = pl, !.options = ops,
                                        !.reqpay = IF hasrp THEN rp ELSE pl, !.pad = pd], "ok")

(* want_dnssec: "If True, DNSSEC data is desired in the response, EDNS is enabled if required, and
   the DO bit is set. If False, the DO bit is cleared if EDNS is enabled." *)
WantDnssec(b, fr) ==
    Step(<<"want_dnssec", b>>,
         IF b THEN (IF m.opt THEN [m EXCEPT !.z = SetBit(m.z, DO)] ELSE Implicit(m, 0, DO, fr))
         ELSE (IF m.opt THEN [m EXCEPT !.z = ClearBit(m.z, DO)] ELSE m), "ok")

(* set_rcode: "Set the rcode."  dns.rcode.to_flags: "raises ValueError: If the rcode is < 0 or > 4095".
   Message Rcodes: "If EDNS is not in use, then the rcode is encoded solely in the DNS header.  If
   EDNS is in use, then the rcode is encoded using bits from both the header and the EDNS OPT RR." *)
SetRcode(v, fr) ==
    IF v < 0 \/ v > 4095 THEN Refused(<<"set_rcode", v>>)
    ELSE LET f == WithLow4(m.flags, v % 16) IN
         Step(<<"set_rcode", v>>,
              IF m.opt THEN [m EXCEPT !.flags = f, !.ext = v \div 16]
              ELSE IF v > 15 THEN [Implicit(m, v \div 16, 0, fr) EXCEPT !.flags = f]
              ELSE [m EXCEPT !.flags = f], "ok")
SetOpcode(o) == Step(<<"set_opcode", o>>, [m EXCEPT !.flags = WithOpcode(m.flags, o)], "ok")
SetFlags(f) == Step(<<"flags", f>>, [m EXCEPT !.flags = f], "ok")
\* m.ednsflags = v ("An int, the EDNS flags"); all-zero on a message without OPT: either reading
SetEdnsFlags(e, vr, z, fr) ==
    \/ m.opt /\ Step(<<"ednsflags", e, vr, z>>, [m EXCEPT !.ext = e, !.ver = vr, !.z = z], "ok")
    \/ ~m.opt /\ (e # 0 \/ vr # 0 \/ z # 0)
         /\ Step(<<"ednsflags", e, vr, z>>, [Implicit(m, e, z, fr) EXCEPT !.ver = vr], "ok")
    \/ ~m.opt /\ e = 0 /\ vr = 0 /\ z = 0
         /\ \/ Step(<<"ednsflags", e, vr, z>>, m, "ok")
            \/ Step(<<"ednsflags", e, vr, z>>, Implicit(m, 0, 0, fr), "ok")

(* to_wire then from_wire: the header and the OPT record are what the octets say (RFC 1035 4.1.1,
   RFC 6891 6.1.2); use_edns pad: "When nonzero, an EDNS PADDING option is always added";
   the class follows the opcode (QueryMessage "ordinary DNS query messages", UpdateMessage "DNS
   Dynamic Update messages", Message "any DNS opcodes that do not have a more specific class"). *)
Wire(fr) == Step(<<"wire">>,
                 [m EXCEPT !.cls = ClassOf(OpcodeOf(m.flags)),
                           !.options = IF m.opt /\ m.pad > 0 THEN Append(m.options, "PAD") ELSE m.options,
                           !.reqpay = fr.reqpay, !.pad = fr.pad], "ok")

(* make_response: "Make a response skeleton for the specified query.  The returned message has all
   required response infrastructure but no content."  "recursion_available: If True, set the RA
   bit."  "our_payload: The EDNS payload size to advertise."  "pad: If 0, no padding; if not None
   pad to a multiple of this value; if None, follow RFC 8467 (pad to 468 if request was padded)."
   request_payload: "The associated request's EDNS payload size."  TSIG: a signed query (with its
   key) gets a response set up for signing with the same key. *)
RespFlagsOK(q, f, ra) == /\ Bit(f, QR) /\ OpcodeOf(f) = OpcodeOf(q.flags)
                         /\ Bit(f, RD) = Bit(q.flags, RD) /\ Bit(f, RA) = ra
Skeleton(q, ra) == QR + 2048 * OpcodeOf(q.flags) + (IF Bit(q.flags, RD) THEN RD ELSE 0) + (IF ra THEN RA ELSE 0)
HasPad(ops) == \E i \in 1..Len(ops) : ops[i] = "PAD"
Response(q, f, ra, ourpay, haspad, padarg, fr) ==
    LET base == [cls |-> ClassOf(OpcodeOf(q.flags)), id |-> q.id, flags |-> f, opt |-> q.opt, ext |-> 0, ver |-> 0, z |-> 0,
                 payload |-> 0, options |-> <<>>, reqpay |-> fr.reqpay, pad |-> fr.pad, tsig |-> q.tsig]
    IN IF ~q.opt THEN base
       ELSE [base EXCEPT !.ext = fr.ext, !.ver = fr.ver, !.z = fr.z, !.payload = ourpay, !.options = fr.options,
                         !.reqpay = q.payload,
                         !.pad = IF haspad THEN padarg ELSE IF HasPad(q.options) THEN 468 ELSE 0]
MakeResponse(f, ra, ourpay, haspad, padarg, fr) ==
    LET call == <<"make_response", ra, ourpay, haspad, padarg>> IN
    IF Bit(m.flags, QR) THEN Refused(call) \/ (RespFlagsOK(m, f, ra) /\ Step(call, Response(m, f, ra, ourpay, haspad, padarg, fr), "ok"))
    ELSE RespFlagsOK(m, f, ra) /\ Step(call, Response(m, f, ra, ourpay, haspad, padarg, fr), "ok")

\* use_tsig(key): the message will be signed; reading it back with the key keeps that
UseTsig == Step(<<"use_tsig">>, [m EXCEPT !.tsig = TRUE], "ok")

(* is_response: "Is other a response to this message?" - for a query q (QR clear) and r made by
   make_response(q): yes; no longer when r's id, QR bit or opcode is changed (RFC 1035 4.1.1). *)
IsResponseExpect(q) == <<TRUE, FALSE, FALSE, FALSE, FALSE>>   \* r, r.id+1, r without QR, r other opcode, q itself
Probe == ~Bit(m.flags, QR) /\ Step(<<"is_response">>, m, "ok")

Next == /\ ncalls < MaxCalls
        /\ \/ \E fr \in Frees : UseEdnsOff(fr) \/ Wire(fr) \/ (\E b \in BOOLEAN : WantDnssec(b, fr)) \/ (\E v \in RcodeVals : SetRcode(v, fr))
                                \/ (\E e \in ExtVals, vr \in Levels, z \in ZVals : SetEdnsFlags(e, vr, z, fr))
                                \/ \E ra \in BOOLEAN, op \in Payloads, hp \in BOOLEAN, pa \in Pads :
                                      (~hp => pa = 0) /\ MakeResponse(Skeleton(m, ra), ra, op, hp, pa, fr)
           \/ \E lvl \in Levels, e \in ExtVals, z \in ZVals, pl \in Payloads, hr \in BOOLEAN, rp \in Payloads, ops \in OptionSeqs, pd \in Pads :
                 (~hr => rp = pl) /\ UseEdnsOn(lvl, e, z, pl, hr, rp, ops, pd)
           \/ \E o \in Opcodes : SetOpcode(o)
           \/ \E f \in FlagVals : SetFlags(f)
           \/ UseTsig \/ Probe
Spec == Init /\ [][Next]_vars

(* ---------------- what TLC checks ---------------- *)
TypeOK == /\ m.flags \in 0..65535 /\ m.ext \in 0..255 /\ m.ver \in 0..255 /\ m.z \in 0..65535 /\ m.opt \in BOOLEAN
          /\ m.cls \in {"QueryMessage", "UpdateMessage", "Message"} /\ res \in {"ok", "refused"}
NoOptMeansDefaults == ~m.opt => m.ext = 0 /\ m.ver = 0 /\ m.z = 0 /\ m.payload = 0 /\ m.options = <<>> /\ EdnsLevel(m) = -1
\* rcode() is what was set, for every 12-bit value; a value that needs the OPT record forces EDNS on
RcodeReadBack == last[1] = "set_rcode" /\ res = "ok" => RcodeOf(m) = last[2] /\ (last[2] > 15 => m.opt)
RcodeNeedsOpt == ~m.opt => RcodeOf(m) < 16
EdnsOffIsOff == last = <<"use_edns", -1>> => ~m.opt /\ RcodeOf(m) = Low4(m.flags)
LevelReadBack == last[1] = "use_edns" /\ last[2] >= 0 => EdnsLevel(m) = last[2]
OpcodeReadBack == last[1] = "set_opcode" => OpcodeOf(m.flags) = last[2]
ResponseLaw == last[1] = "make_response" /\ res = "ok" =>
                  Bit(m.flags, QR) /\ Bit(m.flags, RA) = last[2] /\ (m.opt => m.payload = last[3]) /\ m.cls = ClassOf(OpcodeOf(m.flags))
\* a setter touches only its own field
FrameOf(a, b, c) ==   \* a = old message, b = new message, c = the call
    /\ (c[1] \in {"set_rcode", "want_dnssec", "use_edns", "ednsflags", "wire", "use_tsig", "is_response"}
          => (OpcodeOf(b.flags) = OpcodeOf(a.flags) /\ (b.flags \div 16) = (a.flags \div 16) /\ b.id = a.id))
    /\ (c[1] = "set_opcode" => (WithOpcode(b.flags, 0) = WithOpcode(a.flags, 0) /\ [b EXCEPT !.flags = 0] = [a EXCEPT !.flags = 0]))
    /\ (c[1] = "want_dnssec" =>
           (/\ ClearBit(b.z, DO) = ClearBit(a.z, DO) /\ b.ext = a.ext /\ b.ver = a.ver /\ b.flags = a.flags
            /\ (a.opt => b = [a EXCEPT !.z = b.z])
            /\ (c[2] => (b.opt /\ Bit(b.z, DO)))
            /\ (~c[2] => (b.opt = a.opt /\ ~Bit(b.z, DO)))))
    /\ ((c[1] = "set_rcode" /\ a.opt) => b = [a EXCEPT !.flags = b.flags, !.ext = b.ext])
    /\ (c[1] = "wire" => [b EXCEPT !.cls = "", !.options = <<>>, !.reqpay = 0, !.pad = 0]
                           = [a EXCEPT !.cls = "", !.options = <<>>, !.reqpay = 0, !.pad = 0])
Frame == [][/\ FrameOf(m, m', last')
            /\ (res' = "refused" => m' = m)
            /\ ((last'[1] = "make_response" /\ res' = "ok") =>
                  (/\ m'.id = m.id /\ OpcodeOf(m'.flags) = OpcodeOf(m.flags) /\ Bit(m'.flags, RD) = Bit(m.flags, RD)
                   /\ m'.opt = m.opt /\ m'.tsig = m.tsig /\ (m.opt => m'.reqpay = m.payload)))]_vars
=============================================================================
