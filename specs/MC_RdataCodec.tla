---------------------------- MODULE MC_RdataCodec ----------------------------
(* Laws of the generic codec, checked by TLC on the bounded universe: one state per
   (type, value vector, fault).  *)
EXTENDS RdataUniverse

CONSTANT Types       \* subset of TypeNames
VARIABLES ty, v, ft
vars == <<ty, v, ft>>

PRE == <<1, 112, 0>>          \* octets in front of the RDATA inside the message: "p." at offset 0, root at offset 2
SUF == <<0, 0>>               \* octets after the RDATA
Buf(b) == PRE \o b \o SUF
Dec(t, b, o) == Decode(t, Buf(b), Len(PRE), Len(b), o)
Org(t, x) == IF HasRelative(t, x) THEN Origin ELSE NoOrigin

Init == ty \in Types /\ v \in Vectors(ty) /\ ft = <<"none", 0, 0>>
Next == /\ ft = <<"none", 0, 0>>
        /\ (WellFormed(ty, v) /\ CanEncode(ty, v, Org(ty, v))) = TRUE   \* "= TRUE": evaluate as a value, not as an action
        /\ ft' \in FaultSet(Encode(ty, v, Org(ty, v)), Len(PRE))
        /\ UNCHANGED <<ty, v>>
Spec == Init /\ [][Next]_vars

\* Decode(Encode(v)) = Ok(v, Len): with the origin when v has relative names, and for
\* absolute-only values both with and without an origin
RoundTrip ==
    (ft[1] = "none" /\ WellFormed(ty, v) /\ CanEncode(ty, v, Org(ty, v))) =>
        \A o \in {Org(ty, v), Origin} :
            LET d == Dec(ty, Encode(ty, v, o), o) IN d.res \in {"ok", "free"} /\ d.v = v
\* an ill-formed value is never returned by the decoder
IllFormedNeverDecoded ==
    (ft[1] = "none" /\ ~WellFormed(ty, v) /\ CanEncode(ty, v, Origin)) =>
        LET d == Dec(ty, Encode(ty, v, Origin), Origin) IN d.res = "err" \/ d.v # v
\* whatever octets are accepted re-encode to themselves (unique encodings) or to a fixed point
Reencode ==
    (WellFormed(ty, v) /\ CanEncode(ty, v, Org(ty, v))) =>
        LET b == ApplyFault(Encode(ty, v, Org(ty, v)), ft)
            d == Dec(ty, b, NoOrigin) IN
        d.res # "err" =>
            LET w == Encode(ty, d.v, NoOrigin)   \* decoded without origin: all names absolute
                d2 == Dec(ty, w, NoOrigin) IN
            /\ (TypeInfo[ty].unique /\ ~d.ptr) => w = b
            /\ d2.res # "err" /\ d2.v = d.v /\ Encode(ty, d2.v, NoOrigin) = w
=============================================================================
