---------------------------- MODULE MC_TtlRange ----------------------------
(* Bounded instance of TtlRange.
   mode "ttl" / "range": the parser automaton run character by character on EVERY text of
       the universe (one action per character class), then the laws on its result;
   mode "serial": every serial number of every width in SBits; the step is an addition
       in the defined range. *)
EXTENDS TtlRange, TtlRangeUniverse, TLC

CONSTANTS Modes
VARIABLES mode, text, i, ps, res, bits, s
vars == <<mode, text, i, ps, res, bits, s>>
None == <<"-">>

Init == /\ mode \in Modes /\ i = 1 /\ res = None
        /\ \/ mode = "ttl" /\ (text \in Ttl1 \/ text \in Ttl2 \/ text \in Ttl3 \/ text \in TtlEdge) /\ ps = TInit /\ bits = 0 /\ s = 0
           \/ mode = "range" /\ (InRangeShort(text) \/ InRangeMid(text) \/ InRangeLong(text)) /\ ps = RInit /\ bits = 0 /\ s = 0
           \/ mode = "serial" /\ text = <<>> /\ ps = TInit /\ bits \in SBits /\ s \in Space(bits)

Running(m) == mode = m /\ res = None /\ i <= Len(text) /\ ps.st = "run"
TAct(cl) == Running("ttl") /\ TClass(ps, text[i]) = cl /\ ps' = TStep(ps, text[i]) /\ i' = i + 1
            /\ UNCHANGED <<mode, text, res, bits, s>>
TDigit == TAct("Digit")
TUnit == TAct("Unit")
TUnitWithoutNumber == TAct("UnitWithoutNumber")
TBadCharacter == TAct("BadCharacter")
TFinish == mode = "ttl" /\ res = None /\ (i > Len(text) \/ ps.st = "bad") /\ res' = TEnd(ps)
           /\ UNCHANGED <<mode, text, i, ps, bits, s>>
RAct(cl) == Running("range") /\ RClass(ps, text[i]) = cl /\ ps' = RStep(ps, text[i]) /\ i' = i + 1
            /\ UNCHANGED <<mode, text, res, bits, s>>
RDigit == RAct("Digit")
RDash == RAct("Dash")
RSlash == RAct("Slash")
RBadDash == RAct("BadDash")
RBadSlash == RAct("BadSlash")
RBadCharacter == RAct("BadCharacter")
RFinishA == mode = "range" /\ res = None /\ (i > Len(text) \/ ps.st = "bad") /\ res' = REnd(ps)
            /\ UNCHANGED <<mode, text, i, ps, bits, s>>
SIncrement == mode = "serial" /\ \E n \in 1..(Pow2(bits - 1) - 1) : s' = SAdd(s, n, bits)
              /\ UNCHANGED <<mode, text, i, ps, res, bits>>
Next == TDigit \/ TUnit \/ TUnitWithoutNumber \/ TBadCharacter \/ TFinish
        \/ RDigit \/ RDash \/ RSlash \/ RBadDash \/ RBadSlash \/ RBadCharacter \/ RFinishA \/ SIncrement
Spec == Init /\ [][Next]_vars

-----------------------------------------------------------------------------
TDone == mode = "ttl" /\ res # None
RDone == mode = "range" /\ res # None
Progress == [][mode # "serial" => i' > i \/ res' # None]_vars
(* the automaton, its fold, and the positional reading of the grammar agree *)
TtlFoldAgrees == TDone => res = TtlParse(text) /\ SameVerdict(res, TtlDenote(text))
TtlBound == TDone /\ IsOk(res) => BLeq(res[2], MaxTTL)
(* from_text(str(n)) = n for every value n, and a plain number denotes itself *)
TtlRoundTrip == TDone /\ IsOk(res) => TtlParse(BToCodes(res[2])) = res
TtlPlain == TDone /\ text # <<>> /\ NonDigits(text) = {} =>
                IF BLeq(BOfCodes(text), MaxTTL) THEN res = Ok(BOfCodes(text)) ELSE res = Bad("TooBig")
SwapCase(t) == [k \in 1..Len(t) |-> IF t[k] \in 65..90 THEN t[k] + 32 ELSE IF t[k] \in 97..122 THEN t[k] - 32 ELSE t[k]]
TtlCaseBlind == TDone => TtlParse(SwapCase(text)) = res
(* order of the number-unit pairs is irrelevant; the value of a concatenation is the sum *)
Cuts == {k \in NonDigits(text) : k < Len(text)}
TtlRotate == TDone /\ IsOk(res) => \A k \in Cuts : TtlParse(SubSeq(text, k + 1, Len(text)) \o SubSeq(text, 1, k)) = res
TtlAdditive == TDone /\ IsOk(res) /\ NonDigits(text) # {} =>
                  \A k \in Cuts : LET p == TtlParse(SubSeq(text, 1, k))
                                      q == TtlParse(SubSeq(text, k + 1, Len(text)))
                                  IN  IsOk(p) /\ IsOk(q) /\ BAdd(p[2], q[2]) = res[2]
(* unit expansion equals the arithmetic definition, in TLC's own integers (small numbers) *)
RECURSIVE RunInt(_, _, _)
RunInt(t, a, b) == IF b < a THEN 0 ELSE 10 * RunInt(t, a, b - 1) + (t[b] - 48)
RECURSIVE NativeSum(_, _)
NativeSum(t, P) == IF P = {} THEN 0
                   ELSE LET k == SetMax(P) IN RunInt(t, RunStart(t, k), k - 1) * Mult(t[k]) + NativeSum(t, P \ {k})
SmallRuns(t) == Cardinality(NonDigits(t)) <= 3 /\ \A k \in NonDigits(t) : k - RunStart(t, k) <= 3
TtlNative == TDone /\ NonDigits(text) # {} /\ UnitsForm(text) /\ SmallRuns(text) =>
                 res = Ok(BOfInt(NativeSum(text, NonDigits(text))))
(* the malformed classes are refused *)
TtlRefuses == TDone => /\ (text = <<>> => ~IsOk(res))
                       /\ ((\E k \in 1..Len(text) : ~Digit(text[k]) /\ ~Unit(text[k])) => ~IsOk(res))
                       /\ (text # <<>> /\ Unit(text[1]) => ~IsOk(res))
                       /\ ((\E k \in 1..(Len(text) - 1) : Unit(text[k]) /\ Unit(text[k + 1])) => ~IsOk(res))
                       /\ (NonDigits(text) # {} /\ Digit(text[Len(text)]) => ~IsOk(res))

RangeFoldAgrees == RDone => res = RangeParse(text) /\ (IF IsOk(res) THEN RangeDenote(text) = res ELSE ~IsOk(RangeDenote(text)))
RangeOrdered == RDone /\ IsOk(res) => BLeq(res[2][1], res[2][2]) /\ res[2][3] # <<>>
RangeDefaultStep == RDone /\ IsOk(res) /\ ~(\E k \in 1..Len(text) : text[k] = Slash) => res[2][3] = <<1>>
RangeRoundTrip == RDone /\ IsOk(res) =>
                     RangeParse(BToCodes(res[2][1]) \o <<Dash>> \o BToCodes(res[2][2]) \o <<Slash>> \o BToCodes(res[2][3])) = res
RangeRefuses == RDone => /\ (~(\E k \in 1..Len(text) : text[k] = Dash) => ~IsOk(res))
                         /\ (text # <<>> /\ ~Digit(text[1]) => ~IsOk(res))
                         /\ (text # <<>> /\ ~Digit(text[Len(text)]) => ~IsOk(res))

-----------------------------------------------------------------------------
Ser == mode = "serial"
Half == Pow2(bits - 1)
SerIrreflexive == Ser => ~SLt(s, s, bits) /\ ~SGt(s, s, bits)
SerAntisymmetric == Ser => \A b \in Space(bits) : ~(SLt(s, b, bits) /\ SLt(b, s, bits)) /\ ~(SLt(s, b, bits) /\ SGt(s, b, bits))
SerDual == Ser => \A b \in Space(bits) : SLt(s, b, bits) <=> SGt(b, s, bits)
SerOneOfFour == Ser => \A b \in Space(bits) :
                    /\ Cardinality({k \in 1..4 : <<SEq(s, b), SLt(s, b, bits), SGt(s, b, bits), SUndef(s, b, bits)>>[k]}) = 1
                    /\ (SUndef(s, b, bits) <=> b = (s + Half) % Pow2(bits))
SerModular == Ser => \A b \in Space(bits) : SLt(s, b, bits) <=> ((b - s + Pow2(bits)) % Pow2(bits)) \in 1..(Half - 1)
SerAddWraps == Ser => \A n \in 0..(Half - 1) : /\ SAdd(s, n, bits) \in Space(bits)
                                                /\ SAdd(s, n, bits) = (IF s + n >= Pow2(bits) THEN s + n - Pow2(bits) ELSE s + n)
SerAddOne == Ser => \A n \in 1..(Half - 1) : SAdd(SAdd(s, 1, bits), n - 1, bits) = SAdd(s, n, bits)   \* RFC 1982 section 4, corollary 1
(* RFC 1982 section 4, corollary 2: s + n > s for 0 < n <= 2^(bits-1) - 1 *)
SerIncreases == [][Ser => SLt(s, s', bits) /\ SGt(s', s, bits)]_vars
(* the two-limb formulation used for 32 bits is the same relation (even widths) *)
SerLimbs == Ser /\ bits % 2 = 0 =>
                LET h == bits \div 2
                IN  \A b \in Space(bits) :
                      /\ LLt(LOf(s, h), LOf(b, h), h) <=> SLt(s, b, bits)
                      /\ LGt(LOf(s, h), LOf(b, h), h) <=> SGt(s, b, bits)
                      /\ LUndef(LOf(s, h), LOf(b, h), h) <=> SUndef(s, b, bits)
                      /\ LVal(LAdd(LOf(s, h), LOf(b, h), h), h) = (s + b) % Pow2(bits)
                      /\ LAddDefined(LOf(b, h), h) <=> AddDefined(b, bits)
=============================================================================
