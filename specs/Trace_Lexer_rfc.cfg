INIT TraceInit
NEXT TraceNext
CONSTANTS
  DialectFilter <- RfcDialects
  StrictLine = FALSE
CONSTRAINT Accepted
POSTCONDITION Post
CHECK_DEADLOCK FALSE
