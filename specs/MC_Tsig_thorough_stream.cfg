SPECIFICATION Spec
CONSTANTS
  KeyNames = {"k1"}
  Secrets = {"s1"}
  Algs <- MCTwoAlgs
  Fudges = {2}
  Skews <- MCSkews4
  Errors = {0}
  Kinds = {"stream"}
  MaxEnv = 4
  MaxFaults = 1
  MaxResign = 0
  ResignMods = {}
INVARIANT TypeOK
INVARIANT GenuineAccepted
INVARIANT AlteredRefused
INVARIANT UnsignedNeverOk
INVARIANT Window
INVARIANT Family
INVARIANT PeerReported
CHECK_DEADLOCK FALSE
