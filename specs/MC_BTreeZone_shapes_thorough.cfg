SPECIFICATION ShapeSpec
CONSTANTS
  Names <- WNames
  Queries <- WQueries
  OpTypes = {"NS", "A"}
  RdIds = {1}
  LoadSets <- MCLoadSets
  MaxOps = 0
  MaxTxns = 0
  ShapeNames <- WNames
  NameLessC <- TabLess
INVARIANT CommittedLaws
CHECK_DEADLOCK FALSE
