INIT TraceInit
NEXT TraceNext
CONSTANTS
  ZeroMeansNone = FALSE
CONSTRAINT Accepted
POSTCONDITION Post
CHECK_DEADLOCK FALSE
