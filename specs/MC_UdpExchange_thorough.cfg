SPECIFICATION Spec
CONSTANTS
  Dgrams <- MCDev2
  Configs <- MCConfigsStatic
  MaxDgrams = 2
  MaxBlocks = 0
INVARIANT TypeOK
INVARIANT ReturnOnlyGenuine
INVARIANT ReturnSound
INVARIANT GenuineEnds
INVARIANT SpoofCannotEnd
INVARIANT VerdictTotal
INVARIANT DeadlineRespected
CHECK_DEADLOCK FALSE
