----------------------- MODULE VersionedZoneAbs_proofs -----------------------
(* X04 - TLAPS proof, for ARBITRARY Rids / Contents / IdSpace \subseteq Nat (any number of
   readers, versions and commits, any pruning policy), that IndInv is an inductive
   invariant of VersionedZoneAbs and implies Safety = RetentionSound (ids increasing,
   retained versions = contiguous tail of the history, newest retained, pinned retained)
   /\ VersionsImmutable /\ Snapshot; plus the SubSeq form of Contiguous used in
   VersionedZone.tla. *)
EXTENDS VersionedZoneAbs, SequenceTheorems, TLAPS

VR == [id : Nat, content : Cont]

(* what a pruning step does, without SubSeq *)
LEMMA PruneFacts ==
    ASSUME NEW S, NEW vs \in Seq(S), NEW vs2, NEW rs, PruneRel(vs, vs2, rs)
    PROVE  \E d \in 1..Len(vs) :
              /\ vs2 \in Seq(S)
              /\ Len(vs2) = Len(vs) - d + 1
              /\ \A j \in 1..Len(vs2) : vs2[j] = vs[j + d - 1]
              /\ \A i \in 1..(d - 1) : \A r \in DOMAIN rs : vs[i].id < rs[r].vid
<1>1. PICK d \in DOMAIN vs :
          /\ vs2 = SubSeq(vs, d, Len(vs))
          /\ \A i \in DOMAIN vs : i < d => \A r \in DOMAIN rs : vs[i].id < rs[r].vid
  BY DEF PruneRel
<1>2. d \in 1..Len(vs) /\ d \in Int /\ Len(vs) \in Int
  OBVIOUS
<1>3. \A i \in d..Len(vs) : vs[i] \in S
  BY <1>2
<1>4. /\ SubSeq(vs, d, Len(vs)) \in Seq(S)
      /\ Len(SubSeq(vs, d, Len(vs))) = IF d <= Len(vs) THEN Len(vs) - d + 1 ELSE 0
      /\ \A i \in 1..(Len(vs) - d + 1) : SubSeq(vs, d, Len(vs))[i] = vs[d + i - 1]
  BY <1>2, <1>3, SubSeqProperties
<1>5. \A i \in 1..(d - 1) : i \in DOMAIN vs /\ i < d
  BY <1>2
<1> QED
  BY <1>1, <1>2, <1>4, <1>5

(* a pruning step applied to a sequence vs that satisfies the invariant together with
   hist / pub / rs gives a sequence that satisfies it too *)
LEMMA PruneKeeps ==
    ASSUME NEW vs \in Seq(VR), NEW vs2, NEW hist \in Seq(Nat), NEW pub, NEW rs,
           1 <= Len(vs), Len(vs) <= Len(hist),
           \A i \in 1..Len(vs) : vs[i].id = hist[Len(hist) - Len(vs) + i],
           \A i \in 1..Len(vs) : vs[i].id \in DOMAIN pub /\ vs[i].content = pub[vs[i].id],
           \A r \in DOMAIN rs : \E i \in 1..Len(vs) : vs[i].id = rs[r].vid /\ vs[i].content = rs[r].seen,
           PruneRel(vs, vs2, rs)
    PROVE  /\ vs2 \in Seq(VR)
           /\ 1 <= Len(vs2) /\ Len(vs2) <= Len(hist)
           /\ \A i \in 1..Len(vs2) : vs2[i].id = hist[Len(hist) - Len(vs2) + i]
           /\ \A i \in 1..Len(vs2) : vs2[i].id \in DOMAIN pub /\ vs2[i].content = pub[vs2[i].id]
           /\ \A r \in DOMAIN rs : \E i \in 1..Len(vs2) : vs2[i].id = rs[r].vid /\ vs2[i].content = rs[r].seen
<1>1. PICK d \in 1..Len(vs) :
          /\ vs2 \in Seq(VR)
          /\ Len(vs2) = Len(vs) - d + 1
          /\ \A j \in 1..Len(vs2) : vs2[j] = vs[j + d - 1]
          /\ \A i \in 1..(d - 1) : \A r \in DOMAIN rs : vs[i].id < rs[r].vid
  BY PruneFacts
<1>2. Len(vs) \in Nat /\ Len(hist) \in Nat /\ Len(vs2) \in Nat
  BY <1>1
<1>3. 1 <= Len(vs2) /\ Len(vs2) <= Len(hist)
  BY <1>1, <1>2
<1>4. \A i \in 1..Len(vs2) : (i + d - 1) \in 1..Len(vs) /\ vs2[i] = vs[i + d - 1]
  BY <1>1, <1>2
<1>5. \A i \in 1..Len(vs2) : vs2[i].id = hist[Len(hist) - Len(vs2) + i]
  <2> SUFFICES ASSUME NEW i \in 1..Len(vs2) PROVE vs2[i].id = hist[Len(hist) - Len(vs2) + i]
    OBVIOUS
  <2>1. vs2[i] = vs[i + d - 1] /\ (i + d - 1) \in 1..Len(vs)
    BY <1>4
  <2>2. vs[i + d - 1].id = hist[Len(hist) - Len(vs) + (i + d - 1)]
    BY <2>1
  <2>3. Len(hist) - Len(vs) + (i + d - 1) = Len(hist) - Len(vs2) + i
    BY <1>1, <1>2
  <2> QED BY <2>1, <2>2, <2>3
<1>6. \A i \in 1..Len(vs2) : vs2[i].id \in DOMAIN pub /\ vs2[i].content = pub[vs2[i].id]
  BY <1>4
<1>7. \A r \in DOMAIN rs : \E i \in 1..Len(vs2) : vs2[i].id = rs[r].vid /\ vs2[i].content = rs[r].seen
  <2> SUFFICES ASSUME NEW r \in DOMAIN rs
               PROVE \E i \in 1..Len(vs2) : vs2[i].id = rs[r].vid /\ vs2[i].content = rs[r].seen
    OBVIOUS
  <2>1. PICK k \in 1..Len(vs) : vs[k].id = rs[r].vid /\ vs[k].content = rs[r].seen
    OBVIOUS
  <2>2. vs[k].id \in Nat
    BY <2>1 DEF VR
  <2>3. ~(k \in 1..(d - 1))
    BY <1>1, <2>1, <2>2
  <2>4. (k - d + 1) \in 1..Len(vs2) /\ vs2[k - d + 1] = vs[k]
    BY <1>1, <1>2, <2>3
  <2> QED BY <2>1, <2>4
<1> QED BY <1>1, <1>3, <1>5, <1>6, <1>7

LEMMA InitInv == Init => IndInv
<1> SUFFICES ASSUME Init PROVE IndInv OBVIOUS
<1>1. /\ versions = <<[id |-> 1, content |-> Empty]>> /\ allIds = <<1>>
      /\ published = [x \in {1} |-> Empty] /\ DOMAIN readers = {}
  BY DEF Init
<1>2. Len(versions) = 1 /\ Len(allIds) = 1 /\ DOMAIN versions = {1} /\ DOMAIN allIds = {1}
      /\ versions[1] = [id |-> 1, content |-> Empty] /\ allIds[1] = 1
  BY <1>1
<1>3. TypeSeq BY <1>1 DEF TypeSeq, Cont
<1>4. TypeRest BY <1>1, <1>2 DEF TypeRest
<1>5. IndCore BY <1>1, <1>2 DEF IndCore, J_Hist, ContiguousNewest, VersionsImmutable, Snapshot
<1> QED BY <1>3, <1>4, <1>5 DEF IndInv

LEMMA InvSafety == IndInv => Safety
<1> SUFFICES ASSUME IndInv PROVE Safety OBVIOUS
<1>0. TypeSeq /\ TypeRest /\ J_Hist /\ ContiguousNewest /\ VersionsImmutable /\ Snapshot
  BY DEF IndInv, IndCore
<1>a. /\ Len(versions) \in Nat /\ Len(allIds) \in Nat /\ DOMAIN versions = 1..Len(versions)
      /\ DOMAIN allIds = 1..Len(allIds)
  BY <1>0 DEF TypeSeq
<1>1. IdsIncrease
  <2>1. \A i, j \in DOMAIN versions : i < j => versions[i].id < versions[j].id
    BY <1>0, <1>a DEF J_Hist, ContiguousNewest
  <2> QED BY <1>0, <2>1 DEF IdsIncrease, J_Hist
<1>2. NewestRetained BY <1>0, <1>a DEF NewestRetained, ContiguousNewest
<1>3. PinnedRetained BY <1>0 DEF PinnedRetained, Snapshot
<1> QED BY <1>0, <1>1, <1>2, <1>3 DEF Safety, RetentionSound

LEMMA Step == IndInv /\ [Next]_vars => IndInv'
<1> SUFFICES ASSUME IndInv, [Next]_vars PROVE IndInv' OBVIOUS
<1> USE IdAssumption
<1>0. TypeSeq /\ TypeRest /\ J_Hist /\ ContiguousNewest /\ VersionsImmutable /\ Snapshot
  BY DEF IndInv, IndCore
<1>a. /\ versions \in Seq(VR) /\ allIds \in Seq(Nat)
      /\ Len(versions) \in Nat /\ Len(allIds) \in Nat
      /\ DOMAIN versions = 1..Len(versions) /\ DOMAIN allIds = 1..Len(allIds)
      /\ 1 <= Len(versions) /\ Len(versions) <= Len(allIds)
  BY <1>0 DEF TypeSeq, VR, ContiguousNewest
(* ---- the actions *)
<1>1. ASSUME NEW r \in Rids, NEW i \in DOMAIN versions, Open(r, i) PROVE IndInv'
  <2>1. /\ UNCHANGED <<versions, allIds, published>>
        /\ DOMAIN readers' = DOMAIN readers \cup {r}
        /\ readers'[r] = [vid |-> versions[i].id, seen |-> versions[i].content]
        /\ \A x \in DOMAIN readers : x # r => readers'[x] = readers[x]
        /\ r \notin DOMAIN readers
    BY <1>1 DEF Open
  <2>2. versions[i].id \in Nat /\ versions[i].id \in DOMAIN published
        /\ versions[i].content = published[versions[i].id]
    BY <1>0, <1>a DEF VR, VersionsImmutable
  <2>3. TypeSeq' /\ J_Hist' /\ ContiguousNewest' /\ VersionsImmutable'
    BY <1>0, <2>1 DEF TypeSeq, J_Hist, ContiguousNewest, VersionsImmutable
  <2>4. TypeRest'
    BY <1>0, <2>1, <2>2 DEF TypeRest
  <2>5. Snapshot'
    BY <1>0, <2>1, <2>2 DEF Snapshot
  <2> QED BY <2>3, <2>4, <2>5 DEF IndInv, IndCore
<1>2. ASSUME NEW r \in Rids, Close(r) PROVE IndInv'
  <2>1. /\ UNCHANGED <<allIds, published>>
        /\ DOMAIN readers' = DOMAIN readers \ {r}
        /\ \A x \in DOMAIN readers' : readers'[x] = readers[x]
        /\ PruneRel(versions, versions', readers')
    BY <1>2 DEF Close
  <2>2. /\ versions' \in Seq(VR)
        /\ 1 <= Len(versions') /\ Len(versions') <= Len(allIds)
        /\ \A i \in 1..Len(versions') : versions'[i].id = allIds[Len(allIds) - Len(versions') + i]
        /\ \A i \in 1..Len(versions') : versions'[i].id \in DOMAIN published
                                        /\ versions'[i].content = published[versions'[i].id]
        /\ \A x \in DOMAIN readers' : \E i \in 1..Len(versions') :
               versions'[i].id = readers'[x].vid /\ versions'[i].content = readers'[x].seen
    <3>1. \A x \in DOMAIN readers' :
               /\ readers'[x].vid \in DOMAIN published /\ readers'[x].seen = published[readers'[x].vid]
               /\ \E i \in 1..Len(versions) : versions[i].id = readers'[x].vid /\ versions[i].content = readers'[x].seen
      BY <1>0, <1>a, <2>1 DEF Snapshot
    <3> QED
      BY <1>0, <1>a, <2>1, <3>1, PruneKeeps DEF ContiguousNewest, VersionsImmutable
  <2>3. DOMAIN versions' = 1..Len(versions') /\ Len(versions') \in Nat
    BY <2>2
  <2>4. TypeSeq' BY <1>0, <2>1, <2>2 DEF TypeSeq, VR
  <2>5. TypeRest' BY <1>0, <2>1, <2>2, <2>3 DEF TypeRest, VR
  <2>6. J_Hist' BY <1>0, <2>1 DEF J_Hist
  <2>7. ContiguousNewest' BY <2>1, <2>2, <2>3 DEF ContiguousNewest
  <2>8. VersionsImmutable' BY <2>1, <2>2, <2>3 DEF VersionsImmutable
  <2>9. Snapshot' BY <1>0, <2>1, <2>2, <2>3 DEF Snapshot
  <2> QED BY <2>4, <2>5, <2>6, <2>7, <2>8, <2>9 DEF IndInv, IndCore
<1>3. ASSUME NEW nid \in IdSpace, NEW c \in Contents, Commit(nid, c) PROVE IndInv'
  <2> DEFINE vs == Append(versions, [id |-> nid, content |-> c])
  <2>1. /\ nid \in Nat /\ nid > allIds[Len(allIds)]
        /\ PruneRel(vs, versions', readers)
        /\ allIds' = Append(allIds, nid)
        /\ DOMAIN published' = DOMAIN published \cup {nid}
        /\ published'[nid] = c
        /\ \A x \in DOMAIN published : x # nid => published'[x] = published[x]
        /\ UNCHANGED readers
    BY <1>3 DEF Commit
  <2>2. /\ allIds' \in Seq(Nat) /\ Len(allIds') = Len(allIds) + 1
        /\ \A i \in 1..Len(allIds) : allIds'[i] = allIds[i]
        /\ allIds'[Len(allIds) + 1] = nid
    BY <1>a, <2>1
  <2>3. \A i \in 1..Len(allIds) : allIds[i] \in Nat /\ allIds[i] < nid
    <3>1. Len(allIds) \in 1..Len(allIds) /\ allIds[Len(allIds)] \in Nat /\ nid \in Nat
      BY <1>a, <2>1
    <3>2. \A i \in 1..Len(allIds) : allIds[i] \in Nat /\ (i < Len(allIds) => allIds[i] < allIds[Len(allIds)])
      BY <1>0, <1>a, <3>1 DEF J_Hist
    <3> QED BY <1>a, <2>1, <3>1, <3>2
  <2>4. J_Hist'
    BY <1>0, <1>a, <2>1, <2>2, <2>3 DEF J_Hist
  <2>5. /\ vs \in Seq(VR) /\ Len(vs) = Len(versions) + 1
        /\ \A i \in 1..Len(versions) : vs[i] = versions[i]
        /\ vs[Len(versions) + 1] = [id |-> nid, content |-> c]
    BY <1>a, <2>1 DEF VR, Cont
  <2>6. \A i \in 1..Len(versions) : versions[i].id < nid /\ versions[i].id \in DOMAIN published
                                    /\ versions[i].content = published[versions[i].id]
    BY <1>0, <1>a, <2>3 DEF ContiguousNewest, VersionsImmutable
  <2>7. \A i \in 1..Len(vs) : vs[i].id = allIds'[Len(allIds') - Len(vs) + i]
    BY <1>0, <1>a, <2>2, <2>5 DEF ContiguousNewest
  <2>8. \A i \in 1..Len(vs) : vs[i].id \in DOMAIN published' /\ vs[i].content = published'[vs[i].id]
    BY <1>a, <2>1, <2>5, <2>6
  <2>9. \A r \in DOMAIN readers :
            /\ readers[r].vid \in DOMAIN published' /\ readers[r].seen = published'[readers[r].vid]
            /\ \E i \in 1..Len(vs) : vs[i].id = readers[r].vid /\ vs[i].content = readers[r].seen
    <3> SUFFICES ASSUME NEW r \in DOMAIN readers
                 PROVE /\ readers[r].vid \in DOMAIN published' /\ readers[r].seen = published'[readers[r].vid]
                       /\ \E i \in 1..Len(vs) : vs[i].id = readers[r].vid /\ vs[i].content = readers[r].seen
      OBVIOUS
    <3>1. PICK k \in 1..Len(versions) : versions[k].id = readers[r].vid /\ versions[k].content = readers[r].seen
      BY <1>0, <1>a DEF Snapshot
    <3>2. readers[r].vid \in DOMAIN published /\ readers[r].seen = published[readers[r].vid]
          /\ readers[r].vid # nid
      BY <1>0, <2>6, <3>1 DEF Snapshot
    <3>3. k \in 1..Len(vs) /\ vs[k] = versions[k]
      BY <1>a, <2>5
    <3> QED BY <2>1, <3>1, <3>2, <3>3
  <2>10. /\ versions' \in Seq(VR)
         /\ 1 <= Len(versions') /\ Len(versions') <= Len(allIds')
         /\ \A i \in 1..Len(versions') : versions'[i].id = allIds'[Len(allIds') - Len(versions') + i]
         /\ \A i \in 1..Len(versions') : versions'[i].id \in DOMAIN published'
                                         /\ versions'[i].content = published'[versions'[i].id]
         /\ \A r \in DOMAIN readers : \E i \in 1..Len(versions') :
                versions'[i].id = readers[r].vid /\ versions'[i].content = readers[r].seen
    <3>1. 1 <= Len(vs) /\ Len(vs) <= Len(allIds')
      BY <1>a, <2>2, <2>5
    <3>2. \A r \in DOMAIN readers : \E i \in 1..Len(vs) : vs[i].id = readers[r].vid /\ vs[i].content = readers[r].seen
      BY <2>9
    <3>3. vs \in Seq(VR) /\ allIds' \in Seq(Nat) /\ PruneRel(vs, versions', readers)
      BY <2>1, <2>2, <2>5
    <3> HIDE DEF vs
    <3> QED
      BY <2>7, <2>8, <3>1, <3>2, <3>3, PruneKeeps
  <2>11. DOMAIN versions' = 1..Len(versions') /\ Len(versions') \in Nat
    BY <2>10
  <2>12. TypeSeq' BY <2>2, <2>10 DEF TypeSeq, VR
  <2>13. TypeRest' BY <1>0, <2>1, <2>2, <2>10, <2>11 DEF TypeRest, VR
  <2>14. ContiguousNewest' BY <2>10, <2>11 DEF ContiguousNewest
  <2>15. VersionsImmutable' BY <2>10, <2>11 DEF VersionsImmutable
  <2>16. Snapshot' BY <2>1, <2>9, <2>10, <2>11 DEF Snapshot
  <2> QED BY <2>4, <2>12, <2>13, <2>14, <2>15, <2>16 DEF IndInv, IndCore
<1>4. ASSUME Reprune PROVE IndInv'
  <2>1. UNCHANGED <<allIds, published, readers>> /\ PruneRel(versions, versions', readers)
    BY <1>4 DEF Reprune
  <2>2. /\ versions' \in Seq(VR)
        /\ 1 <= Len(versions') /\ Len(versions') <= Len(allIds)
        /\ \A i \in 1..Len(versions') : versions'[i].id = allIds[Len(allIds) - Len(versions') + i]
        /\ \A i \in 1..Len(versions') : versions'[i].id \in DOMAIN published
                                        /\ versions'[i].content = published[versions'[i].id]
        /\ \A x \in DOMAIN readers : \E i \in 1..Len(versions') :
               versions'[i].id = readers[x].vid /\ versions'[i].content = readers[x].seen
    BY <1>0, <1>a, <2>1, PruneKeeps DEF ContiguousNewest, VersionsImmutable, Snapshot
  <2>3. DOMAIN versions' = 1..Len(versions') /\ Len(versions') \in Nat
    BY <2>2
  <2>4. TypeSeq' BY <1>0, <2>1, <2>2 DEF TypeSeq, VR
  <2>5. TypeRest' BY <1>0, <2>1, <2>2, <2>3 DEF TypeRest, VR
  <2>6. J_Hist' BY <1>0, <2>1 DEF J_Hist
  <2>7. ContiguousNewest' BY <2>1, <2>2, <2>3 DEF ContiguousNewest
  <2>8. VersionsImmutable' BY <2>1, <2>2, <2>3 DEF VersionsImmutable
  <2>9. Snapshot' BY <1>0, <2>1, <2>2, <2>3 DEF Snapshot
  <2> QED BY <2>4, <2>5, <2>6, <2>7, <2>8, <2>9 DEF IndInv, IndCore
<1>5. CASE UNCHANGED vars
  BY <1>0, <1>5 DEF vars, IndInv, IndCore, TypeSeq, TypeRest, J_Hist, ContiguousNewest, VersionsImmutable, Snapshot
<1> QED BY <1>1, <1>2, <1>3, <1>4, <1>5 DEF Next

THEOREM Safe == Spec => []Safety
<1>1. Spec => []IndInv BY InitInv, Step, PTL DEF Spec
<1> QED BY <1>1, InvSafety, PTL

(* The statement of Contiguous in VersionedZone.tla: the ids of the retained versions are a
   SubSeq of the history (here: its tail). *)
Ids(vs) == [i \in 1..Len(vs) |-> vs[i].id]

LEMMA TailSubSeq ==
    ASSUME NEW S, NEW s \in Seq(S), NEW m \in 1..Len(s)
    PROVE  /\ SubSeq(s, m, Len(s)) \in Seq(S)
           /\ Len(SubSeq(s, m, Len(s))) = Len(s) - m + 1
           /\ \A i \in 1..(Len(s) - m + 1) : SubSeq(s, m, Len(s))[i] = s[m + i - 1]
<1>1. m \in Int /\ Len(s) \in Int /\ m <= Len(s)
  OBVIOUS
<1>2. \A i \in m..Len(s) : s[i] \in S
  OBVIOUS
<1>3. /\ SubSeq(s, m, Len(s)) \in Seq(S)
      /\ Len(SubSeq(s, m, Len(s))) = IF m <= Len(s) THEN Len(s) - m + 1 ELSE 0
      /\ \A i \in 1..(Len(s) - m + 1) : SubSeq(s, m, Len(s))[i] = s[m + i - 1]
  BY <1>1, <1>2, SubSeqProperties
<1> QED BY <1>1, <1>3

THEOREM ContiguousSubSeq ==
    ASSUME TypeSeq, ContiguousNewest
    PROVE  \E a \in 1..Len(allIds) : \E b \in a..Len(allIds) : SubSeq(allIds, a, b) = Ids(versions)
<1> DEFINE a == Len(allIds) - Len(versions) + 1
<1> DEFINE t == SubSeq(allIds, a, Len(allIds))
<1>1. /\ allIds \in Seq(Nat) /\ Len(allIds) \in Nat /\ Len(versions) \in Nat
      /\ 1 <= Len(versions) /\ Len(versions) <= Len(allIds)
      /\ DOMAIN versions = 1..Len(versions)
  BY DEF TypeSeq, ContiguousNewest
<1>2. a \in 1..Len(allIds) /\ Len(allIds) \in a..Len(allIds)
  BY <1>1
<1>3. /\ t \in Seq(Nat)
      /\ Len(t) = Len(allIds) - a + 1
      /\ \A i \in 1..(Len(allIds) - a + 1) : t[i] = allIds[a + i - 1]
  <2> HIDE DEF a
  <2> QED BY <1>1, <1>2, TailSubSeq
<1>4. Len(t) = Len(versions)
  BY <1>1, <1>3
<1>5. \A i \in 1..Len(versions) : t[i] = versions[i].id
  <2> SUFFICES ASSUME NEW i \in 1..Len(versions) PROVE t[i] = versions[i].id
    OBVIOUS
  <2>1. i \in 1..(Len(allIds) - a + 1) /\ a + i - 1 = Len(allIds) - Len(versions) + i
    BY <1>1
  <2>2. versions[i].id = allIds[Len(allIds) - Len(versions) + i]
    BY <1>1 DEF ContiguousNewest
  <2> HIDE DEF t, a
  <2> QED BY <1>3, <2>1, <2>2
<1>6. Ids(versions) \in Seq(Nat) /\ Len(Ids(versions)) = Len(versions)
      /\ \A i \in 1..Len(versions) : Ids(versions)[i] = versions[i].id
  <2>1. \A i \in 1..Len(versions) : versions[i].id \in Nat
    BY <1>3, <1>4, <1>5
  <2> QED BY <1>1, <2>1 DEF Ids
<1>7. t = Ids(versions)
  <2> HIDE DEF t
  <2> QED BY <1>3, <1>4, <1>5, <1>6, SeqEqual
<1> QED BY <1>2, <1>7
=============================================================================
