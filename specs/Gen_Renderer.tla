---------------------------- MODULE Gen_Renderer ----------------------------
(* Renderer plus a history variable: every behaviour is the description of one message
   (header choices, question, record sets per section in rendering order, EDNS), i.e. only
   the environment's choices.  The model renders it on the side (st) so that every emitted
   script is a behaviour of the specification.  Terminal states print the script as JSON;
   drivers/c03_message.py builds it on the real classes.  No expected results are emitted. *)
EXTENDS Renderer, Json

CONSTANTS Opcodes,    \* subset of {0, 4, 5}
          MaxRecs,    \* record sets per message
          NameSel,    \* subset of 1..6 (owner names)
          TargetSel,  \* subset of 1..6 (names embedded in RDATA)
          KindSel,    \* subset of {"A", "NS", "RRSIG", "SOA", "SRV", "TXT"}
          FormSel,    \* subset of UpdForms (used when the opcode is UPDATE)
          EdnsSel,    \* subset of {"off", "v0", "do", "opts", "v1"}
          RcodeSel,   \* subset of 0..4095
          BitSel,     \* set of header flag words (QR/AA/TC/RD/RA/AD/CD bits only)
          OriginSel,  \* subset of BOOLEAN: render relative to the origin ex.
          TtlSel,     \* set of TTL limb pairs
          TxtLens,    \* payload lengths for TXT
          TxtCounts,  \* records per TXT record set
          BigLens,    \* payload lengths of the opaque (type 65280) record that pushes names past 0x3FFF
          IdSel,      \* message ids (0 and 65535 are the boundary values)
          PadSel,     \* EDNS padding block sizes (0 = none)
          ZoneClsSel, \* class of the zone of an update (1 = IN, 3 = CH)
          MaxSel,     \* max_size of the low-level renderer (small values force rollbacks)
          OptIdx,     \* subset of 0..Len(OptMenu): 0 = no extra option, i = append OptMenu[i] to the OPT
          SecSel,     \* sections record sets may go to (subset of 1..3)
          QuestionSel,\* subset of BOOLEAN: TRUE = a question may be added
          QMax,       \* questions per message (RFC 1035 allows QDCOUNT > 1)
          PayloadSel, \* advertised EDNS UDP payload sizes; 70000 = the one of the EDNS menu entry
          XfrSel,     \* subset of BOOLEAN: TRUE = the answer section is a zone-transfer style sequence (SOA first, repeated
                      \* owner/type in several SOA-delimited runs) and the message is parsed with xfr=True
          TsigSel,    \* subset of BOOLEAN: TRUE = the low-level script ends with write_header ; add_tsig
          ChildMax    \* record sets whose owner is a CHILD of the previous record set's owner (deep pointer chains)
VARIABLE hist
TtlOne == {<<0, 300>>}
TtlMany == {<<0, 300>>, <<0, 0>>, <<32767, 65535>>}
gvars == <<st, hist>>

lex == <<101, 120>>  lEX == <<69, 88>>  la == <<97>>  lA == <<65>>  lb == <<98>>
lother == <<111, 116, 104, 101, 114>>
UName(i) == CASE i = 1 -> <<lex>> [] i = 2 -> <<la, lex>> [] i = 3 -> <<lb, la, lex>>
              [] i = 4 -> <<lA, lEX>> [] i = 5 -> <<lother>>
              \* 7..9: long names without common suffixes (4 labels of 60 octets = 245 octets on the wire)
              [] i \in 7..9 -> [j \in 1..4 |-> Fill(60, 96 + 4 * (i - 7) + j)]
              [] OTHER -> <<>>
Owners == {UName(i) : i \in NameSel}
Targets == {UName(i) : i \in TargetSel}

\* Every option code the library types or could plausibly type (0..20, 65001) with boundary bodies that
\* are well-formed for the code's RFC (7871 ECS, 7873 COOKIE, 7828 KEEPALIVE, 8914 EDE, 7314 EXPIRE, 7901
\* CHAIN, 8145 KEY-TAG, 9567 REPORT-CHANNEL, 9660 ZONEVERSION, 7830 PADDING, 6975 DAU/DHU/N3U, 5001 NSID);
\* the codec treats them as generic (code, body) pairs.
NmEx == <<2, 101, 120, 0>>
OptMenu == <<
  <<0, <<>>>>, <<0, <<0>>>>, <<1, Fill(18, 0)>>, <<1, Fill(18, 255)>>, <<2, Fill(4, 0)>>, <<2, Fill(4, 255)>>,
  <<3, <<>>>>, <<3, <<0>>>>, <<3, <<0, 0>>>>, <<3, <<255, 255>>>>, <<3, Fill(40, 1)>>,
  <<4, <<>>>>, <<4, <<0>>>>,
  <<5, <<>>>>, <<5, <<0>>>>, <<5, <<255, 255>>>>, <<6, <<>>>>, <<6, <<0, 0>>>>, <<7, <<>>>>, <<7, <<0>>>>,
  <<8, <<0, 1, 0, 0>>>>, <<8, <<0, 2, 0, 0>>>>, <<8, <<0, 1, 24, 0, 10, 0, 0>>>>, <<8, <<0, 1, 32, 0, 255, 255, 255, 255>>>>,
  <<9, <<>>>>, <<9, Fill(4, 0)>>, <<9, Fill(4, 255)>>,
  <<10, Fill(8, 0)>>, <<10, Fill(8, 255)>>, <<10, Fill(16, 0)>>, <<10, Fill(40, 255)>>,
  <<11, <<>>>>, <<11, <<0, 0>>>>, <<11, <<0, 1>>>>, <<11, <<255, 255>>>>,
  <<12, <<>>>>, <<12, <<0>>>>, <<12, <<0, 0>>>>, <<12, Fill(40, 0)>>,
  <<13, <<0>>>>, <<13, NmEx>>,
  <<14, <<>>>>, <<14, <<0, 0>>>>, <<14, <<255, 255>>>>, <<14, <<0, 0, 255, 255>>>>,
  <<15, <<0, 0>>>>, <<15, <<255, 255>>>>, <<15, <<0, 1, 120>>>>, <<15, <<0, 24>> \o Fill(38, 120)>>,
  <<16, <<0, 0>>>>, <<16, <<255, 255>>>>, <<17, <<0, 0>>>>, <<17, <<255, 255>>>>,
  <<18, <<0>>>>, <<18, NmEx>>,
  <<19, <<>>>>, <<19, <<0, 0>>>>, <<19, <<1, 0, 0, 0, 0, 0>>>>, <<19, <<1, 0, 255, 255, 255, 255>>>>,
  <<20, <<>>>>, <<20, <<0>>>>, <<20, <<0, 0>>>>, <<20, <<255, 255>>>>,
  <<65001, <<>>>>, <<65001, <<0>>>>, <<65001, <<0, 0>>>>, <<65001, <<255, 255>>>>, <<65001, Fill(40, 255)>> >>
WithPayload(ed, pl) == IF pl > 65535 \/ ed[1] = "none" THEN ed ELSE <<ed[1], ed[2], ed[3], pl, ed[5]>>
WithOption(ed, i) == IF i = 0 \/ ed[1] = "none" THEN ed ELSE <<ed[1], ed[2], ed[3], ed[4], Append(ed[5], OptMenu[i])>>

EdnsOf(e, rc) ==      \* <<"none">> or <<"edns", version, eflags, payload, options>>
    CASE e = "off" -> <<"none">>
      [] e = "v0" -> <<"edns", 0, 0, 1232, <<>>>>
      [] e = "do" -> <<"edns", 0, 32768, 4096, <<>>>>
      [] e = "opts" -> <<"edns", 0, 32768, 1400, <<<<10, Fill(8, 7)>>, <<65001, <<>>>>, <<15, <<1, 1, 1>>>>>>>>
      [] OTHER -> <<"edns", 1, 1, 512, <<>>>>

Rec(sec, name, kind, n1, n2, k, nrd, ttl, form) ==
    [sec |-> sec, name |-> name, kind |-> kind, n1 |-> n1, n2 |-> n2, k |-> k, nrd |-> nrd, ttl |-> ttl, form |-> form]
NoName == <<>>
RecU(sec, forms) ==
    {Rec(sec, n, "A", NoName, NoName, 1, c, t, f) : n \in Owners, c \in (IF "A" \in KindSel THEN {1, 2} ELSE {}), t \in TtlSel, f \in forms}
    \cup {Rec(sec, n, kd, tg, NoName, 1, 1, t, f) : n \in Owners, kd \in KindSel \cap {"NS", "RRSIG", "SRV"}, tg \in Targets, t \in TtlSel, f \in forms}
    \* signatures covering a second type (legacy SIG, type 24, and RRSIG): several per owner, one per covered type
    \cup {Rec(sec, n, kd, tg, NoName, k, 1, t, f) : n \in Owners, kd \in KindSel \cap {"SIG"}, k \in {1, 2}, tg \in Targets, t \in TtlSel, f \in forms}
    \cup {Rec(sec, n, "RRSIG", tg, NoName, 2, 1, t, f) : n \in Owners, x \in KindSel \cap {"SIG"}, tg \in Targets, t \in TtlSel, f \in forms}
    \* a type whose RDATA may be EMPTY (RDLENGTH 0 is not the same as an empty record set)
    \cup {Rec(sec, n, "NULL", NoName, NoName, k, 1, t, f) : n \in Owners, x \in KindSel \cap {"NULL"}, k \in {0, 3}, t \in TtlSel, f \in forms}
    \cup {Rec(sec, UName(1), "SOA", tg, UName(4), 7, 1, t, f) : tg \in (IF "SOA" \in KindSel THEN Targets ELSE {}), t \in TtlSel, f \in forms}
    \cup {Rec(sec, n, "TXT", NoName, NoName, len, c, t, f) : n \in Owners, len \in (IF "TXT" \in KindSel THEN TxtLens ELSE {}), c \in TxtCounts, t \in TtlSel, f \in forms}
BigU(sec) == {Rec(sec, UName(5), "BIG", NoName, NoName, len, 1, <<0, 300>>, "plain") : len \in BigLens}
FormsFor(op, sec) == IF op # OpUpdate \/ sec = 3 THEN {"plain"}
                     ELSE {f \in FormSel : FormSec(f) = sec}

H(e) == hist' = Append(hist, e)
Hdr == hist[1]
Recs == SelectSeq(hist, LAMBDA e : e.op = "rr")
NRecs == Len(Recs)
Zc == IF Hdr.opcode = OpUpdate THEN Hdr.zcls ELSE ClsIN
\* well-formed message: no two record sets IN THE OUTPUT of one section share owner (as a DNS name),
\* type and class (a record set that was rolled back may be followed by another one of the same owner)
Fresh(r) == LET rs == MkRRset(r, RfcCmp, Zc) IN
    \A i \in 1..Len(st.xs) : ~(st.xs[i].sec = r.sec /\ NameEqCI(st.xs[i].name, rs.name) /\ st.xs[i].type = rs.type
                                /\ st.xs[i].cls = rs.cls
                                \* signature record sets are distinguished by the type they cover as well
                                /\ (rs.type \in {TyRRSIG, 24} /\ rs.rds # <<>> /\ st.xs[i].items # <<>>
                                      => SubSeq(st.xs[i].items[1][2], 1, 2) = SubSeq(rs.rds[1][1][2], 1, 2)))

GInit ==
    \E op \in Opcodes, bits \in BitSel, rc \in RcodeSel, e \in EdnsSel, org \in OriginSel,
       id \in IdSel, pad \in PadSel, zc \in ZoneClsSel, mx \in MaxSel, oi \in OptIdx, pl \in PayloadSel, ts \in TsigSel, xf \in XfrSel :
      /\ (rc > 15 => e # "off") /\ (pad > 0 => e # "off") /\ (op # OpUpdate => zc = ClsIN) /\ (oi > 0 => e # "off") /\ (pl <= 65535 => e # "off") /\ (xf => op = OpQuery /\ ~org)
      /\ LET h == [op |-> "hdr", id |-> id, opcode |-> op, bits |-> bits, rcode |-> rc, origin |-> org,
                   edns |-> WithPayload(WithOption(EdnsOf(e, rc), oi), pl), pad |-> pad, zcls |-> zc, max |-> mx, tsig |-> ts, xfr |-> xf]
         IN hist = <<h>> /\ RInit(id, HdrFlags(h), mx)

GQuestion ==
    /\ Len(hist) <= (IF Hdr.opcode = OpUpdate THEN 1 ELSE QMax) /\ hist[Len(hist)].op \in {"hdr", "q"}
    /\ (TRUE \in QuestionSel \/ Hdr.opcode = OpUpdate)
    /\ \E q \in (IF Hdr.opcode = OpUpdate THEN {[name |-> UName(1), type |-> TySOA, cls |-> Hdr.zcls]}
                 ELSE {[name |-> n, type |-> TyA, cls |-> ClsIN] : n \in Owners \ (IF Hdr.origin THEN {UName(4)} ELSE {})}) :
         /\ \A i \in 1..Len(st.qs) : ~NameEqCI(st.qs[i].name, q.name)      \* distinct questions
         /\ AddQuestion(q) /\ H([op |-> "q", name |-> q.name, type |-> q.type, cls |-> q.cls])

GRec ==
    /\ NRecs < MaxRecs /\ hist[Len(hist)].op # "end"
    /\ (Hdr.opcode = OpUpdate => Len(hist) > 1)          \* an update needs its zone first
    /\ \E sec \in SecSel : \E r \in RecU(sec, FormsFor(Hdr.opcode, sec)) \cup (IF Hdr.opcode = OpUpdate THEN {} ELSE BigU(sec)) :
         /\ sec >= st.section /\ (Fresh(r) \/ Hdr.xfr)
         /\ (Hdr.xfr => sec = 1 /\ r.nrd = 1 /\ (NRecs = 0 => r.kind = "SOA"))   \* one RR per RRset, as in a transfer
         /\ (Hdr.origin => UName(4) \notin {r.name, r.n1, r.n2})   \* see notes/C03.md, O2
         /\ (Zc # ClsIN => r.kind \notin {"A", "SRV"})          \* class-specific RDATA layouts
         /\ AddRRset(sec, MkRRset(r, RfcCmp, Zc))
         /\ H([op |-> "rr"] @@ r)

\* a record set whose owner is one more label below the previous record set's owner: with compression every such
\* owner is "label + pointer to the previous owner", so decoding the k-th needs k pointer hops
GChild ==
    /\ NRecs < ChildMax /\ hist[Len(hist)].op # "end" /\ Hdr.opcode # OpUpdate
    /\ LET prev == IF NRecs = 0 THEN UName(1) ELSE Recs[NRecs].name
           r == Rec(1, <<<<99>>>> \o prev, "A", NoName, NoName, 1, 1, <<0, 300>>, "plain")
       IN /\ st.section <= 1 /\ AddRRset(1, MkRRset(r, RfcCmp, ClsIN)) /\ H([op |-> "rr"] @@ r)

GenTsig == MkTsig(<<<<107>>, lex>>, <<<<104, 109, 97, 99, 45, 115, 104, 97, 50, 53, 54>>>>, <<0, 0, 95, 94, 16, 0>>, 300,
                  Fill(32, 85), 4660, 0, <<>>)
GEnd ==
    /\ hist[Len(hist)].op # "end"
    /\ (Hdr.opcode = OpUpdate => Len(hist) > 1)
    /\ LET S1 == IF Hdr.edns[1] = "edns"
                  THEN FAddOpt(st, HdrOpt(Hdr), Hdr.pad, IF Hdr.pad > 0 THEN PlainSize(HdrOpt(Hdr)) + 4 ELSE 0, 0) ELSE st
           \* low-level signing: header first, then the TSIG record (refused whole if it does not fit the budget)
           S2 == IF Hdr.tsig THEN FAddTsig(FWriteHeader(S1), GenTsig, ~S1.padded) ELSE S1
       IN st' = S2
    /\ H([op |-> "end"])

GNext == GQuestion \/ GRec \/ GChild \/ GEnd
GSpec == GInit /\ [][GNext]_gvars
Emit == (hist[Len(hist)].op = "end") => PrintT("BEH " \o ToJson(hist))
=============================================================================
