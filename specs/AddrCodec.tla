------------------------------ MODULE AddrCodec ------------------------------
(* Address and special-name codecs (growth check X01): dns.ipv4, dns.ipv6, dns.inet,
   dns.reversename, dns.e164.  Written from RFC 4291 2.2 (text forms of IPv6 addresses),
   RFC 5952 4-5 (canonical text form), RFC 4007 11 (<address>%<zone_id>), RFC 1035 3.5 /
   RFC 3596 2.5 (reverse names), RFC 6116 3.2... 3.5 as quoted by the library's documentation
   (ENUM names) and the library's docstrings; NOT from the code.

   An address is a sequence of octets (4 or 16), a text a sequence of character codes, a
   name a sequence of labels (each a sequence of octets), absolute iff its last label is <<>>.
   Parsers return  Ok(v) = <<"ok", v>>,  Err = <<"err">>  or  Free(v) = <<"free", v>>:
   the documentation is silent (a refusal and the value v are both acceptable). *)
EXTENDS Integers, Sequences, FiniteSets

Ok(v) == <<"ok", v>>
Err == <<"err">>
Free(v) == <<"free", v>>
IsOk(r) == r[1] = "ok"
IsErr(r) == r[1] = "err"
Loose(r) == IF IsOk(r) THEN Free(r[2]) ELSE r

Colon == 58
Dot == 46
Percent == 37
Plus == 43
Zero == 48
IsDigit(c) == c >= 48 /\ c <= 57
IsHex(c) == IsDigit(c) \/ (c >= 97 /\ c <= 102) \/ (c >= 65 /\ c <= 70)
HexVal(c) == IF IsDigit(c) THEN c - 48 ELSE IF c >= 97 THEN c - 87 ELSE c - 55
HexChar(d) == IF d < 10 THEN 48 + d ELSE 87 + d            \* lower case (RFC 5952 4.3)
Lower(c) == IF c >= 65 /\ c <= 90 THEN c + 32 ELSE c
SetMax(S) == CHOOSE x \in S : \A y \in S : y <= x
SetMin(S) == CHOOSE x \in S : \A y \in S : x <= y
Has(s, c) == \E k \in 1..Len(s) : s[k] = c
Rev(s) == [k \in 1..Len(s) |-> s[Len(s) + 1 - k]]

RECURSIVE SplitFrom(_, _, _, _)
SplitFrom(s, sep, i, cur) ==
    IF i > Len(s) THEN <<cur>>
    ELSE IF s[i] = sep THEN <<cur>> \o SplitFrom(s, sep, i + 1, <<>>)
    ELSE SplitFrom(s, sep, i + 1, Append(cur, s[i]))
Split(s, sep) == SplitFrom(s, sep, 1, <<>>)          \* Len(Split(s)) = 1 + number of sep in s

RECURSIVE JoinFrom(_, _, _)
JoinFrom(ps, sep, i) == IF i > Len(ps) THEN <<>>
                        ELSE IF i = Len(ps) THEN ps[i]
                        ELSE ps[i] \o <<sep>> \o JoinFrom(ps, sep, i + 1)
Join(ps, sep) == JoinFrom(ps, sep, 1)

RECURSIVE Flatten(_, _)
Flatten(ps, i) == IF i > Len(ps) THEN <<>> ELSE ps[i] \o Flatten(ps, i + 1)

-----------------------------------------------------------------------------
(* IPv4: "dotted-decimal (#.#.#.#)" (RFC 1123 2.1): exactly four decimal numbers 0..255.
   Whether a number may carry leading zeros is not stated anywhere (and is read as octal
   by some parsers): Free with the DECIMAL reading.  The writer never produces them. *)
RECURSIVE DecValFrom(_, _, _)
DecValFrom(p, i, acc) == IF i > Len(p) THEN acc
                         ELSE IF acc > 255 THEN 256
                         ELSE DecValFrom(p, i + 1, acc * 10 + (p[i] - 48))
DecOctet(p) ==
    IF p = <<>> \/ \E k \in 1..Len(p) : ~IsDigit(p[k]) THEN Err
    ELSE LET v == DecValFrom(p, 1, 0)
         IN  IF v > 255 THEN Err
             ELSE IF Len(p) > 1 /\ p[1] = Zero THEN Free(v)
             ELSE Ok(v)
Dec(v) == IF v < 10 THEN <<48 + v>>
          ELSE IF v < 100 THEN <<48 + (v \div 10), 48 + (v % 10)>>
          ELSE <<48 + (v \div 100), 48 + ((v \div 10) % 10), 48 + (v % 10)>>

Ntoa4(a) == Dec(a[1]) \o <<Dot>> \o Dec(a[2]) \o <<Dot>> \o Dec(a[3]) \o <<Dot>> \o Dec(a[4])

(* combine four per-part verdicts *)
Quad(rs) == IF \E k \in 1..4 : IsErr(rs[k]) THEN Err
            ELSE LET a == <<rs[1][2], rs[2][2], rs[3][2], rs[4][2]>>
                 IN  IF \E k \in 1..4 : rs[k][1] = "free" THEN Free(a) ELSE Ok(a)
Aton4(t) == LET ps == Split(t, Dot)
            IN  IF Len(ps) # 4 THEN Err ELSE Quad([k \in 1..4 |-> DecOctet(ps[k])])

-----------------------------------------------------------------------------
(* IPv6 text -> address, RFC 4291 2.2:
   1. x:x:x:x:x:x:x:x, each x "one to four hexadecimal digits" (either case);
   2. "::" "indicates one or more groups of 16 bits of zeros" and "can only appear once";
   3. x:x:x:x:x:x:d.d.d.d, the d's being "the decimal values of the four low-order 8-bit
      pieces of the address (standard IPv4 representation)", also combined with form 2. *)
HexGroup(p) ==                                   \* -> Ok(<<hi, lo>>) / Err
    IF Len(p) \in 1..4 /\ \A k \in 1..Len(p) : IsHex(p[k])
    THEN LET d == [k \in 1..4 |-> IF k <= 4 - Len(p) THEN 0 ELSE HexVal(p[k - (4 - Len(p))])]
         IN  Ok(<<d[1] * 16 + d[2], d[3] * 16 + d[4]>>)
    ELSE Err
DoubleColons(t) == {i \in 1..Len(t) - 1 : t[i] = Colon /\ t[i + 1] = Colon}
Pieces(s) == IF s = <<>> THEN <<>> ELSE Split(s, Colon)
Zeros(n) == [k \in 1..n |-> 0]

Aton6(t) ==
    LET dc == DoubleColons(t) IN
    IF Cardinality(dc) > 1 THEN Err                                  \* ":::" counts twice
    ELSE
    LET has == dc # {}
        p == IF has THEN SetMin(dc) ELSE 0
        left == IF has THEN Pieces(SubSeq(t, 1, p - 1)) ELSE Pieces(t)
        right == IF has THEN Pieces(SubSeq(t, p + 2, Len(t))) ELSE <<>>
        (* the dotted quad is the LOW-ORDER 32 bits: only the last piece of the text *)
        tail == IF has THEN right ELSE left
        quadded == tail # <<>> /\ Has(tail[Len(tail)], Dot)
        q == IF quadded THEN Aton4(tail[Len(tail)]) ELSE Ok(<<>>)
        lhex == IF quadded /\ ~has THEN SubSeq(left, 1, Len(left) - 1) ELSE left
        rhex == IF quadded /\ has THEN SubSeq(right, 1, Len(right) - 1) ELSE right
        lg == [k \in 1..Len(lhex) |-> HexGroup(lhex[k])]
        rg == [k \in 1..Len(rhex) |-> HexGroup(rhex[k])]
        n == 2 * (Len(lg) + Len(rg)) + (IF quadded THEN 4 ELSE 0)    \* octets written out
    IN  IF IsErr(q) \/ (\E k \in 1..Len(lg) : IsErr(lg[k])) \/ (\E k \in 1..Len(rg) : IsErr(rg[k])) THEN Err
        ELSE IF has /\ n > 14 THEN Err                               \* "::" is at least one group
        ELSE IF ~has /\ n # 16 THEN Err
        ELSE LET a == Flatten([k \in 1..Len(lg) |-> lg[k][2]], 1) \o Zeros(16 - n)
                      \o Flatten([k \in 1..Len(rg) |-> rg[k][2]], 1) \o q[2]
             IN  IF q[1] = "free" THEN Free(a) ELSE Ok(a)

(* RFC 4007 11: <address>%<zone_id>.  dns.ipv6.inet_aton: "ignore_scope: If True, a scope
   is ignored; if False (the default), a scope is an error."  An empty zone id or a second
   "%" is not described anywhere: Free. *)
PercentAt(t) == {i \in 1..Len(t) : t[i] = Percent}
ScopeStart(t) == SetMin(PercentAt(t))
AddrPart(t) == IF PercentAt(t) = {} THEN t ELSE SubSeq(t, 1, ScopeStart(t) - 1)
ScopePart(t) == IF PercentAt(t) = {} THEN <<>> ELSE SubSeq(t, ScopeStart(t) + 1, Len(t))
Aton6S(t, ignore) ==
    IF PercentAt(t) = {} THEN Aton6(t)
    ELSE IF ~ignore THEN Err
    ELSE IF Cardinality(PercentAt(t)) = 1 /\ ScopePart(t) # <<>> THEN Aton6(AddrPart(t))
    ELSE Loose(Aton6(AddrPart(t)))

-----------------------------------------------------------------------------
(* address -> canonical text, RFC 5952 section 4 *)
Grp(a) == [i \in 1..8 |-> a[2 * i - 1] * 256 + a[2 * i]]
HexOf(g) ==                                      \* 4.1 no leading zeros, 4.3 lower case
    LET d == <<g \div 4096, (g \div 256) % 16, (g \div 16) % 16, g % 16>>
        f == IF g = 0 THEN 4 ELSE SetMin({k \in 1..4 : d[k] # 0})
    IN  [k \in 1..(5 - f) |-> HexChar(d[f + k - 1])]
ZeroRun(g, i, n) == n >= 1 /\ i + n - 1 <= 8 /\ \A k \in i..(i + n - 1) : g[k] = 0
BestLen(g) == LET S == {n \in 1..8 : \E i \in 1..8 : ZeroRun(g, i, n)}
              IN  IF S = {} THEN 0 ELSE SetMax(S)                  \* 4.2.3 the longest run
BestStart(g) == SetMin({i \in 1..8 : ZeroRun(g, i, BestLen(g))})   \* 4.2.3 the first on a tie
HexTexts(g, lo, hi) == [k \in 1..(hi - lo + 1) |-> HexOf(g[lo + k - 1])]
Hex5952(a) ==
    LET g == Grp(a)
        n == BestLen(g)
    IN  IF n < 2 THEN Join(HexTexts(g, 1, 8), Colon)                \* 4.2.2 never one field
        ELSE LET s == BestStart(g)
             IN  Join(HexTexts(g, 1, s - 1), Colon) \o <<Colon, Colon>>
                 \o Join(HexTexts(g, s + n, 8), Colon)

(* RFC 5952 5: mixed notation "is RECOMMENDED" when the address "can be distinguished as
   having IPv4 addresses embedded in the lower 32 bits solely from the 128 bits".  The
   embedded kinds RFC 4291 defines: 2.5.5.1 IPv4-compatible (::/96), 2.5.5.2 IPv4-mapped
   (::ffff:0:0/96); :: and ::1 are the unspecified / loopback addresses (2.5.2, 2.5.3).
   For an embedded address either canonical spelling is accepted (free choice). *)
Embedded(a) == LET g == Grp(a)
               IN  /\ \A k \in 1..5 : g[k] = 0
                   /\ g[6] \in {0, 65535}
                   /\ ~(g[6] = 0 /\ g[7] = 0 /\ g[8] \in {0, 1})
IsMapped(a) == Len(a) = 16 /\ SubSeq(a, 1, 12) = Zeros(10) \o <<255, 255>>
Low32(a) == SubSeq(a, 13, 16)
Mixed5952(a) == <<Colon, Colon>> \o (IF Grp(a)[6] = 0 THEN <<>> ELSE HexOf(Grp(a)[6]) \o <<Colon>>)
                \o Ntoa4(Low32(a))
Canon6(a) == {Hex5952(a)} \cup (IF Embedded(a) THEN {Mixed5952(a)} ELSE {})

(* RFC 5952 section 4 as a PREDICATE on a text (independent of the constructor above) *)
IsCanonical5952(t) ==
    LET dc == DoubleColons(t)
        has == dc # {}
        p == IF has THEN SetMin(dc) ELSE 0
        left == IF has THEN Pieces(SubSeq(t, 1, p - 1)) ELSE Pieces(t)
        right == IF has THEN Pieces(SubSeq(t, p + 2, Len(t))) ELSE <<>>
        c == 8 - Len(left) - Len(right)                              \* fields "::" stands for
        Z(ps, i, n) == i + n - 1 <= Len(ps) /\ \A k \in i..(i + n - 1) : ps[k] = <<Zero>>
        LongestZ(ps) == LET S == {n \in 1..8 : \E i \in 1..8 : Z(ps, i, n)}
                        IN  IF S = {} THEN 0 ELSE SetMax(S)
    IN  /\ IsOk(Aton6(t)) /\ ~Has(t, Dot)
        /\ \A k \in 1..Len(t) : ~(t[k] >= 65 /\ t[k] <= 70)                        \* 4.3
        /\ \A ps \in {left, right} : \A k \in 1..Len(ps) : Len(ps[k]) > 1 => ps[k][1] # Zero  \* 4.1
        /\ has => /\ c >= 2                                                        \* 4.2.2
                  /\ (left # <<>> => left[Len(left)] # <<Zero>>)                   \* 4.2.1
                  /\ (right # <<>> => right[1] # <<Zero>>)
                  /\ LongestZ(left) < c /\ LongestZ(right) <= c                    \* 4.2.3
        /\ ~has => LongestZ(left) < 2                                              \* 4.2.1
=============================================================================
