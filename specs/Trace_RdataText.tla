--------------------------- MODULE Trace_RdataText ---------------------------
(* Trace validation of the per-type layer of C05.  A trace is one record:
     {tid, ty, kind, ev: [src, rt*]}  or  {tid, ty, kind, ev: [src, gen*]}   (src.part = "rt" / "gen")
   src  how the record was accepted: from wire (oin = origin given to from_wire, vec =
        the abstract value vector, w0 = its encoding under the origin) or from text
        (acc, enc / w0 = can it be encoded)
   rt   to_text under (origin config oc, style st) then from_text under oc: did producing
        text raise, did parsing raise, the encoding of the parsed record, equality flags
        (eq0: with the original object, eqa / eqr / eqs: with the value decoded from w0
        absolute / relativized to the origin / to the sub-origin), wire1 (wire1s) = its encoding
        completed with the origin (sub-origin), and whether the parsed record can produce text again
   gen  to_generic().to_text() parsed as the record's own type under gc
   Hard clauses = the statements of C05:
     TextOk       producing text never fails for a record accepted from text or wire
     EncodeOk     a record accepted from text can be encoded to wire
     ParseOk / WireEq / Equal    the text parses back to an equal record
     GenericParse / GenericWire / GenericEqual   the same for the RFC 3597 generic form
     TextAgain    the parsed-back record (accepted from text) can produce text
   Values accepted from wire that have no master-file form (RdTextUniverse!Lenient,
   NoTextForm) are held to TextOk only. *)
EXTENDS RdataText, VTrace

VARIABLES t, l
tvars == <<rvars, t, l>>
e == Ev(t)[l]
Ty == Log[t].ty
Adv == l' = l + 1 /\ t' = t

TraceInit == RegInit /\ t \in 1..NTraces /\ l = 1 /\ RInit

StyleIds == {s.id : s \in Styles}
RtPairs(tt) == {<<Ev(tt)[i].oc, Ev(tt)[i].st>> : i \in {j \in 1..Len(Ev(tt)) : Ev(tt)[j].op = "rt"}}

TSrcWire ==
    /\ e.op = "src" /\ e.via = "wire"
    /\ IF ~e.acc THEN UNCHANGED rvars
       ELSE /\ AcceptWire(e.w0, e.oin, Ty \in NoTextForm \/ Lenient(Ty, e.vec))
            \* every style of the declared lossless set was exercised on this record
            /\ Check(t, l, "StyleCoverage", e.part = "rt" => \A s \in StyleIds : <<"plain", s>> \in RtPairs(t))
            /\ Check(t, l, "GenericCoverage", e.part = "gen" => \E i \in 1..Len(Ev(t)) : Ev(t)[i].op = "gen")
    /\ Adv
TSrcText ==
    /\ e.op = "src" /\ e.via = "text"
    /\ IF ~e.acc THEN UNCHANGED rvars
       ELSE /\ Check(t, l, "EncodeOk", e.enc = "ok")
            /\ AcceptText(e.w0, e.trel)
    /\ Adv

\* the equality flag that must hold for a parsed record of base r: equal to the same RDATA decoded
\* absolute (eqa), relativized to the origin (eqr) or to the sub-origin (eqs); the original object
\* itself (eq0) also qualifies when the base is unchanged
RefEq(r) == IF r = "abs" THEN e.eqa ELSE IF r = "org" THEN e.eqr ELSE e.eqs
EqFlag(r) == IF r = rel THEN e.eq0 \/ RefEq(r) ELSE RefEq(r)
\* the encoding of the parsed record, completed with the origin of ITS base
\* (wire1s = under the sub-origin is logged for the configurations that can yield base "sub")
WireOf(r) == IF r = "sub" THEN e.wire1s ELSE e.wire1

Parsed(pfx) ==      \* clauses about a record obtained from text (it was accepted from text)
    /\ Check(t, l, "EncodeOk", e.enc = "ok")
    /\ Check(t, l, "TextAgain", e.t2 = "ok")
TRt ==
    /\ e.op = "rt"
    /\ Check(t, l, "ConfigDeclared", (\E c \in OrgConfigs : c.id = e.oc) /\ e.st \in StyleIds)
    /\ LET oc == CHOOSE c \in OrgConfigs : c.id = e.oc IN
       /\ Check(t, l, "ConfigApplicable", Applicable(oc, rel))
       /\ RoundTrip(oc, e.st)
       /\ Check(t, l, "TextOk", e.text = "ok")
       /\ IF lenient
          THEN (IF e.parse = "ok" THEN Parsed("") ELSE TRUE)
          ELSE /\ Check(t, l, "ParseOk", e.parse = "ok")
               /\ Parsed("")
               /\ Check(t, l, "WireEq", WireOf(obs'.rel) = obs'.wire)
               /\ Check(t, l, "Equal", EqFlag(obs'.rel))
    /\ Adv
TGen ==
    /\ e.op = "gen"
    /\ Check(t, l, "ConfigDeclared", \E c \in GenConfigs : c.id = e.gc)
    /\ LET gc == CHOOSE c \in GenConfigs : c.id = e.gc IN
       /\ Generic(gc)
       /\ Check(t, l, "GenericText", e.text = "ok")
       /\ IF Ty \in NoTextForm THEN TRUE
          ELSE /\ Check(t, l, "GenericParse", e.parse = "ok")
               /\ Check(t, l, "GenericEncode", e.enc = "ok")
               /\ Check(t, l, "GenericWire", WireOf(obs'.rel) = obs'.wire)
               /\ Check(t, l, "GenericEqual", EqFlag(obs'.rel))
               /\ IF lenient THEN TRUE ELSE Check(t, l, "TextAgain", e.t2 = "ok")
    /\ Adv

\* ---- fresh-interpreter scenario (the registry of implementations is process-global: the order of
\* first lookups of a type - in a class without implementation first, or in its home class first -
\* is an input; the clauses are the same)
\* the RDATA written in the generic form in a class that has no implementation for the type
TForeign ==
    /\ e.op = "foreign"
    /\ Check(t, l, "GenericParse", e.parse = "ok")
    /\ Check(t, l, "GenericWire", e.wire1 = e.w)
    /\ Check(t, l, "ForeignFromWire", e.wirew = e.w)
    /\ IF Ty \in NoTextForm THEN TRUE
       ELSE Check(t, l, "TextAgain", e.t2 = "ok") /\ Check(t, l, "WireEq", e.wire2 = e.w)
    /\ UNCHANGED rvars /\ Adv
\* a text that is known to denote value w (to_text() of the record decoded from w, produced in another
\* process) parses, encodes to w and can produce text
TKnownText ==
    /\ e.op = "ktext"
    /\ IF Ty \in NoTextForm \/ Lenient(Ty, e.vec) THEN TRUE
       ELSE /\ Check(t, l, "ParseOk", e.parse = "ok")
            /\ Check(t, l, "EncodeOk", e.enc = "ok")
            /\ Check(t, l, "WireEq", e.wire1 = e.w)
            /\ Check(t, l, "TextAgain", e.t2 = "ok")
    /\ UNCHANGED rvars /\ Adv

TraceNext == /\ l <= Len(Ev(t))
             /\ (TSrcWire \/ TSrcText \/ TRt \/ TGen \/ TForeign \/ TKnownText)
Accepted == Accepting(t, l)
=============================================================================
