---------------------------- MODULE Gen_NameDict ----------------------------
(* NameDict plus a history variable: a behaviour is one sequence of calls (the
   environment's choices only: which call, which key, how the key is spelled, which
   value).  Every reachable history with at least MinOps calls is printed as JSON; the
   driver replays it on dns.namedict.NameDict.  No expected results are emitted. *)
EXTENDS MC_NameDict, Json

CONSTANTS Ops,        \* subset of {"set","setbad","del","pop","setdefault","clear","get","has","match"}
          Spellings,  \* subset of {"l","u"}: key handed over in lower / upper case
          InitMaps,   \* set of mappings given to the constructor
          MinOps      \* print histories with at least that many calls
VARIABLES hist, fin
gvars == <<vars, hist, fin>>

GenInitEmpty == {Empty}
M1 == (<<"a", "">> :> 1) @@ (<<"z", "x", "a", "">> :> 2)
M2 == (KRoot :> 1) @@ (KEmpty :> 2) @@ (<<"x", "a", "">> :> 1) @@ (<<"y", "a", "">> :> 2)
M3 == (<<"x", "a">> :> 1) @@ (<<"b", "">> :> 2)
GenInitMaps == {Empty, M1, M2, M3}
GenInitOne == {M2}

H(o, k, sp, v) == hist' = Append(hist, [op |-> o, k |-> k, sp |-> sp, v |-> v])
Pairs(m) == {<<k, m[k]>> : k \in DOMAIN m}

GInit == /\ d \in InitMaps /\ ever = MaxLen(DOMAIN d) /\ nops = 0 /\ last = "init" /\ res = "ok" /\ val = NoVal
         /\ hist = <<[op |-> "init", m |-> Pairs(d)]>>
         /\ fin = FALSE
         /\ PrintT("PRB " \o ToJson(Queries))

GStep ==
    /\ nops < MaxOps
    /\ \/ \E k \in Keys, v \in Vals, sp \in Spellings :
            \/ "set" \in Ops /\ Set(k, v) /\ H("set", k, sp, v)
            \/ "setdefault" \in Ops /\ SetDefault(k, v) /\ H("setdefault", k, sp, v)
            \/ "pop" \in Ops /\ Pop(k, v) /\ H("pop", k, sp, v)
       \/ \E k \in Keys, sp \in Spellings :
            \/ "del" \in Ops /\ Del(k) /\ H("del", k, sp, 0)
            \/ "get" \in Ops /\ Get(k) /\ H("get", k, sp, 0)
            \/ "has" \in Ops /\ Has(k) /\ H("has", k, sp, 0)
       \/ "setbad" \in Ops /\ SetBad /\ H("setbad", <<>>, "l", 0)
       \/ "clear" \in Ops /\ Clear /\ H("clear", <<>>, "l", 0)
       \/ \E q \in Queries, sp \in Spellings : "match" \in Ops /\ Match(q) /\ H("match", q, sp, 0)

\* a history is printed from its own single-successor "fin" step (TLC's simulator evaluates
\* the invariant on every successor of the current state, chosen or not)
GNext == \/ ~fin /\ GStep /\ UNCHANGED fin
         \/ ~fin /\ nops >= MinOps /\ fin' = TRUE /\ UNCHANGED <<vars, hist>>
Emit == fin => PrintT("BEH " \o ToJson(hist))
=============================================================================
