---------------------------- MODULE MC_ValueObject ----------------------------
EXTENDS ValueObject, ValueObjectU
MCImmutableKinds == {"int", "bytes", "str", "bool", "float", "NoneType", "enum", "Name", "tuple", "frozenset", "Dict"}
=============================================================================
