INIT Init
NEXT Next
CONSTANTS
  Alphabet <- ClassAlphabet
  MaxLen = 3
  MaxUnget = 1
  DialectSet <- LibDialects
INVARIANTS TypeOK DepthNonNeg TokenShape MachineIsFunction
PROPERTIES DepthSteps LineMonotone EolOutsideParens FailedStays OnlyOnRequest
CHECK_DEADLOCK FALSE
