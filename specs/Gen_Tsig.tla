------------------------------ MODULE Gen_Tsig ------------------------------
(* Tsig plus a history variable: every behaviour is one exchange script (the environment's
   choices only: kind, key, algorithm, fudge, error field, which envelopes are signed, the
   faults and the clock skew).  Expected verdicts are NOT emitted: the oracle is Trace_Tsig. *)
EXTENDS Tsig, Json

CONSTANTS Lens,        \* stream lengths
          TotalFaults, \* fault actions per exchange
          Regions,     \* tamper regions used
          NLens,       \* renderings of the one message object of a query / response exchange
          Renders      \* subset of {"plain", "edns", "pad", "trunc"}: how the signer's messages are rendered
                       \* (EDNS OPT before the TSIG, padding, content cut to a size limit with TC set); the
                       \* MAC must be over what is finally sent whatever the option
VARIABLES hist, len, nf
gvars == <<vars, hist, len, nf>>
AllRegions == SignedRegions \cup UnsignedRegions
GSkews == {-3, -2, -1, 1, 2, 3}
GSkewsBig == {-301, -300, -299, 299, 300, 301}

Hh(e) == hist' = Append(hist, e)
GInit == /\ Init
         /\ len \in (IF kind = "stream" THEN Lens ELSE NLens)
         /\ nf = 0
         /\ \E rd \in Renders :
              hist = <<[op |-> "start", kind |-> kind, alg |-> skey.alg, hash |-> HashOf(skey.alg), bits |-> MacBits(skey.alg),
                        minbits |-> MinMacBits(skey.alg), key |-> skey.name, fudge |-> fudge, error |-> serror, len |-> len,
                        render |-> rd]>>
Fault == nf < TotalFaults /\ nf' = nf + 1
GSend == \E s \in BOOLEAN : /\ sent < len /\ (sent + 1 = len => s) /\ Send(s)
                            /\ Hh([op |-> "send", signed |-> s]) /\ UNCHANGED <<len, nf>>
GResign == \E md \in ResignMods : /\ sent < len /\ Resign(md)
                                  /\ Hh([op |-> "resign", mod |-> md]) /\ UNCHANGED <<len, nf>>
GTamper == \E r \in Regions : Tamper(r) /\ Fault /\ Hh([op |-> "tamper", region |-> r]) /\ UNCHANGED len
GBenign == \E w \in {"benign.id", "benign.owner", "benign.alg"} : Benign(w) /\ Fault /\ Hh([op |-> "benign", what |-> w]) /\ UNCHANGED len
GMove == MoveTsig /\ Fault /\ Hh([op |-> "move"]) /\ UNCHANGED len
GStrip == StripTsig /\ Fault /\ Hh([op |-> "strip"]) /\ UNCHANGED len
GConfig == \E w \in {"wrongkey", "wrongname", "wrongalg", "wrongreqmac", "noreqmac"} :
              ConfigFault(w) /\ Fault /\ Hh([op |-> "cfault", what |-> w]) /\ UNCHANGED len
GSkew == \E d \in Skews : ClockSkew(d) /\ Fault /\ Hh([op |-> "skew", d |-> d]) /\ UNCHANGED len
GDeliver == Deliver /\ Hh([op |-> "deliver"]) /\ UNCHANGED <<len, nf>>
GNext == GSend \/ GResign \/ GTamper \/ GBenign \/ GMove \/ GStrip \/ GConfig \/ GSkew \/ GDeliver
Done == dead \/ (sent = len /\ net = <<>>)
Emit == Done => PrintT("BEH " \o ToJson(hist))
=============================================================================
