------------------------------ MODULE ValueObjectU ------------------------------
(* The record universe of C07 part 2: a schema (RDATA layout in wire order, from the
   defining RFC of each type) for a representative set of types with embedded names,
   plus A and TXT as controls; every slot has a few alternatives. *)
EXTENDS Integers, Sequences, FiniteSets

RFC4034LowerTypes ==   \* RFC 4034 6.2 item 3 minus NSEC (RFC 6840 5.1); HINFO/TXT hold no names
    {"NS", "MD", "MF", "CNAME", "SOA", "MB", "MG", "MR", "PTR", "MINFO", "MX", "RP", "AFSDB", "RT", "SIG",
     "PX", "NXT", "NAPTR", "KX", "SRV", "DNAME", "A6", "RRSIG"}

ex == <<101, 120, 97, 109, 112, 108, 101>>     \* "example"
EX == <<69, 88, 65, 77, 80, 76, 69>>           \* "EXAMPLE"
nA == <<<<97>>, ex>>      \* a.example.
nAU == <<<<65>>, EX>>     \* A.EXAMPLE.
nZ == <<<<122>>, ex>>     \* z.example.
nZU == <<<<90>>, ex>>     \* Z.example.   (raw 'Z' < 'a', canonical 'z' > 'a')
Names4 == {nA, nAU, nZ, nZU}
Names2 == {nA, nAU}
Names3 == {nA, nAU, nZU}
nB == <<<<98>>>>                                   \* b.
nMix == <<<<97>>, <<69, 120, 97, 109, 112, 108, 101>>>>  \* a.Example.
Names6 == {nA, nAU, nZ, nZU, nB, nMix}

N(S) == {<<"n", n>> : n \in S}
Bv(S) == {<<"b", b>> : b \in S}
Pref == Bv({<<0, 10>>, <<1, 0>>})
One(b) == Bv({b})

RECURSIVE Prod(_)
Prod(slots) == IF slots = <<>> THEN {<<>>} ELSE {<<h>> \o t : h \in Head(slots), t \in Prod(Tail(slots))}

Schema(ty, NS1, NS2) ==      \* NS1: names of single-name types, NS2: names per slot of two-name types
    CASE ty \in {"NS", "CNAME", "PTR", "DNAME", "NSAP-PTR"} -> <<N(NS1)>>
      [] ty \in {"MX", "AFSDB", "RT", "KX", "LP"} -> <<Pref, N(NS1)>>
      [] ty = "SOA" -> <<N(NS2), N(NS2), One(<<0, 0, 0, 1, 0, 0, 14, 16, 0, 0, 2, 88, 0, 1, 81, 128, 0, 0, 1, 44>>)>>
      [] ty = "RP" -> <<N(NS2), N(NS2)>>
      [] ty = "PX" -> <<One(<<0, 10>>), N(NS2), N(NS2)>>
      [] ty = "SRV" -> <<One(<<0, 1, 0, 2, 0, 80>>), N(NS1)>>
      [] ty = "NAPTR" -> <<One(<<0, 1, 0, 2, 1, 85, 3, 83, 73, 80, 0>>), N(NS1)>>
      [] ty \in {"RRSIG", "SIG"} -> <<One(<<0, 1, 8, 2, 0, 0, 1, 44, 113, 8, 89, 0, 94, 11, 225, 0, 3, 233>>), N(NS1),
                                      Bv({<<1, 2, 3>>, <<1, 2, 3, 0>>})>>
      [] ty = "NSEC" -> <<N(NS1), One(<<0, 1, 64>>)>>
      [] ty \in {"SVCB", "HTTPS"} -> <<One(<<0, 1>>), N(NS1)>>
      [] ty = "IPSECKEY" -> <<One(<<10, 3, 2>>), N(NS1), One(<<1, 2, 3>>)>>
      [] ty = "AMTRELAY" -> <<One(<<10, 3>>), N(NS1)>>
      [] ty = "HIP" -> <<One(<<2, 2, 0, 2, 1, 2, 3, 4>>), N(NS1)>>
      [] ty = "DSYNC" -> <<One(<<0, 59, 1, 0, 53>>), N(NS1)>>
      [] ty = "A" -> <<Bv({<<10, 0, 0, 1>>, <<10, 0, 0, 2>>, <<9, 255, 0, 1>>})>>
      [] ty = "TXT" -> <<Bv({<<1, 97>>, <<1, 65>>, <<1, 97, 0>>, <<2, 97, 0>>})>>

Types == {"NS", "CNAME", "PTR", "DNAME", "NSAP-PTR", "MX", "AFSDB", "RT", "KX", "LP", "SOA", "RP", "PX", "SRV", "NAPTR",
          "RRSIG", "SIG", "NSEC", "SVCB", "HTTPS", "IPSECKEY", "AMTRELAY", "HIP", "DSYNC", "A", "TXT"}
Records(cls, ty, NS1, NS2) == {[cls |-> cls, ty |-> ty, f |-> f] : f \in Prod(Schema(ty, NS1, NS2))}
Universe == UNION {Records("IN", ty, Names4, Names2) : ty \in Types}
SmallUniverse == UNION {Records("IN", ty, Names3, Names2) : ty \in {"MX", "LP", "SOA", "RRSIG", "NSEC", "TXT", "A"}}
                   \cup Records("CH", "MX", Names2, Names2)
=============================================================================
