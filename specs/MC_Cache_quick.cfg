SPECIFICATION Spec
CONSTANTS
  Keys = {"k1", "k2", "k3"}
  Vals = {1, 2}
  TTLs = {1, 3}
  Sizes = {1, 2, 3}
  Steps = {1, 2, 4}
  Kinds = {"plain", "lru"}
  Depth = 6
CONSTRAINT Bound
INVARIANT TypeOK
INVARIANT LruBound
INVARIANT OrderIsData
INVARIANT CountersAccount
PROPERTY NeverStale
PROPERTY EvictsLruFirst
PROPERTY FreshHits
CHECK_DEADLOCK FALSE
