SPECIFICATION Spec
CONSTANTS
  MaxLabel = 63
  MaxWire = 255
  KLabel = 4
  KTwo = 2
  KText = 5
  KWire = 1
  VAlpha = {65}
  BigK = {1}
  BigFill = {255}
  Modes = {"parse", "write"}
INVARIANT TypeOK
INVARIANT FoldAgrees
INVARIANT AcceptedIsValid
INVARIANT BadEscapeRefused
INVARIANT TextRoundTrip
INVARIANT OmitRoundTrip
INVARIANT TokRoundTrip
INVARIANT TextIsPrintable
INVARIANT EscapifyExact
PROPERTY Progress
CHECK_DEADLOCK FALSE
