INIT TraceInit
NEXT TraceNext
CONSTANTS
  Strict = FALSE
  ForeignDigits = {1633}
CONSTRAINT Accepted
POSTCONDITION Post
CHECK_DEADLOCK FALSE
