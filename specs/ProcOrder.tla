------------------------------ MODULE ProcOrder ------------------------------
(* X03b - Rdataset.processing_order(), a NONDETERMINISTIC specification: for an rdataset
   it defines the SET of allowed output sequences.  Sources:

   dns.rdataset.Rdataset.processing_order: "Return rdatas in a valid processing order
     according to the type's specification.  For example, MX records are in preference
     order from lowest to highest preferences, with items of the same preference shuffled.
     For types that do not define a processing order, the rdatas are simply shuffled."
   RFC 5321 s5.1 (MX): "lower numbers are more preferred than higher ones.  If there are
     multiple destinations with the same preference ... the sender-SMTP MUST randomize them"
   RFC 2782 (SRV; RFC 7553 s4.3/4.4 adopts the same for URI): "A client MUST attempt to
     contact the target host with the lowest-numbered priority it can reach; target hosts
     with the same priority SHOULD be tried in an order defined by the weight field."
     "Larger weights SHOULD be given a proportionately higher probability of being
     selected."  "In the presence of records containing weights greater than 0, records
     with weight 0 should have a very small chance of being selected."  Selection
     algorithm: "arrange all SRV RRs (that have not been ordered yet) in any order, except
     that all those with weight 0 are placed at the beginning of the list.  Compute the
     sum of the weights of those RRs, and with each RR associate the running sum in the
     selected order.  Then choose a uniform random number between 0 and the sum computed
     (inclusive), and select the RR whose running sum value is the first in the selected
     order which is greater than or equal to the random number selected."
   RFC 3403 s4.1 (NAPTR): ORDER "specif[ies] the order in which the NAPTR records MUST be
     processed ... from lowest to highest"; PREFERENCE orders records "with equal Order
     values", lower first.
   RFC 9460 s2.4.1 (SVCB/HTTPS): SvcPriority is "The priority of this record (relative to
     others, with lower values preferred)"; "When receiving an RRset containing multiple SVCB
     records with the same SvcPriority value, clients SHOULD apply a random shuffle within a
     priority level to the records before using them".
   (RFC sentences written down without network access: wording may differ in detail.)

   A record is [p |-> <<a, b>>, w |-> weight]; p is compared lexicographically (a = NAPTR
   order, 0 for every other type; b = preference / priority).  kind:
     "priority" : ascending p, any order among equal p            (MX KX RT PX NAPTR SVCB HTTPS)
     "weighted" : ascending p, weighted random selection inside   (SRV URI)
     "shuffle"  : any permutation                                  (every other type)
   Because a zero-weight record can be selected (random number 0) and every positive one
   can, the ALLOWED set of "weighted" equals that of "priority" (theorem RfcSelectsAny);
   weights only shape the probabilities. *)
EXTENDS Integers, Sequences, FiniteSets, TLC

CONSTANTS RdSets    \* universe (model checking): set of [kind |-> .., recs |-> <<record, ...>>]

VARIABLES kind, recs, rem, out, phase
vars == <<kind, recs, rem, out, phase>>

Ids(rs) == 1..Len(rs)
PLeq(p, q) == p[1] < q[1] \/ (p[1] = q[1] /\ p[2] <= q[2])
Lowest(rs, R) == {r \in R : \A s \in R : PLeq(rs[r].p, rs[s].p)}
\* may record r be taken next when the records R are still unordered?
Eligible(kd, rs, r, R) == r \in R /\ (kd = "shuffle" \/ r \in Lowest(rs, R))

Perms(S) == {f \in [1..Cardinality(S) -> S] : \A i, j \in 1..Cardinality(S) : i # j => f[i] # f[j]}
\* declarative: the allowed outputs
Allowed(kd, rs) == {o \in Perms(Ids(rs)) :
                      kd = "shuffle" \/ \A i, j \in 1..Len(rs) : i < j => PLeq(rs[o[i]].p, rs[o[j]].p)}
\* operational (cheap, used by trace validation): every element was eligible when it was taken
Taken(o, i) == {o[j] : j \in 1..(i - 1)}
IsAllowed(kd, rs, o) == /\ Len(o) = Len(rs)
                        /\ \A i \in 1..Len(o) : Eligible(kd, rs, o[i], Ids(rs) \ Taken(o, i))
IsPermutation(rs, o) == Len(o) = Len(rs) /\ {o[i] : i \in 1..Len(o)} = Ids(rs)

(* ------------------------------------------------ RFC 2782 selection, literally *)
RECURSIVE Running(_, _, _)
Running(rs, f, i) == IF i = 0 THEN 0 ELSE Running(rs, f, i - 1) + rs[f[i]].w
ZeroFirst(rs, f) == \A i, j \in DOMAIN f : (rs[f[i]].w = 0 /\ rs[f[j]].w > 0) => i < j
RfcSelectable(rs, L) ==
    {f[CHOOSE i \in DOMAIN f : Running(rs, f, i) >= rnd /\ \A j \in 1..(i - 1) : Running(rs, f, j) < rnd] :
        f \in {g \in Perms(L) : ZeroFirst(rs, g)}, rnd \in 0..Running(rs, CHOOSE g \in Perms(L) : TRUE, Cardinality(L))}
\* every record of the lowest priority class can be the next one selected
RfcSelectsAny == \A x \in RdSets : \A L \in SUBSET Ids(x.recs) : L # {} => RfcSelectable(x.recs, L) = L

(* ------------------------------------------------ the selection process *)
Init == /\ \E x \in RdSets : kind = x.kind /\ recs = x.recs
        /\ rem = Ids(recs) /\ out = <<>> /\ phase = IF Len(recs) = 0 THEN "done" ELSE "run"
Pick(r) == /\ phase = "run" /\ Eligible(kind, recs, r, rem)
           /\ out' = Append(out, r) /\ rem' = rem \ {r}
           /\ phase' = IF rem' = {} THEN "done" ELSE "run"
           /\ UNCHANGED <<kind, recs>>
Next == \E r \in rem : Pick(r)
Spec == Init /\ [][Next]_vars

\* one call of processing_order() as a single step (what a trace records)
Order(o) == o \in Allowed(kind, recs)

(* ------------------------------------------------ properties *)
RECURSIVE Fact(_)
Fact(n) == IF n <= 1 THEN 1 ELSE n * Fact(n - 1)
RECURSIVE Prod(_, _)
Prod(f, S) == IF S = {} THEN 1 ELSE LET x == CHOOSE x \in S : TRUE IN f[x] * Prod(f, S \ {x})
Classes(rs) == {rs[i].p : i \in Ids(rs)}
ClassSize(rs) == [c \in Classes(rs) |-> Cardinality({i \in Ids(rs) : rs[i].p = c})]
\* number of allowed orders: n! for shuffle, product of the factorials of the class sizes otherwise
NAllowed(kd, rs) == IF kd = "shuffle" THEN Fact(Len(rs))
                    ELSE Prod([c \in Classes(rs) |-> Fact(ClassSize(rs)[c])], Classes(rs))

PrefixOk == \A i \in 1..Len(out) : Eligible(kind, recs, out[i], Ids(recs) \ Taken(out, i))
DoneAllowed == /\ phase = "done" <=> rem = {}
               /\ phase = "done" => out \in Allowed(kind, recs) /\ IsAllowed(kind, recs, out)
\* the declarative set, the operational predicate and the count agree on the whole universe
DefinitionsAgree == \A x \in RdSets :
    /\ \A o \in Perms(Ids(x.recs)) : (o \in Allowed(x.kind, x.recs)) <=> IsAllowed(x.kind, x.recs, o)
    /\ Cardinality(Allowed(x.kind, x.recs)) = NAllowed(x.kind, x.recs)
    /\ Allowed(x.kind, x.recs) # {}
\* weighted and priority rdatasets with the same records have the same allowed set
WeightsDontRestrict == \A x \in RdSets : Allowed("weighted", x.recs) = Allowed("priority", x.recs)
=============================================================================
