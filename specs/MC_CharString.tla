---------------------------- MODULE MC_CharString ----------------------------
(* The laws of the escape layer, for every octet string of length <= N over the octet
   classes: text produced for a character-string, put between quotes, tokenized and
   un-escaped with the octet reading gives the octets back; the code-point reading
   does so exactly for ASCII strings. *)
EXTENDS RdTokenizer, C05Universe
CONSTANT N
VARIABLE s
\* the strings are grown one octet at a time so that TLC's workers share the evaluation
Octs == {EscOctets[i] : i \in 1..Len(EscOctets)}
MCInit == Init /\ s = <<>>
MCNext == Len(s) < N /\ (\E o \in Octs : s' = Append(s, o)) /\ UNCHANGED vars

LawRoundTripOct == RoundTripOct(s)
LawCPExact == CPExact(s)
LawEscapeShape == EscapeShape(s)
QTok(e) == Tok("QUOTED_STRING", e, HasBackslash(e), NoCmt)
LawQuotedToken == LET e == EscapeCS(s) IN Tokenize(Quote(e)) = <<QTok(e), TokEOF(NoCmt)>>
LawFull == LET ts == Tokenize(Quote(EscapeCS(s))) IN Len(ts) = 2 /\ UnescapeOct(ts[1].val) = Ok(s)
\* two character-strings, with and without a separating space, come back as two tokens
LawTwo == \A k \in 0..Len(s) :
            LET a == EscapeCS(SubSeq(s, 1, k))  b == EscapeCS(SubSeq(s, k + 1, Len(s))) IN
            /\ Tokenize(Quote(a) \o <<32>> \o Quote(b)) = <<QTok(a), QTok(b), TokEOF(NoCmt)>>
            /\ Tokenize(Quote(a) \o Quote(b)) = <<QTok(a), QTok(b), TokEOF(NoCmt)>>
            /\ Tokenize(<<40>> \o Quote(a) \o <<10>> \o Quote(b) \o <<41>>) = <<QTok(a), QTok(b), TokEOF(NoCmt)>>
=============================================================================
