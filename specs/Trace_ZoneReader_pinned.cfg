INIT TraceInit
NEXT TraceNext
CONSTANTS
  CheckLines = FALSE
  Pinned = TRUE
CONSTRAINT Accepted
POSTCONDITION Post
CHECK_DEADLOCK FALSE
