SPECIFICATION Spec
CONSTANTS
  KeyNames = {"k1"}
  Secrets = {"s1"}
  Algs = {"hmac-sha256"}
  Fudges = {2}
  Skews <- MCSkews4
  Errors = {0}
  Kinds = {"stream"}
  MaxEnv = 3
  MaxFaults = 1
  MaxResign = 0
  ResignMods = {"body"}
INVARIANT VACINV
CHECK_DEADLOCK FALSE
