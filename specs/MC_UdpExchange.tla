--------------------------- MODULE MC_UdpExchange ---------------------------
(* Bounded instances of UdpExchange for exhaustive model checking. *)
EXTENDS UdpExchange

\* every distinguishable datagram, every configuration (depth 1 makes GenuineEnds,
\* SpoofCannotEnd, VerdictTotal statements about the whole universe)
MCAllDgrams == AllDgrams
MCDev1 == DevDgrams(1)
MCDev2 == DevDgrams(2)
MCLiveD == {d \in DevDgrams(1) : d.wf \in {"yes", "badRdata"} /\ d.qm \in {"same", "different"} /\ d.src \in {"dest", "otherAddr"}}
MCConfigsFull0 == ConfigsOver({"udp", "recv", "fallback"}, {0, 3, 5}, BOOLEAN, {"v4", "v6"})
MCConfigsFull == MCConfigsFull0 \cup ZeroTimeouts({c \in MCConfigsFull0 : c.fam = "v4" /\ ~c.mcast})
                    \cup WithOpcodes({c \in MCConfigsFull0 : c.fam = "v4" /\ ~c.mcast /\ c.deadline = 5}, {"NOTIFY", "STATUS", "UPDATE"})
MCConfigsStatic == WithOpcodes(ConfigsOver({"udp", "recv", "fallback"}, {0}, BOOLEAN, {"v6"}), SentOpcodes)
MCConfigsLive0 == {c \in ConfigsOver({"udp", "recv"}, {0, 3}, {FALSE}, {"v6"}) : c.it /\ ~c.anysrc /\ c.hasq}
MCConfigsLive == MCConfigsLive0 \cup ZeroTimeouts(MCConfigsLive0)
=============================================================================
