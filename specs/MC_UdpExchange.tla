--------------------------- MODULE MC_UdpExchange ---------------------------
(* Bounded instances of UdpExchange for exhaustive model checking. *)
EXTENDS UdpExchange

\* every distinguishable datagram, every configuration (depth 1 makes GenuineEnds,
\* SpoofCannotEnd, VerdictTotal statements about the whole universe)
MCAllDgrams == AllDgrams
MCDev1 == DevDgrams(1)
MCDev2 == DevDgrams(2)
MCConfigsFull == ConfigsOver({"udp", "recv", "fallback"}, {0, 3, 5}, BOOLEAN, {"v4", "v6"})
MCConfigsNoClock == ConfigsOver({"udp", "recv", "fallback"}, {0, 5}, BOOLEAN, {"v6"})
=============================================================================
