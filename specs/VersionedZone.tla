---------------------------- MODULE VersionedZone ----------------------------
(* Version retention and snapshot isolation of a multi-version zone
   (dns.versioned.Zone / dns.btreezone.Zone), property C11.

   Written from the documentation of dns.versioned.Zone ("many concurrent readers, of
   possibly different versions, and at most one active writer ... Versions are immutable
   once committed"), of set_max_versions / set_pruning_policy ("Pruning checking proceeds
   from the least version and the first time the function returns False, the checking
   stops. I.e. the retained versions are always a consecutive sequence") and of the
   pinning rule ("never prune a version greater than or equal to one that a reader has
   open", never the newest).

   A zone content is an abstract value (a record [serial, items]); the specification
   never looks inside it except for the serial (reader(serial=...)) and for custom
   pruning policies.  One action per public call.  The single-writer admission protocol
   (blocking, FIFO) is property C12 and is NOT modelled here: BeginWrite is only enabled
   when no write transaction is open. *)
EXTENDS Integers, Sequences, FiniteSets, TLC

CONSTANTS Contents,        \* contents a write transaction may produce: [serial |-> Nat, items |-> set]
          Rids,            \* reader handles
          MaxVersionArgs,  \* integer arguments of set_max_versions (values < 1 are refused)
          CustomPolicies,  \* names of custom pruning predicates (see Prunes)
          IdArgs,          \* ids a caller may ask for in reader(id=...)
          SerialArgs       \* serials a caller may ask for in reader(serial=...)

VARIABLES versions,   \* retained versions, oldest first: Seq([id, content])
          allIds,     \* history: ids of every version ever committed, in commit order
          published,  \* history: id -> content as it was committed
          readers,    \* open read transactions: rid -> [vid, seen]  (seen = content at open time)
          policy,     \* <<"default">> | <<"max", n>> | <<"keepall">> | <<"custom", p>>
          writer,     \* [state |-> "none" | "clean" | "dirty", repl |-> BOOLEAN, work |-> content]
          res         \* outcome of the last call: "ok" | "refused"

vars == <<versions, allIds, published, readers, policy, writer, res>>

Empty == [serial |-> -1, items |-> {}]         \* the content of a new zone: nothing, no SOA (-1: 0 is a valid SOA serial)
NoWriter == [state |-> "none", repl |-> FALSE, work |-> Empty]

Last(s) == s[Len(s)]
Ids(vs) == [i \in 1..Len(vs) |-> vs[i].id]
IdSet(vs) == {vs[i].id : i \in 1..Len(vs)}
MinOf(S) == CHOOSE x \in S : \A y \in S : x <= y
Pinned(rs) == {rs[r].vid : r \in DOMAIN rs}
Restrict(f, S) == [x \in S |-> f[x]]

---------------------------------------------------------------------------
(* The pruning rule *)

(* does the policy ask to prune version v, the oldest of the retained versions vs? *)
Prunes(pol, vs, v) ==
    CASE pol[1] = "default" -> TRUE                          \* retain one version
      [] pol[1] = "max"     -> Len(vs) > pol[2]              \* retain up to n versions
      [] pol[1] = "keepall" -> FALSE                         \* set_max_versions(None)
      [] pol[1] = "custom"  ->
            CASE pol[2] = "oddid"     -> v.id % 2 = 1                              \* depends on the version
              [] pol[2] = "oldserial" -> v.content.serial < Last(vs).content.serial \* depends on content and on the zone
              [] pol[2] = "none"      -> FALSE                                      \* a predicate returning None

(* the least id that must be kept whatever the policy says *)
LeastKept(rs, vs) == IF DOMAIN rs = {} THEN Last(vs).id ELSE MinOf(Pinned(rs))

RECURSIVE Prune(_, _, _)
Prune(vs, rs, pol) ==
    IF Len(vs) > 1 /\ Head(vs).id < LeastKept(rs, vs) /\ Prunes(pol, vs, Head(vs))
    THEN Prune(Tail(vs), rs, pol)
    ELSE vs

---------------------------------------------------------------------------
(* Calls *)
Refuse == res' = "refused" /\ UNCHANGED <<versions, allIds, published, readers, policy, writer>>

OpenOn(r, i) ==
    /\ readers' = (r :> [vid |-> versions[i].id, seen |-> versions[i].content]) @@ readers
    /\ res' = "ok"
    /\ UNCHANGED <<versions, allIds, published, policy, writer>>

(* zone.reader() *)
OpenLatest(r) == r \notin DOMAIN readers /\ OpenOn(r, Len(versions))

(* zone.reader(id=n): the retained version with that id, else refused *)
OpenById(r, n) ==
    /\ r \notin DOMAIN readers
    /\ IF n \in IdSet(versions)
       THEN \E i \in 1..Len(versions) : versions[i].id = n /\ OpenOn(r, i)
       ELSE Refuse

(* zone.reader(serial=s): a retained version whose SOA serial is s, else refused.  When
   several retained versions carry the same serial the property does not say which one
   is meant: any of them is allowed. *)
OpenBySerial(r, s) ==
    /\ r \notin DOMAIN readers
    /\ LET C == {i \in 1..Len(versions) : versions[i].content.serial = s /\ s >= 0}
       IN IF C # {} THEN \E i \in C : OpenOn(r, i) ELSE Refuse

(* zone.reader(id=n, serial=s) *)
OpenBoth(r) == r \notin DOMAIN readers /\ Refuse

(* ending a read transaction (commit, rollback or leaving the with block) *)
CloseReader(r) ==
    /\ r \in DOMAIN readers
    /\ readers' = Restrict(readers, DOMAIN readers \ {r})
    /\ versions' = Prune(versions, readers', policy)
    /\ res' = "ok"
    /\ UNCHANGED <<allIds, published, policy, writer>>

(* zone.writer(replacement) when no write transaction is open *)
BeginWrite(repl) ==
    /\ writer.state = "none"
    /\ writer' = [state |-> "clean", repl |-> repl, work |-> IF repl THEN Empty ELSE Last(versions).content]
    /\ res' = "ok"
    /\ UNCHANGED <<versions, allIds, published, readers, policy>>

(* the writer makes changes after which the transaction holds content c
   (c may equal the base content: the transaction is "changed" all the same) *)
Stage(c) ==
    /\ writer.state \in {"clean", "dirty"}
    /\ writer' = [writer EXCEPT !.state = "dirty", !.work = c]
    /\ res' = "ok"
    /\ UNCHANGED <<versions, allIds, published, readers, policy>>

(* commit of a changed write transaction: a new version with a greater id *)
CommitChanged(nid) ==
    /\ writer.state = "dirty"
    /\ nid > Last(allIds)
    /\ versions' = Prune(Append(versions, [id |-> nid, content |-> writer.work]), readers, policy)
    /\ allIds' = Append(allIds, nid)
    /\ published' = (nid :> writer.work) @@ published
    /\ writer' = NoWriter
    /\ res' = "ok"
    /\ UNCHANGED <<readers, policy>>

(* commit of a write transaction that changed nothing: no new version *)
CommitUnchanged ==
    /\ writer.state = "clean"
    /\ writer' = NoWriter /\ res' = "ok"
    /\ UNCHANGED <<versions, allIds, published, readers, policy>>

(* a commit during which the user's pruning predicate RAISES: the call fails.  The property
   does not say how far such a commit gets - the new version may or may not have been
   published, pruning may have stopped anywhere - but whatever is retained is still a
   suffix of the history that keeps the newest and every pinned version, a published id is
   greater than all earlier ones, and the write transaction is over.  (Whether another
   writer can be admitted after such a fault is a matter of writer admission, C12: in this
   specification no write transaction is begun afterwards.) *)
CommitFaulted(pub, nid, k) ==
    /\ writer.state = "dirty"
    /\ pub => nid > Last(allIds)
    /\ LET vs == IF pub THEN Append(versions, [id |-> nid, content |-> writer.work]) ELSE versions
       IN /\ k \in 1..Len(vs)
          /\ \A j \in 1..(k - 1) : vs[j].id < LeastKept(readers, vs)
          /\ versions' = SubSeq(vs, k, Len(vs))
    /\ allIds' = IF pub THEN Append(allIds, nid) ELSE allIds
    /\ published' = IF pub THEN (nid :> writer.work) @@ published ELSE published
    /\ writer' = [state |-> "failed", repl |-> FALSE, work |-> Empty]
    /\ res' = "refused"
    /\ UNCHANGED <<readers, policy>>

(* any call (add, replace, delete, commit, rollback ...) on a write transaction that has
   ended - normally or by a failed commit: refused, nothing changes *)
ReuseEndedWriter == writer.state \in {"none", "failed"} /\ Refuse

(* rollback (or an exception leaving the with block): nothing is published *)
Rollback ==
    /\ writer.state \in {"clean", "dirty"}
    /\ writer' = NoWriter /\ res' = "ok"
    /\ UNCHANGED <<versions, allIds, published, readers, policy>>

SetPolicyTo(pol) ==
    /\ policy' = pol
    /\ versions' = Prune(versions, readers, pol)
    /\ res' = "ok"
    /\ UNCHANGED <<allIds, published, readers, writer>>

(* set_max_versions(n), n an integer *)
SetMaxVersions(n) == IF n < 1 THEN Refuse ELSE SetPolicyTo(<<"max", n>>)
(* set_max_versions(None) *)
SetUnlimited == SetPolicyTo(<<"keepall">>)
(* set_pruning_policy(predicate) *)
SetCustomPolicy(p) == SetPolicyTo(<<"custom", p>>)
(* set_pruning_policy(None) *)
SetDefaultPolicy == SetPolicyTo(<<"default">>)

(* any attempt to change something through a read transaction (the transaction itself,
   its version, the node map, a node, an rdataset), or through the zone's own
   non-transactional mutators: refused, nothing changes.  There is no action by which
   such a call succeeds (the ValueObject discipline; the catalogue of calls is in
   ValueObjectVZ.tla). *)
MutateThroughReader(r) == r \in DOMAIN readers /\ Refuse
MutateZone == Refuse

(* not a call on the zone at all: the caller changes (adds a record to, changes the TTL of,
   clears) an Rdataset / RRset object of its own that it once handed to a write transaction
   which has ended since.  Committed versions do not alias the caller's objects: nothing
   changes. *)
CallerReusesObjects ==
    /\ res' = "ok"
    /\ UNCHANGED <<versions, allIds, published, readers, policy, writer>>

---------------------------------------------------------------------------
Init ==
    /\ versions = <<[id |-> 1, content |-> Empty]>>
    /\ allIds = <<1>>
    /\ published = (1 :> Empty)
    /\ readers = <<>>
    /\ policy = <<"default">>
    /\ writer = NoWriter
    /\ res = "ok"

Next ==
    \/ \E r \in Rids : OpenLatest(r) \/ OpenBoth(r) \/ CloseReader(r) \/ MutateThroughReader(r)
    \/ \E r \in Rids, n \in IdArgs : OpenById(r, n)
    \/ \E r \in Rids, s \in SerialArgs : OpenBySerial(r, s)
    \/ \E b \in BOOLEAN : BeginWrite(b)
    \/ \E c \in Contents : Stage(c)
    \/ CommitChanged(Last(allIds) + 1) \/ CommitUnchanged \/ Rollback
    \/ \E pub \in BOOLEAN, k \in 1..(Len(versions) + 1) : CommitFaulted(pub, Last(allIds) + 1, k)
    \/ ReuseEndedWriter
    \/ \E n \in MaxVersionArgs : SetMaxVersions(n)
    \/ SetUnlimited \/ SetDefaultPolicy
    \/ \E p \in CustomPolicies : SetCustomPolicy(p)
    \/ MutateZone
    \/ CallerReusesObjects

Spec == Init /\ [][Next]_vars

---------------------------------------------------------------------------
(* Properties (checked by TLC on the bounded instance MC_VersionedZone) *)
TypeOK ==
    /\ Len(versions) >= 1
    /\ writer.state \in {"none", "clean", "dirty", "failed"}
    /\ res \in {"ok", "refused"}
    /\ DOMAIN readers \subseteq Rids

(* version ids strictly increase, in the history and among the retained versions *)
IdsIncrease ==
    /\ \A i, j \in 1..Len(allIds) : i < j => allIds[i] < allIds[j]
    /\ \A i, j \in 1..Len(versions) : i < j => versions[i].id < versions[j].id

(* the retained versions are a contiguous run of the history ... *)
Contiguous ==
    \E a \in 1..Len(allIds) : \E b \in a..Len(allIds) : SubSeq(allIds, a, b) = Ids(versions)

(* ... that contains the newest version ... *)
NewestRetained == Last(versions).id = Last(allIds)

(* ... and every version pinned by an open reader *)
PinnedRetained == Pinned(readers) \subseteq IdSet(versions)

(* ... and is otherwise exactly what the policy allows: the oldest retained version is
   the newest, or is not older than every pinned version, or the policy keeps it *)
Exact ==
    \/ writer.state = "failed"      \* a prune pass was interrupted by a raising predicate: exactness is not claimed
    \/ Len(versions) = 1
    \/ Head(versions).id >= LeastKept(readers, versions)
    \/ ~Prunes(policy, versions, Head(versions))

(* a committed version never changes *)
VersionsImmutable == \A i \in 1..Len(versions) : versions[i].content = published[versions[i].id]

(* a reader sees, for its whole life, the content its version had when it was opened *)
Snapshot ==
    \A r \in DOMAIN readers :
        /\ readers[r].seen = published[readers[r].vid]
        /\ \E i \in 1..Len(versions) : versions[i].id = readers[r].vid /\ versions[i].content = readers[r].seen

(* an open reader keeps its version and its view, whatever else happens *)
ReaderStable == [][\A r \in DOMAIN readers \cap DOMAIN readers' : readers'[r] = readers[r]]_vars

(* a reader can only be opened on a version that is retained at that moment *)
OpenOnlyRetained == [][\A r \in DOMAIN readers' \ DOMAIN readers : readers'[r].vid \in IdSet(versions)]_vars

(* versions appear only by committing a changed write transaction, one at a time *)
OnlyCommitPublishes ==
    [][allIds' # allIds => (writer.state = "dirty" /\ writer'.state \in {"none", "failed"} /\ Len(allIds') = Len(allIds) + 1
                            /\ published'[Last(allIds')] = writer.work)]_vars

(* pruning only ever removes a prefix *)
IsSuffix(s, u) == Len(s) <= Len(u) /\ SubSeq(u, Len(u) - Len(s) + 1, Len(u)) = s
PruneOnlyOldest ==
    [][IF allIds' # allIds THEN IsSuffix(versions', Append(versions, Last(versions'))) ELSE IsSuffix(versions', versions)]_vars

(* a refused call changes nothing *)
(* (except a commit that fails half-way because the user's pruning predicate raised) *)
RefusedIsNoop == [][(res' = "refused" /\ ~(writer.state = "dirty" /\ writer'.state = "failed"))
                      => UNCHANGED <<versions, allIds, published, readers, policy, writer>>]_vars
=============================================================================
