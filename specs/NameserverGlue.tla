--------------------------- MODULE NameserverGlue ---------------------------
(* The glue between the resolver and the transports (dns.nameserver, property C16:
   "a truncated UDP reply is retried once over TCP on the same server", "the synchronous
   and asynchronous resolvers take identical decisions").  A nameserver object turns
       query / async_query(request, timeout, source, source_port, max_size,
                           one_rr_per_rrset, ignore_trailing)
   into ONE call of a transport function and hands back what the transport gives.

   call  = [kind, where, port, hostname, verify, wantget, bootstrap,      the nameserver object
            maxsize, tmo, source, sport, onerr, itrail]                    the arguments
   args  = what the transport function was called with, every field present:
           transport, where, port, timeout (ticks), source, source_port, one_rr, ignore_trailing,
           raise_on_truncation, ignore_errors, ignore_unexpected, verify, post, server_hostname,
           bootstrap, backend, extra; booleans are "true" / "false", a keyword that was not
           passed is "absent" (strings) or -1 (numbers)
   reply = "ok" | "tc" (the reply has the TC bit) | "exc:<class>" (the transport raises)

   Required of every nameserver kind: the right transport; destination, port, timeout,
   one_rr_per_rrset and ignore_trailing handed through unchanged; the object's own
   attributes (hostname, verify, bootstrap address, GET/POST) handed through.  Do53: UDP
   unless max_size, then TCP; source and source_port handed through; UDP is asked to
   raise on truncation -- otherwise a truncated reply would be taken for the answer and
   the resolver could never retry over TCP.  Left open (but the sync and async sides must
   agree): ignore_errors / ignore_unexpected of UDP, whether DoT / DoQ hand the source
   address on.                                                                      *)
EXTENDS Integers, Sequences, FiniteSets, TLC

B(b) == IF b THEN "true" ELSE "false"

Transport(c) ==
    CASE c.kind = "Do53" -> (IF c.maxsize THEN "tcp" ELSE "udp")
      [] c.kind = "DoH" -> "https"
      [] c.kind = "DoT" -> "tls"
      [] c.kind = "DoQ" -> "quic"

(* the hard requirements, one operator per clause of the trace specification *)
RightTransport(c, a) == a.transport = Transport(c)
Destination(c, a) == a.where = c.where /\ (c.kind # "DoH" => a.port = c.port)
TimeoutPassed(c, a) == a.timeout = c.tmo
FlagsPassed(c, a) == a.one_rr = B(c.onerr) /\ a.ignore_trailing = B(c.itrail)
SourcePassed(c, a) == (c.kind \in {"Do53", "DoH"}) => (a.source = c.source /\ a.source_port = c.sport)
RaiseOnTruncation(c, a) == (Transport(c) = "udp") => a.raise_on_truncation = "true"
Attributes(c, a) ==
    /\ (c.kind = "DoH") => (a.bootstrap = c.bootstrap /\ a.verify = B(c.verify) /\ a.post = B(~c.wantget))
    /\ (c.kind \in {"DoT", "DoQ"}) => (a.server_hostname = c.hostname /\ a.verify = B(c.verify))
NothingElse(c, a) == a.extra = <<>>
Conforms(c, a) == /\ RightTransport(c, a) /\ Destination(c, a) /\ TimeoutPassed(c, a) /\ FlagsPassed(c, a)
                  /\ SourcePassed(c, a) /\ RaiseOnTruncation(c, a) /\ Attributes(c, a) /\ NothingElse(c, a)

(* one conforming way of calling the transport (the open fields at the values both
   implementations use today) *)
Canon(c) ==
    LET t == Transport(c)
    IN [transport |-> t, where |-> c.where, port |-> (IF c.kind = "DoH" THEN -1 ELSE c.port), timeout |-> c.tmo,
        source |-> (IF c.kind \in {"Do53", "DoH"} THEN c.source ELSE "absent"),
        source_port |-> (IF c.kind \in {"Do53", "DoH"} THEN c.sport ELSE -1),
        one_rr |-> B(c.onerr), ignore_trailing |-> B(c.itrail),
        raise_on_truncation |-> (IF t = "udp" THEN "true" ELSE "absent"),
        ignore_errors |-> (IF t = "udp" THEN "true" ELSE "absent"),
        ignore_unexpected |-> (IF t = "udp" THEN "true" ELSE "absent"),
        verify |-> (IF c.kind = "Do53" THEN "absent" ELSE B(c.verify)),
        post |-> (IF c.kind = "DoH" THEN B(~c.wantget) ELSE "absent"),
        server_hostname |-> (IF c.kind \in {"DoT", "DoQ"} THEN c.hostname ELSE "absent"),
        bootstrap |-> (IF c.kind = "DoH" THEN c.bootstrap ELSE "absent"),
        backend |-> "absent", extra |-> <<>>]

(* what the transport does with a reply (the contract of dns.query.udp: a reply with TC is
   an exception iff the caller asked for it; the stream transports return it as it is) and
   what the nameserver object must therefore hand to the resolver *)
TransportGives(a, reply) ==
    IF reply = "tc" THEN (IF a.transport = "udp" /\ a.raise_on_truncation = "true" THEN <<"raise", "Truncated">> ELSE <<"return", "tc">>)
    ELSE IF reply = "ok" THEN <<"return", "ok">>
    ELSE <<"raise", reply>>
Decision(c, reply) == TransportGives(Canon(c), reply)

---------------------------------------------------------------------------
CONSTANTS Calls, Replies
VARIABLE m       \* [call, reply]
Init == m \in [call : Calls, reply : Replies]
Next == UNCHANGED m

CanonConforms == Conforms(m.call, Canon(m.call))
(* a truncated UDP reply never reaches the resolver as an answer; everything else is handed on *)
TruncationSignalled ==
    /\ (Transport(m.call) = "udp" /\ m.reply = "tc") => Decision(m.call, m.reply) = <<"raise", "Truncated">>
    /\ (Transport(m.call) # "udp" /\ m.reply = "tc") => Decision(m.call, m.reply) = <<"return", "tc">>
    /\ (m.reply = "ok") => Decision(m.call, m.reply) = <<"return", "ok">>
=============================================================================
