INIT MCInit
NEXT MCNext
CONSTANTS
  ZO <- UZO
  LabelRank <- URank
  SpOrigins <- UOrigins
  SpTTLs = {300}
  SpNoise <- UNoise
  SpGenerates <- UGenerates
  SpMaxExtra = 0
  SpForms <- PlainForms
  MCZones <- ZonesQuick
  MCStyles <- SemStyles
  MCModes = {"write"}
  MCOriginGiven = {TRUE, FALSE}
INVARIANT RoundTrip
INVARIANT NeverErr
INVARIANT Partial
INVARIANT CnameAlone
CHECK_DEADLOCK FALSE
