----------------------------- MODULE LexerTyped -----------------------------
(* The typed helpers of dns.tokenizer.Tokenizer on top of Lexer.tla, from their docstrings:
   get_int "interpret it as an unsigned integer. Raises SyntaxError if not an unsigned integer";
   get_uint8/16/32/48 "... as an N-bit unsigned integer. Raises SyntaxError if not ...";
   get_string "interpret it as a string. Raises SyntaxError if not a string. Raises SyntaxError if
   token value length exceeds max_length (if specified)"; get_identifier "the next token, which
   should be an identifier. Raises SyntaxError if not an identifier"; get_remaining "Return the
   remaining tokens on the line, until an EOL or EOF is seen. max_tokens: If not None, stop after
   this number of tokens"; concatenate_remaining_identifiers "Raises SyntaxError if there are no
   remaining tokens, unless allow_empty=True ... if a token is seen that is not an identifier.
   Returns a string containing a concatenation of the remaining identifiers"; get_eol_as_token
   "raise an exception if it isn't EOL or EOF"; get_name "Raises SyntaxError if not a name";
   get_ttl "Raises SyntaxError or BadTTL if not an identifier or badly formed".
   Escapes (RFC 1035 5.1): \X is X, \DDD is the character with decimal code DDD (<= 255).

   A result is <<"ok", value>>, <<"err">> or <<"free">> (the texts do not decide: not judged). *)
EXTENDS Lexer

IsDigit(c) == c >= 48 /\ c <= 57
Cons(c, r) == IF r[1] = "err" THEN r ELSE <<"ok", <<c>> \o r[2]>>
RECURSIVE Unesc(_, _)
Unesc(v, i) ==
    IF i > Len(v) THEN <<"ok", <<>>>>
    ELSE IF v[i] # BS THEN Cons(v[i], Unesc(v, i + 1))
    ELSE IF i + 1 > Len(v) THEN <<"err">>
    ELSE IF ~IsDigit(v[i + 1]) THEN Cons(v[i + 1], Unesc(v, i + 2))
    ELSE IF i + 3 > Len(v) THEN <<"err">>
    ELSE IF ~IsDigit(v[i + 2]) \/ ~IsDigit(v[i + 3]) THEN <<"err">>
    ELSE LET n == (v[i + 1] - 48) * 100 + (v[i + 2] - 48) * 10 + (v[i + 3] - 48)
         IN  IF n > 255 THEN <<"err">> ELSE Cons(n, Unesc(v, i + 4))
Unescape(v) == Unesc(v, 1)

\* ------------------------------------------------------------------ unsigned integers as digit sequences
DigitVal(c) == IF IsDigit(c) THEN c - 48 ELSE IF c >= 97 /\ c <= 102 THEN c - 87 ELSE IF c >= 65 /\ c <= 70 THEN c - 55 ELSE 99
AllDigits(v, base) == v # <<>> /\ \A i \in 1..Len(v) : DigitVal(v[i]) < base
RECURSIVE Strip(_)
Strip(ds) == IF Len(ds) > 1 /\ ds[1] = 0 THEN Strip(Tail(ds)) ELSE ds
Canon(v) == Strip([i \in 1..Len(v) |-> DigitVal(v[i])])
RECURSIVE LexLeq(_, _)     \* same length, most significant digit first
LexLeq(a, b) == a = <<>> \/ a[1] < b[1] \/ (a[1] = b[1] /\ LexLeq(Tail(a), Tail(b)))
Leq(a, b) == Len(a) < Len(b) \/ (Len(a) = Len(b) /\ LexLeq(a, b))
Rep(n, x) == [i \in 1..n |-> x]
\* the largest value of each helper, written in the base of the call
MaxOf(h, base) ==
    CASE h = "get_uint8" -> <<2, 5, 5>>
      [] h = "get_uint16" -> IF base = 10 THEN <<6, 5, 5, 3, 5>> ELSE IF base = 8 THEN <<1>> \o Rep(5, 7) ELSE Rep(4, 15)
      [] h = "get_uint32" -> IF base = 10 THEN <<4, 2, 9, 4, 9, 6, 7, 2, 9, 5>> ELSE IF base = 8 THEN <<3>> \o Rep(10, 7) ELSE Rep(8, 15)
      [] h = "get_uint48" -> IF base = 10 THEN <<2, 8, 1, 4, 7, 4, 9, 7, 6, 7, 1, 0, 6, 5, 5>> ELSE IF base = 8 THEN Rep(16, 7) ELSE Rep(12, 15)
      [] OTHER -> <<>>            \* get_int: no bound
IntHelpers == {"get_int", "get_uint8", "get_uint16", "get_uint32", "get_uint48"}
\* texts whose reading as "an unsigned integer" the docstrings do not decide
Lenient(v) == \/ \E i \in 1..Len(v) : v[i] \in {43, 45, 95, 9, 10, 11, 12, 13, 32} \/ v[i] > 127
              \/ (Len(v) >= 2 /\ v[1] = 48 /\ v[2] \in {120, 88, 111, 79, 98, 66})
\* a minus sign and a non-zero number: certainly not an UNSIGNED integer
Negative(v, base) == Len(v) >= 2 /\ v[1] = 45 /\ AllDigits(Tail(v), base) /\ Canon(Tail(v)) # <<0>>
JudgeInt(h, base, v) ==
    IF Negative(v, base) THEN <<"err">>
    ELSE IF AllDigits(v, base) THEN (IF h = "get_int" \/ Leq(Canon(v), MaxOf(h, base)) THEN <<"ok", Canon(v)>> ELSE <<"err">>)
    ELSE IF Lenient(v) THEN <<"free">> ELSE <<"err">>

\* ------------------------------------------------------------------ TTL and name texts (small, see X02 / C01)
UnitOf(c) == CASE c = 119 -> 604800 [] c = 100 -> 86400 [] c = 104 -> 3600 [] c = 109 -> 60 [] c = 115 -> 1 [] OTHER -> 0
RECURSIVE Num(_, _)
Num(v, n) == IF n = 0 THEN 0 ELSE Num(v, n - 1) * 10 + (v[n] - 48)
JudgeTtl(v) ==
    LET n == Len(v) IN
    IF n >= 1 /\ n <= 4 /\ \A i \in 1..n : IsDigit(v[i]) THEN <<"ok", <<Num(v, n)>>>>
    ELSE IF n >= 2 /\ n <= 4 /\ UnitOf(v[n]) > 0 /\ \A i \in 1..(n - 1) : IsDigit(v[i]) THEN <<"ok", <<Num(v, n - 1) * UnitOf(v[n])>>>>
    ELSE <<"free">>
\* names made of lower-case letters, digits and single interior / final dots: the text form is the text
SimpleName(v) == /\ v # <<>> /\ v[1] # 46
                 /\ \A i \in 1..Len(v) : (v[i] >= 97 /\ v[i] <= 122) \/ IsDigit(v[i]) \/ (v[i] = 46 /\ i > 1 /\ v[i - 1] # 46)

\* ------------------------------------------------------------------ the helpers
Res(m, r) == [m |-> m, r |-> r]
Stringy(tk) == tk.k \in {"IDENTIFIER", "QUOTED_STRING"}
\* call = [h |-> name, base |-> 8/10/16, arg |-> max_length / max_tokens / allow_empty as 0/1; -1 = None]
OneToken(m, s, call, D) ==
    LET m1 == GetTok(m, s, FALSE, FALSE, D) IN
    IF m1.st # "ok" THEN Res(m1, <<"err">>)
    ELSE LET tk == m1.ret[1]
             u == IF Stringy(tk) THEN Unescape(tk.v) ELSE <<"ok", <<>>>>
             h == call.h
         IN Res(m1,
            IF h = "get_eol" THEN (IF tk.k \in {"EOL", "EOF"} THEN <<"ok", <<>>>> ELSE <<"err">>)
            ELSE IF ~Stringy(tk) THEN <<"err">>
            ELSE IF u[1] = "err" THEN <<"err">>
            ELSE IF h = "get_string" THEN (IF call.arg >= 0 /\ Len(u[2]) > call.arg THEN <<"err">> ELSE u)
            ELSE IF h \in IntHelpers /\ tk.k = "QUOTED_STRING" THEN <<"free">>
            ELSE IF tk.k = "QUOTED_STRING" THEN <<"err">>          \* get_identifier get_name get_ttl
            ELSE IF h = "get_identifier" THEN u
            ELSE IF h \in IntHelpers THEN JudgeInt(h, call.base, u[2])
            ELSE IF h = "get_ttl" THEN JudgeTtl(u[2])
            ELSE IF h = "get_name" THEN (IF SimpleName(tk.v) THEN <<"ok", tk.v>> ELSE <<"free">>)
            ELSE <<"free">>)

RECURSIVE Remaining(_, _, _, _, _)      \* get_remaining: <<m', "ok" | "err", tokens>>
Remaining(m, s, left, acc, D) ==
    IF left = 0 THEN <<m, "ok", acc>>
    ELSE LET m1 == GetTok(m, s, FALSE, FALSE, D) IN
         IF m1.st # "ok" THEN <<m1, "err", acc>>
         ELSE IF m1.ret[1].k \in {"EOL", "EOF"} THEN <<UngetTok(m1), "ok", acc>>
         ELSE Remaining(m1, s, left - 1, Append(acc, m1.ret[1]), D)
RECURSIVE Concat(_, _, _, _)            \* concatenate_remaining_identifiers: <<m', "ok" | "err", text>>
Concat(m, s, acc, D) ==
    LET m1 == GetTok(m, s, FALSE, FALSE, D) IN
    IF m1.st # "ok" THEN <<m1, "err", acc>>
    ELSE LET tk == m1.ret[1] IN
         IF tk.k \in {"EOL", "EOF"} THEN <<UngetTok(m1), "ok", acc>>
         ELSE IF tk.k # "IDENTIFIER" \/ Unescape(tk.v)[1] = "err" THEN <<m1, "err", acc>>
         ELSE Concat(m1, s, acc \o Unescape(tk.v)[2], D)
=============================================================================
