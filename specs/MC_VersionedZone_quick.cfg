SPECIFICATION MCSpec
CONSTANTS
  Contents <- MCContentsSmall
  Rids = {1, 2, 3}
  MaxVersionArgs = {0, 1, 2}
  CustomPolicies = {"oddid", "oldserial", "none"}
  IdArgs = {1, 2, 3, 4, 9}
  SerialArgs = {0, 1, 2, 7}
  MaxCommits = 4
  MaxDepth = 9
CONSTRAINT Bound
INVARIANT TypeOK
INVARIANT IdsIncrease
INVARIANT Contiguous
INVARIANT NewestRetained
INVARIANT PinnedRetained
INVARIANT Exact
INVARIANT VersionsImmutable
INVARIANT Snapshot
PROPERTY ReaderStable
PROPERTY OpenOnlyRetained
PROPERTY OnlyCommitPublishes
PROPERTY PruneOnlyOldest
PROPERTY RefusedIsNoop
CHECK_DEADLOCK FALSE
