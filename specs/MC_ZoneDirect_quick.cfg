SPECIFICATION Spec
CONSTANTS
  Names = {"@", "a"}
  Types = {"A", "CNAME", "NSEC", "SOA"}
  RdIds = {1}
  TTLs = {300}
  Filters <- MCFiltersSmall
  InitZones <- MCInitTrim
  NodeShapes <- MCShapesTrim
  MaxOps = 2
INVARIANT TypeOK
INVARIANT Exclusive
INVARIANT SingletonsSingle
INVARIANT VersionedNoEmpties
INVARIANT FindIffGetNone
INVARIANT CreateIdempotent
PROPERTY RefusedIsNoop
PROPERTY ReadsDontWrite
PROPERTY VersionedOnlyTxn
PROPERTY GetNeverKeyError
PROPERTY DeleteAbsentNoop
PROPERTY DeleteLastDeletesNode
CHECK_DEADLOCK FALSE
