INIT TraceInit
NEXT TraceNext
CONSTANTS
  ZeroMeansNone = TRUE
CONSTRAINT Accepted
POSTCONDITION Post
CHECK_DEADLOCK FALSE
