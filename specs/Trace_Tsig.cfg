INIT TraceInit
NEXT TraceNext
CONSTANTS
  KeyNames = {}
  Secrets = {}
  Algs = {}
  Fudges = {}
  Skews = {}
  Errors = {}
  Kinds = {}
  MaxEnv = 1000
  MaxFaults = 1000
CONSTRAINT Accepted
POSTCONDITION Post
CHECK_DEADLOCK FALSE
