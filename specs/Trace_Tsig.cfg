INIT TraceInit
NEXT TraceNext
CONSTANTS
  KeyNames = {}
  Secrets = {}
  Algs = {}
  Fudges = {}
  Skews = {}
  Errors = {}
  Kinds = {}
  MaxEnv = 1000
  MaxFaults = 1000
  MaxResign = 1000
  ResignMods = {"none", "id", "head", "body"}
CONSTRAINT Accepted
POSTCONDITION Post
CHECK_DEADLOCK FALSE
