--------------------------- MODULE MC_ZoneDirect ---------------------------
(* Bounded instance of ZoneDirect: initial contents, node shapes, filters. *)
EXTENDS ZoneDirect

N1(ty, r) == ty :> r
ApexNode == N1("SOA", R(300, {1})) @@ N1("NS", R(300, {1}))
ZApex == "@" :> ApexNode
\* ordinary data below the apex
ZA    == ZApex @@ ("a" :> N1("A", R(600, {1})))
\* a CNAME node with everything that may live next to a CNAME
ZC    == ZApex @@ ("a" :> (N1("CNAME", R(300, {1})) @@ N1("RRSIG/CNAME", R(300, {1}))
                           @@ N1("NSEC", R(300, {1})) @@ N1("RRSIG/NSEC", R(300, {1, 2}))))
\* a delegation with glue below it (dns.btreezone flags these nodes)
ZD    == ZApex @@ ("a" :> N1("NS", R(300, {1, 2})))
               @@ ("b.a" :> (N1("A", R(300, {1, 2})) @@ N1("RRSIG/A", R(600, {1}))))
\* signed data, no apex node at all
ZS    == ("a" :> (N1("A", R(300, {1})) @@ N1("RRSIG/A", R(300, {1})) @@ N1("NSEC", R(600, {2})) @@ N1("RRSIG/NSEC", R(300, {1}))))
           @@ ("b.a" :> N1("CNAME", R(300, {2})))
\* an empty node and an empty rdataset (plain zones only)
ZE    == ZApex @@ ("a" :> EmptyNode) @@ ("b.a" :> N1("A", EmptyRds))
ZNone == [x \in {} |-> 0]

\* trimmed variants for the deeper bounded runs
ZC1   == ("@" :> N1("SOA", R(300, {1}))) @@ ("a" :> (N1("CNAME", R(300, {1})) @@ N1("NSEC", R(600, {1}))))
ZA1   == ("@" :> N1("SOA", R(300, {1}))) @@ ("a" :> N1("A", R(600, {1})))
\* an apex with SOA but no NS, and with NS but no SOA (check_origin)
ZN1   == ("@" :> N1("NS", R(300, {1, 2}))) @@ ("a" :> N1("A", R(300, {2})))
\* an EMPTY SOA rdataset at the apex (left by find_rdataset(create=True)): get_soa / check_origin
ZE2   == ("@" :> (N1("SOA", EmptyRds) @@ N1("NS", R(300, {1})))) @@ ("a" :> N1("NSEC", R(300, {1})))
MCInitTrim == {ZNone, ZC1, ZA1}
MCInitTrim2 == {ZNone, ZC1}
MCInitDeep == {ZNone, "a" :> (N1("CNAME", R(300, {1})) @@ N1("NSEC", R(300, {1})))}
MCInitAll == {ZNone, ZApex, ZA, ZC, ZD, ZS, ZE, ZA1, ZN1, ZE2}
MCInitSmall == {ZNone, ZA, ZC}
MCInitMid == {ZA, ZC, ZD, ZE}
MCInitQ == {ZNone, ZC, ZD, ZE, ZA1, ZN1, ZE2}
MCInitC == {ZC}
MCInitA == {ZA}

ShapeEmpty == EmptyNode
ShapeA == N1("A", R(300, {1, 2}))
ShapeC == N1("CNAME", R(600, {2})) @@ N1("NSEC", R(300, {1}))
MCShapes == {ShapeEmpty, ShapeA, ShapeC}
MCShapes1 == {ShapeC}
MCShapesTrim == {N1("CNAME", R(600, {1})) @@ N1("NSEC", R(300, {1}))}

MCFilters == Types \cup {"ANY", "ANY/A", "RRSIG"}
MCFiltersSmall == {"ANY", "A"}
=============================================================================
