------------------------------ MODULE RdTokenizer ------------------------------
(* The master-file tokenizer (RFC 1035 section 5.1; dns.tokenizer.Tokenizer.get as
   documented: token types EOF / EOL / WHITESPACE / IDENTIFIER / QUOTED_STRING / COMMENT,
   "multiline: increased by one every time a '(' delimiter is read, decreased every time
   a ')' is read", "quoting: true while reading a quoted string", one character and one
   token of push-back, want_leading / want_comment).

   An automaton over character CLASSES: space, newline, quote, lparen, rparen,
   semicolon, backslash, other, eof - one action per class.  The step function is
   written on a state record (OnSpace .. OnEof, Step) so that the same definition is
   (a) the next-state relation of the specification below (input supplied lazily by
   the environment, one character at a time), (b) the pure function Tokenize(s) used by
   the laws of MC_CharString, and (c) the oracle of Trace_RdTokenizer.

   Escapes are only *carried* by the tokenizer (backslash + next character are copied
   into the token, has_escape is set); they are interpreted by CharString!Unescape*. *)
EXTENDS CharString, TLC

EOFC == -1
Class(c) == CASE c = EOFC -> "eof"
              [] c = 32 \/ c = 9 -> "space"
              [] c = 10 -> "newline"
              [] c = 34 -> "quote"
              [] c = 40 -> "lparen"
              [] c = 41 -> "rparen"
              [] c = 59 -> "semicolon"
              [] c = 92 -> "backslash"
              [] OTHER -> "other"
Classes == {"space", "newline", "quote", "lparen", "rparen", "semicolon", "backslash", "other", "eof"}

NoCmt == <<"none">>
Cmt(s) == <<"c", s>>
Tok(tt, v, e, c) == [tt |-> tt, val |-> v, esc |-> e, cmt |-> c]
TokEOL(c) == Tok("EOL", <<10>>, FALSE, c)
TokEOF(c) == Tok("EOF", <<>>, FALSE, c)
TokWS == Tok("WHITESPACE", <<32>>, FALSE, NoCmt)

\* phase: idle (between get() calls) / lead (the whitespace skipped at the start of a
\* get) / start (no token text yet) / tok (inside IDENTIFIER or QUOTED_STRING text) /
\* esc (just after a backslash) / cmt (inside a comment)
InitSt == [ungot |-> <<>>, ml |-> 0, quoting |-> FALSE, tok |-> <<>>, tt |-> "IDENTIFIER", esc |-> FALSE,
           phase |-> "idle", skipped |-> FALSE, wl |-> FALSE, wc |-> FALSE, cbuf |-> <<>>,
           status |-> "run", last |-> <<>>, utok |-> <<>>]

Emit(st, token) == [st EXCEPT !.phase = "idle", !.last = <<token>>, !.tok = <<>>, !.tt = "IDENTIFIER",
                              !.esc = FALSE, !.cbuf = <<>>]
Abort(st, k) == [st EXCEPT !.status = k]
Unget(st, c) == [st EXCEPT !.ungot = <<c>>]
App(st, c) == [st EXCEPT !.tok = Append(@, c)]
AppTok(st, c) == [st EXCEPT !.tok = Append(@, c), !.phase = "tok"]
CApp(st, c) == [st EXCEPT !.cbuf = Append(@, c)]
Quoted(st) == st.tt = "QUOTED_STRING"
EndIdent(st, c) == Emit(Unget(st, c), Tok("IDENTIFIER", st.tok, st.esc, NoCmt))
NonWsInLead(st, c) == IF st.wl /\ st.skipped THEN Emit(Unget(st, c), TokWS)
                      ELSE [Unget(st, c) EXCEPT !.phase = "start"]
EndComment(st, c) ==    \* c is a newline or the end of input
    IF st.wc THEN Emit(Unget(st, c), Tok("COMMENT", st.cbuf, FALSE, NoCmt))
    ELSE IF c = EOFC THEN (IF st.ml > 0 THEN Abort(st, "SyntaxError") ELSE Emit(st, TokEOF(Cmt(st.cbuf))))
    ELSE IF st.ml > 0 THEN [st EXCEPT !.phase = "start", !.cbuf = <<>>]
    ELSE Emit(st, TokEOL(Cmt(st.cbuf)))

\* ---------------------------------------------------------------- one operator per class
OnSpace(st, c) ==
    CASE st.phase = "lead"  -> [st EXCEPT !.skipped = TRUE]
      [] st.phase = "start" -> st
      [] st.phase = "tok"   -> IF Quoted(st) THEN App(st, c) ELSE EndIdent(st, c)
      [] st.phase = "esc"   -> AppTok(st, c)
      [] st.phase = "cmt"   -> CApp(st, c)
OnNewline(st, c) ==
    CASE st.phase = "lead"  -> IF st.ml > 0 THEN [st EXCEPT !.skipped = TRUE] ELSE NonWsInLead(st, c)
      [] st.phase = "start" -> IF st.ml > 0 THEN st ELSE Emit(st, TokEOL(NoCmt))
      [] st.phase = "tok"   -> IF Quoted(st) THEN Abort(st, "SyntaxError") ELSE EndIdent(st, c)
      [] st.phase = "esc"   -> IF st.quoting THEN AppTok(st, c) ELSE Abort(st, "UnexpectedEnd")
      [] st.phase = "cmt"   -> EndComment(st, c)
OnQuote(st, c) ==
    CASE st.phase = "lead"  -> NonWsInLead(st, c)
      [] st.phase = "start" -> IF ~st.quoting
                               THEN [st EXCEPT !.quoting = TRUE, !.tt = "QUOTED_STRING", !.phase = "tok"]
                               ELSE [st EXCEPT !.quoting = FALSE]
      [] st.phase = "tok"   -> IF Quoted(st) THEN Emit(Unget(st, c), Tok("QUOTED_STRING", st.tok, st.esc, NoCmt))
                               ELSE EndIdent(st, c)
      [] st.phase = "esc"   -> AppTok(st, c)
      [] st.phase = "cmt"   -> CApp(st, c)
OnLparen(st, c) ==
    CASE st.phase = "lead"  -> NonWsInLead(st, c)
      [] st.phase = "start" -> [st EXCEPT !.ml = @ + 1]
      [] st.phase = "tok"   -> IF Quoted(st) THEN App(st, c) ELSE EndIdent(st, c)
      [] st.phase = "esc"   -> AppTok(st, c)
      [] st.phase = "cmt"   -> CApp(st, c)
OnRparen(st, c) ==
    CASE st.phase = "lead"  -> NonWsInLead(st, c)
      [] st.phase = "start" -> IF st.ml <= 0 THEN Abort(st, "SyntaxError") ELSE [st EXCEPT !.ml = @ - 1]
      [] st.phase = "tok"   -> IF Quoted(st) THEN App(st, c) ELSE EndIdent(st, c)
      [] st.phase = "esc"   -> AppTok(st, c)
      [] st.phase = "cmt"   -> CApp(st, c)
OnSemicolon(st, c) ==
    CASE st.phase = "lead"  -> NonWsInLead(st, c)
      [] st.phase = "start" -> [st EXCEPT !.phase = "cmt", !.cbuf = <<>>]
      [] st.phase = "tok"   -> IF Quoted(st) THEN App(st, c) ELSE EndIdent(st, c)
      [] st.phase = "esc"   -> AppTok(st, c)
      [] st.phase = "cmt"   -> CApp(st, c)
OnBackslash(st, c) ==
    CASE st.phase = "lead"  -> NonWsInLead(st, c)
      [] st.phase \in {"start", "tok"} -> [st EXCEPT !.tok = Append(@, c), !.esc = TRUE, !.phase = "esc"]
      [] st.phase = "esc"   -> AppTok(st, c)
      [] st.phase = "cmt"   -> CApp(st, c)
OnOther(st, c) ==
    CASE st.phase = "lead"  -> NonWsInLead(st, c)
      [] st.phase \in {"start", "tok", "esc"} -> AppTok(st, c)
      [] st.phase = "cmt"   -> CApp(st, c)
OnEof(st, c) ==
    CASE st.phase = "lead"  -> NonWsInLead(st, c)
      [] st.phase = "start" -> IF st.ml > 0 THEN Abort(st, "SyntaxError") ELSE Emit(st, TokEOF(NoCmt))
      [] st.phase = "tok"   -> IF Quoted(st) THEN Abort(st, "UnexpectedEnd") ELSE EndIdent(st, c)
      [] st.phase = "esc"   -> Abort(st, "UnexpectedEnd")
      [] st.phase = "cmt"   -> EndComment(st, c)

Step(st, c) == LET k == Class(c) IN
    CASE k = "space" -> OnSpace(st, c)     [] k = "newline" -> OnNewline(st, c)
      [] k = "quote" -> OnQuote(st, c)     [] k = "lparen" -> OnLparen(st, c)
      [] k = "rparen" -> OnRparen(st, c)   [] k = "semicolon" -> OnSemicolon(st, c)
      [] k = "backslash" -> OnBackslash(st, c) [] k = "other" -> OnOther(st, c)
      [] k = "eof" -> OnEof(st, c)

\* ---------------------------------------------------------------- get() / unget()
Begin(st, wl, wc) == [st EXCEPT !.phase = "lead", !.skipped = FALSE, !.wl = wl, !.wc = wc, !.last = <<>>,
                                !.tok = <<>>, !.tt = "IDENTIFIER", !.esc = FALSE, !.cbuf = <<>>]
GetCall(st, wl, wc) ==
    IF st.utok = <<>> THEN Begin(st, wl, wc)
    ELSE LET u == st.utok[1]  s1 == [st EXCEPT !.utok = <<>>] IN
         IF u.tt = "WHITESPACE" THEN (IF wl THEN Emit(s1, u) ELSE Begin(s1, wl, wc))
         ELSE IF u.tt = "COMMENT" THEN (IF wc THEN Emit(s1, u) ELSE Begin(s1, wl, wc))
         ELSE Emit(s1, u)
UngetTok(st) == [st EXCEPT !.utok = st.last]

\* ---------------------------------------------------------------- as a pure function
RECURSIVE RunGet(_, _, _)      \* run character steps until the get() returns or fails
RunGet(st, s, i) ==
    IF st.status # "run" \/ st.phase = "idle" THEN <<st, i>>
    ELSE IF st.ungot # <<>> THEN RunGet(Step([st EXCEPT !.ungot = <<>>], st.ungot[1]), s, i)
    ELSE IF i > Len(s) THEN RunGet(Step(st, EOFC), s, i)
    ELSE RunGet(Step(st, s[i]), s, i + 1)
GetTok(st, s, i, wl, wc) == RunGet(GetCall(st, wl, wc), s, i)
ErrTok(k) == Tok(k, <<>>, FALSE, NoCmt)
RECURSIVE TokensFrom(_, _, _)
TokensFrom(st, s, i) ==
    LET r == GetTok(st, s, i, FALSE, FALSE) IN
    IF r[1].status # "run" THEN <<ErrTok(r[1].status)>>
    ELSE LET tk == r[1].last[1] IN IF tk.tt = "EOF" THEN <<tk>> ELSE <<tk>> \o TokensFrom(r[1], s, r[2])
Tokenize(s) == TokensFrom(InitSt, s, 1)

\* ---------------------------------------------------------------- the specification
CONSTANTS Alphabet,   \* characters the environment may supply
          MaxLen      \* bound on the number of characters supplied (model checking only)
VARIABLES ungot, ml, quoting, tok, tt, esc, phase, skipped, wl, wc, cbuf, status, last, utok,
          nread,      \* characters supplied so far
          eofSeen     \* the end of input was read (it is sticky)
svars == <<ungot, ml, quoting, tok, tt, esc, phase, skipped, wl, wc, cbuf, status, last, utok>>
vars == <<svars, nread, eofSeen>>

Cur == [ungot |-> ungot, ml |-> ml, quoting |-> quoting, tok |-> tok, tt |-> tt, esc |-> esc, phase |-> phase,
        skipped |-> skipped, wl |-> wl, wc |-> wc, cbuf |-> cbuf, status |-> status, last |-> last, utok |-> utok]
Set(r) == /\ ungot' = r.ungot /\ ml' = r.ml /\ quoting' = r.quoting /\ tok' = r.tok /\ tt' = r.tt /\ esc' = r.esc
          /\ phase' = r.phase /\ skipped' = r.skipped /\ wl' = r.wl /\ wc' = r.wc /\ cbuf' = r.cbuf
          /\ status' = r.status /\ last' = r.last /\ utok' = r.utok
StInit == /\ ungot = <<>> /\ ml = 0 /\ quoting = FALSE /\ tok = <<>> /\ tt = "IDENTIFIER" /\ esc = FALSE
          /\ phase = "idle" /\ skipped = FALSE /\ wl = FALSE /\ wc = FALSE /\ cbuf = <<>>
          /\ status = "run" /\ last = <<>> /\ utok = <<>>
Init == StInit /\ nread = 0 /\ eofSeen = FALSE

\* the character handled by a step: the pushed-back one, else a fresh one from the environment
Reads(c) == IF ungot # <<>> THEN c = ungot[1] /\ UNCHANGED <<nread, eofSeen>>
            ELSE /\ eofSeen => c = EOFC
                 /\ c # EOFC => nread < MaxLen
                 /\ nread' = IF c = EOFC THEN nread ELSE nread + 1
                 /\ eofSeen' = (eofSeen \/ c = EOFC)
Base == [Cur EXCEPT !.ungot = <<>>]
CharAct(k, F(_, _)) == /\ status = "run" /\ phase # "idle"
                       /\ \E c \in Alphabet \cup {EOFC} : Class(c) = k /\ Reads(c) /\ Set(F(Base, c))
Space     == CharAct("space", OnSpace)
Newline   == CharAct("newline", OnNewline)
QuoteCh   == CharAct("quote", OnQuote)
Lparen    == CharAct("lparen", OnLparen)
Rparen    == CharAct("rparen", OnRparen)
Semicolon == CharAct("semicolon", OnSemicolon)
Backslash == CharAct("backslash", OnBackslash)
Other     == CharAct("other", OnOther)
Eof       == CharAct("eof", OnEof)
Get == /\ status = "run" /\ phase = "idle"
       /\ \E a, b \in BOOLEAN : Set(GetCall(Cur, a, b))
       /\ UNCHANGED <<nread, eofSeen>>
UngetT == /\ status = "run" /\ phase = "idle" /\ last # <<>> /\ utok = <<>>
          /\ Set(UngetTok(Cur)) /\ UNCHANGED <<nread, eofSeen>>
Next == Space \/ Newline \/ QuoteCh \/ Lparen \/ Rparen \/ Semicolon \/ Backslash \/ Other \/ Eof \/ Get \/ UngetT
Spec == Init /\ [][Next]_vars

\* ---------------------------------------------------------------- properties
Phases == {"idle", "lead", "start", "tok", "esc", "cmt"}
TypeOK == /\ Len(ungot) <= 1 /\ ml \in Nat /\ quoting \in BOOLEAN /\ tt \in {"IDENTIFIER", "QUOTED_STRING"}
          /\ esc \in BOOLEAN /\ phase \in Phases /\ status \in {"run", "SyntaxError", "UnexpectedEnd"}
          /\ Len(last) <= 1 /\ Len(utok) <= 1
DepthNonNeg == ml >= 0
\* quoting is on exactly while quoted text is being read or its closing quote is pushed back
QuoteState == /\ (tt = "QUOTED_STRING") => (quoting /\ phase \in {"tok", "esc"})
              /\ quoting => (tt = "QUOTED_STRING" \/ (ungot = <<QUO>> /\ phase \in {"idle", "lead", "start"}))
Returned(k) == phase = "idle" /\ last # <<>> /\ last[1].tt = k
\* a line / the input ends only outside parentheses and outside a quoted string
EolClosed == Returned("EOL") => (ml = 0 /\ ~quoting)
EofClosed == Returned("EOF") => (ml = 0 /\ ~quoting /\ eofSeen)
IsDelim(c) == Class(c) \in {"space", "newline", "quote", "lparen", "rparen", "semicolon", "eof"}
InD(c, d) == IF d = "delim" THEN IsDelim(c) ELSE (c = QUO \/ c = 10)
RECURSIVE EscapedOnly(_, _, _)     \* characters of set d occur only right after a backslash; no dangling backslash
EscapedOnly(v, i, d) == IF i > Len(v) THEN TRUE
                        ELSE IF v[i] = BSL THEN i + 1 <= Len(v) /\ EscapedOnly(v, i + 2, d)
                        ELSE ~InD(v[i], d) /\ EscapedOnly(v, i + 1, d)
TokenShape ==
    last # <<>> =>
      LET k == last[1] IN
      /\ k.tt \in {"EOF", "EOL", "WHITESPACE", "IDENTIFIER", "QUOTED_STRING", "COMMENT"}
      /\ k.tt = "IDENTIFIER" => (k.val # <<>> /\ EscapedOnly(k.val, 1, "delim") /\ (k.esc <=> HasBackslash(k.val)))
      /\ k.tt = "QUOTED_STRING" => (EscapedOnly(k.val, 1, "quote") /\ (k.esc <=> HasBackslash(k.val)))
      /\ k.tt \in {"EOF", "EOL", "WHITESPACE", "COMMENT"} => ~k.esc
      /\ k.tt = "COMMENT" => \A i \in 1..Len(k.val) : k.val[i] # 10
      /\ k.cmt # NoCmt => k.tt \in {"EOL", "EOF"}
\* the depth moves by single parentheses read outside tokens, comments and quotes
DepthSteps == [][ml' # ml => (phase = "start" /\ ~quoting /\ (ml' = ml + 1 \/ ml' = ml - 1))]_vars
\* a failed tokenizer stays failed; the state it failed in is kept
FailedStays == [][status # "run" => UNCHANGED vars]_vars
=============================================================================
