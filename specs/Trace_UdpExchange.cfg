INIT TraceInit
NEXT TraceNext
CONSTANTS
  Dgrams = {}
  Configs = {}
  MaxDgrams = 1000000
  MaxBlocks = 1000000
CONSTRAINT Accepted
POSTCONDITION Post
CHECK_DEADLOCK FALSE
