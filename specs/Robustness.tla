----------------------------- MODULE Robustness -----------------------------
(* C04 - untrusted wire or text input only ever raises the library's own errors.

   A FAULT GENERATOR.  The state is an input under construction: a small VALID input of
   one of nine kinds, built abstractly (a message as records of typed wire fields, a name
   as label / pointer items, one specimen per record type and EDNS option, text as lines
   of tokens with grammatical roles), plus the faults applied to it so far.  `Next` applies
   one more fault action at one more position; TLC therefore enumerates every single fault
   at every position (MaxFaults = 1) and every pair (MaxFaults = 2).  Every reachable
   state IS an input: `Bytes` / `Text` concretise it, and the operators of the last part
   state, per entry point and option vector, the ALLOWED OUTCOME SET and - where the
   grammar decides it - the exact verdict.  The wire verdicts come from the reference
   reader RobustWire!Read applied to the concretised octets.

   kinds:  msg (wire message)  namew (wire name)  rdw (wire RDATA)  optw (wire EDNS option)
           namet (text name)   rdt (text RDATA)   ttl (text TTL)    zone (zone file)
           msgt (text message) *)
EXTENDS RobustWire, RobustTable

CONSTANTS MaxFaults,      \* number of fault actions applied to one input
          Kinds,          \* kinds generated
          PairBases       \* bases on which a second fault is applied (all bases get one)

VARIABLES kind, base, lay, post, nf, hist
vars == <<kind, base, lay, post, nf, hist>>

(* ================================================================ wire message layouts
   A record is [sec, f]: sec 0 = question, 1..3 = answer / authority / additional; f = a
   sequence of fields <<kind, octets>>.  The question name www.example. sits at offset 12
   ("www" at 12, "example" at 16), so pointers to 12 and 16 stay valid wherever a record
   is moved. *)
Www == <<3, 119, 119, 119>>
Example == <<7, 101, 120, 97, 109, 112, 108, 101>>
Ptr(off) == <<192 + (off \div 256), off % 256>>
F(k, b) == <<k, b>>
RRHead(type, cls, ttl) == <<F("type", U16(type)), F("class", U16(cls)), F("ttl", ttl)>>
Q == [sec |-> 0, f |-> <<F("lab", Www), F("lab", Example), F("root", <<0>>), F("type", U16(1)), F("class", U16(1))>>]
TTL300 == <<0, 0, 1, 44>>
Zero4 == <<0, 0, 0, 0>>
RecA == [sec |-> 1, f |-> <<F("ptr", Ptr(12))>> \o RRHead(1, 1, TTL300) \o <<F("rdlen", U16(4)), F("rd", <<192, 0, 2, 1>>)>>]
RecNS == [sec |-> 2, f |-> <<F("ptr", Ptr(16))>> \o RRHead(2, 1, TTL300)
                         \o <<F("rdlen", U16(5)), F("lab", <<2, 110, 115>>), F("ptr", Ptr(16))>>]
RecOPT == [sec |-> 3, f |-> <<F("root", <<0>>)>> \o RRHead(41, 1232, Zero4)
                          \o <<F("rdlen", U16(6)), F("ocode", U16(65001)), F("olen", U16(2)), F("rd", <<171, 205>>)>>]
RecOPT0 == [sec |-> 3, f |-> <<F("root", <<0>>)>> \o RRHead(41, 512, Zero4) \o <<F("rdlen", U16(0))>>]
RecMX == [sec |-> 1, f |-> <<F("ptr", Ptr(12))>> \o RRHead(15, 1, TTL300)
                         \o <<F("rdlen", U16(7)), F("rd16", U16(10)), F("lab", <<2, 109, 120>>), F("ptr", Ptr(16))>>]
RecTXT == [sec |-> 1, f |-> <<F("ptr", Ptr(12))>> \o RRHead(16, 1, TTL300)
                          \o <<F("rdlen", U16(5)), F("cstr", <<1, 97>>), F("cstr", <<2, 98, 99>>)>>]
TsigRd == RdWire["TSIG"]
RecTSIG == [sec |-> 3, f |-> <<F("lab", <<3, 107, 101, 121>>), F("root", <<0>>)>> \o RRHead(250, 255, Zero4)
                           \o <<F("rdlen", U16(Len(TsigRd))), F("rd", TsigRd)>>]
RecUNK == [sec |-> 1, f |-> <<F("lab", <<1, 97>>), F("ptr", Ptr(16))>> \o RRHead(65280, 1, TTL300)
                          \o <<F("rdlen", U16(3)), F("rd", <<1, 2, 3>>)>>]
RecA2 == [sec |-> 3, f |-> <<F("lab", <<2, 110, 115>>), F("ptr", Ptr(16))>> \o RRHead(1, 1, TTL300)
                         \o <<F("rdlen", U16(4)), F("rd", <<192, 0, 2, 2>>)>>]

\* the records of the UPDATE base spell their owner out (no pointer), so that each stands on
\* its own when another record is removed
UName == <<F("lab", Www), F("lab", Example), F("root", <<0>>)>>
ZoneRec == [sec |-> 0, f |-> <<F("lab", Www), F("lab", Example), F("root", <<0>>), F("type", U16(6)), F("class", U16(1))>>]
RecPreAny == [sec |-> 1, f |-> UName \o RRHead(1, 255, Zero4) \o <<F("rdlen", U16(0))>>]
RecA2Upd == [sec |-> 2, f |-> UName \o RRHead(1, 1, TTL300) \o <<F("rdlen", U16(4)), F("rd", <<192, 0, 2, 3>>)>>]
RecDelNone == [sec |-> 2, f |-> UName \o RRHead(1, 254, Zero4) \o <<F("rdlen", U16(4)), F("rd", <<192, 0, 2, 4>>)>>]
NoCnt == <<-1, -1, -1, -1>>
Msg(flags, recs) == [flags |-> flags, recs |-> recs, cnt |-> NoCnt]
MsgBases == [M1 |-> Msg(256, <<Q>>),
             M2 |-> Msg(33152, <<Q, RecA, RecNS, RecOPT>>),
             M3 |-> Msg(33152, <<Q, RecMX, RecTXT, RecTSIG>>),
             M4 |-> Msg(33152, <<Q, RecUNK, RecA2, RecOPT0>>),
             M5 |-> Msg(33664, <<Q>>),                      \* TC set
             \* RFC 2136 UPDATE (opcode 5): zone section, a prerequisite of class ANY (RRset exists),
             \* an added record (class IN) and a deleted one (class NONE)
             M6 |-> Msg(10240, <<ZoneRec, RecPreAny, RecA2Upd, RecDelNone>>)]

RECURSIVE Cat(_)
Cat(ss) == IF ss = <<>> THEN <<>> ELSE ss[1] \o Cat(Tail(ss))
RecBytes(r) == Cat([i \in 1..Len(r.f) |-> r.f[i][2]])
SecCount(m, s) == IF m.cnt[s + 1] >= 0 THEN m.cnt[s + 1]
                  ELSE Cardinality({i \in 1..Len(m.recs) : m.recs[i].sec = s})
MsgBytes(m) == U16(258) \o U16(m.flags) \o U16(SecCount(m, 0)) \o U16(SecCount(m, 1))
               \o U16(SecCount(m, 2)) \o U16(SecCount(m, 3)) \o Cat([i \in 1..Len(m.recs) |-> RecBytes(m.recs[i])])
\* offset of field i of record r
RECURSIVE SumLen(_, _)
SumLen(fs, n) == IF n = 0 THEN 0 ELSE Len(fs[n][2]) + SumLen(fs, n - 1)
RECURSIVE RecsLen(_, _)
RecsLen(rs, n) == IF n = 0 THEN 0 ELSE Len(RecBytes(rs[n])) + RecsLen(rs, n - 1)
FieldOff(m, r, i) == 12 + RecsLen(m.recs, r - 1) + SumLen(m.recs[r].f, i - 1)

(* ---------------------------------------------------------------- field fault actions
   FlipLen / BadLabelType / PointerTo(self | forward | mid-label | header) / RdlenMismatch /
   counted-string and option length / TTL bits, as the set of octet strings a field may be
   replaced by.  off = the offset of the field. *)
Bytes1(S) == {v \in S : v >= 0 /\ v <= 255}
Variants(k, b, off) ==
    CASE k = "lab" -> {<<v>> \o Tail(b) : v \in Bytes1({0, b[1] - 1, b[1] + 1, 63, 64, 128, 192})}
                      \cup {Ptr(off), Ptr(off + 2), Ptr(13), Ptr(0)}
      [] k = "ptr" -> {Ptr(off), Ptr(off + 2), Ptr(13), Ptr(0), <<b[1], b[2] + 1>>, <<b[1]>>}
      [] k = "root" -> {Ptr(off), Ptr(off + 2), <<1>>, <<64>>, <<>>}
      [] k = "rdlen" -> {<<b[1], v>> : v \in Bytes1({0, b[2] - 1, b[2] + 1, b[2] + 8})} \cup {<<1, b[2]>>}
      [] k = "rd" -> IF b = <<>> THEN {<<7>>} ELSE {SubSeq(b, 1, Len(b) - 1), b \o <<7>>,
                                                            IF Len(b) >= 2 THEN <<b[1], 120>> \o SubSeq(b, 3, Len(b)) ELSE <<120>>}
      [] k = "cstr" -> {<<v>> \o Tail(b) : v \in Bytes1({b[1] - 1, b[1] + 1, 255})}
      [] k = "olen" -> {<<b[1], v>> : v \in Bytes1({b[2] - 1, b[2] + 1})}
      [] k = "ttl" -> {<<128>> \o Tail(b), <<b[1], b[2], b[3], b[4] + 1>>}
      [] OTHER -> {}

SetField(m, r, i, nb) ==
    [m EXCEPT !.recs[r].f[i] = <<"faulted", nb>>]      \* a faulted field is not faulted again
IsType(rec, t) == \E i \in 1..Len(rec.f) : rec.f[i] = F("type", U16(t))
RecsOfType(m, t) == {r \in 1..Len(m.recs) : IsType(m.recs[r], t)}
Remove(s, r) == SubSeq(s, 1, r - 1) \o SubSeq(s, r + 1, Len(s))
Insert(s, r, x) == SubSeq(s, 1, r - 1) \o <<x>> \o SubSeq(s, r, Len(s))   \* x becomes element r
\* position of the first record of a section > sec (or the end): where a record moved to
\* section sec is appended
EndOfSec(m, sec) == IF \E r \in 1..Len(m.recs) : m.recs[r].sec > sec
                    THEN CHOOSE r \in 1..Len(m.recs) : m.recs[r].sec > sec /\ \A q \in 1..(r - 1) : m.recs[q].sec <= sec
                    ELSE Len(m.recs) + 1

(* the fault actions applicable to a message layout, as descriptors:
   fld r i nb    field i of record r replaced by the octets nb (Variants)
   cnt s n       SetCount: the header count of section s says n
   tc            the TC flag is set
   mv r sec      OptInWrongSection / TSIG in a wrong section: record r moved to section sec
   dup r         SecondOpt: record r (an OPT) repeated
   after r       TsigNotLast: an address record appended after record r (a TSIG)
   del r         record r (question / zone record included) removed, its section count with it *)
FieldFaults(m) ==
    UNION {UNION {{<<"fld", r, i, nb>> : nb \in Variants(m.recs[r].f[i][1], m.recs[r].f[i][2], FieldOff(m, r, i))}
                  : i \in 1..Len(m.recs[r].f)} : r \in 1..Len(m.recs)}
CountFaults(m) ==
    UNION {{<<"cnt", s, n>> : n \in {0, SecCount(m, s) - 1, SecCount(m, s) + 1, 65535} \ {SecCount(m, s), -1}}
           : s \in {s \in 0..3 : m.cnt[s + 1] = -1}}        \* a count is overridden once
Special(m) == RecsOfType(m, 41) \cup RecsOfType(m, 250)
MsgFaults(m) ==
    FieldFaults(m) \cup CountFaults(m)
    \cup (IF HasBit(m.flags, TC) THEN {} ELSE {<<"tc">>})
    \cup {<<"mv", r, sec>> : r \in Special(m), sec \in 1..2}
    \cup {<<"dup", r>> : r \in RecsOfType(m, 41)}
    \cup {<<"after", r>> : r \in RecsOfType(m, 250)}
    \cup {<<"del", r>> : r \in 1..Len(m.recs)}
MoveRec(m, r, sec) ==
    LET rec == [m.recs[r] EXCEPT !.sec = sec]
        m2 == [m EXCEPT !.recs = Remove(m.recs, r)]
    IN [m2 EXCEPT !.recs = Insert(m2.recs, EndOfSec(m2, sec), rec)]
ApplyMsg(m, f) ==
    CASE f[1] = "fld" -> SetField(m, f[2], f[3], f[4])
      [] f[1] = "cnt" -> [m EXCEPT !.cnt[f[2] + 1] = f[3]]
      [] f[1] = "tc" -> [m EXCEPT !.flags = m.flags + TC]
      [] f[1] = "mv" -> MoveRec(m, f[2], f[3])
      [] f[1] = "dup" -> [m EXCEPT !.recs = Insert(m.recs, f[2], m.recs[f[2]])]
      [] f[1] = "after" -> [m EXCEPT !.recs = Insert(m.recs, f[2] + 1, RecA2)]
      [] f[1] = "del" -> [m EXCEPT !.recs = Remove(m.recs, f[2])]

(* ================================================================ wire names, RDATA, options
   namew: [f, cur]: a buffer of name fields, the name to read starts at offset cur.
   rdw / optw: [id, b, len, extra]: the specimen octets b (from RobustTable), the length
   announced to the parser, octets following the specimen; the buffer is NPrefix \o b \o
   extra and the RDATA / option starts at offset Len(NPrefix). *)
NameBases == [N1 |-> [f |-> <<F("lab", Www), F("lab", Example), F("root", <<0>>)>>, cur |-> 0],
              N2 |-> [f |-> <<F("lab", Www), F("lab", Example), F("root", <<0>>), F("lab", <<2, 110, 115>>), F("ptr", Ptr(4))>>,
                      cur |-> 13]]
NameBytes(n) == Cat([i \in 1..Len(n.f) |-> n.f[i][2]])
NameFaults(n) == UNION {{<<"fld", 1, i, nb>> : nb \in Variants(n.f[i][1], n.f[i][2], SumLen(n.f, i - 1))} : i \in 1..Len(n.f)}
                 \cup {<<"cur", c>> : c \in {n.cur + 1, Len(NameBytes(n)), Len(NameBytes(n)) + 1}}
ApplyName(n, f) == IF f[1] = "fld" THEN [n EXCEPT !.f[f[3]] = <<"faulted", f[4]>>] ELSE [n EXCEPT !.cur = f[2]]

NPrefix == <<3, 119, 119, 119, 0>>
Spec(id, b) == [id |-> id, b |-> b, len |-> Len(b), extra |-> <<>>]
SpecBytes(x) == NPrefix \o x.b \o x.extra
\* Truncate(k) at every k; length one short / one long / over the end; SetByte(k, v)
SpecFaults(x) ==
    {<<"cut", k>> : k \in 0..(Len(x.b) - 1)}
    \cup {<<"short">>, <<"long">>, <<"over">>}
    \cup {<<"setb", k, v>> : k \in 1..Len(x.b), v \in {0, 192, 255}}
ApplySpec(x, f) ==
    CASE f[1] = "cut" -> [x EXCEPT !.b = SubSeq(x.b, 1, f[2]), !.len = IF x.len > f[2] THEN f[2] ELSE x.len]
      [] f[1] = "short" -> [x EXCEPT !.len = IF x.len > 0 THEN x.len - 1 ELSE 0]
      [] f[1] = "long" -> [x EXCEPT !.len = x.len + 1, !.extra = x.extra \o <<0>>]
      [] f[1] = "over" -> [x EXCEPT !.len = Len(x.b) + Len(x.extra) + 1]
      [] f[1] = "setb" -> [x EXCEPT !.b[f[2]] = f[3]]

(* optm: [id, code, b]: an EDNS option (specimen body b of option code `code`) inside the OPT
   record of a response message; the same octets are also read as an OPT RDATA on its own.
   Faults act on the BODY and keep the option length and RDLENGTH consistent, so what is
   faulted is the option's own grammar, not the framing: cut the body at every k, SetByte. *)
OptmRdata(x) == U16(x.code) \o U16(Len(x.b)) \o x.b
OptmBytes(x) == U16(258) \o U16(33152) \o U16(1) \o U16(0) \o U16(0) \o U16(1) \o RecBytes(Q)
                \o <<0>> \o U16(41) \o U16(1232) \o Zero4 \o U16(Len(OptmRdata(x))) \o OptmRdata(x)
OptmCur == 12 + Len(RecBytes(Q)) + 11
OptmFaults(x) == {<<"cut", k>> : k \in 0..(Len(x.b) - 1)} \cup {<<"setb", k, v>> : k \in 1..Len(x.b), v \in {0, 192, 255}}
ApplyOptm(x, f) == IF f[1] = "cut" THEN [x EXCEPT !.b = SubSeq(x.b, 1, f[2])] ELSE [x EXCEPT !.b[f[2]] = f[3]]

(* ================================================================ text inputs
   A text input is [lines, sep, nl]: lines of tokens <<role, string>>; tokens are joined by
   sep ("." for a name, " " otherwise), lines by a newline (nl: also after the last one).
   Roles: label | owner | ttl | class | type | name | int | str | ip | dir | any. *)
T(role, s) == <<role, s>>
RECURSIVE JoinToks(_, _)
JoinToks(ts, sep) == IF ts = <<>> THEN "" ELSE IF Len(ts) = 1 THEN ts[1][2] ELSE ts[1][2] \o sep \o JoinToks(Tail(ts), sep)
RECURSIVE JoinLines(_, _, _)
JoinLines(ls, sep, nl) == IF ls = <<>> THEN ""
                          ELSE JoinToks(ls[1], sep) \o (IF Len(ls) > 1 \/ nl THEN "\n" ELSE "") \o JoinLines(Tail(ls), sep, nl)
Text(x) == JoinLines(x.lines, x.sep, x.nl)
One(ts, sep) == [lines |-> <<ts>>, sep |-> sep, nl |-> FALSE]

\* HugeNumber: a 5000-digit string (beyond what a careless text-to-integer conversion accepts)
D10 == "9999999999"
D50 == D10 \o D10 \o D10 \o D10 \o D10
D250 == D50 \o D50 \o D50 \o D50 \o D50
D1000 == D250 \o D250 \o D250 \o D250
D5000 == D1000 \o D1000 \o D1000 \o D1000 \o D1000
A64 == "aaaaaaaaaaaaaaaaaaaaaaaaaaaaaaaaaaaaaaaaaaaaaaaaaaaaaaaaaaaaaaaa"
A63 == "aaaaaaaaaaaaaaaaaaaaaaaaaaaaaaaaaaaaaaaaaaaaaaaaaaaaaaaaaaaaaaa"
NameTBases == [T1 |-> One(<<T("label", "www"), T("label", "example"), T("label", "")>>, "."),
               T2 |-> One(<<T("label", "a\\046b"), T("label", "ex\\.ample")>>, "."),
               T3 |-> One(<<T("label", "*"), T("label", A63), T("label", "")>>, "."),
               \* a non-ASCII name (cafe with E ACUTE): read through the IDNA path
               T4 |-> One(<<T("label", "caf{U+00E9}"), T("label", "example"), T("label", "")>>, ".")]
TtlBases == [L1 |-> One(<<T("ttl", "300")>>, " "), L2 |-> One(<<T("ttl", "1h30m")>>, " "),
             L3 |-> One(<<T("ttl", "1w2d3h4m5s")>>, " "), L4 |-> One(<<T("ttl", "4294967295")>>, " ")]
\* LOC and GPOS fields are floating-point numbers
RdtBase(k) == [lines |-> <<[i \in 1..Len(RdToks[k]) |-> T(IF k \in {"LOC", "GPOS"} THEN "float" ELSE "any", RdToks[k][i])]>>,
               sep |-> " ", nl |-> FALSE]
\* rdg: the generic (RFC 3597 section 5) text  \# <length> <hex ...>  of a specimen, for known and unknown types
GenRole(i) == IF i = 1 THEN "gmark" ELSE IF i = 2 THEN "glen" ELSE "ghex"
RdgBase(k) == [lines |-> <<[i \in 1..Len(RdGenToks[k]) |-> T(GenRole(i), RdGenToks[k][i])]>>, sep |-> " ", nl |-> FALSE]
ZLine(ts) == ts
ZoneBases ==
    [Z1 |-> [sep |-> " ", nl |-> TRUE, lines |-> <<
        <<T("dir", "$ORIGIN"), T("name", "example.")>>,
        <<T("dir", "$TTL"), T("ttl", "300")>>,
        <<T("owner", "@"), T("class", "IN"), T("type", "SOA"), T("name", "ns"), T("name", "hostmaster"),
          T("int", "1"), T("int", "7200"), T("int", "900"), T("int", "1209600"), T("int", "300")>>,
        <<T("owner", "@"), T("type", "NS"), T("name", "ns")>> >>],
     Z2 |-> [sep |-> " ", nl |-> TRUE, lines |-> <<
        <<T("owner", "@"), T("ttl", "300"), T("class", "IN"), T("type", "SOA"), T("name", "ns.example."),
          T("name", "h.example."), T("int", "1"), T("int", "2"), T("int", "3"), T("int", "4"), T("int", "5")>>,
        <<T("owner", "ns"), T("ttl", "60"), T("class", "IN"), T("type", "TXT"), T("str", "\"a b\""), T("str", "c")>>,
        <<T("owner", "www"), T("type", "A"), T("ip", "192.0.2.1")>>,
        <<T("owner", "mail"), T("type", "MX"), T("int", "10"), T("name", "mail")>> >>],
     \* nothing but a comment: a zone without records (and, without an origin argument, without origin)
     Z3 |-> [sep |-> " ", nl |-> TRUE, lines |-> << <<T("comment", "; no records")>> >>],
     \* $GENERATE with a range, a modifier ${offset,width,base} and a plain $ (BIND 9 ARM)
     Z4 |-> [sep |-> " ", nl |-> TRUE, lines |-> <<
        <<T("dir", "$ORIGIN"), T("name", "example.")>>,
        <<T("dir", "$TTL"), T("ttl", "300")>>,
        <<T("owner", "@"), T("class", "IN"), T("type", "SOA"), T("name", "ns"), T("name", "hostmaster"),
          T("int", "1"), T("int", "7200"), T("int", "900"), T("int", "1209600"), T("int", "300")>>,
        <<T("dir", "$GENERATE"), T("grange", "1-3"), T("gmod", "host${0,2,d}"), T("type", "A"), T("gmodr", "10.0.0.${0,1}")>> >>],
     \* generic text of a known and of an unknown type
     Z5 |-> [sep |-> " ", nl |-> TRUE, lines |-> <<
        <<T("dir", "$ORIGIN"), T("name", "example.")>>,
        <<T("dir", "$TTL"), T("ttl", "300")>>,
        <<T("owner", "a"), T("type", "A"), T("gmark", "\\#"), T("glen", "4"), T("ghex", "c000"), T("ghex", "02"), T("ghex", "0"), T("ghex", "1")>>,
        <<T("owner", "b"), T("type", "TYPE65280"), T("gmark", "\\#"), T("glen", "4"), T("ghex", "0a00"), T("ghex", "00"), T("ghex", "0"), T("ghex", "1")>> >>]]
\* zinc: a zone whose lines c+1 .. d live in an $INCLUDEd file.  Every line of the base is
\* self-contained (own TTL and class), so that no split changes what the zone means.  The
\* layout keeps the lines together; (c, d) is chosen by the first action ("split").
ZincBases ==
    [ZI |-> [sep |-> " ", nl |-> TRUE, c |-> 0, d |-> 0, lines |-> <<
        <<T("owner", "@"), T("ttl", "300"), T("class", "IN"), T("type", "SOA"), T("name", "ns.example."),
          T("name", "h.example."), T("int", "1"), T("int", "2"), T("int", "3"), T("int", "4"), T("int", "5")>>,
        <<T("owner", "ns"), T("ttl", "60"), T("class", "IN"), T("type", "TXT"), T("str", "\"a b\""), T("str", "c")>>,
        <<T("owner", "www"), T("ttl", "300"), T("class", "IN"), T("type", "A"), T("ip", "192.0.2.1")>>,
        <<T("owner", "mail"), T("ttl", "300"), T("class", "IN"), T("type", "MX"), T("int", "10"), T("name", "mail")>> >>]]
IncLine == <<T("dir", "$INCLUDE"), T("any", "sub.zone")>>
ZincMain(x) == [lines |-> SubSeq(x.lines, 1, x.c) \o <<IncLine>> \o SubSeq(x.lines, x.d + 1, Len(x.lines)), sep |-> x.sep, nl |-> TRUE]
ZincSub(x) == [lines |-> SubSeq(x.lines, x.c + 1, x.d), sep |-> x.sep, nl |-> TRUE]
\* <<file, line>> of line l of the layout: file 0 = the top file, 1 = the included one
ZincLoc(x, l) == IF l <= x.c THEN <<0, l>> ELSE IF l <= x.d THEN <<1, l - x.c>> ELSE <<0, l - x.d + x.c + 1>>
ZincLen(x, file) == IF file = 1 THEN x.d - x.c ELSE Len(x.lines) - (x.d - x.c) + 1
MsgTBases ==
    [X1 |-> [sep |-> " ", nl |-> TRUE, lines |-> <<
        <<T("any", "id"), T("int", "1234")>>,
        <<T("any", "opcode"), T("any", "QUERY")>>,
        <<T("any", "rcode"), T("any", "NOERROR")>>,
        <<T("any", "flags"), T("any", "QR"), T("any", "RD")>>,
        <<T("any", "edns"), T("int", "0")>>,
        <<T("any", "eflags"), T("any", "DO")>>,
        <<T("any", "payload"), T("int", "1232")>>,
        <<T("any", ";QUESTION")>>,
        <<T("owner", "www.example."), T("class", "IN"), T("type", "A")>>,
        <<T("any", ";ANSWER")>>,
        <<T("owner", "www.example."), T("ttl", "300"), T("class", "IN"), T("type", "A"), T("ip", "192.0.2.1")>> >>]]

(* ---------------------------------------------------------------- text fault actions
   tok l i name      token i of line l replaced by the named variant of itself
   drop l i          MissingField        add l          ExtraField (a token appended)
   ins l name        LeadingDirectiveGarbage: a garbage line inserted before line l *)
TokVariant(name, s) ==
    CASE name = "emptyq" -> "\"\""                        \* EmptyQuotedToken
      [] name = "unterm" -> "\"" \o s                     \* UnterminatedQuote
      [] name = "nlq" -> "\"" \o s \o "\n\""              \* NewlineInQuote
      [] name = "esc0" -> s \o "\\"                       \* BadEscape: a lone backslash
      [] name = "esc1" -> s \o "\\1"                      \*   \D
      [] name = "esc2" -> s \o "\\12"                     \*   \DD
      [] name = "esc256" -> s \o "\\256"                  \*   \256 .. \999
      [] name = "esc999" -> "\\999" \o s
      [] name = "popen" -> "( " \o s                      \* UnbalancedParen
      [] name = "pclose" -> s \o " )"
      [] name = "badttl" -> "3x"                          \* BadTTL
      [] name = "bogus" -> "BOGUS"                        \* UnknownType / UnknownClass
      [] name = "bigtype" -> "TYPE65536"
      [] name = "bigclass" -> "CLASS65536"
      [] name = "empty" -> ""
      [] name = "long" -> A64
      [] name = "dirgarbage" -> "$BOGUS"
      [] name = "neg1" -> "-1"                            \* numeric extremes (any field)
      [] name = "big32" -> "4294967296"
      [] name = "big9" -> "999999999"
      [] name = "huge" -> "99999999999999999999"
      [] name = "huge5000" -> D5000                      \* HugeNumber
      [] name = "hugeunit" -> D5000 \o "s"
      [] name = "escbig9" -> s \o "\\999999999"          \*   in a \DDD... escape
      [] name = "eschuge" -> s \o "\\" \o D5000
      [] name = "hugetype" -> "TYPE" \o D5000
      [] name = "hugeclass" -> "CLASS" \o D5000
      [] name = "gr-stophuge" -> "1-" \o D5000            \*   $GENERATE range start-stop/step
      [] name = "gr-starthuge" -> D5000 \o "-3"
      [] name = "gr-stephuge" -> "1-3/" \o D5000
      [] name = "gr-big9" -> "999999998-999999999"       \*   (a 9-digit range LENGTH is the caller's own work factor)
      [] name = "gr-step9" -> "1-3/999999999"
      [] name = "gm-offhuge" -> "host${" \o D5000 \o ",2,d}"   \*   $GENERATE modifier ${offset,width,base}
      [] name = "gm-widthhuge" -> "host${0," \o D5000 \o ",d}"
      [] name = "gm-off9" -> "host${999999999,2,d}"
      [] name = "gm-width9" -> "host${0,999999999,d}"
      \* \DDD escapes whose "digits" are not ASCII: SUPERSCRIPT TWO / THREE, CIRCLED DIGIT ONE (digits
      \* that are no decimals), ARABIC-INDIC DIGIT THREE (a non-ASCII decimal).  A TLA+ string is
      \* ASCII, so a code point travels as {U+XXXX}; the driver decodes that before the call.
      [] name = "escsup" -> s \o "\\{U+00B2}"
      [] name = "esc1sup" -> s \o "\\1{U+00B2}{U+00B3}"
      [] name = "esc12circ" -> s \o "\\12{U+2460}"
      [] name = "escnd" -> s \o "\\{U+0663}{U+0663}{U+0663}"
      [] name = "nonhex1" -> s \o "g"                     \* generic form: a non-hex character (odd / even count)
      [] name = "nonhex2" -> s \o "gg"
      [] name = "hexmore" -> s \o "00"                    \*   more octets than the length says
      [] name = "zero" -> "0"                             \*   fewer
      [] name = "f-nan" -> "nan"                          \* float spellings
      [] name = "f-pnan" -> "+NaN"
      [] name = "f-nanm" -> "nanm"
      [] name = "f-inf" -> "inf"
      [] name = "f-ninf" -> "-inf"
      [] name = "f-e999" -> "1e999"
      [] name = "f-em999" -> "1e-999"
      [] name = "f-hex" -> "0x1.8p3"
      \*   the two-field form ${offset,width}, and both forms on the right-hand side
      [] name = "gm2-offhuge" -> "host${" \o D5000 \o ",2}"
      [] name = "gm2-widthhuge" -> "host${0," \o D5000 \o "}"
      [] name = "gm2-off9" -> "host${999999999,2}"
      [] name = "gm2-width9" -> "host${0,999999999}"
      [] name = "rm-offhuge" -> "10.0.0.${" \o D5000 \o ",1,d}"
      [] name = "rm-widthhuge" -> "10.0.0.${0," \o D5000 \o ",d}"
      [] name = "rm-off9" -> "10.0.0.${999999999,1,d}"
      [] name = "rm-width9" -> "10.0.0.${0,999999999,d}"
      [] name = "rm2-offhuge" -> "10.0.0.${" \o D5000 \o ",1}"
      [] name = "rm2-widthhuge" -> "10.0.0.${0," \o D5000 \o "}"
      [] name = "rm2-off9" -> "10.0.0.${999999999,1}"
      [] name = "rm2-width9" -> "10.0.0.${0,999999999}"
      [] name = "altlow" -> "-100001.00m"                 \* below / above what LOC can encode
      [] name = "althigh" -> "42849673.00m"
EscNames == {"esc0", "esc1", "esc2", "esc256", "esc999", "escbig9", "eschuge"}
QuoteNames == {"emptyq", "unterm", "nlq", "popen", "pclose"}
NumNames == {"neg1", "big32", "big9", "huge", "huge5000", "altlow", "althigh"}
\* variants carrying a 5000-digit string: applied as the only fault of an input (pairs with
\* them would only multiply the volume of text)
UniEscNames == {"escsup", "esc1sup", "esc12circ", "escnd"}
\* the token faults applied to a zone split over an $INCLUDEd file (a small set: the point
\* there is WHERE the error is reported)
ZincNames == {"emptyq", "unterm", "badttl", "bogus", "esc1", "pclose", "popen", "esc1sup"}
FloatNames == {"f-nan", "f-pnan", "f-nanm", "f-inf", "f-ninf", "f-e999", "f-em999", "f-hex"}
HugeNames == {"huge5000", "hugeunit", "eschuge", "hugetype", "hugeclass", "gr-stophuge", "gr-starthuge", "gr-stephuge",
              "gm-offhuge", "gm-widthhuge", "gm2-offhuge", "gm2-widthhuge", "rm-offhuge", "rm-widthhuge",
              "rm2-offhuge", "rm2-widthhuge"}
VariantsOfRole(role) ==
    CASE role = "label" -> EscNames \cup UniEscNames \cup {"empty", "long"}
      [] role = "ttl" -> EscNames \cup QuoteNames \cup {"badttl", "hugeunit"} \cup NumNames
      [] role = "type" -> EscNames \cup QuoteNames \cup {"bogus", "bigtype", "hugetype"}
      [] role = "class" -> EscNames \cup QuoteNames \cup {"bogus", "bigclass", "hugeclass"}
      [] role = "grange" -> EscNames \cup QuoteNames \cup {"gr-stophuge", "gr-starthuge", "gr-stephuge", "gr-big9", "gr-step9"}
      [] role = "gmod" -> EscNames \cup QuoteNames \cup {"gm-offhuge", "gm-widthhuge", "gm-off9", "gm-width9",
                                                          "gm2-offhuge", "gm2-widthhuge", "gm2-off9", "gm2-width9"}
      [] role = "gmodr" -> EscNames \cup QuoteNames \cup {"rm-offhuge", "rm-widthhuge", "rm-off9", "rm-width9",
                                                           "rm2-offhuge", "rm2-widthhuge", "rm2-off9", "rm2-width9"}
      [] role = "dir" -> {"dirgarbage", "emptyq"}
      [] role \in {"any", "int"} -> EscNames \cup UniEscNames \cup QuoteNames \cup NumNames
      [] role = "float" -> EscNames \cup QuoteNames \cup NumNames \cup FloatNames
      [] role = "gmark" -> {"esc1", "emptyq", "bogus"}
      [] role = "glen" -> NumNames \cup {"zero", "badttl", "emptyq", "esc1"}
      [] role = "ghex" -> {"nonhex1", "nonhex2", "hexmore", "emptyq", "unterm", "esc1"}
      [] OTHER -> EscNames \cup UniEscNames \cup QuoteNames
GarbageLines == [g1 |-> <<T("dir", "$TTL")>>, g2 |-> <<T("dir", "$ORIGIN")>>,
                 g3 |-> <<T("dir", "$TTL"), T("any", "abc")>>, g4 |-> <<T("dir", "$BOGUS"), T("any", "x")>>,
                 g5 |-> <<T("dir", "$INCLUDE"), T("any", "nofile")>>, g6 |-> <<T("dir", "$GENERATE"), T("any", "1-2")>>,
                 g7 |-> <<T("dir", "$GENERATE"), T("any", "x"), T("any", "y$"), T("any", "A"), T("any", "1.2.3.$")>>,
                 g8 |-> <<T("dir", "$ORIGIN"), T("any", "a..b.")>>]
TextFaults(x, k) ==
    UNION {UNION {{<<"tok", l, i, v>> : v \in {u \in VariantsOfRole(x.lines[l][i][1]) : TokVariant(u, x.lines[l][i][2]) # x.lines[l][i][2]}}
                  : i \in 1..Len(x.lines[l])} : l \in 1..Len(x.lines)}
    \cup (IF k \in {"rdt", "rdg", "zone", "msgt"}
          THEN {<<"drop", l, i>> : l \in 1..Len(x.lines), i \in 1..Len(x.lines[1])} \cap
               UNION {{<<"drop", l, i>> : i \in 1..Len(x.lines[l])} : l \in 1..Len(x.lines)}
          ELSE {})
    \cup (IF k \in {"rdt", "rdg", "zone", "msgt", "ttl"} THEN {<<"add", l>> : l \in 1..Len(x.lines)} ELSE {})
    \cup (IF k = "zone" THEN {<<"ins", l, g>> : l \in 1..Len(x.lines), g \in DOMAIN GarbageLines} ELSE {})
ZincFaults(x, h) ==
    IF h = <<>> THEN {f \in {<<"split", c, d>> : c \in 0..(Len(x.lines) - 1), d \in 1..Len(x.lines)} : f[2] < f[3]}
    ELSE {f \in TextFaults(x, "zone") : (f[1] = "tok" /\ f[4] \in ZincNames) \/ f[1] \in {"drop", "add"}}
ApplyText(x, f) ==
    CASE f[1] = "split" -> [x EXCEPT !.c = f[2], !.d = f[3]]
      [] f[1] = "tok" -> [x EXCEPT !.lines[f[2]][f[3]] = <<"faulted", TokVariant(f[4], x.lines[f[2]][f[3]][2])>>]
      [] f[1] = "drop" -> [x EXCEPT !.lines[f[2]] = Remove(x.lines[f[2]], f[3])]
      [] f[1] = "add" -> [x EXCEPT !.lines[f[2]] = Append(x.lines[f[2]], T("faulted", "extra"))]
      [] f[1] = "ins" -> [x EXCEPT !.lines = Insert(x.lines, f[2], GarbageLines[f[3]])]

(* ================================================================ the generator *)
IsText(k) == k \in {"namet", "rdt", "rdg", "ttl", "zone", "zinc", "msgt"}
BaseIds(k) == CASE k = "msg" -> DOMAIN MsgBases [] k = "namew" -> DOMAIN NameBases [] k = "rdw" -> RdKeys
                [] k = "optw" -> OptKeys [] k = "namet" -> DOMAIN NameTBases [] k = "rdt" -> RdTextKeys
                [] k = "ttl" -> DOMAIN TtlBases [] k = "zone" -> DOMAIN ZoneBases [] k = "msgt" -> DOMAIN MsgTBases
                [] k = "optm" -> OptKeys [] k = "rdg" -> RdKeys [] k = "zinc" -> DOMAIN ZincBases
BaseLay(k, b) == CASE k = "msg" -> MsgBases[b] [] k = "namew" -> NameBases[b] [] k = "rdw" -> Spec(b, RdWire[b])
                   [] k = "optw" -> Spec(b, OptWire[b]) [] k = "namet" -> NameTBases[b] [] k = "rdt" -> RdtBase(b)
                   [] k = "ttl" -> TtlBases[b] [] k = "zone" -> ZoneBases[b] [] k = "msgt" -> MsgTBases[b]
                   [] k = "optm" -> [id |-> b, code |-> OptCode[b], b |-> OptWire[b]] [] k = "rdg" -> RdgBase(b)
                   [] k = "zinc" -> ZincBases[b]
IsHuge(f) == f[1] = "tok" /\ f[4] \in HugeNames
LayFaults(k, x, h) == CASE k = "msg" -> MsgFaults(x) [] k = "namew" -> NameFaults(x)
                        [] k \in {"rdw", "optw"} -> SpecFaults(x) [] k = "optm" -> OptmFaults(x)
                        [] k = "zinc" -> ZincFaults(x, h)
                        [] OTHER -> IF h = <<>> THEN TextFaults(x, k)
                                    ELSE IF \E i \in 1..Len(h) : IsHuge(h[i]) THEN {}
                                    ELSE {f \in TextFaults(x, k) : ~IsHuge(f)}
ApplyLay(k, x, f) == CASE k = "msg" -> ApplyMsg(x, f) [] k = "namew" -> ApplyName(x, f)
                       [] k \in {"rdw", "optw"} -> ApplySpec(x, f) [] k = "optm" -> ApplyOptm(x, f)
                       [] OTHER -> ApplyText(x, f)
WireOf(k, x) == CASE k = "msg" -> MsgBytes(x) [] k = "namew" -> NameBytes(x) [] k = "optm" -> OptmBytes(x)
                  [] OTHER -> SpecBytes(x)
NoPost == <<"none">>
\* Truncate(k) at every k, TrailingBytes
PostFaults(k, x) == IF k \in {"msg", "namew"}
                    THEN {<<"trunc", n>> : n \in 0..(Len(WireOf(k, x)) - 1)} \cup {<<"trail", 1>>, <<"trail", 12>>}
                    ELSE {}
Wire(k, x, p) == LET w == WireOf(k, x) IN
                 CASE p[1] = "none" -> w [] p[1] = "trunc" -> SubSeq(w, 1, p[2]) [] p[1] = "trail" -> w \o [i \in 1..p[2] |-> 0]
IsPost(f) == f[1] \in {"trunc", "trail"}
\* the input a descriptor (kind, base, faults in order) stands for
RECURSIVE Fold(_, _, _, _)
Fold(k, x, h, i) == IF i > Len(h) \/ IsPost(h[i]) THEN x ELSE Fold(k, ApplyLay(k, x, h[i]), h, i + 1)
LayOf(k, b, h) == Fold(k, BaseLay(k, b), h, 1)
PostOf(h) == IF h # <<>> /\ IsPost(h[Len(h)]) THEN h[Len(h)] ELSE NoPost

Init == /\ kind \in Kinds /\ base \in BaseIds(kind) /\ lay = BaseLay(kind, base)
        /\ post = NoPost /\ nf = 0 /\ hist = <<>>
Budget == IF kind = "zinc" THEN 2 ELSE IF base \in PairBases THEN MaxFaults ELSE 1     \* zinc: the split and one fault
Fault == /\ post = NoPost /\ nf < Budget
         /\ \E f \in LayFaults(kind, lay, hist) : lay' = ApplyLay(kind, lay, f) /\ hist' = Append(hist, f)
         /\ nf' = nf + 1 /\ UNCHANGED <<kind, base, post>>
Cut == /\ post = NoPost /\ nf < Budget
       /\ \E f \in PostFaults(kind, lay) : post' = f /\ hist' = Append(hist, f)
       /\ nf' = nf + 1 /\ UNCHANGED <<kind, base, lay>>
Next == Fault \/ Cut
View == <<kind, base, lay, post>>

(* ================================================================ what each entry point may do
   An outcome is the set of family tags of what a call did: {"ok"}, or the families (by
   instance-of) of the exception raised, or {"hang"}.  OkOr(o, S): the call returned, or
   raised something of a family in S.  Nothing else is ever allowed - in particular not
   {"hang"} and not an exception outside the library's hierarchy. *)
OkOr(o, S) == o = {"ok"} \/ o \cap S # {}
Raised(o, S) == o \cap S # {}
\* wire: the format-error family; text: the syntax-error family or the name-length errors
\* (a non-ASCII name may also fail IDNA encoding); zone text: the library's hierarchy or the
\* documented ValueError / KeyError; text message: the library's hierarchy
WireSet == {"FormError"}
NameTextSet(ascii) == {"SyntaxError", "NameLength"} \cup (IF ascii THEN {} ELSE {"IDNA"})
TextSet == {"SyntaxError"}
ZoneSet == {"DNSException", "ValueError", "KeyError"}
LibSet == {"DNSException"}
RenderOk(o) == o = {"none"} \/ OkOr(o, LibSet)

\* a wire message under options opts; m = Read(w); narrow = the input is known to carry no
\* TSIG record (then only the format-error family and the requested truncation signal)
MsgAllowed(m, opts, narrow, o) ==
    /\ OkOr(o, IF narrow THEN WireSet \cup {"Truncated"} ELSE LibSet)
    /\ "Truncated" \in o => opts[5] = 1 /\ ~m.short /\ m.tc
    /\ opts[4] = 1 /\ ~m.short => (o = {"ok"} \/ "Truncated" \in o)       \* continue-on-error never raises after the header
    /\ opts[4] = 1 /\ ~m.short /\ opts[5] = 1 /\ m.tc => "Truncated" \in o
MsgVerdictOk(m, opts, o) ==
    LET v == IF opts[4] = 1 THEN ContinueVerdict(m, opts) ELSE StrictVerdict(m, opts) IN
    CASE v = "ok" -> o = {"ok"}
      [] v = "err" -> o # {"ok"}
      [] v = "trunc" -> "Truncated" \in o
      [] OTHER -> TRUE

(* ---------------------------------------------------------------- verdicts the grammar decides
   "ok" | "err" | "free" for an input given by its descriptor. *)
NameWVerdict(x, p) == LET w == Wire("namew", x, p) IN IF Decode(w, x.cur).ok THEN "ok" ELSE "err"
SpecVerdict(h) == IF h = <<>> THEN "ok" ELSE IF \E i \in 1..Len(h) : h[i][1] = "over" THEN "err" ELSE "free"

FixedLine(line) == \E i \in 1..Len(line) : line[i][1] = "dir" \/ (line[i][1] = "type" /\ line[i][2] \in {"SOA", "NS", "A", "MX", "TYPE65280"})
TokVerdict(k, role, v, last) ==
    IF role \in {"comment", "gmark"} THEN "free" ELSE      \* anything goes inside a comment; without the \# marker
                                                             \* the rest is read in the type's own syntax
    CASE v \in {"unterm", "nlq", "popen", "pclose", "badttl", "bogus", "bigtype", "bigclass", "long", "dirgarbage",
                "hugetype", "hugeclass", "hugeunit", "gr-stophuge", "gr-starthuge", "gr-stephuge", "gm-offhuge", "gm-widthhuge",
                "gm-width9", "gm2-offhuge", "gm2-widthhuge", "gm2-width9", "rm-offhuge", "rm-widthhuge", "rm-width9",
                "rm2-offhuge", "rm2-widthhuge", "rm2-width9"} -> "err"        \* (a 999999999-wide field fits no label or address)
      [] v = "empty" -> IF last THEN "free" ELSE "err"       \* "a." is a name, "a..b" is not
      [] v = "emptyq" -> IF role \in {"str", "any", "float", "ghex"} THEN "free" ELSE "err"
      [] v = "esc0" -> IF role = "label" /\ last THEN "err" ELSE "free"
      [] v \in UniEscNames -> "free"       \* an escaped literal, a bad escape or an IDNA failure
      [] v \in {"nonhex1", "nonhex2", "hexmore"} -> "err"
      [] v \in {"esc1", "esc2", "esc256", "esc999", "escbig9", "eschuge"} -> IF role \in {"any", "float"} THEN "free" ELSE "err"
      \* a TTL is a number 0 .. 2^32 - 1 (RFC 2181 section 8 caps it lower; the library documents 2^32 - 1)
      [] v \in {"neg1", "big32", "huge", "huge5000", "altlow", "althigh"} -> IF role = "ttl" THEN "err" ELSE "free"
      [] v = "big9" -> IF role = "ttl" THEN "ok" ELSE "free"
      [] OTHER -> "free"
TextVerdict(k, b, h0) ==
    LET x == BaseLay(k, b)
        h == IF k = "zinc" /\ h0 # <<>> THEN Tail(h0) ELSE h0 IN      \* the split is no fault
    IF h = <<>> THEN "ok"
    ELSE IF Len(h) > 1 \/ k = "msgt" THEN "free"
    ELSE LET f == h[1]
             line == x.lines[f[2]]
             fixed == IF k = "rdt" THEN RdArity[b] = "fixed" ELSE IF k \in {"ttl", "rdg"} THEN TRUE ELSE FixedLine(line) IN
         CASE f[1] = "tok" -> TokVerdict(k, line[f[3]][1], f[4], f[3] = Len(line))
           \* generic form: without the marker or the length the rest may read as something else;
           \* without one of the hex tokens the digit count is odd or the length is wrong
           [] f[1] = "drop" /\ k = "rdg" -> IF f[3] >= 3 THEN "err" ELSE "free"
           [] f[1] = "drop" -> IF fixed /\ (k = "rdt" \/ line[f[3]][1] \in {"name", "int", "str", "ip", "ghex", "glen"} \/ line[1][1] = "dir")
                               THEN "err" ELSE "free"
           [] f[1] = "add" -> IF fixed THEN "err" ELSE "free"
           [] f[1] = "ins" -> "err"
\* zone options <<relativize, origin given, check_origin, allow_directives>>: the verdict is
\* decided when an origin is given, the SOA/NS check is off and directives are allowed
ZoneDecided(opts) == opts[2] = 1 /\ opts[3] = 0 /\ opts[4] = 1
\* line of a decided single-fault zone error: the faulted line or the next one (the reader
\* may already have consumed the end of line); an open parenthesis swallows the rest
\* zinc: the file (0 top, 1 included) and the lines of a decided single-fault error
ZincErrFile(x, h) == ZincLoc(x, h[2][2])[1]
ZincErrLines(x, h) == LET f == h[2]
                          loc == ZincLoc(x, f[2]) IN
                      IF f[1] = "tok" /\ f[4] = "popen" THEN loc[2]..(ZincLen(x, loc[1]) + 2) ELSE loc[2]..(loc[2] + 2)
ErrLines(k, b, h) == LET f == h[1] IN
                     IF f[1] = "tok" /\ f[4] = "popen" THEN f[2]..(Len(BaseLay(k, b).lines) + 2) ELSE f[2]..(f[2] + 2)
=============================================================================
