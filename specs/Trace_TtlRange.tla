--------------------------- MODULE Trace_TtlRange ---------------------------
(* Trace validation for X02.  Events are independent evaluations of the real code:
     ttl   dns.ttl.from_text(text)            range  dns.grange.from_text(text)
     make  dns.ttl.make(text)                 cmp / add    one ROW of dns.serial.Serial results
     via   the same TTL text through six other documented entry points
     cmp32 / add32  32-bit serials on two 16-bit limbs
   Results are recomputed with TtlParse / RangeParse / RFC 1982.

   Hard (documentation / RFC): a well-formed TTL <= 2^32-1 gives its value, anything else
   BadTTL; a range start-stop[/step] gives (start, stop, step|1), a malformed one, start >
   stop or step 0 gives no value; =, <, > of RFC 1982 where defined (<= and >= as "< or =");
   s + n = (s + n) mod 2^bits for 0 <= n <= 2^(bits-1) - 1; a full row is complete.
   Free: texts with a non-ASCII decimal digit; a repeated unit; range numbers above 2^31-1;
   which error a range raises; the undefined comparison; addition outside the range.
   Strict (drift only, never an alarm): make(text) = from_text(text); a range error is a
   dns.exception.SyntaxError; Serial operands of + ; subtraction and negative amounts as
   the inverse of addition; ValueError outside the range; comparison with a plain int; all
   four orderings of the undefined pair false. *)
EXTENDS TtlRange, VTrace

CONSTANTS Strict, ForeignDigits
VARIABLES t, l
tvars == <<t, l>>

TraceInit == RegInit /\ t \in 1..NTraces /\ l = 1
e == Ev(t)[l]
Adv == l' = l + 1 /\ t' = t
C(id, cond) == Check(t, l, id, cond)
Foreign(text) == \E k \in 1..Len(text) : text[k] \in ForeignDigits
B(p) == IF p THEN 1 ELSE 0

TtlClauses(text, r, pre) ==
    LET q == TtlParse(text)
    IN  /\ C(pre \o "ErrorIsBadTTL", r[1] = "err" => r[3])
        /\ IF Foreign(text) THEN TRUE
           ELSE /\ C(pre \o "WellFormedAccepted", IsOk(q) /\ ~RepeatsUnit(text) => r[1] = "ok")
                /\ C(pre \o "Refused_" \o (IF IsOk(q) THEN "-" ELSE q[2]), ~IsOk(q) => r[1] = "err")
                /\ C(pre \o "Value", IsOk(q) /\ r[1] = "ok" => r[2] = BToCodes(q[2]))
TTtl == e.op = "ttl" /\ TtlClauses(e.text, e.res, "Ttl") /\ Adv
TMake == e.op = "make" /\ (Strict => TtlClauses(e.text, e.res, "Make")) /\ Adv

(* the other entry points that take a TTL as text read the same language: Tokenizer.get_ttl,
   the $TTL directive (RFC 2308 section 4), the TTL field of a record line (RFC 1035 5.1),
   read_rrsets(ttl=) / read_rrsets(default_ttl=), Rdataset.update_ttl.  Which error: free. *)
TVia ==
    /\ e.op = "via"
    /\ LET q == TtlParse(e.text)
       IN  IF Foreign(e.text) THEN TRUE
           ELSE \A k \in 1..Len(e.res) :
                  LET r == e.res[k]
                  IN  /\ C("ViaWellFormedAccepted_" \o e.vias[k], IsOk(q) /\ ~RepeatsUnit(e.text) => r[1] = "ok")
                      /\ C("ViaRefused_" \o (IF IsOk(q) THEN "-" ELSE q[2]) \o "_" \o e.vias[k], ~IsOk(q) => r[1] = "err")
                      /\ C("ViaValue_" \o e.vias[k], IsOk(q) /\ r[1] = "ok" => r[2] = BToCodes(q[2]))
    /\ Adv

TRange ==
    /\ e.op = "range"
    /\ LET q == RangeParse(e.text)
           r == e.res
       IN  IF Foreign(e.text) THEN TRUE
           ELSE /\ C("RangeAccepted", IsOk(q) /\ ~BeyondBind(q) => r[1] = "ok")
                /\ C("RangeRefused_" \o (IF IsOk(q) THEN "-" ELSE q[2]), ~IsOk(q) => r[1] = "err")
                /\ C("RangeValue", IsOk(q) /\ r[1] = "ok" =>
                        r[2] = <<BToCodes(q[2][1]), BToCodes(q[2][2]), BToCodes(q[2][3])>>)
                /\ (Strict => C("RangeErrorIsSyntaxError", r[1] = "err" => r[3]))
    /\ Adv

RowShape(operand, bits, lo, n) == IF operand = "serial" \/ operand = "cmp" THEN lo = 0 /\ n = Pow2(bits)
                                  ELSE lo = -Pow2(bits) /\ n = 2 * Pow2(bits) + 1

(* one comparison result x = <<lt, le, gt, ge, eq, ne>> (1 true, 0 false, other = raised) *)
CmpOk(x, eq, lt, gt, undef) ==
    /\ x[5] = B(eq) /\ x[6] = B(~eq)
    /\ (undef \/ (x[1] = B(lt) /\ x[2] = B(lt \/ eq) /\ x[3] = B(gt) /\ x[4] = B(gt \/ eq)))
TCmp ==
    /\ e.op = "cmp"
    /\ C("CmpRowComplete", e.full => RowShape("cmp", e.bits, e.lo, Len(e.res)))
    /\ (e.operand = "serial" \/ Strict) =>
          C("SerialCompare_" \o e.operand, \A k \in 1..Len(e.res) :
              LET b == e.lo + k - 1
              IN  CmpOk(e.res[k], SEq(e.a, b), SLt(e.a, b, e.bits), SGt(e.a, b, e.bits), SUndef(e.a, b, e.bits)))
    /\ (Strict => C("SerialUndefinedPairAllFalse", \A k \in 1..Len(e.res) :
              SUndef(e.a, e.lo + k - 1, e.bits) => SubSeq(e.res[k], 1, 4) = <<0, 0, 0, 0>>))
    /\ Adv

(* one addition result: the new value, or -1 ValueError, -2 another error, -3 not a Serial of this width *)
Plus(a, n, bits) == (a + n + 2 * Pow2(bits)) % Pow2(bits)          \* n in -2^bits..2^bits
AddExpect(kind, a, n, bits) ==
    IF n > Pow2(bits - 1) - 1 \/ -n > Pow2(bits - 1) - 1 THEN -1
    ELSE IF kind \in {"add", "iadd"} THEN Plus(a, n, bits) ELSE Plus(a, -n, bits)
TAdd ==
    /\ e.op = "add"
    /\ C("AddRowComplete", e.full => RowShape(e.operand, e.bits, e.lo, Len(e.res)))
    /\ C("SerialAdd_" \o e.kind, e.operand = "int" /\ e.kind \in {"add", "iadd"} =>
            \A k \in 1..Len(e.res) : LET n == e.lo + k - 1
                                     IN  AddDefined(n, e.bits) => e.res[k] = SAdd(e.a, n, e.bits))
    /\ (Strict => C("SerialArithmeticStrict_" \o e.kind \o "_" \o e.operand,
            \A k \in 1..Len(e.res) : e.res[k] = AddExpect(e.kind, e.a, e.lo + k - 1, e.bits)))
    /\ Adv

TCmp32 ==
    /\ e.op = "cmp32"
    /\ C("SerialCompare32", CmpOk(e.res, e.a = e.b, LLt(e.a, e.b, 16), LGt(e.a, e.b, 16), LUndef(e.a, e.b, 16)))
    /\ Adv
(* res = <<code, hi, lo>>: code 0 value, 1 ValueError, 2 another error, 3 not a 32-bit Serial *)
Add32Expect(kind, a, neg, n) ==
    IF ~LAddDefined(n, 16) THEN <<1, 0, 0>>
    ELSE IF (kind \in {"add", "iadd"}) # neg THEN <<0>> \o LAdd(a, n, 16) ELSE <<0>> \o LSub(a, n, 16)
TAdd32 ==
    /\ e.op = "add32"
    /\ C("SerialAdd32_" \o e.kind, e.operand = "int" /\ e.kind \in {"add", "iadd"} /\ ~e.neg /\ LAddDefined(e.n, 16) =>
            e.res = <<0>> \o LAdd(e.a, e.n, 16))
    /\ (Strict => C("SerialArithmeticStrict32_" \o e.kind \o "_" \o e.operand, e.res = Add32Expect(e.kind, e.a, e.neg, e.n)))
    /\ Adv

TraceNext == l <= Len(Ev(t)) /\ (TTtl \/ TMake \/ TVia \/ TRange \/ TCmp \/ TAdd \/ TCmp32 \/ TAdd32)
Accepted == Accepting(t, l)
=============================================================================
