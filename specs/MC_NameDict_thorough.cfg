SPECIFICATION Spec
CONSTANTS
  Keys <- Keys9
  Queries <- Probes
  Vals <- MCVals
  MaxOps = 4
INVARIANT TypeOK
INVARIANT MatchSound
INVARIANT SelfMatch
INVARIANT CatchAll
INVARIANT NoneMeansMiss
INVARIANT EverBounds
PROPERTY ReadsDontWrite
PROPERTY FailedIsNoop
PROPERTY AddMonotone
CHECK_DEADLOCK FALSE
