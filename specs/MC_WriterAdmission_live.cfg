SPECIFICATION Spec
CONSTANTS
  Writers = {1, 2, 3}
  Readers = {5}
  NTxn = 1
  NReads = 1
  MCHows = {"commit", "rollback"}
  Plans <- MCPlansLive
  RPlans <- MCRPlans
  RModes <- MCRModes
  MCRModeSet = {"latest"}
  InitVid = 2
  Policers = {}
  PPlans <- MCPPlans
PROPERTY Termination
PROPERTY WaitingLeadsToAdmitted
PROPERTY LockAlwaysReleased
PROPERTY ReaderNotBlocked
