------------------------------ MODULE NameText ------------------------------
(* Master-file text form of domain names (RFC 1035 5.1) - C01.

   A text is a sequence of octets (ASCII; a `bytes` argument may carry raw high octets).
     \X    X any octet other than a digit: the octet X itself, without special meaning
     \DDD  three decimal digits: the octet with that value (so DDD <= 255)
     .     separates labels; a trailing dot makes the name absolute
     @     alone: the origin            .  alone: the root
   ToText writes a name, the PARSER is an explicit automaton reading one octet per step:

     variables   i (next octet), label, labels, esc, ndig, tot, st ("run"/"ok"/"err"), kind
     actions     Ordinary  Dot  Backslash  EscDigit  EscLiteral  End   (+ failure kinds
                 BadEscape, EmptyLabel, LabelTooLong, NameTooLong)

   The automaton is written as a step function PStep on the record of those variables so
   that (a) MC_NameText explores it as a state machine, one action per input class, and
   (b) ParseText - the fold of PStep - recomputes what dns.name.from_text returned. *)
EXTENDS DnsName

BackSl == 92
Dot == 46
At == 64
Special == {34, 36, 40, 41, 46, 59, 64, 92}          \*  " $ ( ) . ; @ \
IsDigit(c) == c >= 48 /\ c <= 57

-----------------------------------------------------------------------------
(* writer *)
Dec3(c) == <<BackSl, 48 + (c \div 100), 48 + ((c \div 10) % 10), 48 + (c % 10)>>
EscOctet(c) == IF c \in Special THEN <<BackSl, c>>
               ELSE IF c > 32 /\ c < 127 THEN <<c>>
               ELSE Dec3(c)
RECURSIVE EscFrom(_, _)
EscFrom(x, i) == IF i > Len(x) THEN <<>> ELSE EscOctet(x[i]) \o EscFrom(x, i + 1)
Escapify(x) == EscFrom(x, 1)

RECURSIVE JoinFrom(_, _)
JoinFrom(n, i) == IF i = Len(n) THEN Escapify(n[i]) ELSE Escapify(n[i]) \o <<Dot>> \o JoinFrom(n, i + 1)
ToText(n) == IF n = Empty THEN <<At>> ELSE IF n = Root THEN <<Dot>> ELSE JoinFrom(n, 1)
(* omit_final_dot: the root label of an absolute name is not written (the root stays ".") *)
ToTextOmit(n) == IF IsAbs(n) /\ n # Root THEN JoinFrom(SubSeq(n, 1, Len(n) - 1), 1) ELSE ToText(n)

(* What any writer must guarantee for the text to be ONE token of a master file (RFC 1035 5.1):
   only printable ASCII, and the characters with a meaning to the zone-file reader
   ( " $ ( ) ; and, inside a label, @ ) only directly after a backslash.  Whitespace, newlines and
   other control octets must be written as \DDD. *)
MasterFileSafe(text) ==
    \A k \in 1..Len(text) :
        /\ text[k] > 32 /\ text[k] < 127
        /\ (text[k] \in {34, 36, 40, 41, 59} => k > 1 /\ text[k - 1] = BackSl)
        /\ (text[k] = At /\ Len(text) > 1 => k > 1 /\ text[k - 1] = BackSl)

-----------------------------------------------------------------------------
(* parser automaton *)
PInit == [i |-> 1, label |-> <<>>, labels |-> <<>>, esc |-> FALSE, ndig |-> 0, tot |-> 0,
          st |-> "run", kind |-> "-"]
PFail(s, k) == [s EXCEPT !.st = "err", !.kind = k]

(* which action reads octet c in state s *)
ActionOf(s, c) ==
    IF s.esc THEN (IF IsDigit(c) THEN "EscDigit" ELSE IF s.ndig = 0 THEN "EscLiteral" ELSE "EscBad")
    ELSE IF c = Dot THEN "Dot" ELSE IF c = BackSl THEN "Backslash" ELSE "Ordinary"

Push(s, c) == [s EXCEPT !.label = Append(@, c), !.i = @ + 1, !.esc = FALSE, !.ndig = 0, !.tot = 0]

PStep(s, c) ==
    LET a == ActionOf(s, c) IN
    CASE a = "Ordinary"   -> Push(s, c)
      [] a = "EscLiteral" -> Push(s, c)
      [] a = "Backslash"  -> [s EXCEPT !.esc = TRUE, !.ndig = 0, !.tot = 0, !.i = @ + 1]
      [] a = "EscDigit"   -> LET v == s.tot * 10 + (c - 48) IN
                             IF s.ndig < 2 THEN [s EXCEPT !.tot = v, !.ndig = @ + 1, !.i = @ + 1]
                             ELSE IF v > 255 THEN PFail(s, "BadEscape")
                             ELSE Push(s, v)
      [] a = "EscBad"     -> PFail(s, "BadEscape")
      [] a = "Dot"        -> IF s.label = <<>> THEN PFail(s, "EmptyLabel")
                             ELSE IF Len(s.label) > MaxLabel THEN PFail(s, "LabelTooLong")
                             ELSE [s EXCEPT !.labels = Append(@, s.label), !.label = <<>>, !.i = @ + 1]

(* end of input: an unfinished escape is an error; a pending label makes the name
   relative, none (the text ended with a dot) absolute *)
PEnd(s) ==
    IF s.esc THEN PFail(s, "BadEscape")
    ELSE IF Len(s.label) > MaxLabel THEN PFail(s, "LabelTooLong")
    ELSE [s EXCEPT !.labels = Append(@, s.label), !.label = <<>>, !.st = "ok"]

(* the fold of PStep over text[lo..hi]; split in halves so that the depth of the recursion
   stays logarithmic (a 255-octet name can have a text of 1000 octets) *)
RECURSIVE RunRange(_, _, _, _)
RunRange(s, text, lo, hi) ==
    IF s.st # "run" \/ lo > hi THEN s
    ELSE IF hi - lo < 8 THEN RunRange(PStep(s, text[lo]), text, lo + 1, hi)
    ELSE LET mid == (lo + hi) \div 2
             h   == RunRange(s, text, lo, mid)
         IN  RunRange(h, text, mid + 1, hi)
RunFrom(s, text) == LET r == RunRange(s, text, s.i, Len(text)) IN IF r.st = "run" THEN PEnd(r) ELSE r

(* a relative result gets the origin appended (origin = <<"none">> or <<"some", name>>) *)
Finish(ls, origin) ==
    Construct(IF IsAbs(ls) \/ origin[1] = "none" THEN ls ELSE ls \o origin[2])

ParseText(text, origin) ==
    IF text = <<>> \/ text = <<At>> THEN Finish(<<>>, origin)
    ELSE IF text = <<Dot>> THEN Ok(Root)
    ELSE LET s == RunFrom(PInit, text)
         IN  IF s.st = "err" THEN Err(s.kind) ELSE Finish(s.labels, origin)

(* zone-file path: Tokenizer.get_name(origin, relativize, relativize_to) on a text that is
   ONE identifier token (no unescaped delimiter); an empty token is not a name *)
TokName(text, origin, relativize, relTo) ==
    IF text = <<>> THEN Err("SyntaxError")
    ELSE LET r == ParseText(text, origin)
         IN  IF ~IsOk(r) THEN r
             ELSE ChooseRel(r[2], IF relTo[1] = "some" /\ Len(relTo[2]) > 0 THEN relTo ELSE origin, relativize)

(* expected result of parsing ToText(n) *)
Reparsed(n, origin) == IF IsAbs(n) \/ origin[1] = "none" THEN Ok(n) ELSE Construct(n \o origin[2])
=============================================================================
