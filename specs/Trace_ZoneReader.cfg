INIT TraceInit
NEXT TraceNext
CONSTANT CheckLines = FALSE
CONSTRAINT Accepted
POSTCONDITION Post
CHECK_DEADLOCK FALSE
