INIT TraceInit
NEXT TraceNext
CONSTANTS
  CheckLines = FALSE
  Pinned = FALSE
CONSTRAINT Accepted
POSTCONDITION Post
CHECK_DEADLOCK FALSE
