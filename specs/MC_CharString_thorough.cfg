INIT MCInit
NEXT MCNext
CONSTANTS
  N = 4
  Alphabet = {}
  MaxLen = 0
INVARIANT LawRoundTripOct
INVARIANT LawCPExact
INVARIANT LawEscapeShape
INVARIANT LawQuotedToken
INVARIANT LawFull
INVARIANT LawTwo
CHECK_DEADLOCK FALSE
