----------------------------- MODULE RobustWire -----------------------------
(* Reference reader of DNS wire messages used by the C04 fault generator: what an RFC 1035
   section 4 / RFC 6891 / RFC 8945 reader does with an ARBITRARY octet string, written as a
   total function.  It never "raises": it returns where reading fails and why, in the two
   reading disciplines of the property:
     strict    the first failure ends the reading (the caller sees a format error);
     continue  failures inside the RDATA of a record are noted with their offset and
               reading resumes at rdata_start + rdlength; any other failure ends the reading
               and is noted with its offset.
   Offsets are 0-based; w is a Seq(0..255).  Name decoding is MessageCodec!Decode (RFC 1035
   4.1.4: a pointer must target an offset strictly before the run it ends).

   RDATA grammars are known for the record types the generator uses (A, NS, CNAME, MX, TXT,
   OPT with private-use option codes); for every other type the result is "free": the
   specification does not decide whether the RDATA is acceptable. *)
EXTENDS MessageCodec

TyCNAME == 5  TyMX == 15
Prefix(w, n) == SubSeq(w, 1, n)

(* ---------------------------------------------------------------- RDATA verdicts
   "ok" | "bad" | "free" for the RDATA occupying offsets [s, e) of w.  Embedded names must
   end inside the RDATA, so they are decoded in the prefix of w that ends at e. *)
NameFills(w, s, e) == LET d == Decode(Prefix(w, e), s) IN d.ok /\ d.next = e

RECURSIVE Strings(_, _, _)       \* counted strings exactly filling [s, e)
Strings(w, s, e) == IF s = e THEN TRUE
                    ELSE s + 1 + w[s + 1] <= e /\ Strings(w, s + 1 + w[s + 1], e)

\* EDNS options: <<code, length, data>> exactly filling [s, e); "free" if a code is not a
\* private-use one (65001..65534), since assigned codes have their own grammars
RECURSIVE Options(_, _, _)
Options(w, s, e) ==
    IF s = e THEN "ok"
    ELSE IF s + 4 > e THEN "bad"
    ELSE LET code == Rd16(w, s)
             len == Rd16(w, s + 2) IN
         IF s + 4 + len > e THEN "bad"
         ELSE LET r == Options(w, s + 4 + len, e) IN
              IF r = "bad" THEN "bad"
              ELSE IF code < 65001 \/ code > 65534 THEN "free" ELSE r

B2V(b) == IF b THEN "ok" ELSE "bad"
RdataVerdict(w, type, cls, s, e) ==
    CASE type = TyA /\ cls = ClsIN -> B2V(e - s = 4)
      [] type \in {TyNS, TyCNAME} -> B2V(NameFills(w, s, e))
      [] type = TyMX -> B2V(e - s >= 3 /\ NameFills(w, s + 2, e))
      [] type = TyTXT -> B2V(e > s /\ Strings(w, s, e))
      [] type = TyOPT -> Options(w, s, e)
      [] OTHER -> "free"

(* ---------------------------------------------------------------- records
   Reading n records of section sec from offset p.  Result:
     recs   the records read: [sec, type, v ("ok"/"bad"/"free"/"signed"), lo, hi] where
            [lo, hi] bounds the offset at which a failure of that record is noted
            (rdata_start .. rdata_start + rdlength)
     fatal  <<>> or <<[lo, hi]>>: the failure that ended the reading
     next   offset after the last record read (meaningful when fatal = <<>>)
     opt    an OPT record has been seen *)
Fatal(lo, hi) == <<[lo |-> lo, hi |-> hi]>>

RECURSIVE Records(_, _, _, _, _, _)
Records(w, p, n, i, sec, opt) ==
    IF i = n THEN [recs |-> <<>>, fatal |-> <<>>, next |-> p, opt |-> opt]
    ELSE LET d == Decode(w, p) IN
    IF ~d.ok \/ d.next + 10 > Len(w) THEN [recs |-> <<>>, fatal |-> Fatal(p, Len(w)), next |-> p, opt |-> opt]
    ELSE LET q == d.next
             type == Rd16(w, q)
             cls == Rd16(w, q + 2)
             rdlen == Rd16(w, q + 8)
             s == q + 10 IN
    \* RFC 6891 6.1.1: one OPT, owner root, additional section.  RFC 8945 5.1 (4.2): TSIG is
    \* the last record of the additional section, class ANY.  A misplaced one ends the reading.
    IF type = TyOPT /\ (sec # 3 \/ opt \/ d.name # <<>>)
        THEN [recs |-> <<>>, fatal |-> Fatal(s, s), next |-> p, opt |-> opt]
    ELSE IF type = TyTSIG /\ (sec # 3 \/ cls # ClsANY \/ i # n - 1)
        THEN [recs |-> <<>>, fatal |-> Fatal(s, s), next |-> p, opt |-> opt]
    ELSE IF s + rdlen > Len(w)
        \* the RDATA runs over the end of the message: noted, and nothing to resume at
        THEN [recs |-> <<>>, fatal |-> Fatal(s, s), next |-> p, opt |-> opt]
    ELSE LET v == IF type = TyTSIG THEN "signed" ELSE RdataVerdict(w, type, cls, s, s + rdlen)
             me == [sec |-> sec, type |-> type, v |-> v, lo |-> s, hi |-> s + rdlen]
             \* an OPT whose RDATA was refused has not been taken: a later one is the first
             r == Records(w, s + rdlen, n, i + 1, sec, opt \/ (type = TyOPT /\ v # "bad"))
         IN [recs |-> <<me>> \o r.recs, fatal |-> r.fatal, next |-> r.next, opt |-> r.opt]

RECURSIVE Questions(_, _, _)
Questions(w, p, n) ==
    IF n = 0 THEN [ok |-> TRUE, next |-> p, lo |-> 0]
    ELSE LET d == Decode(w, p) IN
         IF ~d.ok \/ d.next + 4 > Len(w) THEN [ok |-> FALSE, next |-> p, lo |-> p]
         ELSE Questions(w, d.next + 4, n - 1)

(* ---------------------------------------------------------------- whole message *)
Read(w) ==
    IF Len(w) < 12 THEN [short |-> TRUE]
    ELSE LET q == Questions(w, 12, Rd16(w, 4)) IN
    IF ~q.ok THEN [short |-> FALSE, tc |-> HasBit(Rd16(w, 2), TC), opcode |-> OpcodeOf(Rd16(w, 2)), qok |-> FALSE,
                   recs |-> <<>>, fatal |-> Fatal(q.lo, Len(w)), trail |-> <<>>]
    ELSE LET an == Records(w, q.next, Rd16(w, 6), 0, 1, FALSE)
             au == IF an.fatal # <<>> THEN an ELSE Records(w, an.next, Rd16(w, 8), 0, 2, an.opt)
             ad == IF au.fatal # <<>> THEN au ELSE Records(w, au.next, Rd16(w, 10), 0, 3, au.opt)
             recs == an.recs \o (IF an.fatal # <<>> THEN <<>> ELSE au.recs)
                             \o (IF an.fatal # <<>> \/ au.fatal # <<>> THEN <<>> ELSE ad.recs)
         IN [short |-> FALSE, tc |-> HasBit(Rd16(w, 2), TC), opcode |-> OpcodeOf(Rd16(w, 2)), qok |-> TRUE,
             recs |-> recs, fatal |-> ad.fatal,
             \* octets after the last record (RFC 1035 has no such thing): noted at their offset
             trail |-> IF ad.fatal = <<>> /\ ad.next # Len(w) THEN Fatal(ad.next, ad.next) ELSE <<>>]

(* ---------------------------------------------------------------- what a reading must give
   opts = <<ignore_trailing, one_rr_per_rrset, question_only, continue_on_error,
            raise_on_truncation, keyring>> as 0/1.
   Failures(m, o) = the failures met in reading order under options o, as
   [lo, hi, must]: must = the specification decides that it IS a failure. *)
RecFail(r) == [lo |-> r.lo, hi |-> r.hi, must |-> r.v \in {"bad", "signed"}]
RECURSIVE RecFails(_)
RecFails(rs) == IF rs = <<>> THEN <<>>
                ELSE (IF rs[1].v = "ok" THEN <<>> ELSE <<RecFail(rs[1])>>) \o RecFails(Tail(rs))
Must(f) == [lo |-> f.lo, hi |-> f.hi, must |-> TRUE]
\* The offset noted for a failure that ends the reading is that of the furthest octet READ:
\* when the RDATA before it was skipped (not read) after a failure of its own, that is
\* somewhere in the skipped RDATA.  So the range of the ending failure reaches back to the
\* last record failure.
Back(f, rf) == IF rf = <<>> THEN Must(f)
               ELSE [lo |-> IF rf[Len(rf)].lo < f.lo THEN rf[Len(rf)].lo ELSE f.lo, hi |-> f.hi, must |-> TRUE]
Failures(m, o) ==
    IF ~m.qok THEN <<Must(m.fatal[1])>>
    ELSE IF o[3] = 1 THEN <<>>
    ELSE LET rf == RecFails(m.recs) IN
         rf \o (IF m.fatal # <<>> THEN <<Back(m.fatal[1], rf)>> ELSE <<>>)
            \o (IF m.trail # <<>> /\ o[1] = 0 THEN <<Must(m.trail[1])>> ELSE <<>>)
AnyMust(fs) == \E i \in 1..Len(fs) : fs[i].must
Signed(m) == \E i \in 1..Len(m.recs) : m.recs[i].type = TyTSIG
GoodCount(m, sec) == Cardinality({i \in 1..Len(m.recs) : m.recs[i].sec = sec /\ m.recs[i].v = "ok"})
AllDecided(m) == \A i \in 1..Len(m.recs) : m.recs[i].v # "free"

\* Verdict of a strict reading: "ok" | "err" | "trunc" (the requested truncation signal) |
\* "free" (the specification does not decide)
StrictVerdict(m, o) ==
    IF m.short THEN "err"
    ELSE LET fs == Failures(m, o) IN
         IF AnyMust(fs) THEN (IF o[5] = 1 /\ m.tc /\ ~Signed(m) THEN "trunc" ELSE "err")
         ELSE IF fs # <<>> THEN "free"
         ELSE IF o[5] = 1 /\ m.tc THEN "trunc" ELSE "ok"
\* continue-on-error: after the header nothing is raised but the requested truncation signal
ContinueVerdict(m, o) == IF m.short THEN "err" ELSE IF o[5] = 1 /\ m.tc THEN "trunc" ELSE "ok"

\* Bookkeeping of a continue-on-error reading: offs = the offsets noted, in order.
\* Every noted offset lies in the range of a failure of the model, the offsets never go
\* backwards, and every failure the model is sure of has been noted.
Bookkeeping(m, o, offs) ==
    LET fs == Failures(m, o) IN
    /\ \A i \in 1..Len(offs) : \E k \in 1..Len(fs) : fs[k].lo <= offs[i] /\ offs[i] <= fs[k].hi
    /\ \A i \in 1..(Len(offs) - 1) : offs[i] <= offs[i + 1]
    /\ \A k \in 1..Len(fs) : fs[k].must => \E i \in 1..Len(offs) : fs[k].lo <= offs[i] /\ offs[i] <= fs[k].hi
=============================================================================
