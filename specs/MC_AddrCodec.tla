---------------------------- MODULE MC_AddrCodec ----------------------------
(* Laws of AddrCodec / AddrNames on the universes of AddrUniverse.  A behaviour is
   Init (mode, key: a cheap split of the universe so that TLC's workers share it) and one
   Pick of an input x; every law is an invariant over the picked input. *)
EXTENDS AddrUniverse, TLC

CONSTANTS Modes, E164Alphabet, E164Len, WideFaults,
          KeySel     \* this run's slice of the Init keys (the universe is split over several TLC runs)
VARIABLES mode, key, x, picked
AllKeys == 0..255
KeyRange(lo, hi) == lo..hi
vars == <<mode, key, x, picked>>

RECURSIVE SeqsUpTo(_, _)
SeqsUpTo(S, n) == IF n = 0 THEN {<<>>} ELSE LET R == SeqsUpTo(S, n - 1) IN R \cup {Append(r, c) : r \in R, c \in S}
E164Texts == SeqsUpTo(E164Alphabet, E164Len)

Keys(m) == CASE m = "a6" -> 0..255
             [] m = "emb" -> QuadOctets
             [] m = "a4" -> V4Octets \cup McOctets
             [] m = "e164" -> E164Alphabet \cup {0}
Inputs(m, k) == CASE m = "a6" -> PatternAddrs(k)
                  [] m = "emb" -> {a \in EmbeddedAddrs : a[13] = k} \cup (IF k = 0 THEN Special6 ELSE {})
                  [] m = "a4" -> {a \in U4 : a[1] = k}
                  [] m = "e164" -> {t \in E164Texts : IF t = <<>> THEN k = 0 ELSE t[1] = k}
Init == mode \in Modes /\ key \in Keys(mode) \cap KeySel /\ x = <<>> /\ picked = FALSE
Pick == ~picked /\ picked' = TRUE /\ x' \in Inputs(mode, key) /\ UNCHANGED <<mode, key>>
Next == Pick
Spec == Init /\ [][Next]_vars

Is6 == picked /\ mode \in {"a6", "emb"}
Is4 == picked /\ mode = "a4"
IsE == picked /\ mode = "e164"
-----------------------------------------------------------------------------
(* Aton(Ntoa(a)) = a, for both canonical spellings of an embedded address *)
RoundTrip6 == Is6 => \A t \in Canon6(x) : Aton6(t) = Ok(x)
(* the constructor's text satisfies RFC 5952 section 4 read as a predicate *)
CanonIsCanonical == Is6 => IsCanonical5952(Hex5952(x))
(* every RFC 4291 spelling of the address denotes it; exactly one of the pure-hex
   spellings is canonical, and it is the constructor's *)
SpellingsParse == Is6 => \A t \in Spellings(x) : Aton6(t) = Ok(x) /\ IsErr(Aton4(t))
CanonUnique == Is6 => {t \in HexSpellings(x) : IsCanonical5952(t)} = {Hex5952(x)}
(* whatever a faulted text denotes, Ntoa of it is canonical and parses back *)
WellFormed(r) == \/ IsErr(r)
                 \/ /\ r[1] \in {"ok", "free"} /\ Len(r[2]) = 16 /\ \A k \in 1..16 : r[2][k] \in 0..255
                    /\ IsCanonical5952(Hex5952(r[2])) /\ Aton6(Hex5952(r[2])) = Ok(r[2])
FaultBases == IF ~Is6 THEN {} ELSE Canon6(x) \cup (IF WideFaults THEN {Spell(Grp(x), 8, 1, 0, TRUE, TRUE)} ELSE {})
FaultsWellFormed == Is6 => \A b \in FaultBases : \A t \in Faults(b) :
                        /\ WellFormed(Aton6S(t, TRUE))
                        /\ (PercentAt(t) # {} => IsErr(Aton6S(t, FALSE)))
                        /\ (PercentAt(t) = {} => Aton6S(t, FALSE) = Aton6S(t, TRUE))
(* a canonical text is the ONLY canonical text of its address: an accepted faulted text
   that is itself canonical is the constructor's text of what it denotes *)
FaultsCanonUnique == Is6 => \A t \in Faults(Hex5952(x)) :
                        IsCanonical5952(t) => t = Hex5952(Aton6(t)[2])
ScopeLaw == Is6 => \A s \in Scopes : /\ IsErr(Aton6S(Hex5952(x) \o s, FALSE))
                                     /\ Aton6S(Hex5952(x) \o s, TRUE)[1] \in {"ok", "free"}
                                     /\ Aton6S(Hex5952(x) \o s, TRUE)[2] = x
Classify6 == Is6 => /\ Classify(Hex5952(x)) = <<"v6", x>>
                    /\ Multicast(Classify(Hex5952(x))) = (x[1] = 255)
(* reverse names *)
Reverse6 == Is6 => /\ ToAddress(Rev6(x, Ip6), InAddr, Ip6) = <<"ok6", x>>
                   /\ ToAddress(Rev6(x, Ip6Up), InAddr, Ip6) = <<"ok6", x>>
                   /\ ToAddress(Rev6(x, Alt6), Alt4, Alt6) = <<"ok6", x>>
                   /\ IsErr(ToAddress(Rev6(x, Alt6), InAddr, Ip6))
                   /\ Ok(Rev6(x, Ip6)) \in FromAddressAllowed(Hex5952(x), InAddr, Ip6)
                   /\ (~IsMapped(x) => FromAddressAllowed(Hex5952(x), InAddr, Ip6) = {Ok(Rev6(x, Ip6))})
Reverse6Faults == Is6 => \A n \in NameFaults(Rev6(x, Ip6), 32) :
                      LET v == ToAddress(n, InAddr, Ip6)
                      IN  v[1] # "err" => v[1] = "ok6" /\ SameName(Rev6(v[2], Ip6), n)

-----------------------------------------------------------------------------
RoundTrip4 == Is4 => /\ Aton4(Ntoa4(x)) = Ok(x) /\ IsErr(Aton6(Ntoa4(x))) /\ Classify(Ntoa4(x)) = <<"v4", x>>
                     /\ Multicast(Classify(Ntoa4(x))) = (x[1] \in 224..239)
(* the strict dotted quad is the only text the parser must accept for an address *)
Faults4 == Is4 => \A t \in V4Faults(Ntoa4(x)) :
               LET r == Aton4(t)
               IN  /\ (IsOk(r) => t = Ntoa4(r[2]))
                   /\ (r[1] = "free" => t # Ntoa4(r[2]) /\ Len(r[2]) = 4)
                   /\ IsErr(Aton6S(t, TRUE))
Reverse4 == Is4 => /\ ToAddress(Rev4(x, InAddr), InAddr, Ip6) = <<"ok4", x>>
                   /\ ToAddress(Rev4(x, InAddrUp), InAddr, Ip6) = <<"ok4", x>>
                   /\ ToAddress(Rev4(x, Alt4), Alt4, Alt6) = <<"ok4", x>>
                   /\ FromAddressAllowed(Ntoa4(x), InAddr, Ip6) = {Ok(Rev4(x, InAddr))}
Reverse4Faults == Is4 => \A n \in NameFaults(Rev4(x, InAddr), 4) :
                      LET v == ToAddress(n, InAddr, Ip6)
                      IN  /\ (v[1] = "ok4" => SameName(Rev4(v[2], InAddr), n))
                          /\ (v[1] = "free4" => ~SameName(Rev4(v[2], InAddr), n) /\ Len(n) = 7)
                          /\ v[1] \in {"ok4", "free4", "err"}
(* a mapped address: both reverse names are acceptable, and nothing else *)
Mapped == Is4 => LET a == Zeros(10) \o <<255, 255>> \o x
                 IN  /\ IsMapped(a) /\ Embedded(a)
                     /\ FromAddressAllowed(Mixed5952(a), InAddr, Ip6) = {Ok(Rev6(a, Ip6)), Ok(Rev4(x, InAddr))}

-----------------------------------------------------------------------------
Origins == {Some(E164), Some(AltE), NoOrigin}
E164RoundTrip == IsE => \A o \in Origins : \A p \in BOOLEAN :
                     LET n == FromE164(x, o)
                     IN  /\ ToE164(n, o, p) = Ok((IF p THEN <<Plus>> ELSE <<>>) \o Digits(x))
                         /\ FromE164(ToE164(n, o, p)[2], o) = n
                         /\ Len(n) = Len(Digits(x)) + (IF o[1] = "some" THEN 3 ELSE 0)
(* a name of another domain is not an ENUM name of this one *)
E164Elsewhere == IsE => /\ IsErr(ToE164(FromE164(x, Some(AltE)), Some(E164), TRUE))
                        /\ IsErr(ToE164(FromE164(x, Some(E164)), NoOrigin, TRUE))
                        /\ ToE164(FromE164(x, Some(E164Up)), Some(E164), FALSE) = Ok(Digits(x))

(* reachability witnesses: each must be VIOLATED *)
Vac_TieFirst == ~(Is6 /\ BestLen(Grp(x)) = 2 /\ Cardinality({i \in 1..8 : ZeroRun(Grp(x), i, 2)}) = 3)
Vac_SingleZero == ~(Is6 /\ BestLen(Grp(x)) = 1)
Vac_Mixed == ~(Is6 /\ Cardinality(Canon6(x)) = 2 /\ Grp(x)[6] = 65535)
Vac_FaultAccepted == ~(Is6 /\ \E t \in Faults(Hex5952(x)) : IsOk(Aton6(t)) /\ Aton6(t)[2] # x)
Vac_Free4 == ~(Is4 /\ \E t \in V4Faults(Ntoa4(x)) : Aton4(t)[1] = "free")
Vac_E164 == ~(IsE /\ Len(Digits(x)) >= 2 /\ Len(x) > Len(Digits(x)))
=============================================================================
