\* One of the exhaustive configurations of the quick tier (checks/c13.py writes the full list,
\* each split by kind of exchange; see notes/C13.md).  Usable stand-alone:
\*   tlc -config MC_XfrInbound_quick.cfg MC_XfrInbound.tla
SPECIFICATION Spec
CONSTANTS
  Contents <- CSmall
  SerialSeqs <- SS2
  MaxSteps = 1
  Kinds <- AllKinds
  FaultKinds <- AllFaults
  MaxCuts = 2
  QModes = {"first"}
  Revs = {FALSE}
INVARIANT TypeOK
INVARIANT ErrorLeavesZone
INVARIANT NoTxnLeftOpen
INVARIANT Converges
INVARIANT RejectsMalformed
INVARIANT AcceptsAcceptable
INVARIANT ValidConverges
INVARIANT BehindRefused
INVARIANT Terminates
INVARIANT ZoneContentWellFormed
PROPERTY CommitPoint
PROPERTY DoneIsFinal
CHECK_DEADLOCK FALSE
