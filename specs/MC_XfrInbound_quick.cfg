SPECIFICATION Spec
CONSTANTS
  Contents <- CSmall
  SerialSeqs <- SS12
  MaxSteps = 2
  Kinds <- AllKinds
  FaultKinds <- AllFaults
  MaxCuts = 1
  QModes = {"first"}
  Revs = {FALSE}
INVARIANT TypeOK
INVARIANT ErrorLeavesZone
INVARIANT NoTxnLeftOpen
INVARIANT Converges
INVARIANT RejectsMalformed
INVARIANT AcceptsAcceptable
INVARIANT ValidConverges
INVARIANT BehindRefused
INVARIANT Terminates
INVARIANT ZoneContentWellFormed
PROPERTY CommitPoint
PROPERTY DoneIsFinal
CHECK_DEADLOCK FALSE
