------------------------ MODULE Trace_RendererLimits ------------------------
(* Trace validation for C08.  One trace = one call Message.to_wire(max_size, prefer_truncation)
   of the real code, recorded step by step through a recording subclass of the real
   dns.renderer.Renderer (so the sequencing is the library's own), plus the result.
   Every step must be the Renderer action from the current model state; the returned
   octets must satisfy I1-I8 (ResultOk: decoded with the specification's decoder). *)
EXTENDS Renderer, VTrace

VARIABLES t, l
tvars == <<st, t, l>>

e == Ev(t)[l]
T == Log[t]
Cmp == T.cmp
Hdr == T.hdr
Cfg == T.cfg           \* [pad, key, alg, terr, other, pt, max]; alg = TSIG algorithm name (labels); key = <<>> means no TSIG; terr/other = TSIG error and other data
Adv == l' = l + 1 /\ t' = t
AlgName == <<<<104, 109, 97, 99, 45, 115, 104, 97, 50, 53, 54>>>>       \* hmac-sha256.

IsQ(i) == T.msg[i].op = "q"
Item(i) == T.msg[i]
Qs == SelectSeq(T.msg, LAMBDA x : x.op = "q")
SecSets(s) == LET xs == SelectSeq(T.msg, LAMBDA x : x.op = "rr" /\ x.sec = s)
              IN [i \in 1..Len(xs) |-> MkRRset(xs[i], Cmp, ClsIN)]
TsigRs(t48, mac) == MkTsig(Cfg.key, Cfg.alg, t48, 300, mac, Hdr.id, Cfg.terr, Cfg.other)
\* the abstract message being rendered (TSIG time and MAC are observed values)
Msg(t48, mac) ==
    [id |-> Hdr.id, flags |-> HdrFlags(Hdr),
     q |-> [i \in 1..Len(Qs) |-> [name |-> Qs[i].name, type |-> Qs[i].type, cls |-> Qs[i].cls]],
     an |-> SecSets(1), au |-> SecSets(2), ad |-> SecSets(3),
     opt |-> IF Hdr.edns[1] = "edns" THEN <<HdrOpt(Hdr)>> ELSE <<>>,
     tsig |-> IF Cfg.key = <<>> THEN <<>> ELSE <<TsigRs(t48, mac)>>,
     pad |-> Cfg.pad]
M0 == Msg(<<0, 0, 0, 0, 0, 0>>, Fill(32, 0))

LogTable(tb) == {<<LowerName(tb[i][1]), tb[i][2]>> : i \in 1..Len(tb)}
ModelTable(S) == {<<k, S.table[k]>> : k \in DOMAIN S.table}
State(S) ==
    /\ Check(t, l, "Pos", e.pos = Len(S.out))
    /\ Check(t, l, "Counts", e.counts = S.counts)
    /\ Check(t, l, "Budget", e.max = S.maxSize /\ e.reserved = S.reserved)
    /\ Check(t, l, "Table", HasKey(e, "table") => LogTable(e.table) = ModelTable(S))
Outcome(S) == Check(t, l, "WholeSetOrNothing", e.res = S.res)

TraceInit ==
    /\ RegInit
    /\ t \in 1..NTraces /\ l = 1
    /\ st = FInit(Ev(t)[1].id, Ev(t)[1].flags, Ev(t)[1].max)

TNew == /\ e.op = "new" /\ UNCHANGED st
        /\ Check(t, l, "EffectiveLimit", e.max <= Clamp(Cfg.max) /\ e.max >= 1 /\ e.flags = HdrFlags(Hdr) /\ e.id = Hdr.id)
        /\ State(st) /\ Adv
TReserve == /\ e.op = "reserve" /\ Reserve(e.n) /\ State(st') /\ Adv
TRelease == /\ e.op = "release" /\ Release /\ State(st') /\ Adv
TItem == /\ e.op = "item"
         /\ IF IsQ(e.idx) THEN AddQuestion([name |-> Item(e.idx).name, type |-> Item(e.idx).type, cls |-> Item(e.idx).cls])
            ELSE AddRRset(Item(e.idx).sec, MkRRset(Item(e.idx), Cmp, ClsIN))
         /\ Outcome(st') /\ State(st') /\ Adv
TOpt == /\ e.op = "opt"
        /\ AddOpt(HdrOpt(Hdr), e.pad, e.osize, e.tsize)
        /\ Outcome(st') /\ State(st') /\ Adv
\* whether the TSIG owner name is compressed is the implementation's choice (observed from
\* the size written); the table after the last record of the message is not compared
TTsig == /\ e.op = "tsigrr"
         /\ LET rs == TsigRs(e.t48, e.mac)
                plain == Len(EncTsig(rs, Pos(st), st.table, FALSE).b)
                c == e.res = "ok" /\ e.pos - Pos(st) # plain
            IN st' = FCommit(st, 3, EncTsig(rs, Pos(st), st.table, c), 1, <<>>, ExpRRs(rs, 3))
         /\ Outcome(st') /\ State(st') /\ Adv
THdr == /\ e.op = "hdr" /\ st' = FWriteHeader(FSetFlags(st, e.flags)) /\ State(st') /\ Adv

\* generous slack: the largest total the reserve may legitimately assume for OPT + TSIG
Slack(m) == OptBase(m) + (IF m.opt # <<>> /\ m.pad > 0 THEN m.pad - 1 ELSE 0) + TsigSize(m)
\* position after rendering the questions and the first k record sets without any limit
PosAfter(m, nq, k) == Pos(FAddAll(FInit(m.id, m.flags, 1000000000),
                                  SubSeq(MsgItems(m), 1, Len(m.q)) \o SubSeq(AllSets(m), 1, k)))
TDone ==
    /\ e.op = "done" /\ UNCHANGED st
    \* rendering never changes the message object (a later rendering of the same object starts from the same flags)
    /\ Check(t, l, "MessageFlagsUnchanged", e.mflags[1] = e.mflags[2] /\ e.mflags[1] = HdrFlags(Hdr))
    /\ LET m == Msg(e.t48, e.mac)
           nsets == Len(AllSets(m))
           full == PosAfter(m, Len(m.q), nsets) IN
       IF e.res = "ok" THEN
          /\ Check(t, l, ResultClause(e.wire, m, Cfg.max, Cfg.pt), ResultOk(e.wire, m, Cfg.max, Cfg.pt))
          /\ Check(t, l, "ReturnedIsRendered", e.wire = st.out)
          \* a record set may only be left out if it could not fit even with the reserve
          /\ Check(t, l, "TruncationNeeded",
                   LET p == Parse(e.wire)
                       nrec == p.counts[2] + p.counts[3] + p.counts[4] - TrailerCount(m)
                       k == CHOOSE k \in 0..nsets : CumCount(AllSets(m), k) = nrec
                   IN k = nsets \/ PosAfter(m, Len(m.q), k + 1) + Slack(m) > Clamp(Cfg.max))
          /\ Check(t, l, "ParsedByLibrary", /\ e.parsed.ok /\ e.parsed.len = Len(e.wire)
                                            /\ e.parsed.opt = (m.opt # <<>>) /\ e.parsed.tsig = (m.tsig # <<>>)
                                            /\ e.parsed.flags = Parse(e.wire).flags
                                            /\ e.parsed.counts = Parse(e.wire).counts)
       ELSE
          /\ Check(t, l, "OnlyTooBig", e.res = "toobig")
          /\ Check(t, l, "TruncationPreferredButRaised", ~Cfg.pt)
          \* too-big is justified only if the whole message could not fit with the reserve
          /\ Check(t, l, "TooBigUnjustified", full + Slack(m) > Clamp(Cfg.max))
    /\ Adv

TraceNext == /\ l <= Len(Ev(t))
             /\ \/ TNew \/ TReserve \/ TRelease \/ TItem \/ TOpt \/ TTsig \/ THdr \/ TDone
Accepted == Accepting(t, l)
=============================================================================
