INIT TraceInit
NEXT TraceNext
CONSTANTS
  Names = {}
  Types = {}
  RdIds = {}
  TTLs = {}
  Filters = {}
  InitZones = {}
  NodeShapes = {}
  MaxOps = 0
CONSTRAINT Accepted
POSTCONDITION Post
CHECK_DEADLOCK FALSE
