--------------------------- MODULE Trace_CacheLin ---------------------------
(* Linearizability check for recorded concurrent histories of a resolver cache: the
   events are invocations and returns (per-thread program order, global order as recorded
   by the deterministic scheduler); the linearization points are silent Lin steps that TLC
   places.  A history is accepted iff some placement explains every return value and the
   final structural content. *)
EXTENDS CacheLin, VTrace
VARIABLES t, l
tvars == <<lvars, t, l>>

TraceInit ==
    /\ RegInit
    /\ t \in 1..NTraces /\ l = 1
    /\ kind = Log[t].kind /\ max = Log[t].max
    /\ now = 0 /\ data = <<>> /\ order = <<>> /\ hits = 0 /\ misses = 0 /\ gets = 0 /\ res = <<"-">>
    /\ pend = [th \in ToSetOf(Log[t].threads) |-> <<"idle">>]

e == Ev(t)[l]
Adv == l' = l + 1 /\ t' = t
Rev(s) == [i \in 1..Len(s) |-> s[Len(s) + 1 - i]]
RingKeys == [i \in 1..Len(e.ring) |-> e.ring[i][1]]

TCall == e.op = "call" /\ Invoke(e.th, e.call) /\ Adv
TRet == e.op = "ret" /\ Return(e.th, e.res) /\ Adv
TTick == e.op = "tick" /\ Tick(e.d) /\ Adv
TLin == /\ \E th \in DOMAIN pend : Lin(th)
        /\ UNCHANGED <<t, l>>
(* after all threads finished: the structure must be the one the linearization predicts *)
TFinal ==
    /\ e.op = "final"
    /\ \A th \in DOMAIN pend : Idle(th)
    /\ Check(t, l, "FinalCounters", e.hits = hits /\ e.misses = misses)
    /\ IF kind = "lru"
       THEN /\ Check(t, l, "FinalLruBound", Len(e.ring) <= max)
            /\ Check(t, l, "FinalRing", RingKeys = order /\ e.back = Rev(RingKeys)
                                         /\ ToSetOf(e.keys) = ToSetOf(RingKeys) /\ Len(e.keys) = Len(e.ring))
            /\ Check(t, l, "FinalContent", \A i \in 1..Len(e.ring) :
                        LET k == e.ring[i][1] IN
                        k \in DOMAIN data /\ data[k].val = e.ring[i][2] /\ data[k].exp = e.ring[i][3]
                        /\ data[k].hits = e.ring[i][4])
       ELSE Check(t, l, "FinalLive",
                  ToSetOf(e.live) = {<<k, data[k].val, data[k].exp>> : k \in {k \in DOMAIN data : now < data[k].exp}})
    /\ UNCHANGED lvars /\ Adv

TraceNext ==
    \/ (l <= Len(Ev(t)) /\ (TCall \/ TRet \/ TTick \/ TFinal))
    \/ (l <= Len(Ev(t)) /\ TLin)

Accepted == Accepting(t, l)
=============================================================================
