-------------------------- MODULE Trace_NameText --------------------------
(* Trace validation for the text codec of names (C01).  One event = one evaluation of
   Name.to_text / dns.name.from_text / Tokenizer.get_name on the real code; the outputs
   are recomputed with ToText / ParseText (the fold of the parser automaton) / TokName.

   Hard: the text is one master-file token (printable, specials only escaped: MasterFileSafe);
   the text the implementation wrote parses - with the SPECIFICATION's parser - back
   to the name (byte-identical labels); the implementation's parser gives, for every text,
   the verdict and the name the specification's parser gives; a refusal is a library
   error.  Free: which error class.  Strict (drift only): the exact escaping chosen. *)
EXTENDS NameText, VTrace

CONSTANT Strict
VARIABLES t, l
tvars == <<t, l>>

TraceInit == RegInit /\ t \in 1..NTraces /\ l = 1
e == Ev(t)[l]
Adv == l' = l + 1 /\ t' = t
C(id, cond) == Check(t, l, id, cond)

Agrees(r, s) == IF IsOk(s) THEN r[1] = "ok" /\ r[2] = s[2] ELSE r[1] = "err"
LibErrOrOk(r) == r[1] = "err" => r[3]

(* to_text of a name, and from_text / get_name of that text under each origin *)
TWrite ==
    /\ e.op = "write"
    /\ C("TextIsMasterFileSafe", MasterFileSafe(e.text) /\ MasterFileSafe(e.omit))
    /\ C("TextParsesBack", \A k \in 1..Len(e.origins) : ParseText(e.text, e.origins[k]) = Reparsed(e.n, e.origins[k]))
    /\ C("OmitFinalDot", IsAbs(e.n) => ParseText(e.omit, Some(Root)) = Ok(e.n))
    /\ C("TextRoundTrip", \A k \in 1..Len(e.origins) : Agrees(e.back[k], Reparsed(e.n, e.origins[k])))
    /\ C("TokenizerRoundTrip", \A k \in 1..Len(e.origins) : Agrees(e.tok[k], Reparsed(e.n, e.origins[k])))
    /\ C("LibraryError", \A k \in 1..Len(e.origins) : LibErrOrOk(e.back[k]) /\ LibErrOrOk(e.tok[k]))
    /\ (Strict => C("TextExact", e.text = ToText(e.n) /\ e.omit = ToTextOmit(e.n)))
    /\ Adv

(* from_text of an arbitrary text under each origin *)
TParse ==
    /\ e.op = "parse"
    /\ C("ParseVerdict", \A k \in 1..Len(e.origins) : IsOk(ParseText(e.text, e.origins[k])) <=> e.res[k][1] = "ok")
    /\ C("ParseValue", \A k \in 1..Len(e.origins) : Agrees(e.res[k], ParseText(e.text, e.origins[k])))
    /\ C("ResultValid", \A k \in 1..Len(e.origins) : e.res[k][1] = "ok" => Valid(e.res[k][2]))
    /\ C("LibraryError", \A k \in 1..Len(e.origins) : LibErrOrOk(e.res[k]))
    /\ Adv

(* Tokenizer.get_name(origin, relativize, relativize_to) of a one-token text *)
TTok ==
    /\ e.op = "tok"
    /\ C("TokenizerName", Agrees(e.res, TokName(e.text, e.origin, e.relativize, e.relto)))
    /\ C("LibraryError", LibErrOrOk(e.res))
    /\ Adv

TraceNext == l <= Len(Ev(t)) /\ (TWrite \/ TParse \/ TTok)
Accepted == Accepting(t, l)
=============================================================================
