------------------------------ MODULE RdataText ------------------------------
(* Reference model of the text round trip of one record (C05, per-type layer).

   The per-type presentation grammar is deliberately NOT modelled (90 hand-written
   formatters).  What is modelled is what text must CARRY: a record is its value
   (the RDATA octets it encodes to under the origin) plus the relativity of the names in
   it; producing text under (origin, relativize) yields a spelling of the same value whose
   names are relative or absolute; parsing under (origin, relativize, relativize_to) yields
   a record of the same value with the relativity the configuration dictates (relative names
   are completed with origin, the result is relativized to relativize_to, default origin).  Nothing else may
   change, for any style of the lossless set, and the RFC 3597 generic form carries the
   value with absolute names.  Trace_RdataText holds the implementation to this. *)
EXTENDS RdTextUniverse

CONSTANT Values           \* model checking only: the octet strings a record may hold
VARIABLES have,           \* a record is in hand
          val,            \* its value: RDATA octets under the origin
          rel,            \* the record's base (RdTextUniverse): "abs", or the origin its names are held relative to
          via,            \* "wire" / "text": how the record was accepted
          lenient,        \* accepted from wire, but has no master-file form (RdTextUniverse!Lenient)
          obs             \* the last derived record: [wire, rel] (rel = its base)
rvars == <<have, val, rel, via, lenient, obs>>

NoObs == [wire |-> <<-1>>, rel |-> "abs"]
RInit == have = FALSE /\ val = <<-1>> /\ rel = "abs" /\ via = "none" /\ lenient = FALSE /\ obs = NoObs

\* the relativity calculus (TextBase, ParseBase, OutBase, GenBase, Applicable) is RdTextUniverse's
AcceptWire(w, oin, len) == /\ ~have /\ have' = TRUE /\ val' = w /\ rel' = (IF oin = "org" THEN "org" ELSE "abs") /\ via' = "wire"
                           /\ lenient' = len /\ obs' = NoObs
AcceptText(w, trel) == /\ ~have /\ have' = TRUE /\ val' = w /\ rel' = (IF trel THEN "org" ELSE "abs") /\ via' = "text"
                       /\ lenient' = FALSE /\ obs' = NoObs
\* to_text under oc / style, then from_text under oc: same value, relativity by the calculus
RoundTrip(oc, st) == /\ have /\ oc \in OrgConfigs /\ st \in {s.id : s \in Styles}
                     /\ Applicable(oc, rel)
                     /\ obs' = [wire |-> val, rel |-> OutBase(oc, rel)]
                     /\ UNCHANGED <<have, val, rel, via, lenient>>
\* to_generic().to_text(), then from_text of the record's own type under gc
Generic(gc) == /\ have /\ gc \in GenConfigs
               /\ obs' = [wire |-> val, rel |-> GenBase(gc)]
               /\ UNCHANGED <<have, val, rel, via, lenient>>
RNext == \/ \E w \in Values, oin \in {"none", "org"}, b \in BOOLEAN : AcceptWire(w, oin, b)
         \/ \E w \in Values, b \in BOOLEAN : AcceptText(w, b)
         \/ \E oc \in OrgConfigs, s \in Styles : RoundTrip(oc, s.id)
         \/ \E gc \in GenConfigs : Generic(gc)
RSpec == RInit /\ [][RNext]_rvars

\* ---- properties of the model
Lossless == obs # NoObs => obs.wire = val
\* a record that came out of a round trip is a fixed point of the same configuration
Idempotent == \A oc \in OrgConfigs, r \in Bases :
                 (Applicable(oc, r) /\ Applicable(oc, OutBase(oc, r))) => OutBase(oc, OutBase(oc, r)) = OutBase(oc, r)
\* without an origin on either side nothing changes; with relativize on both sides names end up relative
PlainKeeps == \A oc \in OrgConfigs, r \in Bases : (oc.ot = "none" /\ oc.op = "none") => OutBase(oc, r) = r
\* relativize_to decides the base of a relativizing parse, and is irrelevant without relativize
RelToDecides == \A oc \in OrgConfigs, r \in Bases :
                   (Applicable(oc, r) /\ oc.op # "none") =>
                      OutBase(oc, r) = (IF ~oc.rp THEN "abs" ELSE IF oc.relto # "none" THEN oc.relto ELSE oc.op)
ConfigsDistinct == \A a, b \in OrgConfigs : a.id = b.id => a = b
Immutable == [][have => (val' = val /\ rel' = rel /\ via' = via)]_rvars
=============================================================================
