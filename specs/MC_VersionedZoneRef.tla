------------------------- MODULE MC_VersionedZoneRef -------------------------
(* X04 - TLC check, on the bounded instances of C11, that VersionedZone (recursive Prune,
   all pruning policies, all calls) implements VersionedZoneAbs (PruneRel) under the
   identity mapping on versions / allIds / published / readers. *)
EXTENDS MC_VersionedZone

Abs == INSTANCE VersionedZoneAbs WITH IdSpace <- 1..(MaxCommits + 2)

AbsSpec == Abs!Spec
AbsIndInv == Abs!IndInv
AbsSafety == Abs!Safety
(* the elementwise statements proved for the abstraction are the statements of
   VersionedZone.tla *)
SameProperties ==
    /\ Abs!IdsIncrease <=> IdsIncrease
    /\ Abs!ContiguousNewest <=> (Contiguous /\ NewestRetained)
    /\ Abs!PinnedRetained <=> PinnedRetained
    /\ Abs!VersionsImmutable <=> VersionsImmutable
    /\ Abs!Snapshot <=> Snapshot
=============================================================================
