INIT TraceInit
NEXT TraceNext
CONSTANTS
  Keys = {}
  Vals = {}
  TTLs = {}
  Sizes = {}
  Steps = {}
  Kinds = {}
  Threads = {}
CONSTRAINT Accepted
POSTCONDITION Post
CHECK_DEADLOCK FALSE
