INIT Init
NEXT Next
VIEW View
CONSTANTS
  MaxFaults = 2
  Kinds = {"msg", "namew", "rdw", "optw", "namet", "rdt", "ttl", "zone", "msgt", "optm", "rdg", "zinc"}
  PairBases = {"M1", "M2", "M3", "M4", "M5", "M6", "N1", "N2", "L1", "L2", "L3", "L4", "T1", "T2", "T3", "Z1", "Z2", "Z3", "Z4", "Z5", "A", "AAAA", "MX", "TXT", "OPT", "TSIG", "NSEC", "NSEC3", "SVCB", "HTTPS", "APL", "LOC", "SOA", "RRSIG", "NAPTR", "HIP", "IPSECKEY", "CAA", "URI", "CERT", "TKEY", "DS", "AMTRELAY", "CSYNC", "GPOS", "ISDN", "NSAP", "CH.A", "8.1", "8.2", "15.1", "15.2", "10.2", "18.1"}
INVARIANT OctetsOK
INVARIANT DescriptorDeterminesInput
INVARIANT BaseAccepted
INVARIANT TruncationRefused
INVARIANT TrailingRefused
INVARIANT RdlenMismatchRefused
INVARIANT FailuresOrdered
INVARIANT NameLaw
INVARIANT OptmLaw
INVARIANT ZincLaw
INVARIANT TextLaw
INVARIANT SpecLaw
CHECK_DEADLOCK FALSE
