------------------------------- MODULE Lexer -------------------------------
(* The master-file lexer: RFC 1035 section 5.1 and the docstrings of dns.tokenizer.

   RFC 1035 5.1: "Entries are predominantly line-oriented, though parentheses can be used
   to continue a list of items across a line boundary, and text literals can contain CRLF
   within the text.  Any combination of tabs and spaces act as a delimiter between the
   separate items that make up an entry.  The end of any line in the master file can end
   with a comment.  The comment starts with a ";" (semicolon)."
   "\X where X is any character other than a digit (0-9), is used to quote that character
   so that its special meaning does not apply."  "\DDD where each D is a digit is the
   octet corresponding to the decimal number described by DDD."
   "( ) Parentheses are used to group data that crosses a line boundary.  In effect, line
   terminations are not recognized within parentheses."
   "; Semicolon is used to start a comment; the remainder of the line is ignored."
   "<character-string> is expressed in one or two ways: as a contiguous set of characters
   without interior spaces, or as a string beginning with a " and ending with a ".  Inside
   a " delimited string any character can occur, except for a " itself, which must be
   quoted using \ (back slash)."
   dns.tokenizer: token types EOF EOL WHITESPACE IDENTIFIER QUOTED_STRING COMMENT;
   "multiline: ... increased by one every time a '(' delimiter is read, and decreased by
   one every time a ')' delimiter is read"; get(want_leading, want_comment): "return a
   WHITESPACE token if the first character read is whitespace", "return a COMMENT token
   if the first token read is a comment", "Raises UnexpectedEnd: input ended prematurely",
   "Raises SyntaxError: input was badly formed"; unget: one token of push-back.

   A character-level automaton.  Step(m, c, D) consumes (or leaves unread) the character c
   at position m.pos of the input; END stands for the end of the input.  The same operator
   is the next-state relation of the machine in MC_Lexer (input supplied lazily) and, by
   iteration, the function GetTok / RunScript used by the laws and by Trace_Lexer.

   What the texts above leave open is a DIALECT D (a record of knobs, see Dialects):
     cr     "char"  a carriage return is an ordinary character | "blank" it is white space
     nlq    "refuse" a bare newline inside quotes is an error | "keep" it is part of the text
            (the RFC sentence "text literals can contain CRLF")
     escnl  "end"   backslash-newline outside quotes is an error | "quote" it quotes the newline
     wsq    TRUE    white space right after a closing quote is reported as WHITESPACE to a
                    get(want_leading) | FALSE it is not *)
EXTENDS Integers, Sequences, FiniteSets

SP == 32  TAB == 9  NL == 10  CR == 13  LP == 40  RP == 41  SEMI == 59  DQ == 34  BS == 92
END == -1

Dialects == [cr : {"char", "blank"}, nlq : {"refuse", "keep"}, escnl : {"end", "quote"}, wsq : BOOLEAN]

Tok(k, v, e) == [k |-> k, v |-> v, e |-> e]
Kinds == {"EOF", "EOL", "WHITESPACE", "IDENTIFIER", "QUOTED_STRING", "COMMENT"}
TEof == Tok("EOF", <<>>, FALSE)
TEol == Tok("EOL", <<NL>>, FALSE)
TWs == Tok("WHITESPACE", <<SP>>, FALSE)

Blank(c, depth, D) == c = SP \/ c = TAB \/ (c = NL /\ depth > 0) \/ (c = CR /\ D.cr = "blank")
\* characters that end an unquoted item (unless quoted with a backslash)
Special(c, D) == c \in {SP, TAB, NL, LP, RP, SEMI, DQ} \/ (c = CR /\ D.cr = "blank")

(* m.pos    next unread position          m.depth  open parentheses
   m.aq     the previous token was closed by a quote        m.held  <<>> or <<ungotten token>>
   m.st     "ok" or the reason of the failure               m.mode  idle / lead / item / ident /
   m.txt, m.esc  text gathered, backslash seen              escI / quoted / escQ / comment
   m.skipped, m.wl, m.wc  of the running get               m.ret   <<>> or <<token returned>> *)
Start0 == [pos |-> 1, depth |-> 0, aq |-> FALSE, held |-> <<>>, st |-> "ok", mode |-> "idle",
           txt |-> <<>>, esc |-> FALSE, skipped |-> 0, wl |-> FALSE, wc |-> FALSE, ret |-> <<>>]

Take(m) == [m EXCEPT !.pos = @ + 1]
Ret(m, tok) == [m EXCEPT !.mode = "idle", !.ret = <<tok>>, !.txt = <<>>, !.esc = FALSE]
Err(m, why) == [m EXCEPT !.mode = "idle", !.st = why, !.ret = <<>>]
Add(m, c) == [Take(m) EXCEPT !.txt = Append(@, c)]

StepLead(m, c, D) ==
    IF c # END /\ Blank(c, m.depth, D) THEN [Take(m) EXCEPT !.skipped = @ + 1]
    ELSE IF m.wl /\ m.skipped > 0 THEN Ret(m, TWs)
    ELSE [m EXCEPT !.mode = "item"]

StepItem(m, c, D) ==
    CASE c = END -> IF m.depth > 0 THEN Err(m, "unbalanced") ELSE Ret(m, TEof)
      [] c = NL /\ m.depth = 0 -> Ret(Take(m), TEol)
      [] c # END /\ Blank(c, m.depth, D) -> Take(m)
      [] c = LP -> [Take(m) EXCEPT !.depth = @ + 1]
      [] c = RP -> IF m.depth = 0 THEN Err(m, "unbalanced") ELSE [Take(m) EXCEPT !.depth = @ - 1]
      [] c = DQ -> [Take(m) EXCEPT !.mode = "quoted"]
      [] c = SEMI -> [Take(m) EXCEPT !.mode = "comment"]
      [] c = BS -> [Add(m, c) EXCEPT !.mode = "escI", !.esc = TRUE]
      [] OTHER -> [Add(m, c) EXCEPT !.mode = "ident"]

StepIdent(m, c, D) ==
    IF c = END \/ Special(c, D) THEN Ret(m, Tok("IDENTIFIER", m.txt, m.esc))     \* c stays unread
    ELSE IF c = BS THEN [Add(m, c) EXCEPT !.mode = "escI", !.esc = TRUE]
    ELSE Add(m, c)

StepEscI(m, c, D) ==
    IF c = END THEN Err(m, "eof-after-backslash")
    ELSE IF c = NL /\ D.escnl = "end" THEN Err(m, "escaped-newline")
    ELSE [Add(m, c) EXCEPT !.mode = "ident"]

StepQuoted(m, c, D) ==
    CASE c = END -> Err(m, "eof-in-quote")
      [] c = DQ -> [Ret(Take(m), Tok("QUOTED_STRING", m.txt, m.esc)) EXCEPT !.aq = TRUE]
      [] c = NL /\ D.nlq = "refuse" -> Err(m, "newline-in-quote")
      [] c = BS -> [Add(m, c) EXCEPT !.mode = "escQ", !.esc = TRUE]
      [] OTHER -> Add(m, c)

StepEscQ(m, c, D) == IF c = END THEN Err(m, "eof-after-backslash") ELSE [Add(m, c) EXCEPT !.mode = "quoted"]

StepComment(m, c, D) ==
    IF c # END /\ c # NL THEN Add(m, c)
    ELSE IF m.wc THEN Ret(m, Tok("COMMENT", m.txt, FALSE))                      \* c stays unread
    ELSE IF c = END THEN (IF m.depth > 0 THEN Err(m, "unbalanced") ELSE Ret(m, TEof))
    ELSE IF m.depth > 0 THEN [Take(m) EXCEPT !.mode = "item", !.txt = <<>>]
    ELSE Ret(Take(m), TEol)

Step(m, c, D) ==
    CASE m.mode = "lead" -> StepLead(m, c, D)      [] m.mode = "item" -> StepItem(m, c, D)
      [] m.mode = "ident" -> StepIdent(m, c, D)    [] m.mode = "escI" -> StepEscI(m, c, D)
      [] m.mode = "quoted" -> StepQuoted(m, c, D)  [] m.mode = "escQ" -> StepEscQ(m, c, D)
      [] m.mode = "comment" -> StepComment(m, c, D)

\* ------------------------------------------------------------------ the calls
Fresh(m, wl, wc, D) ==
    [m EXCEPT !.mode = IF m.aq /\ ~D.wsq THEN "item" ELSE "lead", !.aq = FALSE, !.skipped = 0,
              !.wl = wl, !.wc = wc, !.ret = <<>>, !.txt = <<>>, !.esc = FALSE]
\* an ungotten token is given back; white space / a comment the caller does not want is dropped,
\* exactly as if it were read again
Begin(m, wl, wc, D) ==
    IF m.held = <<>> THEN Fresh(m, wl, wc, D)
    ELSE LET u == m.held[1]  m1 == [m EXCEPT !.held = <<>>]
         IN  IF (u.k = "WHITESPACE" /\ ~wl) \/ (u.k = "COMMENT" /\ ~wc) THEN Fresh(m1, wl, wc, D)
             ELSE Ret(m1, u)
CanUnget(m) == m.mode = "idle" /\ m.st = "ok" /\ m.ret # <<>> /\ m.held = <<>>
UngetTok(m) == [m EXCEPT !.held = m.ret]

At(s, i) == IF i <= Len(s) THEN s[i] ELSE END
RECURSIVE Run(_, _, _)
Run(m, s, D) == IF m.mode = "idle" THEN m ELSE Run(Step(m, At(s, m.pos), D), s, D)
GetTok(m, s, wl, wc, D) == Run(Begin(m, wl, wc, D), s, D)

\* skip_whitespace(): "Consume input until a non-whitespace character is encountered ... If the
\* tokenizer is in multiline mode, then newlines are whitespace.  Returns the number of characters skipped."
RECURSIVE BlankRun(_, _, _, _)
BlankRun(s, i, depth, D) == IF i <= Len(s) /\ Blank(s[i], depth, D) THEN 1 + BlankRun(s, i + 1, depth, D) ELSE 0
SkipCount(m, s, D) == IF m.aq /\ ~D.wsq THEN 0 ELSE BlankRun(s, m.pos, m.depth, D)
SkipWs(m, s, D) == [m EXCEPT !.pos = @ + SkipCount(m, s, D)]

\* where(): "the current line number" = 1 + newlines consumed; an implementation that reads one
\* character ahead may already have counted the newline it has not delivered yet
RECURSIVE CountNl(_, _)
CountNl(s, n) == IF n = 0 THEN 0 ELSE CountNl(s, n - 1) + (IF s[n] = NL THEN 1 ELSE 0)
LineOf(m, s) == 1 + CountNl(s, m.pos - 1)
LineAhead(m, s) == LineOf(m, s) + (IF At(s, m.pos) = NL THEN 1 ELSE 0)

\* ------------------------------------------------------------------ whole inputs
\* all tokens of s with constant options, ending with EOF or <<"error", reason>>
RECURSIVE TokensFrom(_, _, _, _, _)
TokensFrom(m, s, wl, wc, D) ==
    LET m1 == GetTok(m, s, wl, wc, D)
    IN  IF m1.st # "ok" THEN <<Tok("error", <<>>, FALSE)>>
        ELSE IF m1.ret[1].k = "EOF" THEN <<m1.ret[1]>>
        ELSE <<m1.ret[1]>> \o TokensFrom(m1, s, wl, wc, D)
Lex(s, wl, wc, D) == TokensFrom(Start0, s, wl, wc, D)
Failed(ts) == ts[Len(ts)].k = "error"

\* the same, every token ungotten once and got again
RECURSIVE TokensUnget(_, _, _, _, _)
TokensUnget(m, s, wl, wc, D) ==
    LET m1 == GetTok(m, s, wl, wc, D)
    IN  IF m1.st # "ok" THEN <<Tok("error", <<>>, FALSE)>>
        ELSE LET m2 == GetTok(UngetTok(m1), s, wl, wc, D)
             IN  IF m2.ret[1].k = "EOF" THEN <<m1.ret[1], m2.ret[1]>>
                 ELSE <<m1.ret[1], m2.ret[1]>> \o TokensUnget(m2, s, wl, wc, D)

\* canonical text of a token sequence: items separated by one space
Render1(tk) == CASE tk.k = "IDENTIFIER" -> tk.v
                 [] tk.k = "QUOTED_STRING" -> <<DQ>> \o tk.v \o <<DQ>>
                 [] tk.k = "EOL" -> <<NL>>
                 [] tk.k = "COMMENT" -> <<SEMI>> \o tk.v
                 [] OTHER -> <<>>
RECURSIVE Render(_)
Render(ts) == IF ts = <<>> THEN <<>> ELSE Render1(ts[1]) \o (IF Len(ts) > 1 /\ ts[1].k \notin {"EOL", "COMMENT"} THEN <<SP>> ELSE <<>>) \o Render(Tail(ts))

\* ------------------------------------------------------------------ declared universes
\* letter, digit, space, tab, newline, CR, ( ) ; " \ and a non-ASCII character (e-acute)
FullAlphabet == {97, 49, SP, TAB, NL, CR, LP, RP, SEMI, DQ, BS, 233}
ClassAlphabet == {97, SP, NL, CR, LP, RP, SEMI, DQ, BS}
ClassTabAlphabet == ClassAlphabet \cup {TAB}
LibDialect == [cr |-> "char", nlq |-> "refuse", escnl |-> "end", wsq |-> FALSE]
OtherDialect == [cr |-> "blank", nlq |-> "keep", escnl |-> "quote", wsq |-> TRUE]
LibDialects == {LibDialect}
TwoDialects == {LibDialect, OtherDialect}
\* the knobs that can matter for an input (KnobsIrrelevant in MC_LexerLaws): the others are pinned
Pin(D, s) ==
    LET has(c) == \E i \in 1..Len(s) : s[i] = c
    IN  [cr |-> IF has(CR) THEN D.cr ELSE LibDialect.cr,
         nlq |-> IF has(DQ) /\ has(NL) THEN D.nlq ELSE LibDialect.nlq,
         escnl |-> IF has(BS) /\ has(NL) THEN D.escnl ELSE LibDialect.escnl,
         wsq |-> IF has(DQ) THEN D.wsq ELSE LibDialect.wsq]
DialectsFor(s) == {Pin(D, s) : D \in Dialects}
=============================================================================
