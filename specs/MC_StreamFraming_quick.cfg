SPECIFICATION Spec
CONSTANTS
  Cases <- MCQuick
  MaxBlocks = 2
INVARIANT TypeOK
INVARIANT SendExact
INVARIANT ReassembledExact
INVARIANT NeverShort
INVARIANT EofIsError
INVARIANT DeadlineRespected
INVARIANT NeverOverRead
CHECK_DEADLOCK FALSE
