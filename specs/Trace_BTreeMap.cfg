INIT TraceInit
NEXT TraceNext
CONSTANTS
  Handles = {1, 2, 3}
  Cursors = {1, 2}
  Keys = {}
  Vals = {}
  Ts = {}
CONSTRAINT Accepted
POSTCONDITION Post
CHECK_DEADLOCK FALSE
