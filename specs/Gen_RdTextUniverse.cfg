INIT GInit
NEXT GNext
CONSTANTS
  Wide = FALSE
INVARIANT Emit
CHECK_DEADLOCK FALSE
