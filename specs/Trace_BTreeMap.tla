--------------------------- MODULE Trace_BTreeMap ---------------------------
(* Trace validation for C19: every recorded call on the real dns.btree classes must be
   the corresponding BTreeMap action from the current model state; the value it returned
   must be the model's; and after EVERY call the observation of EVERY handle (in-order
   items, len, membership, node shape) must agree with the model's map for that handle -
   for the handle that was called (clause Content) and for all the others (clause
   Isolation).  WellFormed is evaluated on every logged node shape. *)
EXTENDS BTreeMap, VTrace

VARIABLES t, l
tvars == <<vars, t, l>>

TraceInit ==
    /\ RegInit
    /\ t \in 1..NTraces /\ l = 1
    /\ Init

e == Ev(t)[l]
Adv == l' = l + 1 /\ t' = t

(* observations: {"ref": j} points at the event of this trace holding the full record *)
Raw(h) == e.obs[h]
Obs(h) == IF Raw(h).ref = 0 THEN Raw(h) ELSE Ev(t)[Raw(h).ref].obs[h]

ContentEq(o, m) ==
    /\ Len(o.vals) = Len(o.keys)
    /\ StrictlyIncreasing(o.keys)                        \* iteration is in key order, no repeats
    /\ ToSetOf(o.keys) = DOMAIN m
    /\ \A i \in 1..Len(o.keys) : o.vals[i] = m[o.keys[i]]

(* An observation that the driver logged as "same as the previous event's" for a handle
   whose model value did not change either was already compared at the previous event. *)
Unchanged(h) ==
    /\ l > 1 /\ Raw(h).ref # 0
    /\ LET p == Ev(t)[l - 1].obs[h] IN (p.ref = Raw(h).ref \/ Raw(h).ref = l - 1)
    /\ tree'[h] = tree[h]

ObsOK(tgt) ==
    \A h \in Handles :
      IF Unchanged(h) THEN TRUE      \* must be IF: TLC would explore both sides of a disjunction
      ELSE
         LET o == Obs(h)
             m == tree'[h]
         IN /\ Check(t, l, "Live", o.live = m.live)
            /\ o.live =>
                 /\ Check(t, l, IF h = tgt THEN "Content" ELSE "Isolation", ContentEq(o, m.map))
                 /\ Check(t, l, "Len", o.len = Cardinality(DOMAIN m.map))
                 /\ Check(t, l, "Lookup", ToSetOf(o.mem) = DOMAIN m.map)
                 /\ (Raw(h).ref = 0) =>
                      /\ Check(t, l, "WellFormed", WellFormed(o.shape, m.t))
                      /\ Check(t, l, "ShapeContent", Flat(o.shape) = o.keys)

Refused == res' = "refused"
(* outcome of a call: raised <=> the model refuses.  On a frozen tree the clause is named
   after the property's own words. *)
Outcome(h) == Check(t, l, IF Live(h) /\ Frozen(h) THEN "FrozenRejects" ELSE "Outcome", Refused <=> (e.res = "err"))
ValueIs(v) == Check(t, l, "Value", e.val = v)
(* API spellings that return nothing log <<"-">> *)
ValueIfAny(v) == Check(t, l, "Value", e.val[1] = "-" \/ Refused \/ e.val = v)
Strict(f) == f \in {"item", "pop"}

TNew == /\ e.op = "new" /\ New(e.h, e.t)
        /\ Outcome(e.h) /\ ObsOK(e.h) /\ Adv
TSet == /\ e.op = "set" /\ Set(e.h, e.k, e.v)
        /\ Outcome(e.h) /\ ValueIfAny(val') /\ ObsOK(e.h) /\ Adv
TLoad == /\ e.op = "load" /\ Load(e.h, e.ks, e.v)
         /\ Outcome(e.h) /\ ObsOK(e.h) /\ Adv
(* d.pop(k, default) of an absent key never reaches the tree: on a frozen tree it may
   return the default instead of raising *)
TDel == /\ e.op = "del" /\ Del(e.h, e.k, Strict(e.form))
        /\ ((~(e.form = "discard" /\ Frozen(e.h) /\ e.k \notin DOMAIN M(e.h))) => Outcome(e.h))
        /\ ValueIfAny(val') /\ ObsOK(e.h) /\ Adv
(* delete_exact with an element that is not the stored one: nothing may be deleted;
   whether that is reported by an exception or by returning nothing is left open (the
   docstring promises None, the code raises ValueError). *)
TDelX == /\ e.op = "delx" /\ DelExact(e.h, e.k, e.same)
         /\ ((e.same \/ Frozen(e.h)) => Outcome(e.h))
         /\ (e.same => ValueIfAny(val'))
         /\ (~e.same => Check(t, l, "Value", e.res = "err" \/ e.val = <<"none">>))
         /\ ObsOK(e.h) /\ Adv
TPopMin == /\ e.op = "popmin" /\ PopMin(e.h)
           /\ Outcome(e.h) /\ (~Refused => ValueIs(val')) /\ ObsOK(e.h) /\ Adv
TClear == /\ e.op = "clear" /\ Clear(e.h)
          /\ ((~(Frozen(e.h) /\ DOMAIN M(e.h) = {})) => Outcome(e.h))
          /\ ObsOK(e.h) /\ Adv
TFreeze == /\ e.op = "freeze" /\ Freeze(e.h)
           /\ Check(t, l, "Outcome", e.res = "ok") /\ ObsOK(e.h) /\ Adv
TClone == /\ e.op = "clone" /\ Clone(e.src, e.dst)
          /\ Check(t, l, "CloneNeedsFrozen", Refused <=> (e.res = "err"))
          /\ ObsOK(e.dst) /\ Adv
TDrop == /\ e.op = "drop" /\ Drop(e.h) /\ ObsOK(e.h) /\ Adv

TGet == /\ e.op = "get" /\ Get(e.h, e.k)
        /\ LET present == e.k \in DOMAIN M(e.h)
           IN CASE e.form = "item" ->
                     /\ Check(t, l, "Outcome", (e.res = "err") <=> ~present)
                     /\ present => ValueIs(val')
                [] e.form = "in" ->
                     /\ Check(t, l, "Outcome", e.res = "ok") /\ ValueIs(<<"bool", present>>)
                [] OTHER ->
                     /\ Check(t, l, "Outcome", e.res = "ok") /\ ValueIs(val')
        /\ ObsOK(0) /\ Adv
TLen == /\ e.op = "len" /\ LenOf(e.h)
        /\ Check(t, l, "Outcome", e.res = "ok") /\ ValueIs(val') /\ ObsOK(0) /\ Adv
TIter == /\ e.op = "iter" /\ Iter(e.h)
         /\ Check(t, l, "Outcome", e.res = "ok")
         /\ IF e.form = "keys"
            THEN ValueIs(<<"keys", [i \in 1..Len(val'[2]) |-> val'[2][i][1]]>>)
            ELSE ValueIs(val')
         /\ ObsOK(0) /\ Adv
TExtreme == /\ e.op = "extreme" /\ Extreme(e.h, e.max)
            /\ Check(t, l, "Outcome", Refused <=> (e.res = "err")) /\ (~Refused => ValueIs(val')) /\ ObsOK(0) /\ Adv

TCOpen == /\ e.op = "copen" /\ COpen(e.c, e.h, e.kind)
          /\ Check(t, l, "Outcome", e.res = "ok") /\ ObsOK(0) /\ Adv
TCClose == /\ e.op = "cclose" /\ CClose(e.c)
           /\ Check(t, l, "Outcome", e.res = "ok") /\ ObsOK(0) /\ Adv
TSeek == /\ e.op = "seek" /\ Seek(e.c, e.k, e.before)
         /\ Check(t, l, "Outcome", e.res = "ok") /\ ObsOK(0) /\ Adv
TSeekEnd == /\ e.op \in {"first", "last"} /\ SeekEnd(e.c, e.op = "last")
            /\ Check(t, l, "Outcome", e.res = "ok") /\ ObsOK(0) /\ Adv
CursorValue == IF cur[e.c].kind = "iter" /\ val'[1] = "elt"
               THEN Check(t, l, "CursorValue", e.val = <<"key", val'[2]>>)
               ELSE Check(t, l, "CursorValue", e.val = val')
TNext == /\ e.op = "next" /\ CNext(e.c)
         /\ Check(t, l, "Outcome", e.res = "ok") /\ CursorValue /\ ObsOK(0) /\ Adv
TPrev == /\ e.op = "prev" /\ CPrev(e.c)
         /\ Check(t, l, "Outcome", e.res = "ok") /\ CursorValue /\ ObsOK(0) /\ Adv
TPark == /\ e.op = "park" /\ Park(e.c)
         /\ Check(t, l, "Outcome", e.res = "ok") /\ ObsOK(0) /\ Adv

TraceNext ==
    /\ l <= Len(Ev(t))
    /\ \/ TNew \/ TSet \/ TLoad \/ TDel \/ TDelX \/ TPopMin \/ TClear \/ TFreeze \/ TClone \/ TDrop
       \/ TGet \/ TLen \/ TIter \/ TExtreme
       \/ TCOpen \/ TCClose \/ TSeek \/ TSeekEnd \/ TNext \/ TPrev \/ TPark

Accepted == Accepting(t, l)
=============================================================================
