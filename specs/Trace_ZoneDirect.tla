-------------------------- MODULE Trace_ZoneDirect --------------------------
(* Trace validation for X08: every recorded call of the direct zone / node API must be the
   corresponding ZoneDirect action from the current model state: an allowed outcome, the
   model's return value, and the model's zone content after the call. *)
EXTENDS ZoneDirect, VTrace

VARIABLES t, l
tvars == <<vars, t, l>>

S(x) == ToSetOf(x)
Rows(p) == 1..Len(p)
(* projection rows <<name, type, ttl, <<ids>>>>; an empty node is the row <<name, "EMPTYNODE", 0, <<>>>> *)
Content(p) == [n \in {p[i][1] : i \in Rows(p)} |->
                 LET idx == {i \in Rows(p) : p[i][1] = n /\ p[i][2] # "EMPTYNODE"}
                 IN [ty \in {p[i][2] : i \in idx} |->
                       LET i == CHOOSE i \in idx : p[i][2] = ty IN R(p[i][3], S(p[i][4]))]]
LogProj(p) == {<<p[i][1], p[i][2], p[i][3], S(p[i][4])>> : i \in Rows(p)}
Proj(z) == AllRds(z) \cup {<<n, "EMPTYNODE", 0, {}>> : n \in {m \in DOMAIN z : DOMAIN z[m] = {}}}
NodeSetOf(x) == {<<x[i][1], x[i][2], S(x[i][3])>> : i \in Rows(x)}
ShapeOf(x) == [ty \in {x[i][1] : i \in Rows(x)} |->
                 LET i == CHOOSE i \in Rows(x) : x[i][1] = ty IN R(x[i][2], S(x[i][3]))]
NormVal(v) == CASE v[1] = "node" -> <<"node", NodeSetOf(v[2])>>
                [] v[1] = "rds" -> <<"rds", v[2], v[3], S(v[4])>>
                [] v[1] = "rrset" -> <<"rrset", v[2], v[3], v[4], S(v[5])>>
                [] v[1] = "items" -> <<"items", LogProj(v[2])>>
                [] v[1] \in {"rdatas", "names"} -> <<v[1], S(v[2])>>
                [] v[1] = "info" -> <<"info", NodeSetOf(v[2]), v[3], v[4]>>
                [] OTHER -> v

TraceInit ==
    /\ RegInit
    /\ t \in 1..NTraces /\ l = 1
    /\ zone = Content(Log[t].init) /\ mut = Log[t].mut
    /\ nops = 0 /\ last = L("init", "-", "-", FALSE) /\ res = "ok" /\ val = Nothing

e == Ev(t)[l]
Adv == l' = l + 1 /\ t' = t
ExcOk(family, x) == family \in {"Any", "Immutable"} \/ family = x
Judge == /\ Check(t, l, "Outcome", res' = e.res)
         /\ IF res' = "err" THEN Check(t, l, "ExcClass", ExcOk(val'[2], e.exc))
            ELSE Check(t, l, "Value", NormVal(e.val) = val')
         /\ Check(t, l, "Content", LogProj(e.st) = Proj(zone'))
(* "The read-only parts of the standard zone API ... are equivalent to doing a single-query
   read-only transaction" *)
Reader == Check(t, l, "ReaderEquivalent", (HasKey(e, "tval") /\ res' = "ok") => NormVal(e.tval) = val')
(* "this method does not store a copy of *replacement* at the node, it stores *replacement* itself" *)
Owned == Check(t, l, "Ownership", (res' = "ok" /\ HasKey(e, "own")) => e.own)
Count == Check(t, l, "Count", res' = "ok" => e.cnt = Cardinality(val'[2]))
Wrapper == IF res' = "ok"
           THEN /\ Check(t, l, "ImmutableWrapper",
                      /\ e.imm.isimm /\ \A i \in 1..Len(e.imm.refused) : e.imm.refused[i] = "err"
                      /\ NodeSetOf(e.imm.content) = val'[2] /\ NodeSetOf(e.imm.after) = val'[2]
                      /\ e.imm.kind = val'[3])
                /\ Check(t, l, "KindOfType", \A i \in 1..Len(e.kinds) : Kind(e.kinds[i][1]) = e.kinds[i][2])
                /\ Check(t, l, "Len", e.len = Cardinality(val'[2]))
           ELSE TRUE

TInitEv == /\ e.op = "init"
           /\ Check(t, l, "InitLoaded", LogProj(e.st) = Proj(zone))
           /\ UNCHANGED vars /\ Adv
TCall ==
    \/ e.op = "find_node" /\ FindNode(e.n, e.cr) /\ Judge
    \/ e.op = "get_node" /\ GetNode(e.n, e.cr) /\ Judge /\ Reader
    \/ e.op = "delete_node" /\ DeleteNode(e.n) /\ Judge
    \/ e.op = "find_rdataset" /\ FindRdataset(e.n, e.ty, e.cr) /\ Judge
    \/ e.op = "get_rdataset" /\ GetRdataset(e.n, e.ty, e.cr) /\ Judge /\ Reader
    \/ e.op = "delete_rdataset" /\ DeleteRdataset(e.n, e.ty) /\ Judge
    \/ e.op = "replace_rdataset" /\ ReplaceRdataset(e.n, e.ty, e.ttl, S(e.rds)) /\ Judge /\ Owned
    \/ e.op = "find_rrset" /\ FindRRset(e.n, e.ty) /\ Judge
    \/ e.op = "get_rrset" /\ GetRRset(e.n, e.ty) /\ Judge
    \/ e.op = "addto" /\ AddTo(e.n, e.ty, e.ttl, e.rd, e.cr) /\ Judge
    \/ e.op = "iterate_rdatasets" /\ IterRdatasets(e.f) /\ Judge /\ Count /\ Reader
    \/ e.op = "iterate_rdatas" /\ IterRdatas(e.f) /\ Judge /\ Count
    \/ e.op = "getitem" /\ GetItem(e.n) /\ Judge
    \/ e.op = "get" /\ DictGet(e.n) /\ Judge
    \/ e.op = "contains" /\ Contains(e.n) /\ Judge /\ Reader
    \/ e.op = "setitem" /\ SetItem(e.n, ShapeOf(e.node)) /\ Judge
    \/ e.op = "delitem" /\ DelItem(e.n) /\ Judge
    \/ e.op = "keys" /\ Keys /\ Judge /\ Count /\ Reader
         /\ Check(t, l, "KeysAgree", e.same3)
    \/ e.op = "get_soa" /\ GetSoa /\ Judge
    \/ e.op = "check_origin" /\ CheckOrigin /\ Judge
    \/ e.op = "eq" /\ Eq(Content(e.other), e.so, e.sc) /\ Judge
         /\ Check(t, l, "NeIsNotEq", e.ne = ~e.val[2])
    \/ e.op = "txn_add" /\ TxnAdd(e.n, e.ty, e.ttl, S(e.rds)) /\ Judge
    \/ e.op = "txn_replace" /\ TxnReplace(e.n, e.ty, e.ttl, S(e.rds)) /\ Judge
    \/ e.op = "txn_deltype" /\ TxnDelType(e.n, e.ty) /\ Judge
    \/ e.op = "txn_delname" /\ TxnDelName(e.n) /\ Judge
    \/ e.op = "node_find" /\ NodeFind(e.n, e.ty, e.cr) /\ Judge
    \/ e.op = "node_get" /\ NodeGet(e.n, e.ty, e.cr) /\ Judge
    \/ e.op = "node_delete" /\ NodeDel(e.n, e.ty) /\ Judge
    \/ e.op = "node_replace" /\ NodeRepl(e.n, e.ty, e.ttl, S(e.rds)) /\ Judge /\ Owned
    \/ e.op = "node_info" /\ NodeInfo(e.n) /\ Judge /\ Wrapper

TraceNext == /\ l <= Len(Ev(t))
             /\ \/ TInitEv
                \/ TCall /\ Adv

Accepted == Accepting(t, l)
=============================================================================
