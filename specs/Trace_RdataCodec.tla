--------------------------- MODULE Trace_RdataCodec ---------------------------
(* Trace validation for C02.  One trace per (type, value vector) or per batch of octet
   strings; events:
     enc   the driver built the real object from value vector v through the public
           constructor and recorded to_wire (with / without origin), from_wire of those
           octets inside a larger message, equality, the re-encoding, the number of octets
           the parser consumed, the projection of the decoded object
     dec   an octet string (fault ft applied to the encoding, an ill-formed value's
           encoding, or seeded noise) was offered to dns.rdata.from_wire as RDATA, in three
           placements: middle of a message, tail of a message (tl), whole buffer (wh)
     foreign the type's RDATA decoded in a class without implementation (fresh-process scenario:
           the first lookup of a type in a process may be in any class)
     cover number of value vectors the run executed for a type
   Every expected value is recomputed here with the operators of RdataCodec.            *)
EXTENDS RdataUniverse, VTrace

VARIABLES t, l

PRE == <<1, 112, 0>>          \* as in drivers/c02_rdata.py: "p." at offset 0, the root at offset 2
SUF == <<0, 0>>
Buf(b) == PRE \o b \o SUF
Dec(ty, b, o) == Decode(ty, Buf(b), Len(PRE), Len(b), o)

TraceInit == RegInit /\ t \in 1..NTraces /\ l = 1

ty == Log[t].ty
e == Ev(t)[l]
Adv == l' = l + 1 /\ t' = t
C(id, cond) == Check(t, l, id, cond)

TEnc ==
    /\ e.op = "enc"
    /\ LET o == IF e.org THEN Origin ELSE NoOrigin
           v == e.v
           decided == ~MayReject(ty, v)
       IN /\ C("GenWellFormed", WellFormed(ty, v) /\ CanEncode(ty, v, o))
          \* an implemented (class, type) is served by its implementation, never by the RFC 3597 generic
          \* fallback - whatever was looked up earlier in the process
          /\ C("ImplementationUsed", ty = "UNKNOWN" \/ ~e.gen)
          /\ C("Constructs", decided => e.built = "ok")
          /\ IF e.built # "ok" THEN C("EndsAfterRefusal", l = Len(Ev(t)))
             ELSE /\ C("Encodes", e.wire # <<-1>>)
                  /\ C("WireEqualsSpec", decided => e.wire = Encode(ty, v, o))
                  /\ C("DecodesOwnWire", e.res = "ok" /\ e.pres = "ok" /\ e.same)
                  /\ C("ConsumedExactly", e.cons = Len(e.wire))
                  /\ C("DecodedEqual", e.eq)
                  /\ C("DecodedValue", decided => e.dec = v)
                  /\ C("ReencodeIdentical", e.reenc = e.wire)
                  /\ C("FixedPoint", e.eq2 /\ e.reenc2 = e.reenc)
                  /\ C("BitmapFromTypes", (decided /\ HasKey(e, "wire_t")) => e.wire_t = e.wire)
                  /\ C("FaultCoverage", e.fts = <<>> \/ ToSetOf(e.fts) = FaultSet(e.wire, Len(PRE)))
                  \* ... and each announced fault is one of the decode events that close the trace
                  /\ C("FaultEvents", LET n == Len(e.fts)  m == Len(Ev(t)) IN
                                        m >= n /\ \A i \in 1..n : Ev(t)[m - n + i].op \in {"dec", "hang"} /\ Ev(t)[m - n + i].ft = e.fts[i])
    /\ Adv

\* Clauses for one placement of the octets b inside a message: p = the recorded outcome, d = the
\* specification's verdict for that placement, re / re2 = the recorded re-encodings, sfx tags the clause
\* name with the placement.
Placed(p, b, d, re, re2, sfx) ==
    /\ C("MustAccept" \o sfx, d.res = "ok" => p.res = "ok")
    /\ C("NoTrailingOctets" \o sfx, (d.res = "err" /\ d.why = "trailing") => p.res = "err")
    /\ C("MustReject" \o sfx, (d.res = "err" /\ d.why = "short") => p.res = "err")
    /\ C("SameVerdictBothApis" \o sfx, p.pres = p.res /\ p.same)
    /\ IF p.res = "err" THEN C("FormError" \o sfx, p.formerr)
       ELSE /\ C("ConsumedExactly" \o sfx, p.cons = Len(b))
            /\ C("ReencodeSpec" \o sfx, d.res = "ok" => re = Encode(ty, d.v, NoOrigin))
            /\ C("FixedPoint" \o sfx, p.eq2 /\ re2 = re)
\* a placement repeats a re-encoding only when it differs from the middle placement's
Re(p, k) == IF HasKey(p, k) THEN p[k] ELSE e[k]
Undecided == Verdict("free", "-", <<>>, FALSE)

\* The frame (current, rdlen) given to the decoder must lie inside the buffer: "ov" declared one octet
\* more than the buffer holds, "be" started one octet past its end.  Decode says err for both (the
\* declared RDATA length is not available), so the implementation must refuse, with a FormError.
Framed(b) ==
    /\ C("HasFrameProbes", HasKey(e, "ov") /\ HasKey(e, "be"))
    /\ C("DeclaredLengthAvailable", Decode(ty, PRE \o b, Len(PRE), Len(b) + 1, NoOrigin).res = "err" => e.ov.res = "err")
    /\ C("StartInsideBuffer", Decode(ty, PRE \o b, Len(PRE) + Len(b) + 1, 0, NoOrigin).res = "err" => e.be.res = "err")
    /\ C("FormError@frame", (e.ov.res = "err" => e.ov.formerr) /\ (e.be.res = "err" => e.be.formerr))

TDec ==
    /\ e.op = "dec"
    /\ LET b == e.b
           \* middle of a message (octets before and after) and tail of a message (nothing after): the
           \* parse is confined to the rdlen octets, so the verdict is the same
           d == Dec(ty, b, NoOrigin)
           \* the RDATA is the whole buffer (offset 0): compression pointers mean something else, so the
           \* verdict is recomputed; for the pointer / octet-value faults only the clauses that need no
           \* verdict (both APIs agree, FormError, consumption, fixed point) are evaluated
           dw == IF e.ft[1] \in {"none", "trunc", "ext", "rand"} THEN Decode(ty, b, 0, Len(b), NoOrigin) ELSE Undecided
       IN /\ C("FaultInput", e.ft[1] \in {"none", "rand"} \/ b = ApplyFault(Ev(t)[1].wire, e.ft))
          /\ Placed(e, b, d, IF e.res = "ok" THEN e.reenc ELSE <<>>, IF e.res = "ok" THEN e.reenc2 ELSE <<>>, "")
          /\ C("HasPlacements", HasKey(e, "tl") /\ HasKey(e, "wh"))
          /\ Placed(e.tl, b, d, IF e.tl.res = "ok" THEN Re(e.tl, "reenc") ELSE <<>>, IF e.tl.res = "ok" THEN Re(e.tl, "reenc2") ELSE <<>>, "@tail")
          /\ Framed(b)
          /\ Placed(e.wh, b, dw, IF e.wh.res = "ok" THEN Re(e.wh, "reenc") ELSE <<>>, IF e.wh.res = "ok" THEN Re(e.wh, "reenc2") ELSE <<>>, "@whole")
    /\ Adv

\* the RDATA of the type offered in a class that has no implementation for it (RFC 3597 section 5:
\* unknown class/type pairs are opaque): whatever decoder is used, the consumption / fixed-point
\* clauses hold, and the generic form re-encodes the octets unchanged
TForeign ==
    /\ e.op = "foreign"
    /\ Framed(e.b)
    /\ C("SameVerdictBothApis", e.pres = e.res /\ e.same)
    /\ IF e.res = "err" THEN C("FormError", e.formerr)
       ELSE /\ C("ConsumedExactly", e.cons = Len(e.b))
            /\ C("GenericIdentity", e.gen => e.reenc = e.b)
            /\ C("FixedPoint", e.eq2 /\ e.reenc2 = e.reenc)
    /\ Adv

TCover ==
    /\ e.op = "cover"
    /\ C("UniverseCovered", e.n = Cardinality(Vectors(ty)))
    /\ Adv

TraceNext == l <= Len(Ev(t)) /\ (TEnc \/ TDec \/ TForeign \/ TCover)
Accepted == Accepting(t, l)
=============================================================================
