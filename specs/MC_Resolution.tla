--------------------------- MODULE MC_Resolution ---------------------------
(* Bounded instances of Resolution for exhaustive model checking. *)
EXTENDS Resolution, ResolutionEnv

S1 == <<"s1", "">>
S2 == <<"s2", "">>
Dom == <<"dom", "">>
Cfg(ns, rsf, tcp, rna, c, lf, to, search, domain, ndots, usd) ==
    [ns |-> ns, rsf |-> rsf, tcp |-> tcp, rna |-> rna, cache |-> c, life |-> lf, tmo |-> to, qtype |-> "A",
     search |-> search, domain |-> domain, ndots |-> ndots, usd |-> usd, glue |-> "scripted"]

(* A: one resolution, no cache: every switch combination, 1-2 (thorough: 1-3) servers, one search
      domain; lifetime 1 s, per-query timeout 1/2 s *)
MCConfigsA == {Cfg(ns, rsf, tcp, rna, "none", 16, 8, <<S1>>, Dom, -1, FALSE) :
                  ns \in 1..2, rsf \in BOOLEAN, tcp \in BOOLEAN, rna \in BOOLEAN}
MCConfigsA3 == {Cfg(ns, rsf, tcp, rna, "none", 16, 8, <<S1>>, Dom, -1, FALSE) :
                  ns \in 1..3, rsf \in BOOLEAN, tcp \in BOOLEAN, rna \in BOOLEAN}
(* B: two resolutions sharing a cache *)
MCConfigsB == {Cfg(1, FALSE, FALSE, rna, "simple", 16, 8, <<S1>>, Dom, -1, FALSE) : rna \in BOOLEAN}
(* L: liveness *)
MCConfigsL == {Cfg(2, TRUE, FALSE, TRUE, "none", 16, 8, <<S1>>, Dom, -1, FALSE)}
MCConfigsL2 == {Cfg(2, rsf, tcp, TRUE, "none", 16, 8, <<S1>>, Dom, -1, FALSE) : rsf \in BOOLEAN, tcp \in BOOLEAN}

Req(q, sf, lf, qt, qc) == [qname |-> q, search |-> sf, life |-> lf, qtype |-> qt, qclass |-> qc]
MCRequests == {Req(<<"www">>, "true", 0, "A", "IN"), Req(<<"www", "s1", "">>, "none", 0, "A", "IN")}
MCRequests1 == {Req(<<"www">>, "true", 0, "A", "IN")}
(* cache scenarios: same and different names x classes {IN, CH} x types {A, TXT} *)
MCRequestsCq == {Req(<<"www", "s1", "">>, "none", 0, "A", "IN"), Req(<<"www", "s1", "">>, "none", 0, "A", "CH"),
                 Req(<<"www", "s1", "">>, "none", 0, "TXT", "IN"), Req(<<"ftp", "s1", "">>, "none", 0, "A", "CH"),
                 Req(<<"www">>, "true", 0, "A", "IN")}
MCRequestsC == {Req(q, "none", 0, qt, qc) : q \in {<<"www", "s1", "">>, <<"ftp", "s1", "">>}, qt \in {"A", "TXT"}, qc \in {"IN", "CH"}}
               \cup {Req(<<"www">>, "true", 0, "A", "IN")}
MCBackoff == <<2, 3, 6, 13, 26, 32>>     \* 0.1 s doubling, capped at 2 s, in 1/16 s ticks (rounded)

MCOutcomesA(q, qt) == OutSmall(q, qt) \cup {Exc("OSError"), Msg("REFUSED", <<>>, <<>>), Msg("NOERROR", <<>>, <<>>),
                                             Msg("NOERROR", Loop(q, 1, <<5>>), <<>>)}
MCOutcomesB(q, qt) == {Exc("Timeout"), Exc("FormError")} \cup PosSmall(q, qt) \cup NoDataSmall(q, qt) \cup NxSmall(q, qt)
                      \cup {Msg("NOERROR", Chain(q, qt, 0, <<5>>, 0), <<>>)}
MCOutcomesL(q, qt) == {Exc("Timeout"), Exc("FormError"), Exc("Truncated"), Msg("SERVFAIL", <<>>, <<>>)} \cup NxSmall(q, qt)
MCAdvancesL(t, l) == {0, t}
MCAdvancesA(t, l) == {0, t, l + 1, -40}
MCAdvancesB(t, l) == {0}
=============================================================================
