--------------------------- MODULE MC_Resolution ---------------------------
(* Bounded instances of Resolution for exhaustive model checking. *)
EXTENDS Resolution, ResolutionEnv

S1 == <<"s1", "">>
S2 == <<"s2", "">>
Dom == <<"dom", "">>
Cfg(ns, rsf, tcp, rna, c, lf, to, search, domain, ndots, usd) ==
    [ns |-> ns, rsf |-> rsf, tcp |-> tcp, rna |-> rna, cache |-> c, life |-> lf, tmo |-> to, qtype |-> "A",
     search |-> search, domain |-> domain, ndots |-> ndots, usd |-> usd]

(* safety: every switch combination, 1-3 servers, one search domain; lifetime 1 s, timeout 1/2 s *)
MCConfigsQuick ==
    {Cfg(ns, rsf, tcp, rna, c, 16, 8, <<S1>>, Dom, -1, FALSE) :
        ns \in 1..2, rsf \in BOOLEAN, tcp \in BOOLEAN, rna \in BOOLEAN, c \in {"none", "simple"}}
MCConfigsThorough ==
    {Cfg(ns, rsf, tcp, rna, c, 16, 8, <<S1>>, Dom, -1, FALSE) :
        ns \in 1..3, rsf \in BOOLEAN, tcp \in BOOLEAN, rna \in BOOLEAN, c \in {"none", "simple"}}
    \cup {Cfg(2, rsf, FALSE, TRUE, "lru", 40, 16, <<S1, S2>>, Dom, 2, TRUE) : rsf \in BOOLEAN}
(* liveness: small *)
MCConfigsLive ==
    {Cfg(2, rsf, tcp, TRUE, c, 16, 8, <<S1>>, Dom, -1, FALSE) : rsf \in BOOLEAN, tcp \in BOOLEAN, c \in {"none", "simple"}}

MCRequests == {[qname |-> <<"www">>, search |-> "true", life |-> 0],
               [qname |-> <<"www", "s1", "">>, search |-> "none", life |-> 0]}
MCRequestsLive == {[qname |-> <<"www">>, search |-> "true", life |-> 0]}
MCBackoff == <<2, 3, 6, 13, 26, 32>>     \* 0.1 s doubling, capped at 2 s, in 1/16 s ticks (rounded)

MCOutcomes(q, qt) == OutSmall(q, qt) \cup {Exc("OSError"), Msg("REFUSED", <<>>, <<>>), Msg("NOERROR", <<>>, <<>>),
                                            Msg("NOERROR", Loop(q, 1, <<5>>), <<>>)}
MCAdvances(t, l) == {0, 1, t, l + 1, -8, -40}
MCAdvancesLive(t, l) == {0, t, -40}
=============================================================================
