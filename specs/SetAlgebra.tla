------------------------------ MODULE SetAlgebra ------------------------------
(* Record sets with value semantics and exact set algebra (property C07, part 1):
   dns.set.Set, dns.rdataset.Rdataset, dns.rrset.RRset, dns.rdataset.ImmutableRdataset.

   An ITEM is a record value  <<rdclass, rdtype, covers, c, v>>.  Two items are EQUAL
   (and hash equally) iff their first four components agree: `c` numbers the canonical
   encodings of one kind, `v` numbers spellings of the same canonical encoding (records
   that differ only in the letter case of an embedded name that RFC 4034 6.2
   lower-cases).  Nothing in this specification may depend on `v` except which spelling
   is remembered, and that is never a hard clause.

   A HANDLE is a set object: a duplicate-free sequence of items (the sequence is the
   first-insertion order), a TTL, and the class / type / covered type it accepts.
   rdclass = "-" marks the untyped base class (dns.set.Set): it accepts anything and has
   no TTL.  `frozen` marks an immutable set.

   Whether a call is refused and what it returns are the operators Refused and
   Returned; they are not state.  Operations are defined OPERATIONALLY, the way the API documents them ("add the
   elements of other that are not already in the set", "remove the elements that are not
   in both", ...) by recursion over the sequences.  The Law_* invariants then state the
   set-theoretic meaning in closed form; TLC checks that the two agree on every reachable
   configuration, including other = self.

   Every operation exists in an in-place form (Do) and, for the binary ones and copy,
   in a copying form (Make) that must leave its operands alone.  Both are defined from
   the same Refused/Result/TtlOk operators, so "in-place and copying forms agree" holds
   by construction in the model and is what trace validation demands from the code. *)
EXTENDS Integers, Sequences, FiniteSets, TLC

CONSTANTS Handles,         \* 1..N
          Items,           \* the item universe of this model instance
          TTLs,            \* TTL values used by calls
          SingletonTypes,  \* rdtypes that may hold one record only (RFC 1034/1035/6672/4034)
          SigTypes,        \* rdtypes whose records cover another type
          InitStates,      \* set of initial values of hs
          MaxIndex,        \* bound for positional deletes (model checking only)
          DynTypes         \* rdtypes without a built-in meaning that an application may register at run time

VARIABLES hs,    \* hs[h] = [items, ttl, rdclass, rdtype, covers, frozen]
          reg,   \* run-time type registrations: set of <<rdtype, is_singleton>>
          last   \* [kind, h]: what the last step was ("init", "inplace", "copy", "freeze",
          \* "refused", "register") and which handle it targeted
vars == <<hs, last, reg>>

NoTtl == -1
Untyped == "-"
None == <<"-">>

Min(a, b) == IF a < b THEN a ELSE b
Max(a, b) == IF a > b THEN a ELSE b

---------------------------------------------------------------------------
(* Items and sequences of items *)
Cls(i) == <<i[1], i[2], i[3], i[4]>>
ClsSeq(s) == [k \in 1..Len(s) |-> Cls(s[k])]
ClsSet(s) == {Cls(s[k]) : k \in 1..Len(s)}
Has(s, i) == Cls(i) \in ClsSet(s)
NoDup(s) == \A j, k \in 1..Len(s) : j # k => Cls(s[j]) # Cls(s[k])
Keep(s, C) == SelectSeq(s, LAMBDA x : Cls(x) \in C)
Drop(s, C) == SelectSeq(s, LAMBDA x : Cls(x) \notin C)
RemoveAt(s, k) == SubSeq(s, 1, k - 1) \o SubSeq(s, k + 1, Len(s))
RemoveSlice(s, lo, hi) ==      \* python  del s[lo:hi]  with 0 <= lo, 0 <= hi
    LET L == Len(s)
        a == Min(lo, L)
        b == Max(Min(hi, L), a)
    IN SubSeq(s, 1, a) \o SubSeq(s, b + 1, L)

RECURSIVE IsSubseq(_, _)
IsSubseq(s, u) ==      \* s can be obtained from u by deleting elements
    IF s = <<>> THEN TRUE
    ELSE IF u = <<>> THEN FALSE
    ELSE IF Head(s) = Head(u) THEN IsSubseq(Tail(s), Tail(u))
    ELSE IsSubseq(s, Tail(u))

---------------------------------------------------------------------------
(* Handles *)
IsTyped(R) == R.rdclass # Untyped
(* singleton types: the built-in ones and those an application registered as such
   (dns.rdata.register_type(..., is_singleton=True)) - from the registration on *)
DynSingles == {q[1] : q \in {p \in reg : p[2]}}
IsSingleton(R) == IsTyped(R) /\ R.rdtype \in SingletonTypes \cup DynSingles
IsSig(R) == IsTyped(R) /\ R.rdtype \in SigTypes

(* "A record of a different class, type or covered type is refused."  An empty
   signature set that does not cover anything yet adopts the covered type of its first
   record. *)
Accepts(R, i) ==
    \/ ~IsTyped(R)
    \/ /\ i[1] = R.rdclass
       /\ i[2] = R.rdtype
       /\ IsSig(R) => (i[3] = R.covers \/ (R.items = <<>> /\ R.covers = "NONE"))

(* insert one accepted item: duplicates collapse (the set keeps what it has),
   new items go to the end, "singleton types keep only the newest record" *)
Put(R, i) ==
    [R EXCEPT !.items = IF IsSingleton(R) THEN <<i>>
                        ELSE IF Has(R.items, i) THEN R.items
                        ELSE Append(R.items, i),
              !.covers = IF IsSig(R) THEN i[3] ELSE R.covers]

RECURSIVE CanMerge(_, _), Merge(_, _)
CanMerge(R, s) == s = <<>> \/ (Accepts(R, Head(s)) /\ CanMerge(Put(R, Head(s)), Tail(s)))
Merge(R, s) == IF s = <<>> THEN R ELSE Merge(Put(R, Head(s)), Tail(s))

UnionRec(R, O) == Merge(R, O.items)
InterRec(R, O) == [R EXCEPT !.items = Keep(R.items, ClsSet(O.items))]
DiffRec(R, O) == [R EXCEPT !.items = Drop(R.items, ClsSet(O.items))]
SymNew(R, O) == Drop(O.items, ClsSet(R.items))
(* "build": a new set constructed from a list of records (here: the records of R followed
   by those of O) and a TTL - Set(iterable), from_rdata_list(ttl, rdatas).  The kind of
   the new set is that of the first record; an empty list makes no typed set. *)
FreshFor(i) == [items |-> <<>>, ttl |-> 0, rdclass |-> i[1], rdtype |-> i[2],
                covers |-> IF i[1] # Untyped /\ i[2] \in SigTypes THEN "NONE" ELSE i[3], frozen |-> FALSE]
BuildSeq(R, O) == R.items \o O.items
BuildRec(R, O) == IF BuildSeq(R, O) = <<>> THEN [R EXCEPT !.items = <<>>, !.frozen = FALSE]
                  ELSE Merge(FreshFor(BuildSeq(R, O)[1]), BuildSeq(R, O))
SymRec(R, O) == Merge(DiffRec(R, O), SymNew(R, O))

---------------------------------------------------------------------------
(* The calls.  `a` is the argument record [o, i, ttl, k, lo, hi]; every call reads only
   the fields it needs.  O is hs[a.o]. *)
InPlaceOps == {"add", "remove", "discard", "pop", "clear", "update", "union", "inter", "diff", "sym",
               "delidx", "delslice"}
CopyOps == {"union", "inter", "diff", "sym", "copy", "build"}
BinaryOps == {"update", "union", "inter", "diff", "sym"}

Refused(op, R, O, a) ==
    CASE op = "add" -> ~Accepts(R, a.i) \/ (a.ttl # NoTtl /\ ~IsTyped(R))
      [] op = "remove" -> ~Has(R.items, a.i)
      [] op = "pop" -> R.items = <<>>
      [] op = "delidx" -> a.k >= Len(R.items)
      [] op \in {"update", "union"} -> ~CanMerge(R, O.items)
      [] op = "sym" -> ~CanMerge(DiffRec(R, O), SymNew(R, O))
      [] op = "build" -> \/ (IsTyped(R) /\ (BuildSeq(R, O) = <<>> \/ a.ttl = NoTtl))
                         \/ (BuildSeq(R, O) # <<>> /\ ~CanMerge(FreshFor(BuildSeq(R, O)[1]), BuildSeq(R, O)))
      [] OTHER -> FALSE

(* items / covers after the call (TTL is handled separately) *)
Result(op, R, O, a) ==
    CASE op = "add" -> Put(R, a.i)
      [] op \in {"remove", "discard"} -> [R EXCEPT !.items = Drop(R.items, {Cls(a.i)})]
      [] op = "pop" -> [R EXCEPT !.items = RemoveAt(R.items, a.k)]        \* a.k: which one (1-based), arbitrary
      [] op = "clear" -> [R EXCEPT !.items = <<>>]
      [] op = "delidx" -> [R EXCEPT !.items = RemoveAt(R.items, a.k + 1)]  \* python index
      [] op = "delslice" -> [R EXCEPT !.items = RemoveSlice(R.items, a.lo, a.hi)]
      [] op \in {"update", "union"} -> UnionRec(R, O)
      [] op = "inter" -> InterRec(R, O)
      [] op = "diff" -> DiffRec(R, O)
      [] op = "sym" -> SymRec(R, O)
      [] op = "build" -> BuildRec(R, O)
      [] OTHER -> R                                                        \* copy

Returned(op, R, a) == IF op = "pop" /\ a.k \in 1..Len(R.items) THEN R.items[a.k] ELSE None

(* "The set's TTL is the minimum of the TTLs merged into it"; the first insertion into an
   empty set takes the new TTL.  Where the property is silent the set is wider than one
   value: a replaced singleton may count as a fresh first insertion; merging an empty set
   merges no TTL (but the code may take the minimum anyway); operations that only remove
   records never raise the TTL of what remains. *)
AddTtls(R, ttl) ==
    IF ~IsTyped(R) \/ ttl = NoTtl THEN {R.ttl}
    ELSE IF R.items = <<>> THEN {ttl}
    ELSE IF IsSingleton(R) THEN {ttl, Min(R.ttl, ttl)}
    ELSE {Min(R.ttl, ttl)}
MergeTtls(R, O) ==
    IF ~IsTyped(R) THEN {R.ttl}
    ELSE IF O.items = <<>> THEN (IF R.items = <<>> THEN {R.ttl, O.ttl} ELSE {R.ttl, Min(R.ttl, O.ttl)})
    ELSE IF R.items = <<>> THEN {O.ttl}
    ELSE IF IsSingleton(R) THEN {O.ttl, Min(R.ttl, O.ttl)}
    ELSE {Min(R.ttl, O.ttl)}
KeepTtls(R, O) == IF ~IsTyped(R) THEN {R.ttl} ELSE {R.ttl, Min(R.ttl, O.ttl)}
SymTtls(R, O) ==
    IF ~IsTyped(R) THEN {R.ttl}
    ELSE IF SymNew(R, O) = <<>> THEN KeepTtls(R, O)
    ELSE IF R.items = <<>> THEN {O.ttl}
    ELSE IF DiffRec(R, O).items = <<>> \/ IsSingleton(R) THEN {O.ttl, Min(R.ttl, O.ttl)}
    ELSE {Min(R.ttl, O.ttl)}
Ttls(op, R, O, a) ==
    CASE op = "add" -> AddTtls(R, a.ttl)
      [] op \in {"update", "union"} -> MergeTtls(R, O)
      [] op \in {"inter", "diff"} -> KeepTtls(R, O)
      [] op = "sym" -> SymTtls(R, O)
      [] op = "build" -> IF IsTyped(R) THEN {a.ttl} ELSE {R.ttl}     \* first insertion takes the TTL given
      [] OTHER -> {R.ttl}
(* the TTL of a set that ends up empty means nothing: any value *)
TtlOk(op, R, O, a, nt) ==
    \/ nt \in Ttls(op, R, O, a)
    \/ IsTyped(R) /\ Result(op, R, O, a).items = <<>>

---------------------------------------------------------------------------
(* Steps *)
Refuse(h) == /\ UNCHANGED <<hs, reg>>
             /\ last' = [kind |-> "refused", h |-> h]

(* in-place call on handle h.  nt = the TTL the set has afterwards.  quiet = the receiver
   is immutable and lets a call that would not have changed anything return normally. *)
Do(op, h, a, nt, quiet) ==
    LET R == hs[h]
        O == hs[a.o]
        rf == Refused(op, R, O, a)
        New == [Result(op, R, O, a) EXCEPT !.ttl = nt]
    IN /\ op \in InPlaceOps
       /\ quiet => (R.frozen /\ ~rf /\ New = R)
       /\ IF rf \/ (R.frozen /\ ~quiet)
          THEN Refuse(h)
          ELSE /\ TtlOk(op, R, O, a, nt)
               /\ hs' = [hs EXCEPT ![h] = New]
               /\ last' = [kind |-> "inplace", h |-> h] /\ UNCHANGED reg

(* copying call: a new object, bound to handle r, computed from handle s (and a.o);
   fr = whether the new object is immutable (only an immutable receiver may produce one) *)
Make(op, r, s, a, nt, fr) ==
    LET R == hs[s]
        O == hs[a.o]
    IN /\ op \in CopyOps
       /\ IF Refused(op, R, O, a)
          THEN Refuse(r)
          ELSE /\ TtlOk(op, R, O, a, nt)
               /\ fr => R.frozen
               /\ hs' = [hs EXCEPT ![r] = [Result(op, R, O, a) EXCEPT !.ttl = nt, !.frozen = fr]]
               /\ last' = [kind |-> "copy", h |-> r] /\ UNCHANGED reg

(* wrap the content of a typed set into an immutable set *)
Freeze(h) ==
    /\ IsTyped(hs[h])
    /\ hs' = [hs EXCEPT ![h].frozen = TRUE]
    /\ last' = [kind |-> "freeze", h |-> h] /\ UNCHANGED reg

(* the application registers an implementation for a so far unknown type, as a singleton
   type or not.  The type may already have been used (as generic records); registering
   it as a singleton while some set holds several records of it is outside the model. *)
Register(ty, single) ==
    /\ ty \in DynTypes
    /\ \A q \in reg : q[1] # ty
    /\ single => \A h \in Handles : hs[h].rdtype = ty => Len(hs[h].items) <= 1
    /\ reg' = reg \cup {<<ty, single>>}
    /\ UNCHANGED hs
    /\ last' = [kind |-> "register", h |-> 0]

---------------------------------------------------------------------------
(* Argument universes (only the fields a call reads vary) *)
DefItem == CHOOSE i \in Items : TRUE
DefArg(h) == [o |-> h, i |-> DefItem, ttl |-> NoTtl, k |-> 0, lo |-> 0, hi |-> 0]
ArgSet(op, h) ==
    LET R == hs[h]
        D == DefArg(h)
    IN CASE op = "add" -> {[D EXCEPT !.i = i, !.ttl = t] : i \in Items,
                                  t \in IF IsTyped(R) THEN TTLs \cup {NoTtl} ELSE {NoTtl}}
         [] op \in {"remove", "discard"} -> {[D EXCEPT !.i = i] : i \in Items}
         [] op = "pop" -> {[D EXCEPT !.k = k] : k \in IF R.items = <<>> THEN {0} ELSE 1..Len(R.items)}
         [] op = "delidx" -> {[D EXCEPT !.k = k] : k \in 0..MaxIndex}
         [] op = "delslice" -> {[D EXCEPT !.lo = lo, !.hi = hi] : lo \in 0..MaxIndex, hi \in 0..MaxIndex}
         [] op \in BinaryOps -> {[D EXCEPT !.o = o] : o \in Handles}
         [] op = "build" -> {[D EXCEPT !.o = o, !.ttl = t] : o \in Handles, t \in IF IsTyped(R) THEN TTLs ELSE {NoTtl}}
         [] OTHER -> {D}

Init == /\ hs \in InitStates
        /\ reg = {}
        /\ last = [kind |-> "init", h |-> 0]

(* Next enumerates the TTL choices the property constrains (Ttls); the actions also admit
   any TTL for a set that ends up empty, which only trace validation needs. *)
Next ==
    \/ \E op \in InPlaceOps, h \in Handles : \E a \in ArgSet(op, h) :
         \E nt \in Ttls(op, hs[h], hs[a.o], a), quiet \in (IF hs[h].frozen THEN BOOLEAN ELSE {FALSE}) :
            Do(op, h, a, nt, quiet)
    \/ \E op \in CopyOps, r \in Handles, s \in Handles : \E a \in ArgSet(op, s) :
         \E nt \in Ttls(op, hs[s], hs[a.o], a), fr \in (IF hs[s].frozen THEN BOOLEAN ELSE {FALSE}) :
            Make(op, r, s, a, nt, fr)
    \/ \E h \in Handles : Freeze(h)
    \/ \E ty \in DynTypes, single \in BOOLEAN : Register(ty, single)

Spec == Init /\ [][Next]_vars

---------------------------------------------------------------------------
(* Queries: functions of the state *)
QLen(A) == Len(A.items)
QContains(A, i) == Has(A.items, i)
QSubset(A, B) == ClsSet(A.items) \subseteq ClsSet(B.items)
QSuperset(A, B) == ClsSet(B.items) \subseteq ClsSet(A.items)
QDisjoint(A, B) == ClsSet(A.items) \cap ClsSet(B.items) = {}
SameKind(A, B) == A.rdclass = B.rdclass /\ A.rdtype = B.rdtype /\ A.covers = B.covers
(* equality ignores order (and TTL).  Two empty sets of different kinds: the property is silent *)
EqAllowed(A, B) ==
    IF ClsSet(A.items) # ClsSet(B.items) THEN {FALSE}
    ELSE IF SameKind(A, B) THEN {TRUE}
    ELSE BOOLEAN

---------------------------------------------------------------------------
(* Properties of the specification itself *)
TypeOK ==
    /\ last.kind \in {"init", "inplace", "copy", "freeze", "refused", "register"}
    /\ \A h \in Handles : hs[h].frozen \in BOOLEAN /\ hs[h].ttl \in Int
Duplicates_Collapse == \A h \in Handles : NoDup(hs[h].items)
Kind_Respected ==
    \A h \in Handles : IsTyped(hs[h]) =>
        \A k \in 1..Len(hs[h].items) :
            LET i == hs[h].items[k] IN
            /\ i[1] = hs[h].rdclass /\ i[2] = hs[h].rdtype
            /\ IsSig(hs[h]) => i[3] = hs[h].covers
Singleton_Single == \A h \in Handles : IsSingleton(hs[h]) => Len(hs[h].items) <= 1

A_(h) == ClsSet(hs[h].items)
Plain(R) == ~IsSingleton(R)

(* union / update: set-theoretic union; receiver's order kept, new items appended in the
   other operand's order *)
Law_Union ==
    \A x, y \in Handles :
        LET R == hs[x]  O == hs[y] IN
        (Plain(R) /\ CanMerge(R, O.items)) =>
            LET U == UnionRec(R, O).items IN
            /\ ClsSet(U) = A_(x) \cup A_(y)
            /\ NoDup(U)
            /\ U = R.items \o Drop(O.items, A_(x))
Law_Intersection ==
    \A x, y \in Handles :
        LET I == InterRec(hs[x], hs[y]).items IN
        /\ ClsSet(I) = A_(x) \cap A_(y)
        /\ NoDup(I) /\ IsSubseq(I, hs[x].items)
Law_Difference ==
    \A x, y \in Handles :
        LET D == DiffRec(hs[x], hs[y]).items IN
        /\ ClsSet(D) = A_(x) \ A_(y)
        /\ NoDup(D) /\ IsSubseq(D, hs[x].items)
Law_SymmetricDifference ==
    \A x, y \in Handles :
        LET R == hs[x]  O == hs[y] IN
        (Plain(R) /\ CanMerge(DiffRec(R, O), SymNew(R, O))) =>
            LET S == SymRec(R, O).items IN
            /\ ClsSet(S) = (A_(x) \ A_(y)) \cup (A_(y) \ A_(x))
            /\ NoDup(S)
            /\ S = DiffRec(R, O).items \o Drop(O.items, A_(x))
Law_Build ==
    \A x, y \in Handles :
        LET R == hs[x]  O == hs[y] IN
        (Plain(R) /\ BuildSeq(R, O) # <<>> /\ CanMerge(FreshFor(BuildSeq(R, O)[1]), BuildSeq(R, O))) =>
            /\ ClsSet(BuildRec(R, O).items) = A_(x) \cup A_(y)
            /\ NoDup(BuildRec(R, O).items)
            /\ ClsSeq(BuildRec(R, O).items) = ClsSeq(UnionRec(R, O).items)
(* s op s *)
Law_Aliasing ==
    \A x \in Handles :
        LET R == hs[x] IN
        /\ CanMerge(R, R.items) /\ UnionRec(R, R).items = R.items
        /\ InterRec(R, R).items = R.items
        /\ DiffRec(R, R).items = <<>>
        /\ SymRec(R, R).items = <<>>
(* identities between the operations, as sets *)
Law_Algebra ==
    \A x, y \in Handles :
        LET R == hs[x]  O == hs[y] IN
        /\ ClsSet(DiffRec(R, O).items) \cup ClsSet(InterRec(R, O).items) = A_(x)
        /\ ClsSet(InterRec(R, O).items) = ClsSet(InterRec(O, R).items)
        /\ (Plain(R) /\ Plain(O) /\ CanMerge(R, O.items) /\ CanMerge(O, R.items)) =>
              /\ ClsSet(UnionRec(R, O).items) = ClsSet(UnionRec(O, R).items)
              /\ ClsSet(SymRec(R, O).items) = ClsSet(UnionRec(R, O).items) \ ClsSet(InterRec(R, O).items)
Law_Queries ==
    \A x, y \in Handles :
        LET R == hs[x]  O == hs[y] IN
        /\ QSubset(R, O) <=> (ClsSet(InterRec(R, O).items) = A_(x))
        /\ QSubset(R, O) <=> (DiffRec(R, O).items = <<>>)
        /\ QSuperset(R, O) <=> QSubset(O, R)
        /\ QDisjoint(R, O) <=> (InterRec(R, O).items = <<>>)
        /\ (QSubset(R, O) /\ QSuperset(R, O)) <=> (A_(x) = A_(y))
        /\ TRUE \in EqAllowed(R, O) <=> (A_(x) = A_(y))
        /\ QLen(R) = Cardinality(A_(x))
(* singleton kinds: whatever is merged in, only the newest record stays *)
Law_Singleton ==
    \A x, y \in Handles :
        LET R == hs[x]  O == hs[y] IN
        (IsSingleton(R) /\ O.items # <<>> /\ CanMerge(R, O.items)) =>
            ClsSeq(UnionRec(R, O).items) = <<Cls(O.items[Len(O.items)])>>

(* step properties *)
RefusedChangesNothing == [][last'.kind = "refused" => hs' = hs]_vars
OnlyTargetChanges == [][\A x \in Handles : x # last'.h => hs'[x] = hs[x]]_vars
FrozenNeverChanges ==
    [][\A x \in Handles : (hs[x].frozen /\ ~(last'.kind = "copy" /\ last'.h = x)) => hs'[x] = hs[x]]_vars
(* an in-place call never raises the TTL of a set that keeps at least one of its
   records (singleton replacement excepted) *)
TtlNeverRises ==
    [][\A x \in Handles :
          (last'.kind = "inplace" /\ last'.h = x /\ IsTyped(hs[x]) /\ ~IsSingleton(hs[x])
             /\ ClsSet(hs[x].items) \cap ClsSet(hs'[x].items) # {}) => hs'[x].ttl <= hs[x].ttl]_vars
=============================================================================
