SPECIFICATION Spec
CONSTANTS
  Writers = {1, 2, 3, 4}
  Readers = {5}
  NTxn = 1
  NReads = 1
  MCHows = {"commit", "rollback"}
  Plans <- MCPlansLive
  RPlans <- MCRPlans
  RModes <- MCRModes
  MCRModeSet = {"latest"}
  InitVid = 2
  Policers = {}
  PPlans <- MCPPlans
INVARIANT TypeOK
INVARIANT MutualExclusion
INVARIANT FIFO
INVARIANT LockDiscipline
INVARIANT QueueWellFormed
INVARIANT NoLostWakeup
INVARIANT OneEventPerCall
INVARIANT VersionsOrdered
INVARIANT RetentionExact
INVARIANT SerialEquivalence
INVARIANT VersionsArePrefixes
INVARIANT ReadersSeeCommitted
INVARIANT PinnedRetained
INVARIANT PublishedIsCommitted
PROPERTY NoCuts
