------------------------------ MODULE MC_Tsig ------------------------------
(* Bounded instances of Tsig for exhaustive model checking. *)
EXTENDS Tsig
MCAllAlgs == AllAlgs
MCSkews6 == {-3, -2, -1, 1, 2, 3}
MCSkews4 == {-3, -2, 2, 3}
MCTwoAlgs == {"hmac-sha256", "hmac-sha384-192"}
(* vacuity witnesses: each must be VIOLATED (checked by a separate tiny run) *)
Vac_StreamAllAccepted == ~(kind = "stream" /\ Len(verdicts) = MaxEnv /\ \A i \in 1..MaxEnv : verdicts[i].v \in {"ok", "unsigned"}
                           /\ \E j \in 1..MaxEnv : verdicts[j].v = "unsigned")
Vac_TaintRejected == ~(\E i \in 1..Len(verdicts) : verdicts[i].taint /\ verdicts[i].signed /\ verdicts[i].v = "BadSig")
Vac_EdgeAccepted == ~(\E i \in 1..Len(verdicts) : verdicts[i].signed /\ Abs(verdicts[i].skew) = fudge /\ fudge > 0 /\ verdicts[i].v = "ok")
Vac_EdgeRejected == ~(\E i \in 1..Len(verdicts) : verdicts[i].signed /\ Abs(verdicts[i].skew) = fudge + 1 /\ verdicts[i].v = "BadTime")
Vac_ResignAccepted == ~(\E i \in 2..Len(verdicts) : verdicts[i].signed /\ verdicts[i].v = "ok" /\ verdicts[i-1].v = "ok" /\ ~Multi)
=============================================================================
