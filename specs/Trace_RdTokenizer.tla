------------------------- MODULE Trace_RdTokenizer -------------------------
(* Trace validation of the exact layer of C05: dns.rdata._escapify, Tokenizer.get /
   unget, Token.unescape, Token.unescape_to_bytes run on enumerated strings.
   A trace is {tid, s: the input as code points, ev: [...]}:
     univ   the input is element k of the declared universe alpha^n (C05Universe)
     esc    _escapify(o) = text, and the input is that text between quotes
     get    one Tokenizer.get(want_leading, want_comment): token, depth, and both
            un-escapings of the token
     unget  Tokenizer.unget(last token)
     unesc  the input taken as the text of a token built directly (no tokenizer)
     law    the octets that came back at the end of escapify -> quote -> get -> unescape *)
EXTENDS RdTokenizer, C05Universe, VTrace

VARIABLES t, l, pos
tvars == <<vars, t, l, pos>>
In == Log[t].s
e == Ev(t)[l]
Adv == l' = l + 1 /\ t' = t

TraceInit == RegInit /\ t \in 1..NTraces /\ l = 1 /\ pos = 1 /\ Init

SameRes(a, b) == a[1] = b[1] /\ (a[1] = "ok" => a[2] = b[2])
IsText(k) == k.tt \in {"IDENTIFIER", "QUOTED_STRING"}

TUniv == /\ e.op = "univ"
         /\ Check(t, l, "InUniverse", In = NthString(Alpha(e.alpha), e.n, e.k))
         /\ UNCHANGED <<vars, pos>> /\ Adv
TEsc == /\ e.op = "esc"
        /\ Check(t, l, "Escapify", e.text = EscapeCS(e.o))
        /\ Check(t, l, "QuotedInput", In = Quote(e.text))
        /\ UNCHANGED <<vars, pos>> /\ Adv
TGet == /\ e.op = "get"
        /\ LET r == GetTok(Cur, In, pos, e.wl, e.wc) IN
           /\ Set(r[1]) /\ pos' = r[2]
           /\ IF r[1].status # "run"
              THEN Check(t, l, "TokErr", e.err) /\ Check(t, l, "ErrFamily", e.fam)
              ELSE /\ Check(t, l, "TokErr", ~e.err)
                   /\ Check(t, l, "Token", e.tok = r[1].last[1])
                   /\ Check(t, l, "Depth", e.ml = r[1].ml)
                   /\ IF IsText(e.tok)
                      THEN /\ Check(t, l, "UnescOct", SameRes(e.ub, UnescapeOct(e.tok.val)))
                           /\ Check(t, l, "UnescCP", SameRes(e.uc, UnescapeCP(e.tok.val)))
                      ELSE TRUE
        /\ UNCHANGED <<nread, eofSeen>> /\ Adv
TUnget == /\ e.op = "unget" /\ phase = "idle" /\ last # <<>> /\ utok = <<>>
          /\ Set(UngetTok(Cur)) /\ UNCHANGED <<nread, eofSeen, pos>> /\ Adv
TUnesc == /\ e.op = "unesc"
          /\ Check(t, l, "UnescOct", SameRes(e.ub, UnescapeOct(In)))
          /\ Check(t, l, "UnescCP", SameRes(e.uc, UnescapeCP(In)))
          /\ Check(t, l, "CPEncode", e.uc[1] = "ok" => e.ucb = Utf8Seq(e.uc[2]))
          /\ UNCHANGED <<vars, pos>> /\ Adv
TLaw == /\ e.op = "law"
        /\ Check(t, l, "RoundTrip", e.back = <<"ok", e.o>>)
        /\ UNCHANGED <<vars, pos>> /\ Adv

TraceNext == /\ l <= Len(Ev(t))
             /\ (TUniv \/ TEsc \/ TGet \/ TUnget \/ TUnesc \/ TLaw)
Accepted == Accepting(t, l)
=============================================================================
