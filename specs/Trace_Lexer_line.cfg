INIT TraceInit
NEXT TraceNext
CONSTANTS
  DialectFilter <- Dialects
  StrictLine = TRUE
CONSTRAINT Accepted
POSTCONDITION Post
CHECK_DEADLOCK FALSE
