INIT TraceInit
NEXT TraceNext
CONSTANTS
  Cases = {}
  MaxBlocks = 1000000
CONSTRAINT Accepted
POSTCONDITION Post
CHECK_DEADLOCK FALSE
