------------------------------ MODULE BTreeZone ------------------------------
(* Property C20: in a B-tree zone (dns.btreezone.Zone) the node flags, the delegation
   index, the iteration order and the answers of bounds() are a FUNCTION OF THE ZONE
   CONTENT ALONE.  That function is defined in module BTZDerived (from the NodeFlags /
   Bounds / ImmutableVersion.bounds docstrings and RFC 1034 4.2.1 / RFC 4035 2.2 for zone
   cuts and occluded names) over an abstract name structure; this module supplies the
   names and their canonical order (RFC 4034 section 6.1), the zone content and the
   transaction histories.  Nothing here describes how the implementation maintains the
   derived state incrementally.

   A NAME is a sequence of labels, left-most label first, written relative to the zone
   origin: <<>> is the apex, <<y, x, d>> is y.x.d.<origin>.  A LABEL is a non-empty
   sequence of octets 0..255.  Zone CONTENT is a function from <<owner, type>> to a
   non-empty set of rdata identifiers; owners are kept in canonical (lower-case) form.

   The state machine is the transaction history of the zone: whole-zone loads
   (replacement transactions) and update transactions that add / replace / delete
   rdatasets and delete nodes, committed or rolled back. *)
EXTENDS Integers, Sequences, FiniteSets, TLC

CONSTANTS Names,      \* owner names the environment may use (canonical form)
          Queries,    \* query names for bounds()
          OpTypes,    \* rdata types touched by update operations (subset of {"NS","A","TXT","CNAME"})
          RdIds,      \* rdata identifiers
          LoadSets,   \* set of record sequences a load may install; a record is <<owner, type, id>>
          MaxOps,     \* bound on operations per transaction   (model checking only)
          MaxTxns     \* bound on transactions per history     (model checking only)

VARIABLES content,    \* committed zone content
          working,    \* content inside the open transaction
          mode,       \* "idle" | "txn"
          nops, ntxn

vars == <<content, working, mode, nops, ntxn>>

-----------------------------------------------------------------------------
(* Names and the canonical order, RFC 4034 section 6.1 *)
Apex == <<>>

(* Mat is the identity on sequences; it makes TLC materialise a lazily represented
   [i \in 1..n |-> e] once instead of re-evaluating e at every use *)
Mat(s) == SubSeq(s, 1, Len(s))
Lesser(a, b) == IF a < b THEN a ELSE b

LowerOctet(o) == IF o \in 65..90 THEN o + 32 ELSE o
CanonLabel(lb) == Mat([j \in 1..Len(lb) |-> LowerOctet(lb[j])])
Canon(n) == Mat([i \in 1..Len(n) |-> CanonLabel(n[i])])

(* lexicographic order on sequences: the first difference decides, a proper prefix sorts
   first ("absent octets sort before a zero octet", "a name sorts before its descendants") *)
LexLess(a, b, lt(_, _)) ==
    \E k \in 1..(Lesser(Len(a), Len(b)) + 1) :
        /\ \A i \in 1..(k - 1) : a[i] = b[i]
        /\ IF k > Len(a) THEN k <= Len(b)
           ELSE k <= Len(b) /\ lt(a[k], b[k])
IntLess(x, y) == x < y
Rev(s) == Mat([i \in 1..Len(s) |-> s[Len(s) + 1 - i]])
(* on canonical forms: labels compare as left-justified unsigned octet strings; names
   compare by their most significant (right-most) labels first *)
LabelLessC(a, b) == LexLess(a, b, IntLess)
NameLessDef(m, n) == LexLess(Rev(m), Rev(n), LabelLessC)
(* Everything below uses NameLessC.  TLC configurations may override it with a table of
   NameLessDef precomputed over a finite universe (BTZNames!TabLess; TLC checks that the
   table agrees with NameLessDef) -- interpreting LexLess for every comparison is slow. *)
NameLessC(m, n) == NameLessDef(m, n)
(* on arbitrary spellings: upper case US-ASCII letters are treated as lower case *)
NameLess(m, n) == NameLessC(Canon(m), Canon(n))
NameLeq(m, n) == Canon(m) = Canon(n) \/ NameLess(m, n)

(* ancestry; arguments in canonical form *)
Suffix(n, k) == SubSeq(n, Len(n) - k + 1, Len(n))          \* the ancestor of n with k labels
StrictlyBelow(n, m) == Len(n) > Len(m) /\ Suffix(n, Len(m)) = m

-----------------------------------------------------------------------------
(* Content *)
EmptyContent == <<>>
ContentOf(R) == [key \in {<<r[1], r[2]>> : r \in R} |->
                    {r[3] : r \in {x \in R : x[1] = key[1] /\ x[2] = key[2]}}]
HasApex(c) == <<Apex, "SOA">> \in DOMAIN c

(* CNAME exclusivity at a node (dns.node.Node, RFC 1034 3.6.2 / RFC 2181 10.1; "most recent
   change wins"): storing a CNAME rdataset evicts every other rdataset of the node (this universe
   has no NSEC/KEY-like types, which could stay); storing any other rdataset evicts the CNAME.
   In particular a CNAME stored at a delegation point evicts its NS rdataset. *)
Evicted(w, n, ty) == IF ty = "CNAME" THEN {key \in DOMAIN w : key[1] = n /\ key[2] # "CNAME"}
                     ELSE {<<n, "CNAME">>}
PutC(w, n, ty, S) == [key \in (DOMAIN w \ Evicted(w, n, ty)) \cup {<<n, ty>>} |->
                        IF key = <<n, ty>> THEN S ELSE w[key]]
(* adding to a singleton type (CNAME, SOA) replaces its rdata *)
AddC(w, n, ty, k) == PutC(w, n, ty, IF <<n, ty>> \in DOMAIN w /\ ty \notin {"CNAME", "SOA"}
                                   THEN w[<<n, ty>>] \cup {k} ELSE {k})
(* a load adds its records one by one, in order (the order matters only where a CNAME and other
   data are loaded at the same owner) *)
RECURSIVE LoadFrom(_, _)
LoadFrom(w, s) == IF s = <<>> THEN w ELSE LoadFrom(AddC(w, s[1][1], s[1][2], s[1][3]), Tail(s))
LoadSeq(s) == LoadFrom(EmptyContent, s)
DelRdsC(w, n, ty) == [key \in DOMAIN w \ {<<n, ty>>} |-> w[key]]
DelRdC(w, n, ty, k) ==
    IF <<n, ty>> \notin DOMAIN w THEN w
    ELSE IF w[<<n, ty>>] \ {k} = {} THEN DelRdsC(w, n, ty)
    ELSE PutC(w, n, ty, w[<<n, ty>>] \ {k})
DelNodeC(w, n) == [key \in {x \in DOMAIN w : x[1] # n} |-> w[key]]

-----------------------------------------------------------------------------
(* THE DERIVED STATE, defined from content alone: module BTZDerived, instantiated with
   label-sequence names and the canonical order.  This brings in Cuts, Delegations,
   GlueIn, Visible, FlagsIn/FlagsOf, OrderOf, BoundsIn, BoundsFast, DerivedLaws,
   BoundsLaws, ... *)
INSTANCE BTZDerived WITH Apex <- Apex, Less <- NameLessC, Below <- StrictlyBelow,
                         Anc <- Suffix, Depth <- Len
Bounds(c, q) == BoundsIn(Visible(c), Cuts(c), Canon(q))

-----------------------------------------------------------------------------
(* Transaction histories *)
Init == /\ content = EmptyContent /\ working = EmptyContent
        /\ mode = "idle" /\ nops = 0 /\ ntxn = 0

(* a replacement transaction installing the records of the sequence s, in that order *)
Load(s) == /\ mode = "idle"
           /\ HasApex(LoadSeq(s))
           /\ content' = LoadSeq(s)
           /\ ntxn' = ntxn + 1
           /\ UNCHANGED <<working, mode, nops>>

Begin == /\ mode = "idle" /\ HasApex(content)
         /\ mode' = "txn" /\ working' = content /\ nops' = 0
         /\ UNCHANGED <<content, ntxn>>

InTxn == mode = "txn"
Did(w) == /\ working' = w /\ nops' = nops + 1 /\ UNCHANGED <<content, mode, ntxn>>

(* the zone keeps its apex SOA: no CNAME is stored at the apex (it would evict the SOA) *)
Storable(n, ty) == ~(n = Apex /\ ty = "CNAME")
Put(n, ty, S) == InTxn /\ S # {} /\ Storable(n, ty) /\ Did(PutC(working, n, ty, S))   \* txn.replace(n, rdataset)
Add(n, ty, k) == InTxn /\ Storable(n, ty) /\ Did(AddC(working, n, ty, k))             \* txn.add(n, ttl, rdata)
DelRd(n, ty, k) == InTxn /\ Did(DelRdC(working, n, ty, k))              \* txn.delete(n, rdata)
DelRds(n, ty) == InTxn /\ Did(DelRdsC(working, n, ty))                  \* txn.delete(n, type)
DelNode(n) == InTxn /\ n # Apex /\ Did(DelNodeC(working, n))            \* txn.delete(n)

Commit == /\ InTxn /\ HasApex(working)
          /\ content' = working /\ mode' = "idle" /\ ntxn' = ntxn + 1
          /\ working' = EmptyContent /\ nops' = 0
Rollback == /\ InTxn
            /\ mode' = "idle" /\ ntxn' = ntxn + 1
            /\ working' = EmptyContent /\ nops' = 0
            /\ UNCHANGED content

Op == \/ \E n \in Names, ty \in OpTypes, k \in RdIds : Put(n, ty, {k}) \/ Add(n, ty, k) \/ DelRd(n, ty, k)
      \/ \E n \in Names, ty \in OpTypes : DelRds(n, ty)
      \/ \E n \in Names : DelNode(n)

Next == \/ (ntxn < MaxTxns /\ \E R \in LoadSets : Load(R))
        \/ (ntxn < MaxTxns /\ Begin)
        \/ (nops < MaxOps /\ Op)
        \/ (nops > 0 /\ (Commit \/ Rollback))

Spec == Init /\ [][Next]_vars

-----------------------------------------------------------------------------
(* What TLC checks about the definitions.  Every law is stated for an arbitrary content
   with an apex. *)
TypeOK == mode \in {"idle", "txn"} /\ (\A key \in DOMAIN content : content[key] # {})

OrderLaws(U) ==          \* NameLess is a strict total order on canonical forms, ancestors first
    LET lt == [p \in U \X U |-> NameLess(p[1], p[2])]      \* evaluated once per pair
        L(a, b) == lt[<<a, b>>]
    IN /\ \A a \in U : ~L(a, a)
       /\ \A a, b \in U : Canon(a) = Canon(b) \/ L(a, b) \/ L(b, a)
       /\ \A a, b \in U : ~(L(a, b) /\ L(b, a))
       /\ \A a, b \in U : Canon(a) = Canon(b) => ~L(a, b)
       /\ \A a, b, d \in U : L(a, b) /\ L(b, d) => L(a, d)
       /\ \A a, b \in U : StrictlyBelow(Canon(a), Canon(b)) => L(b, a)
       (* a subtree is contiguous: nothing outside it sorts between a name and its descendant *)
       /\ \A a, b, d \in U : (StrictlyBelow(Canon(d), Canon(a)) /\ L(a, b) /\ L(b, d))
                                => StrictlyBelow(Canon(b), Canon(a))

Laws(c) == HasApex(c) => (DerivedLaws(c) /\ BoundsLaws(c, {Canon(q) : q \in Queries}))
(* every working content that can be committed becomes a committed content, so it is
   enough (and much cheaper) to evaluate the laws between transactions *)
CommittedLaws == (mode = "idle") => Laws(content)

(* a rollback or a failed transaction never changes the committed derived state *)
OnlyCommitChanges == [][content' # content => (mode' = "idle")]_vars
=============================================================================
