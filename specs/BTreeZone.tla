------------------------------ MODULE BTreeZone ------------------------------
(* Property C20: in a B-tree zone (dns.btreezone.Zone) the node flags, the delegation
   index, the iteration order and the answers of bounds() are a FUNCTION OF THE ZONE
   CONTENT ALONE.  This module defines that function from the documentation
   (NodeFlags / Bounds / ImmutableVersion.bounds docstrings, RFC 4034 section 6.1 for the
   order, RFC 1034 4.2.1 / RFC 4035 2.2 for zone cuts and occluded names) -- it does not
   describe how the implementation maintains anything incrementally.

   A NAME is a sequence of labels, left-most label first, written relative to the zone
   origin: <<>> is the apex, <<y, x, d>> is y.x.d.<origin>.  A LABEL is a non-empty
   sequence of octets 0..255.  Zone CONTENT is a function from <<owner, type>> to a
   non-empty set of rdata identifiers; owners are kept in canonical (lower-case) form.

   The state machine is the transaction history of the zone: whole-zone loads
   (replacement transactions) and update transactions that add / replace / delete
   rdatasets and delete nodes, committed or rolled back. *)
EXTENDS Integers, Sequences, FiniteSets, TLC

CONSTANTS Names,      \* owner names the environment may use (canonical form)
          Queries,    \* query names for bounds()
          OpTypes,    \* rdata types touched by update operations (subset of {"NS","A","TXT"})
          RdIds,      \* rdata identifiers
          LoadSets,   \* set of record sets a load may install; a record is <<owner, type, id>>
          MaxOps,     \* bound on operations per transaction   (model checking only)
          MaxTxns     \* bound on transactions per history     (model checking only)

VARIABLES content,    \* committed zone content
          working,    \* content inside the open transaction
          mode,       \* "idle" | "txn"
          nops, ntxn

vars == <<content, working, mode, nops, ntxn>>

-----------------------------------------------------------------------------
(* Names and the canonical order, RFC 4034 section 6.1 *)
Apex == <<>>
Min2(a, b) == IF a < b THEN a ELSE b
MaxOf(S) == CHOOSE x \in S : \A y \in S : y <= x

LowerOctet(o) == IF o \in 65..90 THEN o + 32 ELSE o
CanonLabel(lb) == [j \in 1..Len(lb) |-> LowerOctet(lb[j])]
Canon(n) == [i \in 1..Len(n) |-> CanonLabel(n[i])]

(* lexicographic order on sequences: the first difference decides, a proper prefix sorts
   first ("absent octets sort before a zero octet", "a name sorts before its descendants") *)
LexLess(a, b, lt(_, _)) ==
    \E k \in 1..(Min2(Len(a), Len(b)) + 1) :
        /\ \A i \in 1..(k - 1) : a[i] = b[i]
        /\ IF k > Len(a) THEN k <= Len(b)
           ELSE k <= Len(b) /\ lt(a[k], b[k])
IntLess(x, y) == x < y
(* labels: as left-justified unsigned octet strings, upper case US-ASCII as lower case *)
LabelLess(a, b) == LexLess(CanonLabel(a), CanonLabel(b), IntLess)
Rev(s) == [i \in 1..Len(s) |-> s[Len(s) + 1 - i]]
(* names: by their most significant (right-most) labels first *)
NameLess(m, n) == LexLess(Rev(Canon(m)), Rev(Canon(n)), LabelLess)
NameLeq(m, n) == Canon(m) = Canon(n) \/ NameLess(m, n)

(* ancestry; arguments in canonical form *)
Suffix(n, k) == SubSeq(n, Len(n) - k + 1, Len(n))          \* the ancestor of n with k labels
AtOrBelow(n, m) == Len(n) >= Len(m) /\ Suffix(n, Len(m)) = m
StrictlyBelow(n, m) == Len(n) > Len(m) /\ Suffix(n, Len(m)) = m
Common(a, b) == MaxOf({k \in 0..Min2(Len(a), Len(b)) : Suffix(a, k) = Suffix(b, k)})

-----------------------------------------------------------------------------
(* Content *)
EmptyContent == <<>>
ContentOf(R) == [key \in {<<r[1], r[2]>> : r \in R} |->
                    {r[3] : r \in {x \in R : x[1] = key[1] /\ x[2] = key[2]}}]
Nodes(c) == {key[1] : key \in DOMAIN c}                    \* owners of at least one rdataset
HasApex(c) == <<Apex, "SOA">> \in DOMAIN c

PutC(w, n, ty, S) == [key \in DOMAIN w \cup {<<n, ty>>} |-> IF key = <<n, ty>> THEN S ELSE w[key]]
AddC(w, n, ty, k) == PutC(w, n, ty, IF <<n, ty>> \in DOMAIN w THEN w[<<n, ty>>] \cup {k} ELSE {k})
DelRdsC(w, n, ty) == [key \in DOMAIN w \ {<<n, ty>>} |-> w[key]]
DelRdC(w, n, ty, k) ==
    IF <<n, ty>> \notin DOMAIN w THEN w
    ELSE IF w[<<n, ty>>] \ {k} = {} THEN DelRdsC(w, n, ty)
    ELSE PutC(w, n, ty, w[<<n, ty>>] \ {k})
DelNodeC(w, n) == [key \in {x \in DOMAIN w : x[1] # n} |-> w[key]]

-----------------------------------------------------------------------------
(* THE DERIVED STATE, defined from content alone *)

(* owners of an NS rdataset other than the apex *)
NSOwners(c) == {n \in Nodes(c) : n # Apex /\ <<n, "NS">> \in DOMAIN c}
(* zone cuts = delegation points: NS owners that are not beneath another NS owner *)
Cuts(c) == {n \in NSOwners(c) : ~\E m \in NSOwners(c) : StrictlyBelow(n, m)}
Delegations(c) == Cuts(c)
(* glue / occluded names: strictly beneath a delegation point *)
GlueIn(K, n) == \E m \in K : StrictlyBelow(n, m)
Visible(c) == {n \in Nodes(c) : ~GlueIn(Cuts(c), n)}       \* the non-occluded names

ORIGIN == 1
DELEGATION == 2
GLUE == 4
FlagsIn(K, n) == (IF n = Apex THEN ORIGIN ELSE 0) + (IF n \in K THEN DELEGATION ELSE 0)
                 + (IF GlueIn(K, n) THEN GLUE ELSE 0)
FlagsOf(c, n) == FlagsIn(Cuts(c), n)

(* iteration order: the names of S in canonical order *)
Rank(S, n) == Cardinality({m \in S : NameLess(m, n)})
OrderOf(S) == [i \in 1..Cardinality(S) |-> CHOOSE n \in S : Rank(S, n) = i - 1]

(* bounds(q) over V = the non-occluded names, K = the cuts;  q in canonical form *)
CutAbove(K, q) == {m \in K : AtOrBelow(q, m)}                \* the delegation at or above q
LeftIn(V, q) == CHOOSE n \in V : NameLeq(n, q) /\ \A v \in V : NameLeq(v, q) => NameLeq(v, n)
RightIn(V, q) == {n \in V : NameLess(q, n) /\ \A v \in V : NameLess(q, v) => NameLeq(n, v)}
(* a name exists if it owns visible data or is an empty non-terminal above visible data;
   the apex always exists *)
ExistsIn(V, a) == a = Apex \/ \E v \in V : AtOrBelow(v, a)
EncloserIn(V, q) == Suffix(q, MaxOf({k \in 0..Len(q) : ExistsIn(V, Suffix(q, k))}))

BoundsIn(V, K, q) == [left |-> LeftIn(V, q),        \* greatest non-occluded name <= q
                      right |-> RightIn(V, q),      \* {least non-occluded name > q}, {} if none
                      encloser |-> EncloserIn(V, q),
                      is_equal |-> q \in V,
                      is_delegation |-> CutAbove(K, q) # {}]
Bounds(c, q) == BoundsIn(Visible(c), Cuts(c), Canon(q))

-----------------------------------------------------------------------------
(* Transaction histories *)
Init == /\ content = EmptyContent /\ working = EmptyContent
        /\ mode = "idle" /\ nops = 0 /\ ntxn = 0

(* a replacement transaction installing the record set R, in whatever order *)
Load(R) == /\ mode = "idle"
           /\ HasApex(ContentOf(R))
           /\ content' = ContentOf(R)
           /\ ntxn' = ntxn + 1
           /\ UNCHANGED <<working, mode, nops>>

Begin == /\ mode = "idle" /\ HasApex(content)
         /\ mode' = "txn" /\ working' = content /\ nops' = 0
         /\ UNCHANGED <<content, ntxn>>

InTxn == mode = "txn"
Did(w) == /\ working' = w /\ nops' = nops + 1 /\ UNCHANGED <<content, mode, ntxn>>

Put(n, ty, S) == InTxn /\ S # {} /\ Did(PutC(working, n, ty, S))        \* txn.replace(n, rdataset)
Add(n, ty, k) == InTxn /\ Did(AddC(working, n, ty, k))                  \* txn.add(n, ttl, rdata)
DelRd(n, ty, k) == InTxn /\ Did(DelRdC(working, n, ty, k))              \* txn.delete(n, rdata)
DelRds(n, ty) == InTxn /\ Did(DelRdsC(working, n, ty))                  \* txn.delete(n, type)
DelNode(n) == InTxn /\ n # Apex /\ Did(DelNodeC(working, n))            \* txn.delete(n)

Commit == /\ InTxn /\ HasApex(working)
          /\ content' = working /\ mode' = "idle" /\ ntxn' = ntxn + 1
          /\ UNCHANGED <<working, nops>>
Rollback == /\ InTxn
            /\ mode' = "idle" /\ ntxn' = ntxn + 1
            /\ UNCHANGED <<content, working, nops>>

Op == \/ \E n \in Names, ty \in OpTypes, k \in RdIds : Put(n, ty, {k}) \/ Add(n, ty, k) \/ DelRd(n, ty, k)
      \/ \E n \in Names, ty \in OpTypes : DelRds(n, ty)
      \/ \E n \in Names : DelNode(n)

Next == \/ (ntxn < MaxTxns /\ \E R \in LoadSets : Load(R))
        \/ (ntxn < MaxTxns /\ Begin)
        \/ (nops < MaxOps /\ Op)
        \/ (nops > 0 /\ (Commit \/ Rollback))

Spec == Init /\ [][Next]_vars

-----------------------------------------------------------------------------
(* What TLC checks about the definitions.  Every law is stated for an arbitrary content
   with an apex and is checked on the committed and on the working content. *)
TypeOK == mode \in {"idle", "txn"} /\ (\A key \in DOMAIN content : content[key] # {})

OrderLaws(U) ==          \* NameLess is a strict total order on canonical forms, ancestors first
    /\ \A a \in U : ~NameLess(a, a)
    /\ \A a, b \in U : Canon(a) = Canon(b) \/ NameLess(a, b) \/ NameLess(b, a)
    /\ \A a, b \in U : ~(NameLess(a, b) /\ NameLess(b, a))
    /\ \A a, b, d \in U : NameLess(a, b) /\ NameLess(b, d) => NameLess(a, d)
    /\ \A a, b \in U : StrictlyBelow(Canon(a), Canon(b)) => NameLess(b, a)
    (* a subtree is contiguous: nothing outside it sorts between a name and its descendant *)
    /\ \A a, b, d \in U : (StrictlyBelow(Canon(d), Canon(a)) /\ NameLess(a, b) /\ NameLess(b, d))
                             => StrictlyBelow(Canon(b), Canon(a))

DerivedLaws(c) ==
    LET K == Cuts(c)
        V == Visible(c)
    IN /\ Apex \in V
       (* the cuts are an antichain, and exactly the NS owners not beneath a cut *)
       /\ \A m, n \in K : m # n => ~AtOrBelow(m, n)
       /\ K = {n \in NSOwners(c) : ~GlueIn(K, n)}
       (* ORIGIN, DELEGATION and GLUE exclude one another *)
       /\ \A n \in Nodes(c) : FlagsIn(K, n) \in {0, ORIGIN, DELEGATION, GLUE}
       /\ \A n \in Nodes(c) : (n \in V) <=> (FlagsIn(K, n) # GLUE)
       (* iteration order is a permutation in strictly increasing order *)
       /\ LET s == OrderOf(Nodes(c))
          IN /\ {s[i] : i \in DOMAIN s} = Nodes(c)
             /\ \A i \in 1..(Len(s) - 1) : NameLess(s[i], s[i + 1])

BoundsLaws(c) ==
    LET K == Cuts(c)
        V == Visible(c)
    IN \A qq \in Queries :
        LET q == Canon(qq)
            b == BoundsIn(V, K, q)
        IN /\ b.left \in V /\ NameLeq(b.left, q)
           /\ b.right \subseteq V /\ Cardinality(b.right) <= 1
           /\ \A r \in b.right : NameLess(q, r)
           /\ (b.right = {}) => \A v \in V : NameLeq(v, q)
           (* adjacent: no non-occluded name strictly between left and right *)
           /\ ~\E v \in V : NameLess(b.left, v) /\ \A r \in b.right : NameLess(v, r)
           (* the encloser is the longest existing ancestor-or-self *)
           /\ AtOrBelow(q, b.encloser) /\ ExistsIn(V, b.encloser)
           /\ \A k \in (Len(b.encloser) + 1)..Len(q) : ~ExistsIn(V, Suffix(q, k))
           /\ (b.is_equal <=> b.left = q)
           /\ (b.is_equal => b.encloser = q)
           (* at or below a delegation: left bound and encloser are the delegation itself *)
           /\ b.is_delegation => /\ b.left \in K /\ AtOrBelow(q, b.left)
                                 /\ b.encloser = b.left
           /\ (b.is_delegation <=> (b.left \in K /\ AtOrBelow(q, b.left)))
           (* neighbour lemma: the encloser is the longest ancestor shared with a neighbour *)
           /\ Len(b.encloser) = MaxOf({Common(q, b.left)} \cup {Common(q, r) : r \in b.right})

Laws(c) == HasApex(c) => (DerivedLaws(c) /\ BoundsLaws(c))
CommittedLaws == Laws(content)
WorkingLaws == Laws(working)

(* a rollback or a failed transaction never changes the committed derived state *)
OnlyCommitChanges == [][content' # content => (mode' = "idle")]_vars
=============================================================================
