-------------------------- MODULE RegistriesUniverse --------------------------
(* X09 - the declared universes: what Gen_Registries emits and MC_Registries quantifies over.
   Tier = "quick" | "thorough". *)
EXTENDS RegistriesTables

CONSTANT Tier
Thorough == Tier = "thorough"

MainRegs == {"type", "class", "rcode", "opcode", "option", "svcparam"}
RowRegs == Regs
(* value rows: blocks of 256 consecutive values; every value of every registry *)
RowItems == {<<reg, lo * 256>> : reg \in RowRegs, lo \in 0..255}
InRow(it) == it[2] <= Max(it[1])
RowLen(reg, lo) == IF lo + 256 > Max(reg) + 1 THEN Max(reg) + 1 - lo ELSE 256

(* lexical texts: prefix x digits x suffix, and words *)
PreSet == {"", "TYPE", "type", "tYpE", "CLASS", "class", "KEY", "kEy", "TYP", "TYPEE", "FLAG", "RCODE", " ", "-", "+"}
NumSet == {"", "0", "1", "5", "9", "00", "01", "007", "15", "16", "255", "256", "4095", "4096", "65535", "65536",
           "065535", "65537", "99999", "100000", "4294967295", "4294967296", "18446744073709551616"}
SufSet == {"", " ", "x", "-1", "+", ".", "_", "\n"}
QPre == {"", "TYPE", "type", "CLASS", "kEy", "TYP", " "}
QNum == {"", "0", "1", "007", "15", "16", "255", "256", "4095", "4096", "65535", "65536", "4294967296"}
QSuf == {"", " ", "x", "-1"}
LexTexts == IF Thorough THEN {p \o n \o s : p \in PreSet, n \in NumSet, s \in SufSet}
            ELSE {p \o n \o s : p \in QPre, n \in QNum, s \in QSuf}
TableNames(tab) == {tab[k][2] : k \in 1..Len(tab)}
AllNames == UNION {TableNames(Table(reg)) : reg \in Tabled}
Under(s) == MapFrom(s, 1, [c \in {"-"} |-> "_"])
Bogus == {"FOO", "AA", "A-", "-A", "NSAP--PTR", "NSAP-_PTR", "TYPE-1", "TYPEA", "CLASSIN", "NONE0", "X", "NULL0", "ANY255", "HHIT", "BRID"}
Words == AllNames \cup {Lower(w) : w \in AllNames} \cup {Under(w) : w \in AllNames} \cup Bogus
TextRegs == IF Thorough THEN Regs ELSE MainRegs
InTexts(it) == it[1] \in TextRegs /\ (it[2] \in LexTexts \/ it[2] \in Words)

(* integers outside (and at the edge of) the range *)
OorVals(reg) == {-1, -2, -65536, Max(reg), Max(reg) + 1, Max(reg) + 2, 65536, 65537, 1048576, 2147483647}
OorItems == {<<reg, v>> : reg \in Regs, v \in UNION {OorVals(r) : r \in Regs}}
InOor(it) == it[2] \in OorVals(it[1])

(* header flags rows (all 65536 values), EDNS low-limb rows under several high limbs *)
FRowItems == {<<lo * 256>> : lo \in 0..255}
EHis == IF Thorough THEN {0, 65535, 32768, 255, 256} ELSE {0, 65535}
ERowItems == {<<lo * 256, hi>> : lo \in 0..255, hi \in EHis}
(* every rcode under noise in all the other bits: <<lo, flags noise, version, EDNS low limb>> *)
FNoise == IF Thorough THEN {0, 65520, 33152, 30720, 64} ELSE {0, 65520, 33152}
VNoise == IF Thorough THEN {0, 1, 255} ELSE {0, 255}
LNoise == IF Thorough THEN {0, 65535, 32768} ELSE {0, 65535}
RcRowItems == {<<lo * 256, f, v, l>> : lo \in 0..15, f \in FNoise, v \in VNoise, l \in LNoise}
(* rcode.from_flags on every flags word under several EDNS high limbs, and on every high limb *)
RcfHis == IF Thorough THEN {0, 256, 65280, 65535, 4660} ELSE {0, 65535, 4660}
RcfItems == {<<lo * 256, hi>> : lo \in 0..255, hi \in RcfHis}
RceFlags == IF Thorough THEN {0, 15, 65535, 33157} ELSE {0, 65535, 33157}
RceItems == {<<lo * 256, f>> : lo \in 0..255, f \in RceFlags}

(* flag texts: token sequences *)
HTok == {"QR", "AA", "TC", "RD", "RA", "AD", "CD", "qr", "Aa", "FLAG6", "FLAG4", "FLAG0", "FLAG11", "FLAG15", "FLAG16",
         "FLAG99", "FLAG", "FLAG-1", "FLAG06", "Z", "XX", "DO", "0", "QR,AA", ""}
ETok == {"DO", "CO", "do", "Co", "FLAG0", "FLAG13", "FLAG14", "FLAG15", "FLAG16", "FLAG31", "FLAG", "QR", "Z", "XX", ""}
TokSeqs(S, n) == UNION {[1..k -> S] : k \in 0..n}
Subseqs(names) == {SelectSeq(names, LAMBDA n : n \in S) : S \in SUBSET ToSet(names)}
Reverse(s) == [i \in 1..Len(s) |-> s[Len(s) + 1 - i]]
FTextItems(which) ==
    LET names == IF which = "flags" THEN FlagNames ELSE EFlagNames
        toks == IF which = "flags" THEN HTok ELSE ETok
    IN  TokSeqs(toks, IF Thorough THEN 3 ELSE 2) \cup Subseqs(names) \cup {Reverse(s) : s \in Subseqs(names)}

(* header machine: the full call universe, and a small one for deeper behaviours *)
GOps == 0..15
GRcs == {0, 1, 5, 15, 16, 17, 23, 255, 256, 4095}
GVers == {0, 1, 255}
GELos == {0, 32768, 16384, 65535}
GXrs == {0, 1}
GInitFlags == IF Thorough THEN {0, 65535, 33152, 10629} ELSE {65535, 10629}
SOps == {0, 5, 15}
SRcs == {0, 15, 16, 4095}
SNames == {"QR", "CD"}
SVers == {0, 255}
SELos == {0, 65535}
SInitFlags == {10629, 65535}
(* registration machine *)
GRVals == {65280, 65281, 1}
GRTexts == {"FOO", "foo", "Foo-Bar", "A", "TYPE65281", "BAR"}
=============================================================================
