--------------------------- MODULE WriterAdmission ---------------------------
(* C12 - admission of write transactions to a versioned zone.

   The documented design (dns.versioned.Zone): one lock guards the shared state; at most one
   write transaction is open; a writer that cannot start enqueues a private event and waits
   for it OUTSIDE the lock; whoever ends a write (commit or rollback) hands the "exclusive
   right to create the next write transaction" to the head of the queue and wakes exactly
   that waiter; a newcomer may only start when nobody holds that right.  The new version's
   map is copied after admission, outside the lock.  A commit appends the version, prunes,
   publishes the node map and ends the write under ONE lock hold.  Readers take only the
   lock, pin the newest version, and unpin + prune at their end.

   One PlusCal label per group of source lines between two observable operations
   (lock/event operations and API returns); the labels inside a lock hold are line-granular
   so that TLC also explores every placement of the lock-free steps (event wait, version
   setup, API returns, direct reads of the published map) between them.

   Threads are positive integers; 0 is None.  A transaction is a read-modify-write: it reads
   the content it was given at setup and appends its own tag, so a lost update, a dirty read
   or a wrong serial order shows in the content. *)
EXTENDS Integers, Sequences, FiniteSets, TLC

CONSTANTS Writers,   \* set of writer thread ids
          Readers,   \* set of reader thread ids (disjoint)
          Plans,     \* set of functions Writers -> Seq(STRING): how each transaction of each writer
                     \* ends (the environment's script): "commit" publishes; EVERY other way of leaving
                     \* the transaction - rollback(), a commit without changes ("empty"), a with-block left
                     \* by an Exception ("raise") or by a BaseException that is not an Exception ("exit",
                     \* "interrupt", "genexit") - must end the write (rollback path: xClear, wake-up)
          RPlans,    \* set of functions Readers -> Nat: number of read transactions per reader
          RModes,    \* set of functions Readers -> {"latest", "byid", "byinit"}: a "byid" reader opens
                     \* its later transactions with reader(id = the id its first transaction saw), a
                     \* "byinit" reader opens every transaction with reader(id = InitVid)
          InitVid,   \* id of the only version retained initially
          Policers,  \* set of thread ids that change the retention policy (set_max_versions)
          PPlans     \* set of functions Policers -> Seq(Nat): the max_versions values each sets
                     \* (0 stands for None = keep everything)

Tag(t, k) == t * 10 + k
Last(s) == s[Len(s)]
MinOf(S) == CHOOSE x \in S : \A y \in S : x <= y

\* Retention: pruning proceeds from the oldest version and stops at the first version that
\* is >= one a reader has pinned, or is the newest, or that the policy keeps.  The policy
\* "max_versions = n" prunes while more than n versions are retained (n = 0: None, keeps
\* everything); the default policy prunes whatever may be pruned, which is n = 1.
LeastKept(vs, rv) == LET P == {rv[r] : r \in DOMAIN rv} \ {0}
                     IN IF P # {} THEN MinOf(P) ELSE Last(vs).id
Older(vs, rv) == Cardinality({i \in 1..Len(vs) : vs[i].id < LeastKept(vs, rv)})
Excess(vs, n) == IF n = 0 THEN 0 ELSE IF Len(vs) > n THEN Len(vs) - n ELSE 0
Drop(vs, rv, n) == IF Older(vs, rv) < Excess(vs, n) THEN Older(vs, rv) ELSE Excess(vs, n)
Prune(vs, rv, n) == SubSeq(vs, Drop(vs, rv, n) + 1, Len(vs))
\* the version id a reader asks for (0 = the newest)
Target(m, f) == IF m = "byinit" THEN InitVid ELSE IF m = "byid" THEN f ELSE 0

(* --algorithm WriterAdmission {
variables
  plan \in Plans, rplan \in RPlans, rmode \in RModes, pplan \in PPlans,
  lock = 0,                 \* _version_lock: holder or 0
  writeTxn = 0,             \* _write_txn: thread owning the open write transaction or 0
  writeEvent = 0,           \* _write_event: event holding the exclusive right or 0
  waiters = <<>>,           \* _write_waiters: FIFO of events
  evSet = {},               \* events that are set
  nextEv = 0,               \* events created so far
  versions = <<[id |-> InitVid, content |-> <<>>]>>,   \* _versions
  published = <<>>,         \* content of zone.nodes
  readerVer = [x \in Readers |-> 0],                   \* _readers: pinned version id per reader
  maxv = 1,                 \* _pruning_policy as max_versions (1 = the default policy, 0 = None)
  \* history (ghost) variables, never read by the algorithm
  admitOrder = <<>>,        \* tags in order of admission
  arrivals = <<>>,          \* tags in order of first enqueue (or of admission if never enqueued)
  committed = {},           \* tags whose commit was published
  everVersions = {[id |-> InitVid, content |-> <<>>]};  \* every version ever committed

fair process (w \in Writers)
  variables k = 0, myEv = 0, enq = FALSE, ver = 0, snap = <<>>;
{
wStart: while (k < Len(plan[self])) {
          k := k + 1; myEv := 0; enq := FALSE;                   \* versioned.py:125
wAcq:     await lock = 0; lock := self;                          \* :127
wTest:    if (writeTxn = 0 /\ myEv = writeEvent) {               \* :132
            writeTxn := self; writeEvent := 0;                   \* :138 :142
            admitOrder := Append(admitOrder, Tag(self, k));
            if (~enq) { arrivals := Append(arrivals, Tag(self, k)) };
wRelA:      lock := 0;                                           \* :143 leaving the with block
          } else {
wNewEv:     nextEv := nextEv + 1; myEv := nextEv;                \* :147
wEnq:       waiters := Append(waiters, myEv);                    \* :148
            if (~enq) { arrivals := Append(arrivals, Tag(self, k)); enq := TRUE };
wRelW:      lock := 0;                                           \* leaving the with block
wWait:      await myEv \in evSet;                                \* :168
            goto wAcq;
          };
wSetup:   ver := Last(versions).id + 1; snap := published;       \* :170 -> zone.py _setup_version
wRet:     skip;                                                  \* writer() returns
wBody:    if (plan[self][k] = "commit") { snap := Append(snap, Tag(self, k)) };  \* user code
eAcq:     await lock = 0; lock := self;                          \* :261 / :275
          if (plan[self][k] = "commit") {
cAppend:    versions := Append(versions, [id |-> ver, content |-> snap]);  \* :265
            everVersions := everVersions \cup {[id |-> ver, content |-> snap]};
cPrune:     versions := Prune(versions, readerVer, maxv);              \* :266
cPublish:   published := snap; committed := committed \cup {Tag(self, k)};  \* :267
          };
xClear:   writeTxn := 0;                                         \* :257
xTest:    if (waiters # <<>>) {                                  \* :174
xPop:       writeEvent := Head(waiters); waiters := Tail(waiters);  \* :175
xSet:       evSet := evSet \cup {writeEvent};                    \* :176
          };
eRel:     lock := 0;                                             \* leaving the with block
eEnd:     skip;                                                  \* commit()/rollback() returns
        }
}

fair process (r \in Readers)
  variables rk = 0, rver = [id |-> 0, content |-> <<>>], first = 0;
{
rStart: while (rk < rplan[self]) {
          rk := rk + 1;
rAcq:     await lock = 0; lock := self;                          \* :90
rPick:    if (Target(rmode[self], first) # 0) {                  \* :91-98 reader(id=...)
            if (\E i \in 1..Len(versions) : versions[i].id = Target(rmode[self], first)) {
              rver := versions[CHOOSE i \in 1..Len(versions) : versions[i].id = Target(rmode[self], first)];
              readerVer[self] := Target(rmode[self], first);
            } else {
              rver := [id |-> 0, content |-> <<>>];               \* KeyError("version not found")
            }
          } else {
            rver := Last(versions); readerVer[self] := Last(versions).id;  \* :119-121
          };
rRel:     lock := 0;
rOpen:    if (rver.id = 0) { goto rStart }                       \* reader() returns, or raised
          else if (first = 0) { first := rver.id };
rRead:    skip;                                                  \* a later read in the same txn
rcAcq:    await lock = 0; lock := self;                          \* :251
rcEnd:    readerVer[self] := 0;                                  \* :252
rcPrune:  versions := Prune(versions, readerVer, maxv);          \* :253
rcRel:    lock := 0;
rEnd:     skip;
        }
}

fair process (pol \in Policers)
  variables pk = 0;
{
pStart: while (pk < Len(pplan[self])) {
          pk := pk + 1;
pAcq:     await lock = 0; lock := self;                          \* :246
pSet:     maxv := pplan[self][pk];                               \* :247
pPrune:   versions := Prune(versions, readerVer, maxv);          \* :248
pRel:     lock := 0;
pEnd:     skip;                                                  \* set_max_versions() returns
        }
}
} *)
\* BEGIN TRANSLATION
VARIABLES pc, plan, rplan, rmode, pplan, lock, writeTxn, writeEvent, waiters, 
          evSet, nextEv, versions, published, readerVer, maxv, admitOrder, 
          arrivals, committed, everVersions, k, myEv, enq, ver, snap, rk, 
          rver, first, pk

vars == << pc, plan, rplan, rmode, pplan, lock, writeTxn, writeEvent, waiters, 
           evSet, nextEv, versions, published, readerVer, maxv, admitOrder, 
           arrivals, committed, everVersions, k, myEv, enq, ver, snap, rk, 
           rver, first, pk >>

ProcSet == (Writers) \cup (Readers) \cup (Policers)

Init == (* Global variables *)
        /\ plan \in Plans
        /\ rplan \in RPlans
        /\ rmode \in RModes
        /\ pplan \in PPlans
        /\ lock = 0
        /\ writeTxn = 0
        /\ writeEvent = 0
        /\ waiters = <<>>
        /\ evSet = {}
        /\ nextEv = 0
        /\ versions = <<[id |-> InitVid, content |-> <<>>]>>
        /\ published = <<>>
        /\ readerVer = [x \in Readers |-> 0]
        /\ maxv = 1
        /\ admitOrder = <<>>
        /\ arrivals = <<>>
        /\ committed = {}
        /\ everVersions = {[id |-> InitVid, content |-> <<>>]}
        (* Process w *)
        /\ k = [self \in Writers |-> 0]
        /\ myEv = [self \in Writers |-> 0]
        /\ enq = [self \in Writers |-> FALSE]
        /\ ver = [self \in Writers |-> 0]
        /\ snap = [self \in Writers |-> <<>>]
        (* Process r *)
        /\ rk = [self \in Readers |-> 0]
        /\ rver = [self \in Readers |-> [id |-> 0, content |-> <<>>]]
        /\ first = [self \in Readers |-> 0]
        (* Process pol *)
        /\ pk = [self \in Policers |-> 0]
        /\ pc = [self \in ProcSet |-> CASE self \in Writers -> "wStart"
                                        [] self \in Readers -> "rStart"
                                        [] self \in Policers -> "pStart"]

wStart(self) == /\ pc[self] = "wStart"
                /\ IF k[self] < Len(plan[self])
                      THEN /\ k' = [k EXCEPT ![self] = k[self] + 1]
                           /\ myEv' = [myEv EXCEPT ![self] = 0]
                           /\ enq' = [enq EXCEPT ![self] = FALSE]
                           /\ pc' = [pc EXCEPT ![self] = "wAcq"]
                      ELSE /\ pc' = [pc EXCEPT ![self] = "Done"]
                           /\ UNCHANGED << k, myEv, enq >>
                /\ UNCHANGED << plan, rplan, rmode, pplan, lock, writeTxn, 
                                writeEvent, waiters, evSet, nextEv, versions, 
                                published, readerVer, maxv, admitOrder, 
                                arrivals, committed, everVersions, ver, snap, 
                                rk, rver, first, pk >>

wAcq(self) == /\ pc[self] = "wAcq"
              /\ lock = 0
              /\ lock' = self
              /\ pc' = [pc EXCEPT ![self] = "wTest"]
              /\ UNCHANGED << plan, rplan, rmode, pplan, writeTxn, writeEvent, 
                              waiters, evSet, nextEv, versions, published, 
                              readerVer, maxv, admitOrder, arrivals, committed, 
                              everVersions, k, myEv, enq, ver, snap, rk, rver, 
                              first, pk >>

wTest(self) == /\ pc[self] = "wTest"
               /\ IF writeTxn = 0 /\ myEv[self] = writeEvent
                     THEN /\ writeTxn' = self
                          /\ writeEvent' = 0
                          /\ admitOrder' = Append(admitOrder, Tag(self, k[self]))
                          /\ IF ~enq[self]
                                THEN /\ arrivals' = Append(arrivals, Tag(self, k[self]))
                                ELSE /\ TRUE
                                     /\ UNCHANGED arrivals
                          /\ pc' = [pc EXCEPT ![self] = "wRelA"]
                     ELSE /\ pc' = [pc EXCEPT ![self] = "wNewEv"]
                          /\ UNCHANGED << writeTxn, writeEvent, admitOrder, 
                                          arrivals >>
               /\ UNCHANGED << plan, rplan, rmode, pplan, lock, waiters, evSet, 
                               nextEv, versions, published, readerVer, maxv, 
                               committed, everVersions, k, myEv, enq, ver, 
                               snap, rk, rver, first, pk >>

wRelA(self) == /\ pc[self] = "wRelA"
               /\ lock' = 0
               /\ pc' = [pc EXCEPT ![self] = "wSetup"]
               /\ UNCHANGED << plan, rplan, rmode, pplan, writeTxn, writeEvent, 
                               waiters, evSet, nextEv, versions, published, 
                               readerVer, maxv, admitOrder, arrivals, 
                               committed, everVersions, k, myEv, enq, ver, 
                               snap, rk, rver, first, pk >>

wNewEv(self) == /\ pc[self] = "wNewEv"
                /\ nextEv' = nextEv + 1
                /\ myEv' = [myEv EXCEPT ![self] = nextEv']
                /\ pc' = [pc EXCEPT ![self] = "wEnq"]
                /\ UNCHANGED << plan, rplan, rmode, pplan, lock, writeTxn, 
                                writeEvent, waiters, evSet, versions, 
                                published, readerVer, maxv, admitOrder, 
                                arrivals, committed, everVersions, k, enq, ver, 
                                snap, rk, rver, first, pk >>

wEnq(self) == /\ pc[self] = "wEnq"
              /\ waiters' = Append(waiters, myEv[self])
              /\ IF ~enq[self]
                    THEN /\ arrivals' = Append(arrivals, Tag(self, k[self]))
                         /\ enq' = [enq EXCEPT ![self] = TRUE]
                    ELSE /\ TRUE
                         /\ UNCHANGED << arrivals, enq >>
              /\ pc' = [pc EXCEPT ![self] = "wRelW"]
              /\ UNCHANGED << plan, rplan, rmode, pplan, lock, writeTxn, 
                              writeEvent, evSet, nextEv, versions, published, 
                              readerVer, maxv, admitOrder, committed, 
                              everVersions, k, myEv, ver, snap, rk, rver, 
                              first, pk >>

wRelW(self) == /\ pc[self] = "wRelW"
               /\ lock' = 0
               /\ pc' = [pc EXCEPT ![self] = "wWait"]
               /\ UNCHANGED << plan, rplan, rmode, pplan, writeTxn, writeEvent, 
                               waiters, evSet, nextEv, versions, published, 
                               readerVer, maxv, admitOrder, arrivals, 
                               committed, everVersions, k, myEv, enq, ver, 
                               snap, rk, rver, first, pk >>

wWait(self) == /\ pc[self] = "wWait"
               /\ myEv[self] \in evSet
               /\ pc' = [pc EXCEPT ![self] = "wAcq"]
               /\ UNCHANGED << plan, rplan, rmode, pplan, lock, writeTxn, 
                               writeEvent, waiters, evSet, nextEv, versions, 
                               published, readerVer, maxv, admitOrder, 
                               arrivals, committed, everVersions, k, myEv, enq, 
                               ver, snap, rk, rver, first, pk >>

wSetup(self) == /\ pc[self] = "wSetup"
                /\ ver' = [ver EXCEPT ![self] = Last(versions).id + 1]
                /\ snap' = [snap EXCEPT ![self] = published]
                /\ pc' = [pc EXCEPT ![self] = "wRet"]
                /\ UNCHANGED << plan, rplan, rmode, pplan, lock, writeTxn, 
                                writeEvent, waiters, evSet, nextEv, versions, 
                                published, readerVer, maxv, admitOrder, 
                                arrivals, committed, everVersions, k, myEv, 
                                enq, rk, rver, first, pk >>

wRet(self) == /\ pc[self] = "wRet"
              /\ TRUE
              /\ pc' = [pc EXCEPT ![self] = "wBody"]
              /\ UNCHANGED << plan, rplan, rmode, pplan, lock, writeTxn, 
                              writeEvent, waiters, evSet, nextEv, versions, 
                              published, readerVer, maxv, admitOrder, arrivals, 
                              committed, everVersions, k, myEv, enq, ver, snap, 
                              rk, rver, first, pk >>

wBody(self) == /\ pc[self] = "wBody"
               /\ IF plan[self][k[self]] = "commit"
                     THEN /\ snap' = [snap EXCEPT ![self] = Append(snap[self], Tag(self, k[self]))]
                     ELSE /\ TRUE
                          /\ snap' = snap
               /\ pc' = [pc EXCEPT ![self] = "eAcq"]
               /\ UNCHANGED << plan, rplan, rmode, pplan, lock, writeTxn, 
                               writeEvent, waiters, evSet, nextEv, versions, 
                               published, readerVer, maxv, admitOrder, 
                               arrivals, committed, everVersions, k, myEv, enq, 
                               ver, rk, rver, first, pk >>

eAcq(self) == /\ pc[self] = "eAcq"
              /\ lock = 0
              /\ lock' = self
              /\ IF plan[self][k[self]] = "commit"
                    THEN /\ pc' = [pc EXCEPT ![self] = "cAppend"]
                    ELSE /\ pc' = [pc EXCEPT ![self] = "xClear"]
              /\ UNCHANGED << plan, rplan, rmode, pplan, writeTxn, writeEvent, 
                              waiters, evSet, nextEv, versions, published, 
                              readerVer, maxv, admitOrder, arrivals, committed, 
                              everVersions, k, myEv, enq, ver, snap, rk, rver, 
                              first, pk >>

cAppend(self) == /\ pc[self] = "cAppend"
                 /\ versions' = Append(versions, [id |-> ver[self], content |-> snap[self]])
                 /\ everVersions' = (everVersions \cup {[id |-> ver[self], content |-> snap[self]]})
                 /\ pc' = [pc EXCEPT ![self] = "cPrune"]
                 /\ UNCHANGED << plan, rplan, rmode, pplan, lock, writeTxn, 
                                 writeEvent, waiters, evSet, nextEv, published, 
                                 readerVer, maxv, admitOrder, arrivals, 
                                 committed, k, myEv, enq, ver, snap, rk, rver, 
                                 first, pk >>

cPrune(self) == /\ pc[self] = "cPrune"
                /\ versions' = Prune(versions, readerVer, maxv)
                /\ pc' = [pc EXCEPT ![self] = "cPublish"]
                /\ UNCHANGED << plan, rplan, rmode, pplan, lock, writeTxn, 
                                writeEvent, waiters, evSet, nextEv, published, 
                                readerVer, maxv, admitOrder, arrivals, 
                                committed, everVersions, k, myEv, enq, ver, 
                                snap, rk, rver, first, pk >>

cPublish(self) == /\ pc[self] = "cPublish"
                  /\ published' = snap[self]
                  /\ committed' = (committed \cup {Tag(self, k[self])})
                  /\ pc' = [pc EXCEPT ![self] = "xClear"]
                  /\ UNCHANGED << plan, rplan, rmode, pplan, lock, writeTxn, 
                                  writeEvent, waiters, evSet, nextEv, versions, 
                                  readerVer, maxv, admitOrder, arrivals, 
                                  everVersions, k, myEv, enq, ver, snap, rk, 
                                  rver, first, pk >>

xClear(self) == /\ pc[self] = "xClear"
                /\ writeTxn' = 0
                /\ pc' = [pc EXCEPT ![self] = "xTest"]
                /\ UNCHANGED << plan, rplan, rmode, pplan, lock, writeEvent, 
                                waiters, evSet, nextEv, versions, published, 
                                readerVer, maxv, admitOrder, arrivals, 
                                committed, everVersions, k, myEv, enq, ver, 
                                snap, rk, rver, first, pk >>

xTest(self) == /\ pc[self] = "xTest"
               /\ IF waiters # <<>>
                     THEN /\ pc' = [pc EXCEPT ![self] = "xPop"]
                     ELSE /\ pc' = [pc EXCEPT ![self] = "eRel"]
               /\ UNCHANGED << plan, rplan, rmode, pplan, lock, writeTxn, 
                               writeEvent, waiters, evSet, nextEv, versions, 
                               published, readerVer, maxv, admitOrder, 
                               arrivals, committed, everVersions, k, myEv, enq, 
                               ver, snap, rk, rver, first, pk >>

xPop(self) == /\ pc[self] = "xPop"
              /\ writeEvent' = Head(waiters)
              /\ waiters' = Tail(waiters)
              /\ pc' = [pc EXCEPT ![self] = "xSet"]
              /\ UNCHANGED << plan, rplan, rmode, pplan, lock, writeTxn, evSet, 
                              nextEv, versions, published, readerVer, maxv, 
                              admitOrder, arrivals, committed, everVersions, k, 
                              myEv, enq, ver, snap, rk, rver, first, pk >>

xSet(self) == /\ pc[self] = "xSet"
              /\ evSet' = (evSet \cup {writeEvent})
              /\ pc' = [pc EXCEPT ![self] = "eRel"]
              /\ UNCHANGED << plan, rplan, rmode, pplan, lock, writeTxn, 
                              writeEvent, waiters, nextEv, versions, published, 
                              readerVer, maxv, admitOrder, arrivals, committed, 
                              everVersions, k, myEv, enq, ver, snap, rk, rver, 
                              first, pk >>

eRel(self) == /\ pc[self] = "eRel"
              /\ lock' = 0
              /\ pc' = [pc EXCEPT ![self] = "eEnd"]
              /\ UNCHANGED << plan, rplan, rmode, pplan, writeTxn, writeEvent, 
                              waiters, evSet, nextEv, versions, published, 
                              readerVer, maxv, admitOrder, arrivals, committed, 
                              everVersions, k, myEv, enq, ver, snap, rk, rver, 
                              first, pk >>

eEnd(self) == /\ pc[self] = "eEnd"
              /\ TRUE
              /\ pc' = [pc EXCEPT ![self] = "wStart"]
              /\ UNCHANGED << plan, rplan, rmode, pplan, lock, writeTxn, 
                              writeEvent, waiters, evSet, nextEv, versions, 
                              published, readerVer, maxv, admitOrder, arrivals, 
                              committed, everVersions, k, myEv, enq, ver, snap, 
                              rk, rver, first, pk >>

w(self) == wStart(self) \/ wAcq(self) \/ wTest(self) \/ wRelA(self)
              \/ wNewEv(self) \/ wEnq(self) \/ wRelW(self) \/ wWait(self)
              \/ wSetup(self) \/ wRet(self) \/ wBody(self) \/ eAcq(self)
              \/ cAppend(self) \/ cPrune(self) \/ cPublish(self)
              \/ xClear(self) \/ xTest(self) \/ xPop(self) \/ xSet(self)
              \/ eRel(self) \/ eEnd(self)

rStart(self) == /\ pc[self] = "rStart"
                /\ IF rk[self] < rplan[self]
                      THEN /\ rk' = [rk EXCEPT ![self] = rk[self] + 1]
                           /\ pc' = [pc EXCEPT ![self] = "rAcq"]
                      ELSE /\ pc' = [pc EXCEPT ![self] = "Done"]
                           /\ rk' = rk
                /\ UNCHANGED << plan, rplan, rmode, pplan, lock, writeTxn, 
                                writeEvent, waiters, evSet, nextEv, versions, 
                                published, readerVer, maxv, admitOrder, 
                                arrivals, committed, everVersions, k, myEv, 
                                enq, ver, snap, rver, first, pk >>

rAcq(self) == /\ pc[self] = "rAcq"
              /\ lock = 0
              /\ lock' = self
              /\ pc' = [pc EXCEPT ![self] = "rPick"]
              /\ UNCHANGED << plan, rplan, rmode, pplan, writeTxn, writeEvent, 
                              waiters, evSet, nextEv, versions, published, 
                              readerVer, maxv, admitOrder, arrivals, committed, 
                              everVersions, k, myEv, enq, ver, snap, rk, rver, 
                              first, pk >>

rPick(self) == /\ pc[self] = "rPick"
               /\ IF Target(rmode[self], first[self]) # 0
                     THEN /\ IF \E i \in 1..Len(versions) : versions[i].id = Target(rmode[self], first[self])
                                THEN /\ rver' = [rver EXCEPT ![self] = versions[CHOOSE i \in 1..Len(versions) : versions[i].id = Target(rmode[self], first[self])]]
                                     /\ readerVer' = [readerVer EXCEPT ![self] = Target(rmode[self], first[self])]
                                ELSE /\ rver' = [rver EXCEPT ![self] = [id |-> 0, content |-> <<>>]]
                                     /\ UNCHANGED readerVer
                     ELSE /\ rver' = [rver EXCEPT ![self] = Last(versions)]
                          /\ readerVer' = [readerVer EXCEPT ![self] = Last(versions).id]
               /\ pc' = [pc EXCEPT ![self] = "rRel"]
               /\ UNCHANGED << plan, rplan, rmode, pplan, lock, writeTxn, 
                               writeEvent, waiters, evSet, nextEv, versions, 
                               published, maxv, admitOrder, arrivals, 
                               committed, everVersions, k, myEv, enq, ver, 
                               snap, rk, first, pk >>

rRel(self) == /\ pc[self] = "rRel"
              /\ lock' = 0
              /\ pc' = [pc EXCEPT ![self] = "rOpen"]
              /\ UNCHANGED << plan, rplan, rmode, pplan, writeTxn, writeEvent, 
                              waiters, evSet, nextEv, versions, published, 
                              readerVer, maxv, admitOrder, arrivals, committed, 
                              everVersions, k, myEv, enq, ver, snap, rk, rver, 
                              first, pk >>

rOpen(self) == /\ pc[self] = "rOpen"
               /\ IF rver[self].id = 0
                     THEN /\ pc' = [pc EXCEPT ![self] = "rStart"]
                          /\ first' = first
                     ELSE /\ IF first[self] = 0
                                THEN /\ first' = [first EXCEPT ![self] = rver[self].id]
                                ELSE /\ TRUE
                                     /\ first' = first
                          /\ pc' = [pc EXCEPT ![self] = "rRead"]
               /\ UNCHANGED << plan, rplan, rmode, pplan, lock, writeTxn, 
                               writeEvent, waiters, evSet, nextEv, versions, 
                               published, readerVer, maxv, admitOrder, 
                               arrivals, committed, everVersions, k, myEv, enq, 
                               ver, snap, rk, rver, pk >>

rRead(self) == /\ pc[self] = "rRead"
               /\ TRUE
               /\ pc' = [pc EXCEPT ![self] = "rcAcq"]
               /\ UNCHANGED << plan, rplan, rmode, pplan, lock, writeTxn, 
                               writeEvent, waiters, evSet, nextEv, versions, 
                               published, readerVer, maxv, admitOrder, 
                               arrivals, committed, everVersions, k, myEv, enq, 
                               ver, snap, rk, rver, first, pk >>

rcAcq(self) == /\ pc[self] = "rcAcq"
               /\ lock = 0
               /\ lock' = self
               /\ pc' = [pc EXCEPT ![self] = "rcEnd"]
               /\ UNCHANGED << plan, rplan, rmode, pplan, writeTxn, writeEvent, 
                               waiters, evSet, nextEv, versions, published, 
                               readerVer, maxv, admitOrder, arrivals, 
                               committed, everVersions, k, myEv, enq, ver, 
                               snap, rk, rver, first, pk >>

rcEnd(self) == /\ pc[self] = "rcEnd"
               /\ readerVer' = [readerVer EXCEPT ![self] = 0]
               /\ pc' = [pc EXCEPT ![self] = "rcPrune"]
               /\ UNCHANGED << plan, rplan, rmode, pplan, lock, writeTxn, 
                               writeEvent, waiters, evSet, nextEv, versions, 
                               published, maxv, admitOrder, arrivals, 
                               committed, everVersions, k, myEv, enq, ver, 
                               snap, rk, rver, first, pk >>

rcPrune(self) == /\ pc[self] = "rcPrune"
                 /\ versions' = Prune(versions, readerVer, maxv)
                 /\ pc' = [pc EXCEPT ![self] = "rcRel"]
                 /\ UNCHANGED << plan, rplan, rmode, pplan, lock, writeTxn, 
                                 writeEvent, waiters, evSet, nextEv, published, 
                                 readerVer, maxv, admitOrder, arrivals, 
                                 committed, everVersions, k, myEv, enq, ver, 
                                 snap, rk, rver, first, pk >>

rcRel(self) == /\ pc[self] = "rcRel"
               /\ lock' = 0
               /\ pc' = [pc EXCEPT ![self] = "rEnd"]
               /\ UNCHANGED << plan, rplan, rmode, pplan, writeTxn, writeEvent, 
                               waiters, evSet, nextEv, versions, published, 
                               readerVer, maxv, admitOrder, arrivals, 
                               committed, everVersions, k, myEv, enq, ver, 
                               snap, rk, rver, first, pk >>

rEnd(self) == /\ pc[self] = "rEnd"
              /\ TRUE
              /\ pc' = [pc EXCEPT ![self] = "rStart"]
              /\ UNCHANGED << plan, rplan, rmode, pplan, lock, writeTxn, 
                              writeEvent, waiters, evSet, nextEv, versions, 
                              published, readerVer, maxv, admitOrder, arrivals, 
                              committed, everVersions, k, myEv, enq, ver, snap, 
                              rk, rver, first, pk >>

r(self) == rStart(self) \/ rAcq(self) \/ rPick(self) \/ rRel(self)
              \/ rOpen(self) \/ rRead(self) \/ rcAcq(self) \/ rcEnd(self)
              \/ rcPrune(self) \/ rcRel(self) \/ rEnd(self)

pStart(self) == /\ pc[self] = "pStart"
                /\ IF pk[self] < Len(pplan[self])
                      THEN /\ pk' = [pk EXCEPT ![self] = pk[self] + 1]
                           /\ pc' = [pc EXCEPT ![self] = "pAcq"]
                      ELSE /\ pc' = [pc EXCEPT ![self] = "Done"]
                           /\ pk' = pk
                /\ UNCHANGED << plan, rplan, rmode, pplan, lock, writeTxn, 
                                writeEvent, waiters, evSet, nextEv, versions, 
                                published, readerVer, maxv, admitOrder, 
                                arrivals, committed, everVersions, k, myEv, 
                                enq, ver, snap, rk, rver, first >>

pAcq(self) == /\ pc[self] = "pAcq"
              /\ lock = 0
              /\ lock' = self
              /\ pc' = [pc EXCEPT ![self] = "pSet"]
              /\ UNCHANGED << plan, rplan, rmode, pplan, writeTxn, writeEvent, 
                              waiters, evSet, nextEv, versions, published, 
                              readerVer, maxv, admitOrder, arrivals, committed, 
                              everVersions, k, myEv, enq, ver, snap, rk, rver, 
                              first, pk >>

pSet(self) == /\ pc[self] = "pSet"
              /\ maxv' = pplan[self][pk[self]]
              /\ pc' = [pc EXCEPT ![self] = "pPrune"]
              /\ UNCHANGED << plan, rplan, rmode, pplan, lock, writeTxn, 
                              writeEvent, waiters, evSet, nextEv, versions, 
                              published, readerVer, admitOrder, arrivals, 
                              committed, everVersions, k, myEv, enq, ver, snap, 
                              rk, rver, first, pk >>

pPrune(self) == /\ pc[self] = "pPrune"
                /\ versions' = Prune(versions, readerVer, maxv)
                /\ pc' = [pc EXCEPT ![self] = "pRel"]
                /\ UNCHANGED << plan, rplan, rmode, pplan, lock, writeTxn, 
                                writeEvent, waiters, evSet, nextEv, published, 
                                readerVer, maxv, admitOrder, arrivals, 
                                committed, everVersions, k, myEv, enq, ver, 
                                snap, rk, rver, first, pk >>

pRel(self) == /\ pc[self] = "pRel"
              /\ lock' = 0
              /\ pc' = [pc EXCEPT ![self] = "pEnd"]
              /\ UNCHANGED << plan, rplan, rmode, pplan, writeTxn, writeEvent, 
                              waiters, evSet, nextEv, versions, published, 
                              readerVer, maxv, admitOrder, arrivals, committed, 
                              everVersions, k, myEv, enq, ver, snap, rk, rver, 
                              first, pk >>

pEnd(self) == /\ pc[self] = "pEnd"
              /\ TRUE
              /\ pc' = [pc EXCEPT ![self] = "pStart"]
              /\ UNCHANGED << plan, rplan, rmode, pplan, lock, writeTxn, 
                              writeEvent, waiters, evSet, nextEv, versions, 
                              published, readerVer, maxv, admitOrder, arrivals, 
                              committed, everVersions, k, myEv, enq, ver, snap, 
                              rk, rver, first, pk >>

pol(self) == pStart(self) \/ pAcq(self) \/ pSet(self) \/ pPrune(self)
                \/ pRel(self) \/ pEnd(self)

(* Allow infinite stuttering to prevent deadlock on termination. *)
Terminating == /\ \A self \in ProcSet: pc[self] = "Done"
               /\ UNCHANGED vars

Next == (\E self \in Writers: w(self))
           \/ (\E self \in Readers: r(self))
           \/ (\E self \in Policers: pol(self))
           \/ Terminating

Spec == /\ Init /\ [][Next]_vars
        /\ \A self \in Writers : WF_vars(w(self))
        /\ \A self \in Readers : WF_vars(r(self))
        /\ \A self \in Policers : WF_vars(pol(self))

Termination == <>(\A self \in ProcSet: pc[self] = "Done")

\* END TRANSLATION

-----------------------------------------------------------------------------
Threads == Writers \cup Readers \cup Policers
Hows == {"commit", "rollback", "empty"}

\* labels at which the thread holds (must hold) the lock
CSLabels == {"wTest", "wRelA", "wNewEv", "wEnq", "wRelW", "cAppend", "cPrune", "cPublish",
             "xClear", "xTest", "xPop", "xSet", "eRel", "rPick", "rRel", "rcEnd", "rcPrune", "rcRel",
             "pSet", "pPrune", "pRel"}
\* labels between admission and the end of the write (write transaction open)
OpenLabels == {"wRelA", "wSetup", "wRet", "wBody", "eAcq", "cAppend", "cPrune", "cPublish", "xClear"}
\* labels at which a writer has asked for a transaction and has not been admitted yet
WaitingLabels == {"wAcq", "wTest", "wNewEv", "wEnq", "wRelW", "wWait"}

IsPrefix(a, b) == Len(a) <= Len(b) /\ \A i \in 1..Len(a) : a[i] = b[i]
Ids(vs) == [i \in 1..Len(vs) |-> vs[i].id]

TypeOK ==
    /\ lock \in Threads \cup {0} /\ writeTxn \in Writers \cup {0}
    /\ writeEvent \in 0..nextEv /\ evSet \subseteq 1..nextEv
    /\ \A i \in 1..Len(waiters) : waiters[i] \in 1..nextEv
    /\ Len(versions) >= 1
    /\ \A t \in Writers : myEv[t] \in 0..nextEv

\* at most one write transaction is open, and it is the one the zone knows
MutualExclusion ==
    /\ Cardinality({t \in Writers : pc[t] \in OpenLabels}) <= 1
    /\ \A t \in Writers : pc[t] \in OpenLabels => writeTxn = t
    /\ writeTxn # 0 => pc[writeTxn] \in OpenLabels

\* admission order = order of first enqueue (idle admission counts as enqueue + admission)
FIFO == IsPrefix(admitOrder, arrivals)

\* an admission step is taken either when nobody waits and nobody holds the right, or by
\* the thread that holds the right
AdmissionStep(t) == pc[t] = "wTest" /\ pc'[t] = "wRelA"
NoCuts == [][\A t \in Writers : AdmissionStep(t) =>
                \/ (writeEvent = 0 /\ waiters = <<>> /\ myEv[t] = 0)
                \/ (myEv[t] # 0 /\ myEv[t] = writeEvent)]_vars

\* the lock is held exactly inside the short critical sections: never across a wait,
\* never across user code, never across the deferred version setup
LockDiscipline ==
    /\ lock # 0 => pc[lock] \in CSLabels
    /\ \A t \in Threads : pc[t] \in CSLabels => lock = t

\* every queued event belongs to exactly one thread that is (about to be) waiting for it;
\* the right is held by a waiter that has been woken; nobody is forgotten
QueueWellFormed ==
    /\ \A i, j \in 1..Len(waiters) : i # j => waiters[i] # waiters[j]
    /\ \A i \in 1..Len(waiters) : waiters[i] \notin evSet /\ waiters[i] # writeEvent
                                  /\ \E t \in Writers : myEv[t] = waiters[i] /\ pc[t] \in {"wRelW", "wWait"}
    /\ writeEvent # 0 => /\ (lock = 0 => writeEvent \in evSet)
                         /\ \E t \in Writers : myEv[t] = writeEvent /\ pc[t] \in {"wRelW", "wWait", "wAcq", "wTest"}
NoLostWakeup ==
    (lock = 0 /\ writeTxn = 0 /\ writeEvent = 0) => waiters = <<>>
\* a woken writer is admitted at its next test (it never has to queue twice)
OneEventPerCall == \A t \in Writers : pc[t] = "wNewEv" => myEv[t] = 0

\* retention is exact whenever nobody is inside a critical section: the oldest retained
\* version is pinned, or is the newest, or the policy keeps it
RetentionExact ==
    lock = 0 => \/ versions[1].id >= LeastKept(versions, readerVer)
                \/ maxv = 0 \/ Len(versions) <= maxv
VersionsOrdered == \A i \in 1..Len(versions) - 1 : versions[i].id < versions[i + 1].id

Serial(S) == SelectSeq(admitOrder, LAMBDA x : x \in S)
\* the newest version (and the published map) is the serial application, in admission
\* order, of the committed transactions
SerialEquivalence ==
    lock = 0 => /\ Last(versions).content = Serial(committed)
                /\ published = Serial(committed)
\* every version ever committed is a prefix of the serial history
AppendedTags == UNION {{v.content[i] : i \in 1..Len(v.content)} : v \in everVersions}
VersionsArePrefixes == \A v \in everVersions : IsPrefix(v.content, Serial(AppendedTags))

\* readers hold a committed version, and it stays retained while they hold it
ReadersSeeCommitted ==
    \A t \in Readers : (pc[t] \in {"rRel", "rOpen", "rRead", "rcAcq", "rcEnd"} /\ rver[t].id # 0) =>
        /\ rver[t] \in everVersions
        /\ readerVer[t] = rver[t].id
        /\ \E i \in 1..Len(versions) : versions[i] = rver[t]
\* every version pinned by an open reader is retained - at every instant, also in the middle
\* of critical sections (a reader opened by id on a version that is being pruned would break it)
PinnedRetained == \A t \in Readers : readerVer[t] # 0 => \E i \in 1..Len(versions) : versions[i].id = readerVer[t]
\* the published map is always a committed content (a direct lock-free read never sees a
\* partial transaction)
PublishedIsCommitted == \E v \in everVersions : v.content = published

\* liveness (under the fairness of Spec; every admitted writer ends because its process is fair)
WaitingLeadsToAdmitted == \A t \in Writers : (pc[t] \in WaitingLabels) ~> (pc[t] = "wRet")
LockAlwaysReleased == \A t \in Threads : (lock = t) ~> (lock = 0)
\* a reader that asks for the lock gets it although a write transaction stays open
ReaderNotBlocked == \A t \in Readers : (pc[t] = "rAcq") ~> (pc[t] = "rOpen")
=============================================================================
