--------------------------- MODULE ResolutionEnv ---------------------------
(* Universe of environment choices shared by MC_Resolution, Gen_Resolution and
   MC_Chaining: builders for abstract responses and named sets of outcomes.
   Pure definitions, no variables. *)
EXTENDS Integers, Sequences, FiniteSets, TLC

RR(n, ty, ttl, tgt) == [n |-> n, ty |-> ty, ttl |-> ttl, tgt |-> tgt]
SOA(n, ttl, min) == [n |-> n, ttl |-> ttl, min |-> min]
Msg(rcode, ans, auth) == [k |-> "msg", x |-> "-", rcode |-> rcode, qr |-> TRUE, nq |-> 1, ans |-> ans, auth |-> auth]
Exc(x) == [k |-> "exc", x |-> x, rcode |-> "-", qr |-> TRUE, nq |-> 1, ans |-> <<>>, auth |-> <<>>]

CN(i) == <<"c" \o ToString(i), "t", "">>        \* i-th name of a CNAME chain
Other == <<"zz", "t", "">>
RootName == <<"">>
ParentOf(n) == IF Len(n) > 1 THEN Tail(n) ELSE n

(* n CNAME links starting at q: q -> c1 -> ... -> cn, link i has TTL ttl[i] (cyclic over ttls) *)
Owner(q, i) == IF i = 0 THEN q ELSE CN(i)
Links(q, n, ttls) == [i \in 1..n |-> RR(Owner(q, i - 1), "CNAME", ttls[((i - 1) % Len(ttls)) + 1], Owner(q, i))]
Chain(q, qt, n, ttls, fttl) == Links(q, n, ttls) \o <<RR(Owner(q, n), qt, fttl, <<>>)>>
(* the same with the answer RRset first (section order must not matter) *)
ChainRev(q, qt, n, ttls, fttl) == <<RR(Owner(q, n), qt, fttl, <<>>)>> \o Links(q, n, ttls)
(* chain whose last link points back to q *)
Loop(q, n, ttls) == [i \in 1..n |-> IF i = n THEN RR(Owner(q, i - 1), "CNAME", ttls[1], q) ELSE Links(q, n, ttls)[i]]
(* chain with a gap: the answer sits at a name the chain does not reach *)
Gap(q, qt, n, ttls, fttl) == Links(q, n, ttls) \o <<RR(Other, qt, fttl, <<>>)>>

ExcAll == {Exc("Timeout"), Exc("FormError"), Exc("EOF"), Exc("OSError"), Exc("NotImpl"), Exc("Truncated"), Exc("Other")}
ExcCore == {Exc("Timeout"), Exc("FormError"), Exc("Truncated")}
RcodeFail == {Msg("SERVFAIL", <<>>, <<>>), Msg("REFUSED", <<>>, <<>>), Msg("NOTIMP", <<>>, <<>>)}
Yx == {Msg("YXDOMAIN", <<>>, <<>>)}

(* positive answers for (q, qt) *)
PosSmall(q, qt) == {Msg("NOERROR", Chain(q, qt, 0, <<5>>, 5), <<>>), Msg("NOERROR", Chain(q, qt, 1, <<1>>, 5), <<>>)}
PosFull(q, qt) ==
    {Msg("NOERROR", Chain(q, qt, n, tt, f), <<>>) : n \in 0..2, tt \in {<<5, 1>>, <<300, 5>>}, f \in {0, 1, 300}}
    \cup {Msg("NOERROR", ChainRev(q, qt, 2, <<1, 5>>, 300), <<>>),
          Msg("NOERROR", Chain(q, qt, 15, <<300, 5, 7>>, 300), <<>>)}

(* empty answers (NOERROR) with the possible authority sections *)
Auths(q) == {<<>>, <<SOA(ParentOf(q), 5, 1)>>, <<SOA(ParentOf(q), 1, 5)>>, <<SOA(q, 5, 300)>>,
             (IF ParentOf(q) = RootName THEN <<SOA(RootName, 300, 5)>> ELSE <<SOA(RootName, 300, 5), SOA(ParentOf(q), 1, 300)>>),
             <<SOA(Other, 1, 1)>>}
NoDataSmall(q, qt) == {Msg("NOERROR", <<>>, <<SOA(ParentOf(q), 5, 1)>>)}
NoDataFull(q, qt) ==
    {Msg("NOERROR", <<>>, a) : a \in Auths(q)}
    \cup {Msg("NOERROR", Links(q, 1, <<300>>), <<SOA(ParentOf(CN(1)), 5, 5)>>),      \* CNAME to a name without data
          Msg("NOERROR", Links(q, 2, <<1, 300>>), <<>>),
          Msg("NOERROR", Gap(q, qt, 1, <<5>>, 1), <<SOA(RootName, 300, 300)>>),
          Msg("NOERROR", <<RR(Other, qt, 5, <<>>)>>, <<>>)}                           \* irrelevant answer only

NxSmall(q, qt) == {Msg("NXDOMAIN", <<>>, <<SOA(ParentOf(q), 5, 1)>>)}
NxFull(q, qt) ==
    {Msg("NXDOMAIN", <<>>, a) : a \in {<<>>, <<SOA(ParentOf(q), 5, 1)>>, <<SOA(RootName, 300, 0)>>}}
    \cup {Msg("NXDOMAIN", Links(q, 1, <<1>>), <<SOA(ParentOf(CN(1)), 300, 300)>>)}   \* CNAME to a non-existent name

(* replies a resolver must refuse to use *)
BadSmall(q, qt) == {Msg("NXDOMAIN", Chain(q, qt, 0, <<5>>, 5), <<>>)}
BadFull(q, qt) ==
    {Msg("NXDOMAIN", Chain(q, qt, 0, <<5>>, 5), <<>>),                                \* NXDOMAIN with an answer
     Msg("NXDOMAIN", Chain(q, qt, 1, <<5>>, 5), <<>>),
     Msg("NOERROR", Loop(q, 2, <<5>>), <<>>),                                         \* CNAME loop
     Msg("NOERROR", Loop(q, 1, <<5>>), <<>>),
     Msg("NOERROR", Chain(q, qt, 16, <<5>>, 5), <<>>),                                \* too long
     Msg("NOERROR", Links(q, 17, <<5>>), <<>>),
     [Msg("NOERROR", Chain(q, qt, 0, <<5>>, 5), <<>>) EXCEPT !.qr = FALSE],           \* not a response
     [Msg("NOERROR", Chain(q, qt, 0, <<5>>, 5), <<>>) EXCEPT !.nq = 0],               \* no question
     [Msg("NXDOMAIN", <<>>, <<>>) EXCEPT !.nq = 2]}

OutSmall(q, qt) == ExcCore \cup {Msg("SERVFAIL", <<>>, <<>>)} \cup Yx \cup PosSmall(q, qt) \cup NoDataSmall(q, qt)
                   \cup NxSmall(q, qt) \cup BadSmall(q, qt)
OutFull(q, qt) == ExcAll \cup RcodeFail \cup Yx \cup PosFull(q, qt) \cup NoDataFull(q, qt) \cup NxFull(q, qt) \cup BadFull(q, qt)
(* only replies that keep the resolution going or move it to the next candidate *)
OutFailing(q, qt) == ExcAll \cup RcodeFail \cup NxSmall(q, qt) \cup BadFull(q, qt)

(* clock advances: none, one tick, the whole timeout, past the lifetime, set back by 1/2 s and by 2.5 s *)
AdvSmall(t, l) == {0, t}
AdvMid(t, l) == {0, 1, t, l + 1}
AdvFull(t, l) == {0, 1, t, l + 1, -8, -40}
=============================================================================
