---------------------------- MODULE MC_Chaining ----------------------------
(* Universe of responses for Chaining: every answer section of up to MaxLen RRsets over
   three names (CNAMEs between any two of them, self-loops included, and address records),
   with distinct TTLs so that a wrong minimum shows, x authority sections x rcode x query
   type; plus structurally built chains of 14..17 links, and the named reply sets used by
   the resolution model.  TLC checks the laws of Chaining on every element; the same
   module (with Emit) prints the universe for the driver. *)
EXTENDS Chaining, ResolutionEnv, Json

CONSTANT MaxLen
VARIABLE m          \* [msg, q, qt]

Q == <<"www", "s1", "">>
N3 == <<Q, CN(1), CN(2)>>
RRU == {RR(N3[i], "CNAME", 2 + i + 3 * j, N3[j]) : i \in 1..3, j \in 1..3} \cup {RR(N3[i], "A", 20 + i, <<>>) : i \in 1..3}
Distinct(s) == \A i \in 1..Len(s) : \A j \in 1..Len(s) : i < j => <<s[i].n, s[i].ty>> # <<s[j].n, s[j].ty>>
AnsU == {s \in UNION {[1..k -> RRU] : k \in 0..MaxLen} : Distinct(s)}
AuthU == {<<>>, <<SOA(RootName, 1, 30)>>, <<SOA(RootName, 30, 1)>>, <<SOA(<<"t", "">>, 2, 3), SOA(RootName, 1, 1)>>,
          <<SOA(Q, 40, 50), SOA(<<"s1", "">>, 1, 1)>>}
Small == {[msg |-> Msg(rc, a, au), q |-> Q, qt |-> qt] : rc \in {"NOERROR", "NXDOMAIN"}, a \in AnsU, au \in AuthU, qt \in {"A", "CNAME"}}
Long == {[msg |-> Msg("NOERROR", Chain(Q, "A", n, <<9, 4, 7>>, 5), <<>>), q |-> Q, qt |-> "A"] : n \in 14..17}
        \cup {[msg |-> Msg(rc, Links(Q, n, <<9, 4>>), <<SOA(RootName, 3, 8)>>), q |-> Q, qt |-> "A"] : n \in 14..17, rc \in {"NOERROR", "NXDOMAIN"}}
        \cup {[msg |-> Msg("NOERROR", Loop(Q, n, <<9>>), <<>>), q |-> Q, qt |-> "A"] : n \in {1, 2, 3, 16}}
Named == {[msg |-> o, q |-> Q, qt |-> qt] : o \in (PosFull(Q, "A") \cup NoDataFull(Q, "A") \cup NxFull(Q, "A") \cup BadFull(Q, "A")), qt \in {"A", "CNAME"}}
Universe == Small \cup Long \cup Named

Init == m \in Universe
Next == UNCHANGED m
Laws == LawsFor(m.msg, m.q, m.qt)
Emit == PrintT("BEH " \o ToJson(m))
=============================================================================
