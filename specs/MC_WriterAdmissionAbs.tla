------------------------ MODULE MC_WriterAdmissionAbs ------------------------
(* X04 - TLC on the abstraction itself (writers loop forever: the state space is finite only
   under the bound on the number of events created). *)
EXTENDS WriterAdmissionAbs
CONSTANT MaxEv
Bound == nextEv <= MaxEv
=============================================================================
