----------------------------- MODULE RdataCodec -----------------------------
(* C02 - generic RDATA wire codec over the schema table RdataSchema (generated from
   specs/schemas.json, which is written from the defining RFCs).

   Octet strings are Seq(0..255).  An abstract RDATA value is a tuple with one entry per
   schema field ("wire-shaped": lists keep their wire order, so ill-formed values such as
   unordered SvcParams or bitmap windows can be written down and encoded; WellFormed
   says which values the RFCs allow).

     Encode(ty, v, origin)                 octets of value v (relative names completed by origin)
     Decode(ty, buf, off, rdlen, origin)   [res, why, v]: parse the rdlen octets at offset
                                           off of the message buf (names may point backwards
                                           into buf), res = "ok" | "free" | "err"
   "err"  : not the encoding of a well-formed value (why = "short": a field does not
            fit / bad label type / bad pointer / bad selector; "trailing": all fields parsed
            but octets of the RDATA are left over; "malformed": ill-formed in a way the RFC
            tells every receiver to refuse; "invalid": WellFormed fails otherwise - a lenient
            decoder may still return a value)
   "free" : parses and is well-formed, but the table does not decide whether an
            implementation accepts it (MayReject; "implementation may reject more")
   "ok"   : every conforming implementation must accept and obtain v.                      *)
EXTENDS Integers, Sequences, FiniteSets, TLC, RdataSchema

Byte == 0..255
Rep(x, n) == [i \in 1..n |-> x]
Last(s) == s[Len(s)]
U16(n) == <<n \div 256, n % 256>>
U16At(buf, p) == buf[p] * 256 + buf[p + 1]
Lower(b) == IF b >= 65 /\ b <= 90 THEN b + 32 ELSE b
LowerSeq(s) == [i \in 1..Len(s) |-> Lower(s[i])]

RECURSIVE Cat(_)
Cat(ss) == IF ss = <<>> THEN <<>> ELSE Head(ss) \o Cat(Tail(ss))

(* ------------------------------------------------------------------ names *)
Nm(abs, labels) == [abs |-> abs, labels |-> labels]
RootName == Nm(TRUE, <<>>)
NoOrigin == Nm(FALSE, <<>>)          \* "no origin given"

RECURSIVE LabelsWire(_)
LabelsWire(ls) == IF ls = <<>> THEN <<>> ELSE <<Len(Head(ls))>> \o Head(ls) \o LabelsWire(Tail(ls))
RECURSIVE LabelsLen(_)
LabelsLen(ls) == IF ls = <<>> THEN 0 ELSE 1 + Len(Head(ls)) + LabelsLen(Tail(ls))

\* a relative name can only be encoded when an origin is given
Encodable(nm, origin) == nm.abs \/ origin.abs
AbsLabels(nm, origin) == IF nm.abs THEN nm.labels ELSE nm.labels \o origin.labels
EncName(nm, origin) == LabelsWire(AbsLabels(nm, origin)) \o <<0>>
NameOK(nm) == /\ \A i \in 1..Len(nm.labels) : Len(nm.labels[i]) \in 1..63
              /\ LabelsLen(nm.labels) + (IF nm.abs THEN 1 ELSE 0) <= 255

\* relativisation done by a decoder that was given an origin: a name at or below the
\* origin (labels compared ASCII-case-insensitively) loses the origin's labels
Relativize(labels, origin) ==
    LET n == Len(labels)  m == Len(origin.labels) IN
    IF origin.abs /\ n >= m /\ (\A j \in 1..m : LowerSeq(labels[n - m + j]) = LowerSeq(origin.labels[j]))
    THEN Nm(FALSE, SubSeq(labels, 1, n - m))
    ELSE Nm(TRUE, labels)

DFail == [ok |-> FALSE, v |-> 0, p |-> 0, c |-> FALSE]
GotC(v, p, c) == [ok |-> TRUE, v |-> v, p |-> p, c |-> c]   \* c: a compression pointer was followed
Got(v, p) == GotC(v, p, FALSE)

(* Name decoding (RFC 1035 4.1.4).  p = index of the next octet (1-based), end = index of
   the last octet the parser may read, big = a pointer must lead strictly before this
   index (start of the name, then the previous target: "a prior occurrence"), next = 0
   until the first pointer was followed, then the index after that pointer, which is where
   the field ends. *)
RECURSIVE NameWalk(_, _, _, _, _, _, _)
NameWalk(buf, p, end, big, labels, len, next) ==
    IF p > end THEN DFail
    ELSE LET c == buf[p] IN
         IF c = 0 THEN (IF len + 1 <= 255 THEN GotC(labels, IF next = 0 THEN p + 1 ELSE next, next # 0) ELSE DFail)
         ELSE IF c < 64 THEN (IF p + c > end THEN DFail
                              ELSE NameWalk(buf, p + 1 + c, end, big, Append(labels, SubSeq(buf, p + 1, p + c)), len + 1 + c, next))
         ELSE IF c >= 192 THEN (IF p + 1 > end THEN DFail
                                ELSE LET tgt == (c - 192) * 256 + buf[p + 1] + 1 IN
                                     IF tgt >= big THEN DFail
                                     ELSE NameWalk(buf, tgt, end, tgt, labels, len, IF next = 0 THEN p + 2 ELSE next))
         ELSE DFail
DecName(buf, p, end, origin) ==
    LET r == NameWalk(buf, p, end, p, <<>>, 0, 0) IN
    IF r.ok THEN GotC(Relativize(r.v, origin), r.p, r.c) ELSE DFail

(* ------------------------------------------------------------------ encoding *)
RECURSIVE EncLp1s(_)
EncLp1s(ss) == IF ss = <<>> THEN <<>> ELSE <<Len(Head(ss))>> \o Head(ss) \o EncLp1s(Tail(ss))
RECURSIVE EncWindows(_)
EncWindows(ws) == IF ws = <<>> THEN <<>> ELSE <<Head(ws)[1], Len(Head(ws)[2])>> \o Head(ws)[2] \o EncWindows(Tail(ws))
RECURSIVE EncNames(_, _)
EncNames(ns, origin) == IF ns = <<>> THEN <<>> ELSE EncName(Head(ns), origin) \o EncNames(Tail(ns), origin)
RECURSIVE EncApl(_)
EncApl(its) == IF its = <<>> THEN <<>>
               ELSE LET it == Head(its) IN U16(it[1]) \o <<it[2], it[3] * 128 + Len(it[4])>> \o it[4] \o EncApl(Tail(its))
RECURSIVE EncTlvs(_)
EncTlvs(its) == IF its = <<>> THEN <<>>
                ELSE LET it == Head(its) IN U16(it[1]) \o U16(Len(it[2])) \o it[2] \o EncTlvs(Tail(its))
EncGateway(g, origin) == IF g[1] = "none" THEN <<>> ELSE IF g[1] = "name" THEN EncName(g[2], origin) ELSE g[2]

EncField(f, x, origin) ==
    CASE f.k = "u8"     -> <<x>>
      [] f.k = "u16"    -> U16(x)
      [] f.k = "fixed"  -> x
      [] f.k = "name"   -> EncName(x, origin)
      [] f.k = "lp1"    -> <<Len(x)>> \o x
      [] f.k = "lp2"    -> U16(Len(x)) \o x
      [] f.k = "lp1s"   -> EncLp1s(x)
      [] f.k = "lp1opt" -> IF x = <<>> THEN <<>> ELSE <<Len(x)>> \o x
      [] f.k = "rest"   -> x
      [] f.k = "bitmap" -> EncWindows(x)
      [] f.k = "gateway" -> EncGateway(x, origin)
      [] f.k = "names"  -> EncNames(x, origin)
      [] f.k = "hip"    -> <<Len(x[1]), x[2]>> \o U16(Len(x[3])) \o x[1] \o x[3]
      [] f.k = "apl"    -> EncApl(x)
      [] f.k = "tlvs"   -> EncTlvs(x)

RECURSIVE EncFrom(_, _, _, _)
EncFrom(sch, v, i, origin) == IF i > Len(sch) THEN <<>> ELSE EncField(sch[i], v[i], origin) \o EncFrom(sch, v, i + 1, origin)
Encode(ty, v, origin) == EncFrom(Schema[ty], v, 1, origin)

\* DNSSEC canonical form of the RDATA (RFC 4034 6.2, RFC 6840 5.1, RFC 3597 7): as Encode, with the
\* names of the fields marked l (canon = lower) lower-cased.  Not bound by C02; for C07 / C15.
LowerName(nm) == Nm(nm.abs, [i \in 1..Len(nm.labels) |-> LowerSeq(nm.labels[i])])
CanonField(f, x, origin) ==
    IF ~f.l THEN EncField(f, x, origin)
    ELSE CASE f.k = "name" -> LabelsWire([i \in 1..Len(AbsLabels(x, origin)) |-> LowerSeq(AbsLabels(x, origin)[i])]) \o <<0>>
           [] OTHER -> EncField(f, x, origin)
RECURSIVE CanonFrom(_, _, _, _)
CanonFrom(sch, v, i, origin) == IF i > Len(sch) THEN <<>> ELSE CanonField(sch[i], v[i], origin) \o CanonFrom(sch, v, i + 1, origin)
Canon(ty, v, origin) == CanonFrom(Schema[ty], v, 1, origin)

\* names occurring in a value (for Encodable / relative-name questions)
FieldNames(f, x) ==
    CASE f.k = "name" -> {x}
      [] f.k = "names" -> {x[i] : i \in 1..Len(x)}
      [] f.k = "gateway" -> IF x[1] = "name" THEN {x[2]} ELSE {}
      [] OTHER -> {}
ValueNames(ty, v) == UNION {FieldNames(Schema[ty][i], v[i]) : i \in 1..Len(Schema[ty])}
HasRelative(ty, v) == \E n \in ValueNames(ty, v) : ~n.abs
CanEncode(ty, v, origin) == \A n \in ValueNames(ty, v) : Encodable(n, origin) /\ NameOK(Nm(TRUE, AbsLabels(n, origin)))

(* ------------------------------------------------------------------ decoding *)
RECURSIVE DecLp1s(_, _, _, _)
DecLp1s(buf, p, end, acc) ==
    IF p > end THEN Got(acc, p)
    ELSE IF p + buf[p] > end THEN DFail
    ELSE DecLp1s(buf, p + 1 + buf[p], end, Append(acc, SubSeq(buf, p + 1, p + buf[p])))
RECURSIVE DecWindows(_, _, _, _)
DecWindows(buf, p, end, acc) ==
    IF p > end THEN Got(acc, p)
    ELSE IF p + 1 > end \/ p + 1 + buf[p + 1] > end THEN DFail
    ELSE DecWindows(buf, p + 2 + buf[p + 1], end, Append(acc, <<buf[p], SubSeq(buf, p + 2, p + 1 + buf[p + 1])>>))
RECURSIVE DecNames(_, _, _, _, _, _)
DecNames(buf, p, end, origin, acc, c) ==
    IF p > end THEN GotC(acc, p, c)
    ELSE LET r == DecName(buf, p, end, origin) IN
         IF ~r.ok THEN DFail ELSE DecNames(buf, r.p, end, origin, Append(acc, r.v), c \/ r.c)
RECURSIVE DecApl(_, _, _, _)
DecApl(buf, p, end, acc) ==
    IF p > end THEN Got(acc, p)
    ELSE IF p + 3 > end THEN DFail
    ELSE LET l == buf[p + 3] % 128 IN
         IF p + 3 + l > end THEN DFail
         ELSE DecApl(buf, p + 4 + l, end, Append(acc, <<U16At(buf, p), buf[p + 2], buf[p + 3] \div 128, SubSeq(buf, p + 4, p + 3 + l)>>))
RECURSIVE DecTlvs(_, _, _, _)
DecTlvs(buf, p, end, acc) ==
    IF p > end THEN Got(acc, p)
    ELSE IF p + 3 > end THEN DFail
    ELSE LET l == U16At(buf, p + 2) IN
         IF p + 3 + l > end THEN DFail
         ELSE DecTlvs(buf, p + 4 + l, end, Append(acc, <<U16At(buf, p), SubSeq(buf, p + 4, p + 3 + l)>>))

DecField(f, buf, p, end, origin, vals) ==
    LET rem == end - p + 1 IN
    CASE f.k = "u8"     -> IF rem >= 1 THEN Got(buf[p], p + 1) ELSE DFail
      [] f.k = "u16"    -> IF rem >= 2 THEN Got(U16At(buf, p), p + 2) ELSE DFail
      [] f.k = "fixed"  -> IF rem >= f.n THEN Got(SubSeq(buf, p, p + f.n - 1), p + f.n) ELSE DFail
      [] f.k = "name"   -> DecName(buf, p, end, origin)
      [] f.k = "lp1"    -> IF rem >= 1 /\ rem - 1 >= buf[p] THEN Got(SubSeq(buf, p + 1, p + buf[p]), p + 1 + buf[p]) ELSE DFail
      [] f.k = "lp2"    -> IF rem >= 2 /\ rem - 2 >= U16At(buf, p) THEN Got(SubSeq(buf, p + 2, p + 1 + U16At(buf, p)), p + 2 + U16At(buf, p)) ELSE DFail
      [] f.k = "lp1s"   -> DecLp1s(buf, p, end, <<>>)
      [] f.k = "lp1opt" -> IF rem = 0 THEN Got(<<>>, p)
                           ELSE IF rem - 1 >= buf[p] THEN Got(SubSeq(buf, p + 1, p + buf[p]), p + 1 + buf[p]) ELSE DFail
      [] f.k = "rest"   -> Got(SubSeq(buf, p, end), end + 1)
      [] f.k = "bitmap" -> DecWindows(buf, p, end, <<>>)
      [] f.k = "gateway" ->
            LET g == vals[f.r] % f.m IN
            CASE g = 0 -> Got(<<"none">>, p)
              [] g = 1 -> IF rem >= 4 THEN Got(<<"ipv4", SubSeq(buf, p, p + 3)>>, p + 4) ELSE DFail
              [] g = 2 -> IF rem >= 16 THEN Got(<<"ipv6", SubSeq(buf, p, p + 15)>>, p + 16) ELSE DFail
              [] g = 3 -> LET r == DecName(buf, p, end, origin) IN IF r.ok THEN GotC(<<"name", r.v>>, r.p, r.c) ELSE DFail
              [] OTHER -> DFail
      [] f.k = "names"  -> DecNames(buf, p, end, origin, <<>>, FALSE)
      [] f.k = "hip"    -> IF rem < 4 THEN DFail
                           ELSE LET hl == buf[p]  pl == U16At(buf, p + 2) IN
                                IF rem - 4 < hl + pl THEN DFail
                                ELSE Got(<<SubSeq(buf, p + 4, p + 3 + hl), buf[p + 1], SubSeq(buf, p + 4 + hl, p + 3 + hl + pl)>>, p + 4 + hl + pl)
      [] f.k = "apl"    -> DecApl(buf, p, end, <<>>)
      [] f.k = "tlvs"   -> DecTlvs(buf, p, end, <<>>)

RECURSIVE DecFrom(_, _, _, _, _, _, _, _)
DecFrom(sch, i, buf, p, end, origin, vals, c) ==
    IF i > Len(sch) THEN GotC(vals, p, c)
    ELSE LET r == DecField(sch[i], buf, p, end, origin, vals) IN
         IF ~r.ok THEN DFail ELSE DecFrom(sch, i + 1, buf, r.p, end, origin, Append(vals, r.v), c \/ r.c)

(* ------------------------------------------------------------------ well-formedness *)
\* lexicographic <= on equally long octet tuples (= numeric order of big-endian integers)
RECURSIVE LeqOct(_, _)
LeqOct(a, b) == IF a = <<>> THEN TRUE ELSE IF Head(a) < Head(b) THEN TRUE ELSE IF Head(a) > Head(b) THEN FALSE ELSE LeqOct(Tail(a), Tail(b))

WindowsOK(ws) == /\ \A i \in 1..Len(ws) : ws[i][1] \in 0..255 /\ Len(ws[i][2]) \in 1..32 /\ Last(ws[i][2]) # 0
                 /\ \A i \in 1..Len(ws) - 1 : ws[i][1] < ws[i + 1][1]
IsDigit(b) == b >= 48 /\ b <= 57
IsAlnum(b) == IsDigit(b) \/ (b >= 65 /\ b <= 90) \/ (b >= 97 /\ b <= 122)
\* [-]d[.d{1,3}] or [-]dd[.d{1,3}] with dd <= 89, nothing else: surely a decimal number inside +-90
SimpleDecimal(s) ==
    LET t == IF s # <<>> /\ s[1] = 45 THEN Tail(s) ELSE s
        dot == {i \in 1..Len(t) : t[i] = 46} IN
    /\ Len(t) >= 1
    /\ IF dot = {} THEN Len(t) <= 2 /\ (\A i \in 1..Len(t) : IsDigit(t[i])) /\ (Len(t) = 2 => t[1] <= 56)
       ELSE /\ Cardinality(dot) = 1
            /\ LET d == CHOOSE i \in dot : TRUE IN
               /\ d \in 2..3 /\ Len(t) - d \in 1..3 /\ (d = 3 => t[1] <= 56)
               /\ \A i \in 1..Len(t) : i # d => IsDigit(t[i])

FieldSem(f, x, vals) ==
    CASE f.k = "u8"     -> x \in 0..255
      [] f.k = "u16"    -> x \in 0..65535
      [] f.k = "fixed"  -> Len(x) = f.n
      [] f.k = "name"   -> NameOK(x)
      [] f.k = "lp1"    -> Len(x) <= 255
      [] f.k = "lp2"    -> Len(x) <= 65535
      [] f.k = "lp1s"   -> Len(x) >= 1 /\ \A i \in 1..Len(x) : Len(x[i]) <= 255
      [] f.k = "lp1opt" -> Len(x) <= 255
      [] f.k = "bitmap" -> WindowsOK(x)
      [] f.k = "gateway" -> LET g == vals[f.r] % f.m IN
                            /\ g \in 0..3
                            /\ x[1] = (CASE g = 0 -> "none" [] g = 1 -> "ipv4" [] g = 2 -> "ipv6" [] OTHER -> "name")
                            /\ (x[1] = "ipv4" => Len(x[2]) = 4) /\ (x[1] = "ipv6" => Len(x[2]) = 16)
                            /\ (x[1] = "name" => NameOK(x[2]))
      [] f.k = "names"  -> \A i \in 1..Len(x) : NameOK(x[i])
      [] f.k = "hip"    -> Len(x[1]) <= 255 /\ x[2] \in 0..255 /\ Len(x[3]) <= 65535
      [] OTHER -> TRUE

(* ---- SVCB / HTTPS SvcParams (RFC 9460 2.2, 7, 8; RFC 9461 5; RFC 9540 4) *)
Keys(ps) == {ps[i][1] : i \in 1..Len(ps)}
U16List(b) == [i \in 1..(Len(b) \div 2) |-> b[2 * i - 1] * 256 + b[2 * i]]
RECURSIVE AlpnOK(_, _)
AlpnOK(b, p) == IF p > Len(b) THEN TRUE
                ELSE b[p] >= 1 /\ p + b[p] <= Len(b) /\ AlpnOK(b, p + 1 + b[p])
SvcValueOK(k, b, ps) ==
    CASE k = 0 -> /\ Len(b) >= 2 /\ Len(b) % 2 = 0
                  /\ LET ks == U16List(b) IN /\ \A i \in 1..Len(ks) : ks[i] # 0 /\ ks[i] \in Keys(ps)
                                             /\ \A i \in 1..Len(ks) - 1 : ks[i] < ks[i + 1]
      [] k = 1 -> Len(b) >= 1 /\ AlpnOK(b, 1)
      [] k = 2 -> b = <<>> /\ 1 \in Keys(ps)
      [] k = 3 -> Len(b) = 2
      [] k = 4 -> Len(b) >= 4 /\ Len(b) % 4 = 0
      [] k = 6 -> Len(b) >= 16 /\ Len(b) % 16 = 0
      [] k = 8 -> b = <<>>
      [] OTHER -> TRUE
SvcbOK(v) == LET ps == v[3] IN
             /\ (v[1] = 0 => ps = <<>>)     \* AliasMode carries no SvcParams (RFC 9460 2.4.2: SHOULD NOT be present; the
                                          \* library's text and wire readers refuse them, so such a value is outside the
                                          \* property's "well-formed values")
             /\ \A i \in 1..Len(ps) - 1 : ps[i][1] < ps[i + 1][1]
             /\ \A i \in 1..Len(ps) : SvcValueOK(ps[i][1], ps[i][2], ps)
\* not decided: keys whose value is text with its own grammar (dohpath 7, docpath 10)
SvcbFree(v) == \E k \in Keys(v[3]) : k \in {7, 10}

(* ---- OPT options *)
CeilDiv8(n) == (n + 7) \div 8
PlainNameOK(b) == LET r == NameWalk(b, 1, Len(b), 1, <<>>, 0, 0) IN r.ok /\ r.p = Len(b) + 1   \* big = 1: no pointer possible
Ascii(b) == \A i \in 1..Len(b) : b[i] < 128
EcsPadZero(src, addr) == (src % 8 = 0) \/ (addr # <<>> /\ Last(addr) % (2 ^ (8 - (src % 8))) = 0)
OptOK(c, b) ==
    CASE c = 8  -> /\ Len(b) >= 4
                   /\ LET fam == U16At(b, 1) IN
                      /\ Len(b) - 4 = CeilDiv8(b[3])
                      /\ (fam = 1 => b[3] <= 32) /\ (fam = 2 => b[3] <= 128)
      [] c = 10 -> Len(b) = 8 \/ Len(b) \in 16..40
      [] c = 15 -> Len(b) >= 2
      [] OTHER -> TRUE
OptFree(c, b) ==
    CASE c = 8  -> Len(b) >= 4 /\ (~(U16At(b, 1) \in {1, 2}) \/ ~EcsPadZero(b[3], SubSeq(b, 5, Len(b)))
                                   \/ b[4] > (IF U16At(b, 1) = 1 THEN 32 ELSE 128))
      [] c = 15 -> Len(b) >= 3 /\ (~Ascii(SubSeq(b, 3, Len(b))) \/ Last(b) = 0)
      [] c = 18 -> ~PlainNameOK(b)
      [] c \in {22, 23, 24, 25} -> ~Ascii(b)
      [] OTHER -> FALSE

(* ---- per-type predicates, selected by the tags of TypeInfo *)
TypeValid(tag, v) ==
    CASE tag = "loc" -> /\ v[1] = 0
                        /\ \A i \in 2..4 : v[i] \div 16 <= 9 /\ v[i] % 16 <= 9
                        /\ LeqOct(<<108, 176, 39, 0>>, v[5]) /\ LeqOct(v[5], <<147, 79, 217, 0>>)   \* 2^31 -+ 90 deg
                        /\ LeqOct(<<89, 96, 78, 0>>, v[6]) /\ LeqOct(v[6], <<166, 159, 178, 0>>)    \* 2^31 -+ 180 deg
      [] tag = "ds" -> (v[3] = 1 => Len(v[4]) = 20) /\ (v[3] \in {2, 3} => Len(v[4]) = 32) /\ (v[3] = 4 => Len(v[4]) = 48)
      [] tag = "nsec3" -> Len(v[5]) >= 1
      [] tag = "zonemd" -> Len(v[4]) >= 12 /\ (v[3] = 1 => Len(v[4]) = 48) /\ (v[3] = 2 => Len(v[4]) = 64)
      [] tag = "caa" -> Len(v[2]) >= 1 /\ \A i \in 1..Len(v[2]) : IsAlnum(v[2][i])
      [] tag = "uri" -> Len(v[3]) >= 1
      [] tag = "apl" -> \A i \in 1..Len(v[1]) : LET it == v[1][i] IN
                            /\ it[3] \in {0, 1} /\ it[2] \in 0..255 /\ Len(it[4]) <= 127
                            /\ (it[1] = 1 => Len(it[4]) <= 4 /\ it[2] <= 32)
                            /\ (it[1] = 2 => Len(it[4]) <= 16 /\ it[2] <= 128)
                            /\ (it[4] = <<>> \/ Last(it[4]) # 0)
      [] tag = "svcb" -> SvcbOK(v)
      [] tag = "opt" -> \A i \in 1..Len(v[1]) : OptOK(v[1][i][1], v[1][i][2])
      [] OTHER -> TRUE

MayRejectTag(tag, v) ==
    CASE tag = "gpos" -> ~(\A i \in 1..3 : SimpleDecimal(v[i]))
      [] tag = "loc" -> \E i \in 2..4 : v[i] \div 16 = 0 /\ v[i] % 16 # 0     \* 0 x 10^e, e > 0: a second spelling of zero
      [] tag = "ds" -> ~(v[3] \in 1..4)
      [] tag = "zonemd" -> v[2] = 0 \/ v[3] = 0
      [] tag = "apl" -> \E i \in 1..Len(v[1]) : ~(v[1][i][1] \in {1, 2})
      [] tag = "svcb" -> SvcbFree(v)
      [] tag = "opt" -> \E i \in 1..Len(v[1]) : OptFree(v[1][i][1], v[1][i][2])
      [] tag = "tsig" -> v[6] > 4095
      [] OTHER -> FALSE

WellFormed(ty, v) ==
    LET sch == Schema[ty] IN
    /\ Len(v) = Len(sch)
    /\ \A i \in 1..Len(sch) : FieldSem(sch[i], v[i], v)
    /\ TypeValid(TypeInfo[ty].valid, v)
\* RFC 2181 section 8: a TTL with the top bit set is to be treated as zero by a receiver; an
\* implementation refusing it instead is not decided by the table
MayReject(ty, v) ==
    \/ \E i \in 1..Len(Schema[ty]) : Schema[ty][i].tk = "ttl32" /\ v[i][1] >= 128
    \/ MayRejectTag(TypeInfo[ty].free, v)

\* Ill-formed values that the defining RFC tells every RECEIVER to refuse (not merely senders not
\* to produce).  Informational only (why = "malformed"): C02 as stated lets a decoder accept them as long as
\* it consumes rdlen and reaches a fixed point, so Trace_RdataCodec does not alarm on it (drift): RFC 9460 2.2 "Clients MUST consider an RR malformed if ... SvcParamKeys are not in
\* strictly increasing numeric order"; RFC 1876 2 "Implementations are required to check [VERSION]".
MustRefuse(ty, v) ==
    CASE TypeInfo[ty].valid = "svcb" -> \E i \in 1..Len(v[3]) - 1 : v[3][i][1] >= v[3][i + 1][1]
      [] TypeInfo[ty].valid = "loc" -> v[1] # 0
      [] OTHER -> FALSE

(* ------------------------------------------------------------------ Decode *)
Verdict(res, why, v, c) == [res |-> res, why |-> why, v |-> v, ptr |-> c]
Decode(ty, buf, off, rdlen, origin) ==
    IF off + rdlen > Len(buf) THEN Verdict("err", "short", <<>>, FALSE)
    ELSE LET end == off + rdlen
             r == DecFrom(Schema[ty], 1, buf, off + 1, end, origin, <<>>, FALSE) IN
         IF ~r.ok THEN Verdict("err", "short", <<>>, FALSE)
         ELSE IF r.p # end + 1 THEN Verdict("err", "trailing", r.v, r.c)
         ELSE IF ~WellFormed(ty, r.v) THEN Verdict("err", IF MustRefuse(ty, r.v) THEN "malformed" ELSE "invalid", r.v, r.c)
         ELSE IF MayReject(ty, r.v) THEN Verdict("free", "-", r.v, r.c)
         ELSE Verdict("ok", "-", r.v, r.c)
DecodeRdata(ty, b, origin) == Decode(ty, b, 0, Len(b), origin)

(* ------------------------------------------------------------------ type bitmaps *)
\* the RFC 4034 4.1.2 windows of a set of type codes
WindowOf(S, w) == LET T == {t % 256 : t \in {u \in S : u \div 256 = w}}
                      mx == CHOOSE m \in T : \A u \in T : u <= m
                      Bit(o, j) == IF (o * 8 + j) \in T THEN 2 ^ (7 - j) ELSE 0
                  IN <<w, [o \in 1..(mx \div 8 + 1) |-> Bit(o - 1, 0) + Bit(o - 1, 1) + Bit(o - 1, 2) + Bit(o - 1, 3)
                                                        + Bit(o - 1, 4) + Bit(o - 1, 5) + Bit(o - 1, 6) + Bit(o - 1, 7)]>>
RECURSIVE WindowsFrom(_, _)
WindowsFrom(S, W) == IF W = {} THEN <<>>
                     ELSE LET w == CHOOSE x \in W : \A y \in W : x <= y IN <<WindowOf(S, w)>> \o WindowsFrom(S, W \ {w})
BitmapOf(S) == WindowsFrom(S, {t \div 256 : t \in S})

(* ------------------------------------------------------------------ faults on octet strings *)
\* fault descriptors <<kind, position / octet, argument>> applied to an encoding
ApplyFault(b, ft) ==
    CASE ft[1] = "trunc" -> SubSeq(b, 1, ft[2])                              \* keep the first ft[2] octets
      [] ft[1] = "ext"   -> Append(b, ft[2])                                 \* one more octet inside the RDATA
      [] ft[1] = "bump"  -> [b EXCEPT ![ft[2]] = (b[ft[2]] + ft[3]) % 256]   \* +1 / +255 (= -1) on one octet
      [] ft[1] = "set"   -> [b EXCEPT ![ft[2]] = ft[3]]
      [] ft[1] = "ptr"   -> [b EXCEPT ![ft[2]] = 192 + (ft[3] \div 256), ![ft[2] + 1] = ft[3] % 256]     \* a compression pointer to message offset ft[3]
      \* "overlap": octet 1 becomes a label length reaching to the last octet, the last octet the root label,
      \* and octets ft[2], ft[2]+1 a pointer to the start of the RDATA (message offset ft[3]): a name read at
      \* ft[2] is that long label, its field is still only the 2-octet pointer
      [] ft[1] = "ovl"   -> [b EXCEPT ![1] = Len(b) - 2, ![Len(b)] = 0, ![ft[2]] = 192 + (ft[3] \div 256), ![ft[2] + 1] = ft[3] % 256]
      [] ft[1] = "none"  -> b
\* positions faulted octet by octet: every octet of an encoding of at most 32 octets, both ends
\* of longer ones (those carry a 255-octet string or a maximal name; their middle is filler)
FaultPos(n) == IF n <= 32 THEN 1..n ELSE {i \in 1..n : i <= 8 \/ i > n - 3}
\* off = offset of the RDATA in the message: pointers to offset 0 (a name in front of the RDATA)
\* and to the pointer's own position
FaultSet(b, off) == LET n == Len(b) IN
       {<<"none", 0, 0>>}
  \cup {<<"trunc", i - 1, 0>> : i \in FaultPos(n)}
  \cup {<<"ext", x, 0>> : x \in {0, 1, 255}}
  \cup {<<"bump", i, d>> : i \in FaultPos(n), d \in {1, 255}}
  \cup {<<"set", i, x>> : i \in FaultPos(n), x \in {0, 192}}
  \cup {<<"ptr", i, 0>> : i \in FaultPos(n) \ {n}}
  \cup {<<"ptr", i, off + i - 1>> : i \in FaultPos(n) \ {n}}
  \cup (IF n \in 5..32 THEN {<<"ovl", i, off>> : i \in 2..(n - 2)} ELSE {})
=============================================================================
