INIT TraceInit
NEXT TraceNext
CONSTANTS
  Names = {}
  Types = {}
  RdIds = {}
  TTLs = {}
  ZClasses = {}
  GroupSeqs = {}
  MaxCalls = 0
  TolerateF1 = FALSE
CONSTRAINT Accepted
POSTCONDITION Post
CHECK_DEADLOCK FALSE
