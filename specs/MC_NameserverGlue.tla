-------------------------- MODULE MC_NameserverGlue --------------------------
(* Universe of nameserver calls: four kinds of nameserver object x every argument
   combination x every kind of reply; also printed (Emit) for the driver. *)
EXTENDS NameserverGlue, Json

NS(kind, where, port, hostname, verify, wantget, bootstrap) ==
    [kind |-> kind, where |-> where, port |-> port, hostname |-> hostname, verify |-> verify, wantget |-> wantget, bootstrap |-> bootstrap]
Objects == {NS("Do53", "192.0.2.1", 5300, "absent", TRUE, FALSE, "absent"),
            NS("Do53", "2001:db8::1", 53, "absent", TRUE, FALSE, "absent"),
            NS("DoH", "https://doh.invalid/dns-query", -1, "absent", TRUE, FALSE, "192.0.2.2"),
            NS("DoH", "https://doh.invalid/dns-query", -1, "absent", FALSE, TRUE, "192.0.2.2"),
            NS("DoT", "192.0.2.3", 853, "dot.invalid", TRUE, FALSE, "absent"),
            NS("DoQ", "192.0.2.4", 8853, "doq.invalid", FALSE, FALSE, "absent")}
MCCalls == {o @@ [maxsize |-> ms, tmo |-> t, source |-> s, sport |-> sp, onerr |-> r, itrail |-> it] :
               o \in Objects, ms \in BOOLEAN, t \in {3, 32}, s \in {"none", "192.0.2.99"}, sp \in {0, 5353},
               r \in BOOLEAN, it \in BOOLEAN}
MCReplies == {"ok", "tc", "exc:Timeout", "exc:FormError", "exc:OSError"}
Emit == PrintT("BEH " \o ToJson(m))
=============================================================================
