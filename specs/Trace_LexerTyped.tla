-------------------------- MODULE Trace_LexerTyped --------------------------
(* Trace validation for the typed helpers (X07 part B).  One trace = one input text and a
   script of helper calls on ONE Tokenizer; the driver stops at the first exception.
     call  h(base / arg) -> res "ok" with val (character codes, digit values of an integer in
           the base of the call, <<seconds>> for get_ttl) or toks (get_remaining), or "err"
   Hard: a result the docstrings decide ("ok" value / SyntaxError); "free" results are not
   judged.  ZeroMeansNone = TRUE reads max_length = 0 / max_tokens = 0 as "not specified"
   (what the code does); it is used only to judge the rest of a trace that tripped X07-F1. *)
EXTENDS LexerTyped, VTrace

CONSTANTS ZeroMeansNone
VARIABLES m, d, t, l
s == Log[t].s
e == Ev(t)[l]
TraceInit == RegInit /\ t \in 1..NTraces /\ l = 1 /\ m = Start0 /\ d \in DialectsFor(Log[t].s)
Adv == l' = l + 1 /\ t' = t /\ d' = d
C(id, cond) == Check(t, l, id, cond)
Arg(a) == IF ZeroMeansNone /\ a = 0 THEN -1 ELSE a
Z(e0) == IF e0.arg = 0 THEN "_zero" ELSE ""
ProjT(tk) == [k |-> tk.k, v |-> tk.v, e |-> tk.e]

TOne ==
    /\ e.op = "call" /\ e.h \notin {"get_remaining", "concatenate_remaining_identifiers"}
    /\ LET q == OneToken(m, s, [h |-> e.h, base |-> e.base, arg |-> Arg(e.arg)], d) IN
       /\ CASE q.r[1] = "err" -> /\ C("Refused_" \o e.h \o Z(e), e.res = "err")
                                 /\ C("ErrorIsSyntaxError_" \o e.h, e.fam)
            [] q.r[1] = "ok" -> /\ C("Accepted_" \o e.h, e.res = "ok")
                                /\ C("Value_" \o e.h, e.h = "get_eol" \/ e.val = q.r[2])
            [] OTHER -> TRUE
       /\ m' = q.m
    /\ Adv
TRemaining ==
    /\ e.op = "call" /\ e.h = "get_remaining"
    /\ LET a == Arg(e.arg)
           q == Remaining(m, s, IF a < 0 THEN Len(s) + 1 ELSE a, <<>>, d) IN
       /\ IF q[2] = "err" THEN C("Refused_get_remaining", e.res = "err") /\ C("ErrorIsSyntaxError_get_remaining", e.fam)
          ELSE /\ C("Accepted_get_remaining" \o Z(e), e.res = "ok")
               /\ C("Remaining" \o Z(e), Len(e.toks) = Len(q[3]) /\ \A i \in 1..Len(q[3]) : e.toks[i] = ProjT(q[3][i]))
       /\ m' = q[1]
    /\ Adv
TConcat ==
    /\ e.op = "call" /\ e.h = "concatenate_remaining_identifiers"
    /\ LET q == Concat(m, s, <<>>, d)
           bad == q[2] = "err" \/ (q[3] = <<>> /\ e.arg = 0) IN
       /\ IF bad THEN C("Refused_concatenate", e.res = "err") /\ C("ErrorIsSyntaxError_concatenate", e.fam)
          ELSE C("Accepted_concatenate", e.res = "ok") /\ C("Value_concatenate", e.val = q[3])
       /\ m' = q[1]
    /\ Adv
PrevOk == IF l = 1 THEN TRUE ELSE (HasKey(Ev(t)[l - 1], "res") /\ Ev(t)[l - 1].res = "ok")
TraceNext == l <= Len(Ev(t)) /\ m.st = "ok" /\ PrevOk /\ (TOne \/ TRemaining \/ TConcat)
Accepted == Accepting(t, l)
=============================================================================
