-------------------------- MODULE Trace_Robustness --------------------------
(* Trace validation for C04.  One trace = one input and one event per call of an entry
   point on it.  A specification-built input (src = "spec") travels with its descriptor
   (kind, base, fault actions): the state of the generator is rebuilt from it, the logged
   octets / text must equal its concretisation (InputBinding), and the specification's
   verdict applies.  To a seeded random input (src = "rnd") only the outcome-set clauses
   apply.  Hard clauses: InputBinding, OutcomeSet, Verdict, CoeErrorFamily, Bookkeeping,
   Records, FileLine, ErrLine, Render. *)
EXTENDS Robustness, VTrace

VARIABLES t, l, pm
tvars == <<vars, t, l, pm>>

R == Log[t]
IsSpec == R.src = "spec"
\* the part of the model a verdict needs, computed once per trace
Model(r) ==
    IF r.kind \in {"msg", "optm"}
    THEN (IF r.src = "spec" THEN Read(r.w)
          ELSE [short |-> Len(r.w) < 12, tc |-> Len(r.w) >= 12 /\ HasBit(Rd16(r.w, 2), TC)])
    ELSE IF r.src # "spec" THEN "free"
    ELSE CASE r.kind = "namew" -> NameWVerdict(LayOf(r.kind, r.base, r.hist), PostOf(r.hist))
           [] r.kind \in {"rdw", "optw"} -> SpecVerdict(r.hist)
           [] OTHER -> TextVerdict(r.kind, r.base, r.hist)

TraceInit ==
    /\ RegInit
    /\ t \in 1..NTraces /\ l = 1
    /\ kind = R.kind
    /\ IF IsSpec THEN /\ base = R.base /\ hist = R.hist /\ nf = Len(R.hist)
                      /\ lay = LayOf(R.kind, R.base, R.hist) /\ post = PostOf(R.hist)
       ELSE base = "-" /\ hist = <<>> /\ nf = 0 /\ lay = <<>> /\ post = NoPost
    /\ pm = Model(R)

E == Ev(t)[l]
O == ToSetOf(E.out)
Adv == l' = l + 1 /\ UNCHANGED <<vars, t, pm>>
Render == Check(t, l, "Render", RenderOk(ToSetOf(E.rt)) /\ RenderOk(ToSetOf(E.rw)))
Matches(v) == CASE v = "ok" -> O = {"ok"} [] v = "err" -> O # {"ok"} [] OTHER -> TRUE
Bound(c) == Check(t, l, "InputBinding", (l = 1 /\ IsSpec) => c)

Plain == pm.short \/ pm.opcode = OpQuery
TMsg ==
    /\ E.op = "msg"
    /\ Bound(R.w = Wire(kind, lay, post) /\ (kind = "optm" => R.cur = OptmCur /\ R.len = Len(OptmRdata(lay))))
    /\ Check(t, l, "OutcomeSet", MsgAllowed(pm, E.opts, IsSpec /\ (pm.short \/ ~Signed(pm)), O))
    \* the reference reader knows the sections of a QUERY-shaped message; for other opcodes
    \* (UPDATE: RFC 2136 section rules) only the outcome-set clauses apply
    /\ Check(t, l, "Verdict", (IsSpec /\ Plain) => MsgVerdictOk(pm, E.opts, O))
    \* what continue_on_error records is what a strict reading would have raised: the
    \* format-error family when the input is known to carry no TSIG record
    /\ Check(t, l, "CoeErrorFamily", \A i \in 1..Len(E.errs) :
            (IF IsSpec /\ (pm.short \/ ~Signed(pm)) THEN "FormError" ELSE "DNSException") \in ToSetOf(E.errs[i].tags))
    /\ Check(t, l, "Bookkeeping", (IsSpec /\ Plain /\ E.opts[4] = 1 /\ O = {"ok"}) =>
                                      Bookkeeping(pm, E.opts, [i \in 1..Len(E.errs) |-> E.errs[i].off]))
    /\ Check(t, l, "Records", (IsSpec /\ Plain /\ O = {"ok"} /\ AllDecided(pm)) =>
                                  <<E.n[2], E.n[3], E.n[4]>> = (IF E.opts[3] = 1 THEN <<0, 0, 0>>
                                                                ELSE <<GoodCount(pm, 1), GoodCount(pm, 2), GoodCount(pm, 3)>>))
    /\ Render /\ Adv
TNameW ==
    /\ E.op = "namew"
    /\ Bound(R.w = Wire(kind, lay, post) /\ R.cur = lay.cur)
    /\ Check(t, l, "OutcomeSet", OkOr(O, WireSet))
    /\ Check(t, l, "Verdict", Matches(pm))
    /\ Render /\ Adv
\* the OPT RDATA of an optm input read on its own: the format-error family only
TOptRd ==
    /\ kind = "optm" /\ E.op = "rdw"
    /\ Check(t, l, "OutcomeSet", OkOr(O, WireSet))
    /\ Check(t, l, "Verdict", nf = 0 => O = {"ok"})
    /\ Render /\ Adv
TSpecW ==
    /\ kind \in {"rdw", "optw"} /\ E.op \in {"rdw", "optw"}
    /\ Bound(R.w = SpecBytes(lay) /\ R.len = lay.len /\ R.cur = Len(NPrefix))
    /\ Check(t, l, "OutcomeSet", OkOr(O, WireSet))
    /\ Check(t, l, "Verdict", Matches(pm))
    /\ Render /\ Adv
TNameT ==
    /\ E.op = "namet"
    /\ Bound(R.senc = Text(lay))
    /\ Check(t, l, "OutcomeSet", OkOr(O, NameTextSet(R.ascii = 1)))
    /\ Check(t, l, "Verdict", Matches(pm))
    /\ Render /\ Adv
TText ==
    /\ E.op \in {"rdt", "ttl"}       \* (kinds rdt, rdg, ttl)
    /\ Bound(R.senc = Text(lay))
    /\ Check(t, l, "OutcomeSet", OkOr(O, TextSet))
    /\ Check(t, l, "Verdict", Matches(pm))
    /\ Render /\ Adv
\* zone files: every syntax error carries "<file>:<line>: " with a line of the input
TZone ==
    /\ E.op \in {"zone", "rrsets"}
    /\ Bound(R.senc = Text(lay))
    /\ Check(t, l, "OutcomeSet", OkOr(O, ZoneSet))
    /\ Check(t, l, "FileLine", "SyntaxError" \in O => E.fp = 1 /\ 1 <= E.ln /\ E.ln <= R.nl + 2)
    /\ Check(t, l, "Verdict", (E.op = "zone" /\ ZoneDecided(E.opts)) => Matches(pm))
    /\ Check(t, l, "ErrLine", (IsSpec /\ E.op = "zone" /\ ZoneDecided(E.opts) /\ pm = "err" /\ nf = 1
                               /\ "SyntaxError" \in O) => E.ln \in ErrLines(kind, base, hist))
    /\ Render /\ Adv
\* a zone split over an $INCLUDEd file (read with allow_include): the file:line of a syntax
\* error are those of the offending line - fi = 0 the top file, 1 the included one
TZinc ==
    /\ E.op = "zinc"
    /\ Bound(R.senc = Text(ZincMain(lay)) /\ R.subenc = Text(ZincSub(lay)))
    /\ Check(t, l, "OutcomeSet", OkOr(O, ZoneSet))
    /\ Check(t, l, "FileLine", "SyntaxError" \in O => E.fp = 1 /\ 1 <= E.ln)
    /\ Check(t, l, "Verdict", ZoneDecided(E.opts) => Matches(pm))
    /\ Check(t, l, "ErrLine", (ZoneDecided(E.opts) /\ pm = "err" /\ nf = 2 /\ "SyntaxError" \in O) =>
                                   E.fi = ZincErrFile(lay, hist) /\ E.ln \in ZincErrLines(lay, hist))
    /\ Render /\ Adv
TMsgT ==
    /\ E.op = "msgt"
    /\ Bound(R.senc = Text(lay))
    /\ Check(t, l, "OutcomeSet", OkOr(O, LibSet))
    /\ Check(t, l, "Verdict", Matches(pm))
    /\ Render /\ Adv

TraceNext == /\ l <= Len(Ev(t))
             /\ (TMsg \/ TNameW \/ TOptRd \/ TSpecW \/ TNameT \/ TText \/ TZone \/ TZinc \/ TMsgT)
Accepted == Accepting(t, l)
=============================================================================
