SPECIFICATION Spec
CONSTANTS
  Dgrams <- MCDev1
  Configs <- MCConfigsFull
  MaxDgrams = 2
  MaxBlocks = 2
INVARIANT TypeOK
INVARIANT ReturnOnlyGenuine
INVARIANT ReturnSound
INVARIANT GenuineEnds
INVARIANT SpoofCannotEnd
INVARIANT VerdictTotal
INVARIANT DeadlineRespected
CHECK_DEADLOCK FALSE
