SPECIFICATION Spec
CONSTANTS
  Dgrams <- MCDev1
  Configs <- MCConfigsNoClock
  MaxDgrams = 2
  MaxBlocks = 2
INVARIANT TypeOK
INVARIANT ReturnOnlyGenuine
INVARIANT GenuineEnds
INVARIANT SpoofCannotEnd
INVARIANT VerdictTotal
INVARIANT DeadlineRespected
PROPERTY SkipKeepsListening
PROPERTY EndIsFinal
PROPERTY Terminates
CHECK_DEADLOCK FALSE
