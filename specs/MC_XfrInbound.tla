--------------------------- MODULE MC_XfrInbound ---------------------------
(* Bounded instances of XfrInbound for exhaustive model checking and generation. *)
EXTENDS XfrInbound

NS1 == <<"@", "NS", 300, <<1>>>>
NS2 == <<"@", "NS", 300, <<2>>>>
A1 == <<"a", "A", 300, <<1>>>>
A2 == <<"a", "A", 300, <<2>>>>
A1t == <<"a", "A", 600, <<1>>>>      \* the same RRset under another TTL
A2t == <<"a", "A", 600, <<2>>>>
B1 == <<"b.a", "TXT", 300, <<1>>>>

SA1 == <<"a", "RRSIG/A", 300, <<1>>>>     \* RRSIG covering A and RRSIG covering TXT at the same owner:
ST1 == <<"a", "RRSIG/TXT", 300, <<1>>>>   \* two different RRsets (RFC 4035 2.2), deleted independently
T1 == <<"a", "TXT", 300, <<1>>>>

With(S) == {{NS1} \cup x : x \in SUBSET S}
CTiny == {{NS1}, {NS1, A1}}
CSmall == With({NS2, A1})
CMid == With({NS2, A1, A2})
CTtl == {{NS1, A1}, {NS1, A1t}, {NS1, A1t, A2t}, {NS1, A1, A2}}
CSig == {{NS1, A1, T1} \cup x : x \in SUBSET {SA1, ST1}}
CWide == With({A1, A2, B1})

S1 == <<<<0, 1>>, <<0, 2>>, <<0, 3>>, <<0, 4>>>>
S2 == <<<<65535, 65534>>, <<65535, 65535>>, <<0, 0>>, <<0, 1>>>>          \* wraps across 2^32
S3 == <<<<0, 65535>>, <<1, 0>>, <<1, 1>>, <<32768, 65534>>>>              \* limb carry; distance 2^31 - 1
SS1 == {S1}
SS2 == {S2}
SS3 == {S3}
SS12 == {S1, S2}
SS123 == {S1, S2, S3}

AllKinds == {"axfr", "ixfr", "axfrstyle", "uptodate", "behind", "usetcp"}
KindsIxfr == {"ixfr"}
KindsOther == {"axfr", "axfrstyle", "uptodate", "behind", "usetcp"}
AllFaults == {"none", "drop", "dup", "swap", "trunc", "serial", "owner", "type", "surplus", "rcode", "question"}
NoFaults == {"none"}
MsgFaultKinds == {"none", "rcode", "question"}
ReorderFaultKinds == {"none", "drop", "dup", "swap"}
StreamFaultKinds == {"none", "drop", "dup", "swap", "trunc", "serial", "owner", "type", "surplus"}
=============================================================================
