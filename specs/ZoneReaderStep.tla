---------------------------- MODULE ZoneReaderStep ----------------------------
(* X05 - the zone-file reader's STATE ACROSS LINES (dns.zonefile.Reader behind
   dns.zone.from_text/from_file and dns.zonefile.read_rrsets).

   Sources (hard statements; RFC/BIND sentences written down without network access):
   RFC 1035 5.1  "<blank><rr>: If an entry for an RR begins with a blank, then the RR is
       assumed to be owned by the last stated owner."  "Omitted class and TTL values
       default to the last explicitly stated values."  "[<TTL>] [<class>] <type> <RDATA>
       / [<class>] [<TTL>] <type> <RDATA>".  "$ORIGIN <domain-name>" resets the current
       origin for relative names; "@" denotes the current origin; relative names are
       completed with the current origin.  "$INCLUDE <file-name> [<domain-name>] ...
       may optionally specify a domain name that sets the relative domain name origin for
       the included file. ... a $INCLUDE entry never changes the relative origin of the
       parent file, regardless of changes to the relative origin made within the included
       file."  RFC 1035 5.2 "All RRs in the file should have the same class."
   RFC 2308 4    "$TTL <TTL> ... All resource records appearing after the directive, and
       which do not explicitly include a TTL value, have their TTL set to the TTL given in
       the $TTL directive."
   BIND ARM $GENERATE: "range lhs [ttl] [class] type rhs"; range start-stop[/step],
       inclusive; every single $ in lhs/rhs is replaced by the iterator value;
       ${offset[,width[,base]]}: offset added, zero-padded field of `width`, base d o x X
       n N (nibble: reversed hex digits, one label each, width includes the separators);
       default ${0,0,d}; a relative lhs gets the current $ORIGIN; ttl "inherited using the
       normal TTL inheritance rules"; "class and ttl can be entered in either order".
   dnspython docstrings: from_text/from_file (allow_include, allow_directives, rdclass,
       filename) and read_rrsets (name/ttl/rdclass/default_rdclass/rdtype/default_ttl).

   Names are TEXT (absolute, trailing dot), an rdata is <<type, int, string>> with embedded
   names absolute.  TTL -1 = none.  Everything the sources do not decide is a field of the
   policy record `pol` (fixed for a whole run = one consistent reading):
     blank0   origin|err     a blank owner while no owner has been stated (at the start, or after an
                             include that restores that situation): the zone origin / refused
     incOwner restore|keep   last owner after the included file ends (RFC silent; BIND restores)
     incTtl   restore|keep   $TTL / last-TTL state after the included file ends
     incIn    inherit|origin last owner at the start of an included file
     soaDef   min|rfc1035    an SOA read while no $TTL is in force makes its MINIMUM the
                             default for later records (pre-RFC 2308) / it does not
     soaOwn   min|err        SOA without TTL while nothing is known: MINIMUM / refused
     rrsTtl   inherit|err    read_rrsets without default_ttl: zone-file inheritance /
                             "an error will occur" (docstring)
     genOwner set|keep       $GENERATE's last owner becomes "the last stated owner" / not
     incDflt  yes|no         from_text(allow_include omitted): docstring "True (the
                             default)" vs signature False *)
EXTENDS Integers, Sequences, FiniteSets, TLC

PolFields == {"blank0", "incOwner", "incTtl", "incIn", "soaDef", "soaOwn", "rrsTtl", "genOwner", "incDflt"}
PolA == [blank0 |-> "origin", incOwner |-> "restore", incTtl |-> "restore", incIn |-> "inherit", soaDef |-> "min", soaOwn |-> "min",
         rrsTtl |-> "inherit", genOwner |-> "set", incDflt |-> "no"]
PolB == [blank0 |-> "err", incOwner |-> "keep", incTtl |-> "keep", incIn |-> "origin", soaDef |-> "rfc1035", soaOwn |-> "err",
         rrsTtl |-> "err", genOwner |-> "keep", incDflt |-> "yes"]
\* every policy that differs from PolA only inside the field set F
PoliciesOver(F) ==
    { [f \in PolFields |-> IF f \in B THEN PolB[f] ELSE PolA[f]] : B \in SUBSET F }

\* ---------------- names and numbers
Abs(ref, org) == CASE ref[1] = "at" -> org
                   [] ref[1] = "abs" -> ref[2]
                   [] ref[1] = "rel" -> IF org = "." THEN ref[2] \o "." ELSE ref[2] \o "." \o org

DigitsL == <<"0","1","2","3","4","5","6","7","8","9","a","b","c","d","e","f">>
DigitsU == <<"0","1","2","3","4","5","6","7","8","9","A","B","C","D","E","F">>
RECURSIVE ToBase(_, _, _)
ToBase(v, b, up) == LET d == IF up THEN DigitsU[(v % b) + 1] ELSE DigitsL[(v % b) + 1]
                    IN IF v < b THEN d ELSE ToBase(v \div b, b, up) \o d
RECURSIVE NDigits(_, _)
NDigits(v, b) == IF v < b THEN 1 ELSE 1 + NDigits(v \div b, b)
RECURSIVE Zeros(_)
Zeros(k) == IF k <= 0 THEN "" ELSE "0" \o Zeros(k - 1)
\* nibble mode (BIND): low hex digit first, a dot after a digit while the field is not yet
\* `w` characters wide (dots count) or digits remain; never cut: 299,w=0 -> b.2.1  5,w=5 -> 5.0.0
\* 5,w=6 -> "5.0.0." (an even width ends with the separator)
Max0(x) == IF x > 0 THEN x ELSE 0
RECURSIVE Nibbles(_, _, _)
Nibbles(v, w, up) == LET d == IF up THEN DigitsU[(v % 16) + 1] ELSE DigitsL[(v % 16) + 1]
                         v2 == v \div 16  w1 == Max0(w - 1)  w2 == Max0(w - 2)
                     IN IF w1 > 0 \/ v2 # 0
                        THEN d \o "." \o (IF v2 # 0 \/ w2 > 0 THEN Nibbles(v2, w2, up) ELSE "")
                        ELSE d
\* one modifier [o offset, w width, b base] applied to iterator value i
Fmt(i, m) == LET v == i + m.o w == m.w b == m.b IN
    CASE b = "d" -> Zeros(w - NDigits(v, 10)) \o ToBase(v, 10, FALSE)
      [] b = "o" -> Zeros(w - NDigits(v, 8)) \o ToBase(v, 8, FALSE)
      [] b = "x" -> Zeros(w - NDigits(v, 16)) \o ToBase(v, 16, FALSE)
      [] b = "X" -> Zeros(w - NDigits(v, 16)) \o ToBase(v, 16, TRUE)
      [] b = "n" -> Nibbles(v, w, FALSE)
      [] b = "N" -> Nibbles(v, w, TRUE)
\* a template is a sequence of parts [k |-> "s", t |-> text, o, w, b] (literal text) or
\* [k |-> "m", t |-> "", o |-> offset, w |-> width, b |-> base] (one $ with its modifiers)
RECURSIVE Expand(_, _)
Expand(tpl, i) == IF tpl = <<>> THEN "" ELSE
    (IF Head(tpl).k = "s" THEN Head(tpl).t ELSE Fmt(i, Head(tpl))) \o Expand(Tail(tpl), i)

\* ---------------- the step function
(* cfg (fixed per run): api "zone" | "reader" | "rrsets"; zcls zone class; zorigin;
   inc "yes" | "no" | "dflt"; incDoc "text" | "file" (whose default applies); dirs
   <<"*">> (allow_directives=True) or the listed directives; read_rrsets options: fname
   ("" = not forced), fttl (-1), fcls ("" = rdclass None), ftype (""), dttl (-1).
   A line is a record with k in rr | origin | ttl | inc | end | gen (fields below). *)
Range(s) == {s[i] : i \in 1..Len(s)}
Start(c, p) == [stack |-> <<>>, origin |-> c.zorigin, lastOwner |-> (IF p.blank0 = "origin" THEN c.zorigin ELSE ""), defTtl |-> c.dttl, lastTtl |-> -1,
             soaMin |-> -1, out |-> <<>>, status |-> "ok", errAt |-> <<"", 0>>, file |-> "main", ln |-> 0, n |-> 0]
Fail(S) == [S EXCEPT !.status = "err", !.errAt = <<S.file, S.ln + 1>>, !.n = @ + 1]
Adv(S) == [S EXCEPT !.ln = @ + 1, !.n = @ + 1]

DirAllowed(c, d, p) ==
    IF c.dirs = <<"*">>
    THEN d # "$INCLUDE" \/ c.inc = "yes" \/ (c.inc = "dflt" /\ (c.incDoc = "file" \/ p.incDflt = "yes"))
    ELSE d \in Range(c.dirs)

\* TTL of a record line l that states none of its own (-1 = none can be determined)
Inherited(S, l, c, p) ==
    CASE S.defTtl >= 0 -> S.defTtl                                   \* RFC 2308 4 / default_ttl
      [] OTHER -> IF c.api = "rrsets" /\ p.rrsTtl = "err" THEN -1
                  ELSE IF p.soaDef = "min" /\ S.soaMin >= 0 THEN S.soaMin
                  ELSE IF S.lastTtl >= 0 THEN S.lastTtl               \* RFC 1035 5.1
                  ELSE IF l.k = "rr" /\ l.y = "SOA" /\ p.soaOwn = "min" THEN l.i
                  ELSE -1
\* -2 = the line must be refused (a forced TTL is stated again)
TtlOf(S, l, c, p) == IF c.fttl >= 0 THEN (IF l.ttl >= 0 THEN -2 ELSE c.fttl)
                     ELSE IF l.ttl >= 0 THEN l.ttl ELSE Inherited(S, l, c, p)
ClassOk(l, c) == IF c.api = "rrsets" /\ c.fcls # "" THEN l.cls = "none" ELSE l.cls \in {"none", c.zcls}
Rec(o, t, c, y, i, s) == [o |-> o, t |-> t, c |-> c.zcls, y |-> y, i |-> i, s |-> s]

StepRR(S, l, c, p) ==
    LET forcedName == c.api = "rrsets" /\ c.fname # ""
        ownerBad == IF forcedName THEN l.owner[1] \notin {"omit", "blank"}
                    ELSE l.owner[1] = "omit" \/ (l.owner[1] = "blank" /\ S.lastOwner = "")
        own == IF forcedName THEN c.fname ELSE IF l.owner[1] = "blank" THEN S.lastOwner ELSE Abs(l.owner, S.origin)
        typeBad == IF c.api = "rrsets" /\ c.ftype # "" THEN l.yg ELSE ~l.yg
        ty == IF c.api = "rrsets" /\ c.ftype # "" THEN c.ftype ELSE l.y
        t == TtlOf(S, l, c, p)
        rd == IF l.tgt[1] = "none" THEN l.s ELSE Abs(l.tgt, S.origin)
    IN IF ownerBad \/ typeBad \/ ~ClassOk(l, c) \/ t < 0 THEN Fail(S)
       ELSE [Adv(S) EXCEPT !.lastOwner = own,
                           !.lastTtl = IF l.ttl >= 0 THEN l.ttl ELSE @,
                           !.soaMin = IF ty = "SOA" /\ S.defTtl < 0 /\ @ < 0 THEN l.i ELSE @,
                           !.out = Append(@, Rec(own, t, c, ty, l.i, rd))]

RECURSIVE GenRecs(_, _, _, _, _, _)
GenRecs(S, l, c, t, i, acc) ==
    IF i > l.hi THEN acc ELSE
    LET own == Abs(<<(IF l.labs THEN "abs" ELSE "rel"), Expand(l.lhs, i)>>, S.origin)
        r == Expand(l.rhs, i)
        rd == CASE l.rk = "text" -> r [] l.rk = "rel" -> Abs(<<"rel", r>>, S.origin) [] l.rk = "abs" -> r
    IN GenRecs(S, l, c, t, i + l.step, Append(acc, Rec(own, t, c, l.y, 0, rd)))

StepGen(S, l, c, p) ==
    LET t == TtlOf(S, l, c, p)
        recs == GenRecs(S, l, c, t, l.lo, <<>>)
    IN IF ~DirAllowed(c, "$GENERATE", p) \/ ~ClassOk(l, c) \/ t < 0 THEN Fail(S)
       ELSE [Adv(S) EXCEPT !.lastOwner = IF p.genOwner = "set" /\ recs # <<>> THEN recs[Len(recs)].o ELSE @,
                           !.lastTtl = IF l.ttl >= 0 THEN l.ttl ELSE @,
                           !.out = @ \o recs]

StepOrigin(S, l, c, p) == IF ~DirAllowed(c, "$ORIGIN", p) THEN Fail(S) ELSE [Adv(S) EXCEPT !.origin = Abs(l.name, S.origin)]
StepTtl(S, l, c, p) == IF ~DirAllowed(c, "$TTL", p) THEN Fail(S) ELSE [Adv(S) EXCEPT !.defTtl = l.v]

Frame(S) == [origin |-> S.origin, lastOwner |-> S.lastOwner, defTtl |-> S.defTtl, lastTtl |-> S.lastTtl,
             soaMin |-> S.soaMin, file |-> S.file, ln |-> S.ln + 1]
StepInc(S, l, c, p) ==
    LET org == IF l.org[1] = "none" THEN S.origin ELSE Abs(l.org, S.origin) IN
    IF ~DirAllowed(c, "$INCLUDE", p) THEN Fail(S)
    ELSE [S EXCEPT !.stack = Append(@, Frame(S)), !.origin = org,
                   !.lastOwner = IF p.incIn = "inherit" THEN @ ELSE org,
                   !.file = "f" \o ToBase(S.n + 1, 10, FALSE), !.ln = 0, !.n = @ + 1]
\* end of an included file: the parent's origin comes back (RFC 1035 5.1, hard); owner and
\* TTL state come back or stay according to the policy
StepEnd(S, l, c, p) ==
    IF S.stack = <<>> THEN [S EXCEPT !.n = @ + 1] ELSE
    LET f == S.stack[Len(S.stack)] kt == p.incTtl = "keep" IN
    [S EXCEPT !.stack = SubSeq(@, 1, Len(@) - 1), !.origin = f.origin,
              !.lastOwner = IF p.incOwner = "restore" THEN f.lastOwner ELSE @,
              !.defTtl = IF kt THEN @ ELSE f.defTtl, !.lastTtl = IF kt THEN @ ELSE f.lastTtl,
              !.soaMin = IF kt THEN @ ELSE f.soaMin, !.file = f.file, !.ln = f.ln, !.n = @ + 1]

Step(S, l, c, p) ==
    IF S.status = "err" THEN [S EXCEPT !.n = @ + 1] ELSE
    CASE l.k = "rr" -> StepRR(S, l, c, p)
      [] l.k = "gen" -> StepGen(S, l, c, p)
      [] l.k = "origin" -> StepOrigin(S, l, c, p)
      [] l.k = "ttl" -> StepTtl(S, l, c, p)
      [] l.k = "inc" -> StepInc(S, l, c, p)
      [] l.k = "end" -> StepEnd(S, l, c, p)
RECURSIVE Run(_, _, _, _)
Run(S, ls, c, p) == IF ls = <<>> THEN S ELSE Run(Step(S, Head(ls), c, p), Tail(ls), c, p)

\* ---------------- what a caller can see
\* a zone keeps one TTL per (owner, type): the least one (Rdataset.update_ttl, "the lesser of
\* the set's current TTL or the specified TTL"), and a set of rdatas
OutSet(o) == Range(o)
MinTtl(o, r) == LET ts == {x.t : x \in {y \in OutSet(o) : y.o = r.o /\ y.y = r.y}} IN CHOOSE m \in ts : \A k \in ts : m <= k
Observable(o) == {[r EXCEPT !.t = MinTtl(o, r)] : r \in OutSet(o)}
BagOf(o) == [r \in OutSet(o) |-> Cardinality({i \in 1..Len(o) : o[i] = r})]
=============================================================================
