SPECIFICATION Spec
CONSTANTS
  Keys <- Tree5
  Queries <- Probes
  Vals <- MCVals
  MaxOps = 3
INVARIANT TypeOK
INVARIANT MatchSound
INVARIANT SelfMatch
INVARIANT CatchAll
INVARIANT NoneMeansMiss
INVARIANT EverBounds
PROPERTY ReadsDontWrite
PROPERTY FailedIsNoop
PROPERTY AddMonotone
CHECK_DEADLOCK FALSE
