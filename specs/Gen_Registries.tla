--------------------------- MODULE Gen_Registries ---------------------------
(* Emits the declared universes of RegistriesUniverse, one item per line ("BEH <json>"), in ONE
   TLC run.  An item is a tagged tuple; for the pure codecs it is one input (or one row of
   256 inputs the driver evaluates completely - the trace specification demands complete
   rows); for the two state machines it is a behaviour: the initial flags word / nothing,
   followed by Depth calls.  Only the environment's choices are emitted. *)
EXTENDS RegistriesUniverse, Json

CONSTANTS Depth, RDepth, Kinds,
          HSet                             \* "full" | "small": the call universe of the header machine
VARIABLE x
Full == HSet = "full"

Tag(t, S) == {<<t>> \o it : it \in S}
Static ==
    \/ "row" \in Kinds /\ x \in {<<"row", it[1], it[2], Prefix(it[1])>> : it \in {i \in RowItems : InRow(i)}}
    \/ "text" \in Kinds /\ \E reg \in TextRegs : x \in {<<"text", reg, s>> : s \in LexTexts \cup Words}
    \/ "oor" \in Kinds /\ x \in {<<"oor", it[1], it[2], Prefix(it[1])>> : it \in {i \in OorItems : InOor(i)}}
    \/ "frow" \in Kinds /\ x \in Tag("frow", FRowItems)
    \/ "erow" \in Kinds /\ x \in Tag("erow", ERowItems)
    \/ "rcrow" \in Kinds /\ x \in Tag("rcrow", RcRowItems)
    \/ "rcf" \in Kinds /\ x \in Tag("rcf", RcfItems)
    \/ "rce" \in Kinds /\ x \in Tag("rce", RceItems)
    \/ "ftext" \in Kinds /\ \E which \in {"flags", "edns"} : x \in {<<"ftext", which, [i \in 1..Len(s) |-> s[i]]>> : s \in FTextItems(which)}

GInit == \/ Static
         \/ "hb" \in Kinds /\ x \in {<<"hb", f>> : f \in (IF Full THEN GInitFlags ELSE SInitFlags)}
         \/ "rb" \in Kinds /\ x = <<"rb">>

HCall == \/ \E op \in (IF Full THEN GOps ELSE SOps) : x' = Append(x, <<"opcode", op>>)
         \/ \E r \in (IF Full THEN GRcs ELSE SRcs) : x' = Append(x, <<"rcode", r>>)
         \/ \E n \in (IF Full THEN ToSet(FlagNames) ELSE SNames) : x' = Append(x, <<"raise", n>>) \/ x' = Append(x, <<"clear", n>>)
         \/ \E b \in {0, 1} : x' = Append(x, <<"dnssec", b>>)
         \/ \E ver \in (IF Full THEN GVers ELSE SVers), xr \in (IF Full THEN GXrs ELSE {0}), lo \in (IF Full THEN GELos ELSE SELos) :
               x' = Append(x, <<"edns", ver, xr, lo>>)
         \/ x' = Append(x, <<"noedns">>)
RCall == \E v \in GRVals, txt \in GRTexts, s \in {0, 1} : x' = Append(x, <<"register", v, txt, s>>)

GNext == \/ x[1] = "hb" /\ Len(x) < 2 + Depth /\ HCall
         \/ x[1] = "rb" /\ Len(x) < 1 + RDepth /\ RCall

Final == CASE x[1] = "hb" -> Len(x) = 2 + Depth
           [] x[1] = "rb" -> Len(x) = 1 + RDepth
           [] OTHER -> TRUE
Emit == Final => PrintT("BEH " \o ToJson(x))
=============================================================================
