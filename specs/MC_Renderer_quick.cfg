SPECIFICATION Spec
CONSTANTS
  MaxRecs = 2
  NameSel = {1, 2, 4}
  KindSel = {"A", "NS", "RRSIG"}
  Budgets = {65535, 45}
  BigLen = 0
INVARIANT TableSound
INVARIANT CountsMatch
INVARIANT RoundTrip
INVARIANT Budget
INVARIANT PadExact
PROPERTY RefusedIsNoop
CHECK_DEADLOCK FALSE
