SPECIFICATION ShapeSpec
CONSTANTS
  Names <- UNames
  Queries <- UQueries
  OpTypes = {"NS", "A"}
  RdIds = {1}
  LoadSets <- MCLoadSets
  MaxOps = 0
  MaxTxns = 0
  ShapeNames <- UNames
  NameLessC <- TabLess
INVARIANT CommittedLaws
CHECK_DEADLOCK FALSE
