----------------------------- MODULE ZoneDirect -----------------------------
(* Reference model of the DIRECT (non-transaction) API of a zone (dns.zone.Zone, and the
   read-only part of it on dns.versioned.Zone / dns.btreezone.Zone) and of dns.node.Node,
   growth check X08.  Written from the docstrings of dns/zone.py, dns/node.py,
   dns/rdataset.py and doc/zone-class.rst (sentences quoted in notes/X08.md).

   zone : function  owner name -> node;  node : function  type -> [ttl, rds]
   ("A Node is a set of rdatasets": no order).  Names are written relative to the origin
   ("@" = apex), OutZone stands for any name that is not at or below the origin; a type is a
   string, "RRSIG/A" = the RRSIG rdataset covering A; an rdata is a small integer.
   A node may be empty (find_node(create=True)) and an rdataset may be empty
   (find_rdataset(create=True)).

   mut = TRUE : dns.zone.Zone (direct mutators work);  mut = FALSE : a versioned zone
   ("Attempts to use zone API methods that directly manipulate the zone ... will result
   in a UseTransaction exception", nodes and rdatasets handed out are immutable).

   One action per call.  Where the documentation leaves the outcome open (two refusal
   reasons apply, an out-of-zone name in a call that "does not raise", an empty SOA
   rdataset) the action has several enabled outcomes. *)
EXTENDS Integers, FiniteSets, TLC

CONSTANTS Names,       \* owner names inside the zone (relative spelling, "@" = apex)
          Types,       \* rdataset types
          RdIds,       \* rdata identifiers
          TTLs,
          Filters,     \* arguments of iterate_rdatasets/iterate_rdatas: a type, "ANY", "ANY/A", "RRSIG"
          InitZones,   \* initial contents
          NodeShapes,  \* nodes assigned with zone[name] = node
          MaxOps

VARIABLES zone, mut, nops, last, res, val
vars == <<zone, mut, nops, last, res, val>>

OutZone == "OUT"
AllNames == Names \cup {OutZone}
---------------------------------------------------------------------------
(* dns.node.NodeKind.classify *)
Kind(ty) == IF ty \in {"CNAME", "RRSIG/CNAME"} THEN "CNAME"
            ELSE IF ty \in {"NSEC", "NSEC3", "KEY", "RRSIG/NSEC", "RRSIG/NSEC3", "RRSIG/KEY"} THEN "NEUTRAL"
            ELSE "REGULAR"
(* dns.rdatatype.is_singleton *)
Singleton(ty) == ty \in {"SOA", "CNAME", "DNAME", "NSEC", "NXT"}
Min(a, b) == IF a < b THEN a ELSE b

R(ttl, rds) == [ttl |-> ttl, rds |-> rds]
EmptyNode == [x \in {} |-> 0]
EmptyRds == R(0, {})
Present(n) == n \in DOMAIN zone
NodeOf(z, n) == IF n \in DOMAIN z THEN z[n] ELSE EmptyNode
Store(z, n, node) == [k \in DOMAIN z \cup {n} |-> IF k = n THEN node ELSE z[k]]
Drop(z, n) == [k \in DOMAIN z \ {n} |-> z[k]]
Have(n, ty) == n \in DOMAIN zone /\ ty \in DOMAIN zone[n]

(* Node._append_rdataset / replace_rdataset: "the most recent change wins" *)
Insert(node, ty, r) ==
    LET others == DOMAIN node \ {ty}
        gone == IF Kind(ty) = "CNAME" THEN {x \in others : Kind(x) = "REGULAR"}
                ELSE IF Kind(ty) = "REGULAR" THEN {x \in others : Kind(x) = "CNAME"}
                ELSE {}
        keep == (DOMAIN node \ gone) \cup {ty}
    IN [x \in keep |-> IF x = ty THEN r ELSE node[x]]
Remove(node, ty) == [x \in DOMAIN node \ {ty} |-> node[x]]
(* Zone.delete_rdataset: "If the node has no rdatasets after the deletion, it will itself be deleted" *)
DelRds(z, n, ty) == IF n \notin DOMAIN z THEN z
                    ELSE IF DOMAIN Remove(z[n], ty) = {} THEN Drop(z, n) ELSE Store(z, n, Remove(z[n], ty))
(* Rdataset.add(rd, ttl) / union: update_ttl then add; singleton types keep one rdata *)
Merge(ty, old, ttl, rds) == R(IF old.rds = {} THEN ttl ELSE Min(old.ttl, ttl),
                              IF Singleton(ty) THEN rds ELSE old.rds \cup rds)
(* Node.classify *)
KindOfNode(node) == IF \E x \in DOMAIN node : Kind(x) = "CNAME" THEN "CNAME"
                    ELSE IF \E x \in DOMAIN node : Kind(x) = "REGULAR" THEN "REGULAR" ELSE "NEUTRAL"

(* values returned *)
None == <<"none">>
Nothing == <<"nothing">>
NodeSet(node) == {<<ty, node[ty].ttl, node[ty].rds>> : ty \in DOMAIN node}
NodeVal(node) == <<"node", NodeSet(node)>>
RdsVal(ty, r) == <<"rds", ty, r.ttl, r.rds>>
AllRds(z) == UNION {{<<n, ty, z[n][ty].ttl, z[n][ty].rds>> : ty \in DOMAIN z[n]} : n \in DOMAIN z}
Match(f, ty) == f \in {"ANY", "ANY/A"} \/ f = ty
Strip(z) == [n \in DOMAIN z |-> {<<ty, z[n][ty].rds>> : ty \in DOMAIN z[n]}]

L(op, n, ty, cr) == [op |-> op, n |-> n, ty |-> ty, cr |-> cr]
Done(l, z, r, v) == /\ zone' = z /\ res' = r /\ val' = v /\ last' = l /\ nops' = nops + 1
                    /\ UNCHANGED mut
Err(l, x) == Done(l, zone, "err", <<"exc", x>>)   \* x: documented family, "Immutable"/"Any" = class free
Ok(l, z, v) == Done(l, z, "ok", v)
---------------------------------------------------------------------------
(* nodes *)
FindNode(n, cr) == LET l == L("find_node", n, "-", cr) IN
    \/ n = OutZone /\ Err(l, "KeyError")
    \/ cr /\ ~mut /\ Err(l, "UseTransaction")
    \/ n # OutZone /\ ~Present(n) /\ ~cr /\ Err(l, "KeyError")
    \/ n # OutZone /\ Present(n) /\ Ok(l, zone, NodeVal(zone[n]))
    \/ n # OutZone /\ ~Present(n) /\ cr /\ mut /\ Ok(l, Store(zone, n, EmptyNode), NodeVal(EmptyNode))

GetNode(n, cr) == LET l == L("get_node", n, "-", cr) IN
    \/ n = OutZone /\ cr /\ Err(l, "KeyError")
    \/ cr /\ ~mut /\ Err(l, "UseTransaction")
    \/ n = OutZone /\ Ok(l, zone, None)
    \/ n # OutZone /\ ~Present(n) /\ ~cr /\ Ok(l, zone, None)
    \/ n # OutZone /\ Present(n) /\ Ok(l, zone, NodeVal(zone[n]))
    \/ n # OutZone /\ ~Present(n) /\ cr /\ mut /\ Ok(l, Store(zone, n, EmptyNode), NodeVal(EmptyNode))

DeleteNode(n) == LET l == L("delete_node", n, "-", FALSE) IN
    \/ ~mut /\ Err(l, "UseTransaction")
    \/ n = OutZone /\ Err(l, "KeyError")
    \/ n = OutZone /\ mut /\ Ok(l, zone, Nothing)
    \/ n # OutZone /\ mut /\ Ok(l, Drop(zone, n), Nothing)

(* rdatasets *)
FindRdataset(n, ty, cr) == LET l == L("find_rdataset", n, ty, cr) IN
    \/ n = OutZone /\ Err(l, "KeyError")
    \/ cr /\ ~mut /\ Err(l, "UseTransaction")
    \/ n # OutZone /\ ~Have(n, ty) /\ ~cr /\ Err(l, "KeyError")
    \/ Have(n, ty) /\ Ok(l, zone, RdsVal(ty, zone[n][ty]))
    \/ n # OutZone /\ ~Have(n, ty) /\ cr /\ mut
         /\ Ok(l, Store(zone, n, Insert(NodeOf(zone, n), ty, EmptyRds)), RdsVal(ty, EmptyRds))

GetRdataset(n, ty, cr) == LET l == L("get_rdataset", n, ty, cr) IN
    \/ n = OutZone /\ cr /\ Err(l, "KeyError")
    \/ cr /\ ~mut /\ Err(l, "UseTransaction")
    \/ n = OutZone /\ Ok(l, zone, None)
    \/ n # OutZone /\ ~Have(n, ty) /\ ~cr /\ Ok(l, zone, None)
    \/ Have(n, ty) /\ Ok(l, zone, RdsVal(ty, zone[n][ty]))
    \/ n # OutZone /\ ~Have(n, ty) /\ cr /\ mut
         /\ Ok(l, Store(zone, n, Insert(NodeOf(zone, n), ty, EmptyRds)), RdsVal(ty, EmptyRds))

DeleteRdataset(n, ty) == LET l == L("delete_rdataset", n, ty, FALSE) IN
    \/ ~mut /\ Err(l, "UseTransaction")
    \/ n = OutZone /\ Err(l, "KeyError")
    \/ n = OutZone /\ mut /\ Ok(l, zone, Nothing)
    \/ n # OutZone /\ mut /\ Ok(l, DelRds(zone, n, ty), Nothing)

ReplaceRdataset(n, ty, ttl, rds) == LET l == L("replace_rdataset", n, ty, FALSE) IN
    \/ ~mut /\ Err(l, "UseTransaction")
    \/ n = OutZone /\ Err(l, "KeyError")
    \/ n # OutZone /\ mut /\ Ok(l, Store(zone, n, Insert(NodeOf(zone, n), ty, R(ttl, rds))), Nothing)

FindRRset(n, ty) == LET l == L("find_rrset", n, ty, FALSE) IN
    \/ ~Have(n, ty) /\ Err(l, "KeyError")
    \/ Have(n, ty) /\ Ok(l, zone, <<"rrset", n, ty, zone[n][ty].ttl, zone[n][ty].rds>>)

GetRRset(n, ty) == LET l == L("get_rrset", n, ty, FALSE) IN
    \/ ~Have(n, ty) /\ Ok(l, zone, None)
    \/ Have(n, ty) /\ Ok(l, zone, <<"rrset", n, ty, zone[n][ty].ttl, zone[n][ty].rds>>)

(* zone.find_rdataset(n, ty, covers, create=cr).add(rd, ttl): "The rdataset returned is not
   a copy; changes to it will change the zone." *)
AddTo(n, ty, ttl, rd, cr) == LET l == L("addto", n, ty, cr) IN
    \/ n = OutZone /\ Err(l, "KeyError")
    \/ cr /\ ~mut /\ Err(l, "UseTransaction")
    \/ ~mut /\ Have(n, ty) /\ Err(l, "Immutable")
    \/ n # OutZone /\ ~Have(n, ty) /\ ~cr /\ Err(l, "KeyError")
    \/ n # OutZone /\ mut /\ (Have(n, ty) \/ cr)
         /\ LET node == IF Have(n, ty) THEN zone[n] ELSE Insert(NodeOf(zone, n), ty, EmptyRds)
                new == Merge(ty, node[ty], ttl, {rd})
            IN Ok(l, Store(zone, n, [node EXCEPT ![ty] = new]), RdsVal(ty, new))

IterRdatasets(f) == Ok(L("iterate_rdatasets", "-", f, FALSE), zone,
                       <<"items", {x \in AllRds(zone) : Match(f, x[2])}>>)
IterRdatas(f) == Ok(L("iterate_rdatas", "-", f, FALSE), zone,
                    <<"rdatas", UNION {{<<x[1], x[2], x[3], rd>> : rd \in x[4]} : x \in {y \in AllRds(zone) : Match(f, y[2])}}>>)

(* "The zone object may be treated like a Python dictionary" *)
GetItem(n) == LET l == L("getitem", n, "-", FALSE) IN
    \/ ~Present(n) /\ Err(l, "KeyError")
    \/ Present(n) /\ Ok(l, zone, NodeVal(zone[n]))
DictGet(n) == LET l == L("get", n, "-", FALSE) IN
    \/ n = OutZone /\ Err(l, "KeyError")
    \/ ~Present(n) /\ Ok(l, zone, None)
    \/ Present(n) /\ Ok(l, zone, NodeVal(zone[n]))
Contains(n) == LET l == L("contains", n, "-", FALSE) IN
    \/ n = OutZone /\ Err(l, "KeyError")
    \/ Ok(l, zone, <<"bool", Present(n)>>)
SetItem(n, node) == LET l == L("setitem", n, "-", FALSE) IN
    \/ ~mut /\ Err(l, "Immutable")
    \/ n = OutZone /\ Err(l, "KeyError")
    \/ n # OutZone /\ mut /\ Ok(l, Store(zone, n, node), Nothing)
DelItem(n) == LET l == L("delitem", n, "-", FALSE) IN
    \/ ~mut /\ Err(l, "Immutable")
    \/ ~Present(n) /\ Err(l, "KeyError")
    \/ Present(n) /\ mut /\ Ok(l, Drop(zone, n), Nothing)
Keys == Ok(L("keys", "-", "-", FALSE), zone, <<"names", DOMAIN zone>>)

(* get_soa: "raises NoSOA if there is no SOA RRset"; check_origin: NoSOA / NoNS / "KeyError if
   there is no origin node".  An EMPTY rdataset is neither clearly an RRset nor clearly none. *)
Apex == NodeOf(zone, "@")
Lacks(ty) == ty \notin DOMAIN Apex
MayLack(ty) == IF Lacks(ty) THEN TRUE ELSE Apex[ty].rds = {}   \* IF: TLC explores both sides of \/ in an action
GetSoa == LET l == L("get_soa", "-", "-", FALSE) IN
    \/ MayLack("SOA") /\ Err(l, IF Lacks("SOA") THEN "NoSOA" ELSE "Any")
    \/ ~Lacks("SOA") /\ \E rd \in Apex["SOA"].rds : Ok(l, zone, <<"soa", rd>>)
CheckOrigin == LET l == L("check_origin", "-", "-", FALSE) IN
    \/ ~Present("@") /\ Err(l, "KeyError")
    \/ MayLack("SOA") /\ Err(l, "NoSOA")
    \/ MayLack("NS") /\ Err(l, "NoNS")
    \/ ~Lacks("SOA") /\ ~Lacks("NS") /\ Ok(l, zone, Nothing)

(* zone == other: "Two zones are equal if they have the same origin, class, and nodes";
   whether a TTL is part of "the same nodes" is not stated *)
Eq(other, so, sc) == \E b \in BOOLEAN :
    /\ (so /\ sc /\ other = zone) => b
    /\ (~so \/ ~sc \/ Strip(other) # Strip(zone)) => ~b
    /\ Ok(L("eq", "-", "-", FALSE), zone, <<"bool", b>>)

(* one-call write transactions (every zone kind): add / replace / delete; the records go
   through the same node rule *)
TxnAdd(n, ty, ttl, rds) == LET l == L("txn_add", n, ty, FALSE) IN
    \/ (n = OutZone \/ (ty = "SOA" /\ n # "@")) /\ Err(l, "Any")
    \/ n # OutZone /\ ~(ty = "SOA" /\ n # "@")
         /\ Ok(l, Store(zone, n, Insert(NodeOf(zone, n), ty,
                          IF Have(n, ty) THEN Merge(ty, zone[n][ty], ttl, rds) ELSE R(ttl, rds))), Nothing)
TxnReplace(n, ty, ttl, rds) == LET l == L("txn_replace", n, ty, FALSE) IN
    \/ (n = OutZone \/ (ty = "SOA" /\ n # "@")) /\ Err(l, "Any")
    \/ n # OutZone /\ ~(ty = "SOA" /\ n # "@")
         /\ Ok(l, Store(zone, n, Insert(NodeOf(zone, n), ty, R(ttl, rds))), Nothing)
TxnDelType(n, ty) == LET l == L("txn_deltype", n, ty, FALSE) IN
    \/ n = OutZone /\ Err(l, "Any")
    \/ n # OutZone /\ Ok(l, IF Have(n, ty) THEN DelRds(zone, n, ty) ELSE zone, Nothing)
TxnDelName(n) == LET l == L("txn_delname", n, "-", FALSE) IN
    \/ n = OutZone /\ Err(l, "Any")
    \/ n # OutZone /\ Ok(l, Drop(zone, n), Nothing)

(* dns.node.Node reached through zone.find_node(n): the node of a plain zone is live, a
   versioned zone hands out immutable nodes *)
NodeFind(n, ty, cr) == LET l == L("node_find", n, ty, cr) IN
    \/ ~Present(n) /\ Err(l, "KeyError")
    \/ Present(n) /\ cr /\ ~mut /\ Err(l, "Immutable")
    \/ Present(n) /\ ~Have(n, ty) /\ ~cr /\ Err(l, "KeyError")
    \/ Have(n, ty) /\ Ok(l, zone, RdsVal(ty, zone[n][ty]))
    \/ Present(n) /\ ~Have(n, ty) /\ cr /\ mut
         /\ Ok(l, Store(zone, n, Insert(zone[n], ty, EmptyRds)), RdsVal(ty, EmptyRds))
NodeGet(n, ty, cr) == LET l == L("node_get", n, ty, cr) IN
    \/ ~Present(n) /\ Err(l, "KeyError")
    \/ Present(n) /\ cr /\ ~mut /\ Err(l, "Immutable")
    \/ Present(n) /\ ~Have(n, ty) /\ ~cr /\ Ok(l, zone, None)
    \/ Have(n, ty) /\ Ok(l, zone, RdsVal(ty, zone[n][ty]))
    \/ Present(n) /\ ~Have(n, ty) /\ cr /\ mut
         /\ Ok(l, Store(zone, n, Insert(zone[n], ty, EmptyRds)), RdsVal(ty, EmptyRds))
NodeDel(n, ty) == LET l == L("node_delete", n, ty, FALSE) IN     \* the node stays, even when empty
    \/ ~Present(n) /\ Err(l, "KeyError")
    \/ Present(n) /\ ~mut /\ Err(l, "Immutable")
    \/ Present(n) /\ mut /\ Ok(l, Store(zone, n, Remove(zone[n], ty)), Nothing)
NodeRepl(n, ty, ttl, rds) == LET l == L("node_replace", n, ty, FALSE) IN
    \/ ~Present(n) /\ Err(l, "KeyError")
    \/ Present(n) /\ ~mut /\ Err(l, "Immutable")
    \/ Present(n) /\ mut /\ Ok(l, Store(zone, n, Insert(zone[n], ty, R(ttl, rds))), Nothing)
(* classify(), is_immutable(), and dns.node.ImmutableNode(node): same content and kind *)
NodeInfo(n) == LET l == L("node_info", n, "-", FALSE) IN
    \/ ~Present(n) /\ Err(l, "KeyError")
    \/ Present(n) /\ Ok(l, zone, <<"info", NodeSet(zone[n]), KindOfNode(zone[n]), ~mut>>)
---------------------------------------------------------------------------
RdSets(ty) == IF Singleton(ty) THEN {{k} : k \in RdIds} ELSE {{k} : k \in RdIds} \cup {RdIds}
NoEmpties(z) == \A n \in DOMAIN z : DOMAIN z[n] # {} /\ \A ty \in DOMAIN z[n] : z[n][ty].rds # {}

Init == /\ zone \in InitZones /\ mut \in BOOLEAN /\ (~mut => NoEmpties(zone))
        /\ nops = 0 /\ last = L("init", "-", "-", FALSE) /\ res = "ok" /\ val = Nothing

Step ==
    \/ \E n \in AllNames, cr \in BOOLEAN : FindNode(n, cr) \/ GetNode(n, cr)
    \/ \E n \in AllNames : DeleteNode(n) \/ GetItem(n) \/ DictGet(n) \/ Contains(n) \/ DelItem(n) \/ TxnDelName(n) \/ NodeInfo(n)
    \/ \E n \in AllNames, ty \in Types, cr \in BOOLEAN :
          FindRdataset(n, ty, cr) \/ GetRdataset(n, ty, cr) \/ NodeFind(n, ty, cr) \/ NodeGet(n, ty, cr)
    \/ \E n \in AllNames, ty \in Types :
          DeleteRdataset(n, ty) \/ FindRRset(n, ty) \/ GetRRset(n, ty) \/ TxnDelType(n, ty) \/ NodeDel(n, ty)
    \/ \E n \in AllNames, ty \in Types, ttl \in TTLs : \E rds \in RdSets(ty) \cup {{}} :
          ReplaceRdataset(n, ty, ttl, rds) \/ NodeRepl(n, ty, ttl, rds)
    \/ \E n \in AllNames, ty \in Types, ttl \in TTLs : \E rds \in RdSets(ty) :
          TxnAdd(n, ty, ttl, rds) \/ TxnReplace(n, ty, ttl, rds)
    \/ \E n \in AllNames, ty \in Types, ttl \in TTLs, rd \in RdIds, cr \in BOOLEAN : AddTo(n, ty, ttl, rd, cr)
    \/ \E f \in Filters : IterRdatasets(f) \/ IterRdatas(f)
    \/ \E n \in AllNames, node \in NodeShapes : SetItem(n, node)
    \/ Keys \/ GetSoa \/ CheckOrigin
    \/ \E o \in InitZones \cup {zone}, so, sc \in BOOLEAN : Eq(o, so, sc)

Next == nops < MaxOps /\ Step
Spec == Init /\ [][Next]_vars
---------------------------------------------------------------------------
(* Laws of the model (checked by TLC on MC_ZoneDirect) *)
TypeOK == /\ mut \in BOOLEAN /\ res \in {"ok", "err"} /\ DOMAIN zone \subseteq Names
          /\ \A n \in DOMAIN zone : /\ DOMAIN zone[n] \subseteq Types
                                    /\ \A ty \in DOMAIN zone[n] : zone[n][ty].rds \subseteq RdIds
(* "A node is either a CNAME node or an 'other data' node": from any history *)
Exclusive == \A n \in DOMAIN zone :
                ~\E a, b \in DOMAIN zone[n] : Kind(a) = "CNAME" /\ Kind(b) = "REGULAR"
SingletonsSingle == \A n \in DOMAIN zone : \A ty \in DOMAIN zone[n] :
                       Singleton(ty) => Cardinality(zone[n][ty].rds) <= 1
(* a versioned zone never holds an empty node or an empty rdataset *)
VersionedNoEmpties == ~mut => NoEmpties(zone)

ReadOps == {"find_rrset", "get_rrset", "iterate_rdatasets", "iterate_rdatas", "getitem", "get", "contains",
            "keys", "get_soa", "check_origin", "eq", "node_info"}
TxnOps == {"txn_add", "txn_replace", "txn_deltype", "txn_delname"}
RefusedIsNoop == [][res' = "err" => zone' = zone]_vars
ReadsDontWrite == [][(last'.op \in ReadOps \/ (~last'.cr /\ last'.op \in {"find_node", "get_node", "find_rdataset",
                        "get_rdataset", "node_find", "node_get"})) => zone' = zone]_vars
(* "Versions are immutable once committed": only a transaction changes a versioned zone *)
VersionedOnlyTxn == [][(~mut /\ zone' # zone) => last'.op \in TxnOps]_vars
(* get_* does not raise for a missing node / rdataset *)
GetNeverKeyError == [][(last'.op \in {"get_node", "get_rdataset", "get_rrset"} /\ res' = "err" /\ val' = <<"exc", "KeyError">>)
                         => (last'.n = OutZone /\ last'.cr)]_vars
(* deleting what is absent changes nothing (except that Zone.delete_rdataset removes a node
   that "has no rdatasets after the deletion") *)
DeleteAbsentNoop ==
    [][/\ last'.op \in {"delete_node", "delete_rdataset", "txn_deltype", "txn_delname", "node_delete"}
       /\ IF last'.ty = "-" THEN ~Present(last'.n) ELSE ~Have(last'.n, last'.ty)
       /\ ~(last'.op = "delete_rdataset" /\ Present(last'.n) /\ zone[last'.n] = EmptyNode)
       => zone' = zone]_vars
DeleteLastDeletesNode ==
    [][(last'.op \in {"delete_rdataset", "txn_deltype"} /\ res' = "ok" /\ zone' # zone /\ last'.n \in DOMAIN zone')
         => DOMAIN zone'[last'.n] # {}]_vars

(* find_* raises exactly when get_* returns None, and both are deterministic without create *)
Raises(A) == ENABLED (A /\ res' = "err")
Succeeds(A) == ENABLED (A /\ res' = "ok")
GivesNone(A) == ENABLED (A /\ val' = None)
FindIffGetNone ==
    \A n \in AllNames :
        /\ Raises(FindNode(n, FALSE)) <=> GivesNone(GetNode(n, FALSE))
        /\ Raises(FindNode(n, FALSE)) <=> ~Succeeds(FindNode(n, FALSE))
        /\ ~Raises(GetNode(n, FALSE))
        /\ \A ty \in Types :
              /\ Raises(FindRdataset(n, ty, FALSE)) <=> GivesNone(GetRdataset(n, ty, FALSE))
              /\ Raises(FindRdataset(n, ty, FALSE)) <=> ~Succeeds(FindRdataset(n, ty, FALSE))
              /\ Raises(FindRRset(n, ty)) <=> GivesNone(GetRRset(n, ty))
              /\ Raises(FindRRset(n, ty)) <=> Raises(FindRdataset(n, ty, FALSE))
              /\ ~Raises(GetRdataset(n, ty, FALSE)) /\ ~Raises(GetRRset(n, ty))
(* create=True is idempotent: repeating a successful creating call returns the same and
   changes nothing *)
Again == \/ last.op = "find_node" /\ FindNode(last.n, TRUE)
         \/ last.op = "get_node" /\ GetNode(last.n, TRUE)
         \/ last.op = "find_rdataset" /\ FindRdataset(last.n, last.ty, TRUE)
         \/ last.op = "get_rdataset" /\ GetRdataset(last.n, last.ty, TRUE)
         \/ last.op = "node_find" /\ NodeFind(last.n, last.ty, TRUE)
         \/ last.op = "node_get" /\ NodeGet(last.n, last.ty, TRUE)
CreateIdempotent ==
    (res = "ok" /\ last.cr /\ last.n # OutZone /\ last.op \in {"find_node", "get_node", "find_rdataset", "get_rdataset", "node_find", "node_get"})
        => /\ ENABLED (Again /\ res' = "ok" /\ zone' = zone /\ val' = val)
           /\ (mut => ~ENABLED (Again /\ (res' # "ok" \/ zone' # zone \/ val' # val)))
=============================================================================
