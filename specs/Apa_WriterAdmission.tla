------------------------- MODULE Apa_WriterAdmission -------------------------
(* X04 - Apalache wrapper of WriterAdmissionAbs: the inductive invariant is checked
   symbolically (SMT) for a FIXED number of threads and a bound on the number of queued /
   set events in the ARBITRARY start state (Gen), but for unbounded event counters, i.e.
   for arbitrarily long executions with arbitrarily many transactions per writer.
     base:   apalache-mc check --cinit=CInitN --init=Init    --inv=ApaIndInv --length=0
     step:   apalache-mc check --cinit=CInitN --init=IndInit --inv=ApaIndInv --length=1
     goal:   apalache-mc check --cinit=CInitN --init=IndInit --inv=Safety    --length=0 *)
EXTENDS WriterAdmissionAbs, Apalache

CInit3 == Writers = {1, 2, 3} /\ Others = {5}
CInit4 == Writers = {1, 2, 3, 4} /\ Others = {5, 6}
CInit6 == Writers = {1, 2, 3, 4, 5, 6} /\ Others = {7, 8}

(* TypeSeq (waiters \in Seq(Nat)) is the type annotation here *)
ApaIndInv == TypeRest /\ IndCore

IndInit ==
    /\ pc \in [Threads -> WLabels \cup OLabels]
    /\ lock \in Threads \cup {0}
    /\ writeTxn \in Writers \cup {0}
    /\ nextEv \in Nat
    /\ writeEvent \in Nat
    /\ evSet = Gen(8)
    /\ waiters = Gen(7)
    /\ myEv \in [Writers -> Nat]
    /\ ApaIndInv

(* non-vacuity: each of these must be VIOLATED from IndInit *)
Wit_Queue == ~(Len(waiters) >= 2 /\ writeTxn # 0 /\ lock # 0 /\ nextEv > 1000000)
Wit_Handoff == ~(writeEvent # 0 /\ Len(waiters) >= 1 /\ writeEvent \notin evSet)
=============================================================================
