\* One of the exhaustive configurations of the thorough tier (checks/c13.py writes the full list,
\* each split by kind of exchange; see notes/C13.md).  Usable stand-alone:
\*   tlc -config MC_XfrInbound_thorough.cfg MC_XfrInbound.tla
SPECIFICATION Spec
CONSTANTS
  Contents <- CSmall
  SerialSeqs <- SS123
  MaxSteps = 2
  Kinds <- AllKinds
  FaultKinds <- AllFaults
  MaxCuts = 1
  QModes = {"first"}
  Revs = {FALSE}
INVARIANT TypeOK
INVARIANT ErrorLeavesZone
INVARIANT NoTxnLeftOpen
INVARIANT Converges
INVARIANT RejectsMalformed
INVARIANT AcceptsAcceptable
INVARIANT ValidConverges
INVARIANT BehindRefused
INVARIANT Terminates
INVARIANT ZoneContentWellFormed
PROPERTY CommitPoint
PROPERTY DoneIsFinal
CHECK_DEADLOCK FALSE
