-------------------------------- MODULE Cache --------------------------------
(* Sequential specification of the resolver caches (dns.resolver.Cache and
   dns.resolver.LRUCache), property C17.

   kind = "plain": an unbounded map with expiry.  Expired entries may be physically
   retained or cleaned at any time -- the model only talks about LIVE entries.
   kind = "lru":   a bounded map with a recency order (most recent first).  Physical
   content matters here (the bound and the eviction order are about physical entries):
   an expired entry stays until a lookup finds it.

   Time is an integer number of ticks.  An entry is fresh iff now < exp ("at or after
   its expiration time" is stale). *)
EXTENDS Integers, Sequences, FiniteSets, TLC

CONSTANTS Keys, Vals, TTLs, Sizes, Steps, Kinds

VARIABLES kind,      \* "plain" | "lru"
          now,
          data,      \* key -> [val, exp, hits]   (domain = keys physically present)
          order,     \* lru: sequence of the keys present, most recently used first
          max,       \* lru: the limit
          hits, misses, gets,   \* counters since the last reset_statistics; gets = lookups made
          res        \* result of the last call: <<"-">> | <<"none">> | <<"val", v>> | <<"int", n>>

vars == <<kind, now, data, order, max, hits, misses, gets, res>>

---------------------------------------------------------------------------
Fresh(k) == k \in DOMAIN data /\ now < data[k].exp
Without(f, k) == [x \in DOMAIN f \ {k} |-> f[x]]
SeqWithout(s, k) == SelectSeq(s, LAMBDA x : x # k)
Last(s) == s[Len(s)]
Front(s) == SubSeq(s, 1, Len(s) - 1)
Range(s) == {s[i] : i \in 1..Len(s)}
Max2(a, b) == IF a > b THEN a ELSE b

(* evict from the least recently used end until there is room for one more entry *)
RECURSIVE EvictTo(_, _, _)
EvictTo(d, o, n) ==      \* <<data, order>> with at most n entries
    IF Len(o) <= n THEN <<d, o>>
    ELSE EvictTo(Without(d, Last(o)), Front(o), n)

Live == {k \in DOMAIN data : now < data[k].exp}

---------------------------------------------------------------------------
Advance(d) ==
    /\ d > 0 /\ now' = now + d /\ res' = <<"-">>
    /\ UNCHANGED <<kind, data, order, max, hits, misses, gets>>

Put(k, v, exp) ==
    /\ res' = <<"-">>
    /\ IF kind = "lru"
       THEN LET d0 == Without(data, k)
                o0 == SeqWithout(order, k)
                ev == EvictTo(d0, o0, max - 1)
            IN /\ data' = (k :> [val |-> v, exp |-> exp, hits |-> 0]) @@ ev[1]
               /\ order' = <<k>> \o ev[2]
       ELSE /\ data' = (k :> [val |-> v, exp |-> exp, hits |-> 0]) @@ Without(data, k)
            /\ order' = order
    /\ UNCHANGED <<kind, now, max, hits, misses, gets>>

Get(k) ==
    /\ gets' = gets + 1
    /\ IF Fresh(k)
       THEN /\ res' = <<"val", data[k].val>>
            /\ hits' = hits + 1 /\ misses' = misses
            /\ data' = [data EXCEPT ![k].hits = @ + 1]
            /\ order' = IF kind = "lru" THEN <<k>> \o SeqWithout(order, k) ELSE order
       ELSE /\ res' = <<"none">>
            /\ misses' = misses + 1 /\ hits' = hits
            \* lru: a stale entry found by a lookup is dropped
            /\ data' = IF kind = "lru" /\ k \in DOMAIN data THEN Without(data, k) ELSE data
            /\ order' = IF kind = "lru" THEN SeqWithout(order, k) ELSE order
    /\ UNCHANGED <<kind, now, max>>

Flush(k) ==
    /\ res' = <<"-">>
    /\ data' = Without(data, k)
    /\ order' = SeqWithout(order, k)
    /\ UNCHANGED <<kind, now, max, hits, misses, gets>>

FlushAll ==
    /\ res' = <<"-">>
    /\ data' = <<>> /\ order' = <<>>
    /\ UNCHANGED <<kind, now, max, hits, misses, gets>>

(* lru only: a smaller limit takes effect at once -- the cache never holds more entries
   than its limit *)
SetMaxSize(n) ==
    /\ kind = "lru"
    /\ res' = <<"-">>
    /\ max' = Max2(n, 1)
    /\ LET ev == EvictTo(data, order, Max2(n, 1))
       IN data' = ev[1] /\ order' = ev[2]
    /\ UNCHANGED <<kind, now, hits, misses, gets>>

ResetStatistics ==
    /\ res' = <<"-">>
    /\ hits' = 0 /\ misses' = 0 /\ gets' = 0
    /\ UNCHANGED <<kind, now, data, order, max>>

(* lru only *)
GetHitsForKey(k) ==
    /\ kind = "lru"
    /\ res' = <<"int", IF Fresh(k) THEN data[k].hits ELSE 0>>
    /\ UNCHANGED <<kind, now, data, order, max, hits, misses, gets>>

---------------------------------------------------------------------------
Init == /\ kind \in Kinds /\ now = 0 /\ data = <<>> /\ order = <<>>
        /\ max \in Sizes /\ hits = 0 /\ misses = 0 /\ gets = 0 /\ res = <<"-">>

Next ==
    \/ \E d \in Steps : Advance(d)
    \/ \E k \in Keys, v \in Vals, ttl \in TTLs : Put(k, v, now + ttl)
    \/ \E k \in Keys : Get(k) \/ Flush(k) \/ GetHitsForKey(k)
    \/ FlushAll \/ ResetStatistics
    \/ \E n \in Sizes : SetMaxSize(n)

Spec == Init /\ [][Next]_vars

---------------------------------------------------------------------------
TypeOK == kind \in {"plain", "lru"} /\ hits >= 0 /\ misses >= 0
(* lru: never more entries than the limit; order and data agree; no duplicates *)
LruBound == kind = "lru" => Len(order) <= max
OrderIsData == kind = "lru" => (Range(order) = DOMAIN data /\ Len(order) = Cardinality(DOMAIN data))
(* every lookup is counted exactly once *)
CountersAccount == hits + misses = gets
(* a value is only ever returned for a fresh entry, and it is the stored one *)
NeverStale == [][\A k \in Keys : (gets' = gets + 1 /\ res'[1] = "val" /\ hits' = hits + 1 /\
                   k \in DOMAIN data /\ data'[k].hits # data[k].hits) => (now < data[k].exp /\ res'[2] = data[k].val)]_vars
(* eviction removes only from the least recently used end: the keys a put or a resize
   drops form a suffix of the previous recency order *)
SuffixRemoved(old, new) ==
    LET removed == Range(old) \ Range(new)
    IN \A i, j \in 1..Len(old) : (i < j /\ old[i] \in removed) => old[j] \in removed
EvictsLruFirst ==
    [][/\ ((kind = "lru" /\ \E k \in Keys, v \in Vals, ttl \in TTLs : Put(k, v, now + ttl))
            => SuffixRemoved(SeqWithout(order, order'[1]), order'))
       /\ ((\E n \in Sizes : SetMaxSize(n)) => SuffixRemoved(order, order'))]_vars
(* the most recently stored unexpired answer is what a lookup returns, unless the key
   was flushed or evicted in between: a fresh physically present entry always hits *)
FreshHits == [][\A k \in Keys : (Get(k) /\ Fresh(k)) => res' = <<"val", data[k].val>>]_vars
=============================================================================
