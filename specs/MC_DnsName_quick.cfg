SPECIFICATION Spec
CONSTANTS
  MaxLabel = 63
  MaxWire = 255
  KLabel = 1
  KTwo = 1
  KText = 1
  KWire = 1
  VAlpha = {65, 91, 97}
  BigK = {1, 62, 63}
  BigFill = {255, 90}
  PairAlpha = {0, 64, 65, 90, 91, 97, 255}
  ZAlpha = {65}
  Modes = {"pair", "mimic", "triple", "neigh", "neigh2", "cons"}
INVARIANT Total
INVARIANT Antisymmetric
INVARIANT EqualIffFold
INVARIANT RelativeFirst
INVARIANT RelationCoherent
INVARIANT CommonCoherent
INVARIANT SplitParentCoherent
INVARIANT RelativizeRoundTrip
INVARIANT DeepestIsSuper
INVARIANT SubdomainIsWireSuffix
INVARIANT Transitive
INVARIANT SubTransitive
INVARIANT NeighOk
INVARIANT NeighInverse
INVARIANT ConstructValid
INVARIANT ConcatValid
INVARIANT SplitValid
CHECK_DEADLOCK FALSE
