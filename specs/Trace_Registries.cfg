INIT TraceInit
NEXT TraceNext
CONSTANTS
  Strict = FALSE
  Tier = "thorough"
  Ops = {}
  Rcs = {}
  Names = {}
  Vers = {}
  ELos = {}
  RVals = {}
  RTexts = {}
CONSTRAINT Accepted
POSTCONDITION Post
CHECK_DEADLOCK FALSE
