SPECIFICATION Spec
CONSTANTS
  Names = {"@", "a"}
  Types = {"A", "CNAME", "NSEC", "SOA"}
  RdIds = {1}
  TTLs = {300, 600}
  Filters <- MCFiltersSmall
  InitZones <- MCInitTrim
  NodeShapes <- MCShapesTrim
  MaxOps = 3
INVARIANT TypeOK
INVARIANT Exclusive
INVARIANT SingletonsSingle
INVARIANT VersionedNoEmpties
INVARIANT FindIffGetNone
INVARIANT CreateIdempotent
PROPERTY RefusedIsNoop
PROPERTY ReadsDontWrite
PROPERTY VersionedOnlyTxn
PROPERTY GetNeverKeyError
PROPERTY DeleteAbsentNoop
PROPERTY DeleteLastDeletesNode
CHECK_DEADLOCK FALSE
