SPECIFICATION Spec
CONSTANTS
  Names = {"a"}
  Types = {"A", "CNAME", "NSEC", "RRSIG/CNAME"}
  RdIds = {1}
  TTLs = {300}
  Filters <- MCFiltersSmall
  InitZones <- MCInitDeep
  NodeShapes <- MCShapesTrim
  MaxOps = 3
INVARIANT TypeOK
INVARIANT Exclusive
INVARIANT SingletonsSingle
INVARIANT VersionedNoEmpties
INVARIANT FindIffGetNone
INVARIANT CreateIdempotent
PROPERTY RefusedIsNoop
PROPERTY ReadsDontWrite
PROPERTY VersionedOnlyTxn
PROPERTY GetNeverKeyError
PROPERTY DeleteAbsentNoop
PROPERTY DeleteLastDeletesNode
CHECK_DEADLOCK FALSE
