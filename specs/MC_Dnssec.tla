----------------------------- MODULE MC_Dnssec -----------------------------
(* Internal laws of the C15 oracle, checked by TLC on every input of the declared
   universes (a "behaviour" is one input: MInit picks it, nothing moves).  They tie the
   operators of Dnssec.tla to each other, to a second literal transcription of the
   RFC 4034 6.2 list, and to known answers printed in the RFCs. *)
EXTENDS DnssecUniverse

CONSTANT MPart              \* "all", or one part of the universe (the check runs the parts side by side)
VARIABLE x
MUniverse == CASE MPart = "all"  -> CanonCases \cup SigCases \cup KeyCases \cup BitmapCases \cup ZoneCases \cup Nsec3Cases
               [] MPart = "rest" -> CanonCases \cup KeyCases \cup BitmapCases \cup Nsec3Cases
               [] MPart = "zone" -> ZoneCases
               [] MPart = "sig0" -> SigPart(0)
               [] MPart = "sig1" -> SigPart(1)
               [] MPart = "sig2" -> SigPart(2)
               [] MPart = "sig3" -> SigPart(3)
MInit == x \in MUniverse
MNext == UNCHANGED x

Fold(bs) == [i \in 1..Len(bs) |-> Lower(bs[i])]
LowerSegs(segs) == [i \in 1..Len(segs) |-> IF segs[i][1] = "n" THEN <<"n", LowerName(segs[i][2])>> ELSE segs[i]]
Reverse(s) == [i \in 1..Len(s) |-> s[Len(s) + 1 - i]]

(* RFC 4034 6.2 item 3 minus NSEC (RFC 6840 5.1), HINFO dropped (no name inside):
   NS MD MF CNAME SOA MB MG MR PTR MINFO MX RP AFSDB RT SIG PX NXT NAPTR KX SRV DNAME A6 RRSIG *)
Rfc4034List == {2, 3, 4, 5, 6, 7, 8, 9, 12, 14, 15, 17, 18, 21, 24, 26, 30, 35, 36, 33, 39, 38, 46}

CanonLaws ==
    x.k = "canon" =>
        LET cn == Canon(x.t, x.segs)
            wr == Wire(x.segs)
        IN  /\ Len(cn) = Len(wr) /\ Fold(cn) = Fold(wr)              \* only letter case may differ
            /\ Canon(x.t, LowerSegs(x.segs)) = Wire(LowerSegs(x.segs)) \* nothing but names is touched
            /\ (x.t \in Rfc4034List => cn = Wire(LowerSegs(x.segs)))  \* listed: every name folds
            /\ (x.t \notin Rfc4034List => cn = wr)                    \* not listed: nothing folds
            /\ Canon(x.t, <<<<"b", cn>>>>) = cn

SigLaws ==
    x.k = "sig" =>
        LET cs == [i \in 1..Len(x.rrs) |-> Canon(x.t, x.rrs[i])]
            s  == CanonOrder(cs)
            o2 == SigOwner(x.owner, x.sg.labels)
            si == SigInput(x.sg, x.owner, x.t, x.c, x.rrs)
        IN  /\ ToSet(s) = ToSet(cs)
            /\ \A i \in 1..Len(s) - 1 : OctLess(s[i], s[i + 1]) /\ ~OctLess(s[i + 1], s[i])
            /\ x.sg.labels < Len(x.owner) =>
                   /\ Len(o2) = x.sg.labels + 1 /\ o2[1] = <<42>>
                   /\ SubSeq(o2, 2, Len(o2)) = SubSeq(x.owner, Len(x.owner) - x.sg.labels + 1, Len(x.owner))
            /\ x.sg.labels >= Len(x.owner) => o2 = x.owner
            /\ SubSeq(si, 1, 18) = SigPrefix(x.sg)
            /\ Len(si) = 18 + Len(NameWire(x.sg.signer))
                         + Len(s) * (Len(NameWire(o2)) + 10) + Len(Flat(s))
            /\ SigVerdict(x.owner, x.sg.labels) \in {"reject", "accept", "free"}

(* the key tag as "ones-complement-like sum of big-endian 16-bit words" (second formulation) *)
Word(rd, w) == rd[2 * w - 1] * 256 + (IF 2 * w <= Len(rd) THEN rd[2 * w] ELSE 0)
RECURSIVE WordSum(_, _, _)
WordSum(rd, lo, hi) ==
    IF lo > hi THEN 0
    ELSE IF lo = hi THEN Word(rd, lo)
    ELSE LET mid == (lo + hi) \div 2 IN WordSum(rd, lo, mid) + WordSum(rd, mid + 1, hi)
Words(rd) == WordSum(rd, 1, (Len(rd) + 1) \div 2)
KeyLaws ==
    x.k = "keytag" =>
        /\ KeyTag(x.rd) \in 0..65535
        /\ x.rd[4] # 1 => KeyTag(x.rd) = (Words(x.rd) + (Words(x.rd) \div 65536)) % 65536

BitmapLaws ==
    x.k = "bitmap" =>
        LET T  == ToSet(x.types)
            bm == BitmapWire(T)
        IN  /\ BitmapTypes(bm) = T
            /\ bm[2] \in 1..32 /\ bm[2 + bm[2]] # 0

ZoneLaws ==
    x.k = "zone" =>
        LET z  == x.z
            s  == ChainOrder(z)
            ch == NsecChain(z)
            nx == [n \in AuthNames(z) |-> (CHOOSE c \in ch : c[1] = n)[2]]
        IN  /\ Len(s) = Cardinality(AuthNames(z)) /\ ToSet(s) = AuthNames(z)
            /\ s[1] = Apex(z)
            /\ \A i \in 1..Len(s) - 1 : NameLess(s[i], s[i + 1])
            /\ Cardinality(ch) = Len(s)
            /\ {nx[n] : n \in AuthNames(z)} = AuthNames(z)                   \* next is a bijection ...
            /\ \A i \in 1..Len(s) : nx[s[i]] = s[(i % Len(s)) + 1]            \* ... and one cycle in order
            /\ \A n \in ZNames(z) : Occluded(z, n) => n \notin AuthNames(z)
            /\ \A p \in SignedRRsets(z) : p[1] \in AuthNames(z) /\ p[2] # TRRSIG
                                          /\ (IsCut(z, p[1]) => p[2] \in {TDS, TNSEC})
            /\ \A n \in AuthNames(z) : <<n, TNSEC>> \in SignedRRsets(z)
            /\ ZonemdPreimage(z) = ZonemdPreimage([z EXCEPT !.rrs = Reverse(z.rrs)])
            /\ ZonemdPreimage(z) = ZonemdPreimage([z EXCEPT !.rrs = z.rrs \o <<z.rrs[1]>>])

Nsec3Laws ==
    x.k = "nsec3" => Nsec3Pre0(x.n, x.salt) = CanonName(x.n) \o x.salt

(* known answers from the RFC texts *)
Rfc4034Key ==   \* RFC 4034 5.4: dskey.example.com. DNSKEY 256 3 5 ( AQOeiiR0... ) ; key id = 60485
    <<1, 0, 3, 5, 1, 3, 158, 138, 36, 116, 24, 227, 24, 144, 59, 33, 90, 132, 138, 207, 213, 243, 127, 2, 107, 212,
      6, 45, 178, 108, 119, 76, 105, 9, 104, 213, 213, 109, 248, 191, 218, 145, 230, 243, 109, 154, 39, 152, 136,
      244, 19, 51, 53, 124, 94, 96, 41, 153, 13, 16, 253, 245, 102, 48, 98, 165, 18, 118, 51, 38, 152, 10, 97, 93,
      219, 241, 122, 5, 221, 252, 206, 126, 95, 179, 171, 204, 160, 90, 49, 176, 149, 116, 82, 212, 82, 30, 131,
      135, 7, 137, 6, 49, 21, 191, 151, 246, 195, 8, 204, 245, 124, 220, 156, 231, 254, 16, 246, 237, 27, 208, 204,
      6, 96, 3, 140, 80, 220, 219, 15, 235, 150, 60, 47, 23>>
KnownAnswers ==
    /\ KeyTag(Rfc4034Key) = 60485
    (* the constructed keys really sit where a second carry would appear, and App. B truncates there *)
    /\ {KeySum(rd) : rd \in CarryKeys} = {131071, 196606, 262141, 131070}
    /\ KeyTag(<<1, 1, 3, 8, 255, 255, 251, 247>>) = 0 /\ KeyTag(<<1, 1, 3, 8, 255, 255, 251, 246>>) = 65535
    /\ Base32Hex(<<102, 111, 111, 98, 97>>) = <<99, 112, 110, 109, 117, 111, 106, 49>>     \* RFC 4648 10: "fooba" -> CPNMUOJ1
    /\ BitmapWire({1, 15, 46, 47, 1234}) =                                                 \* RFC 4034 4.3 example
           <<0, 6, 64, 1, 0, 0, 0, 3, 4, 27, 0, 0, 0, 0, 0, 0, 0, 0, 0, 0, 0, 0, 0, 0, 0, 0, 0, 0, 0, 0, 0, 0, 0, 0, 0, 0, 32>>
    /\ NameLess(<< <<101>> >>, << <<97>>, <<101>> >>) /\ NameLess(<< <<97>>, <<101>> >>, << <<90>>, <<97>>, <<101>> >>)
    /\ NameLess(<< <<90>>, <<97>>, <<101>> >>, << <<122>>, <<101>> >>)                    \* RFC 4034 6.1 excerpt: e < a.e < Z.a.e < z.e
    /\ NameLess(<< <<42>>, <<122>>, <<101>> >>, << <<200>>, <<122>>, <<101>> >>)
=============================================================================
