SPECIFICATION Spec
CONSTANTS
  Names = {"@", "a", "b.a"}
  Types = {"SOA", "NS", "A", "CNAME", "NSEC", "RRSIG/A", "RRSIG/CNAME", "RRSIG/NSEC"}
  RdIds = {1, 2}
  TTLs = {300, 600}
  Filters <- MCFilters
  InitZones <- MCInitAll
  NodeShapes <- MCShapes
  MaxOps = 1
INVARIANT TypeOK
INVARIANT Exclusive
INVARIANT SingletonsSingle
INVARIANT VersionedNoEmpties
INVARIANT FindIffGetNone
INVARIANT CreateIdempotent
PROPERTY RefusedIsNoop
PROPERTY ReadsDontWrite
PROPERTY VersionedOnlyTxn
PROPERTY GetNeverKeyError
PROPERTY DeleteAbsentNoop
PROPERTY DeleteLastDeletesNode
CHECK_DEADLOCK FALSE
