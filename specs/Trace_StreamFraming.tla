------------------------- MODULE Trace_StreamFraming -------------------------
(* Trace validation for the stream half of C18: every octet run the scripted stream socket
   accepted or delivered, every would-block, and the end of send_tcp / receive_tcp / tcp
   must be a step of StreamFraming. *)
EXTENDS StreamFraming, VTrace

VARIABLES t, l
tvars == <<vars, t, l>>

TraceInit ==
    /\ RegInit
    /\ t \in 1..NTraces /\ l = 1
    /\ cfg = Log[t].cfg
    /\ phase = IF cfg.conn = "own" THEN "connect" ELSE IF cfg.api = "recv" THEN "len" ELSE "send"
    /\ sent = <<>> /\ need = 2 /\ got = 0 /\ buf = <<>> /\ pos = 0
    /\ now = 0 /\ nblocks = 0 /\ result = "-"

e == Ev(t)[l]
Adv == l' = l + 1 /\ t' = t

\* what must go on the wire: two-octet length, most significant octet first, then the message
QW == Log[t].qwire
Frame == <<Len(QW) \div 256, Len(QW) % 256>> \o QW

\* once the deadline has passed the library must not touch the socket again
AfterDeadline == Check(t, l, "NothingAfterDeadline", phase # "timeout")

TAccept ==
    /\ e.op = "accept" /\ AfterDeadline
    /\ LET n == Len(e.bytes) IN
       /\ Check(t, l, "NothingWrittenAfterFrame", phase = "send" /\ n >= 1 /\ Len(sent) + n <= Len(Frame))
       /\ Check(t, l, "WritesEveryOctetOnceInOrder", e.bytes = SubSeq(Frame, Len(sent) + 1, Len(sent) + n))
       /\ Take(n)
    /\ Adv

TRead ==
    /\ e.op = "read" /\ AfterDeadline
    /\ Check(t, l, "ReadsOnlyWhatIsNeeded", phase \in {"len", "body"} /\ e.want >= 1 /\ e.want <= need - got)
    /\ IF e.n = 0 THEN Eof ELSE Chunk(e.n)
    /\ Adv

TConnected == e.op = "connected" /\ AfterDeadline /\ Connected /\ Adv
\* the library asked the socket for more after the environment's last event: after the deadline that
\* is NothingAfterDeadline, otherwise it did not stop where the specification says the call ends
TExhausted == e.op = "exhausted" /\ AfterDeadline /\ Check(t, l, "AsksBeyondEndOfCall", FALSE) /\ UNCHANGED vars /\ Adv
TBlock == e.op = "block" /\ AfterDeadline /\ Block /\ Adv
TSilence == e.op = "silence" /\ AfterDeadline /\ Silence /\ Adv

TEnd ==
    /\ e.op = "end"
    \* the call may end only when the message is complete, the stream ended or the deadline
    \* passed: giving up (or returning) while the rest is still to come is a framing error
    /\ Check(t, l, "CompletesUnderFragmentation",
             ~Active \/ (HasDeadline /\ now >= cfg.deadline /\ e.kind = "timeout" /\ e.now = now))
    /\ Check(t, l, "EofIsError", phase = "eof" => e.kind = "raise")
    /\ Check(t, l, "DeadlineIsTimeout", phase = "timeout" => (e.kind = "timeout" /\ e.now = now))
    /\ Check(t, l, "NoDeadlineWaits", phase = "hang" => e.kind = "hang")
    /\ Check(t, l, "NeverShortMessage", e.kind = "ret" => phase = "done")
    /\ Check(t, l, "OnlyGenuineReturned", (phase = "done" /\ result = "raise") => e.kind # "ret")
    /\ Check(t, l, "CompleteMessageReturned", (phase = "done" /\ result = "ret") => e.kind = "ret")
    /\ Check(t, l, "ReassembledExactly",
             (phase = "done" /\ result = "ret" /\ cfg.api # "send") =>
                 /\ e.ret.mark = Log[t].mark /\ e.ret.pad = cfg.pad
                 /\ e.ret.qr = cfg.msg.qr /\ e.ret.tc = cfg.msg.tc /\ e.ret.idm = cfg.msg.idm
                 /\ e.ret.opm = cfg.msg.opm /\ e.ret.nerr = 0)
    /\ Check(t, l, "ReturnsFrameLength", (cfg.api = "send" /\ e.kind = "ret") => e.nbytes = FrameQ)
    /\ Check(t, l, "SyncAsyncAgree", Log[t].flavor = "async" => Log[t].peer = <<e.kind, pos, Len(sent)>>)
    /\ UNCHANGED vars /\ Adv

TraceNext ==
    /\ l <= Len(Ev(t))
    /\ \/ TAccept \/ TRead \/ TBlock \/ TSilence \/ TConnected \/ TExhausted \/ TEnd

Accepted == Accepting(t, l)
=============================================================================
