INIT TraceInit
NEXT TraceNext
CONSTANTS
  Handles = {1, 2, 3}
  Items = {}
  TTLs = {}
  SingletonTypes = {"SOA", "CNAME", "DNAME", "NSEC", "NXT"}
  SigTypes = {"RRSIG", "SIG"}
  InitStates = {}
  MaxIndex = 0
  DynTypes = {"DYN"}
CONSTRAINT Accepted
POSTCONDITION Post
CHECK_DEADLOCK FALSE
