---------------------------- MODULE StreamFraming ----------------------------
(* C18, stream half: DNS over a byte stream (RFC 1035 4.2.2: each message is prefixed with
   a two-octet length, most significant octet first).  One behaviour is one call of
   send_tcp, receive_tcp or tcp (send the query, then receive the reply) of dns.query /
   dns.asyncquery against a stream socket that accepts and delivers octets in whatever
   pieces it likes, may say "would block", may reach end of stream at any position, and
   may stay silent until the deadline.

     "Stream transports reassemble length-prefixed messages correctly under every
      fragmentation of reads and writes, and an early end of stream or an expired deadline
      is an error, never a short message."

   Octets are identified by their position: the frame to write is positions 1..2+qlen, the
   stream to read is positions 1..2+L+extra (a following frame may already be queued
   behind the first one: extra).  Position 1 and 2 of the read stream carry the length L.
   Time as in UdpExchange: a would-block costs 2 ticks, deadlines are odd, 0 = none. *)
EXTENDS ReplyVocab, TLC

CONSTANTS Cases,      \* configurations: [api, qlen, msg, L, pad, v, extra, it, deadline, tz, qop, conn]
          MaxBlocks

VARIABLES cfg,
          phase,    \* "connect" | "send" | "len" | "body" | "done" | "eof" | "timeout" | "hang"
          sent,     \* positions of the frame accepted by the socket so far, in order
          need,     \* octets the current read phase needs in total
          got,      \* octets of them read so far
          buf,      \* positions read in the current phase, in order
          pos,      \* octets taken from the stream so far
          now, nblocks,
          result    \* "-" | "ret" | "raise"
vars == <<cfg, phase, sent, need, got, buf, pos, now, nblocks, result>>

(* api "tls" = DNS over TLS: the same framing over a TLS stream.  conn = "own": the call makes its
   own connection first (phase "connect": TCP connect and, for tls, the handshake); the time that
   takes counts against the ONE deadline of the call.  conn = "given": a connected socket is passed in.
   qop = opcode of the message sent (ReplyVocab). *)
CaseType == [api : {"send", "recv", "tcp", "tls"}, qlen : Nat, msg : ReplyType, L : Nat, pad : Nat, v : Nat,
             extra : Nat, it : BOOLEAN, deadline : Nat, tz : {"-", "int0", "float0", "tiny"}, qop : SentOpcodes, conn : {"given", "own"}]

FrameQ == 2 + cfg.qlen
StreamLen == 2 + cfg.L + cfg.extra
\* the value of a length octet: most significant first
Val(p) == IF p = 1 THEN cfg.L \div 256 ELSE cfg.L % 256
Min(a, b) == IF a < b THEN a ELSE b
Range(a, n) == [i \in 1..n |-> a + i]      \* positions a+1 .. a+n

\* what becomes of a completely reassembled message: receive_tcp returns any well-formed
\* message, tcp only a response to the query that was sent
MsgOK == ParsesWith(cfg.msg, cfg.it) /\ (cfg.api \in {"tcp", "tls"} => RespondsTo(cfg.msg, cfg.qop))

Active == phase \in {"connect", "send", "len", "body"}
\* tz as in UdpExchange: with deadline = 0, "-" = no timeout, else a zero/tiny timeout = deadline at tick 0
HasDeadline == cfg.deadline # 0 \/ cfg.tz # "-"
ZeroTimeouts(S) == {[c EXCEPT !.tz = z] : c \in {x \in S : x.deadline = 0}, z \in {"int0", "float0", "tiny"}}
Expiring(dt) == HasDeadline /\ now + dt > cfg.deadline

Init == /\ cfg \in Cases
        /\ phase = IF cfg.conn = "own" THEN "connect" ELSE IF cfg.api = "recv" THEN "len" ELSE "send"
        /\ sent = <<>> /\ need = 2 /\ got = 0 /\ buf = <<>> /\ pos = 0
        /\ now = 0 /\ nblocks = 0 /\ result = "-"

\* the connection (and TLS session) is established
Connected == /\ phase = "connect"
             /\ phase' = "send"
             /\ UNCHANGED <<cfg, sent, need, got, buf, pos, now, nblocks, result>>

\* the socket takes the next n octets of what is offered
Take(n) ==
    /\ phase = "send" /\ n \in 1..(FrameQ - Len(sent))
    /\ sent' = sent \o Range(Len(sent), n)
    /\ IF Len(sent) + n < FrameQ THEN UNCHANGED <<phase, result>>
       ELSE IF cfg.api = "send" THEN phase' = "done" /\ result' = "ret"
       ELSE phase' = "len" /\ UNCHANGED result
    /\ UNCHANGED <<cfg, need, got, buf, pos, now, nblocks>>

\* the socket delivers the next n octets (never more than asked for, never past the end)
Chunk(n) ==
    /\ phase \in {"len", "body"} /\ n \in 1..Min(need - got, StreamLen - pos)
    /\ pos' = pos + n
    /\ LET nb == buf \o Range(pos, n) IN
       IF got + n < need THEN
           got' = got + n /\ buf' = nb /\ UNCHANGED <<phase, need, result>>
       ELSE IF phase = "len" THEN
           LET len == Val(nb[1]) * 256 + Val(nb[2]) IN
           IF len = 0 THEN /\ phase' = "done" /\ buf' = <<>> /\ got' = 0 /\ need' = 0
                           /\ result' = IF MsgOK THEN "ret" ELSE "raise"
           ELSE phase' = "body" /\ need' = len /\ got' = 0 /\ buf' = <<>> /\ UNCHANGED result
       ELSE /\ phase' = "done" /\ buf' = nb /\ got' = got + n /\ UNCHANGED need
            /\ result' = IF MsgOK THEN "ret" ELSE "raise"
    /\ UNCHANGED <<cfg, sent, now, nblocks>>

\* the peer closed the stream before the message was complete
Eof == /\ phase \in {"len", "body"}
       /\ phase' = "eof" /\ result' = "raise"
       /\ UNCHANGED <<cfg, sent, need, got, buf, pos, now, nblocks>>

Block == /\ Active /\ nblocks < MaxBlocks
         /\ nblocks' = nblocks + 1
         /\ IF Expiring(2) THEN now' = cfg.deadline /\ phase' = "timeout"
                           ELSE now' = now + 2 /\ UNCHANGED phase
         /\ UNCHANGED <<cfg, sent, need, got, buf, pos, result>>

Silence == /\ Active
           /\ IF ~HasDeadline THEN phase' = "hang" /\ now' = now
                                  ELSE phase' = "timeout" /\ now' = cfg.deadline
           /\ UNCHANGED <<cfg, sent, need, got, buf, pos, nblocks, result>>

Next == \/ \E n \in 1..(2 + cfg.qlen) : Take(n)
        \/ \E n \in 1..(2 + cfg.L + cfg.extra) : Chunk(n)
        \/ Eof \/ Block \/ Silence \/ Connected

Spec == Init /\ [][Next]_vars /\ WF_vars(Next)

-----------------------------------------------------------------------------
TypeOK == /\ cfg \in CaseType
          /\ phase \in {"connect", "send", "len", "body", "done", "eof", "timeout", "hang"}
          /\ (cfg.conn = "own" => cfg.api \in {"tcp", "tls"})
          /\ result \in {"-", "ret", "raise"}
          /\ got \in 0..need /\ pos \in 0..StreamLen /\ Len(sent) <= FrameQ

\* send writes every octet of length||message exactly once, in order
SendExact == /\ \A i \in 1..Len(sent) : sent[i] = i
             /\ (cfg.api # "recv" /\ phase \in {"len", "body", "done"}) => Len(sent) = FrameQ
             /\ (phase = "connect" => sent = <<>> /\ pos = 0)   \* nothing before the connection is up
             /\ (cfg.api = "recv") => sent = <<>>

\* the reassembled message equals the sent one for every chunking, and nothing behind
\* it has been taken from the stream
ReassembledExact ==
    (phase = "done" /\ cfg.api # "send") => /\ buf = Range(2, cfg.L)
                                            /\ pos = 2 + cfg.L

\* never a short message: a message is handed back only when complete (and acceptable)
NeverShort ==
    (result = "ret" /\ cfg.api # "send") => phase = "done" /\ Len(buf) = cfg.L /\ MsgOK

\* an early end of stream is an error; an expired deadline is a timeout at the deadline
EofIsError == phase = "eof" => result = "raise" /\ pos < 2 + cfg.L
DeadlineRespected ==
    /\ (HasDeadline => now <= cfg.deadline)
    /\ (phase = "timeout" => HasDeadline /\ now = cfg.deadline /\ result = "-")
    /\ (phase = "hang" => ~HasDeadline /\ result = "-")
NeverOverRead == pos <= 2 + cfg.L

EndIsFinal == [][ ~Active => UNCHANGED vars ]_vars
Terminates == <>(~Active)
=============================================================================
