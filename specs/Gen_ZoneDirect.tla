--------------------------- MODULE Gen_ZoneDirect ---------------------------
(* ZoneDirect plus a history variable: a behaviour is one sequence of calls (environment
   choices only: which call, which arguments, how the owner name is spelled, in which form
   an rdataset is handed over).  Every history with at least MinOps calls is printed as
   JSON from its own "fin" step; drivers/x08_direct.py replays it on the real zone classes.
   No expected results are emitted: the oracle is Trace_ZoneDirect. *)
EXTENDS MC_ZoneDirect, Sequences, Json

CONSTANTS Ops,        \* which calls a history may contain
          SpSeq,      \* sequence over {"rel", "abs", "srel", "sabs", "sup"}: relative / absolute Name, relative /
                      \* absolute / upper-case absolute str
          RFSeq,      \* forms of a replacement: sequence over {"rdataset", "rrset"}
          TFSeq,      \* forms of transaction arguments: sequence over {"rdata", "rdataset", "rrset"}
          Rotate,     \* FALSE: every spelling and form for every call (product);  TRUE: the k-th call of a history
                      \* uses element (rot + k) of each sequence, rot chosen once per history
          Rots,       \* values of rot
          WithOut,    \* include the out-of-zone name
          Muts,       \* subset of BOOLEAN (TRUE: dns.zone.Zone, FALSE: versioned zones)
          MinOps
VARIABLES hist, fin, rot
gvars == <<vars, hist, fin, rot>>

\* values for the sequence constants (a TLC configuration file cannot hold a tuple)
SP1 == <<"rel">>
SPS == <<"srel">>
SP4 == <<"abs", "srel", "sabs", "sup">>
SP5 == <<"rel", "abs", "srel", "sabs", "sup">>
RF1 == <<"rdataset">>
RF2 == <<"rdataset", "rrset">>
TF1 == <<"rdataset">>
TF2 == <<"rdata", "rdataset">>
TF3 == <<"rdata", "rdataset", "rrset">>
R30 == 0..29

Pick(seq) == IF Rotate THEN {seq[((rot + nops) % Len(seq)) + 1]} ELSE {seq[i] : i \in 1..Len(seq)}
Spellings == Pick(SpSeq)
RForms == Pick(RFSeq)
TForms == Pick(TFSeq)
GNames == IF WithOut THEN AllNames ELSE Names

Proj(z) == AllRds(z) \cup {<<n, "EMPTYNODE", 0, {}>> : n \in {m \in DOMAIN z : DOMAIN z[m] = {}}}
H(e) == hist' = Append(hist, e)
E0(o) == [op |-> o]
EN(o, sp, n) == [op |-> o, sp |-> sp, n |-> n]
ENC(o, sp, n, cr) == [op |-> o, sp |-> sp, n |-> n, cr |-> cr]
ET(o, sp, n, ty) == [op |-> o, sp |-> sp, n |-> n, ty |-> ty]
ETC(o, sp, n, ty, cr) == [op |-> o, sp |-> sp, n |-> n, ty |-> ty, cr |-> cr]
ER(o, sp, n, ty, ttl, rds, form) == [op |-> o, sp |-> sp, n |-> n, ty |-> ty, ttl |-> ttl, rds |-> rds, form |-> form]
On(o) == o \in Ops

GInit == /\ Init /\ mut \in Muts
         /\ hist = <<[op |-> "init", zone |-> Proj(zone), mut |-> mut]>>
         /\ fin = FALSE /\ rot \in Rots

GStep ==
    \/ \E n \in GNames, sp \in Spellings, cr \in BOOLEAN :
         \/ On("find_node") /\ FindNode(n, cr) /\ H(ENC("find_node", sp, n, cr))
         \/ On("get_node") /\ GetNode(n, cr) /\ H(ENC("get_node", sp, n, cr))
    \/ \E n \in GNames, sp \in Spellings :
         \/ On("delete_node") /\ DeleteNode(n) /\ H(EN("delete_node", sp, n))
         \/ On("getitem") /\ GetItem(n) /\ H(EN("getitem", sp, n))
         \/ On("get") /\ DictGet(n) /\ H(EN("get", sp, n))
         \/ On("contains") /\ Contains(n) /\ H(EN("contains", sp, n))
         \/ On("delitem") /\ DelItem(n) /\ H(EN("delitem", sp, n))
         \/ On("txn_delname") /\ TxnDelName(n) /\ H(EN("txn_delname", sp, n))
         \/ On("node_info") /\ NodeInfo(n) /\ H(EN("node_info", sp, n))
         \/ \E node \in NodeShapes : On("setitem") /\ SetItem(n, node)
               /\ H([op |-> "setitem", sp |-> sp, n |-> n, node |-> NodeSet(node)])
    \/ \E n \in GNames, sp \in Spellings, ty \in Types, cr \in BOOLEAN :
         \/ On("find_rdataset") /\ FindRdataset(n, ty, cr) /\ H(ETC("find_rdataset", sp, n, ty, cr))
         \/ On("get_rdataset") /\ GetRdataset(n, ty, cr) /\ H(ETC("get_rdataset", sp, n, ty, cr))
         \/ On("node_find") /\ NodeFind(n, ty, cr) /\ H(ETC("node_find", sp, n, ty, cr))
         \/ On("node_get") /\ NodeGet(n, ty, cr) /\ H(ETC("node_get", sp, n, ty, cr))
         \/ \E ttl \in TTLs, rd \in RdIds : On("addto") /\ AddTo(n, ty, ttl, rd, cr)
               /\ H([op |-> "addto", sp |-> sp, n |-> n, ty |-> ty, cr |-> cr, ttl |-> ttl, rd |-> rd])
    \/ \E n \in GNames, sp \in Spellings, ty \in Types :
         \/ On("delete_rdataset") /\ DeleteRdataset(n, ty) /\ H(ET("delete_rdataset", sp, n, ty))
         \/ On("find_rrset") /\ FindRRset(n, ty) /\ H(ET("find_rrset", sp, n, ty))
         \/ On("get_rrset") /\ GetRRset(n, ty) /\ H(ET("get_rrset", sp, n, ty))
         \/ On("txn_deltype") /\ TxnDelType(n, ty) /\ H(ET("txn_deltype", sp, n, ty))
         \/ On("node_delete") /\ NodeDel(n, ty) /\ H(ET("node_delete", sp, n, ty))
    \/ \E n \in GNames, sp \in Spellings, ty \in Types, ttl \in TTLs, form \in RForms :
         \E rds \in RdSets(ty) \cup {{}} : (form = "rrset" => rds # {}) /\
         \/ On("replace_rdataset") /\ ReplaceRdataset(n, ty, ttl, rds) /\ H(ER("replace_rdataset", sp, n, ty, ttl, rds, form))
         \/ On("node_replace") /\ NodeRepl(n, ty, ttl, rds) /\ H(ER("node_replace", sp, n, ty, ttl, rds, form))
    \/ \E n \in GNames, sp \in Spellings, ty \in Types, ttl \in TTLs, form \in TForms :
         \E rds \in RdSets(ty) : (form = "rdata" => Cardinality(rds) = 1) /\
         \/ On("txn_add") /\ TxnAdd(n, ty, ttl, rds) /\ H(ER("txn_add", sp, n, ty, ttl, rds, form))
         \/ On("txn_replace") /\ TxnReplace(n, ty, ttl, rds) /\ H(ER("txn_replace", sp, n, ty, ttl, rds, form))
    \/ \E f \in Filters :
         \/ On("iterate_rdatasets") /\ IterRdatasets(f) /\ H([op |-> "iterate_rdatasets", f |-> f])
         \/ On("iterate_rdatas") /\ IterRdatas(f) /\ H([op |-> "iterate_rdatas", f |-> f])
    \/ On("keys") /\ Keys /\ H(E0("keys"))
    \/ On("get_soa") /\ GetSoa /\ H(E0("get_soa"))
    \/ On("check_origin") /\ CheckOrigin /\ H(E0("check_origin"))
    \/ \E o \in InitZones \cup {zone}, so, sc \in BOOLEAN, same \in BOOLEAN :
         On("eq") /\ (~so \/ ~sc => o = zone) /\ Eq(o, so, sc)
            /\ H([op |-> "eq", other |-> Proj(o), so |-> so, sc |-> sc, same |-> same])

\* a history is printed from its own single-successor "fin" step (TLC's simulator evaluates
\* the invariant on every successor of the current state, chosen or not)
GNext == \/ ~fin /\ nops < MaxOps /\ GStep /\ UNCHANGED <<fin, rot>>
         \/ ~fin /\ nops >= MinOps /\ fin' = TRUE /\ UNCHANGED <<vars, hist, rot>>
Emit == fin => PrintT("BEH " \o ToJson(hist))
=============================================================================
