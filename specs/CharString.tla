------------------------------ MODULE CharString ------------------------------
(* RFC 1035 section 5.1 <character-string> text form.

   Octets are 0..255, characters are code points (naturals).  Written from RFC 1035
   5.1 ("\X where X is any character other than a digit is used to quote that
   character", "\DDD where each D is a digit is the octet corresponding to the decimal
   number described by DDD") and from the documentation of dns.tokenizer.Token:
   the library offers TWO readings of \DDD - the octet (unescape_to_bytes) and the
   Unicode code point (unescape), whose str result is later encoded as UTF-8.

   EscapeCS     octets -> characters of the presentation form (no surrounding quotes)
   UnescapeOct  characters -> <<"ok", octets>> | <<"err", kind>>     (octet reading)
   UnescapeCP   characters -> <<"ok", code points>> | <<"err", kind>> (code point reading)
   Utf8Seq      code points -> octets (what str.encode() does afterwards)

   Laws (checked by TLC in MC_CharString):
     RoundTripOct   UnescapeOct(EscapeCS(s)) = <<"ok", s>>               for every s
     CPExact        Utf8Seq(UnescapeCP(EscapeCS(s))) = s  <=>  every octet of s < 128
     EscapeShape    EscapeCS(s) is printable ASCII and has no bare quote
*)
EXTENDS Integers, Sequences

BSL == 92
QUO == 34
IsDigit(c) == c \in 48..57
Dig3(o) == <<48 + (o \div 100), 48 + ((o \div 10) % 10), 48 + (o % 10)>>

EscOctet(o) == IF o = QUO \/ o = BSL THEN <<BSL, o>>
               ELSE IF o >= 32 /\ o <= 126 THEN <<o>>
               ELSE <<BSL>> \o Dig3(o)

RECURSIVE EscapeCS(_)
EscapeCS(s) == IF s = <<>> THEN <<>> ELSE EscOctet(Head(s)) \o EscapeCS(Tail(s))

Quote(cs) == <<QUO>> \o cs \o <<QUO>>

\* UTF-8 of one code point (surrogates are outside every universe used here)
Utf8(c) == IF c < 128 THEN <<c>>
           ELSE IF c < 2048 THEN <<192 + (c \div 64), 128 + (c % 64)>>
           ELSE IF c < 65536 THEN <<224 + (c \div 4096), 128 + ((c \div 64) % 64), 128 + (c % 64)>>
           ELSE <<240 + (c \div 262144), 128 + ((c \div 4096) % 64), 128 + ((c \div 64) % 64), 128 + (c % 64)>>

RECURSIVE Utf8Seq(_)
Utf8Seq(s) == IF s = <<>> THEN <<>> ELSE Utf8(Head(s)) \o Utf8Seq(Tail(s))

Err(k) == <<"err", k>>
Ok(s) == <<"ok", s>>
Cons(x, r) == IF r[1] = "ok" THEN Ok(x \o r[2]) ELSE r

\* mode "oct": a literal character contributes its UTF-8 octets, \DDD contributes octet DDD
\* mode "cp" : a literal character contributes itself,          \DDD contributes code point DDD
Lit(c, mode) == IF mode = "cp" THEN <<c>> ELSE Utf8(c)

RECURSIVE UnescFrom(_, _, _)
UnescFrom(t, i, mode) ==
    IF i > Len(t) THEN Ok(<<>>)
    ELSE IF t[i] # BSL THEN Cons(Lit(t[i], mode), UnescFrom(t, i + 1, mode))
    ELSE IF i + 1 > Len(t) THEN Err("UnexpectedEnd")
    ELSE IF ~IsDigit(t[i + 1]) THEN Cons(Lit(t[i + 1], mode), UnescFrom(t, i + 2, mode))
    ELSE IF i + 3 > Len(t) THEN Err("UnexpectedEnd")
    ELSE IF ~(IsDigit(t[i + 2]) /\ IsDigit(t[i + 3])) THEN Err("SyntaxError")
    ELSE LET n == (t[i + 1] - 48) * 100 + (t[i + 2] - 48) * 10 + (t[i + 3] - 48)
         IN IF n > 255 THEN Err("SyntaxError") ELSE Cons(<<n>>, UnescFrom(t, i + 4, mode))

UnescapeOct(t) == UnescFrom(t, 1, "oct")
UnescapeCP(t) == UnescFrom(t, 1, "cp")

HasBackslash(t) == \E i \in 1..Len(t) : t[i] = BSL

\* ---------------------------------------------------------------- laws
RoundTripOct(s) == UnescapeOct(EscapeCS(s)) = Ok(s)
AllAscii(s) == \A i \in 1..Len(s) : s[i] < 128
CPExact(s) == LET r == UnescapeCP(EscapeCS(s))
              IN r[1] = "ok" /\ ((Utf8Seq(r[2]) = s) <=> AllAscii(s))
RECURSIVE NoBareQuote(_, _)
NoBareQuote(t, i) == IF i > Len(t) THEN TRUE
                     ELSE IF t[i] = BSL THEN NoBareQuote(t, i + 2)
                     ELSE t[i] # QUO /\ NoBareQuote(t, i + 1)
EscapeShape(s) == LET t == EscapeCS(s)
                  IN (\A i \in 1..Len(t) : t[i] >= 32 /\ t[i] <= 126) /\ NoBareQuote(t, 1)
=============================================================================
