--------------------------- MODULE Trace_ZoneFile ---------------------------
(* Trace validation for C09.

   Reader traces (kind "read" / "spell"): one event per abstract line, recorded by loading
   the text of every prefix with the real reader.  Each event must be the ZoneFile reader
   action for that line from the current model state: same outcome (accepted / refused),
   and the same content.  For a spelling of zone z the complete text must load to z.

   Writer traces (kind "write"): the zone built through the API must be the requested
   one; the real writer must not refuse a lossless style; reading its text back with the
   real reader must give the original zone (content and TTLs), and Zone == must say so.
   Conformance of the text itself to the writer specification is validated in separate
   traces (kind "conf") whose rejection is drift, not a violation. *)
EXTENDS ZfUniverse, VTrace

VARIABLES t, l
tvars == <<vars, t, l>>

LogRecs(p) == ToSetOf(p)       \* [[owner, type, ttl, [names, data]], ...] -> set of records

TraceInit ==
    /\ RegInit
    /\ t \in 1..NTraces /\ l = 1
    /\ rs = RInit(Log[t].og)
    /\ em = EmIdle

e == Ev(t)[l]
Adv == l' = l + 1 /\ t' = t
Src == ZoneOfRecs(LogRecs(Log[t].zone))

CnameAloneLog(recs) ==
    \A x, y \in recs : x[1] = y[1] => ~(Kind(x[2]) = "cname" /\ Kind(y[2]) = "regular")
Flagged(recs) == \E x \in recs : x[1] # <<>> /\ x[1][1] \in {"ABS!", "REL!", "OUT!"}

(* -- reader *)
TLine ==
    /\ e.op = "line"
    /\ ReadLine(e.ln)
    /\ Check(t, l, "RefusalFamily", e.res = "err" => e.fam \in {"dns", "value"})
    \* free choice: a load WITHOUT an origin parameter whose text has put no record into the zone yet
    \* may return an empty zone or refuse (no origin to publish) - the property is silent about it
    /\ Check(t, l, "Outcome", IF ~Log[t].og /\ rs'.status = "ok" /\ rs'.zone = <<>> THEN TRUE
                              ELSE (rs'.status = "err") <=> (e.res = "err"))
    /\ Check(t, l, "OriginLearned", e.res = "err" \/ ~rs'.zoKnown \/ rs'.zone = <<>> \/ e.zorigin = rs'.zo)
    /\ Check(t, l, "OutOfZoneIgnored", e.res = "err" \/ ~Flagged(LogRecs(e.zone)))
    /\ Check(t, l, "CnameAlone", e.res = "err" \/ CnameAloneLog(LogRecs(e.zone)))
    /\ Check(t, l, "ZoneAfterLine", e.res = "err" \/ LogRecs(e.zone) = Recs(rs'.zone))
    /\ UNCHANGED em /\ Adv

TSpelled ==
    /\ e.op = "spelled"
    /\ Check(t, l, "SpellingLoads", e.res = "ok")
    /\ Check(t, l, "SpellingOrigin", e.zorigin = ZO)
    /\ Check(t, l, "SpellingAgrees", LogRecs(e.zone) = LogRecs(Log[t].zone))
    /\ Check(t, l, "SpellingModel", Recs(rs.zone) = LogRecs(Log[t].zone))
    /\ UNCHANGED vars /\ Adv

(* -- writer *)
TBuilt ==
    /\ e.op = "built"
    /\ Check(t, l, "Built", LogRecs(e.zone) = LogRecs(Log[t].zone))
    /\ UNCHANGED vars /\ Adv

(* hard: the writer does not refuse a lossless style *)
TWrite ==
    /\ e.op = "write"
    /\ Check(t, l, "WriterTotal", e.res # "err")
    /\ UNCHANGED vars /\ Adv

(* SOFT (traces of kind "conf", reported as drift, never as a violation): the output, lexed back
   into abstract lines, is one the writer specification allows for the style, carries the
   comments asked for, and denotes the zone under the specification's own reader.  A harmless
   change of the output format would fail here and still pass the hard round trip below. *)
TConf ==
    /\ e.op = "wconf"
    /\ Check(t, l, "WriterLexable", e.res = "ok")
    /\ Check(t, l, "WriterConforms", IsWrite(e.lines, Src, Log[t].rel, Log[t].style))
    /\ Check(t, l, "WriterComments", e.ncomments = IF Log[t].style.comments THEN Len(Log[t].zone) ELSE 0)
    /\ Check(t, l, "WriterDenotes",
             LET r == Read(e.lines, Log[t].og) IN r.status = "ok" /\ r.zone = Src)
    /\ UNCHANGED vars /\ Adv

TReread ==
    /\ e.op = "reread"
    /\ Check(t, l, "RereadLoads", e.res = "ok")
    /\ Check(t, l, "RoundTrip", LogRecs(e.zone) = LogRecs(Log[t].zone))
    /\ Check(t, l, "ZoneEq", e.eq)
    /\ Check(t, l, "OriginKept", e.origin = ZO)
    /\ UNCHANGED vars /\ Adv

TraceNext ==
    /\ l <= Len(Ev(t))
    /\ \/ TLine \/ TSpelled \/ TBuilt \/ TWrite \/ TConf \/ TReread

Accepted == Accepting(t, l)
=============================================================================
