---------------------------- MODULE Gen_AddrCodec ----------------------------
(* Emits the universes of AddrUniverse for the driver: one line per picked input, carrying
   the input and every text / name derived from it that the real code is to be run on
   (spellings, faulted texts, faulted reverse names).  Only inputs - never expected results. *)
EXTENDS AddrUniverse, TLC, Json

CONSTANTS Kinds,
          SpellSchemes,     \* schemes whose addresses are emitted with all their spellings
          FaultSchemes,     \* ... with the faulted texts of their canonical text
          WideSchemes,      \* ... also with the faults of the fully written-out upper-case text
          NameSchemes,      \* ... with faulted reverse names
          FaultMod, FaultRem, NameMod, WideMod,   \* only the patterns m with m % Mod = FaultRem % Mod get faulted texts / names
          FaultOctets,      \* IPv4 / embedded addresses over these octets get faulted texts and names
          E164Alphabet, E164Len
VARIABLES kind, key, out, fin
vars == <<kind, key, out, fin>>

RECURSIVE SeqsUpTo(_, _)
SeqsUpTo(S, n) == IF n = 0 THEN {<<>>} ELSE LET R == SeqsUpTo(S, n - 1) IN R \cup {Append(r, c) : r \in R, c \in S}
Small(q) == \A k \in 1..4 : q[k] \in FaultOctets

A6(m, s) ==
    LET a == AddrOf(m, s)
        rn == Rev6(a, Ip6)
    IN  [k |-> "a6", a |-> a,
         sp |-> IF s \in SpellSchemes THEN Spellings(a) ELSE {},
         fl |-> (IF s \in FaultSchemes /\ m % FaultMod = FaultRem % FaultMod THEN UNION {Faults(b) : b \in Canon6(a)} ELSE {})
                \cup (IF s \in WideSchemes /\ m % WideMod = FaultRem % WideMod THEN Faults(Spell(Grp(a), 8, 1, 0, TRUE, TRUE)) ELSE {}),
         nm |-> {rn, Rev6(a, Ip6Up)},
         nf |-> IF s \in NameSchemes /\ m % NameMod = FaultRem % NameMod THEN NameFaults(rn, 32) ELSE {}]
Emb(a) ==
    [k |-> "a6", a |-> a,
     sp |-> IF Small(Low32(a)) \/ a \in Special6 THEN Spellings(a) ELSE Canon6(a),
     fl |-> IF Small(Low32(a)) THEN UNION {Faults(b) : b \in Canon6(a)} ELSE {},
     nm |-> {Rev6(a, Ip6)},
     nf |-> {}]
A4(a) ==
    LET rn == Rev4(a, InAddr)
    IN  [k |-> "a4", a |-> a,
         tx |-> {Ntoa4(a), Mixed5952(Zeros(10) \o <<255, 255>> \o a)},
         fl |-> IF Small(a) THEN V4Faults(Ntoa4(a)) ELSE {},
         nm |-> {rn, Rev4(a, InAddrUp)},
         nf |-> IF Small(a) THEN NameFaults(rn, 4) ELSE {}]
E(t) == [k |-> "e164", text |-> t,
         nm |-> {FromE164(t, Some(E164)), FromE164(t, Some(E164Up)), FromE164(t, NoOrigin)},
         nf |-> LET n == FromE164(t, Some(E164))
                IN  IF Len(t) <= 2 /\ Len(n) > 3 THEN NameFaults(n, Len(n) - 3) ELSE {}]

Keys(kd) == CASE kd = "a6" -> 0..255
              [] kd = "emb" -> QuadOctets
              [] kd = "a4" -> V4Octets \cup McOctets
              [] kd = "e164" -> E164Alphabet \cup {0}
Outs(kd, k) ==
    CASE kd = "a6" -> {A6(k, s) : s \in IF k = 0 THEN {1} ELSE Schemes}
      [] kd = "emb" -> {Emb(a) : a \in {b \in EmbeddedAddrs : b[13] = k} \cup (IF k = 0 THEN Special6 ELSE {})}
      [] kd = "a4" -> {A4(a) : a \in {b \in U4 : b[1] = k}}
      [] kd = "e164" -> {E(t) : t \in {u \in SeqsUpTo(E164Alphabet, E164Len) : IF u = <<>> THEN k = 0 ELSE u[1] = k}}

GInit == kind \in Kinds /\ key \in Keys(kind) /\ out = [k |-> "-"] /\ fin = FALSE
GNext == ~fin /\ fin' = TRUE /\ out' \in Outs(kind, key) /\ UNCHANGED <<kind, key>>
Emit == fin => PrintT("BEH " \o ToJson(out))
=============================================================================
