------------------------------ MODULE C05Universe ------------------------------
(* The declared universes of the exact layer of C05, as bijections from 0..U-1, so that a
   trace can name an input by its index and Trace_RdTokenizer can check that the logged
   input IS that element of the universe (coverage = the driver ran indices 0..U-1). *)
EXTENDS Integers, Sequences

\* one representative per tokenizer character class (eof = end of the string)
TokAlpha == <<32, 10, 34, 40, 41, 59, 92, 97>>
\* octet classes of a <character-string>: NUL, TAB, LF, space, quote, parentheses, a digit,
\* semicolon, backslash, a letter, last printable, DEL, first non-ASCII, 0xC8, 0xFF
EscOctets == <<0, 9, 10, 32, 34, 40, 41, 48, 59, 92, 97, 126, 127, 128, 200, 255>>
\* characters of token text that matter to the interpretation of escapes: backslash, digits
\* reaching 000 / 255 / 256 / 200, a letter, a Latin-1 character, a character above 255
UnescAlpha == <<92, 48, 50, 53, 54, 97, 233, 256>>

RECURSIVE Pow(_, _)
Pow(b, n) == IF n = 0 THEN 1 ELSE b * Pow(b, n - 1)
\* the k-th (0-based) string of length n: the digits of k in base Len(alpha), most significant first
NthString(alpha, n, k) == [i \in 1..n |-> alpha[((k \div Pow(Len(alpha), n - i)) % Len(alpha)) + 1]]
Strings(alpha, n) == {NthString(alpha, n, k) : k \in 0..(Pow(Len(alpha), n) - 1)}
StringsUpTo(alpha, N) == UNION {Strings(alpha, n) : n \in 0..N}
Alpha(name) == CASE name = "tok" -> TokAlpha [] name = "esc" -> EscOctets [] name = "unesc" -> UnescAlpha
=============================================================================
