INIT Init
NEXT Next
CONSTANTS
  MaxChain = 16
  MaxLen = 2
INVARIANT Laws
CHECK_DEADLOCK FALSE
