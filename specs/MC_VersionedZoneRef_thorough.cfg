SPECIFICATION MCSpec
CONSTANTS
  Contents <- MCContents
  Rids = {1, 2, 3}
  MaxVersionArgs = {0, 1, 2, 3}
  CustomPolicies = {"oddid", "oldserial", "none"}
  IdArgs = {1, 2, 3, 4, 5, 6, 9}
  SerialArgs = {1, 2, 3, 7}
  MaxCommits = 5
  MaxDepth = 12
CONSTRAINT Bound
PROPERTY AbsSpec
INVARIANT AbsIndInv
INVARIANT AbsSafety
INVARIANT SameProperties
CHECK_DEADLOCK FALSE
