INIT Init
NEXT Next
CONSTANTS
  Alphabet <- FullAlphabet
  MaxLen = 3
  DialectSet <- TwoDialects
INVARIANTS Relex RenderIdempotent UngetGet LeadingOnlyAdds CommentOnlyAdds KnobsPinned TabsAreSpaces NoEolInParens ParensHideLines BalancedIffAccepted CommentsIgnored LeadingBlank
CHECK_DEADLOCK FALSE
