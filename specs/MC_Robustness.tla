--------------------------- MODULE MC_Robustness ---------------------------
(* Bounded instance of the C04 fault generator and the laws TLC checks on every generated
   input (every reachable state is one input). *)
EXTENDS Robustness

AllOpts == {<<a, b, c, d, e, 0>> : a \in {0, 1}, b \in {0, 1}, c \in {0, 1}, d \in {0, 1}, e \in {0, 1}}
Strict0 == <<0, 0, 0, 0, 0, 0>>
W == Wire(kind, lay, post)

\* every concretisation is an octet string
OctetsOK == kind \in {"msg", "namew", "rdw", "optw", "optm"} =>
                LET w == IF kind \in {"msg", "namew", "optm"} THEN W ELSE SpecBytes(lay) IN \A i \in 1..Len(w) : w[i] \in 0..255
\* the descriptor determines the input: folding the fault actions over the base gives the state
DescriptorDeterminesInput == LayOf(kind, base, hist) = lay /\ PostOf(hist) = post /\ nf = Len(hist)
\* an unfaulted message is accepted under every option vector (M3 is signed: refused without its key;
\* M4 carries a record of a type whose RDATA grammar the specification does not know)
BaseAccepted == (kind = "msg" /\ nf = 0) =>
                    \A o \in AllOpts : StrictVerdict(Read(W), o) = (IF base = "M3" /\ o[3] = 0 THEN "err"
                                                                   ELSE IF base \in {"M4", "M6"} /\ o[3] = 0 THEN "free"
                                                                   ELSE IF base = "M5" /\ o[5] = 1 THEN "trunc" ELSE "ok")
\* a truncated valid message is never accepted by a strict reading of all sections
TruncationRefused == (kind = "msg" /\ nf = 1 /\ post[1] = "trunc") =>
                         \A o \in AllOpts : (o[3] = 0 /\ o[4] = 0) => StrictVerdict(Read(W), o) \in {"err", "trunc"}
\* octets after a valid message are refused unless the caller asked to ignore them
TrailingRefused == (kind = "msg" /\ nf = 1 /\ post[1] = "trail" /\ base # "M3") =>
                       \A o \in AllOpts : (o[3] = 0 /\ o[4] = 0) =>
                           (StrictVerdict(Read(W), o) \in {"err", "trunc"}) = (o[1] = 0 \/ (o[5] = 1 /\ base = "M5"))
\* a single wrong RDLENGTH is never accepted when every RDATA grammar is known
IsRdlenFault == /\ nf = 1 /\ hist[1][1] = "fld"
                /\ BaseLay(kind, base).recs[hist[1][2]].f[hist[1][3]][1] = "rdlen"
RdlenMismatchRefused == (kind = "msg" /\ IsRdlenFault /\ AllDecided(Read(W))) => StrictVerdict(Read(W), Strict0) = "err"
\* the failures of a reading are ordered and inside the message; a continue-on-error
\* reading never raises after the header
FailuresOrdered == kind = "msg" =>
    LET m == Read(W) IN
    ~m.short => \A o \in {Strict0, <<1, 0, 0, 1, 0, 0>>, <<0, 0, 1, 1, 0, 0>>} :
        LET fs == Failures(m, o) IN
        /\ \A i \in 1..Len(fs) : 12 <= fs[i].lo /\ fs[i].lo <= fs[i].hi /\ fs[i].hi <= Len(W)
        /\ \A i \in 1..(Len(fs) - 1) : fs[i].lo <= fs[i + 1].lo
        /\ Bookkeeping(m, o, [i \in 1..Len(fs) |-> fs[i].lo])
        /\ ContinueVerdict(m, o) = "ok"
\* wire names: the base names decode, a truncated name never does
NameLaw == kind = "namew" =>
    /\ nf = 0 => NameWVerdict(lay, post) = "ok"
    /\ (nf = 1 /\ post[1] = "trunc" /\ post[2] > lay.cur) => NameWVerdict(lay, post) = "err"
\* an option in the OPT record of a message: the framing is untouched by body faults, so the
\* reference reader never sees a failure; what it leaves open is the option's own grammar
OptmLaw == kind = "optm" => LET m == Read(W) IN
    /\ ~m.short /\ m.qok /\ m.fatal = <<>> /\ m.trail = <<>> /\ Len(m.recs) = 1
    /\ m.recs[1].lo = OptmCur /\ m.recs[1].hi = OptmCur + Len(OptmRdata(lay))
    /\ m.recs[1].v = (IF lay.code >= 65001 /\ lay.code <= 65534 THEN "ok" ELSE "free")
\* a split zone: both files together hold every line once plus the $INCLUDE line, and every
\* line has a place in exactly the file that holds it
ZincLaw == (kind = "zinc" /\ nf >= 1) =>
    /\ lay.c < lay.d /\ Len(ZincMain(lay).lines) + Len(ZincSub(lay).lines) = Len(lay.lines) + 1
    /\ \A i \in 1..Len(lay.lines) :
           LET loc == ZincLoc(lay, i)
               f == IF loc[1] = 1 THEN ZincSub(lay) ELSE ZincMain(lay) IN
           loc[2] \in 1..Len(f.lines) /\ f.lines[loc[2]] = lay.lines[i] /\ Len(f.lines) = ZincLen(lay, loc[1])
TextLaw == (IsText(kind) /\ nf = 0) => TextVerdict(kind, base, hist) = "ok"
SpecLaw == (kind \in {"rdw", "optw"} /\ nf = 0) => SpecVerdict(hist) = "ok" /\ lay.len = Len(lay.b)
=============================================================================
