SPECIFICATION Spec
CONSTANTS
  Writers = {1, 2}
  Readers = {5}
  NTxn = 1
  NReads = 2
  MCHows = {"commit", "rollback"}
  Plans <- MCPlansCommit
  RPlans <- MCRPlans
  RModes <- MCRModes
  MCRModeSet = {"byid", "byinit"}
  InitVid = 2
  Policers = {7}
  PPlans <- MCPPlans
PROPERTY AbsSpec
PROPERTY AbsNoCuts
INVARIANT AbsIndInv
INVARIANT AbsSafety
INVARIANT SameProperties
