SPECIFICATION Spec
CONSTANTS
  LowerTypes <- RFC4034LowerTypes
  ImmutableKinds <- MCImmutableKinds
  Values <- SmallUniverse
INVARIANT Law_Equivalence
INVARIANT Law_HashFollowsEq
INVARIANT Law_TotalOrder
INVARIANT Law_Transitive
INVARIANT Law_CaseOnly
PROPERTY Immutable
CHECK_DEADLOCK FALSE
