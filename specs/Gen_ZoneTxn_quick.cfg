INIT GInit
NEXT GNext
CONSTANTS
  Names = {"@", "a"}
  Types = {"SOA", "A", "CNAME", "NSEC"}
  RdIds = {1, 2}
  TTLs = {300, 600}
  Serials <- GenSerials
  SerialArgs <- GenSerialSmall
  InitZones <- GenInitSmall
  MaxOps = 2
  Spellings = {"rel"}
  AddForms = {"rdata"}
  DelForms = {"rdataset"}
  Kinds = {"write"}
  Replacements = {FALSE}
  Ends = {"commit", "raise"}
INVARIANT Emit
CHECK_DEADLOCK FALSE
