---------------------------- MODULE ZoneReader ----------------------------
(* X05 - the reader as a state machine: the variables the task names and one action per
   line kind.  The meaning of a line is the pure function Step of ZoneReaderStep (sources,
   policy fields and data representation are described there). *)
EXTENDS ZoneReaderStep

VARIABLES stack, origin, lastOwner, defTtl, lastTtl, soaMin, out, status, errAt, file, ln, n, pol, cfg
vars == <<stack, origin, lastOwner, defTtl, lastTtl, soaMin, out, status, errAt, file, ln, n, pol, cfg>>
Cur == [stack |-> stack, origin |-> origin, lastOwner |-> lastOwner, defTtl |-> defTtl, lastTtl |-> lastTtl,
        soaMin |-> soaMin, out |-> out, status |-> status, errAt |-> errAt, file |-> file, ln |-> ln, n |-> n]

Become(S) == /\ stack' = S.stack /\ origin' = S.origin /\ lastOwner' = S.lastOwner /\ defTtl' = S.defTtl
             /\ lastTtl' = S.lastTtl /\ soaMin' = S.soaMin /\ out' = S.out /\ status' = S.status
             /\ errAt' = S.errAt /\ file' = S.file /\ ln' = S.ln /\ n' = S.n
             /\ UNCHANGED <<pol, cfg>>
InitWith(c, p) == cfg = c /\ pol = p /\ LET S == Start(c, p) IN
    /\ stack = S.stack /\ origin = S.origin /\ lastOwner = S.lastOwner /\ defTtl = S.defTtl
    /\ lastTtl = S.lastTtl /\ soaMin = S.soaMin /\ out = S.out /\ status = S.status
    /\ errAt = S.errAt /\ file = S.file /\ ln = S.ln /\ n = S.n
\* one action per line kind
Record(l) == l.k = "rr" /\ Become(StepRR(Cur, l, cfg, pol))
Generate(l) == l.k = "gen" /\ Become(StepGen(Cur, l, cfg, pol))
Origin(l) == l.k = "origin" /\ Become(StepOrigin(Cur, l, cfg, pol))
Ttl(l) == l.k = "ttl" /\ Become(StepTtl(Cur, l, cfg, pol))
IncludeEnter(l) == l.k = "inc" /\ Become(StepInc(Cur, l, cfg, pol))
IncludeExit(l) == l.k = "end" /\ stack # <<>> /\ Become(StepEnd(Cur, l, cfg, pol))
Read(l) == status = "ok" /\ (Record(l) \/ Generate(l) \/ Origin(l) \/ Ttl(l) \/ IncludeEnter(l) \/ IncludeExit(l))
=============================================================================
