---------------------------- MODULE MC_CacheLin ----------------------------
EXTENDS CacheLin
CONSTANT Depth
Bound == TLCGet("level") <= Depth /\ now <= 3 /\ gets <= 3
=============================================================================
