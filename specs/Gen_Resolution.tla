--------------------------- MODULE Gen_Resolution ---------------------------
(* Resolution plus a history variable: every behaviour is one environment script --
   the resolver's configuration, the resolve() calls, and for every query the outcome
   and the clock advance the environment chose.  What the resolver does with them
   (which server, which timeout, when it sleeps, how it ends) is NOT emitted: the code
   decides that, and Trace_Resolution judges it.  The implementation-side choices the
   specification leaves open (server order inside a round, length of the back-off) are
   fixed here to one value, they do not influence the script. *)
EXTENDS Resolution, ResolutionEnv, Json

VARIABLE hist
gvars == <<vars, hist>>

S1 == <<"s1", "">>
S2 == <<"s2", "">>
Dom == <<"dom", "">>
Cfg(ns, rsf, tcp, rna, c, lf, to, search, domain, ndots, usd) ==
    [ns |-> ns, rsf |-> rsf, tcp |-> tcp, rna |-> rna, cache |-> c, life |-> lf, tmo |-> to, qtype |-> "A",
     search |-> search, domain |-> domain, ndots |-> ndots, usd |-> usd, glue |-> "scripted"]

(* one search domain, lifetime 1 s, timeout 1/2 s: the switches *)
GCfgSwitches == {Cfg(2, rsf, tcp, rna, "none", 16, 8, <<S1>>, Dom, -1, FALSE) : rsf \in BOOLEAN, tcp \in BOOLEAN, rna \in BOOLEAN}
GCfgSwitches4 == {Cfg(2, rsf, tcp, TRUE, "none", 16, 8, <<S1>>, Dom, -1, FALSE) : rsf \in BOOLEAN, tcp \in BOOLEAN}
GCfgOne == {Cfg(1, rsf, FALSE, TRUE, "none", 16, 8, <<>>, RootName, -1, FALSE) : rsf \in BOOLEAN}
GCfgThree == {Cfg(3, rsf, FALSE, TRUE, "none", 24, 8, <<>>, RootName, -1, FALSE) : rsf \in BOOLEAN}
GCfgOneThree == GCfgOne \cup GCfgThree
GCfgCache == {Cfg(ns, FALSE, FALSE, rna, c, 16, 8, <<S1>>, Dom, -1, FALSE) : ns \in {1, 2}, rna \in BOOLEAN, c \in {"simple", "lru"}}
GCfgCache1 == {Cfg(1, FALSE, FALSE, rna, c, 16, 8, <<S1>>, Dom, -1, FALSE) : rna \in BOOLEAN, c \in {"simple", "lru"}}
GCfgClass == {Cfg(1, FALSE, FALSE, TRUE, c, 16, 8, <<>>, RootName, -1, FALSE) : c \in {"simple", "lru"}}
(* the resolver's servers are REAL dns.nameserver.Do53Nameserver objects over stubbed transports *)
(* "do53": one address per server; "do53port": all servers share one address and differ in the port *)
GCfgGlue == {[Cfg(2, rsf, tcp, TRUE, "none", 16, 8, <<>>, RootName, -1, FALSE) EXCEPT !.glue = g] :
                rsf \in BOOLEAN, tcp \in BOOLEAN, g \in {"do53", "do53port"}}
GCfgClock == {Cfg(2, TRUE, FALSE, TRUE, "none", 16, 8, <<>>, RootName, -1, FALSE)}
(* search-list / ndots shapes *)
GCfgSearch == {Cfg(1, FALSE, FALSE, TRUE, "none", 16, 8, sl, dm, nd, usd) :
                  sl \in {<<>>, <<S1>>, <<S1, S2>>}, dm \in {RootName, Dom}, nd \in {-1, 0, 1, 2}, usd \in BOOLEAN}
(* everything, for random walks: also long lifetimes (5 s) so that the back-off runs through its table *)
GCfgAll == {Cfg(ns, rsf, tcp, rna, c, lt[1], lt[2], sl, Dom, nd, usd) :
               ns \in 1..3, rsf \in BOOLEAN, tcp \in BOOLEAN, rna \in BOOLEAN, c \in {"none", "simple", "lru"},
               lt \in {<<16, 8>>, <<80, 32>>, <<48, 48>>, <<40, 3>>}, sl \in {<<>>, <<S1>>, <<S1, S2>>}, nd \in {-1, 2}, usd \in BOOLEAN}

Req(q, sf, lf, qt, qc) == [qname |-> q, search |-> sf, life |-> lf, qtype |-> qt, qclass |-> qc]
GReqRel == {Req(<<"www">>, "true", 0, "A", "IN")}
GReqAbs == {Req(<<"www", "s1", "">>, "none", 0, "A", "IN")}
GReqBoth == GReqRel \cup GReqAbs
GReqSearch == {Req(q, sf, 0, "A", "IN") : q \in {<<"www">>, <<"www", "sub">>, <<"www", "s1", "">>}, sf \in {"none", "true", "false"}}
(* the question's class and type: same and different names x {IN, CH} x {A, TXT} *)
GReqClass == {Req(q, "none", 0, qt, qc) : q \in {<<"www", "s1", "">>, <<"ftp", "s1", "">>}, qt \in {"A", "TXT"}, qc \in {"IN", "CH"}}
GReqAll == GReqSearch \cup {Req(<<"www">>, "true", 8, "A", "IN"), Req(<<"a", "b", "c">>, "true", 0, "A", "IN")}
           \cup {Req(<<"www">>, "true", 0, qt, qc) : qt \in {"A", "TXT"}, qc \in {"IN", "CH"}}
           \cup {Req(<<"www", "s1", "">>, "none", 0, qt, qc) : qt \in {"A", "TXT"}, qc \in {"IN", "CH"}}

GBackoff == <<2, 3, 6, 13, 26, 32>>

GOutSmall(q, qt) == OutSmall(q, qt)
GOutFull(q, qt) == OutFull(q, qt)
GOutFailing(q, qt) == OutFailing(q, qt)
GOutFail10(q, qt) == ExcAll \cup RcodeFail
GOutNx(q, qt) == NxSmall(q, qt) \cup {Exc("Timeout")}
GOutCache(q, qt) == {Exc("Timeout"), Exc("FormError")} \cup PosSmall(q, qt) \cup NoDataSmall(q, qt) \cup NxSmall(q, qt)
                    \cup {Msg("NOERROR", Chain(q, qt, 0, <<5>>, 0), <<>>), Msg("NOERROR", <<>>, <<>>)}
GOutClass(q, qt) == PosSmall(q, qt) \cup NoDataSmall(q, qt) \cup NxSmall(q, qt)
(* what a transport can deliver: a reply with TC raises Truncated only from UDP (a stream transport returns it) *)
GOutGlue(q, qt) == {Exc("Timeout"), Exc("FormError"), Exc("OSError"), Msg("SERVFAIL", <<>>, <<>>)} \cup PosSmall(q, qt) \cup NxSmall(q, qt)
                   \cup (IF tcpAttempt THEN {} ELSE {Exc("Truncated")})
GOutClock(q, qt) == {Exc("Timeout"), Msg("SERVFAIL", <<>>, <<>>), Msg("NOERROR", Chain(q, qt, 0, <<5>>, 5), <<>>)}
GAdvSmall(t, l) == AdvSmall(t, l)
GAdvMid(t, l) == AdvMid(t, l)
GAdvFull(t, l) == AdvFull(t, l)
GAdvZero(t, l) == {0}

H(e) == hist' = Append(hist, e)
LastOp == hist[Len(hist)].op
MinOf(S) == CHOOSE x \in S : \A y \in S : x <= y

GInit == Init /\ hist = <<[op |-> "cfg", t0 |-> now] @@ cfg>>

GBegin == /\ nres < MaxRes /\ (nres > 0 => LastOp = "adv")
          /\ \E r \in Requests : Begin(r.qname, r.search, r.life, r.qtype, r.qclass) /\ H([op |-> "begin", api |-> "resolve"] @@ r)
GAdvance == /\ nres > 0 /\ nres < MaxRes /\ LastOp # "adv"
            /\ \E d \in IdleAdvances : Advance(d) /\ H([op |-> "adv", d |-> d])
GQuery == /\ nq < MaxQ
          /\ \E o \in Outcomes(qn, qtype) : \E d \in Advances(tmo, life) :
                (d < 0 => (backs < MaxBack /\ ~UseCache)) /\ Query(o, d) /\ H([op |-> "out", out |-> o, adv |-> d])
GInternal == /\ \/ NextRequest \/ RetryTcp \/ GiveUp \/ Rearm \/ Sleep(BackoffTable[backoffIdx])
                \/ (cur # {} /\ Pick(MinOf(cur))) \/ Expire \/ (now - start >= -TicksPerSec /\ Budget) \/ Finish
             /\ UNCHANGED hist

(* ---- resolve_name(name, family=AF_UNSPEC): AAAA lookup, then A lookup for the name the first settled on;
   each sub-lookup gets min(remaining lifetime, timeout) as its lifetime (that is what the method computes) *)
GCfgName == {Cfg(1, FALSE, FALSE, FALSE, c, lf, 8, sl, Dom, -1, usd) : c \in {"none", "simple"}, lf \in {12, 32}, sl \in {<<S1>>, <<S1, S2>>}, usd \in BOOLEAN}
(* lifetime 0.75 s < 2 x timeout 0.5 s: a reply that takes the whole timeout in the first lookup leaves the
   second lookup less than a full timeout *)
GCfgNameQ == {Cfg(1, FALSE, FALSE, FALSE, "simple", 12, 8, sl, Dom, -1, TRUE) : sl \in {<<S1>>, <<S1, S2>>}}
GReqNameQ == {Req(<<"www">>, "none", 0, "AAAA", "IN")}
GReqName == {Req(<<"www">>, sf, 0, "AAAA", "IN") : sf \in {"true", "none"}}
GOutName(q, qt) == {Exc("Timeout"), Msg("SERVFAIL", <<>>, <<>>)} \cup PosSmall(q, qt) \cup NoDataSmall(q, qt) \cup NxSmall(q, qt)
FollowDue == nres = 1 /\ phase = "rest" /\ result[1] = "answer" /\ now - start < cfg.life
GBeginName == /\ nres = 0
              /\ \E r \in Requests : Begin(r.qname, r.search, Min(cfg.life, cfg.tmo), "AAAA", r.qclass)
                                       /\ H([op |-> "begin", api |-> "name"] @@ r)
GFollow == FollowDue /\ BeginFollowUp(Min(cfg.life - (now - start), cfg.tmo)) /\ UNCHANGED hist
GNextName == GBeginName \/ GFollow \/ GQuery \/ GInternal
EmitName == (phase = "rest" /\ (nres = 2 \/ (nres = 1 /\ ~FollowDue))) => PrintT("BEH " \o ToJson(hist))

GNext == GBegin \/ GAdvance \/ GQuery \/ GInternal

(* for -simulate: the environment's choice is drawn with RandomElement instead of being
   enumerated (TLC's simulator computes every successor before picking one, which is
   quadratic waste with some hundred (outcome, advance) pairs per query) *)
GQuerySim == /\ nq < MaxQ
             /\ \E o \in {RandomElement(Outcomes(qn, qtype))} :
                   \E d \in {RandomElement({x \in Advances(tmo, life) : x < 0 => (backs < MaxBack /\ ~UseCache)})} :
                      Query(o, d) /\ H([op |-> "out", out |-> o, adv |-> d])
GBeginSim == /\ nres < MaxRes /\ (nres > 0 => LastOp = "adv")
             /\ \E r \in {RandomElement(Requests)} :
                   Begin(r.qname, r.search, r.life, r.qtype, r.qclass) /\ H([op |-> "begin", api |-> "resolve"] @@ r)
GInitSim == /\ cfg = RandomElement(Configs) /\ now \in StartTimes /\ InitRest
            /\ hist = <<[op |-> "cfg", t0 |-> now] @@ cfg>>
GNextSim == GBeginSim \/ GAdvance \/ GQuerySim \/ GInternal

Emit == (phase = "rest" /\ nres = MaxRes) => PrintT("BEH " \o ToJson(hist))
=============================================================================
