INIT MCInit
NEXT MCNext
CONSTANTS
  ZO <- UZO
  LabelRank <- URank
  SpOrigins <- UOrigins
  SpTTLs = {300, 5, 0}
  SpNoise <- UNoise
  SpGenerates <- UGenerates
  SpMaxExtra = 2
  SpForms <- McForms
  MCZones <- ZonesSpellQuick
  MCStyles <- SemStyles
  MCModes = {"spell"}
  MCOriginGiven = {TRUE, FALSE}
INVARIANT RoundTrip
INVARIANT NeverErr
INVARIANT Partial
INVARIANT CnameAlone
CHECK_DEADLOCK FALSE
