INIT TraceInit
NEXT TraceNext
CONSTANTS
  Ids = {}
  FlagVals = {}
  RcodeVals = {}
  Opcodes = {}
  Levels = {}
  ExtVals = {}
  ZVals = {}
  Payloads = {}
  OptionSeqs = {}
  Pads = {}
  Frees = {}
  MaxCalls = 0
  Strict = FALSE
CONSTRAINT Accepted
POSTCONDITION Post
CHECK_DEADLOCK FALSE
