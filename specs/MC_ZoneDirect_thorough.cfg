SPECIFICATION Spec
CONSTANTS
  Names = {"@", "a"}
  Types = {"A", "CNAME", "NSEC", "RRSIG/CNAME", "RRSIG/NSEC", "SOA", "NS"}
  RdIds = {1, 2}
  TTLs = {300, 600}
  Filters <- MCFiltersSmall
  InitZones <- MCInitSmall
  NodeShapes <- MCShapes1
  MaxOps = 2
INVARIANT TypeOK
INVARIANT Exclusive
INVARIANT SingletonsSingle
INVARIANT VersionedNoEmpties
INVARIANT FindIffGetNone
INVARIANT CreateIdempotent
PROPERTY RefusedIsNoop
PROPERTY ReadsDontWrite
PROPERTY VersionedOnlyTxn
PROPERTY GetNeverKeyError
PROPERTY DeleteAbsentNoop
PROPERTY DeleteLastDeletesNode
CHECK_DEADLOCK FALSE
