-------------------------- MODULE Trace_ValueObject --------------------------
(* Trace validation for C07 parts 2 and 3.

   part "records": one event per pair of records built by the driver from field lists.
   The recorded results of ==, !=, hash equality and the four order comparisons must be
   the functions of the canonical encoding that ValueObject defines; the encoding is
   computed HERE from the fields, and the recorded to_digestable() octets must equal it.
   Records holding relative names have no canonical encoding of their own: two records
   relativized against the same origin compare like their absolute forms (equality and
   hash only); a relative against an absolute record is a free choice.

   part "immutable": one trace per object (a Name, an instance of every rdata class,
   and every object reachable from their fields): for every slot an attempt to rebind
   and to delete it; and one trace per (rdata class, constructor parameter) for records
   built through the public constructor from mutable containers (TCtor).  ValueObject has no action for a successful mutation. *)
EXTENDS ValueObject, VTrace

VARIABLES t, l
tvars == <<vars, t, l>>

e == Ev(t)[l]
Adv == l' = l + 1 /\ t' = t
B(x) == IF x THEN 1 ELSE 0

TraceInit ==
    /\ RegInit
    /\ t \in 1..NTraces /\ l = 1
    /\ val = IF Log[t].part = "records" THEN Ev(t)[1].a ELSE [cls |-> "-", ty |-> Log[t].tid, f |-> <<>>, mode |-> "-"]
    /\ obs = <<"new">>

Rel(x) == x.mode = "rel" /\ HasName(x)

TCmp ==
    /\ e.op = "cmp"
    /\ Compare(e.b)
    /\ LET x == val
           y == e.b
           kind == SameKind(x, y)
           sameRel == Rel(x) = Rel(y)
           bothAbs == ~Rel(x) /\ ~Rel(y)
           eqm == ValEq(x, y)
       IN /\ Check(t, l, "EqCanonical",
                   /\ e.eq \in {0, 1} /\ e.ne = 1 - e.eq /\ e.qe = e.eq
                   /\ ~kind => e.eq = 0
                   /\ (kind /\ sameRel) => e.eq = B(eqm))
          /\ Check(t, l, "HashFollowsEq",
                   /\ e.hasheq \in {0, 1}
                   /\ e.eq = 1 => e.hasheq = 1
                   /\ (kind /\ sameRel /\ eqm) => e.hasheq = 1)
          /\ Check(t, l, "OrderCanonical",
                   (kind /\ bothAbs) =>
                       /\ e.lt = B(ValLess(x, y)) /\ e.gt = B(ValLess(y, x))
                       /\ e.le = B(~ValLess(y, x)) /\ e.ge = B(~ValLess(x, y)))
          /\ Check(t, l, "EqFollowsDigest",
                   (kind /\ sameRel) => (e.eq = B(e.da[2] = e.db[2])))
          /\ Check(t, l, "DigestIsCanonical",
                   /\ ~Rel(x) => (e.da[1] = 1 /\ e.da[2] = Canon(x))
                   /\ ~Rel(y) => (e.db[1] = 1 /\ e.db[2] = Canon(y)))
    /\ Adv

Look == obs' = <<"field", e.attr>> /\ UNCHANGED val

TSlot ==
    /\ e.op = "slot"
    /\ Look
    /\ Check(t, l, "NoRebind", e.set = "err")
    /\ Check(t, l, "NoDelete", e.del = "err")
    /\ Check(t, l, "FieldUnchanged", e.unchanged)
    /\ Check(t, l, "ImmutableKind", ToSetOf(e.kinds) \subseteq ImmutableKinds)
    /\ Adv

TMapping ==
    /\ e.op = "mapping"
    /\ Look
    /\ Check(t, l, "NoRebind", e.res = "err")
    /\ Check(t, l, "FieldUnchanged", e.unchanged)
    /\ Adv

(* a record built through the public constructor from arguments held in mutable containers
   (bytearray, list, dict): every stored field is of an immutable kind, and changing the
   containers afterwards changes nothing observable.  A constructor may refuse them. *)
TCtor ==
    /\ e.op = "ctor"
    /\ Look
    /\ Check(t, l, "ImmutableKind", e.built = "err" \/ ToSetOf(e.kinds) \subseteq ImmutableKinds)
    /\ Check(t, l, "ArgumentNotAliased", e.built = "err" \/ e.same)
    /\ Adv

TraceNext ==
    /\ l <= Len(Ev(t))
    /\ TCmp \/ TSlot \/ TMapping \/ TCtor

Accepted == Accepting(t, l)
=============================================================================
