SPECIFICATION MCSpec
CONSTANTS
  Contents <- MCContentsSmall
  Rids = {1, 2, 3}
  MaxVersionArgs = {0, 1, 2}
  CustomPolicies = {"oddid", "oldserial", "none"}
  IdArgs = {1, 2, 3, 4, 9}
  SerialArgs = {1, 2, 7}
  MaxCommits = 4
  MaxDepth = 9
CONSTRAINT Bound
PROPERTY AbsSpec
INVARIANT AbsIndInv
INVARIANT AbsSafety
INVARIANT SameProperties
CHECK_DEADLOCK FALSE
