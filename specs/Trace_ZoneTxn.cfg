INIT TraceInit
NEXT TraceNext
CONSTANTS
  Names = {}
  Types = {}
  RdIds = {}
  TTLs = {}
  Serials = {}
  SerialArgs = {}
  InitZones = {}
  MaxOps = 0
CONSTRAINT Accepted
POSTCONDITION Post
CHECK_DEADLOCK FALSE
