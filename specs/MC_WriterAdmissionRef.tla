------------------------ MODULE MC_WriterAdmissionRef ------------------------
(* X04 - TLC check, on bounded instances, that the PlusCal model WriterAdmission implements
   the hand-written abstraction WriterAdmissionAbs under the refinement mapping that is the
   identity on the protocol variables and on the writers' labels, and that sends the labels
   of readers and policy threads to "oCS" (inside a lock hold) / "oIdle" (elsewhere). *)
EXTENDS MC_WriterAdmission

OtherCS == {"rPick", "rRel", "rcEnd", "rcPrune", "rcRel", "pSet", "pPrune", "pRel"}
AbsPc == [t \in ProcSet |-> IF t \in Writers THEN pc[t]
                            ELSE IF pc[t] \in OtherCS THEN "oCS" ELSE "oIdle"]

Abs == INSTANCE WriterAdmissionAbs WITH Others <- Readers \cup Policers, pc <- AbsPc

AbsSpec == Abs!Spec
AbsIndInv == Abs!IndInv
AbsSafety == Abs!Safety
AbsNoCuts == Abs!NoCuts
(* the abstract statements of the properties are the concrete ones (the Cardinality form
   of MutualExclusion included) *)
SameProperties ==
    /\ Abs!MutualExclusion <=> MutualExclusion
    /\ Abs!LockDiscipline <=> LockDiscipline
    /\ Abs!QueueWellFormed <=> QueueWellFormed
    /\ Abs!NoLostWakeup <=> NoLostWakeup
    /\ Abs!OneEventPerCall <=> OneEventPerCall
=============================================================================
