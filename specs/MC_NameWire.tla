---------------------------- MODULE MC_NameWire ----------------------------
(* Bounded instance of NameWire.
   mode "decode": the decoder automaton on every byte string of Wires at every start
       offset (every pointer graph on a few octets: self loops, forward pointers, cycles,
       chains, pointers into the middle of a label) and on the segment-level buffers
       (63-octet labels up to 255 / 256 octets, pointers at the 0x3FFF limit);
   mode "write": up to MaxWrites names written into one buffer with one compression
       table, starting at offsets around 0x3FFF. *)
EXTENDS NameWire, NameUniverse

CONSTANTS Modes, MaxWrites, WriteOctets
VARIABLES mode, wtable, last, nw
vars == <<dvars, mode, wtable, last, nw>>

NoLast == [p |-> 0, out |-> <<>>, full |-> <<>>]
MCNames == {n \in WNames : \A i \in 1..Len(n) : n[i] = <<>> \/ n[i] \in T1(WriteOctets)}
Init == /\ mode \in Modes /\ wtable = <<>> /\ last = NoLast /\ nw = 0
        /\ \/ mode = "decode" /\ \E cs \in PlainCases \cup SegCases : DInit(cs[1], cs[2])
           \/ mode = "write" /\ \E b \in WBases : DInit([base |-> b, tail |-> <<>>], 0)
           \/ mode = "plain" /\ DInit([base |-> 0, tail |-> <<>>], 0)

Dec == mode = "decode" /\ DNext /\ UNCHANGED <<mode, wtable, last, nw>>
Write == /\ mode = "write" /\ nw < MaxWrites
         /\ \E n \in MCNames, o \in WOrigins :
              LET r == WriteName(n, o, wtable, WLen(buf)) IN
              /\ r[1] = "ok"
              /\ buf' = [buf EXCEPT !.tail = @ \o r[2]]
              /\ wtable' = r[3]
              /\ last' = [p |-> WLen(buf), out |-> r[2], full |-> FullName(n, o)[2]]
         /\ nw' = nw + 1
         /\ UNCHANGED <<mode, start, pos, lowest, labels, total, hops, cons, status>>
(* mode "plain": pick a relative name, then an origin (two steps: the workers share the work) *)
PickRel == mode = "plain" /\ nw = 0 /\ nw' = 1 /\ \E n \in LenRel : last' = [p |-> 0, out |-> n, full |-> <<>>]
           /\ UNCHANGED <<dvars, mode, wtable>>
PickOrg == mode = "plain" /\ nw = 1 /\ nw' = 2 /\ \E o \in LenOrg : last' = [last EXCEPT !.full = o]
           /\ UNCHANGED <<dvars, mode, wtable>>
Next == Dec \/ Write \/ PickRel \/ PickOrg
Spec == Init /\ [][Next]_vars

-----------------------------------------------------------------------------
Decoding == mode = "decode"
HopsOk == Decoding => HopsBounded
(* the automaton (which may notice an over-long name early or late) and the function agree *)
DecodeAgrees == Decoding /\ ~Running =>
                    LET d == Decode(buf, start)
                    IN  IF status = "ok" THEN d = <<"ok", labels, cons>> ELSE d[1] = "err"
OkIsValid == Decoding /\ status = "ok" =>
                 /\ Valid(labels) /\ IsAbs(labels) /\ total = WireLen(labels)
                 /\ cons >= 1 /\ start + cons <= WLen(buf)
                 /\ (hops = 0 => cons = total /\ Slice(buf, start, cons) = Encode(labels))
(* an uncompressed encoding decodes to the name it encodes (on what the decoder produced) *)
EncodeDecode == Decoding /\ status = "ok" =>
                    Decode(Plain(Encode(labels)), 0) = <<"ok", labels, WireLen(labels)>>
DecTerminates == [][mode = "decode" => Measure' < Measure]_vars
NoStuck == Decoding /\ Running => ENABLED DNext

Wrote == mode = "write" /\ nw > 0
WriteRoundTrip == Wrote => WrittenDecodes(buf, last.p, last.out, last.full)
WriteTableSound == Wrote => /\ TableSound(buf, wtable, WLen(buf))
                            /\ \A k \in DOMAIN wtable : Len(k) > 1            \* never the root
(* the longest known suffix is used: what was written literally was not in the table before *)
WriteShortest == Wrote => Len(last.out) <= WireLen(last.full)
(* every encoder either refuses or yields at most MaxWire octets, exactly when the
   derelativized name exists; all three agree and decode back *)
Plained == mode = "plain" /\ nw = 2
EncodersBounded ==
    Plained => LET n == last.out  o == last.full
                   d == Derelativize(n, o)
                   w == ToWire(n, Some(o), FALSE)
                   c == ToWire(n, Some(o), TRUE)
                   f == WriteName(n, Some(o), <<>>, 0)
               IN  /\ (IsOk(w) <=> IsOk(d)) /\ (IsOk(c) <=> IsOk(d)) /\ (f[1] = "ok" <=> IsOk(d))
                   /\ (IsOk(d) <=> WireLen(n) + WireLen(o) <= MaxWire)
                   /\ (IsOk(w) => /\ Len(w[2]) <= MaxWire /\ Len(w[2]) = WireLen(d[2]) /\ Len(c[2]) = Len(w[2])
                                  /\ f[2] = w[2]
                                  /\ Decode(Plain(w[2]), 0) = <<"ok", d[2], Len(w[2])>>)
=============================================================================
