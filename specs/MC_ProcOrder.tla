---------------------------- MODULE MC_ProcOrder ----------------------------
EXTENDS ProcOrder
CONSTANTS MaxRecs
MCPrios == {<<0, 0>>, <<0, 1>>, <<1, 0>>}
MCWeights == {0, 1, 2}
MCRecords == [p : MCPrios, w : MCWeights]
RECURSIVE SeqsUpTo(_, _)
SeqsUpTo(S, n) == IF n = 0 THEN {<<>>} ELSE LET T == SeqsUpTo(S, n - 1) IN T \cup {Append(s, x) : s \in {u \in T : Len(u) = n - 1}, x \in S}
MCRdSets == [kind : {"priority", "weighted", "shuffle"}, recs : SeqsUpTo(MCRecords, MaxRecs)]
\* constant-level theorems, evaluated once by TLC over the whole universe
ASSUME RfcSelectsAny
ASSUME DefinitionsAgree
ASSUME WeightsDontRestrict
=============================================================================
