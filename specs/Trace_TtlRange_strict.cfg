INIT TraceInit
NEXT TraceNext
CONSTANTS
  Strict = TRUE
  ForeignDigits = {1633}
CONSTRAINT Accepted
POSTCONDITION Post
CHECK_DEADLOCK FALSE
