SPECIFICATION Spec
CONSTANTS
  MaxRecs = 3
  NameSel = {2, 4}
  KindSel = {"A", "NS", "RRSIG", "SOA"}
  Budgets = {65535, 45}
  BigLen = 0
INVARIANT TableSound
INVARIANT CountsMatch
INVARIANT RoundTrip
INVARIANT Budget
INVARIANT PadExact
PROPERTY RefusedIsNoop
CHECK_DEADLOCK FALSE
