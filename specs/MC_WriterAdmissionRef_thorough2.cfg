SPECIFICATION Spec
CONSTANTS
  Writers = {1, 2, 3, 4}
  Readers = {5}
  NTxn = 1
  NReads = 1
  MCHows = {"commit", "rollback"}
  Plans <- MCPlansLive
  RPlans <- MCRPlans
  RModes <- MCRModes
  MCRModeSet = {"latest"}
  InitVid = 2
  Policers = {}
  PPlans <- MCPPlans
PROPERTY AbsSpec
PROPERTY AbsNoCuts
INVARIANT AbsIndInv
INVARIANT AbsSafety
INVARIANT SameProperties
