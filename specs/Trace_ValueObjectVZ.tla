------------------------- MODULE Trace_ValueObjectVZ -------------------------
(* Trace validation for C11 (immutability part).  A trace is the examination of every
   object reachable from one read transaction.  Events:
     obj   - examination of an object begins (kind, digest of the object, of the zone)
     call  - a mutating call, with arguments that changed a mutable twin of the object,
             was applied to the object: outcome, digest of the object and of the zone after
     done  - end of an object's examination, with the catalogue names its twin offers
     end   - end of the trace, digest of the zone
   A call event is accepted only as ValueObjectVZ!Refused: it must have been non-trivial,
   must have raised, and both digests must be unchanged. *)
EXTENDS ValueObjectVZ, VTrace

VARIABLES t, l
tvars == <<vars, t, l>>

TraceInit ==
    /\ RegInit
    /\ t \in 1..NTraces /\ l = 1
    /\ kind = "" /\ st = "" /\ world = "" /\ examined = 0
    /\ attempted = [k \in Kinds |-> {}] /\ offered = [k \in Kinds |-> {}]

e == Ev(t)[l]
Adv == l' = l + 1 /\ t' = t

TObj == /\ e.op = "obj"
        \* between two objects the zone must not have changed either
        /\ Check(t, l, "SnapshotUnchanged", world = "" \/ e.world = world)
        /\ Begin(e.kind, e.st, e.world) /\ Adv
TCall == /\ e.op = "call"
         /\ Refused(e.m)
         /\ Check(t, l, "NonTrivial", e.twin)
         /\ Check(t, l, "MutatorRefused", e.res = "err")
         /\ Check(t, l, "ObjectUnchanged", e.after = st')
         /\ Check(t, l, "SnapshotUnchanged", e.world = world')
         /\ Adv
(* a mutator called with no-op arguments: refused too (MutatorRefused), except the exact
   calls of ValueObjectVZ!NoopTolerated; never any change *)
TNoop == /\ e.op = "noop"
         /\ Check(t, l, "MutatorRefused", e.res = "err" \/ <<kind, e.cls, e.m, e.args>> \in NoopTolerated)
         /\ IF e.res = "err" THEN RefusedNoop(e.m) ELSE SilentNoop(e.cls, e.m, e.args)
         /\ Check(t, l, "ObjectUnchanged", e.after = st')
         /\ Check(t, l, "SnapshotUnchanged", e.world = world')
         /\ Adv
TDone == /\ e.op = "done"
         /\ Done(ToSetOf(e.available)) /\ Adv
TEnd == /\ e.op = "end" /\ kind = ""
        /\ Check(t, l, "SnapshotUnchanged", e.world = world)
        /\ Check(t, l, "ObjectsExamined", examined >= 4)
        \* on a snapshot with content, the whole catalogue must have been witnessed
        /\ Check(t, l, "CatalogueCovered", e.rich => Covered)
        /\ UNCHANGED vars /\ Adv

TraceNext == l <= Len(Ev(t)) /\ (TObj \/ TCall \/ TNoop \/ TDone \/ TEnd)

Accepted == Accepting(t, l)
=============================================================================
