INIT MCInit
NEXT MCNext
CONSTANTS
  Alphabet <- MCAlpha
  MaxLines = 4
  MaxDepth = 2
  Cfgs <- MCCfgs
  Pols <- PolsQuick
INVARIANTS RedundantDirective InlineLaw Shape OutSane
PROPERTIES ExitRestoresOrigin Hermetic OutGrows
CHECK_DEADLOCK FALSE
