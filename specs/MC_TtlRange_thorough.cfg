SPECIFICATION Spec
CONSTANTS
  Modes = {"ttl", "range", "serial"}
  N2 <- TN2
  C2 <- TC2
  N3 <- TN3
  C3 <- TC3
  RTok <- TRTok
  RLen = 5
  RMidTok <- TRMid
  RLongTok <- TRLong
  SBits <- AllBits
INVARIANT TtlFoldAgrees
INVARIANT TtlBound
INVARIANT TtlRoundTrip
INVARIANT TtlPlain
INVARIANT TtlCaseBlind
INVARIANT TtlRotate
INVARIANT TtlAdditive
INVARIANT TtlNative
INVARIANT TtlRefuses
INVARIANT RangeFoldAgrees
INVARIANT RangeOrdered
INVARIANT RangeDefaultStep
INVARIANT RangeRoundTrip
INVARIANT RangeRefuses
INVARIANT SerIrreflexive
INVARIANT SerAntisymmetric
INVARIANT SerDual
INVARIANT SerOneOfFour
INVARIANT SerModular
INVARIANT SerAddWraps
INVARIANT SerAddOne
INVARIANT SerLimbs
PROPERTY Progress
PROPERTY SerIncreases
CHECK_DEADLOCK FALSE
