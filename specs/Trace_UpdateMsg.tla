--------------------------- MODULE Trace_UpdateMsg ---------------------------
(* Trace validation for X06a: every recorded call on a real dns.update.UpdateMessage must be
   the corresponding UpdateMsg action, and the recorded four sections - projected from the
   message object after every call, and at the end from the octets of to_wire() (by a parser
   of the driver's own) and from the message from_wire() makes of them - must equal the model's. *)
EXTENDS UpdateMsg, VTrace

CONSTANT TolerateF1   \* TRUE: second pass for traces rejected only because of finding X06-F1
VARIABLES t, l
tvars == <<vars, t, l>>

LogRRs(p) == [i \in 1..Len(p) |-> RR(p[i][1], p[i][2], p[i][3], p[i][4], p[i][5])]

TraceInit ==
    /\ RegInit
    /\ t \in 1..NTraces /\ l = 1
    /\ zclass = Log[t].zclass
    /\ zone = <<RR("@", "SOA", zclass, 0, 0)>>
    /\ prereq = <<>> /\ update = <<>> /\ addl = <<>> /\ ncalls = 0 /\ last = [op |-> "init", sec |-> "none"]

e == Ev(t)[l]
Adv == l' = l + 1 /\ t' = t
Built == /\ Check(t, l, "ZoneSection", LogRRs(e.sec[1]) = zone')
         /\ Check(t, l, "PrereqSection", LogRRs(e.sec[2]) = prereq')
         /\ Check(t, l, "UpdateSection", LogRRs(e.sec[3]) = update')
         /\ Check(t, l, "AdditionalSection", LogRRs(e.sec[4]) = addl')

TInitEv == /\ e.op = "init" /\ Check(t, l, "InitOk", e.res = "ok")
           /\ UNCHANGED vars /\ Built /\ Adv

\* second pass only: present(name, rdataset) observed to carry the rdataset's TTL (X06-F1)
PresentValueF1(n, gs) == LET F(g) == GroupRRs(n, zclass, g.ttl, g) IN Pre("present", OverGroups(gs, F))

TCall ==
    /\ e.op \in {"present", "absent", "add", "replace", "delete"}
    /\ Check(t, l, "CallOk", e.res = "ok")
    /\ CASE e.form = "name" ->
              (CASE e.op = "present" -> PresentName(e.n) [] e.op = "absent" -> AbsentName(e.n)
                 [] e.op = "delete" -> DeleteName(e.n) [] OTHER -> FALSE)
         [] e.form = "type" ->
              (CASE e.op = "present" -> PresentType(e.n, e.ty) [] e.op = "absent" -> AbsentType(e.n, e.ty)
                 [] e.op = "delete" -> DeleteType(e.n, e.ty) [] OTHER -> FALSE)
         [] e.form \in {"rdataset", "rdata", "text"} ->
              (CASE e.op = "present" -> (IF TolerateF1 /\ e.form = "rdataset" THEN PresentValueF1(e.n, e.gs)
                                        ELSE PresentValue(e.n, e.gs))
                 [] e.op = "add" -> Add(e.n, e.gs) [] e.op = "replace" -> Replace(e.n, e.gs)
                 [] e.op = "delete" -> DeleteValue(e.n, e.gs) [] OTHER -> FALSE)
         [] OTHER -> FALSE
    /\ Built /\ Adv

TWire ==
    /\ e.op = "wire" /\ UNCHANGED vars
    /\ Check(t, l, "WireOk", e.res = "ok")
    /\ Check(t, l, "HeaderCounts", e.counts = <<1, Len(prereq), Len(update), Len(addl)>>)
    /\ Check(t, l, "OpcodeUpdate", e.opcode = 5 /\ e.popcode = 5)
    /\ Check(t, l, "ParsedClass", e.cls = "UpdateMessage")
    /\ Check(t, l, "Rfc2136Form", TolerateF1 \/ WellFormed(LogRRs(e.wire[2]), LogRRs(e.wire[3])))
    /\ Check(t, l, "WireZone", LogRRs(e.wire[1]) = zone)
    /\ Check(t, l, "WirePrereq", LogRRs(e.wire[2]) = prereq)
    /\ Check(t, l, "WireUpdate", LogRRs(e.wire[3]) = update)
    /\ Check(t, l, "WireAdditional", LogRRs(e.wire[4]) = addl)
    /\ Check(t, l, "ParsedZone", LogRRs(e.parsed[1]) = zone)
    /\ Check(t, l, "ParsedPrereq", LogRRs(e.parsed[2]) = prereq)
    /\ Check(t, l, "ParsedUpdate", LogRRs(e.parsed[3]) = update)
    /\ Check(t, l, "ParsedAdditional", LogRRs(e.parsed[4]) = addl)
    /\ Check(t, l, "Rerendered", e.again)
    /\ Adv

TraceNext == l <= Len(Ev(t)) /\ (TInitEv \/ TCall \/ TWire)
Accepted == Accepting(t, l)
=============================================================================
