---- MODULE MC_RdTokenizer_TTrace_1790374464 ----
EXTENDS Sequences, TLCExt, MC_RdTokenizer, Toolbox, Naturals, TLC

_expression ==
    LET MC_RdTokenizer_TEExpression == INSTANCE MC_RdTokenizer_TEExpression
    IN MC_RdTokenizer_TEExpression!expression
----

_trace ==
    LET MC_RdTokenizer_TETrace == INSTANCE MC_RdTokenizer_TETrace
    IN MC_RdTokenizer_TETrace!trace
----

_inv ==
    ~(
        TLCGet("level") = Len(_TETrace)
        /\
        phase = ("tok")
        /\
        quoting = (TRUE)
        /\
        tt = ("QUOTED_STRING")
        /\
        last = (<<>>)
        /\
        nread = (1)
        /\
        wc = (FALSE)
        /\
        utok = (<<>>)
        /\
        skipped = (FALSE)
        /\
        tok = (<<>>)
        /\
        eofSeen = (TRUE)
        /\
        esc = (FALSE)
        /\
        wl = (FALSE)
        /\
        ungot = (<<>>)
        /\
        cbuf = (<<>>)
        /\
        ml = (0)
        /\
        status = ("UnexpectedEnd")
    )
----

_init ==
    /\ phase = _TETrace[1].phase
    /\ ml = _TETrace[1].ml
    /\ cbuf = _TETrace[1].cbuf
    /\ quoting = _TETrace[1].quoting
    /\ tok = _TETrace[1].tok
    /\ eofSeen = _TETrace[1].eofSeen
    /\ last = _TETrace[1].last
    /\ tt = _TETrace[1].tt
    /\ skipped = _TETrace[1].skipped
    /\ nread = _TETrace[1].nread
    /\ status = _TETrace[1].status
    /\ ungot = _TETrace[1].ungot
    /\ wc = _TETrace[1].wc
    /\ wl = _TETrace[1].wl
    /\ utok = _TETrace[1].utok
    /\ esc = _TETrace[1].esc
----

_next ==
    /\ \E i,j \in DOMAIN _TETrace:
        /\ \/ /\ j = i + 1
              /\ i = TLCGet("level")
        /\ phase  = _TETrace[i].phase
        /\ phase' = _TETrace[j].phase
        /\ ml  = _TETrace[i].ml
        /\ ml' = _TETrace[j].ml
        /\ cbuf  = _TETrace[i].cbuf
        /\ cbuf' = _TETrace[j].cbuf
        /\ quoting  = _TETrace[i].quoting
        /\ quoting' = _TETrace[j].quoting
        /\ tok  = _TETrace[i].tok
        /\ tok' = _TETrace[j].tok
        /\ eofSeen  = _TETrace[i].eofSeen
        /\ eofSeen' = _TETrace[j].eofSeen
        /\ last  = _TETrace[i].last
        /\ last' = _TETrace[j].last
        /\ tt  = _TETrace[i].tt
        /\ tt' = _TETrace[j].tt
        /\ skipped  = _TETrace[i].skipped
        /\ skipped' = _TETrace[j].skipped
        /\ nread  = _TETrace[i].nread
        /\ nread' = _TETrace[j].nread
        /\ status  = _TETrace[i].status
        /\ status' = _TETrace[j].status
        /\ ungot  = _TETrace[i].ungot
        /\ ungot' = _TETrace[j].ungot
        /\ wc  = _TETrace[i].wc
        /\ wc' = _TETrace[j].wc
        /\ wl  = _TETrace[i].wl
        /\ wl' = _TETrace[j].wl
        /\ utok  = _TETrace[i].utok
        /\ utok' = _TETrace[j].utok
        /\ esc  = _TETrace[i].esc
        /\ esc' = _TETrace[j].esc

\* Uncomment the ASSUME below to write the states of the error trace
\* to the given file in Json format. Note that you can pass any tuple
\* to `JsonSerialize`. For example, a sub-sequence of _TETrace.
    \* ASSUME
    \*     LET J == INSTANCE Json
    \*         IN J!JsonSerialize("MC_RdTokenizer_TTrace_1790374464.json", _TETrace)

=============================================================================

 Note that you can extract this module `MC_RdTokenizer_TEExpression`
  to a dedicated file to reuse `expression` (the module in the 
  dedicated `MC_RdTokenizer_TEExpression.tla` file takes precedence 
  over the module `MC_RdTokenizer_TEExpression` below).

---- MODULE MC_RdTokenizer_TEExpression ----
EXTENDS Sequences, TLCExt, MC_RdTokenizer, Toolbox, Naturals, TLC

expression == 
    [
        \* To hide variables of the `MC_RdTokenizer` spec from the error trace,
        \* remove the variables below.  The trace will be written in the order
        \* of the fields of this record.
        phase |-> phase
        ,ml |-> ml
        ,cbuf |-> cbuf
        ,quoting |-> quoting
        ,tok |-> tok
        ,eofSeen |-> eofSeen
        ,last |-> last
        ,tt |-> tt
        ,skipped |-> skipped
        ,nread |-> nread
        ,status |-> status
        ,ungot |-> ungot
        ,wc |-> wc
        ,wl |-> wl
        ,utok |-> utok
        ,esc |-> esc
        
        \* Put additional constant-, state-, and action-level expressions here:
        \* ,_stateNumber |-> _TEPosition
        \* ,_phaseUnchanged |-> phase = phase'
        
        \* Format the `phase` variable as Json value.
        \* ,_phaseJson |->
        \*     LET J == INSTANCE Json
        \*     IN J!ToJson(phase)
        
        \* Lastly, you may build expressions over arbitrary sets of states by
        \* leveraging the _TETrace operator.  For example, this is how to
        \* count the number of times a spec variable changed up to the current
        \* state in the trace.
        \* ,_phaseModCount |->
        \*     LET F[s \in DOMAIN _TETrace] ==
        \*         IF s = 1 THEN 0
        \*         ELSE IF _TETrace[s].phase # _TETrace[s-1].phase
        \*             THEN 1 + F[s-1] ELSE F[s-1]
        \*     IN F[_TEPosition - 1]
    ]

=============================================================================



Parsing and semantic processing can take forever if the trace below is long.
 In this case, it is advised to uncomment the module below to deserialize the
 trace from a generated binary file.

\*
\*---- MODULE MC_RdTokenizer_TETrace ----
\*EXTENDS IOUtils, MC_RdTokenizer, TLC
\*
\*trace == IODeserialize("MC_RdTokenizer_TTrace_1790374464.bin", TRUE)
\*
\*=============================================================================
\*

---- MODULE MC_RdTokenizer_TETrace ----
EXTENDS MC_RdTokenizer, TLC

trace == 
    <<
    ([phase |-> "idle",quoting |-> FALSE,tt |-> "IDENTIFIER",last |-> <<>>,nread |-> 0,wc |-> FALSE,utok |-> <<>>,skipped |-> FALSE,tok |-> <<>>,eofSeen |-> FALSE,esc |-> FALSE,wl |-> FALSE,ungot |-> <<>>,cbuf |-> <<>>,ml |-> 0,status |-> "run"]),
    ([phase |-> "lead",quoting |-> FALSE,tt |-> "IDENTIFIER",last |-> <<>>,nread |-> 0,wc |-> FALSE,utok |-> <<>>,skipped |-> FALSE,tok |-> <<>>,eofSeen |-> FALSE,esc |-> FALSE,wl |-> FALSE,ungot |-> <<>>,cbuf |-> <<>>,ml |-> 0,status |-> "run"]),
    ([phase |-> "start",quoting |-> FALSE,tt |-> "IDENTIFIER",last |-> <<>>,nread |-> 1,wc |-> FALSE,utok |-> <<>>,skipped |-> FALSE,tok |-> <<>>,eofSeen |-> FALSE,esc |-> FALSE,wl |-> FALSE,ungot |-> <<34>>,cbuf |-> <<>>,ml |-> 0,status |-> "run"]),
    ([phase |-> "tok",quoting |-> TRUE,tt |-> "QUOTED_STRING",last |-> <<>>,nread |-> 1,wc |-> FALSE,utok |-> <<>>,skipped |-> FALSE,tok |-> <<>>,eofSeen |-> FALSE,esc |-> FALSE,wl |-> FALSE,ungot |-> <<>>,cbuf |-> <<>>,ml |-> 0,status |-> "run"]),
    ([phase |-> "tok",quoting |-> TRUE,tt |-> "QUOTED_STRING",last |-> <<>>,nread |-> 1,wc |-> FALSE,utok |-> <<>>,skipped |-> FALSE,tok |-> <<>>,eofSeen |-> TRUE,esc |-> FALSE,wl |-> FALSE,ungot |-> <<>>,cbuf |-> <<>>,ml |-> 0,status |-> "UnexpectedEnd"])
    >>
----


=============================================================================

---- CONFIG MC_RdTokenizer_TTrace_1790374464 ----
CONSTANTS
    Alphabet = { 32 , 10 , 34 , 40 , 41 , 59 , 92 , 97 }
    MaxLen = 4

INVARIANT
    _inv

CHECK_DEADLOCK
    \* CHECK_DEADLOCK off because of PROPERTY or INVARIANT above.
    FALSE

INIT
    _init

NEXT
    _next

CONSTANT
    _TETrace <- _trace

ALIAS
    _expression
=============================================================================
\* Generated on Fri Sep 25 22:14:26 UTC 2026