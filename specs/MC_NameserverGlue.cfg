INIT Init
NEXT Next
CONSTANTS
  Calls <- MCCalls
  Replies <- MCReplies
INVARIANT CanonConforms
INVARIANT TruncationSignalled
CHECK_DEADLOCK FALSE
