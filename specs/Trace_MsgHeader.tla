--------------------------- MODULE Trace_MsgHeader ---------------------------
(* Trace validation for X06b: every recorded call on a real dns.message.Message must be the
   corresponding MsgHeader action; after each call the projected header / EDNS state of the
   real message must equal the model's in every documented field.  Undocumented (free) fields
   are taken from the log (record fr), so they constrain nothing. *)
EXTENDS MsgHeader, VTrace

CONSTANT Strict   \* TRUE only for the drift count: RFC 4035 3.2.2 (CD copied), RFC 3225 3 (DO copied)
VARIABLES t, l
tvars == <<vars, t, l>>

e == Ev(t)[l]
Adv == l' = l + 1 /\ t' = t
fr == [payload |-> e.st.payload, reqpay |-> e.st.reqpay, pad |-> e.st.pad, ver |-> e.st.ver, ext |-> e.st.ext,
       z |-> e.st.z, options |-> e.st.options]

\* x = the model's message after the call
StateOK(x) ==
    /\ Check(t, l, "Id", e.st.id = x.id)
    /\ Check(t, l, "Flags", e.st.flags = x.flags)
    /\ Check(t, l, "Opcode", e.st.opcode = OpcodeOf(x.flags))
    /\ Check(t, l, "EdnsOnOff", (e.st.edns >= 0) = x.opt)
    /\ Check(t, l, "EdnsLevel", e.st.edns = EdnsLevel(x))
    /\ Check(t, l, "ExtendedRcode", e.st.ext = x.ext)
    /\ Check(t, l, "Rcode", e.st.rcode = RcodeOf(x))
    /\ Check(t, l, "EdnsVersionBits", e.st.ver = x.ver)
    /\ Check(t, l, "EdnsFlags", e.st.z = x.z)
    /\ Check(t, l, "Payload", e.st.payload = x.payload)
    /\ Check(t, l, "Options", e.st.options = x.options)
    /\ Check(t, l, "RequestPayload", e.st.reqpay = x.reqpay)
    /\ Check(t, l, "Pad", e.st.pad = x.pad)
    /\ Check(t, l, "Tsig", e.st.tsig = x.tsig)
    /\ Check(t, l, "Class", e.st.cls = x.cls)
Outcome == Check(t, l, "Outcome", (res' = "refused") <=> (e.res = "err"))
Done == Outcome /\ StateOK(m') /\ Adv

TraceInit ==
    /\ RegInit
    /\ t \in 1..NTraces /\ l = 1
    /\ LET a == Log[t].ev[1].a
           st == Log[t].ev[1].st
           f0 == [payload |-> st.payload, reqpay |-> st.reqpay, pad |-> st.pad, ver |-> st.ver, ext |-> st.ext, z |-> st.z,
                  options |-> st.options]
       IN \E on \in BOOLEAN : (on => a.pad > 0 /\ a.ue = -2) /\ m = AfterQuery(a, on, f0)
    /\ ncalls = 0 /\ last = <<"make_query">> /\ res = "ok"

TQuery == /\ e.op = "make_query" /\ l = 1 /\ UNCHANGED vars
          /\ Check(t, l, "QueryOk", e.res = "ok") /\ StateOK(m) /\ Adv
TUseEdns == /\ e.op = "use_edns"
            /\ IF e.sp \in {"none", "false", "neg"} THEN UseEdnsOff(fr)
               ELSE UseEdnsOn(e.lvl, e.ext, e.z, e.pl, e.hasrp, e.rp, e.ops, e.pd)
            /\ Done
TWantDnssec == e.op = "want_dnssec" /\ WantDnssec(e.b, fr) /\ Done
TSetRcode == e.op = "set_rcode" /\ SetRcode(e.v, fr) /\ Done
TSetOpcode == e.op = "set_opcode" /\ SetOpcode(e.o) /\ Done
TFlags == e.op = "flags" /\ SetFlags(e.f) /\ Done
TEdnsFlags == e.op = "ednsflags" /\ SetEdnsFlags(e.ext, e.ver, e.z, fr) /\ Done
TWire == e.op = "wire" /\ Check(t, l, "WireOk", e.res = "ok") /\ Wire(fr) /\ Done
TUseTsig == e.op = "use_tsig" /\ UseTsig /\ Done
TMakeResponse ==
    /\ e.op = "make_response"
    /\ IF e.res = "err" THEN Check(t, l, "ResponseToQuery", Bit(m.flags, QR)) /\ Refused(<<"make_response", e.ra, e.ourpay, e.haspad, e.padarg>>)
       ELSE /\ Check(t, l, "RespQR", Bit(e.st.flags, QR))
            /\ Check(t, l, "RespOpcode", OpcodeOf(e.st.flags) = OpcodeOf(m.flags))
            /\ Check(t, l, "RespRD", Bit(e.st.flags, RD) = Bit(m.flags, RD))
            /\ Check(t, l, "RespRA", Bit(e.st.flags, RA) = e.ra)
            /\ Check(t, l, "RespOptIffQueryOpt", (e.st.edns >= 0) = m.opt)
            /\ Check(t, l, "TsigCarried", m.tsig => e.tsiginfo = <<"key.", e.fudge, 0, TRUE>>)
            /\ Check(t, l, "RespCopiesCD", Strict => Bit(e.st.flags, CD) = Bit(m.flags, CD))
            /\ Check(t, l, "RespCopiesDO", (Strict /\ m.opt) => Bit(e.st.z, DO) = Bit(m.z, DO))
            /\ MakeResponse(e.st.flags, e.ra, e.ourpay, e.haspad, e.padarg, fr)
    /\ Done
TProbe == /\ e.op = "is_response" /\ Check(t, l, "ProbeOk", e.res = "ok") /\ Probe
          /\ Check(t, l, "IsResponse", e.val = IsResponseExpect(m)) /\ StateOK(m') /\ Adv

TraceNext == /\ l <= Len(Ev(t))
             /\ \/ TQuery \/ TUseEdns \/ TWantDnssec \/ TSetRcode \/ TSetOpcode \/ TFlags \/ TEdnsFlags \/ TWire
                \/ TUseTsig \/ TMakeResponse \/ TProbe
Accepted == Accepting(t, l)
=============================================================================
