---------------------------- MODULE RdataUniverse ----------------------------
(* The bounded universe of C02: per field kind a set of boundary values and a base value;
   per type a few overrides where the RFC ties fields together (digest type / length,
   gateway selector, LOC ranges, SvcParams, EDNS options ...).  The value vectors of a type
   are all vectors that differ from the base vector in at most Depth fields (Depth = 2 is
   the full pairwise star).  Ill-formed values (not WellFormed) are part of the universe on
   purpose: their encodings are offered to the decoders as malformed RDATA. *)
EXTENDS RdataCodec

CONSTANTS Wide,    \* BOOLEAN: larger boundary sets
          Depth    \* 1 or 2

Asc(n) == [i \in 1..n |-> i]
Origin == Nm(TRUE, <<<<111>>>>)                  \* o.

NA     == Nm(TRUE, <<<<97>>>>)                   \* a.
NAb    == Nm(TRUE, <<<<65>>, <<98>>>>)           \* A.b.
NBase  == Nm(TRUE, <<<<65, 98>>>>)               \* Ab.
NRelA  == Nm(FALSE, <<<<97>>>>)                  \* a     (relative)
NAt    == Nm(FALSE, <<>>)                        \* @     (relative, empty)
N63    == Nm(TRUE, <<Rep(120, 63)>>)
N255   == Nm(TRUE, <<Rep(120, 63), Rep(121, 63), Rep(122, 63), Rep(119, 61)>>)   \* 255 octets on the wire
NBin   == Nm(TRUE, <<<<0, 255, 46>>, <<92>>>>)   \* octets that need escaping in text

NameSet(rel) == (IF Wide THEN {RootName, NA, NAb, N63, N255, NBin} ELSE {RootName, NAb, N255, NBin})
                \cup (IF rel THEN {NRelA, NAt} ELSE {})
U8Set  == IF Wide THEN {0, 1, 127, 128, 255} ELSE {0, 128, 255}
U16Set == IF Wide THEN {0, 1, 255, 256, 32767, 32768, 65535} ELSE {0, 255, 256, 65535}
FixedSet(n) == {Rep(0, n), Rep(255, n), <<128>> \o Rep(0, n - 1)} \cup (IF Wide THEN {Rep(0, n - 1) \o <<1>>} ELSE {})
Lp1Set == {<<0>>, <<255>>, Rep(120, 255), <<34, 92>>} \cup (IF Wide THEN {<<34>>, <<92>>, <<59>>, <<32>>} ELSE {})
Lp2Set == {<<0>>, Rep(7, 256)} \cup (IF Wide THEN {Rep(7, 255), <<255>>} ELSE {})
RestSet == {<<0>>, <<255>>, Rep(171, 300)}
Lp1sSet == {<<<<0>>, <<98>>>>, <<Rep(120, 255)>>, <<<<97>>, <<98>>, <<99>>>>}
BitmapSet == {BitmapOf(S) : S \in {{1}, {0}, {7, 8}, {255, 256}, {65535}, {1, 2, 6, 46, 47}, {1, 1234, 65280}}}
             \cup {<<<<0, <<64, 0>>>>>>,                          \* trailing zero octet
                   <<<<1, <<64>>>>, <<0, <<64>>>>>>,              \* windows out of order
                   <<<<0, <<64>>>>, <<0, <<32>>>>>>,              \* window repeated
                   <<<<0, Rep(1, 33)>>>>}                         \* 33 octets
GatewaySet(rel) == {<<"none">>, <<"ipv4", <<192, 0, 2, 1>>>>, <<"ipv6", Asc(16)>>, <<"name", RootName>>, <<"name", NAb>>}
                   \cup (IF rel THEN {<<"name", NRelA>>} ELSE {})
NamesSet(rel) == {<<NA>>, <<NA, RootName>>, <<N255>>} \cup (IF rel THEN {<<NRelA>>} ELSE {})
HipSet == {<<h, a, k>> : h \in {Asc(16), Rep(9, 255)}, a \in {0, 255}, k \in {<<1, 2, 3>>, Rep(8, 256)}}
AplSet == {<<<<1, 24, 1, <<192, 0, 2>>>>>>,                       \* !1:192.0.2.0/24
           <<<<2, 128, 0, Asc(16)>>>>,
           <<<<1, 0, 0, <<10>>>>, <<2, 8, 1, <<255>>>>>>,
           <<<<1, 32, 0, <<10, 0, 0, 1>>>>, <<1, 32, 0, <<10, 0, 0, 1>>>>>>,
           <<<<3, 8, 0, <<1>>>>>>,                                 \* family not decided
           <<<<1, 16, 0, <<10, 0>>>>>>,                            \* trailing zero octet
           <<<<1, 8, 0, <<1, 2, 3, 4, 5>>>>>>,                     \* too long for IPv4
           <<<<1, 33, 0, <<10>>>>>>,                               \* prefix > 32
           <<<<2, 129, 0, <<1>>>>>>}
\* SvcParams
PAlpn == <<1, <<2, 104, 50, 2, 104, 51>>>>       \* alpn=h2,h3
PPort == <<3, <<1, 187>>>>                      \* port=443
PV4   == <<4, <<192, 0, 2, 1, 192, 0, 2, 2>>>>
PV6   == <<6, Asc(16)>>
PEch  == <<5, <<0, 1, 2>>>>
PPriv == <<65280, <<0, 255>>>>
SvcSet == {<<PAlpn>>, <<PPort>>, <<PV4>>, <<PV6>>, <<PEch, PPriv>>,
           <<<<0, <<0, 1, 0, 3>>>>, PAlpn, PPort>>,              \* mandatory=alpn,port
           <<PAlpn, <<2, <<>>>>>>,                                \* no-default-alpn
           <<<<8, <<>>>>>>,                                       \* ohttp
           <<<<65280, <<>>>>, <<65535, <<1>>>>>>,
           <<<<7, <<47, 123, 63, 100, 110, 115, 125>>>>>>,         \* dohpath (not decided)
           <<PPort, PAlpn>>,                                      \* out of order
           <<PPort, PPort>>,                                      \* repeated
           <<<<0, <<0, 3>>>>, PAlpn>>,                            \* mandatory key absent
           <<<<0, <<0, 3, 0, 1>>>>, PAlpn, PPort>>,               \* mandatory list not ascending
           <<<<0, <<0, 0>>>>, PAlpn>>,                            \* mandatory lists itself
           <<<<0, <<>>>>>>,                                       \* empty mandatory
           <<<<3, <<1>>>>>>, <<<<3, <<1, 2, 3>>>>>>,               \* port length
           <<<<2, <<>>>>>>,                                       \* no-default-alpn without alpn
           <<PAlpn, <<2, <<1>>>>>>,                               \* no-default-alpn with a value
           <<<<1, <<>>>>>>, <<<<1, <<0>>>>>>, <<<<1, <<3, 104, 50>>>>>>,   \* alpn: empty list, empty id, overrun
           <<<<4, <<>>>>>>, <<<<4, <<1, 2, 3>>>>>>, <<<<6, Asc(15)>>>>,
           <<<<8, <<1>>>>>>}
\* EDNS options
ONsid == <<3, <<1, 2>>>>
OEcs4 == <<8, <<0, 1, 24, 0, 192, 0, 2>>>>       \* 192.0.2.0/24
OEcs6 == <<8, <<0, 2, 56, 0, 32, 1, 13, 184, 0, 0, 1>>>>
OCookie == <<10, Asc(8)>>
OEde == <<15, <<0, 18, 104, 105>>>>
OptSet == {<<ONsid>>, <<OEcs4>>, <<OEcs6>>, <<<<8, <<0, 1, 0, 0>>>>>>, <<<<8, <<0, 1, 32, 24, 10, 0, 0, 1>>>>>>,
           <<<<8, <<0, 1, 20, 0, 10, 1, 240>>>>>>,
           <<OCookie>>, <<<<10, Asc(24)>>>>, <<<<10, Asc(40)>>>>, <<<<15, <<0, 0>>>>>>, <<OEde>>, <<<<15, <<255, 255>>>>>>,
           <<<<12, Rep(0, 5)>>>>, <<<<12, <<>>>>>>, <<<<18, <<1, 97, 0>>>>>>, <<<<65001, <<7>>>>>>,
           <<ONsid, OCookie, OEde>>, <<ONsid, ONsid>>,
           <<<<22, <<101, 110>>>>>>, <<<<23, <<120>>>>>>,
           <<<<8, <<0, 1, 24, 0, 192, 0>>>>>>, <<<<8, <<0, 1, 24, 0, 192, 0, 2, 1>>>>>>, <<<<8, <<0, 1, 33, 0, 1, 2, 3, 4, 5>>>>>>,
           <<<<8, <<0, 1>>>>>>,                                   \* ECS: address length, prefix, header
           <<<<8, <<0, 1, 20, 0, 10, 1, 255>>>>>>,                 \* ECS pad bits set (not decided)
           <<<<8, <<0, 3, 8, 0, 1>>>>>>,                          \* ECS family 3 (not decided)
           <<<<10, Asc(7)>>>>, <<<<10, Asc(9)>>>>, <<<<10, Asc(41)>>>>,
           <<<<15, <<0>>>>>>, <<<<15, <<0, 1, 104, 0>>>>>>, <<<<15, <<0, 1, 0, 0>>>>>>, <<<<15, <<0, 1, 255>>>>>>,
           <<<<18, <<1, 97>>>>>>, <<<<18, <<192, 0>>>>>>, <<<<22, <<255>>>>>>}
LatSet == {<<128, 0, 0, 0>>, <<147, 79, 217, 0>>, <<147, 79, 217, 1>>, <<108, 176, 39, 0>>, <<108, 176, 38, 255>>,
           <<0, 0, 0, 0>>, <<255, 255, 255, 255>>, <<127, 199, 49, 4>>, <<127, 255, 255, 255>>, <<128, 0, 0, 1>>}
LongSet == {<<128, 0, 0, 0>>, <<166, 159, 178, 0>>, <<166, 159, 178, 1>>, <<89, 96, 78, 0>>, <<89, 96, 77, 255>>,
            <<0, 0, 0, 0>>, <<255, 255, 255, 255>>, <<127, 199, 49, 4>>}
AltSet == {<<0, 0, 0, 0>>, <<0, 152, 150, 128>>, <<0, 152, 150, 127>>, <<255, 255, 255, 255>>, <<128, 0, 0, 0>>}
SizeSet == {0, 9, 144, 153, 154, 160, 255, 22, 1, 16}
DecimalSet == {<<48>>, <<45, 56, 46, 50, 53>>, <<56, 57, 46, 57, 57, 57>>, <<57, 48>>, <<57, 49>>, <<45, 49, 56, 48, 46, 48>>,
               <<49, 56, 49>>, <<>>, <<97>>, <<49, 101, 51>>, <<46>>, <<43, 49>>, <<49, 46>>, <<46, 53>>, <<45>>}

\* <<base value, set of other values>> of field i of type ty
Special(ty, i) ==
    CASE ty \in {"DS", "CDS", "DLV"} /\ i = 3 -> <<2, {0, 1, 3, 4, 5, 255}>>
      [] ty \in {"DS", "CDS", "DLV"} /\ i = 4 -> <<Rep(171, 32), {Rep(171, 20), Rep(171, 48), <<0>>, Rep(171, 31), Rep(171, 33), <<>>}>>
      [] ty = "ZONEMD" /\ i = 2 -> <<1, {0, 2, 255}>>
      [] ty = "ZONEMD" /\ i = 3 -> <<1, {0, 2, 3, 255}>>
      [] ty = "ZONEMD" /\ i = 4 -> <<Rep(5, 48), {Rep(5, 64), Rep(5, 12), Rep(5, 11), Rep(5, 47), <<>>}>>
      [] ty = "LOC" /\ i = 1 -> <<0, {1, 255}>>
      [] ty = "LOC" /\ i \in 2..4 -> <<19, SizeSet>>
      [] ty = "LOC" /\ i = 5 -> <<<<128, 56, 206, 252>>, LatSet>>
      [] ty = "LOC" /\ i = 6 -> <<<<128, 56, 206, 252>>, LongSet>>
      [] ty = "LOC" /\ i = 7 -> <<<<0, 152, 154, 104>>, AltSet>>
      [] ty = "GPOS" -> <<<<49, 50, 46, 53>>, DecimalSet>>
      [] ty = "CAA" /\ i = 2 -> <<<<105, 115, 115, 117, 101>>, {<<>>, <<45>>, <<65, 48, 122>>, Rep(97, 255), <<195, 169>>, <<105, 32>>}>>
      [] ty = "URI" /\ i = 3 -> <<<<104, 116, 116, 112, 58>>, RestSet \cup {<<>>}>>
      [] ty = "NSEC3" /\ i = 5 -> <<Asc(20), Lp1Set \cup {<<>>}>>
      [] ty = "IPSECKEY" /\ i = 2 -> <<1, {0, 2, 3, 4, 255}>>
      [] ty = "AMTRELAY" /\ i = 2 -> <<1, {0, 2, 3, 4, 127, 128, 129, 130, 131, 255}>>
      [] ty = "TSIG" /\ i = 6 -> <<16, U16Set \cup {4095, 4096}>>
      [] ty \in {"SVCB", "HTTPS"} /\ i = 1 -> <<1, {0, 65535}>>
      [] ty \in {"SVCB", "HTTPS"} /\ i = 3 -> <<<<PAlpn, PPort>>, SvcSet \cup {<<>>}>>
      [] ty = "OPT" -> <<<<OCookie>>, OptSet \cup {<<>>}>>
      [] OTHER -> <<>>

Generic(ty, f) ==
    LET rel == TypeInfo[ty].relative IN
    CASE f.k = "u8"     -> <<1, U8Set>>
      [] f.k = "u16"    -> <<258, U16Set>>
      [] f.k = "fixed"  -> <<Asc(f.n), FixedSet(f.n) \cup (IF f.tk = "ttl32" THEN {<<127, 255, 255, 255>>} ELSE {})>>
      [] f.k = "name"   -> <<NBase, NameSet(rel)>>
      [] f.k = "lp1"    -> <<<<97, 98>>, Lp1Set \cup {<<>>}>>
      [] f.k = "lp2"    -> <<<<1, 2, 3>>, Lp2Set \cup {<<>>}>>
      [] f.k = "lp1s"   -> <<<<<<97, 98>>>>, Lp1sSet \cup {<<<<>>>>, <<>>}>>
      [] f.k = "lp1opt" -> <<<<49>>, {<<>>, Rep(120, 255)}>>
      [] f.k = "rest"   -> <<<<1, 2, 3>>, RestSet \cup {<<>>}>>
      [] f.k = "bitmap" -> <<BitmapOf({2, 257}), BitmapSet \cup {<<>>, <<<<0, <<>>>>>>}>>
      [] f.k = "gateway" -> <<<<"ipv4", <<192, 0, 2, 1>>>>, GatewaySet(rel)>>
      [] f.k = "names"  -> <<<<NAb>>, NamesSet(rel) \cup {<<>>}>>
      [] f.k = "hip"    -> <<<<Asc(16), 2, <<1, 2, 3>>>>, HipSet \cup {<<<<>>, 0, <<>>>>}>>
      [] f.k = "apl"    -> <<<<<<1, 24, 0, <<192, 0, 2>>>>>>, AplSet \cup {<<>>, <<<<1, 0, 0, <<>>>>>>}>>
      [] f.k = "tlvs"   -> <<<<<<1, <<1>>>>>>, {<<>>}>>

Dom(ty, i) == IF Special(ty, i) # <<>> THEN Special(ty, i) ELSE Generic(ty, Schema[ty][i])
BaseVec(ty) == [i \in 1..Len(Schema[ty]) |-> Dom(ty, i)[1]]
Vals(ty, i) == Dom(ty, i)[2]

Vectors(ty) ==
    LET n == Len(Schema[ty])  base == BaseVec(ty) IN
    {base}
    \cup UNION {{[base EXCEPT ![i] = x] : x \in Vals(ty, i)} : i \in 1..n}
    \cup (IF Depth < 2 THEN {}
          ELSE UNION {UNION {{[base EXCEPT ![p[1]] = x, ![p[2]] = y] : y \in Vals(ty, p[2])} : x \in Vals(ty, p[1])}
                      : p \in {q \in (1..n) \X (1..n) : q[1] < q[2]}})
=============================================================================
