-------------------------- MODULE TtlRangeUniverse --------------------------
(* Declared universes of X02 (shared by MC_TtlRange and Gen_TtlRange).
   A TTL text is a concatenation of up to three "pairs" (number or nothing) + (one
   character or nothing); a range text a concatenation of up to RLen tokens. *)
EXTENDS Integers, Sequences, FiniteSets

CONSTANTS N2, C2,     \* numbers / characters of the two-pair TTL texts
          N3, C3,     \* ... of the three-pair TTL texts
          RTok, RLen, \* tokens and maximal token count of range texts
          RMidTok,    \* tokens of the range texts of up to six tokens
          RLongTok,   \* tokens of the range texts of up to seven tokens
          SBits       \* serial widths enumerated completely

Dg(t) == [i \in DOMAIN t |-> 48 + t[i]]
SmallNums == {Dg(<<0>>), Dg(<<1>>), Dg(<<5, 9>>), Dg(<<6, 0>>)}
OddNums == {Dg(<<0, 0, 7>>), Dg(<<0, 0>>), Dg(<<1, 0>>)}
(* 2^32-1 and neighbours; the largest multiples of each unit below 2^32 and the next;
   2^32-1 - 7101w = 282495; 2^31 neighbours; a 20-digit number *)
EdgeNums == {Dg(<<4, 2, 9, 4, 9, 6, 7, 2, 9, 5>>), Dg(<<4, 2, 9, 4, 9, 6, 7, 2, 9, 6>>), Dg(<<4, 2, 9, 4, 9, 6, 7, 2, 9, 4>>),
             Dg(<<7, 1, 0, 1>>), Dg(<<7, 1, 0, 2>>), Dg(<<4, 9, 7, 1, 0>>), Dg(<<4, 9, 7, 1, 1>>),
             Dg(<<1, 1, 9, 3, 0, 4, 6>>), Dg(<<1, 1, 9, 3, 0, 4, 7>>),
             Dg(<<7, 1, 5, 8, 2, 7, 8, 8>>), Dg(<<7, 1, 5, 8, 2, 7, 8, 9>>),
             Dg(<<2, 8, 2, 4, 9, 5>>), Dg(<<2, 8, 2, 4, 9, 6>>),
             Dg(<<2, 1, 4, 7, 4, 8, 3, 6, 4, 7>>), Dg(<<2, 1, 4, 7, 4, 8, 3, 6, 4, 8>>),
             Dg(<<9, 9, 9, 9, 9, 9, 9, 9, 9, 9, 9, 9, 9, 9, 9, 9, 9, 9, 9, 9>>)}
AllNums == SmallNums \cup OddNums \cup EdgeNums
LowerUnits == {119, 100, 104, 109, 115}                  \* w d h m s
UpperUnits == {87, 68, 72, 77, 83}
OtherChars == {121, 45, 32, 46, 43, 178}                 \* y - space . + superscript-two
ForeignDigits == {1633}                                  \* ARABIC-INDIC DIGIT ONE (a Unicode decimal)
AllChars == LowerUnits \cup UpperUnits \cup OtherChars \cup ForeignDigits

Opt(S) == S \cup {<<>>}
Pairs(N, C) == {n \o c : n \in Opt(N), c \in Opt({<<x>> : x \in C})}
Ttl1 == Pairs(AllNums, AllChars)
Ttl2 == {p \o q : p \in Pairs(N2, C2), q \in Pairs(N2, C2)}
Ttl3 == {p \o q \o r : p \in Pairs(N3, C3), q \in Pairs(N3, C3), r \in Pairs(N3, C3)}
(* sums around 2^32: 7100w/7101w + 0..4 d + a number of seconds *)
TtlEdge == {Dg(a) \o <<119>> \o Dg(<<b>>) \o <<100>> \o c \o <<115>> :
              a \in {<<7, 1, 0, 0>>, <<7, 1, 0, 1>>}, b \in 0..4,
              c \in {Dg(<<2, 8, 2, 4, 9, 5>>), Dg(<<2, 8, 2, 4, 9, 6>>), Dg(<<2, 3, 2, 9, 5>>), Dg(<<2, 3, 2, 9, 6>>),
                     Dg(<<8, 8, 7, 2, 9, 5>>), Dg(<<8, 8, 7, 2, 9, 6>>)}}
(* the TTL universe is the union of these four parts, the range universe of InRangeShort,
   InRangeMid and InRangeLong; they are enumerated part by part (a \cup of two large sets is slow in TLC) *)

RECURSIVE Exact(_, _)
Exact(S, k) == IF k = 0 THEN {<<>>} ELSE {p \o s : p \in Exact(S, k - 1), s \in S}      \* exactly k tokens
(* long texts over few tokens: several dashes / slashes ("1-2/1/2") need seven tokens *)
InRangeShort(x) == \E k \in 0..RLen : x \in Exact(RTok, k)
InRangeMid(x) == \E k \in 0..6 : x \in Exact(RMidTok, k)
InRangeLong(x) == \E k \in 0..7 : x \in Exact(RLongTok, k)
RNumsAll == {Dg(<<0>>), Dg(<<1>>), Dg(<<2>>), Dg(<<5>>), Dg(<<1, 0>>), Dg(<<0, 0, 7>>),
             Dg(<<2, 1, 4, 7, 4, 8, 3, 6, 4, 7>>), Dg(<<2, 1, 4, 7, 4, 8, 3, 6, 4, 8>>),
             Dg(<<9, 9, 9, 9, 9, 9, 9, 9, 9, 9, 9, 9>>)}
RSeps == {<<45>>, <<47>>}
ROthers == {<<120>>, <<32>>, <<43>>, <<1633>>}

(* serial numbers: complete spaces for SBits; for 32 bits a set of limb pairs closed
   under + 2^31, all pairs of it, and additions of boundary amounts *)
RECURSIVE P2(_)
P2(n) == IF n = 0 THEN 1 ELSE 2 * P2(n - 1)
SRows == UNION {{<<b, a>> : a \in 0..(P2(b) - 1)} : b \in SBits}
S32Base == {<<0, 0>>, <<0, 1>>, <<0, 2>>, <<0, 65535>>, <<1, 0>>, <<32767, 65534>>, <<32767, 65535>>, <<4660, 22136>>}
S32Vals == S32Base \cup {<<v[1] + 32768, v[2]>> : v \in S32Base}
S32Pairs == S32Vals \X S32Vals
S32Amounts == {<<0, 0>>, <<0, 1>>, <<0, 2>>, <<0, 65535>>, <<1, 0>>, <<32767, 65534>>, <<32767, 65535>>,
               <<32768, 0>>, <<32768, 1>>, <<65535, 65535>>}

(* tier instances of the constants (used with <- in the configs) *)
QN2 == SmallNums \cup {Dg(<<0, 0, 7>>), Dg(<<4, 2, 9, 4, 9, 6, 7, 2, 9, 5>>), Dg(<<4, 2, 9, 4, 9, 6, 7, 2, 9, 6>>),
                       Dg(<<7, 1, 0, 1>>), Dg(<<7, 1, 0, 2>>), Dg(<<2, 8, 2, 4, 9, 5>>), Dg(<<2, 8, 2, 4, 9, 6>>)}
QC2 == LowerUnits \cup {87, 83, 121, 45}
QN3 == {Dg(<<0>>), Dg(<<1>>), Dg(<<5, 9>>)}
QC3 == {119, 100, 115, 77, 121}
QRTok == {Dg(<<0>>), Dg(<<1>>), Dg(<<2>>), Dg(<<1, 0>>), Dg(<<2, 1, 4, 7, 4, 8, 3, 6, 4, 8>>)} \cup RSeps \cup {<<120>>}
TN2 == AllNums
TC2 == AllChars
TN3 == SmallNums \cup {Dg(<<0, 0, 7>>), Dg(<<7, 1, 0, 1>>), Dg(<<4, 2, 9, 4, 9, 6, 7, 2, 9, 5>>)}
TC3 == LowerUnits \cup {87, 121, 1633}
TRTok == (RNumsAll \ {Dg(<<5>>)}) \cup RSeps \cup {<<120>>, <<1633>>}
QRMid == {}
TRMid == {Dg(<<0>>), Dg(<<1>>), Dg(<<2>>), Dg(<<1, 0>>)} \cup RSeps \cup {<<120>>}
QRLong == {<<49>>, <<50>>} \cup RSeps
TRLong == {<<48>>, <<49>>, <<50>>} \cup RSeps
AllBits == 2..8

(* texts that are one master-file token, for the entry points that tokenize *)
ViaTtl3 == {p \o q \o r : p \in Pairs(QN3, QC3), q \in Pairs(QN3, QC3), r \in Pairs(QN3, QC3)}
OneToken(S) == {t \in S : t # <<>> /\ \A k \in 1..Len(t) : t[k] # 32}
(* the via universe is the union of OneToken(Ttl1), OneToken(Ttl2), OneToken(ViaTtl3), OneToken(TtlEdge) *)
=============================================================================
