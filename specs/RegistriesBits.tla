------------------------------ MODULE RegistriesBits ------------------------------
(* X09 (part 1 of the Registries specification) - DNS parameter registries (mnemonic <-> number) and the bit-field codecs of the
   message header and of the EDNS TTL field.  Written from RFC 1035 4.1.1 (header), RFC
   2535 6.1 / RFC 4035 3 (AD, CD), RFC 6891 6.1.3 (extended RCODE, VERSION, DO), RFC 9824
   (CO), RFC 3597 5 (TYPEnnn / CLASSnnn), RFC 9460 2.1 (keyNNNNN) and the dnspython
   documentation (doc/message-flags.rst, message-opcode.rst, message-rcode.rst,
   rdata-types.rst, whatsnew.rst).  Nothing here is copied from the code.

   Text is a TLA+ string; a character is a string of length one (TLC evaluates SubSeq,
   Len and \o on strings).  Numbers stay below 2^17: a 32-bit EDNS flags word is two
   16-bit limbs <<hi, lo>>. *)
EXTENDS Integers, Sequences, FiniteSets, TLC

(* ------------------------------------------------------------------ 1. bit fields *)
RECURSIVE Pow2R(_)
Pow2R(n) == IF n = 0 THEN 1 ELSE 2 * Pow2R(n - 1)
P2T == [i \in 0..17 |-> Pow2R(i)]
Pow2(n) == P2T[n]

Bit(x, i) == (x \div Pow2(i)) % 2
Field(x, lo, w) == (x \div Pow2(lo)) % Pow2(w)
FieldMask(lo, w) == (Pow2(w) - 1) * Pow2(lo)
WithField(x, lo, w, v) == x - Field(x, lo, w) * Pow2(lo) + (v % Pow2(w)) * Pow2(lo)
BitsOf(x, W) == {i \in 0..(W - 1) : Bit(x, i) = 1}
RECURSIVE MaskOf(_)
MaskOf(S) == IF S = {} THEN 0 ELSE LET i == CHOOSE i \in S : TRUE IN Pow2(i) + MaskOf(S \ {i})
RECURSIVE And(_, _, _), Or(_, _, _), AndNot(_, _, _)
And(x, y, W) == IF W = 0 THEN 0 ELSE (x % 2) * (y % 2) + 2 * And(x \div 2, y \div 2, W - 1)
Or(x, y, W) == IF W = 0 THEN 0 ELSE (IF (x % 2) + (y % 2) > 0 THEN 1 ELSE 0) + 2 * Or(x \div 2, y \div 2, W - 1)
AndNot(x, y, W) == IF W = 0 THEN 0 ELSE (x % 2) * (1 - (y % 2)) + 2 * AndNot(x \div 2, y \div 2, W - 1)
ToSet(seq) == {seq[i] : i \in 1..Len(seq)}

(* ------------------------------------------------------------------ 2. layouts
   RFC 1035 4.1.1, second header word, left to right (bit 0 is the most significant):
     |QR|   Opcode  |AA|TC|RD|RA|   Z    |   RCODE   |
   RFC 2535 6.1 takes AD and CD out of Z: |RA| Z|AD|CD|.
   RFC 6891 6.1.3, the OPT TTL: EXTENDED-RCODE(8) VERSION(8) | DO Z(15); RFC 9824 names the
   bit after DO "CO".  A layout is the left-to-right sequence of <<name, width>>. *)
Header == << <<"QR", 1>>, <<"OPCODE", 4>>, <<"AA", 1>>, <<"TC", 1>>, <<"RD", 1>>, <<"RA", 1>>,
             <<"Z", 1>>, <<"AD", 1>>, <<"CD", 1>>, <<"RCODE", 4>> >>
EdnsHi == << <<"EXTRCODE", 8>>, <<"VERSION", 8>> >>
EdnsLo == << <<"DO", 1>>, <<"CO", 1>>, <<"Z", 14>> >>

RECURSIVE WidthFrom(_, _)
WidthFrom(lay, k) == IF k > Len(lay) THEN 0 ELSE lay[k][2] + WidthFrom(lay, k + 1)
Width(lay) == WidthFrom(lay, 1)
Idx(lay, name) == CHOOSE k \in 1..Len(lay) : lay[k][1] = name
Layouts == {Header, EdnsHi, EdnsLo}
FieldNames(lay) == {lay[k][1] : k \in 1..Len(lay)}
(* bits to the right of the field / its width, tabulated once per layout *)
LoT == [lay \in Layouts |-> [n \in FieldNames(lay) |-> WidthFrom(lay, Idx(lay, n) + 1)]]
WdT == [lay \in Layouts |-> [n \in FieldNames(lay) |-> lay[Idx(lay, n)][2]]]
Lo(lay, name) == LoT[lay][name]
Wd(lay, name) == WdT[lay][name]
Get(lay, name, x) == Field(x, Lo(lay, name), Wd(lay, name))
Put(lay, name, x, v) == WithField(x, Lo(lay, name), Wd(lay, name), v)
MaskF(lay, name) == FieldMask(Lo(lay, name), Wd(lay, name))

(* the named one-bit flags, in layout order; Z has no mnemonic *)
NamedIn(lay, unnamed) == SelectSeq([k \in 1..Len(lay) |-> lay[k][1]], LAMBDA n : Wd(lay, n) = 1 /\ n \notin unnamed)
FlagNames == NamedIn(Header, {"Z"})                      \* <<"QR","AA","TC","RD","RA","AD","CD">>
EFlagNames == NamedIn(EdnsLo, {})                        \* <<"DO","CO">>
(* "Flags Mask (excludes opcode and rcode)" / "EDNS Flags Mask (excludes extended rcode and version)" *)
FlagsMask == 65535 - MaskF(Header, "OPCODE") - MaskF(Header, "RCODE")
EFlagsMask == 65535

(* ------------------------------------------------------------------ 3. codecs *)
OpcodeFromFlags(f) == Get(Header, "OPCODE", f)
OpcodeToFlags(op) == Put(Header, "OPCODE", 0, op)
IsUpdate(f) == OpcodeFromFlags(f) = 5                   \* RFC 2136 1.3: opcode UPDATE = 5

(* RFC 6891 6.1.3: EXTENDED-RCODE "forms the upper 8 bits of extended 12-bit RCODE
   (together with the 4 bits defined in [RFC1035])" *)
RcodeFromFlags(f, ehi) == Get(EdnsHi, "EXTRCODE", ehi) * 16 + Get(Header, "RCODE", f)
RcodeToFlags(r) == << Put(Header, "RCODE", 0, r % 16), Put(EdnsHi, "EXTRCODE", 0, r \div 16), 0 >>

(* flag text: known mnemonics of the set bits in layout order, then (whatsnew 2.9.0) "FLAGn,
   where n is the bit position" for set bits without a name, inside the mask *)
RECURSIVE Dec(_)
DigitStr == "0123456789"
Dec(v) == IF v < 10 THEN SubSeq(DigitStr, v + 1, v + 1) ELSE Dec(v \div 10) \o SubSeq(DigitStr, (v % 10) + 1, (v % 10) + 1)
KnownBits(lay, names) == {Lo(lay, names[k]) : k \in 1..Len(names)}
KnownTokens(lay, names, x) == SelectSeq(names, LAMBDA n : Get(lay, n, x) = 1)
RECURSIVE UnknownTokens(_, _, _)
UnknownTokens(kb, x, i) ==
    IF i > 15 THEN <<>>
    ELSE (IF Bit(x, i) = 1 /\ i \notin kb THEN <<"FLAG" \o Dec(i)>> ELSE <<>>) \o UnknownTokens(kb, x, i + 1)
FlagTokens(lay, names, mask, x) ==
    LET m == And(x, mask, 16)
        kb == KnownBits(lay, names)
    IN  KnownTokens(lay, names, m) \o (IF AndNot(m, MaskOf(kb), 16) = 0 THEN <<>> ELSE UnknownTokens(kb, m, 0))
RECURSIVE JoinFrom(_, _)
JoinFrom(toks, k) == IF k > Len(toks) THEN "" ELSE (IF k > 1 THEN " " ELSE "") \o toks[k] \o JoinFrom(toks, k + 1)
Join(toks) == JoinFrom(toks, 1)
=============================================================================
