SPECIFICATION Spec
CONSTANTS
  Names = {"@", "a", "b.a"}
  Types <- MCTypes
  RdIds = {1, 2}
  TTLs <- MCTTLs
  ZClasses = {"IN", "CH"}
  GroupSeqs <- MCGroupSeqs
  MaxCalls = 3
INVARIANT TypeOK
INVARIANT ZoneOK
INVARIANT ServerAccepts
INVARIANT Laws
PROPERTY ZoneFixed
PROPERTY AdditionalUntouched
PROPERTY Isolation
PROPERTY AppendOnly
CHECK_DEADLOCK FALSE
