---------------------------- MODULE Trace_Dnssec ----------------------------
(* Trace validation for C15.  One event = one evaluation on the real dnspython code;
   every logged output is RECOMPUTED here with the operators of Dnssec.tla (written from
   the RFCs).  Hard clauses are exactly the byte equalities / chain facts the property
   states; refusals where the RFCs leave the outcome open are free. *)
EXTENDS Dnssec, VTrace

VARIABLES t, l
tvars == <<t, l>>

TraceInit == RegInit /\ t \in 1..NTraces /\ l = 1
e == Ev(t)[l]
Adv == l' = l + 1 /\ t' = t
C(id, cond) == Check(t, l, id, cond)
Fold(bs) == [i \in 1..Len(bs) |-> Lower(bs[i])]
IsOk(r) == r[1] = "ok"

(* bytes: first the outcome, then the structure (equal up to ASCII case), then the case
   itself - so that the failing clause says WHAT differs *)
Bytes(idOk, idFold, idExact, out, want) ==
    /\ C(idOk, IsOk(out))
    /\ C(idFold, Fold(out[2]) = Fold(want))
    /\ C(idExact, out[2] = want)

TCanon ==
    /\ e.op = "canon"
    /\ Bytes("CanonOk", "CanonStructure", "CanonCase", e.out, Canon(e.t, e.segs))
    /\ Adv

TNCanon ==
    /\ e.op = "ncanon"
    /\ Bytes("NameCanonOk", "NameCanonStructure", "NameCanonCase", e.out, CanonName(e.n))
    /\ Bytes("NameCanonOk", "NameCanonStructure", "NameCanonCase", e.out2, CanonName(e.n))
    /\ Adv

TSig ==
    /\ e.op = "sig"
    /\ LET v    == SigVerdict(e.owner, e.sg.labels)
           want == SigInput(e.sg, e.owner, e.t, e.c, e.rrs)
       IN  CASE v = "reject" -> C("SigRejectsShortOwner", ~IsOk(e.out))
             [] v = "accept" -> Bytes("SigOk", "SigStructure", "SigCase", e.out, want)
             [] v = "free"   -> IsOk(e.out) => Bytes("SigOk", "SigStructure", "SigCase", e.out, want)
    (* sorted(rdatas): Rdata comparison is documented as the DNSSEC (RFC 4034 6.3) order *)
    /\ C("RdataOrder", IsOk(e.srt) /\ \A i \in 1..Len(e.srt[2]) - 1 : ~OctLess(e.srt[2][i + 1], e.srt[2][i]))
    /\ Adv

TKeyTag ==
    /\ e.op = "keytag"
    /\ C("KeyTag", e.out = <<"ok", KeyTag(e.rd)>> /\ e.out2 = <<"ok", KeyTag(e.rd)>>)
    /\ Adv

(* e.owner is the absolute owner; e.form says how it was handed over (absolute Name, absolute text, relative
   text + origin, relative Name + origin).  The digest input is the same in every form.  A relative Name object
   together with origin= is refused by the library (the documentation promises the origin only for text): free,
   but an answer, if given, must be the right one.  SHA-1 creation refused by the default policy (RFC 8624): free. *)
TDs ==
    /\ e.op = "ds"
    /\ LET want    == DsRdata(e.key, e.dt, e.dig)
           Must(r, w) == IF e.form = "relname" THEN IsOk(r) => r[2] = w ELSE r = <<"ok", w>>
           May(r, w)  == IF e.dt = 1 \/ e.form = "relname" THEN IsOk(r) => r[2] = w ELSE r = <<"ok", w>>
       IN  /\ C("DsPreimage", e.pre = DsPreimage(e.owner, e.key))
           /\ C("DsRdata", Must(e.ds, want) /\ Must(e.dsc, want))
           /\ C("CdsRdata", May(e.cds, want))
           /\ C("DsRdataset", May(e.dsset, <<want>>))
           /\ C("CdsRdataset", May(e.cdsset, <<want>>))
    /\ Adv

TNsec3 ==
    /\ e.op = "nsec3"
    /\ C("Nsec3Preimage", e.pres[1] = Nsec3Pre0(e.n, e.salt))
    /\ C("Nsec3Iterations", /\ Len(e.pres) = e.iter + 1 /\ Len(e.digs) = e.iter + 1
                            /\ \A i \in 2..Len(e.pres) : e.pres[i] = e.digs[i - 1] \o e.salt)
    /\ C("Nsec3Hash", IsOk(e.out) /\ Fold(e.out[2]) = Base32Hex(e.digs[e.iter + 1]))
    /\ Adv

TBitmap ==
    /\ e.op = "bitmap"
    /\ C("BitmapWire", e.out = <<"ok", BitmapWire(ToSetOf(e.types))>>)
    /\ Adv

TNsec ==
    /\ e.op = "nsec"
    /\ LET z      == e.z
           got    == {<<LowerName(x[1]), LowerName(x[2]), x[3]>> : x \in ToSetOf(e.chain)}
           want   == NsecChain(z)
           signed == {<<LowerName(s[1]), s[2]>> : s \in ToSetOf(e.signed)}
       IN  /\ C("SignZoneOk", IsOk(e.res))
           /\ C("NsecOwners", {x[1] : x \in got} = AuthNames(z) /\ Len(e.chain) = Cardinality(AuthNames(z)))
           /\ C("NsecNext", {<<x[1], x[2]>> : x \in got} = {<<x[1], x[2]>> : x \in want})
           /\ C("NsecBitmap", got = want)
           /\ C("SignedSet", signed = SignedRRsets(z) /\ Len(e.signed) = Cardinality(SignedRRsets(z)))
    /\ Adv

TZonemd ==
    /\ e.op = "zonemd"
    /\ C("ZonemdPreimage", e.pre = ZonemdPreimage(e.z))
    /\ C("ZonemdDigest", e.out = <<"ok", ZonemdRdata(e.z, e.alg, e.dig)>>)
    /\ C("ZonemdSelfVerify", e.self = "accept" /\ e.placed = "accept")
    /\ Adv

TZmut ==
    /\ e.op = "zmut"
    /\ C("ZonemdVerify", e.verdict = IF ZonemdPreimage(e.z2) = ZonemdPreimage(Ev(t)[1].z) THEN "accept" ELSE "reject")
    /\ Adv

TraceNext == /\ l <= Len(Ev(t))
             /\ \/ TCanon \/ TNCanon \/ TSig \/ TKeyTag \/ TDs \/ TNsec3 \/ TBitmap \/ TNsec \/ TZonemd \/ TZmut
Accepted == Accepting(t, l)
=============================================================================
