------------------------------ MODULE BTZDerived ------------------------------
(* Property C20, part 1: THE DERIVED STATE OF A ZONE AS A FUNCTION OF ITS CONTENT --
   node flags, delegation index, iteration order, bounds() -- over an abstract name
   structure:  Apex, a strict total order Less (the canonical order), the strict ancestry
   Below(n, m) ("n is a proper subdomain of m"), Anc(n, k) = the ancestor-or-self of n
   with k labels, and Depth(n) = the number of labels of n.

   BTreeZone instantiates it with names = label sequences and the RFC 4034 order;
   Trace_BTreeZone instantiates it a second time with names = indices into a table that
   TLC computes from the label sequences (interpreting sequence comparisons for every
   recorded bounds() answer is too slow).

   Content c is a function whose domain is a set of <<owner, type>> pairs.
   Written from the documentation of dns.btreezone (NodeFlags, Delegations, Bounds,
   ImmutableVersion.bounds), RFC 1034 4.2.1 / RFC 4035 2.2 (zone cuts, occluded names)
   and the statement of the property; not from the code. *)
EXTENDS Integers, Sequences, FiniteSets, TLC

CONSTANTS Apex, Less(_, _), Below(_, _), Anc(_, _), Depth(_)

Min2(a, b) == IF a < b THEN a ELSE b
MaxOf(S) == CHOOSE x \in S : \A y \in S : y <= x
(* Tup and Eager are identities.  TLC represents [x \in S |-> e] lazily and re-evaluates e
   at every application and comparison; these wrappers make it build the value once. *)
Tup(s) == SubSeq(s, 1, Len(s))        \* on sequences
Eager(f) == f @@ <<>>                 \* on functions

Leq(m, n) == m = n \/ Less(m, n)
AtOrBelow(n, m) == n = m \/ Below(n, m)
(* number of labels of the longest common ancestor *)
Common(a, b) == MaxOf({k \in 0..Min2(Depth(a), Depth(b)) : Anc(a, k) = Anc(b, k)})

Nodes(c) == {key[1] : key \in DOMAIN c}                    \* owners of at least one rdataset


(* owners of an NS rdataset other than the apex *)
NSOwners(c) == {n \in Nodes(c) : n # Apex /\ <<n, "NS">> \in DOMAIN c}
(* zone cuts = delegation points: NS owners that are not beneath another NS owner *)
Cuts(c) == LET O == NSOwners(c) IN {n \in O : ~\E m \in O : Below(n, m)}
Delegations(c) == Cuts(c)
(* glue / occluded names: strictly beneath a delegation point *)
GlueIn(K, n) == \E m \in K : Below(n, m)
Visible(c) == LET K == Cuts(c) IN {n \in Nodes(c) : ~GlueIn(K, n)}     \* the non-occluded names

ORIGIN == 1
DELEGATION == 2
GLUE == 4
FlagsIn(K, n) == (IF n = Apex THEN ORIGIN ELSE 0) + (IF n \in K THEN DELEGATION ELSE 0)
                 + (IF GlueIn(K, n) THEN GLUE ELSE 0)
FlagsOf(c, n) == FlagsIn(Cuts(c), n)

(* iteration order: the names of S in canonical order *)
Rank(S, n) == Cardinality({m \in S : Less(m, n)})
OrderOf(S) == LET r == Eager([n \in S |-> Rank(S, n)])
              IN Tup([i \in 1..Cardinality(S) |-> CHOOSE n \in S : r[n] = i - 1])

(* bounds(q) over V = the non-occluded names, K = the cuts;  q in canonical form *)
CutAbove(K, q) == {m \in K : AtOrBelow(q, m)}                \* the delegation at or above q
LeftIn(V, q) == CHOOSE n \in V : Leq(n, q) /\ \A v \in V : Leq(v, q) => Leq(v, n)
RightIn(V, q) == {n \in V : Less(q, n) /\ \A v \in V : Less(q, v) => Leq(n, v)}
(* a name exists if it owns visible data or is an empty non-terminal above visible data;
   the apex always exists *)
ExistsIn(V, a) == a = Apex \/ \E v \in V : AtOrBelow(v, a)
EncloserIn(V, q) == Anc(q, MaxOf({k \in 0..Depth(q) : ExistsIn(V, Anc(q, k))}))

BoundsIn(V, K, q) == [left |-> LeftIn(V, q),        \* greatest non-occluded name <= q
                      right |-> RightIn(V, q),      \* {least non-occluded name > q}, {} if none
                      encloser |-> EncloserIn(V, q),
                      is_equal |-> q \in V,
                      is_delegation |-> CutAbove(K, q) # {}]

(* An evaluator for the same record that needs one sort per content instead of a
   quadratic search per query: S = OrderOf(V); the left bound is at the position that
   counts the names <= q, and the encloser is the longest ancestor shared with a
   neighbour.  BoundsLaws states (and TLC checks) that it equals BoundsIn.  Trace
   validation uses it. *)
BoundsFast(S, K, q) ==
    LET p == Cardinality({i \in DOMAIN S : Leq(S[i], q)})
        r == IF p < Len(S) THEN {S[p + 1]} ELSE {}
    IN [left |-> S[p], right |-> r,
        encloser |-> Anc(q, MaxOf({Common(q, S[p])} \cup {Common(q, x) : x \in r})),
        is_equal |-> S[p] = q,
        is_delegation |-> CutAbove(K, q) # {}]

-----------------------------------------------------------------------------
(* Laws of the definitions (checked by TLC for every content shape over a universe) *)
DerivedLaws(c) ==
    LET K == Cuts(c)
        V == Visible(c)
    IN /\ Apex \in V
       (* the cuts are an antichain, and exactly the NS owners not beneath a cut *)
       /\ \A m, n \in K : m # n => ~AtOrBelow(m, n)
       /\ K = {n \in NSOwners(c) : ~GlueIn(K, n)}
       (* ORIGIN, DELEGATION and GLUE exclude one another *)
       /\ \A n \in Nodes(c) : FlagsIn(K, n) \in {0, ORIGIN, DELEGATION, GLUE}
       /\ \A n \in Nodes(c) : (n \in V) <=> (FlagsIn(K, n) # GLUE)
       (* iteration order is a permutation in strictly increasing order *)
       /\ LET s == OrderOf(Nodes(c))
          IN /\ {s[i] : i \in DOMAIN s} = Nodes(c)
             /\ \A i \in 1..(Len(s) - 1) : Less(s[i], s[i + 1])

BoundsLaws(c, Q) ==
    LET K == Cuts(c)
        V == Visible(c)
    IN \A q \in Q :
        LET b == BoundsIn(V, K, q)
        IN /\ b.left \in V /\ Leq(b.left, q)
           /\ b.right \subseteq V /\ Cardinality(b.right) <= 1
           /\ \A r \in b.right : Less(q, r)
           /\ (b.right = {}) => \A v \in V : Leq(v, q)
           (* adjacent: no non-occluded name strictly between left and right *)
           /\ ~\E v \in V : Less(b.left, v) /\ \A r \in b.right : Less(v, r)
           (* the encloser is the longest existing ancestor-or-self *)
           /\ AtOrBelow(q, b.encloser) /\ ExistsIn(V, b.encloser)
           /\ \A k \in (Depth(b.encloser) + 1)..Depth(q) : ~ExistsIn(V, Anc(q, k))
           /\ (b.is_equal <=> b.left = q)
           /\ (b.is_equal => b.encloser = q)
           (* at or below a delegation: left bound and encloser are the delegation itself *)
           /\ b.is_delegation => /\ b.left \in K /\ AtOrBelow(q, b.left)
                                 /\ b.encloser = b.left
           /\ (b.is_delegation <=> (b.left \in K /\ AtOrBelow(q, b.left)))
           (* neighbour lemma: the encloser is the longest ancestor shared with a neighbour *)
           /\ Depth(b.encloser) = MaxOf({Common(q, b.left)} \cup {Common(q, r) : r \in b.right})
           /\ BoundsFast(OrderOf(V), K, q) = b

=============================================================================
