---------------------------- MODULE MC_SetAlgebra ----------------------------
(* Bounded instances of SetAlgebra for exhaustive model checking: the world (item
   universe + initial states) is chosen by the config; histories are cut at MaxDepth. *)
EXTENDS SetAlgebra, SetAlgebraU
CONSTANT MaxDepth
MCNext == TLCGet("level") < MaxDepth /\ Next
HsView == <<hs, reg>>
=============================================================================
