SPECIFICATION Spec
CONSTANTS
  Cases <- MCThorough
  MaxBlocks = 3
INVARIANT TypeOK
INVARIANT SendExact
INVARIANT ReassembledExact
INVARIANT NeverShort
INVARIANT EofIsError
INVARIANT DeadlineRespected
INVARIANT NeverOverRead
CHECK_DEADLOCK FALSE
