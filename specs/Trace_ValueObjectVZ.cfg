INIT TraceInit
NEXT TraceNext
CONSTANTS
  Kinds = {"txn", "version", "nodes", "delegations", "node", "rdatasets", "rdataset", "rdsitems", "zone"}
  States = {}
CONSTRAINT Accepted
POSTCONDITION Post
CHECK_DEADLOCK FALSE
