---------------------------- MODULE Gen_RdataCodec ----------------------------
(* Emits the C02 universe for the driver: one line per (type, value vector).
   Well-formed vectors are emitted as values (the driver builds the real object from them);
   ill-formed vectors are emitted as the octets they encode to (malformed RDATA offered
   to the decoder).  Only inputs are emitted, never expected results. *)
EXTENDS RdataUniverse, Json

CONSTANT Types
VARIABLES ty, v
\* the universe is enumerated by Next (not Init): TLC's "Computed n initial states" progress
\* lines would otherwise interleave with the emitted lines
Init == ty = "" /\ v = <<>>
Next == ty = "" /\ ty' \in Types /\ v' \in Vectors(ty')

\* near: the vector differs from the base vector in at most one field (these get the fault set in the quick tier)
Near == Cardinality({i \in 1..Len(v) : v[i] # BaseVec(ty)[i]}) <= 1
Item == IF WellFormed(ty, v)
        THEN [ty |-> ty, k |-> "vec", v |-> v, rel |-> HasRelative(ty, v), near |-> Near, base |-> (v = BaseVec(ty))]
        ELSE [ty |-> ty, k |-> "oct", b |-> Encode(ty, v, Origin), rel |-> FALSE]
Emit == ty = "" \/ PrintT("BEH " \o ToJson(Item))
=============================================================================
