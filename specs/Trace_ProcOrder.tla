--------------------------- MODULE Trace_ProcOrder ---------------------------
(* Trace validation for X03b.  One trace = one concrete rdataset (its abstract records and
   kind in the trace header) and one "order" event per seeded call of processing_order();
   an order is accepted iff it is a member of the allowed set of the nondeterministic
   specification.  The closing "end" event judges the whole sample: records that the
   specification cannot tell apart must have been seen in both relative orders
   ("shuffled"), and a much heavier SRV/URI record must precede a lighter one of the same
   priority in the majority of the calls. *)
EXTENDS ProcOrder, VTrace

CONSTANTS MinShuffle,   \* number of calls from which on "Shuffled" is judged (false-alarm odds 2^(1-n) per pair)
          MinWeighted   \* number of calls from which on "HeavierFirst" is judged
VARIABLES t, l, outs
tvars == <<vars, outs, t, l>>

Rec(r) == [p |-> <<r[1], r[2]>>, w |-> r[3]]
TraceInit ==
    /\ RegInit
    /\ t \in 1..NTraces /\ l = 1
    /\ kind = Log[t].kind
    /\ recs = [i \in 1..Len(Log[t].recs) |-> Rec(Log[t].recs[i])]
    /\ rem = Ids(recs) /\ out = <<>> /\ phase = "run" /\ outs = <<>>

e == Ev(t)[l]
Adv == l' = l + 1 /\ t' = t

TOrder == /\ e.op = "order"
          /\ Check(t, l, "Permutation", IsPermutation(recs, e.out))
          /\ Check(t, l, "PriorityOrder", IsAllowed(kind, recs, e.out))
          /\ Check(t, l, "Unchanged", e.same)
          /\ out' = e.out /\ outs' = Append(outs, e.out)
          /\ UNCHANGED <<kind, recs, rem, phase>> /\ Adv

Pos(o, r) == CHOOSE x \in 1..Len(o) : o[x] = r
Before(i, j) == Cardinality({k \in 1..Len(outs) : Pos(outs[k], i) < Pos(outs[k], j)})
SamePrio(i, j) == recs[i].p = recs[j].p
\* pairs the specification treats alike: both relative orders are equally likely
Tied == {x \in Ids(recs) \X Ids(recs) :
            x[1] < x[2] /\ SamePrio(x[1], x[2]) /\ (kind = "weighted" => recs[x[1]].w = recs[x[2]].w)}
\* pairs of one priority where the first is at least 8 times heavier than the second
Heavier == {x \in Ids(recs) \X Ids(recs) :
               /\ x[1] # x[2] /\ SamePrio(x[1], x[2])
               /\ recs[x[1]].w >= 8 /\ recs[x[1]].w >= 8 * recs[x[2]].w}
TEnd == /\ e.op = "end"
        /\ Check(t, l, "Shuffled",
                 Len(outs) >= MinShuffle => \A x \in Tied : Before(x[1], x[2]) \in 1..(Len(outs) - 1))
        /\ Check(t, l, "HeavierFirst",
                 (kind = "weighted" /\ Len(outs) >= MinWeighted) =>
                     \A x \in Heavier : 2 * Before(x[1], x[2]) > Len(outs))
        /\ UNCHANGED <<vars, outs>> /\ Adv

TraceNext == l <= Len(Ev(t)) /\ (TOrder \/ TEnd)
Accepted == Accepting(t, l)
=============================================================================
