SPECIFICATION Spec
CONSTANTS
  Dgrams <- MCAllDgrams
  Configs <- MCConfigsStatic
  MaxDgrams = 0
  MaxBlocks = 0
INVARIANT TypeOK
INVARIANT ReturnOnlyGenuine
INVARIANT ReturnSound
INVARIANT GenuineEnds
INVARIANT SpoofCannotEnd
INVARIANT VerdictTotal
INVARIANT DeadlineRespected
CHECK_DEADLOCK FALSE
