SPECIFICATION Spec
CONSTANTS
  Dgrams <- MCAllDgrams
  Configs <- MCConfigsFull
  MaxDgrams = 1
  MaxBlocks = 2
INVARIANT TypeOK
INVARIANT ReturnOnlyGenuine
INVARIANT GenuineEnds
INVARIANT SpoofCannotEnd
INVARIANT VerdictTotal
INVARIANT DeadlineRespected
PROPERTY SkipKeepsListening
PROPERTY EndIsFinal
CHECK_DEADLOCK FALSE
