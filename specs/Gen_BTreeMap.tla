---------------------------- MODULE Gen_BTreeMap ----------------------------
(* BTreeMap plus a history variable: every behaviour is one script of API calls (the
   environment's choices only: which call, on which handle/cursor, with which key, value
   and API spelling).  The script is printed as one JSON string when it is complete; the
   driver replays it on dns.btree.  Expected results are NOT emitted: the oracle is
   Trace_BTreeMap.

   Two modes.  Sim = FALSE: plain nondeterminism over the calls named in Ops (exhaustive
   enumeration of all scripts of MaxHist calls after a fixed prefix).  Sim = TRUE (used
   with -simulate): two dice thrown with RandomElement pick the kind of call, and a
   phase (grow / shrink / mix) with an order bias (ascending / descending / random)
   restricts the keys of insertions and deletions so that tall trees are built and torn
   down again and every rebalancing path is taken. *)
EXTENDS BTreeMap, Json

CONSTANTS Sim,          \* BOOLEAN
          Ops,          \* call kinds a script may contain (Sim = FALSE)
          OpHandles,    \* handles that calls of the exhaustive mode may address
          OpKeys,       \* keys used as arguments of calls (subset of Keys)
          OpVals,       \* values used by set (subset of Vals)
          InitTs,       \* t of the first tree
          InitLoads,    \* set of key sequences: what is loaded into handle 1 in the prefix
          InitShared,   \* subset of BOOLEAN: TRUE = the prefix also freezes handle 1 and clones it to handle 2
          InitCursors,  \* set of sequences of <<cursor, handle, kind>> opened in the prefix
          MaxHist,      \* calls after the prefix
          SetForms, DelForms, GetForms, IterForms, CloneForms, Kinds,
          Window,       \* Sim: width of the key window of ordered insertion / deletion
          MaxKey        \* Sim: Keys = 1..MaxKey

VARIABLES hist, steps, phase, order, d1, d2, done
gvars == <<vars, hist, steps, phase, order, d1, d2, done>>

Asc(a, b) == [i \in 1..(b - a + 1) |-> a + i - 1]
Desc(b, a) == [i \in 1..(b - a + 1) |-> b - i + 1]
Stride(a, n, s) == [i \in 1..n |-> a + (i - 1) * s]
(* a fixed "random-looking" order of 1..n: multiples of a unit modulo a prime *)
Scatter(n, p, u) == LET all == [i \in 1..(p - 1) |-> (i * u) % p]
                    IN SelectSeq(all, LAMBDA x : x >= 1 /\ x <= n)

(* named prefixes for the configs (cfg files cannot spell sequences) *)
LoadNone == {<<>>}
LoadSmall == {<<>>, <<2, 4>>, Asc(1, 6)}                       \* leaf root, leaf root, height 2 (t = 3)
LoadH2 == {Asc(1, 6), Desc(6, 1), <<2, 4, 6, 1, 3, 5>>}         \* height 2 with t = 3, three shapes
LoadNine == {Asc(1, 9), Desc(9, 1)}                             \* root of 2 keys over 3 leaves (t = 3)
LoadEven == {Stride(2, 6, 2)}                                   \* 2,4,..,12: odd keys are the gaps
LoadH2one == {Asc(1, 6)}
LoadRootMerge == {Asc(1, 6), Asc(2, 7), Desc(7, 2)}                 \* one delete away from a root over two minimal leaves (t = 3)
LoadRootMerge4 == {Asc(1, 8), Desc(9, 2)}                        \* the same with t = 4
LoadTall == {Asc(1, 20), Desc(20, 1), Scatter(26, 53, 20)}      \* height 3 with t = 3 (in_order off)
LoadTall4 == {Asc(1, 34), Desc(34, 1)}                          \* height 3 with t = 4 (in_order off)
LoadSim(n) == {<<>>, Asc(1, n), Desc(n, 1), Scatter(n, 53, 20), Scatter((n * 3) \div 4, 53, 11),
               Stride(1, n \div 2, 2), Desc(n, n \div 2)}
SimKeys == 1..MaxKey
SimLoads == LoadSim(MaxKey)
CursNone == {<<>>}
CursRegManual == {<< <<1, 1, "reg">>, <<2, 1, "manual">> >>}
CursReg1 == {<< <<1, 1, "reg">> >>}
CursRegIter == {<< <<1, 1, "reg">>, <<2, 1, "iter">> >>}
CursOnClone == {<< <<1, 2, "reg">>, <<2, 1, "reg">> >>}

(* Sim: one random element instead of all of them, so that a simulation step builds one successor *)
Pick(S) == IF Sim /\ S # {} THEN {RandomElement(S)} ELSE S

H(e) == hist' = Append(hist, e)
Strict(f) == f \in {"item", "pop"}

Dice == IF Sim THEN /\ d1' = RandomElement(1..100) /\ d2' = RandomElement(1..100)
               ELSE UNCHANGED <<d1, d2>>
Step == steps' = steps + 1 /\ Dice /\ UNCHANGED done
Keep == UNCHANGED <<phase, order>>

---------------------------------------------------------------------------
(* prefix: new tree, optional load, optional freeze+clone, optional cursors *)
PrefixEvents(t, ld, sh, cs) ==
    <<[op |-> "new", h |-> 1, t |-> t]>>
    \o (IF Len(ld) > 0 THEN <<[op |-> "load", h |-> 1, ks |-> ld, v |-> 1]>> ELSE <<>>)
    \o (IF sh THEN <<[op |-> "freeze", h |-> 1], [op |-> "clone", src |-> 1, dst |-> 2, form |-> "copy"]>> ELSE <<>>)
    \o [i \in 1..Len(cs) |-> [op |-> "copen", c |-> cs[i][1], h |-> cs[i][2], kind |-> cs[i][3]]]

GInit ==
    \E t \in InitTs, ld \in InitLoads, sh \in InitShared, cs \in InitCursors :
      LET m == [k \in SeqRange(ld) |-> 1]
          t1 == [live |-> TRUE, map |-> m, frozen |-> sh, t |-> t]
          t2 == [live |-> TRUE, map |-> m, frozen |-> FALSE, t |-> t]
      IN /\ tree = [h \in Handles |-> IF h = 1 THEN t1 ELSE IF sh /\ h = 2 THEN t2 ELSE Dead]
         /\ cur = [c \in Cursors |->
                     IF \E i \in 1..Len(cs) : cs[i][1] = c
                     THEN LET i == CHOOSE i \in 1..Len(cs) : cs[i][1] = c
                          IN [open |-> TRUE, h |-> cs[i][2], kind |-> cs[i][3], pk |-> "L", k |-> 0, parked |-> FALSE]
                     ELSE Closed]
         /\ res = "ok" /\ val = NoVal
         /\ hist = PrefixEvents(t, ld, sh, cs)
         /\ steps = 0 /\ done = FALSE
         /\ phase \in (IF Sim THEN {"grow", "shrink", "mix"} ELSE {"mix"})
         /\ order \in (IF Sim THEN {"asc", "desc", "rand"} ELSE {"rand"})
         /\ d1 = (IF Sim THEN RandomElement(1..100) ELSE 0)
         /\ d2 = (IF Sim THEN RandomElement(1..100) ELSE 0)

---------------------------------------------------------------------------
(* recorded calls *)
ESet(h, k, v, f) == Set(h, k, v) /\ H([op |-> "set", h |-> h, k |-> k, v |-> v, form |-> f])
EDel(h, k, f) == Del(h, k, Strict(f)) /\ H([op |-> "del", h |-> h, k |-> k, form |-> f])
EDelX(h, k, s) == DelExact(h, k, s) /\ H([op |-> "delx", h |-> h, k |-> k, same |-> s])
ELoad(h, ks, v) == Load(h, ks, v) /\ H([op |-> "load", h |-> h, ks |-> ks, v |-> v])
EPopMin(h) == PopMin(h) /\ H([op |-> "popmin", h |-> h])
EClear(h) == Clear(h) /\ H([op |-> "clear", h |-> h])
EFreeze(h) == Freeze(h) /\ H([op |-> "freeze", h |-> h])
EClone(s, d, f) == Clone(s, d) /\ H([op |-> "clone", src |-> s, dst |-> d, form |-> f])
EDrop(h) == Drop(h) /\ H([op |-> "drop", h |-> h])
ENew(h, t) == New(h, t) /\ H([op |-> "new", h |-> h, t |-> t])
EGet(h, k, f) == Get(h, k) /\ H([op |-> "get", h |-> h, k |-> k, form |-> f])
ELen(h) == LenOf(h) /\ H([op |-> "len", h |-> h])
EIter(h, f) == Iter(h) /\ H([op |-> "iter", h |-> h, form |-> f])
EExtreme(h, b) == Extreme(h, b) /\ H([op |-> "extreme", h |-> h, max |-> b])
ECOpen(c, h, kd) == COpen(c, h, kd) /\ H([op |-> "copen", c |-> c, h |-> h, kind |-> kd])
ECClose(c) == CClose(c) /\ H([op |-> "cclose", c |-> c])
ESeek(c, k, b) == Seek(c, k, b) /\ H([op |-> "seek", c |-> c, k |-> k, before |-> b])
ESeekEnd(c, b) == SeekEnd(c, b) /\ H([op |-> IF b THEN "last" ELSE "first", c |-> c])
ENext(c) == CNext(c) /\ H([op |-> "next", c |-> c])
EPrev(c) == CPrev(c) /\ H([op |-> "prev", c |-> c])
EPark(c) == Park(c) /\ H([op |-> "park", c |-> c])

---------------------------------------------------------------------------
(* exhaustive mode *)
GStepEx ==
    \/ "set" \in Ops /\ \E h \in OpHandles, k \in OpKeys, v \in OpVals, f \in SetForms : ESet(h, k, v, f)
    \/ "del" \in Ops /\ \E h \in OpHandles, k \in OpKeys, f \in DelForms : EDel(h, k, f)
    \/ "delx" \in Ops /\ \E h \in OpHandles, k \in OpKeys, s \in BOOLEAN : EDelX(h, k, s)
    \/ "popmin" \in Ops /\ \E h \in OpHandles : EPopMin(h)
    \/ "clear" \in Ops /\ \E h \in OpHandles : EClear(h)
    \/ "freeze" \in Ops /\ \E h \in OpHandles : ~Frozen(h) /\ EFreeze(h)
    \/ "refreeze" \in Ops /\ \E h \in OpHandles : Frozen(h) /\ EFreeze(h)
    \/ "clone" \in Ops /\ \E s \in OpHandles, d \in Handles, f \in CloneForms :
          (\A x \in Handles : (x < d) => Live(x)) /\ EClone(s, d, f)          \* lowest free slot only
    \/ "drop" \in Ops /\ \E h \in OpHandles : Cardinality({x \in Handles : Live(x)}) > 1 /\ EDrop(h)
    \/ "new" \in Ops /\ \E h \in Handles, t \in Ts : (\A x \in Handles : (x < h) => Live(x)) /\ ENew(h, t)
    \/ "get" \in Ops /\ \E h \in OpHandles, k \in OpKeys, f \in GetForms : EGet(h, k, f)
    \/ "len" \in Ops /\ \E h \in OpHandles : ELen(h)
    \/ "iter" \in Ops /\ \E h \in OpHandles, f \in IterForms : EIter(h, f)
    \/ "extreme" \in Ops /\ \E h \in OpHandles, b \in BOOLEAN : EExtreme(h, b)
    \/ "copen" \in Ops /\ \E c \in Cursors, h \in OpHandles, kd \in Kinds : ECOpen(c, h, kd)
    \/ "cclose" \in Ops /\ \E c \in Cursors : ECClose(c)
    \/ "seek" \in Ops /\ \E c \in Cursors, k \in OpKeys, b \in BOOLEAN : ESeek(c, k, b)
    \/ "seekend" \in Ops /\ \E c \in Cursors, b \in BOOLEAN : ESeekEnd(c, b)
    \/ "next" \in Ops /\ \E c \in Cursors : ENext(c)
    \/ "prev" \in Ops /\ \E c \in Cursors : EPrev(c)
    \/ "park" \in Ops /\ \E c \in Cursors : ~cur[c].parked /\ cur[c].kind = "manual" /\ EPark(c)

---------------------------------------------------------------------------
(* simulation mode *)
LiveSet == {h \in Handles : Live(h)}
DeadSet == {h \in Handles : ~Live(h)}
Mutable == {h \in Handles : Live(h) /\ ~Frozen(h)}
Present(h) == DOMAIN M(h)
Absent(h) == Keys \ DOMAIN M(h)
Offending(h) == {c \in Cursors : cur[c].open /\ cur[c].h = h /\ cur[c].kind = "manual" /\ ~cur[c].parked}

GrowC(h) ==
    LET a == Absent(h)
        p == Present(h)
    IN IF a = {} THEN {}
       ELSE IF order = "asc" THEN
              LET mx == IF p = {} THEN 0 ELSE SetMax(p)
                  c == {k \in a : k > mx /\ k <= mx + Window}
              IN IF c = {} THEN a ELSE c
       ELSE IF order = "desc" THEN
              LET mn == IF p = {} THEN MaxKey + 1 ELSE SetMin(p)
                  c == {k \in a : k < mn /\ k >= mn - Window}
              IN IF c = {} THEN a ELSE c
       ELSE a
ShrinkC(h) ==
    LET p == Present(h)
    IN IF order = "asc" THEN {k \in p : Cardinality({x \in p : x < k}) < Window}
       ELSE IF order = "desc" THEN {k \in p : Cardinality({x \in p : x > k}) < Window}
       ELSE p

Flip == /\ phase' \in {"grow", "shrink", "mix"} \ {phase}
        /\ order' \in {"asc", "desc", "rand"}
        /\ Dice
        /\ UNCHANGED <<vars, hist, steps, done>>

Fallback == IF LiveSet = {} THEN \E t \in Pick(InitTs) : ENew(1, t)
            ELSE \E h \in Pick(LiveSet) : ELen(h)

Cand(h) == IF phase = "grow" THEN GrowC(h) ELSE IF phase = "shrink" THEN ShrinkC(h) ELSE Keys
Ready == {h \in Mutable : Offending(h) # {} \/ Cand(h) # {}}
Stuck == Mutable # {} /\ Ready = {}          \* every mutable tree is full (grow) or empty (shrink)

(* one phase-directed insertion or deletion on a mutable tree (parking a manual cursor
   first when the documented protocol requires it) *)
GMutateOn(h) ==
    IF phase = "grow" THEN \E k \in Pick(GrowC(h)), v \in Pick(OpVals), f \in Pick(SetForms) : ESet(h, k, v, f)
    ELSE IF phase = "shrink" THEN \E k \in Pick(ShrinkC(h)), f \in Pick(DelForms) : EDel(h, k, f)
    ELSE IF d2 <= 50 THEN \E k \in Pick(Keys), v \in Pick(OpVals), f \in Pick(SetForms) : ESet(h, k, v, f)
         ELSE \E k \in Pick(Keys), f \in Pick(DelForms) : EDel(h, k, f)

(* no mutable tree is left: clone a frozen one, or make room for a clone *)
Thaw == LET fz == {h \in LiveSet : Frozen(h)}
        IN IF fz = {} THEN Fallback
           ELSE IF DeadSet # {} THEN \E s \in Pick(fz), f \in Pick(CloneForms) : EClone(s, SetMin(DeadSet), f)
           ELSE \E h \in Pick(fz) : EDrop(h)

GMutate ==
    IF Mutable = {} THEN Thaw
    ELSE IF Ready = {} THEN Fallback
    ELSE \E h \in Pick(Ready) :
           IF Offending(h) # {} THEN \E c \in Pick(Offending(h)) : EPark(c)
           ELSE GMutateOn(h)

(* less common mutations *)
Clean == {h \in Mutable : Offending(h) = {}}
GOdd ==
    IF Clean = {} THEN Fallback
    ELSE \E h \in Pick(Clean) :
      IF d2 <= 30 THEN (IF Present(h) = {} THEN Fallback
                        ELSE \E k \in Pick(Present(h)), v \in Pick(OpVals), f \in Pick(SetForms) : ESet(h, k, v, f))      \* replace
      ELSE IF d2 <= 45 THEN (IF Absent(h) = {} THEN Fallback
                             ELSE \E k \in Pick(Absent(h)), f \in Pick(DelForms) : EDel(h, k, f))                    \* delete an absent key
      ELSE IF d2 <= 65 THEN (\E k \in Pick(Keys) : \E s \in Pick(IF k \in Present(h) THEN BOOLEAN ELSE {FALSE}) : EDelX(h, k, s))
      ELSE IF d2 <= 80 THEN EPopMin(h)
      ELSE IF d2 <= 97 THEN (\E a \in Pick(1..(MaxKey - 5)), n \in Pick(2..6), up \in Pick(BOOLEAN), v \in Pick(OpVals) :
                               /\ ELoad(h, IF up THEN Asc(a, a + n - 1) ELSE Desc(a + n - 1, a), v))
      ELSE EClear(h)

(* mutation attempts on a frozen tree *)
GFrozen ==
    LET fz == {h \in LiveSet : Frozen(h)}
    IN IF fz = {} THEN Fallback
       ELSE \E h \in Pick(fz) :
            \/ \E k \in Pick(Keys), v \in Pick(OpVals), f \in Pick(SetForms) : ESet(h, k, v, f)
            \/ \E k \in Pick(Keys), f \in Pick(DelForms) : EDel(h, k, f)
            \/ \E k \in Pick(Present(h)) : EDelX(h, k, TRUE)
            \/ EPopMin(h) \/ EClear(h)

GLife ==
    IF d2 <= 3 THEN (IF LiveSet = {} THEN Fallback ELSE \E h \in Pick(LiveSet) : EFreeze(h))      \* possibly again
    ELSE IF d2 <= 30 THEN (IF Mutable = {} THEN Fallback ELSE \E h \in Pick(Mutable) : EFreeze(h))
    ELSE IF d2 <= 70 THEN
        (IF DeadSet = {} \/ LiveSet = {} THEN Fallback
         ELSE LET fz == {h \in LiveSet : Frozen(h)}
              IN \E s \in Pick(IF fz # {} /\ d2 <= 64 THEN fz ELSE LiveSet), f \in Pick(CloneForms) :
                    EClone(s, SetMin(DeadSet), f))
    ELSE IF d2 <= 92 THEN
        (IF Cardinality(LiveSet) < 2 THEN Fallback ELSE \E h \in Pick(LiveSet) : EDrop(h))
    ELSE (IF DeadSet = {} THEN Fallback ELSE \E t \in Pick(Ts) : ENew(SetMin(DeadSet), t))

OpenC == {c \in Cursors : cur[c].open}
Movable == {c \in Cursors : cur[c].open /\ cur[c].kind # "iter"}
GCursor ==
    IF d2 <= 14 \/ (OpenC = {} /\ LiveSet # {}) THEN
        (IF OpenC = Cursors \/ LiveSet = {} THEN Fallback
         ELSE \E c \in Pick(Cursors \ OpenC), h \in Pick(LiveSet), kd \in Pick(Kinds) : ECOpen(c, h, kd))
    ELSE IF d2 <= 18 THEN (IF OpenC = {} THEN Fallback ELSE \E c \in Pick(OpenC) : ECClose(c))
    ELSE IF d2 <= 34 THEN (IF Movable = {} THEN Fallback ELSE \E c \in Pick(Movable), k \in Pick(0..(MaxKey + 1)), b \in Pick(BOOLEAN) : ESeek(c, k, b))   \* also beyond both ends
    ELSE IF d2 <= 39 THEN (IF Movable = {} THEN Fallback ELSE \E c \in Pick(Movable), b \in Pick(BOOLEAN) : ESeekEnd(c, b))
    ELSE IF d2 <= 70 THEN (IF OpenC = {} THEN Fallback ELSE \E c \in Pick(OpenC) : ENext(c))
    ELSE IF d2 <= 94 THEN (IF Movable = {} THEN Fallback ELSE \E c \in Pick(Movable) : EPrev(c))
    ELSE (IF Movable = {} THEN Fallback ELSE \E c \in Pick(Movable) : EPark(c))

GRead ==
    IF LiveSet = {} THEN Fallback
    ELSE \E h \in Pick(LiveSet) :
      IF d2 <= 50 THEN \E k \in Pick(Keys), f \in Pick(GetForms) : EGet(h, k, f)
      ELSE IF d2 <= 60 THEN ELen(h)
      ELSE IF d2 <= 85 THEN \E f \in Pick(IterForms) : EIter(h, f)
      ELSE \E b \in Pick(BOOLEAN) : EExtreme(h, b)

GStepSim ==
    IF d1 <= 56 THEN GMutate
    ELSE IF d1 <= 63 THEN GOdd
    ELSE IF d1 <= 66 THEN GFrozen
    ELSE IF d1 <= 72 THEN GLife
    ELSE IF d1 <= 91 THEN GCursor
    ELSE IF d1 <= 98 THEN GRead
    ELSE (IF DeadSet = {} THEN Fallback ELSE ENew(SetMin(DeadSet), 2))   \* a refused constructor call

WantFlip == d1 = 98 \/ (d1 <= 56 /\ Stuck)

(* the script is complete: one last step with a single successor, so that the
   emitting invariant fires once per behaviour (TLC evaluates invariants on every
   successor it builds, also in simulation mode) *)
Finish == steps = MaxHist /\ ~done /\ done' = TRUE /\ UNCHANGED <<vars, hist, steps, phase, order, d1, d2>>

GNext ==
  \/ Finish
  \/
    /\ steps < MaxHist
    /\ IF Sim
       THEN IF WantFlip THEN Flip ELSE (GStepSim /\ Step /\ Keep)
       ELSE GStepEx /\ Step /\ Keep

GSpec == GInit /\ [][GNext]_gvars

Emit == done => PrintT("BEH " \o ToJson(hist))
=============================================================================
