SPECIFICATION Spec
CONSTANTS
  Configs <- MCConfigsB
  StartTimes = {1600}
  MaxRes = 2
  MaxQ = 3
  MaxBack = 0
  TicksPerSec = 16
  MaxChain = 16
  BackoffTable <- MCBackoff
  Requests <- MCRequestsC
  IdleAdvances = {0, 16, 96}
  Outcomes <- MCOutcomesB
  Advances <- MCAdvancesB
INVARIANT TypeOK
INVARIANT WithinLifetime
INVARIANT BrokenNeverAskedAgain
INVARIANT Classification
INVARIANT CacheKeys
INVARIANT CacheHitSameQuestion
PROPERTY TruncatedRetry
PROPERTY RearmCostsTime
CHECK_DEADLOCK FALSE
