INIT TraceInit
NEXT TraceNext
CONSTANTS
  Contents = {}
  SerialSeqs = {}
  MaxSteps = 0
  Kinds = {}
  FaultKinds = {}
  MaxCuts = 0
  QModes = {}
  Revs = {}
CONSTRAINT Accepted
POSTCONDITION Post
CHECK_DEADLOCK FALSE
