INIT TraceInit
NEXT TraceNext
CONSTANTS
  Writers = {1, 2, 3, 4}
  Readers = {5, 6}
  Plans = {}
  RPlans = {}
  RModes = {}
  InitVid = 2
  Policers = {7}
  PPlans = {}
CONSTRAINT Accepted
POSTCONDITION Post
CHECK_DEADLOCK FALSE
