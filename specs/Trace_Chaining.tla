--------------------------- MODULE Trace_Chaining ---------------------------
(* Trace validation of dns.message.QueryMessage.resolve_chaining against Chaining:
   one single-event trace per response of the universe printed by MC_Chaining. *)
EXTENDS Chaining, VTrace

VARIABLES t, l
TraceInit == RegInit /\ t \in 1..NTraces /\ l = 1
e == Ev(t)[l]
r == Resolve(e.msg, e.q, e.qt)
TChain ==
    /\ l <= Len(Ev(t)) /\ e.op = "chain"
    /\ Check(t, l, "ChainError", e.err = r.err)
    /\ (r.err = "" /\ e.err = "") =>
          /\ Check(t, l, "CanonicalName", e.cname = r.cname)
          /\ Check(t, l, "AnswerRRset", e.rr = (IF r.answer = 0 THEN <<"none">>
                         ELSE <<"rr", e.msg.ans[r.answer].n, e.msg.ans[r.answer].ty, e.msg.ans[r.answer].ttl>>))
          /\ Check(t, l, "MinTTL", e.ttl = r.ttl)
          /\ Check(t, l, "ChainFollowed", e.hops = r.hops)
    /\ l' = l + 1 /\ t' = t
TraceNext == TChain
Accepted == Accepting(t, l)
=============================================================================
