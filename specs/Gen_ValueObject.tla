--------------------------- MODULE Gen_ValueObject ---------------------------
(* Emits the comparison universe of C07 part 2: pairs of record descriptions.  A
   description is [cls, ty, f, mode]: the record is built from the wire form of its
   fields (mode "wire"), from the text of that record ("text"), from that text with
   its names made relative to the origin example. ("rel"), or as the RFC 3597 generic
   form of that record ("generic": same class, type and RDATA octets, held by the
   implementation that knows nothing about the type).  A generic record cannot lower-case
   names it does not know about, so the generic form is only requested for records whose
   canonical encoding is their plain wire form.  Only inputs are emitted. *)
EXTENDS ValueObject, ValueObjectU, Json

CONSTANTS NamesFull,    \* names used for all pairs of one type, one construction mode
          NamesModes    \* names used for the pairs across construction modes
VARIABLE pair
gvars == <<vars, pair>>

M(r, m) == [cls |-> r.cls, ty |-> r.ty, f |-> r.f, mode |-> m]
ModePairs == {<<"wire", "text">>, <<"rel", "rel">>, <<"wire", "rel">>, <<"rel", "wire">>, <<"text", "rel">>}
GenericModePairs == {<<"wire", "generic">>, <<"generic", "wire">>, <<"generic", "generic">>, <<"text", "generic">>,
                     <<"generic", "rel">>}
GenericOk(x) == x.mode # "generic" \/ Canon(x) = Wire(x)
GenericPairsOf(ty) ==
    {p \in {[a |-> M(r, mm[1]), b |-> M(s, mm[2])] :
                r \in Records("IN", ty, NamesModes, NamesModes), s \in Records("IN", ty, NamesModes, NamesModes),
                mm \in GenericModePairs} : GenericOk(p.a) /\ GenericOk(p.b)}
Pairs ==
    UNION {{[a |-> M(r, "wire"), b |-> M(s, "wire")] :
              r \in Records("IN", ty, NamesFull, NamesModes), s \in Records("IN", ty, NamesFull, NamesModes)} : ty \in Types}
    \cup UNION {{[a |-> M(r, mm[1]), b |-> M(s, mm[2])] :
              r \in Records("IN", ty, NamesModes, NamesModes), s \in Records("IN", ty, NamesModes, NamesModes),
              mm \in ModePairs} : ty \in Types}
    \cup UNION {GenericPairsOf(ty) : ty \in Types}   \* the same value held as typed and as generic record
    \cup {[a |-> M(r, "wire"), b |-> M(s, "wire")] :      \* same fields, other type / other class
              r \in Records("IN", "NS", NamesModes, NamesModes) \cup Records("IN", "MX", NamesModes, NamesModes),
              s \in Records("IN", "CNAME", NamesModes, NamesModes) \cup Records("CH", "MX", NamesModes, NamesModes)
                    \cup Records("IN", "RT", NamesModes, NamesModes)}

GInit == pair \in Pairs /\ val = pair.a /\ obs = <<"new">>
GNext == UNCHANGED gvars
Emit == PrintT("BEH " \o ToJson(pair))
=============================================================================
