--------------------------- MODULE Gen_BTreeZone ---------------------------
(* BTreeZone plus a history variable: every behaviour is one zone history -- an initial
   load in a chosen record order, then update transactions (and whole-zone reloads)
   following a plan.  Only the environment's choices are recorded; the terminal state
   prints the history as JSON and the driver replays it on dns.btreezone.Zone.  Names
   travel as indices into BTZNames!NameTable, which is printed once ("TAB"). *)
EXTENDS BTZNames, Json

CONSTANTS LoadPrefix,  \* records every load starts with (a sequence), e.g. <<SOA, ApexNS>>
          LoadRecs,    \* records a load picks from, in any order, without repetition
          LoadLens,    \* how many records a load picks
          FixedLoads,  \* alternatively: complete loads in a fixed order (set of sequences)
          OpKinds,     \* subset of {"put", "add", "delrd", "delrds", "delnode"}
          Plans,       \* set of plans; a plan is a sequence of naturals: k > 0 is an update
                       \* transaction with k operations, 0 is a reload of the whole zone
          Ends         \* subset of {"commit", "rollback"}

VARIABLES hist, phase, pending, plan, pi
gvars == <<vars, hist, phase, pending, plan, pi>>

H(e) == hist' = Append(hist, e)
Rec(r) == <<IdxTab[r[1]], r[2], r[3]>>
RecSeq(s) == [i \in DOMAIN s |-> Rec(s[i])]

GInit == /\ Init /\ hist = <<>> /\ phase = "loading" /\ pending = <<>>
         /\ plan \in Plans /\ pi = 1

GPick == /\ phase = "loading"
         /\ \E len \in LoadLens : Len(pending) < len
         /\ \E r \in LoadRecs \ ToSet(pending) : pending' = Append(pending, r)
         /\ UNCHANGED <<vars, hist, phase, plan, pi>>

GLoadDone == /\ phase = "loading" /\ Len(pending) \in LoadLens
             /\ LET s == LoadPrefix \o pending
                IN Load(s) /\ H([op |-> "load", recs |-> RecSeq(s)])
             /\ phase' = "run" /\ pending' = <<>> /\ UNCHANGED <<plan, pi>>

GLoadFixed == /\ phase = "loading" /\ pending = <<>>
              /\ \E s \in FixedLoads : Load(s) /\ H([op |-> "load", recs |-> RecSeq(s)])
              /\ phase' = "run" /\ UNCHANGED <<pending, plan, pi>>

Running == phase = "run" /\ pi <= Len(plan)

GReload == /\ Running /\ mode = "idle" /\ plan[pi] = 0
           /\ phase' = "loading" /\ pi' = pi + 1
           /\ UNCHANGED <<vars, hist, pending, plan>>

GBegin == /\ Running /\ plan[pi] > 0 /\ Begin /\ H([op |-> "begin"])
          /\ UNCHANGED <<phase, pending, plan, pi>>

E(kind, n, ty, k) == H([op |-> kind, name |-> IdxTab[n], type |-> ty, k |-> k])
GOp == /\ Running /\ nops < plan[pi]
       /\ \/ \E n \in Names, ty \in OpTypes, k \in RdIds :
               \/ "put" \in OpKinds /\ Put(n, ty, {k}) /\ E("put", n, ty, k)
               \/ "add" \in OpKinds /\ Add(n, ty, k) /\ E("add", n, ty, k)
               \/ "delrd" \in OpKinds /\ DelRd(n, ty, k) /\ E("delrd", n, ty, k)
          \/ \E n \in Names, ty \in OpTypes :
               "delrds" \in OpKinds /\ DelRds(n, ty) /\ E("delrds", n, ty, 0)
          \/ \E n \in Names :
               "delnode" \in OpKinds /\ DelNode(n) /\ E("delnode", n, "-", 0)
       /\ UNCHANGED <<phase, pending, plan, pi>>

GEnd == /\ Running /\ mode = "txn" /\ nops = plan[pi]
        /\ \E how \in Ends :
             /\ IF how = "commit" THEN Commit ELSE Rollback
             /\ H([op |-> "end", how |-> how])
        /\ pi' = pi + 1 /\ UNCHANGED <<phase, pending, plan>>

GNext == GPick \/ GLoadDone \/ GLoadFixed \/ GReload \/ GBegin \/ GOp \/ GEnd

Done == phase = "run" /\ mode = "idle" /\ pi > Len(plan)
Emit == Done => PrintT("BEH " \o ToJson(hist))

(* the name table and the query sets, printed at the initial states only *)
EmitTable == (hist = <<>> /\ pending = <<>>) =>
                /\ PrintT("TAB " \o ToJson(NameTable))
                /\ PrintT("QRYU " \o ToJson(UQuerySeq))
                /\ PrintT("QRYW " \o ToJson(WQuerySeq))

(* record sets used by the generator configurations *)
R(n, ty) == <<n, ty, 1>>
NestRecs == {R(n_d, "NS"), R(n_xd, "NS"), R(n_yxd, "A"), R(n_ed, "A"), R(n_f, "NS")}
DeepRecs == {R(n_d, "NS"), R(n_xd, "NS"), R(n_yxd, "NS"), R(n_ed, "NS"), R(n_bc, "A")}
(* a CNAME and other data at the same owner: which survives depends on the load order; d is a cut
   (and x.d, e.d glue) only if its NS was loaded after its CNAME *)
CnameRecs == {R(n_d, "NS"), R(n_d, "CNAME"), R(n_xd, "A"), R(n_xd, "CNAME"), R(n_ed, "A")}
CnameRecs2 == {R(n_d, "NS"), R(n_xd, "NS"), R(n_xd, "CNAME"), R(n_yxd, "CNAME"), R(n_yxd, "A")}
MixRecs == {R(n_xd, "A"), R(n_d, "NS"), R(n_yxd, "NS"), R(n_d, "A"), R(n_xd, "NS")}
ApexRecs == {SOA, ApexNS, R(n_d, "NS"), R(n_xd, "NS"), R(n_yxd, "A")}
ChainRecs == {R(n, ty) : n \in {n_d, n_xd, n_yxd, n_ed}, ty \in {"NS", "A"}} \cup {R(n_f, "NS")}
AllRecs(NN, TT, KK) == {<<n, ty, k>> : n \in NN, ty \in TT, k \in KK}
CnRecs(NN) == AllRecs(NN \ {n_apex}, {"CNAME"}, {1})
URecs == AllRecs(UNames, {"NS", "A", "TXT"}, {1}) \cup CnRecs(UNames)
WRecs == AllRecs(WNames, {"NS", "A", "TXT"}, {1, 2})
Std == <<SOA, ApexNS>>
F_flat == Std \o <<R(n_ns, "A"), R(n_f, "A"), R(n_bc, "TXT")>>
F_cut == Std \o <<R(n_d, "NS"), R(n_xd, "A"), R(n_ed, "A"), R(n_f, "NS")>>
F_nest == Std \o <<R(n_d, "NS"), R(n_xd, "NS"), R(n_yxd, "A"), R(n_bc, "A")>>
F_deep == Std \o <<R(n_d, "A"), R(n_xd, "NS"), R(n_yxd, "NS"), R(n_ed, "NS")>>
F_rev == Std \o <<R(n_yxd, "NS"), R(n_xd, "NS"), R(n_d, "NS"), R(n_ed, "A")>>
FixedAll == {F_flat, F_cut, F_nest, F_deep, F_rev}
FixedNested == {F_nest, F_deep, F_rev}
F_cn == Std \o <<R(n_d, "NS"), R(n_xd, "CNAME"), R(n_ed, "A"), R(n_f, "NS")>>
FixedTwo == {F_nest, F_rev}
FixedCname == {F_nest, F_cn}
FixedOne == {F_flat}
NoLoads == {}
NoRecs == {}
NoPrefix == <<>>
WRecsOne == AllRecs(WNames, {"NS", "A", "TXT"}, {1}) \cup CnRecs(WNames)
(* every name of the table as an owner: many sibling cuts, internal B-tree roots at t = 3, 4 *)
BNames == TabSet
BRecs == AllRecs(TabSet, {"NS", "A"}, {1}) \cup CnRecs(TabSet)
(* loads in ASCENDING canonical order of the first L table names: the right-most leaf of a B-tree
   filled in order cycles through every occupancy up to "exactly full", for every L one shape;
   with NS at every name that can be a sibling cut (top-level names other than d, and the
   children of d) the delegation index gets the same shapes *)
CutCandidates == {n \in TabSet : (Len(n) = 1 /\ n # n_d) \/ (Len(n) = 2 /\ n[2] = l_d)}
AscLoad(L, nsset) == Std \o [i \in 1..(L - 1) |->
                               R(NameTable[i + 1], IF NameTable[i + 1] \in nsset THEN "NS" ELSE "A")]
FixedAsc == {AscLoad(L, {}) : L \in 6..Len(NameTable)} \cup {AscLoad(L, CutCandidates) : L \in 6..Len(NameTable)}
CoreNames == {n_apex, n_d, n_xd, n_yxd, n_ed, n_f}
NoApexCore == CoreNames \ {n_apex}
(* plans (a .cfg file cannot spell tuples) *)
P_0 == {<<>>}
P_01 == {<<>>, <<1>>}
P_1 == {<<1>>}
P_2 == {<<1>>, <<2>>, <<1, 1>>}
P_3 == {<<3>>, <<1, 2>>, <<2, 1>>, <<1, 1, 1>>}
P_3s == {<<3>>, <<1, 1, 1>>}
P_3one == {<<1, 1, 1>>}
P_sim == UNION {[1..n -> 0..3] : n \in 2..4}
=============================================================================
