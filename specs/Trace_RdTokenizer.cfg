INIT TraceInit
NEXT TraceNext
CONSTANTS
  Alphabet = {}
  MaxLen = 0
CONSTRAINT Accepted
POSTCONDITION Post
CHECK_DEADLOCK FALSE
