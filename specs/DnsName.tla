------------------------------ MODULE DnsName ------------------------------
(* Domain names as values (C01 constructors, C06 order).

   A label is a sequence of octets (0..255); a name is a sequence of labels; a name is
   ABSOLUTE iff its last label is the empty (root) label.  <<>> is the empty (relative)
   name, << <<>> >> is the root.

   Sources: RFC 1035 2.3.4 / 3.1 (size limits: label <= 63, name <= 255 octets on the
   wire), RFC 4343 (case insensitivity of ASCII letters only), RFC 4034 6.1 (canonical
   order), RFC 4471 3.1 (predecessor / successor, "absolute method"), and the
   documentation of dns.name (relative names sort before absolute names and are
   unrelated to them; relativize/derelativize/concatenate/split/parent).

   MaxLabel / MaxWire are 63 / 255 in the DNS; they are constants so that bounded
   instances can shrink them and enumerate EVERY legal name of a tiny zone. *)
EXTENDS Integers, Sequences, FiniteSets

CONSTANTS MaxLabel, MaxWire

Octet == 0..255
MinOct == 0
MaxOct == 255

Ok(v)   == <<"ok", v>>
Err(k)  == <<"err", k>>
IsOk(r) == r[1] = "ok"

Min(a, b) == IF a <= b THEN a ELSE b
Rep(c, k) == [i \in 1..k |-> c]
Root  == << <<>> >>
Empty == <<>>

-----------------------------------------------------------------------------
(* Case folding: only the 26 ASCII upper-case letters fold (RFC 4343). *)
Lower(c)      == IF c >= 65 /\ c <= 90 THEN c + 32 ELSE c
LowerLabel(x) == [i \in 1..Len(x) |-> Lower(x[i])]
LowerAll(n)   == [i \in 1..Len(n) |-> LowerLabel(n[i])]
SameLabel(x, y) == Len(x) = Len(y) /\ \A i \in 1..Len(x) : Lower(x[i]) = Lower(y[i])
SameName(a, b)  == Len(a) = Len(b) /\ \A i \in 1..Len(a) : SameLabel(a[i], b[i])   \* equality as DNS names

IsAbs(n) == Len(n) > 0 /\ n[Len(n)] = <<>>

(* Octets a label sequence occupies on the wire (one length octet per label). *)
RECURSIVE WireLenTo(_, _)
WireLenTo(n, k) == IF k = 0 THEN 0 ELSE WireLenTo(n, k - 1) + Len(n[k]) + 1
WireLen(n) == WireLenTo(n, Len(n))

IsName(n) == /\ n \in Seq(Seq(Octet))
Valid(n) ==
    /\ \A i \in 1..Len(n) : Len(n[i]) <= MaxLabel /\ (n[i] = <<>> => i = Len(n))
    /\ WireLen(n) <= MaxWire

(* Every constructor ends in this: the label sequence becomes a name or is refused. *)
Construct(ls) ==
    IF \E i \in 1..Len(ls) : Len(ls[i]) > MaxLabel THEN Err("LabelTooLong")
    ELSE IF WireLen(ls) > MaxWire THEN Err("NameTooLong")
    ELSE IF \E i \in 1..Len(ls) - 1 : ls[i] = <<>> THEN Err("EmptyLabel")
    ELSE Ok(ls)

-----------------------------------------------------------------------------
(* RFC 4034 6.1 canonical order.  Labels are compared as octet strings after folding,
   "absence of an octet sorts before a zero octet"; names are compared label by label
   starting from the most significant (rightmost) label, a proper suffix sorting first.
   dns.name: a relative name sorts before every absolute name. *)
RECURSIVE CmpOct(_, _, _)
CmpOct(x, y, i) ==
    IF i > Len(x) THEN (IF i > Len(y) THEN 0 ELSE -1)
    ELSE IF i > Len(y) THEN 1
    ELSE IF Lower(x[i]) < Lower(y[i]) THEN -1
    ELSE IF Lower(x[i]) > Lower(y[i]) THEN 1
    ELSE CmpOct(x, y, i + 1)
CmpLabel(x, y) == CmpOct(x, y, 1)

RECURSIVE CmpFrom(_, _, _)          \* k = number of rightmost labels already found equal
CmpFrom(a, b, k) ==
    IF k = Len(a) THEN (IF k = Len(b) THEN 0 ELSE -1)
    ELSE IF k = Len(b) THEN 1
    ELSE LET c == CmpLabel(a[Len(a) - k], b[Len(b) - k])
         IN  IF c # 0 THEN c ELSE CmpFrom(a, b, k + 1)

Cmp(a, b) == IF IsAbs(a) # IsAbs(b) THEN (IF IsAbs(a) THEN 1 ELSE -1) ELSE CmpFrom(a, b, 0)

(* Number of common rightmost labels (the root label of two absolute names counts). *)
RECURSIVE CommonFrom(_, _, _)
CommonFrom(a, b, k) ==
    IF k = Len(a) \/ k = Len(b) THEN k
    ELSE IF SameLabel(a[Len(a) - k], b[Len(b) - k]) THEN CommonFrom(a, b, k + 1)
    ELSE k
Common(a, b) == IF IsAbs(a) # IsAbs(b) THEN 0 ELSE CommonFrom(a, b, 0)

Relation(a, b) ==
    IF IsAbs(a) # IsAbs(b) THEN "none"
    ELSE LET c == Common(a, b)
         IN  IF c = Len(a) /\ c = Len(b) THEN "equal"
             ELSE IF c = Len(b) THEN "subdomain"
             ELSE IF c = Len(a) THEN "superdomain"
             ELSE IF c > 0 THEN "commonancestor"
             ELSE "none"

(* a is a subdomain of b (equality included): b is a suffix of a, same relativity.
   Stated directly, independently of Relation, so that their coherence is a law. *)
Suffix(n, d) == SubSeq(n, Len(n) - d + 1, Len(n))
Prefix(n, d) == SubSeq(n, 1, Len(n) - d)               \* all but the last d labels
IsSub(a, b) ==
    /\ IsAbs(a) = IsAbs(b)
    /\ Len(b) <= Len(a)
    /\ SameName(Suffix(a, Len(b)), b)
IsSuper(a, b) == IsSub(b, a)

RichOf(c) == <<c = 0, c # 0, c < 0, c <= 0, c > 0, c >= 0>>     \* == != < <= > >=

-----------------------------------------------------------------------------
(* Structure *)
Parent(n) == IF n = Root \/ n = Empty THEN Err("NoParent") ELSE Ok(Tail(n))

Split(n, d) ==
    IF d < 0 \/ d > Len(n) THEN Err("ValueError")
    ELSE <<"ok", Prefix(n, d), Suffix(n, d)>>

Concat(a, b) ==
    IF IsAbs(a) /\ Len(b) > 0 THEN Err("AbsoluteConcatenation") ELSE Construct(a \o b)

Relativize(n, o)   == IF IsSub(n, o) THEN Prefix(n, Len(o)) ELSE n
Derelativize(n, o) == IF IsAbs(n) THEN Ok(n) ELSE Concat(n, o)

(* dns.name.Name.choose_relativity: origin None or of length 0 leaves the name alone *)
NoOrigin == <<"none">>
Some(o)  == <<"some", o>>
ChooseRel(n, origin, rel) ==
    IF origin[1] = "none" \/ Len(origin[2]) = 0 THEN Ok(n)
    ELSE IF rel THEN Ok(Relativize(n, origin[2]))
    ELSE Derelativize(n, origin[2])

-----------------------------------------------------------------------------
(* RFC 4471 3.1, on the canonical (folded) order: stepping an octet skips the values
   of upper-case letters, because an upper-case letter sorts as its lower-case form. *)
SuccOct(c) == LET l == Lower(c) IN IF l = 64 THEN 91 ELSE l + 1       \* Lower(c) < 255
PredOct(c) == LET l == Lower(c) IN IF l = 91 THEN 64 ELSE l - 1       \* Lower(c) > 0

RECURSIVE LastNonMax(_, _)          \* index of the last octet of x below MaxOct, 0 if none
LastNonMax(x, i) == IF i = 0 THEN 0 ELSE IF x[i] # MaxOct THEN i ELSE LastNonMax(x, i - 1)

(* Least name of the zone that is greater than n and than every name below n
   (n absolute, subdomain of origin); the origin when there is none (wrap). *)
RECURSIVE SuccUp(_, _)
SuccUp(n, origin) ==
    IF SameName(n, origin) THEN origin
    ELSE IF Len(n[1]) < MaxLabel /\ WireLen(n) + 1 <= MaxWire
         THEN <<Append(n[1], MinOct)>> \o Tail(n)
    ELSE LET x == n[1]
             i == LastNonMax(x, Len(x))
         IN  IF i = 0 THEN SuccUp(Tail(n), origin)
             ELSE <<Append(SubSeq(x, 1, i - 1), SuccOct(x[i]))>> \o Tail(n)

AbsSucc(n, origin, prefixOk) ==
    IF prefixOk /\ WireLen(n) + 2 <= MaxWire THEN << <<MinOct>> >> \o n
    ELSE SuccUp(n, origin)

(* Padding used by the predecessor: as many maximal octets / labels as still fit. *)
PadLabel(x, rest) ==
    LET room == MaxWire - WireLen(rest) - Len(x) - 1
        k    == IF room <= 0 THEN 0 ELSE Min(MaxLabel - Len(x), room)
    IN  x \o Rep(MaxOct, k)
RECURSIVE PadName(_)
PadName(n) ==
    LET room == MaxWire - WireLen(n)
    IN  IF room >= 2 THEN PadName(<<Rep(MaxOct, Min(MaxLabel, room - 1))>> \o n) ELSE n

AbsPred(n, origin, prefixOk) ==
    IF SameName(n, origin) THEN PadName(n)                    \* wraps to the last name
    ELSE LET x    == n[1]
             rest == Tail(n)
             pad(m) == IF prefixOk THEN PadName(m) ELSE m
         IN  IF x = <<MinOct>> THEN rest
             ELSE IF x[Len(x)] = MinOct THEN pad(<<SubSeq(x, 1, Len(x) - 1)>> \o rest)
             ELSE pad(<<PadLabel(Append(SubSeq(x, 1, Len(x) - 1), PredOct(x[Len(x)])), rest)>> \o rest)

(* Public form: relativity of the argument is preserved. *)
Neighbour(F(_, _, _), n, origin, prefixOk) ==
    IF ~IsAbs(origin) THEN Err("NeedAbsoluteNameOrOrigin")
    ELSE IF IsAbs(n) THEN (IF IsSub(n, origin) THEN Ok(F(n, origin, prefixOk))
                           ELSE Err("NeedSubdomainOfOrigin"))
    ELSE LET d == Concat(n, origin)
         IN  IF IsOk(d) THEN Ok(Relativize(F(d[2], origin, prefixOk), origin)) ELSE d
Succ(n, origin, prefixOk) == Neighbour(AbsSucc, n, origin, prefixOk)
Pred(n, origin, prefixOk) == Neighbour(AbsPred, n, origin, prefixOk)

(* What the property demands of ANY successor / predecessor r of n in the zone
   (minimality / maximality is not demanded): *)
AbsOf(n, origin) == IF IsAbs(n) THEN n ELSE n \o origin
GoodSucc(n, origin, r) ==
    /\ Valid(r) /\ IsAbs(r) = IsAbs(n)
    /\ Valid(AbsOf(r, origin)) /\ IsSub(AbsOf(r, origin), origin)
    /\ \/ Cmp(AbsOf(n, origin), AbsOf(r, origin)) < 0
       \/ SameName(AbsOf(r, origin), origin)
GoodPred(n, origin, r) ==
    /\ Valid(r) /\ IsAbs(r) = IsAbs(n)
    /\ Valid(AbsOf(r, origin)) /\ IsSub(AbsOf(r, origin), origin)
    /\ \/ Cmp(AbsOf(r, origin), AbsOf(n, origin)) < 0
       \/ SameName(AbsOf(n, origin), origin)

-----------------------------------------------------------------------------
(* dns.namedict.NameDict.get_deepest_match: the longest key that is a superdomain of q *)
Supers(keys, q) == {k \in keys : IsSub(q, k)}
Deepest(keys, q) ==
    LET c == Supers(keys, q)
    IN  IF c = {} THEN Err("none") ELSE Ok(CHOOSE k \in c : \A j \in c : Len(j) <= Len(k))
=============================================================================
