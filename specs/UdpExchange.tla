---------------------------- MODULE UdpExchange ----------------------------
(* C18, datagram half: one UDP exchange of a stub (dns.query.udp / receive_udp /
   udp_with_fallback and the dns.asyncquery equivalents).

   Written from the property text and the documented option semantics, not from the code:

     "A UDP ... exchange returns only a message that is a response to the query that was
      sent (QR set, same id, opcode and question) and ... that arrived from the queried
      address and port; spoofed, mismatched or malformed datagrams are skipped or raise as
      configured but are never returned, and a genuine truncated reply is reported as
      truncation when asked."

   The environment delivers datagrams one at a time.  A datagram is a vector of the
   attributes that matter for the verdict; the driver concretises each vector into real
   wire bytes and a real source address.  Time is in ticks; a would-block costs 2 ticks and
   deadlines are odd, so "exactly at the deadline" never happens. *)
EXTENDS ReplyVocab, TLC

CONSTANTS Dgrams,      \* the universe of datagram vectors the environment may deliver
          Configs,     \* the universe of exchange configurations
          MaxDgrams,   \* at most this many datagrams are delivered in one exchange
          MaxBlocks    \* at most this many would-block events in one exchange

VARIABLES cfg,       \* configuration of this exchange (constant during a behaviour)
          now,       \* virtual clock, ticks since the exchange began
          nblocks,   \* would-block events so far
          consumed,  \* number of datagrams taken from the socket
          last,      \* the last datagram taken (<<>> before the first)
          status,    \* "open" | "ret" | "raise" | "timeout" | "hang"
          exc        \* exception family when status = "raise": "Truncated" | "other" ; else "-"
vars == <<cfg, now, nblocks, consumed, last, status, exc>>

-----------------------------------------------------------------------------
(* Attribute vectors: a datagram is a reply vector (ReplyVocab) plus where it came from *)
Sources == {"dest", "otherAddr", "otherPort", "altText"}
   \* altText: the queried address written differently (IPv6 "2001:DB8:0:0:0:0:0:1")
DgramType == [src : Sources, wf : WellFormed, qr : BOOLEAN, idm : BOOLEAN, opm : BOOLEAN,
              qm : QMatch, tc : BOOLEAN]
AllDgrams == {[src |-> s] @@ r : s \in Sources, r \in AllReplies}
\* deviating from the genuine reply in at most n attributes (tc not counted)
DevDgrams(n) == {d \in AllDgrams : Deviations(d) + (IF d.src = "dest" THEN 0 ELSE 1) <= n}

(* api: "udp"      full exchange, always verifies the reply against the query
        "recv"     receive_udp: verifies only if a query was given AND ignore_errors (as
                   documented for its *query* parameter); destination None = any source
        "fallback" udp_with_fallback: udp with raise_on_truncation forced on
   deadline: 0 = none, else an odd number of ticks
   tz: how a ZERO timeout is spelled when deadline = 0: "-" = no timeout at all (None);
       "int0" = timeout 0, "float0" = timeout 0.0, "tiny" = a positive timeout far below one
       tick.  All three are a deadline AT tick 0: what is already there may be taken, the first
       wait expires. *)
ConfigType == [api : {"udp", "recv", "fallback"}, iu : BOOLEAN, ie : BOOLEAN, rot : BOOLEAN,
               it : BOOLEAN, mcast : BOOLEAN, hasq : BOOLEAN, anysrc : BOOLEAN,
               fam : {"v4", "v6"}, deadline : Nat, tz : {"-", "int0", "float0", "tiny"}, qop : SentOpcodes]

\* one configuration per distinguishable call
CanonConfig(c) == /\ (c.api # "recv" => c.hasq /\ ~c.anysrc)
                  /\ (c.api = "fallback" => c.rot)
                  /\ (c.anysrc => ~c.mcast /\ ~c.iu)
                  /\ (c.tz # "-" => c.deadline = 0)
ConfigsOver(apis, deadlines, mcasts, fams) ==
    {c \in [api : apis, iu : BOOLEAN, ie : BOOLEAN, rot : BOOLEAN, it : BOOLEAN, mcast : mcasts,
            hasq : BOOLEAN, anysrc : BOOLEAN, fam : fams, deadline : deadlines, tz : {"-"}, qop : {"QUERY"}] : CanonConfig(c)}
\* the same configurations for other kinds of message sent
WithOpcodes(S, qops) == {[c EXCEPT !.qop = q] : c \in S, q \in qops}
\* the zero-timeout spellings of the configurations of S that have no deadline
ZeroTimeouts(S) == {[c EXCEPT !.tz = z] : c \in {x \in S : x.deadline = 0}, z \in {"int0", "float0", "tiny"}}

-----------------------------------------------------------------------------
(* The property's vocabulary *)

\* arrived from the queried address and port (binary address comparison; a reply to a
\* multicast query may come from any address but must come from the queried port)
FromDest(d, c) == \/ c.anysrc
                  \/ d.src \in {"dest", "altText"}
                  \/ c.mcast /\ d.src = "otherAddr"

Genuine(d, c) == FromDest(d, c) /\ RespondsTo(d, c.qop)

\* the whole datagram is a well-formed message under the parsing options in force
Parses(d, c) == ParsesWith(d, c.it)

\* does this entry point verify the reply against a query?
Verify(c) == c.api \in {"udp", "fallback"} \/ (c.hasq /\ c.ie)
\* is truncation to be reported?
Rot(c) == c.rot \/ c.api = "fallback"

(* Verdict kinds the documented option semantics allow for one datagram:
     ignore_unexpected : unexpected sources are ignored, otherwise UnexpectedSource
     ignore_errors     : format errors and response mismatches are ignored and the
                         exchange keeps listening for a valid response
     ignore_trailing   : trailing octets are not a format error
     raise_on_truncation: a reply with TC raises Truncated
   Where the documentation leaves a choice (wrong source with ignore_errors but without
   ignore_unexpected; a malformed reply whose header carries TC, under ignore_errors AND
   raise_on_truncation, that is not known to be a mismatch) both kinds are allowed. *)
AllowedKinds(d, c) ==
    IF ~FromDest(d, c) THEN
        IF c.iu THEN {"skip"} ELSE IF c.ie THEN {"skip", "raise"} ELSE {"raise"}
    ELSE IF ~Parses(d, c) THEN
        IF c.ie THEN (IF d.wf # "shortHeader" /\ d.tc /\ Rot(c) /\ (Verify(c) => MayRespond(d, c.qop))
                        THEN {"skip", "raise"} ELSE {"skip"})
        ELSE {"raise"}
    ELSE IF Verify(c) /\ ~RespondsTo(d, c.qop) THEN
        IF c.ie THEN {"skip"} ELSE {"raise"}
    ELSE IF d.tc /\ Rot(c) THEN {"raise"}
    ELSE {"ret"}

\* "a genuine truncated reply is reported as truncation when asked"
MustBeTruncated(d, c) == FromDest(d, c) /\ Parses(d, c) /\ (Verify(c) => RespondsTo(d, c.qop))
                         /\ d.tc /\ Rot(c)
\* Truncated is only ever reported for a datagram whose header carries TC, when asked
MayBeTruncated(d, c) == d.wf # "shortHeader" /\ d.tc /\ Rot(c)

AllowedExc(d, c) == IF MustBeTruncated(d, c) THEN {"Truncated"}
                    ELSE IF MayBeTruncated(d, c) THEN {"Truncated", "other"}
                    ELSE {"other"}

-----------------------------------------------------------------------------
HasDeadline == cfg.deadline # 0 \/ cfg.tz # "-"
Expiring(dt) == HasDeadline /\ now + dt > cfg.deadline

Init == /\ cfg \in Configs
        /\ now = 0 /\ nblocks = 0 /\ consumed = 0 /\ last = <<>>
        /\ status = "open" /\ exc = "-"

\* the socket has nothing yet: the exchange waits (2 ticks) or the deadline passes first
Block == /\ status = "open" /\ nblocks < MaxBlocks
         /\ nblocks' = nblocks + 1
         /\ IF Expiring(2)
              THEN now' = cfg.deadline /\ status' = "timeout"
              ELSE now' = now + 2 /\ status' = "open"
         /\ UNCHANGED <<cfg, consumed, last, exc>>

\* nothing (more) ever arrives
Silence == /\ status = "open"
           /\ IF ~HasDeadline
                THEN status' = "hang" /\ now' = now
                ELSE status' = "timeout" /\ now' = cfg.deadline
           /\ UNCHANGED <<cfg, nblocks, consumed, last, exc>>

\* a datagram is taken from the socket and judged
Deliver(d, k) ==
    /\ status = "open" /\ consumed < MaxDgrams
    /\ (d.src = "altText" => cfg.fam = "v6")   \* only IPv6 has two spellings of one address
    /\ Deliverable(d, cfg.qop)
    /\ k \in AllowedKinds(d, cfg)
    /\ consumed' = consumed + 1 /\ last' = d
    /\ status' = IF k = "skip" THEN "open" ELSE k
    /\ IF k = "raise" THEN exc' \in AllowedExc(d, cfg) ELSE exc' = "-"
    /\ UNCHANGED <<cfg, now, nblocks>>

Next == \/ Block \/ Silence
        \/ \E d \in Dgrams, k \in {"skip", "ret", "raise"} : Deliver(d, k)

Spec == Init /\ [][Next]_vars /\ WF_vars(Next)

-----------------------------------------------------------------------------
(* What TLC checks *)
TypeOK == /\ cfg \in ConfigType
          /\ status \in {"open", "ret", "raise", "timeout", "hang"}
          /\ exc \in {"-", "Truncated", "other"}
          /\ consumed \in 0..MaxDgrams /\ now \in Nat
          /\ (last = <<>>) <=> (consumed = 0)

\* Return(d) => Genuine(d), from the right place, and well formed: never a spoofed,
\* mismatched or malformed datagram
ReturnOnlyGenuine ==
    status = "ret" => /\ FromDest(last, cfg)
                      /\ Parses(last, cfg)
                      /\ (Verify(cfg) => Genuine(last, cfg))
                      /\ ~(last.tc /\ Rot(cfg))

AtStart == consumed = 0 /\ nblocks = 0 /\ status = "open"   \* (statements about cfg only)
\* the same, as a statement about every datagram of the universe (not only those reached)
ReturnSound ==
    AtStart => \A d \in {x \in Dgrams : Deliverable(x, cfg.qop)} : ("ret" \in AllowedKinds(d, cfg)) =>
        /\ FromDest(d, cfg) /\ Parses(d, cfg) /\ (Verify(cfg) => Genuine(d, cfg)) /\ ~(d.tc /\ Rot(cfg))
        /\ AllowedKinds(d, cfg) = {"ret"}

\* a genuine well-formed reply always ends the exchange (it is never skipped), and a
\* genuine well-formed truncated one ends it with Truncated when asked
GenuineEnds ==
    AtStart => \A d \in {x \in Dgrams : Deliverable(x, cfg.qop)} : (Genuine(d, cfg) /\ Parses(d, cfg)) =>
        /\ "skip" \notin AllowedKinds(d, cfg)
        /\ (d.tc /\ Rot(cfg)) => (AllowedKinds(d, cfg) = {"raise"} /\ AllowedExc(d, cfg) = {"Truncated"})
        /\ ~(d.tc /\ Rot(cfg)) => AllowedKinds(d, cfg) = {"ret"}

\* with ignore_errors (and ignore_unexpected) nothing but a genuine reply can end the
\* exchange early: an off-path attacker cannot make it fail
SpoofCannotEnd ==
    AtStart => \A d \in {x \in Dgrams : Deliverable(x, cfg.qop)} : (cfg.ie /\ cfg.iu /\ Verify(cfg) /\ ~(FromDest(d, cfg) /\ MayRespond(d, cfg.qop))) =>
        AllowedKinds(d, cfg) = {"skip"}

\* every datagram has some verdict
VerdictTotal == AtStart => \A d \in {x \in Dgrams : Deliverable(x, cfg.qop)} : AllowedKinds(d, cfg) # {}

\* a skipped datagram never ends the exchange; an ended exchange stays ended
SkipKeepsListening ==
    [][ (status = "open" /\ consumed' = consumed + 1 /\ status' = "open") => UNCHANGED <<now, exc>> ]_vars
EndIsFinal == [][ status # "open" => UNCHANGED vars ]_vars

\* the deadline: a timeout is reported exactly at the deadline, nothing is taken after it
DeadlineRespected ==
    /\ (HasDeadline => now <= cfg.deadline)
    /\ (status = "timeout" => HasDeadline /\ now = cfg.deadline)
    /\ (status = "hang" => ~HasDeadline)

\* termination by return, raise or deadline (or, without a deadline, a wait for ever)
Terminates == <>(status # "open")
=============================================================================
