---------------------------- MODULE Gen_UpdateMsg ----------------------------
(* UpdateMsg plus a history variable: a behaviour is one sequence of API calls (the
   environment's choices only: which call, which argument form, how names / types / RDATAs
   are spelled).  Histories with at least MinCalls calls are printed as JSON from their own
   "fin" step; the driver replays them on dns.update.UpdateMessage.  No expected results. *)
EXTENDS MC_UpdateMsg, Json

CONSTANTS Ops,       \* subset of {"present", "absent", "add", "replace", "delete"}
          Forms,     \* subset of {"name", "type", "rdataset", "rdata", "text"}
          NameSp,    \* subset of {"relstr", "absstr", "relname", "absname"}
          TypeSp,    \* subset of {"str", "lower", "enum", "int"}
          RdSp,      \* subset of {"rel", "abs"}: names inside RDATA relative to the zone or absolute
          MinCalls
VARIABLES hist, fin
gvars == <<vars, hist, fin>>

\* value arguments for the generators
G1 == {<<Group(ty, ttl, rds)>> : ty \in {"A", "TXT", "MX"}, ttl \in {0, 300}, rds \in {<<1>>, <<2, 1>>}}
G2 == {<<Group("A", 300, <<1, 2>>), Group("MX", 0, <<2>>)>>, <<Group("TXT", 300, <<2>>), Group("A", 300, <<1>>)>>}
GenGroupsAll == G1 \cup G2
GenGroupsOne == {<<Group(ty, 300, <<1>>)>> : ty \in {"A", "MX"}} \cup {<<Group("TXT", 0, <<2, 1>>)>>}
GenGroupsBig == GenGroupsAll \cup {<<Group("A", 2147483647, <<2, 2>>)>>, <<Group("MX", 1, <<1, 2, 3>>)>>,
                                  <<Group("TXT", 300, <<1>>), Group("MX", 300, <<1>>), Group("A", 0, <<2>>)>>}
GenTypes == {"A", "TXT", "MX"}
Distinct(q) == \A i, j \in 1..Len(q) : i # j => q[i] # q[j]

H(o, f, n, sp, ty, tsp, gs, rsp) ==
    hist' = Append(hist, [op |-> o, form |-> f, n |-> n, sp |-> sp, ty |-> ty, tsp |-> tsp, gs |-> gs, rsp |-> rsp])

GInit == Init /\ hist = <<[op |-> "init", zclass |-> zclass]>> /\ fin = FALSE

GStep ==
    /\ ncalls < MaxCalls
    /\ \E n \in Names, sp \in NameSp :
        \/ /\ "name" \in Forms
           /\ \/ "present" \in Ops /\ PresentName(n) /\ H("present", "name", n, sp, "-", "-", <<>>, "-")
              \/ "absent" \in Ops /\ AbsentName(n) /\ H("absent", "name", n, sp, "-", "-", <<>>, "-")
              \/ "delete" \in Ops /\ DeleteName(n) /\ H("delete", "name", n, sp, "-", "-", <<>>, "-")
        \/ /\ "type" \in Forms
           /\ \E ty \in Types, tsp \in TypeSp :
              \/ "present" \in Ops /\ PresentType(n, ty) /\ H("present", "type", n, sp, ty, tsp, <<>>, "-")
              \/ "absent" \in Ops /\ AbsentType(n, ty) /\ H("absent", "type", n, sp, ty, tsp, <<>>, "-")
              \/ "delete" \in Ops /\ DeleteType(n, ty) /\ H("delete", "type", n, sp, ty, tsp, <<>>, "-")
        \/ \E f \in {"rdataset", "rdata", "text"} \cap Forms, gs \in GroupSeqs, rsp \in RdSp, tsp \in TypeSp :
              /\ f # "rdataset" => Len(gs) = 1
              /\ f = "rdataset" => \A i \in 1..Len(gs) : Distinct(gs[i].rds)   \* an rdataset is a set
              /\ f # "text" => tsp = "str"
              /\ \/ "present" \in Ops /\ (f # "rdataset" => gs[1].ttl = 0) /\ PresentValue(n, gs)
                      /\ H("present", f, n, sp, "-", tsp, gs, rsp)
                 \/ "delete" \in Ops /\ (f # "rdataset" => gs[1].ttl = 0) /\ DeleteValue(n, gs)
                      /\ H("delete", f, n, sp, "-", tsp, gs, rsp)
                 \/ "add" \in Ops /\ Add(n, gs) /\ H("add", f, n, sp, "-", tsp, gs, rsp)
                 \/ "replace" \in Ops /\ Replace(n, gs) /\ H("replace", f, n, sp, "-", tsp, gs, rsp)

GNext == \/ ~fin /\ GStep /\ UNCHANGED fin
         \/ ~fin /\ ncalls >= MinCalls /\ fin' = TRUE /\ UNCHANGED <<vars, hist>>
Emit == fin => PrintT("BEH " \o ToJson(hist))
=============================================================================
