SPECIFICATION Spec
CONSTANTS
  Names <- UNames
  Queries <- UQueries
  OpTypes = {"NS", "A", "CNAME"}
  RdIds = {1}
  LoadSets <- MCLoadSets
  MaxOps = 3
  MaxTxns = 2
  ShapeNames <- UNames
  NameLessC <- TabLess
INVARIANT TypeOK
INVARIANT CommittedLaws
PROPERTY OnlyCommitChanges
CHECK_DEADLOCK FALSE
