---------------------------- MODULE MC_ZoneTxn ----------------------------
(* Bounded instance of ZoneTxn for exhaustive model checking. *)
EXTENDS ZoneTxn

R(ttl, rds) == [ttl |-> ttl, rds |-> rds]
ZApex == (<<"@", "SOA">> :> R(300, {<<0, 1>>})) @@ (<<"@", "NS">> :> R(300, {<<1>>}))
ZA    == ZApex @@ (<<"a", "A">> :> R(600, {<<1>>}))
ZC    == ZApex @@ (<<"a", "CNAME">> :> R(300, {<<1>>})) @@ (<<"a", "NSEC">> :> R(300, {<<1>>}))
ZW    == (<<"@", "SOA">> :> R(300, {<<65535, 65535>>})) @@ (<<"@", "NS">> :> R(300, {<<1>>}))
           @@ (<<"b.a", "A">> :> R(300, {<<1>>, <<2>>})) @@ (<<"b.a", "RRSIG/A">> :> R(300, {<<1>>}))
MCInitZones == {ZApex, ZA, ZC, ZW, <<>>}
MCSerials == {<<0, 1>>, <<32768, 0>>}
MCSerialArgs == {[neg |-> FALSE, value |-> <<0, 1>>, relative |-> TRUE],
                 [neg |-> FALSE, value |-> <<32767, 65535>>, relative |-> TRUE],
                 [neg |-> FALSE, value |-> <<32768, 0>>, relative |-> TRUE],
                 [neg |-> FALSE, value |-> <<0, 0>>, relative |-> FALSE],
                 [neg |-> TRUE, value |-> <<0, 1>>, relative |-> TRUE]}
=============================================================================
