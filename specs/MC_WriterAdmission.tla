------------------------- MODULE MC_WriterAdmission -------------------------
(* Bounded instances of WriterAdmission for exhaustive model checking. *)
EXTENDS WriterAdmission

CONSTANTS NTxn,      \* transactions per writer
          NReads,    \* read transactions per reader
          MCHows,    \* how a transaction may end
          MCRModeSet \* how readers open their later transactions

SeqsOf(S, n) == [1..n -> S]
MCPlans == [Writers -> SeqsOf(MCHows, NTxn)]
MCRPlans == [Readers -> {NReads}]
MCRModes == [Readers -> MCRModeSet]
MCPPlans == [Policers -> {<<2, 1>>, <<0, 1>>}]   \* with Policers = {} this is the single empty function
\* writers are interchangeable: one plan per multiset of endings (first transaction sorted)
Rank(h) == CASE h = "commit" -> 1 [] h = "rollback" -> 2 [] OTHER -> 3
MCPlansSym == {p \in MCPlans : \A i, j \in Writers : i < j => Rank(p[i][1]) <= Rank(p[j][1])}
\* a smaller plan space for the liveness run: every writer's transactions end the same way
\* within one behaviour (all commit, or all roll back - the wake-up on rollback is the
\* interesting liveness case)
MCPlansCommit == {[i \in Writers |-> [j \in 1..NTxn |-> "commit"]]}
MCPlansLive == {[i \in Writers |-> [j \in 1..NTxn |-> h]] : h \in {"commit", "rollback"}}
=============================================================================
