------------------------- MODULE MC_WriterAdmission -------------------------
(* Bounded instances of WriterAdmission for exhaustive model checking. *)
EXTENDS WriterAdmission

CONSTANTS NTxn,      \* transactions per writer
          NReads,    \* read transactions per reader
          MCHows     \* how a transaction may end

SeqsOf(S, n) == [1..n -> S]
MCPlans == [Writers -> SeqsOf(MCHows, NTxn)]
MCRPlans == [Readers -> {NReads}]
\* a smaller plan space for the liveness run: the first writer varies, the others commit
=============================================================================
