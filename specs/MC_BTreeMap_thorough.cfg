SPECIFICATION Spec
CONSTANTS
  Handles = {1, 2}
  Cursors = {1}
  Keys = {1, 2, 3}
  Vals = {1, 2}
  Ts = {2, 3}
INVARIANT TypeOK
INVARIANT CursorLaws
INVARIANT WalkLaw
PROPERTY FrozenNeverChanges
PROPERTY OneTreePerCall
PROPERTY RefusedIsNoop
PROPERTY BornEmptyOrCopy
PROPERTY ReadsArePure
CHECK_DEADLOCK FALSE
