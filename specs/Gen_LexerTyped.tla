--------------------------- MODULE Gen_LexerTyped ---------------------------
(* Declared universe for the typed helpers: input texts x call scripts, emitted one per
   line.  A job is [s |-> text, calls |-> <<[h, base, arg], ...>>]; arg = -1 stands for None. *)
EXTENDS LexerTyped, TLC, Json

CONSTANT Part
VARIABLE x

Dg(ds) == [i \in 1..Len(ds) |-> IF ds[i] < 10 THEN 48 + ds[i] ELSE 87 + ds[i]]
Call(h, base, arg) == [h |-> h, base |-> base, arg |-> arg]
Nines(n) == Rep(n, 9)

DecTexts == {Dg(t) : t \in {<<0>>, <<0, 0, 7>>, <<2, 5, 5>>, <<2, 5, 6>>, <<0, 2, 5, 5>>, <<6, 5, 5, 3, 5>>, <<6, 5, 5, 3, 6>>,
    <<4, 2, 9, 4, 9, 6, 7, 2, 9, 5>>, <<4, 2, 9, 4, 9, 6, 7, 2, 9, 6>>, <<4, 2, 9, 4, 9, 6, 7, 3, 0, 5>>,
    <<2, 8, 1, 4, 7, 4, 9, 7, 6, 7, 1, 0, 6, 5, 5>>, <<2, 8, 1, 4, 7, 4, 9, 7, 6, 7, 1, 0, 6, 5, 6>>,
    <<0, 2, 8, 1, 4, 7, 4, 9, 7, 6, 7, 1, 0, 6, 5, 5>>, Nines(15), Nines(20), <<1, 9>>, <<8>>}}
OctTexts == {Dg(t) : t \in {<<1, 7>>, <<1>> \o Rep(5, 7), <<2, 0, 0, 0, 0, 0>>, <<3>> \o Rep(10, 7), <<4>> \o Rep(10, 0),
    Rep(16, 7), <<1>> \o Rep(16, 0), <<3, 7, 7>>, <<4, 0, 0>>}}
HexTexts == {Dg(t) : t \in {Rep(4, 15), <<1, 0, 0, 0, 0>>, Rep(8, 15), <<1>> \o Rep(8, 0), Rep(12, 15), <<1>> \o Rep(12, 0),
    <<15, 15>>, <<1, 0, 0>>, <<10>>, <<1, 10>>}} \cup {<<70, 70>>, <<70, 102, 70, 102>>, <<103>>, <<49, 103>>}
OddTexts == {<<45, 49>>, <<43, 49>>, <<45, 48>>, <<49, 95, 48>>, <<BS, 48, 52, 57, 53>>, <<BS, 49>>, <<49, BS, SP>>, <<1635>>,
             <<48, 120, 49, 48>>, <<48, 111, 55>>, <<DQ, 49, 53, DQ>>, <<DQ, DQ>>, <<46>>, <<49, 46, 48>>, <<49, 101, 50>>, <<233>>,
             <<BS, 51, 48, 48>>, <<BS, 48, 52, 57>>}
IntTexts == DecTexts \cup OctTexts \cup HexTexts \cup OddTexts
IntCalls == {Call("get_uint8", 10, -1)} \cup
            {Call(h, b, -1) : h \in {"get_int", "get_uint16", "get_uint32", "get_uint48"}, b \in {8, 10, 16}}
\* the number, then the rest of the line: "<text> z\n"
IntJobs == {[s |-> t \o <<SP, 122, NL>>, calls |-> <<c, Call("get_identifier", 10, -1), Call("get_eol", 10, -1)>>] : t \in IntTexts, c \in IntCalls}
           \cup {[s |-> t, calls |-> <<c>>] : t \in {<<>>, <<NL>>, <<SEMI, 49>>, <<LP, 49>>, <<RP>>}, c \in IntCalls}

StrTexts == {<<97, 98, 99>>, <<DQ, 97, 98, 99, DQ>>, <<DQ, DQ>>, <<97, BS, 48, 54, 53>>, <<DQ, 97, SP, 98, DQ>>, <<BS, 51, 48, 48>>,
             <<97, BS, 48, 54>>, <<97, BS, 48, 54, 122>>, <<233>>, <<BS, LP, 97>>, <<97, 98>>, <<DQ, 97, 98, DQ>>, <<97, 46, 98, 46>>,
             <<49, 104>>, <<51, 48>>, <<DQ, 51, 48, DQ>>, <<50, 87>>, <<BS, DQ>>, <<DQ, 97, BS, DQ, 98, DQ>>, <<97>>, <<DQ, 97, DQ>>,
             <<BS, 50, 53, 53>>, <<BS, 50, 53, 54>>, <<BS, 48, 48, 48>>, <<97, BS, BS>>, <<49, 48, 109>>, <<57, 57, 57, 119>>,
             <<46>>, <<64>>, <<97, 46, 46, 98>>, <<DQ, BS, 48, 54, 53, 98, 99, 100, DQ>>}
StrCalls == {Call("get_string", 10, a) : a \in {-1, 0, 1, 2, 3}} \cup
            {Call(h, 10, -1) : h \in {"get_identifier", "get_name", "get_ttl", "get_eol"}}
StrJobs == {[s |-> t \o <<SP, 122, NL>>, calls |-> <<c, Call("get_identifier", 10, -1), Call("get_eol", 10, -1)>>] : t \in StrTexts, c \in StrCalls}
           \cup {[s |-> t, calls |-> <<c>>] : t \in {<<>>, <<NL>>, <<SEMI, 49>>, <<LP, 97>>, <<DQ, 97>>, <<SP, SP>>, <<SP, NL, 97>>}, c \in StrCalls}

LineTexts == {<<97, SP, 98, SP, 99>>, <<97, SP, DQ, 98, DQ, SP, 99, NL, 100>>, <<>>, <<NL, 97>>, <<SP, SP>>,
              <<97, SP, LP, SP, 98, SP, NL, SP, 99, SP, RP, SP, 100, SP, NL, SP, 101>>, <<97, SP, SEMI, 120, NL, 98>>,
              <<97, BS, SP, 98, SP, 99>>, <<97, SP, BS, 48, 54, 53>>, <<97, SP, BS, 51>>, <<97, SP, BS, 51, 48, 48, SP, 98>>,
              <<LP, SP, 97>>, <<97, SP, DQ, 98>>, <<49, SP, 50, SP, 51, NL, 52>>, <<97, 98, TAB, 99, 100, CR, NL, 101>>,
              <<97, SP, 98, SP, 99, SP, 100, SP, 101, SP, 102>>, <<97, RP>>, <<DQ, 97, DQ>>, <<97, LP, 98, RP, 99>>}
LineCalls == {Call("get_remaining", 10, a) : a \in {-1, 0, 1, 2, 3, 5}} \cup {Call("concatenate_remaining_identifiers", 10, a) : a \in {0, 1}}
LineJobs == {[s |-> t, calls |-> <<c, Call("get_eol", 10, -1), Call("get_remaining", 10, -1), Call("get_eol", 10, -1)>>] : t \in LineTexts, c \in LineCalls}
            \cup {[s |-> t, calls |-> <<Call("get_identifier", 10, -1), c, c, Call("get_eol", 10, -1)>>] : t \in LineTexts, c \in LineCalls}

Jobs == CASE Part = "int" -> IntJobs [] Part = "str" -> StrJobs [] Part = "line" -> LineJobs
GInit == x \in Jobs
GNext == FALSE /\ x' = x
Emit == PrintT("BEH " \o ToJson(x))
=============================================================================
