-------------------------- MODULE Trace_SetAlgebra --------------------------
(* Trace validation for C07 part 1: every recorded call on a real set object must be the
   SetAlgebra step from the current model state; the recorded content of EVERY handle
   (ordered items compared by equality class, TTL, covered type, mutability) must equal
   the model's, and every recorded query result must be the set-theoretic function of
   the model state.  Which spelling of an item a set remembers is never compared. *)
EXTENDS SetAlgebra, VTrace

VARIABLES t, l
tvars == <<vars, t, l>>

U == Log[t].items
ItemAt(k) == IF k \in 1..Len(U) THEN U[k] ELSE <<"?", "?", "?", 0, 0>>
ItemsOf(s) == [k \in 1..Len(s) |-> Cls(ItemAt(s[k]))]
B(x) == IF x THEN 1 ELSE 0

TraceInit ==
    /\ RegInit
    /\ t \in 1..NTraces /\ l = 1
    /\ hs = Log[t].init
    /\ last = [kind |-> "init", h |-> 0]
    /\ reg = {}

e == Ev(t)[l]
Adv == l' = l + 1 /\ t' = t
N == Len(Log[t].init)

SameItems(x) == ItemsOf(e.st[x].items) = ClsSeq(hs'[x].items)
SameMeta(x) == /\ e.st[x].ttl = hs'[x].ttl
               /\ e.st[x].covers = hs'[x].covers
               /\ e.st[x].frozen = hs'[x].frozen

(* every query is a function of the (new) model state *)
Queries ==
    /\ Check(t, l, "EqIgnoresOrder",
             \A x, y \in 1..N : /\ e.q.eq[x][y] \in {B(b) : b \in EqAllowed(hs'[x], hs'[y])}
                                /\ e.q.ne[x][y] = 1 - e.q.eq[x][y])
    /\ Check(t, l, "SubsetSuperset",
             \A x, y \in 1..N : /\ e.q.sub[x][y] = B(QSubset(hs'[x], hs'[y]))
                                /\ e.q.sup[x][y] = B(QSuperset(hs'[x], hs'[y])))
    /\ Check(t, l, "Disjoint", \A x, y \in 1..N : e.q.dis[x][y] = B(QDisjoint(hs'[x], hs'[y])))
    /\ Check(t, l, "LenContains",
             \A x \in 1..N : /\ e.q.len[x] = QLen(hs'[x])
                             /\ \A k \in 1..Len(U) : e.q.has[x][k] = B(QContains(hs'[x], U[k])))
    /\ Check(t, l, "IndexFollowsOrder", \A x \in 1..N : ItemsOf(e.q.idx[x]) = ClsSeq(hs'[x].items))

(* the recorded state after a step that targeted handle tg *)
StateAfter(tg) ==
    IF last'.kind = "refused"
    THEN /\ Check(t, l, "RefusedItemsUnchanged", \A x \in 1..N : SameItems(x))
         /\ Check(t, l, "RefusedTtlUnchanged", \A x \in 1..N : SameMeta(x))
    ELSE /\ Check(t, l, "ResultItems", SameItems(tg))
         /\ Check(t, l, "ResultMeta", SameMeta(tg))
         /\ Check(t, l, "OperandsUnchanged", \A x \in 1..N : x # tg => (SameItems(x) /\ SameMeta(x)))

TInitEv ==
    /\ e.op = "init"
    /\ UNCHANGED vars
    /\ Check(t, l, "InitLoaded", \A x \in 1..N : SameItems(x) /\ SameMeta(x))
    /\ Queries /\ Adv

(* in-place calls *)
PopIndex(R) ==
    IF e.res = "ok" /\ \E k \in 1..Len(R.items) : Cls(R.items[k]) = Cls(ItemAt(e.ret))
    THEN CHOOSE k \in 1..Len(R.items) : Cls(R.items[k]) = Cls(ItemAt(e.ret))
    ELSE 0
TDo ==
    /\ e.op \in InPlaceOps /\ e.inplace
    /\ LET R == hs[e.h]
           a == IF e.op = "pop" THEN [e.a EXCEPT !.k = PopIndex(R)] ELSE e.a
           O == hs[a.o]
           nt == e.st[e.h].ttl
           rf == Refused(e.op, R, O, a)
           quiet == R.frozen /\ e.res = "ok"
       IN /\ Check(t, l, "PopReturnsMember", (e.op = "pop" /\ e.res = "ok") => a.k # 0)
          /\ Check(t, l, "Outcome", (e.res = "err") <=> (rf \/ (R.frozen /\ ~quiet)))
          /\ Check(t, l, "FrozenRefuses", quiet => [Result(e.op, R, O, a) EXCEPT !.ttl = nt] = R)
          /\ Check(t, l, "TtlIsMinimum", (rf \/ (R.frozen /\ ~quiet)) \/ TtlOk(e.op, R, O, a, nt))
          /\ Do(e.op, e.h, a, nt, quiet)
    /\ StateAfter(e.h) /\ Queries /\ Adv

(* copying calls *)
TMake ==
    /\ e.op \in CopyOps /\ ~e.inplace
    /\ LET R == hs[e.h]
           O == hs[e.a.o]
           nt == e.st[e.r].ttl
           fr == e.st[e.r].frozen
           rf == Refused(e.op, R, O, e.a)
       IN /\ Check(t, l, "Outcome", (e.res = "err") <=> rf)
          /\ Check(t, l, "CopyIsNew", rf \/ e.fresh = 1)
          /\ Check(t, l, "TtlIsMinimum", rf \/ TtlOk(e.op, R, O, e.a, nt))
          /\ Check(t, l, "CopyKeepsMutability", rf \/ (fr => R.frozen))
          /\ Make(e.op, e.r, e.h, e.a, nt, fr)
    /\ StateAfter(e.r) /\ Queries /\ Adv

TFreeze ==
    /\ e.op = "freeze"
    /\ Check(t, l, "Outcome", e.res = "ok")
    /\ Freeze(e.h)
    /\ StateAfter(e.h) /\ Queries /\ Adv

(* run-time registration of the (one) dynamic type of the trace; e.a.k = 1: as a singleton *)
TRegister ==
    /\ e.op = "register"
    /\ Check(t, l, "Outcome", e.res = "ok")
    /\ Register("DYN", e.a.k = 1)
    /\ Check(t, l, "OperandsUnchanged", \A x \in 1..N : SameItems(x) /\ SameMeta(x))
    /\ Queries /\ Adv

TraceNext ==
    /\ l <= Len(Ev(t))
    /\ TInitEv \/ TDo \/ TMake \/ TFreeze \/ TRegister

Accepted == Accepting(t, l)
=============================================================================
