------------------------------ MODULE SetAlgebraU ------------------------------
(* Bounded universes ("worlds") for SetAlgebra: item sets and initial handle states.
   Shared by MC_SetAlgebra and Gen_SetAlgebra.  Every world has 3 handles and 5 items:
   two classes with two spellings each and one plain item (or items of foreign kinds
   where the world is about refusal). *)
EXTENDS Integers, Sequences

AllSingletonTypes == {"SOA", "CNAME", "DNAME", "NSEC", "NXT"}
AllSigTypes == {"RRSIG", "SIG"}

It(rc, rt, cv, c, v) == <<rc, rt, cv, c, v>>
Hd(rc, rt, cv, items, ttl) ==
    [items |-> items, ttl |-> ttl, rdclass |-> rc, rdtype |-> rt, covers |-> cv, frozen |-> FALSE]
Fz(R) == [R EXCEPT !.frozen = TRUE]

(* five items of one kind *)
Uni(rc, rt, cv) == {It(rc, rt, cv, 1, 1), It(rc, rt, cv, 1, 2), It(rc, rt, cv, 2, 1), It(rc, rt, cv, 2, 2),
                    It(rc, rt, cv, 3, 1)}
(* initial states of three handles of one kind *)
UniInits(rc, rt, cv) ==
    LET E == Hd(rc, rt, cv, <<>>, 0)
        i(c, v) == It(rc, rt, cv, c, v)
    IN {<<E, E, E>>,
        <<Hd(rc, rt, cv, <<i(1, 1), i(2, 1)>>, 300), Hd(rc, rt, cv, <<i(2, 2), i(3, 1)>>, 600), E>>,
        <<Hd(rc, rt, cv, <<i(3, 1), i(1, 2), i(2, 1)>>, 600), Hd(rc, rt, cv, <<i(2, 2), i(1, 1)>>, 300),
          Hd(rc, rt, cv, <<i(1, 1)>>, 0)>>}
UniInitsFrozen(rc, rt, cv) ==
    LET i(c, v) == It(rc, rt, cv, c, v)
    IN {<<Fz(Hd(rc, rt, cv, <<i(1, 1), i(2, 1)>>, 300)), Hd(rc, rt, cv, <<i(2, 2), i(3, 1)>>, 600),
          Fz(Hd(rc, rt, cv, <<>>, 600))>>}
SingleInits(rc, rt, cv) ==
    LET E == Hd(rc, rt, cv, <<>>, 0)
        i(c, v) == It(rc, rt, cv, c, v)
    IN {<<E, E, E>>,
        <<Hd(rc, rt, cv, <<i(1, 1)>>, 300), Hd(rc, rt, cv, <<i(2, 1)>>, 600), E>>,
        <<Hd(rc, rt, cv, <<i(1, 1)>>, 600), Hd(rc, rt, cv, <<i(1, 2)>>, 300), Hd(rc, rt, cv, <<i(3, 1)>>, 0)>>}

(* one non-trivial initial state (for the exhaustive two-call scripts) *)
UniInit2(rc, rt, cv) ==
    LET i(c, v) == It(rc, rt, cv, c, v)
    IN {<<Hd(rc, rt, cv, <<i(1, 1), i(2, 1)>>, 300), Hd(rc, rt, cv, <<i(2, 2), i(3, 1)>>, 600), Hd(rc, rt, cv, <<>>, 0)>>}
SingleInit2(rc, rt, cv) ==
    LET i(c, v) == It(rc, rt, cv, c, v)
    IN {<<Hd(rc, rt, cv, <<i(1, 1)>>, 600), Hd(rc, rt, cv, <<i(1, 2)>>, 300), Hd(rc, rt, cv, <<i(3, 1)>>, 0)>>}
Init2Set == UniInit2("-", "-", "-")
Init2MX == UniInit2("IN", "MX", "NONE")
Init2CNAME == SingleInit2("IN", "CNAME", "NONE")

(* world "set": the untyped base class *)
ItemsSet == Uni("-", "-", "-")
InitsSet == UniInits("-", "-", "-")
(* worlds "mx", "ns": ordinary multi-record kinds whose embedded name is lower-cased *)
ItemsMX == Uni("IN", "MX", "NONE")
InitsMX == UniInits("IN", "MX", "NONE") \cup UniInitsFrozen("IN", "MX", "NONE")
ItemsNS == Uni("IN", "NS", "NONE")
InitsNS == UniInits("IN", "NS", "NONE")
(* world "generic": MX records of which some are held in their generic (RFC 3597) form:
   spelling 3 = spelling 1 as GenericRdata - same class, type and canonical encoding *)
ItemsGeneric == {It("IN", "MX", "NONE", 1, 1), It("IN", "MX", "NONE", 1, 3), It("IN", "MX", "NONE", 2, 1),
                 It("IN", "MX", "NONE", 2, 3), It("IN", "MX", "NONE", 3, 3)}
InitsGeneric ==
    LET i(c, v) == It("IN", "MX", "NONE", c, v)
        E == Hd("IN", "MX", "NONE", <<>>, 0)
    IN {<<E, E, E>>,
        <<Hd("IN", "MX", "NONE", <<i(1, 1), i(2, 3)>>, 300), Hd("IN", "MX", "NONE", <<i(2, 1), i(1, 3), i(3, 3)>>, 600), E>>,
        <<Hd("IN", "MX", "NONE", <<i(1, 3)>>, 600), Hd("IN", "MX", "NONE", <<i(1, 1)>>, 300),
          Hd("IN", "MX", "NONE", <<i(2, 3), i(1, 1)>>, 0)>>}
(* world "dyn": a type without built-in meaning ("DYN": an unassigned type code, its records
   are RFC 3597 generic records) that the script may register at run time, as a singleton
   type or not, before or after its first use *)
ItemsDyn == Uni("IN", "DYN", "NONE")
InitsDyn ==
    LET i(c, v) == It("IN", "DYN", "NONE", c, v)
        E == Hd("IN", "DYN", "NONE", <<>>, 0)
    IN {<<E, E, E>>,
        <<Hd("IN", "DYN", "NONE", <<i(1, 1)>>, 300), Hd("IN", "DYN", "NONE", <<i(2, 1)>>, 600), E>>,
        <<Hd("IN", "DYN", "NONE", <<i(1, 1), i(2, 1)>>, 300), Hd("IN", "DYN", "NONE", <<i(2, 2)>>, 600),
          Hd("IN", "DYN", "NONE", <<i(3, 1)>>, 0)>>}
InitsDyn2 ==
    LET i(c, v) == It("IN", "DYN", "NONE", c, v)
    IN {<<Hd("IN", "DYN", "NONE", <<>>, 0), Hd("IN", "DYN", "NONE", <<i(2, 1)>>, 600), Hd("IN", "DYN", "NONE", <<i(1, 1)>>, 300)>>}
(* worlds "cname", "soa": singleton kinds *)
ItemsCNAME == Uni("IN", "CNAME", "NONE")
InitsCNAME == SingleInits("IN", "CNAME", "NONE")
ItemsSOA == Uni("IN", "SOA", "NONE")
InitsSOA == SingleInits("IN", "SOA", "NONE")
(* world "mixed": handles of kinds A, A, MX; items of kinds A, MX and of class CH (same type, other class) *)
ItemsMixed == {It("IN", "A", "NONE", 1, 1), It("IN", "A", "NONE", 2, 1), It("IN", "MX", "NONE", 1, 1),
               It("IN", "MX", "NONE", 1, 2), It("CH", "MX", "NONE", 1, 1)}
InitsMixed ==
    {<<Hd("IN", "A", "NONE", <<>>, 0), Hd("IN", "A", "NONE", <<>>, 600), Hd("IN", "MX", "NONE", <<>>, 300)>>,
     <<Hd("IN", "A", "NONE", <<It("IN", "A", "NONE", 1, 1)>>, 300),
       Hd("IN", "A", "NONE", <<It("IN", "A", "NONE", 2, 1), It("IN", "A", "NONE", 1, 1)>>, 600),
       Hd("IN", "MX", "NONE", <<It("IN", "MX", "NONE", 1, 1)>>, 0)>>,
     <<Hd("IN", "A", "NONE", <<It("IN", "A", "NONE", 1, 1)>>, 600),
       Hd("CH", "MX", "NONE", <<It("CH", "MX", "NONE", 1, 1)>>, 300),
       Hd("IN", "MX", "NONE", <<>>, 0)>>}
(* world "rrsig": covered types; handle 1 covers nothing yet *)
ItemsRRSIG == {It("IN", "RRSIG", "A", 1, 1), It("IN", "RRSIG", "A", 1, 2), It("IN", "RRSIG", "A", 2, 1),
               It("IN", "RRSIG", "NS", 1, 1), It("IN", "A", "NONE", 1, 1)}
InitsRRSIG ==
    {<<Hd("IN", "RRSIG", "NONE", <<>>, 0), Hd("IN", "RRSIG", "A", <<It("IN", "RRSIG", "A", 1, 1)>>, 300),
       Hd("IN", "RRSIG", "NS", <<It("IN", "RRSIG", "NS", 1, 1)>>, 600)>>,
     <<Hd("IN", "RRSIG", "NONE", <<>>, 600),
       Hd("IN", "RRSIG", "A", <<It("IN", "RRSIG", "A", 2, 1), It("IN", "RRSIG", "A", 1, 2)>>, 600),
       Hd("IN", "RRSIG", "A", <<>>, 0)>>}


(* ALL well-formed values of one handle kind over an item set (for the check of the laws
   on every configuration, not only the reachable ones) *)
ClsOf(i) == <<i[1], i[2], i[3], i[4]>>
SeqsOver(S, n) == UNION {[1..k -> S] : k \in 0..n}
DupFree(s) == \A j, k \in 1..Len(s) : j # k => ClsOf(s[j]) # ClsOf(s[k])
HandleValues(rc, rt, cv, S, maxlen, ttls) ==
    LET mine == {i \in S : rc = "-" \/ (i[1] = rc /\ i[2] = rt /\ (cv = "NONE" \/ i[3] = cv))}
        seqs == {s \in SeqsOver(mine, maxlen) : DupFree(s)}
    IN {Hd(rc, rt, IF s # <<>> /\ rt \in AllSigTypes THEN s[1][3] ELSE cv, s, t) : s \in seqs, t \in ttls}
PairsOf(V) == {<<a, b>> : a \in V, b \in V}
AllSet == PairsOf(HandleValues("-", "-", "-", ItemsSet, 3, {0}))
AllMX == PairsOf(HandleValues("IN", "MX", "NONE", ItemsMX, 3, {300, 600}))
AllCNAME == PairsOf(HandleValues("IN", "CNAME", "NONE", ItemsCNAME, 1, {300, 600}))
AllMixed == PairsOf(HandleValues("IN", "A", "NONE", ItemsMixed, 3, {300, 600})
                      \cup HandleValues("IN", "MX", "NONE", ItemsMixed, 3, {300, 600})
                      \cup HandleValues("CH", "MX", "NONE", ItemsMixed, 3, {300}))
AllRRSIG == PairsOf(HandleValues("IN", "RRSIG", "NONE", {}, 0, {300, 600})
                      \cup HandleValues("IN", "RRSIG", "A", ItemsRRSIG, 3, {300, 600})
                      \cup HandleValues("IN", "RRSIG", "NS", ItemsRRSIG, 3, {300, 600}))
Init2Mixed ==
    {<<Hd("IN", "A", "NONE", <<It("IN", "A", "NONE", 1, 1)>>, 300),
       Hd("IN", "A", "NONE", <<It("IN", "A", "NONE", 2, 1), It("IN", "A", "NONE", 1, 1)>>, 600),
       Hd("IN", "MX", "NONE", <<It("IN", "MX", "NONE", 1, 1)>>, 0)>>}
Init2RRSIG ==
    {<<Hd("IN", "RRSIG", "NONE", <<>>, 0), Hd("IN", "RRSIG", "A", <<It("IN", "RRSIG", "A", 1, 1)>>, 300),
       Hd("IN", "RRSIG", "NS", <<It("IN", "RRSIG", "NS", 1, 1)>>, 600)>>}
AllConfigurations == AllSet \cup AllMX \cup AllCNAME \cup AllMixed \cup AllRRSIG
AllItems == ItemsSet \cup ItemsMX \cup ItemsCNAME \cup ItemsMixed \cup ItemsRRSIG
=============================================================================
