---------------------------- MODULE Gen_ZoneFile ----------------------------
(* Behaviour generator for C09.  Three kinds of behaviour, each printed as one JSON
   string "BEH {...}" - the environment's choices only, never an expected result:
     kind "write":  a zone and a style vector            (the driver writes, lexes, re-reads)
     kind "spell":  a zone and one of its spellings       (line sequence from Spell(z))
     kind "read":   an arbitrary line sequence over GLines (valid or not)
   Zones come from the constant GZones or are built record by record (GBuildMax > 0),
   which lets `-simulate` draw random zones of up to five records. *)
EXTENDS ZfUniverse, Json

CONSTANTS GKinds,      \* subset of {"write", "spell", "read"}
          GZones,      \* fixed zones
          GBuildMax,   \* > 0: additionally build zones of 1..GBuildMax records from AllRecs
          GStyles,     \* style vectors for kind "write"
          GOriginGiven,\* subset of BOOLEAN
          GMaxDev,     \* bound on non-canonical features of one spelled rr line
          GLines,      \* line universe for kind "read"
          GDepth,      \* number of lines of a "read" behaviour
          GProfiles,   \* set of spelling-form records; one is drawn per "spell" behaviour
          GEmpties     \* kind "write": where EMPTY rdatasets / nodes are planted in the zone object
                       \* ("none", "first", "mid", "last", "firstlast", "nodes"); they hold no record

VARIABLES hist, phase, built, prof
gvars == <<vars, hist, phase, built, prof>>

Dev(ln) == (IF ln.cls # "IN" THEN 1 ELSE 0) + (IF ln.ord = "ct" THEN 1 ELSE 0) + (IF ln.ttl[1] # "t" THEN 1 ELSE 0)
           + (IF ln.tg /\ ln.ty # "TYPE65280" THEN 1 ELSE 0) + (IF ln.gen /\ ln.ty # "TYPE65280" THEN 1 ELSE 0)
           + (IF ln.lay # "single" THEN 1 ELSE 0) + (IF ln.owner[1] # "abs" THEN 1 ELSE 0)
           + Cardinality({i \in 1..Len(ln.names) : ln.names[i][1] # "abs"})

EmSpell(z) == [mode |-> "spell", src |-> z, rel |-> TRUE, st |-> <<>>, pend |-> Recs(z),
               hdr |-> <<>>, cur |-> NoCur, extra |-> 0, last |-> <<>>]

Start(kind, z, og) ==
    /\ rs = RInit(og)
    /\ prof \in GProfiles
    /\ built = {}
    /\ IF kind = "spell"
       THEN /\ em = EmSpell(z) /\ phase = "spell"
            /\ hist = [kind |-> "spell", zone |-> Recs(z), og |-> og, lines |-> <<>>]
       ELSE /\ em = EmIdle /\ phase = "read"
            /\ hist = [kind |-> "read", zone |-> {}, og |-> og, lines |-> <<>>]

GInit ==
    \/ /\ "write" \in GKinds
       /\ \E z \in GZones, st \in GStyles, ep \in GEmpties :
            /\ rs = RInit(TRUE) /\ em = EmIdle /\ phase = "writejob" /\ built = {} /\ prof = PlainForms
            /\ hist = [kind |-> "write", zone |-> Recs(z), style |-> st, empties |-> ep]
    \/ /\ "spell" \in GKinds /\ \E z \in GZones, og \in GOriginGiven : Start("spell", z, og)
    \/ /\ "read" \in GKinds /\ \E og \in GOriginGiven : Start("read", {}, og)
    \/ \* build a zone of `target` records first; everything else about the behaviour is drawn here,
       \* so that the step that ends the build has a single successor
       /\ GBuildMax > 0
       /\ rs = RInit(TRUE) /\ em = EmIdle /\ phase = "build" /\ built = {} /\ prof \in GProfiles
       /\ \E target \in 1..GBuildMax :
            \/ "write" \in GKinds /\ \E st \in GStyles, ep \in GEmpties :
                                         hist = [kind |-> "buildw", target |-> target, style |-> st, empties |-> ep]
            \/ "spell" \in GKinds /\ \E og \in GOriginGiven : hist = [kind |-> "builds", target |-> target, og |-> og]

Consistent(S) == /\ \A x, y \in S : (x[1] = y[1] /\ x[2] = y[2]) => x[3] = y[3]
                 /\ WellFormedZone(ZoneOf(S))

GBuild ==
    /\ phase = "build"
    /\ IF Cardinality(built) < hist.target
       THEN /\ \E r \in AllRecs \ built : Consistent(built \cup {r}) /\ built' = built \cup {r}
            /\ UNCHANGED <<vars, hist, phase, prof>>
       ELSE /\ IF hist.kind = "builds"
               THEN /\ rs' = RInit(hist.og) /\ em' = EmSpell(ZoneOf(built)) /\ phase' = "spell"
                    /\ hist' = [kind |-> "spell", zone |-> built, og |-> hist.og, lines |-> <<>>]
               ELSE /\ phase' = "writejob" /\ hist' = [kind |-> "write", zone |-> built, style |-> hist.style, empties |-> hist.empties]
                    /\ UNCHANGED vars
            /\ UNCHANGED <<built, prof>>

GSpell ==
    /\ phase = "spell"
    /\ \/ \E c \in SpellRecCandsF(prof) : Dev(c[1]) <= GMaxDev /\ SEmitLine(c[1], c[2]) /\ hist' = [hist EXCEPT !.lines = Append(@, c[1])]
       \/ \E c \in SpellGenCands : SEmitLine(c[1], c[2]) /\ hist' = [hist EXCEPT !.lines = Append(@, c[1])]
       \/ \E ln \in SpellExtraLines : SEmitLine(ln, {}) /\ hist' = [hist EXCEPT !.lines = Append(@, ln)]
    /\ UNCHANGED <<phase, built, prof>>

GRead ==
    /\ phase = "read" /\ Len(hist.lines) < GDepth
    /\ \E ln \in GLines : \E c \in BOOLEAN :
         \* environment assumption: no relative $ORIGIN while no origin is known at all
         /\ ~(ln.k = "origin" /\ ln.name[1] # "abs" /\ ~rs.originKnown)
         /\ rs' = RStep(rs, ln, c)
         /\ hist' = [hist EXCEPT !.lines = Append(@, ln)]
    /\ UNCHANGED <<em, phase, built, prof>>

\* a behaviour ends with one deterministic step, and only that state is printed: the simulator
\* evaluates invariants on every successor it generates, not only on the one it follows
GFinish ==
    /\ \/ phase = "writejob"
       \/ (phase = "spell" /\ em.pend = {})
       \/ (phase = "read" /\ Len(hist.lines) = GDepth)
    /\ phase' = "done"
    /\ UNCHANGED <<vars, hist, built, prof>>

GNext == GBuild \/ GSpell \/ GRead \/ GFinish

Emit == IF phase = "done" THEN PrintT("BEH " \o ToJson(hist)) ELSE TRUE

(* line universe for kind "read" *)
ROwners == {<<"at">>, <<"rel", <<"a">>>>, <<"abs", <<"b", "a", "example">>>>, <<"blank">>, <<"abs", <<"x", "other">>>>}
RTtls == {<<"none">>, <<"t", 5>>, <<"t", 300>>}
RRd == {<<"A", <<>>, <<10, 0, 0, 1>>>>, <<"CNAME", << <<"rel", <<"t">>>> >>, <<>>>>,
        <<"NSEC", << <<"at">> >>, <<1, 15>>>>, <<"SOA", << <<"rel", <<"ns">>>>, <<"abs", <<"hm", "other">>>> >>, <<7, 3600, 600, 86400, 60>>>>,
        <<"MX", << <<"rel", <<"mail">>>> >>, <<10>>>>, <<"CNAME", << <<"abs", <<"t", "other">>>> >>, <<>>>>}
RLinesRR == {RRLine(o, t, rd[1], rd[2], rd[3]) : o \in ROwners, t \in RTtls, rd \in RRd}
RLinesDir == {[k |-> "origin", name |-> <<"abs", o>>] : o \in UOrigins}
             \cup {[k |-> "origin", name |-> <<"rel", <<"a">>>>], [k |-> "origin", name |-> <<"rel", <<"b">>>>]}
             \cup {[k |-> "ttl", v |-> 60], [k |-> "blank", form |-> "comment"], [k |-> "bad", what |-> "qempty"]}
             \cup {G1, G1b, G2} \cup GNew
             \* ignored (out-of-zone) records in the multi-line layouts
             \cup {[RRLine(<<"abs", <<"x", "other">>>>, t, rd[1], rd[2], rd[3]) EXCEPT !.lay = l] :
                     l \in {"paren", "parenc", "paren0"}, t \in {<<"none">>, <<"t", 5>>},
                     rd \in {<<"A", <<>>, <<10, 0, 0, 1>>>>, <<"MX", << <<"rel", <<"mail">>>> >>, <<10>>>>}}
RLinesFull == RLinesRR \cup RLinesDir
RLinesMid == {RRLine(o, t, rd[1], rd[2], rd[3]) :
                o \in {<<"at">>, <<"rel", <<"a">>>>, <<"blank">>, <<"abs", <<"x", "other">>>>}, t \in {<<"none">>, <<"t", 5>>},
                rd \in RRd \ {<<"CNAME", << <<"abs", <<"t", "other">>>> >>, <<>>>>}}
             \cup RLinesDir
\* a CNAME against every type family at one owner, both orders (depth 2) and with a third record
AbsRefs(ns) == [i \in 1..Len(ns) |-> <<"abs", ns[i]>>]
RLinesCname == {LET rd == CHOOSE rd \in RdOf(ty) : TRUE
                IN [RRLine(<<"rel", <<"a">>>>, <<"t", 5>>, ty, AbsRefs(rd[1]), rd[2])
                      EXCEPT !.gen = (ty = "TYPE65280"), !.tg = (ty = "TYPE65280")] : ty \in UTypes \ {"SOA"}}
RLinesNoRelOrigin == RLinesFull \ {[k |-> "origin", name |-> <<"rel", <<"a">>>>]}
\* a trimmed universe for depth-3 exhaustive runs
RLinesSmall == {RRLine(o, t, rd[1], rd[2], rd[3]) :
                  o \in {<<"rel", <<"a">>>>, <<"blank">>, <<"abs", <<"x", "other">>>>}, t \in {<<"none">>, <<"t", 5>>},
                  rd \in {<<"A", <<>>, <<10, 0, 0, 1>>>>, <<"CNAME", << <<"rel", <<"t">>>> >>, <<>>>>}}
               \cup {RRLine(<<"at">>, <<"none">>, "SOA", << <<"rel", <<"ns">>>>, <<"abs", <<"hm", "other">>>> >>, <<7, 3600, 600, 86400, 60>>)}
               \cup {[k |-> "ttl", v |-> 60], [k |-> "origin", name |-> <<"abs", <<"a", "example">>>>],
                     [k |-> "origin", name |-> <<"rel", <<"b">>>>]}     \* a relative $ORIGIN after another $ORIGIN

RLinesTiny == {RRLine(o, t, rd[1], rd[2], rd[3]) :
                  o \in {<<"rel", <<"a">>>>, <<"blank">>}, t \in {<<"none">>, <<"t", 5>>},
                  rd \in {<<"A", <<>>, <<10, 0, 0, 1>>>>, <<"CNAME", << <<"rel", <<"t">>>> >>, <<>>>>}}
               \cup {RRLine(<<"at">>, <<"none">>, "SOA", << <<"rel", <<"ns">>>>, <<"abs", <<"hm", "other">>>> >>, <<7, 3600, 600, 86400, 60>>),
                      RRLine(<<"abs", <<"x", "other">>>>, <<"t", 300>>, "A", <<>>, <<10, 0, 0, 1>>)}
               \cup {[k |-> "ttl", v |-> 60]}
PFull == {FullForms}
\* owner / TTL / name inheritance only
PInherit == {[cls |-> {"IN"}, ord |-> {"tc"}, ttl |-> {"t"}, tg |-> {FALSE}, gen |-> {FALSE}, lay |-> {"single"}, relorigin |-> TRUE]}
\* one spelling of class / order / type / layout per behaviour (keeps -simulate's branching small)
PSim == {[cls |-> {c}, ord |-> {o}, ttl |-> {"t", "u"}, tg |-> {g}, gen |-> {x}, lay |-> {y}, relorigin |-> TRUE] :
           c \in {"none", "IN", "CLASS1"}, o \in {"tc", "ct"}, g \in Bool, x \in Bool, y \in {"single", "paren", "parenc", "paren0"}}
GZCur == Curated
GZGen == GenZones
\* for sequences of $ORIGIN lines (absolute / relative arguments) around inherited names
GZOrigins == {ZoneOf({<< <<"b", "a">>, "MX", 5, MX1 >>}), ZoneOf({<< <<"*", "a">>, "A", 300, A1 >>, << <<>>, "NS", 300, NS1 >>})}
GZEmpties == {Z1, Z2, Z3, Z6, Z7, Z9}
GZW1Thorough == {Z2, Z3, Z6}
GZSinglesT == {ZoneOf({r}) : r \in {r \in AllRecs : r[3] = 300}}
GZNone == {}
GZSingles == {ZoneOf({r}) : r \in {r \in AllRecs : r[3] = 300 /\ r[1] \in {<<>>, <<"b", "a">>}}}
GZSinglesAll == Singles
GZSmall == {ZoneOf({<< <<"a">>, "MX", 5, MX1 >>}), ZoneOf({<< <<>>, "SOA", 300, SOA2 >>}),
            ZoneOf({<< <<"b", "a">>, "CNAME", 300, CN1 >>}),
            ZoneOf({<< <<"*", "a">>, "A", 300, A1 >>, << <<"a">>, "A", 5, A2 >>})}
=============================================================================
