-------------------------- MODULE Trace_Resolution --------------------------
(* Trace validation for C16.  One trace = everything one resolver object did under one
   environment script: begin / query / sleep / end / advance events recorded by
   drivers/c16_resolver.py from dns.resolver.Resolver.resolve or
   dns.asyncresolver.Resolver.resolve.  The specification's internal steps (next
   candidate, cache lookup, choice of server, re-arm, budget) are taken silently; the
   only freedom used is the one the specification grants: which not-yet-asked server of
   the round comes next (read from the query event) and how long a back-off sleep is
   (read from the sleep event, bounded).  Every query and every ending must then be
   exactly what the specification allows from the current state.
   The synchronous trace carries the asynchronous resolver's events for the same script
   (`peer`); they have to be identical. *)
EXTENDS Resolution, VTrace

VARIABLES t, l
tvars == <<vars, t, l>>

TrOutcomes(c, q) == {}
TrAdvances(a, b) == {}
TrBackoff == <<2, 3, 6, 13, 26, 32>>

StripOut(r) == [k \in DOMAIN r \ {"out"} |-> r[k]]
SameAsPeer(tr) == /\ Len(tr.ev) = Len(tr.peer)
                  /\ \A i \in 1..Len(tr.ev) : StripOut(tr.ev[i]) = tr.peer[i]

TraceInit ==
    /\ RegInit
    /\ t \in 1..NTraces /\ l = 1
    /\ cfg = Log[t].cfg /\ now = Log[t].cfg.t0
    /\ InitRest
    /\ (HasKey(Log[t], "peer") => Check(t, 1, "SyncAsyncIdentical", SameAsPeer(Log[t])))

HasEv == l <= Len(Ev(t))
e == Ev(t)[l]
Stay == l' = l /\ t' = t
Adv == l' = l + 1 /\ t' = t
IsOp(op) == HasEv /\ e.op = op

(* ---- silent steps of the specification ---- *)
TRequest == phase = "request" /\ NextRequest /\ Stay

TServer ==
    /\ phase = "server"
    /\ (IsOp("query") /\ ~retryTcp) => Check(t, l, "BrokenNeverAskedAgain", e.srv \in usable)
    /\ \/ RetryTcp /\ Stay
       \/ GiveUp /\ Stay
       \/ Rearm /\ Stay
       \/ /\ ~retryTcp /\ cur # {} /\ IsOp("query")
          /\ Check(t, l, "RoundOrder", e.srv \in cur)
          /\ Pick(e.srv) /\ Stay
       \/ /\ ~retryTcp /\ cur # {} /\ IsOp("end")     \* ending: only the lifetime can be the reason, any server will do
          /\ Pick(CHOOSE s \in cur : TRUE) /\ Stay

(* a clock set back by more than a second permits both continuing and giving up: follow the trace *)
TTimeout ==
    /\ phase = "timeout"
    /\ IF IsOp("end") /\ (Elapsed >= life \/ now - start < -TicksPerSec) THEN Expire
       ELSE IF Elapsed >= life THEN Expire
       ELSE Budget
    /\ Stay

(* ---- events ---- *)
TBegin ==
    /\ phase \in {"idle", "rest"} /\ IsOp("begin") /\ e.api # "name2"
    /\ Check(t, l, "Clock", e.now = now)
    /\ Begin(e.qname, e.search, e.life, e.qtype, e.qclass) /\ Adv

(* the second lookup of resolve_name(): for the candidate the first lookup settled on *)
TBeginFollow ==
    /\ phase = "rest" /\ IsOp("begin") /\ e.api = "name2"
    /\ Check(t, l, "Clock", e.now = now)
    /\ Check(t, l, "NameLookupSameCandidate", result[1] = "answer" /\ e.qname = result[2] /\ e.qtype = "A" /\ e.qclass = qclass)
    /\ Check(t, l, "TimeoutPositive", e.life >= 1)
    \* within the lifetime of the whole address lookup (`start` still is the start of its first lookup)
    /\ Check(t, l, "NameLookupLifetime", e.life <= e.nlife - (IF now < start THEN 0 ELSE now - start))
    /\ BeginFollowUp(e.life) /\ Adv
(* resolve_name() returned / raised: what it makes of the two answers is not part of this property *)
TNameEnd == phase = "rest" /\ IsOp("nameend") /\ UNCHANGED vars /\ Adv

TAdvance == phase = "rest" /\ IsOp("advance") /\ Advance(e.d) /\ Adv

TSleep ==
    /\ phase = "sleep" /\ IsOp("sleep")
    /\ Check(t, l, "Clock", e.now = now)
    /\ Check(t, l, "BackoffBounded", e.d >= 1 /\ e.d <= MaxSleep)
    /\ Sleep(e.d) /\ Adv
TNoSleep == phase = "sleep" /\ HasEv /\ e.op # "sleep" /\ Fail(t, l, "RearmBackoff")
(* a sleep where the specification has none: the round is not exhausted, or the resolution is over *)
TOddSleep ==
    /\ IsOp("sleep")
    /\ \/ phase \in {"query", "idle", "rest"}
       \/ (phase = "server" /\ ~retryTcp /\ cur # {})
       \/ phase = "done"
    /\ Fail(t, l, IF phase = "done" /\ result = <<"exc", "NoNameservers">> THEN "BrokenNeverAskedAgain"
                  ELSE IF phase = "done" THEN "ResultClass" ELSE "UnexpectedSleep")

TQuery ==
    /\ phase = "query" /\ IsOp("query")
    /\ Check(t, l, "Clock", e.now = now)
    /\ Check(t, l, IF last = "retrytcp" THEN "TruncatedRetry" ELSE "ServerChoice", e.srv = server)
    /\ Check(t, l, IF last = "retrytcp" THEN "TruncatedRetry" ELSE "TcpFlag", e.tcp = tcpAttempt)
    /\ Check(t, l, "CandidateOrder", e.qn = qn)
    /\ Check(t, l, "QuestionTypeClass", e.qtype = qtype /\ e.qclass = qclass)
    /\ Check(t, l, "TimeoutPositive", e.tmo >= 1)
    /\ Check(t, l, "TimeoutWithinLifetime", e.tmo <= life - Elapsed)
    /\ Check(t, l, "TimeoutWithinTimeout", e.tmo <= cfg.tmo)
    /\ Query(e.out, e.adv) /\ Adv
(* a query although the specification has ended the resolution *)
TLateQuery ==
    /\ phase = "done" /\ IsOp("query")
    /\ Fail(t, l, IF result = <<"exc", "Timeout">> THEN "NoQueryAfterExpiry"
                  ELSE IF result = <<"exc", "NoNameservers">> THEN "BrokenNeverAskedAgain"
                  ELSE IF result = <<"exc", "NXDOMAIN">> THEN "CandidateOrder" ELSE "ResultClass")
TEarlyEnd == /\ phase \in {"query", "sleep"} /\ IsOp("end")
             /\ Fail(t, l, IF phase = "query" /\ last = "retrytcp" THEN "TruncatedRetry" ELSE "ResultClass")
(* the code asked for more than the script holds, i.e. went on after the specification had ended *)
TExhausted == IsOp("exhausted") /\ Fail(t, l, IF phase = "done" /\ result = <<"exc", "Timeout">> THEN "NoQueryAfterExpiry"
                                              ELSE "Termination")

FreshCache == {k \in DOMAIN cache : ~Expired(cache[k])}
TEnd ==
    /\ phase = "done" /\ IsOp("end")
    /\ Check(t, l, "Clock", e.now = now)
    /\ Check(t, l, "ResultClass", e.res = (IF result[1] = "answer" THEN "answer" ELSE result[2]))
    /\ result[1] = "answer" =>
          /\ Check(t, l, "AnswerQname", e.ans[2] = result[2])
          /\ Check(t, l, "AnswerTypeClass", e.ans[4] = qtype /\ e.ans[5] = qclass)
          /\ Check(t, l, "CanonicalName", e.ans[3].cname = result[3].cname)
          /\ Check(t, l, "AnswerRRset", e.ans[3].rr = result[3].rr)
          /\ Check(t, l, "MinTTL", e.ans[3].ttl = result[3].ttl)
          /\ Check(t, l, "Expiration", e.ans[3].created = result[3].created)
    /\ result = <<"exc", "NXDOMAIN">> => Check(t, l, "CandidateOrder", e.nxq = allCands)
    /\ Check(t, l, "CacheKeys", {<<c[1], c[2], c[3]>> : c \in ToSetOf(e.cache)} = FreshCache)
    /\ Check(t, l, "CacheEntries", \A c \in ToSetOf(e.cache) : <<c[1], c[2], c[3]>> \in FreshCache =>
                                        /\ c[4].ttl = cache[<<c[1], c[2], c[3]>>].ttl
                                        /\ c[4] = cache[<<c[1], c[2], c[3]>>])
    /\ Finish /\ Adv

TraceNext ==
    \/ TRequest \/ TServer \/ TTimeout
    \/ TBegin \/ TBeginFollow \/ TNameEnd \/ TAdvance \/ TSleep \/ TNoSleep \/ TOddSleep \/ TQuery \/ TLateQuery \/ TEarlyEnd \/ TExhausted \/ TEnd

Accepted == Accepting(t, l)
=============================================================================
