INIT TraceInit
NEXT TraceNext
CONSTANTS
  Contents = {}
  Rids = {}
  MaxVersionArgs = {}
  CustomPolicies = {}
  IdArgs = {}
  SerialArgs = {}
CONSTRAINT Accepted
POSTCONDITION Post
CHECK_DEADLOCK FALSE
