--------------------------- MODULE Gen_StreamFraming ---------------------------
(* StreamFraming plus a history variable.  A behaviour is a stream script: the case and the
   socket's events (accept n / chunk n / eof / block / silence).  Every octet count is the
   environment's choice; "full" pieces are free, a short piece costs one of MaxCuts cuts and
   may end only at a position in CutSet.  No verdicts are emitted. *)
EXTENDS StreamFraming, Json

CONSTANTS MaxCuts,
          DenseUpTo    \* cuts may end at any position <= DenseUpTo, else only at SparsePoints
VARIABLES hist, cuts
gvars == <<vars, hist, cuts>>

\* for long frames: around the prefix, in the middle, around the end
SparsePoints(len) == {1, 2, 3, 4, len \div 2, len - 2, len - 1}
CutOK(p, len) == p <= DenseUpTo \/ p \in SparsePoints(len)

GInit == Init /\ hist = <<>> /\ cuts = 0

GAccept == \E n \in 1..(FrameQ - Len(sent)) :
    /\ phase = "send"
    /\ LET short == n < FrameQ - Len(sent) IN
       /\ short => (cuts < MaxCuts /\ CutOK(Len(sent) + n, FrameQ))
       /\ cuts' = IF short THEN cuts + 1 ELSE cuts
    /\ Take(n) /\ hist' = Append(hist, [op |-> "accept", n |-> n])

GChunk == \E n \in 1..Min(need - got, StreamLen - pos) :
    /\ phase \in {"len", "body"}
    /\ LET short == n < need - got IN
       /\ short => (cuts < MaxCuts /\ CutOK(pos + n, 2 + cfg.L))
       /\ cuts' = IF short THEN cuts + 1 ELSE cuts
    /\ Chunk(n) /\ hist' = Append(hist, [op |-> "chunk", n |-> n])

GEof == Eof /\ hist' = Append(hist, [op |-> "eof"]) /\ UNCHANGED cuts
GBlock == Block /\ hist' = Append(hist, [op |-> "block"]) /\ UNCHANGED cuts
GSilence == Silence /\ hist' = Append(hist, [op |-> "silence"]) /\ UNCHANGED cuts
GConnected == Connected /\ hist' = Append(hist, [op |-> "connected"]) /\ UNCHANGED cuts
GNext == GAccept \/ GChunk \/ GEof \/ GBlock \/ GSilence \/ GConnected

Emit == (~Active) => PrintT("BEH " \o ToJson([cfg |-> cfg, ev |-> hist]))

-----------------------------------------------------------------------------
(* Cases.  L is the length of the driver's concretisation of msg (the driver refuses to run
   if it differs); qlen = 29 is the query's wire length, 261 a raw payload. *)
R(wf) == [GoodReply EXCEPT !.wf = wf]
Case(a, q, m, len, pad, v, x, it, d) ==
    [api |-> a, qlen |-> q, msg |-> m, L |-> len, pad |-> pad, v |-> v, extra |-> x, it |-> it, deadline |-> d, tz |-> "-", qop |-> "QUERY", conn |-> "given"]

\* receive side, the good 45-octet reply: every chunking within the cut budget
GRecvGood == {Case("recv", 29, GoodReply, 45, 0, 0, x, FALSE, 9) : x \in {0, 4}}
GRecvGoodQ == {Case("recv", 29, GoodReply, 45, 0, 0, 4, FALSE, 9)}
\* receive side, 261 octets (length octets 0x01 0x05)
GRecvLong == {Case("recv", 29, GoodReply, 261, 200, 0, 4, FALSE, 9)}
\* every kind of message body, for receive_tcp and tcp
GKinds == {<<GoodReply, 45, 0>>, <<[GoodReply EXCEPT !.tc = TRUE], 45, 0>>,
           <<[GoodReply EXCEPT !.idm = FALSE], 45, 0>>, <<[GoodReply EXCEPT !.qr = FALSE], 45, 0>>,
           <<[GoodReply EXCEPT !.opm = FALSE], 45, 0>>, <<[GoodReply EXCEPT !.qm = "different"], 45, 0>>,
           <<[GoodReply EXCEPT !.qm = "caseVariant"], 45, 0>>, <<[GoodReply EXCEPT !.qm = "emptyErr"], 39, 0>>,
           <<[GoodReply EXCEPT !.qm = "emptyOther"], 39, 0>>,
           <<R("badRdata"), 44, 0>>, <<R("trailing"), 46, 0>>, <<R("shortHeader"), 0, 0>>,
           <<R("shortHeader"), 5, 1>>, <<R("badQuestion"), 16, 0>>}
GBodies == {Case(a, 29, k[1], k[2], 0, k[3], 0, it, 9) : a \in {"recv", "tcp"}, k \in GKinds, it \in BOOLEAN}
\* send side
GSend == {Case("send", q, GoodReply, 45, 0, v, 0, FALSE, 9) : q \in {29}, v \in {0, 1}}
         \cup {Case("send", 261, GoodReply, 45, 0, 1, 0, FALSE, 9)}
\* whole exchange, and the clock: no deadline / short deadlines
GTcp == {Case("tcp", 29, GoodReply, 45, 0, 0, 0, FALSE, d) : d \in {0, 3, 5}}
GClock0 == {Case(a, 29, GoodReply, 45, 0, 0, 0, FALSE, d) : a \in {"send", "recv", "tcp"}, d \in {0, 1, 3}}
\* ... and the zero timeouts (0, 0.0, tiny) for send_tcp, receive_tcp and tcp
GClock == GClock0 \cup ZeroTimeouts(GClock0)
\* the call makes its own connection (tcp, tls): set-up time counts against the deadline
\* (v: for the synchronous tls() the set-up time is spent in the TCP connect (odd) or in the handshake (even))
GOwn0 == {[c EXCEPT !.conn = "own", !.api = a, !.deadline = d, !.v = vv] :
            c \in {Case("tcp", 29, GoodReply, 45, 0, 0, 0, FALSE, 0)}, a \in {"tcp", "tls"}, d \in {0, 3, 5, 7},
            vv \in {0, 1}}
GOwn == GOwn0 \cup ZeroTimeouts(GOwn0)
\* other kinds of message sent: opcode must match for each; for UPDATE the zone section may be left out
GOpKinds == {GoodReply, [GoodReply EXCEPT !.opm = FALSE], [GoodReply EXCEPT !.idm = FALSE], [GoodReply EXCEPT !.qr = FALSE],
             [GoodReply EXCEPT !.qm = "caseVariant"]}
GOps == {[Case(a, 29, m, 45, 0, 0, 0, FALSE, 9) EXCEPT !.qop = q] :
           a \in {"recv", "tcp"}, m \in GOpKinds, q \in {"NOTIFY", "STATUS", "UPDATE"}}
=============================================================================
