------------------------------ MODULE ZoneFile ------------------------------
(* Master-file (zone-file) reader, writer and re-spelling, property C09.

   Written from RFC 1035 section 5.1 (master file format: owner / TTL / class
   inheritance, $ORIGIN, relative names), RFC 2308 section 4 ($TTL), RFC 3597 section 5
   (generic CLASSn / TYPEn / \# forms), BIND's $GENERATE, and the dnspython documentation
   of dns.zone.ZoneStyle / dns.rdataset.RdatasetStyle (what every style knob does) and of
   the SOA-minimum fallback for a missing TTL.

   NAMES.  An absolute name is the sequence of its labels, root omitted:
   b.a.example. = <<"b","a","example">>.  A name written in a file is a reference
       <<"at">>  (@) | <<"rel", labels>> (relative to the current origin) | <<"abs", labels>>
   and an owner field may also be <<"blank">> (inherit the previous owner).

   ABSTRACT LINES (records; field k is the kind)
     [k |-> "rr", owner, ttl, cls, ord, ty, tg, gen, names, data, lay]
         ttl   <<"none">> | <<"t", v>> (decimal) | <<"u", v>> (BIND units spelling)
         cls   "none" | "IN" | "CLASS1"           ord  "tc" (TTL then class) | "ct"
         ty    type mnemonic;  tg  = type spelled TYPEnnn;  gen = rdata spelled \# len hex
         names tuple of name references embedded in the rdata (in order of appearance)
         data  tuple of integers: every other field of the rdata
         lay   "single" | "paren" | "parenc" | "paren0"  (one line / parenthesised over several
               lines / the same with comments inside the parentheses / continuation text and
               the closing parenthesis at column 0)
     [k |-> "origin", name]            $ORIGIN
     [k |-> "ttl", v]                  $TTL
     [k |-> "blank", form]             empty line / white space / comment
     [k |-> "bad", what]               a malformed line (must be refused)
     [k |-> "gen", start, stop, step, lhs, ttl, cls, ty, rhs]      $GENERATE
         lhs = [items, abs]   owner text with any number of $ / ${off,width,base}, see GenName
         rhs = [kind |-> "name", items, abs]  or  [kind |-> "addr", pfx, off] (IPv4 pfx.${off})

   ZONE CONTENT.  Function <<owner relative to the zone origin (label sequence, <<>> = apex),
   type>> -> [ttl, rds], an rdata being <<names (absolute), data>>.  Whether the loaded
   zone keeps names relativized or absolute is a representation choice of the zone object
   and does not appear here: the projections normalise it. *)
EXTENDS Integers, Sequences, FiniteSets, TLC

CONSTANTS ZO,         \* the zone origin handed to the reader / owned by the written zone
          LabelRank   \* label -> Nat, canonical label order (RFC 4034 6.1), for `sorted`

VARIABLES rs,    \* reader state (record, see RInit)
          em     \* emitter state (writer / re-speller) for the round-trip theorems
vars == <<rs, em>>

---------------------------------------------------------------------------
(* Names *)
Min2(a, b) == IF a < b THEN a ELSE b
IsSuffix(s, n) == Len(s) <= Len(n) /\ SubSeq(n, Len(n) - Len(s) + 1, Len(n)) = s
RelPart(n, o) == SubSeq(n, 1, Len(n) - Len(o))         \* n at or below o
Resolve(ref, o) == CASE ref[1] = "at" -> o
                     [] ref[1] = "rel" -> ref[2] \o o
                     [] ref[1] = "abs" -> ref[2]
ResolveAll(refs, o) == [i \in 1..Len(refs) |-> Resolve(refs[i], o)]

(* canonical (DNSSEC) order of absolute names: compare labels from the right *)
NameLess(a, b) ==
    LET la == Len(a)  lb == Len(b)  m == Min2(la, lb)
        diff == {i \in 1..m : a[la - i + 1] # b[lb - i + 1]}
    IN IF diff = {} THEN la < lb
       ELSE LET i == CHOOSE i \in diff : \A j \in diff : i <= j
            IN LabelRank[a[la - i + 1]] < LabelRank[b[lb - i + 1]]

---------------------------------------------------------------------------
(* Record-type rules *)
Singleton(ty) == ty \in {"SOA", "CNAME", "DNAME", "NSEC", "NXT"}
(* RFC 4035 2.5: beside a CNAME only its RRSIG, the NSEC (and NSEC3) RRsets with their RRSIGs and a
   KEY RRset (RFC 3007) may be present; everything else - DNSKEY and RRSIG(DNSKEY) included - is
   "other data".  Types are strings; "RRSIG/X" is the RRSIG rdataset covering X. *)
CnameTypes == {"CNAME", "RRSIG/CNAME"}
NeutralTypes == {"NSEC", "NSEC3", "KEY", "RRSIG/NSEC", "RRSIG/NSEC3", "RRSIG/KEY"}
Kind(ty) == IF ty \in CnameTypes THEN "cname"
            ELSE IF ty \in NeutralTypes THEN "neutral" ELSE "regular"
SoaMinimum(data) == data[5]             \* SOA data = <<serial, refresh, retry, expire, minimum>>

NodeTypes(z, own) == {k[2] : k \in {k \in DOMAIN z : k[1] = own}}
NoCnameAndOther(z) ==
    \A k1, k2 \in DOMAIN z : k1[1] = k2[1] => ~(Kind(k1[2]) = "cname" /\ Kind(k2[2]) = "regular")
(* the zone made of a set of records <<owner, type, ttl, rd>> (one TTL per rdataset) *)
ZoneOfRecs(recs) ==
    [k \in {<<r[1], r[2]>> : r \in recs} |->
        [ttl |-> (CHOOSE r \in recs : <<r[1], r[2]>> = k)[3],
         rds |-> {r[4] : r \in {r \in recs : <<r[1], r[2]>> = k}}]]
Recs(z) == UNION {{<<k[1], k[2], z[k].ttl, rd>> : rd \in z[k].rds} : k \in DOMAIN z}

---------------------------------------------------------------------------
(* $GENERATE (BIND): each side is text in which every "$" - bare or with its own modifiers
   ${offset[,width[,base]]} - is replaced by the formatted iterator value.  A side is
       [items, abs]   items: sequence of <<"lit", s>> (s without dots) | <<"dot">> | <<"mod", offset, width, base>>
   The expansion is a sequence of text pieces; "." separates labels.  Bases: d, x (zero-filled to
   the width) and n / N (nibbles: hex digits lowest first, one label each, the field at least
   `width` characters wide counting the separators, never cut - BIND's nibbles()).  The name is
   absolute when the text ends in a dot (abs, or a nibble field that ends in its separator). *)
HexDigit == <<"0", "1", "2", "3", "4", "5", "6", "7", "8", "9", "a", "b", "c", "d", "e", "f">>
HexDigitU == <<"0", "1", "2", "3", "4", "5", "6", "7", "8", "9", "A", "B", "C", "D", "E", "F">>
RECURSIVE Hex(_)
Hex(v) == IF v < 16 THEN HexDigit[v + 1] ELSE Hex(v \div 16) \o HexDigit[(v % 16) + 1]
RECURSIVE NHexDigits(_)
NHexDigits(v) == IF v < 16 THEN 1 ELSE 1 + NHexDigits(v \div 16)
NDigits(v, b) == IF b = "x" THEN NHexDigits(v)
                 ELSE (IF v < 10 THEN 1 ELSE IF v < 100 THEN 2 ELSE IF v < 1000 THEN 3 ELSE 4)
Zeros(k) == CASE k <= 0 -> "" [] k = 1 -> "0" [] k = 2 -> "00" [] k = 3 -> "000" [] OTHER -> "0000"
Fmt(v, w, b) == Zeros(w - NDigits(v, b)) \o (IF b = "x" THEN Hex(v) ELSE ToString(v))
RECURSIVE Nibbles(_, _, _)
Nibbles(v, w, digits) ==     \* pieces: digit, ".", digit, ...
    LET d == <<digits[(v % 16) + 1]>>
        v2 == v \div 16
        w1 == IF w > 0 THEN w - 1 ELSE 0
    IN IF w1 > 0 \/ v2 # 0
       THEN LET w2 == IF w1 > 0 THEN w1 - 1 ELSE 0
            IN d \o <<".">> \o (IF v2 # 0 \/ w2 > 0 THEN Nibbles(v2, w2, digits) ELSE <<>>)
       ELSE d
ItemPieces(it, i) ==
    CASE it[1] = "lit" -> <<it[2]>>
      [] it[1] = "dot" -> <<".">>
      [] it[1] = "mod" -> IF it[4] = "n" THEN Nibbles(i + it[2], it[3], HexDigit)
                          ELSE IF it[4] = "N" THEN Nibbles(i + it[2], it[3], HexDigitU)
                          ELSE <<Fmt(i + it[2], it[3], it[4])>>
RECURSIVE SidePieces(_, _, _)
SidePieces(items, k, i) == IF k > Len(items) THEN <<>> ELSE ItemPieces(items[k], i) \o SidePieces(items, k + 1, i)
RECURSIVE LabelsOf(_, _, _, _)
LabelsOf(ps, k, cur, acc) ==      \* split the pieces at "." into labels
    IF k > Len(ps) THEN (IF cur = "" THEN acc ELSE Append(acc, cur))
    ELSE IF ps[k] = "." THEN LabelsOf(ps, k + 1, "", Append(acc, cur))
    ELSE LabelsOf(ps, k + 1, cur \o ps[k], acc)
GenRange(g) == {i \in g.start..g.stop : (i - g.start) % g.step = 0}
GenName(side, i, o) ==
    LET ps == SidePieces(side.items, 1, i)
        labs == LabelsOf(ps, 1, "", <<>>)
    IN IF side.abs \/ ps[Len(ps)] = "." THEN labs ELSE labs \o o
(* rhs: a name ([kind |-> "name", items, abs]) or an IPv4 address pfx.${offset} ([kind |-> "addr", pfx, off]) *)
GenRd(g, i, o) == IF g.rhs.kind = "addr" THEN <<(<<>>), g.rhs.pfx \o <<i + g.rhs.off>>>>
                  ELSE <<(<<GenName(g.rhs, i, o)>>), <<>>>>

---------------------------------------------------------------------------
(* READER.  rs fields:
     origin/originKnown   current origin ($ORIGIN)        zo/zoKnown   the zone origin
     lastName/lastNameKnown, ownerStated                  previous owner (RFC 1035 5.1)
     lastTTL/lastTTLKnown  last explicitly stated TTL      ttlAmbig (ghost, see below)
     defTTL/defTTLKnown    $TTL (RFC 2308), or the SOA minimum when no $TTL came first
     zone, status ("ok" | "err"), n (lines consumed)                                     *)
RInit(originGiven) ==
    [origin |-> ZO, originKnown |-> originGiven, zo |-> ZO, zoKnown |-> originGiven,
     lastName |-> ZO, lastNameKnown |-> originGiven, ownerStated |-> FALSE,
     lastTTL |-> 0, lastTTLKnown |-> FALSE, ttlAmbig |-> FALSE,
     defTTL |-> 0, defTTLKnown |-> FALSE,
     zone |-> <<>>, status |-> "ok", n |-> 0]

RErr(r) == [r EXCEPT !.status = "err"]

(* the TTL a record without an explicit TTL receives; -1 = none available.
   $TTL / SOA-derived default first (RFC 2308 4), else the last explicit TTL (RFC 1035),
   else - for the SOA itself - its own MINIMUM (documented fallback). *)
InheritedTTL(r, ty, data) ==
    IF r.defTTLKnown THEN r.defTTL
    ELSE IF r.lastTTLKnown THEN r.lastTTL
    ELSE IF ty = "SOA" THEN SoaMinimum(data) ELSE -1

(* store one record: rdataset TTL is the least TTL seen, singleton types keep the latest
   rdata, a CNAME meeting other data (either order) and an SOA below the apex are errors *)
AddRec(r, name, ty, ttl, rd) ==
    LET own == RelPart(name, r.zo)
        key == <<own, ty>>
        z == r.zone
        kinds == {Kind(t) : t \in NodeTypes(z, own)}
        new == IF key \in DOMAIN z
               THEN [ttl |-> Min2(z[key].ttl, ttl), rds |-> IF Singleton(ty) THEN {rd} ELSE z[key].rds \cup {rd}]
               ELSE [ttl |-> ttl, rds |-> {rd}]
    IN IF ty = "SOA" /\ own # <<>> THEN RErr(r)
       ELSE IF (Kind(ty) = "cname" /\ "regular" \in kinds) \/ (Kind(ty) = "regular" /\ "cname" \in kinds)
       THEN RErr(r)
       ELSE [r EXCEPT !.zone = [k \in DOMAIN z \cup {key} |-> IF k = key THEN new ELSE z[k]]]

IsExplicit(ttl) == ttl[1] \in {"t", "u"}

(* one RR line.  `c` resolves the two points the RFCs leave open:
   - whether a TTL stated on an ignored (out-of-zone) record counts as "last stated";
   - a blank owner before any owner was stated: error, or the origin.
   ttlAmbig remembers that lastTTL depends on such a choice, so that Spell never relies on it. *)
RStepRR(r, ln, c) ==
    IF ~r.originKnown THEN RErr(r)
    ELSE IF ln.owner[1] = "blank" /\ ~r.lastNameKnown THEN RErr(r)
    ELSE IF ln.owner[1] = "blank" /\ ~r.ownerStated /\ c THEN RErr(r)
    ELSE
    LET name == IF ln.owner[1] = "blank" THEN r.lastName ELSE Resolve(ln.owner, r.origin)
        r1 == [r EXCEPT !.lastName = name, !.lastNameKnown = TRUE,
                        !.ownerStated = (r.ownerStated \/ ln.owner[1] # "blank")]
    IN IF ~IsSuffix(r.zo, name)
       THEN \* ignored
            IF IsExplicit(ln.ttl) /\ ~(r.lastTTLKnown /\ r.lastTTL = ln.ttl[2])
            THEN IF c THEN [r1 EXCEPT !.lastTTL = ln.ttl[2], !.lastTTLKnown = TRUE, !.ttlAmbig = TRUE]
                 ELSE [r1 EXCEPT !.ttlAmbig = TRUE]
            ELSE r1
       ELSE
       LET ttl == IF IsExplicit(ln.ttl) THEN ln.ttl[2] ELSE InheritedTTL(r, ln.ty, ln.data)
           r2 == IF IsExplicit(ln.ttl)
                 THEN [r1 EXCEPT !.lastTTL = ln.ttl[2], !.lastTTLKnown = TRUE, !.ttlAmbig = FALSE]
                 ELSE r1
           r3 == IF ln.ty = "SOA" /\ ~r.defTTLKnown
                 THEN [r2 EXCEPT !.defTTL = SoaMinimum(ln.data), !.defTTLKnown = TRUE]
                 ELSE r2
       IN IF ttl = -1 THEN RErr(r3)
          ELSE AddRec(r3, name, ln.ty, ttl, <<ResolveAll(ln.names, r.origin), ln.data>>)

RStepOrigin(r, ln) ==
    IF ln.name[1] # "abs" /\ ~r.originKnown THEN RErr(r)
    ELSE LET o == Resolve(ln.name, r.origin)
         IN [r EXCEPT !.origin = o, !.originKnown = TRUE,
                      !.zo = IF r.zoKnown THEN r.zo ELSE o, !.zoKnown = TRUE]

(* a malformed line (e.g. an empty quoted string where the owner should be) is refused *)
RStepBad(r, ln) == RErr(r)

RStepTTL(r, ln) == [r EXCEPT !.defTTL = ln.v, !.defTTLKnown = TRUE]

(* $GENERATE: one record per index; a missing TTL needs $TTL or a previous TTL (the SOA
   fallback does not apply); names outside the zone are ignored. *)
RECURSIVE GenFold(_, _, _, _)
GenFold(r, g, idx, ttl) ==
    IF idx = {} \/ r.status = "err" THEN r
    ELSE LET i == CHOOSE i \in idx : \A j \in idx : i <= j
             name == GenName(g.lhs, i, r.origin)
             r1 == [r EXCEPT !.lastName = name, !.lastNameKnown = TRUE, !.ownerStated = TRUE]
         IN IF ~IsSuffix(r.zo, name) THEN r1
            ELSE GenFold(AddRec(r1, name, g.ty, ttl, GenRd(g, i, r.origin)), g, idx \ {i}, ttl)

RStepGen(r, g) ==
    IF ~r.originKnown THEN RErr(r)
    ELSE LET ttl == IF IsExplicit(g.ttl) THEN g.ttl[2]
                    ELSE IF r.defTTLKnown THEN r.defTTL ELSE IF r.lastTTLKnown THEN r.lastTTL ELSE -1
             r1 == IF IsExplicit(g.ttl)
                   THEN [r EXCEPT !.lastTTL = g.ttl[2], !.lastTTLKnown = TRUE, !.ttlAmbig = FALSE] ELSE r
         IN IF ttl = -1 THEN RErr(r1) ELSE GenFold(r1, g, GenRange(g), ttl)

RStep(r, ln, c) ==
    IF r.status = "err" THEN r
    ELSE LET r0 == [r EXCEPT !.n = r.n + 1]
         IN CASE ln.k = "rr" -> RStepRR(r0, ln, c)
              [] ln.k = "origin" -> RStepOrigin(r0, ln)
              [] ln.k = "ttl" -> RStepTTL(r0, ln)
              [] ln.k = "gen" -> RStepGen(r0, ln)
              [] ln.k = "blank" -> r0
              [] ln.k = "bad" -> RStepBad(r0, ln)

(* actions of the reader automaton, one per abstract line kind *)
ReadRR(ln) == ln.k = "rr" /\ \E c \in BOOLEAN : rs' = RStep(rs, ln, c)
ReadOrigin(ln) == ln.k = "origin" /\ rs' = RStep(rs, ln, FALSE)
ReadTTL(ln) == ln.k = "ttl" /\ rs' = RStep(rs, ln, FALSE)
ReadGenerate(ln) == ln.k = "gen" /\ rs' = RStep(rs, ln, FALSE)
ReadBlank(ln) == ln.k = "blank" /\ rs' = RStep(rs, ln, FALSE)
ReadBad(ln) == ln.k = "bad" /\ rs' = RStep(rs, ln, FALSE)
ReadLine(ln) == ReadRR(ln) \/ ReadOrigin(ln) \/ ReadTTL(ln) \/ ReadGenerate(ln) \/ ReadBlank(ln) \/ ReadBad(ln)

(* deterministic reading of a whole file (choices resolved as FALSE) *)
RECURSIVE ReadFrom(_, _, _)
ReadFrom(r, lines, i) == IF i > Len(lines) THEN r ELSE ReadFrom(RStep(r, lines[i], FALSE), lines, i + 1)
Read(lines, originGiven) == ReadFrom(RInit(originGiven), lines, 1)

(* properties of every reader state *)
ReaderNoCnameAndOther == NoCnameAndOther(rs.zone)
ReaderInZoneOnly == \A k \in DOMAIN rs.zone : TRUE   \* owners are stored relative to zo: nothing outside can be a key
ReaderWellFormed ==
    /\ \A k \in DOMAIN rs.zone : rs.zone[k].rds # {} /\ (Singleton(k[2]) => Cardinality(rs.zone[k].rds) = 1)
    /\ \A k \in DOMAIN rs.zone : k[2] = "SOA" => k[1] = <<>>

---------------------------------------------------------------------------
(* WRITER.  style fields (the lossless knobs):
     sorted, wantOrigin, org ("none" | "rel" | "derel": style.origin unset / set with
     relativize / set without), defTTL (<<"none">> | <<"t", v>>), dedup, omitClass, generic
   plus the layout-only knobs comments, just, chunk, nl, which by definition do not change
   the abstract lines (column widths, comment text and chunk boundaries are free).
   `rel` says whether the zone object keeps its names relativized.                        *)
NameOut(n, rel, st) ==
    LET inz == IsSuffix(ZO, n)
        relref == IF n = ZO THEN <<"at">> ELSE <<"rel", RelPart(n, ZO)>>
    IN IF st.org = "derel" THEN <<"abs", n>>
       ELSE IF st.org = "rel" THEN (IF inz THEN relref ELSE <<"abs", n>>)
       ELSE (IF rel /\ inz THEN relref ELSE <<"abs", n>>)

WLine(rec, rel, st, first) ==
    LET own == rec[1] \o ZO
        rd == rec[4]
    IN [k |-> "rr",
        owner |-> IF st.dedup /\ ~first THEN <<"blank">> ELSE NameOut(own, rel, st),
        ttl |-> IF st.defTTL = <<"t", rec[3]>> THEN <<"none">> ELSE <<"t", rec[3]>>,
        cls |-> IF st.omitClass THEN "none" ELSE IF st.generic THEN "CLASS1" ELSE "IN",
        ord |-> "tc",
        ty |-> rec[2], tg |-> (st.generic \/ rec[2] = "TYPE65280"), gen |-> (st.generic \/ rec[2] = "TYPE65280"),
        names |-> IF st.generic THEN [i \in 1..Len(rd[1]) |-> <<"abs", rd[1][i]>>]
                  ELSE [i \in 1..Len(rd[1]) |-> NameOut(rd[1][i], rel, st)],
        data |-> rd[2], lay |-> "single"]

Header(st) == (IF st.wantOrigin THEN <<[k |-> "origin", name |-> <<"abs", ZO>>]>> ELSE <<>>)
              \o (IF st.defTTL[1] = "t" THEN <<[k |-> "ttl", v |-> st.defTTL[2]]>> ELSE <<>>)

(* Is `lines` an output the writer may produce for zone z under style st?  The order of
   nodes (unless sorted), of rdatasets within a node and of rdatas within an rdataset is
   free; a node's lines are contiguous and so are an rdataset's. *)
IsWrite(lines, z, rel, st) ==
    LET hd == Header(st)
        h == Len(hd)
        n == Len(lines)
        B == (h + 1)..n
        isRR(i) == lines[i].k = "rr"
        src(i) == CHOOSE j \in B : j <= i /\ lines[j].owner[1] # "blank"
                                  /\ \A m \in B : (m <= i /\ lines[m].owner[1] # "blank") => m <= j
        own(i) == Resolve(lines[src(i)].owner, ZO)
        ttl(i) == IF lines[i].ttl[1] = "none" THEN st.defTTL[2] ELSE lines[i].ttl[2]
        den(i) == <<RelPart(own(i), ZO), lines[i].ty, ttl(i), <<ResolveAll(lines[i].names, ZO), lines[i].data>>>>
        first(i) == i = h + 1 \/ own(i - 1) # own(i)
    IN /\ n >= h /\ SubSeq(lines, 1, h) = hd
       /\ \A i \in B : isRR(i)
       /\ (B # {} => lines[h + 1].owner[1] # "blank")
       /\ \A i \in B : (lines[i].ttl[1] = "none" => st.defTTL[1] = "t") /\ IsSuffix(ZO, own(i))
       /\ {den(i) : i \in B} = Recs(z)
       /\ n - h = Cardinality(Recs(z))
       /\ \A i \in B : lines[i] = WLine(den(i), rel, st, first(i))
       /\ \A i, j, m \in B : (i < j /\ j < m /\ own(i) = own(m)) => own(j) = own(i)
       /\ \A i, j, m \in B : (i < j /\ j < m /\ own(i) = own(m) /\ lines[i].ty = lines[m].ty)
                               => lines[j].ty = lines[i].ty
       /\ st.sorted => \A i, j \in B : i < j => (own(i) = own(j) \/ NameLess(own(i), own(j)))

---------------------------------------------------------------------------
(* EMITTERS for the round-trip theorems.  em fields:
     mode "write" | "spell" | "idle";  src the zone being written;  rel;  st the style;
     pend records not yet emitted;  hdr header lines not yet emitted (writer);
     cur [any, own, ty]: owner and type of the last emitted record (any = FALSE: none yet);  extra count of
     non-record lines emitted (spell);  last = Summary of the line just emitted (<<>> initially)       *)
\* what the invariants / vacuity witnesses need to know about the line just emitted
Summary(ln) == <<ln.k, ln.k = "rr" /\ ln.ttl[1] = "none", ln.k = "rr" /\ ln.owner[1] = "blank">>
NoCur == [any |-> FALSE, own |-> <<>>, ty |-> ""]
EmIdle == [mode |-> "idle", src |-> <<>>, rel |-> TRUE, st |-> <<>>, pend |-> {}, hdr |-> <<>>,
           cur |-> NoCur, extra |-> 0, last |-> <<>>]

Feed(ln) == rs' = RStep(rs, ln, FALSE)

(* -- writer: header, then node by node, rdataset by rdataset *)
OwnersOf(recs) == {r[1] : r \in recs}
WMayStart(own) ==
    \/ ~em.st.sorted
    \/ \A o \in OwnersOf(em.pend) : o = own \/ NameLess(own \o ZO, o \o ZO)
WEmit ==
    /\ em.mode = "write" /\ (em.hdr # <<>> \/ em.pend # {})
    /\ IF em.hdr # <<>>
       THEN /\ Feed(Head(em.hdr))
            /\ em' = [em EXCEPT !.hdr = Tail(em.hdr), !.last = Summary(Head(em.hdr))]
       ELSE \E rec \in em.pend :
            LET sameNode == em.cur.any /\ em.cur.own = rec[1]
                nodeOpen == em.cur.any /\ \E r \in em.pend : r[1] = em.cur.own
                rdsOpen == nodeOpen /\ \E r \in em.pend : r[1] = em.cur.own /\ r[2] = em.cur.ty
                ln == WLine(rec, em.rel, em.st, ~sameNode)
            IN /\ (nodeOpen => sameNode)
               /\ (rdsOpen => rec[2] = em.cur.ty)
               /\ (~nodeOpen => WMayStart(rec[1]))
               /\ Feed(ln)
               /\ em' = [em EXCEPT !.pend = em.pend \ {rec}, !.cur = [any |-> TRUE, own |-> rec[1], ty |-> rec[2]], !.last = Summary(ln)]

(* -- re-speller: any order of records, any inheritable field omitted when the reader
      would supply the same value, directives / noise in between, $GENERATE for runs *)
CONSTANTS SpOrigins,     \* absolute names usable in $ORIGIN lines
          SpTTLs,        \* values usable in $TTL lines
          SpNoise,       \* out-of-zone rr lines (ignored records) that may be interleaved
          SpGenerates,   \* $GENERATE lines that may replace their expansion
          SpMaxExtra,    \* bound on non-record lines per spelling
          SpForms        \* [cls, ord, ttl, tg, gen, lay, relorigin]: sets of allowed spellings of each field

RefsFor(n, o, known) ==   \* every way of writing absolute name n under current origin o
    {<<"abs", n>>}
    \cup (IF known /\ n = o THEN {<<"at">>} ELSE {})
    \cup (IF known /\ IsSuffix(o, n) /\ n # o THEN {<<"rel", RelPart(n, o)>>} ELSE {})

RECURSIVE RefTuples(_, _, _)
RefTuples(ns, o, known) ==     \* all tuples of references for a tuple of names
    IF ns = <<>> THEN {<<>>}
    ELSE {<<h>> \o t : h \in RefsFor(Head(ns), o, known), t \in RefTuples(Tail(ns), o, known)}

SpellLinesF(rec, F) ==   \* all rr lines (field spellings from F) that denote record rec in the current reader state
    LET own == rec[1] \o rs.zo
        rd == rec[4]
        owners == RefsFor(own, rs.origin, rs.originKnown)
                  \cup (IF rs.lastNameKnown /\ rs.ownerStated /\ rs.lastName = own THEN {<<"blank">>} ELSE {})
        inh == InheritedTTL(rs, rec[2], rd[2])
        ttls == {<<f, rec[3]>> : f \in F.ttl}
                \cup (IF inh = rec[3] /\ (rs.defTTLKnown \/ ~rs.ttlAmbig) THEN {<<"none">>} ELSE {})
    IN {[k |-> "rr", owner |-> o, ttl |-> t, cls |-> c,
         ord |-> IF t[1] = "none" \/ c = "none" THEN "tc" ELSE od,
         ty |-> rec[2], tg |-> tg, gen |-> g,
         names |-> nm, data |-> rd[2], lay |-> ly] :
          o \in owners, t \in ttls, c \in F.cls, od \in F.ord,
          tg \in (IF rec[2] = "TYPE65280" THEN {TRUE} ELSE F.tg),
          g \in (IF rec[2] = "TYPE65280" THEN {TRUE} ELSE F.gen),
          nm \in RefTuples(rd[1], rs.origin, rs.originKnown), ly \in F.lay}

SpellLines(rec) == SpellLinesF(rec, SpForms)

(* candidates: <<line, records of em.pend it accounts for>> *)
SpellRecCandsF(F) ==
    IF ~rs.originKnown THEN {}
    ELSE UNION {{<<ln, {rec}>> : ln \in {l \in SpellLinesF(rec, F) :
                                           l.gen => \A i \in 1..Len(l.names) : l.names[i][1] = "abs"}} : rec \in em.pend}

SpellRecCands == SpellRecCandsF(SpForms)

GenExpansion(g) ==   \* the records a $GENERATE line adds in the current reader state
    LET ttl == IF IsExplicit(g.ttl) THEN g.ttl[2]
               ELSE IF rs.defTTLKnown THEN rs.defTTL ELSE IF rs.lastTTLKnown THEN rs.lastTTL ELSE -1
    IN {<<RelPart(GenName(g.lhs, i, rs.origin), rs.zo), g.ty, ttl, GenRd(g, i, rs.origin)>> : i \in GenRange(g)}

SpellGenCands ==
    IF ~rs.originKnown THEN {}
    ELSE {<<g, GenExpansion(g)>> : g \in {g \in SpGenerates :
            /\ \A i \in GenRange(g) : IsSuffix(rs.zo, GenName(g.lhs, i, rs.origin))
            /\ (~IsExplicit(g.ttl) => (rs.defTTLKnown \/ (rs.lastTTLKnown /\ ~rs.ttlAmbig)))
            /\ GenExpansion(g) \subseteq em.pend
            /\ Cardinality(GenExpansion(g)) = Cardinality(GenRange(g))}}

SpellExtraLines ==
    IF em.extra >= SpMaxExtra THEN {}
    ELSE {ln \in {[k |-> "origin", name |-> <<"abs", o>>] : o \in SpOrigins}
               \cup (IF SpForms.relorigin /\ rs.originKnown
                     THEN {[k |-> "origin", name |-> <<"rel", RelPart(o, rs.origin)>>] :
                             o \in {o \in SpOrigins : IsSuffix(rs.origin, o) /\ o # rs.origin}}
                     ELSE {})
               \cup {[k |-> "ttl", v |-> v] : v \in SpTTLs}
               \cup {[k |-> "blank", form |-> f] : f \in {"empty", "comment"}}
               \cup SpNoise :
          /\ (ln.k = "origin" /\ ~rs.zoKnown => Resolve(ln.name, rs.origin) = ZO)
          /\ (ln.k = "rr" =>      \* noise must be a record the reader ignores
                 /\ rs.originKnown
                 /\ (ln.owner[1] = "blank" => rs.lastNameKnown /\ rs.ownerStated)
                 /\ ~IsSuffix(rs.zo, IF ln.owner[1] = "blank" THEN rs.lastName ELSE Resolve(ln.owner, rs.origin)))}

SEmitLine(ln, consumed) ==
    /\ em.mode = "spell" /\ em.pend # {}
    /\ Feed(ln)
    /\ em' = [em EXCEPT !.pend = em.pend \ consumed, !.last = Summary(ln),
                        !.extra = IF consumed = {} THEN em.extra + 1 ELSE em.extra]

SEmit == /\ em.mode = "spell" /\ em.pend # {}
         /\ \/ \E c \in SpellRecCands : SEmitLine(c[1], c[2])
            \/ \E c \in SpellGenCands : SEmitLine(c[1], c[2])
            \/ \E ln \in SpellExtraLines : SEmitLine(ln, {})

EmitDone == em.mode \in {"write", "spell"} /\ em.pend = {} /\ em.hdr = <<>>

(* THE ROUND-TRIP THEOREMS (invariants of Init /\ [][WEmit \/ SEmit]):
   when the emitter has finished, the reader has accepted and holds exactly the source zone *)
RoundTrip == EmitDone => (rs.status = "ok" /\ rs.zone = em.src)
NeverErr == em.mode \in {"write", "spell"} => rs.status = "ok"
(* what has been read so far is always a part of the source zone (nothing foreign,
   in particular nothing from outside the origin, ever appears) *)
Partial == em.mode \in {"write", "spell"} =>
              \A k \in DOMAIN rs.zone : k \in DOMAIN em.src /\ rs.zone[k].rds \subseteq em.src[k].rds
                                         /\ rs.zone[k].ttl = em.src[k].ttl
CnameAlone == NoCnameAndOther(rs.zone)

WellFormedZone(z) ==
    /\ NoCnameAndOther(z)
    /\ \A k \in DOMAIN z : z[k].rds # {} /\ (Singleton(k[2]) => Cardinality(z[k].rds) = 1)
    /\ \A k \in DOMAIN z : k[2] = "SOA" => k[1] = <<>>
=============================================================================
