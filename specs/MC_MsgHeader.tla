---------------------------- MODULE MC_MsgHeader ----------------------------
EXTENDS MsgHeader

Free0 == [payload |-> 1232, reqpay |-> 0, pad |-> 0, ver |-> 0, ext |-> 0, z |-> 0, options |-> <<>>]
MCFrees == {Free0}
MCOptionSeqs == {<<>>, <<"PAD">>}
MCOptionNone == {<<>>}
MCRcodes == {-1, 0, 3, 16, 4095, 4096}
AllRcodes == -1..4096
\* 0x0100 RD, 0x0180 RD RA, 0x8180 QR RD RA, 0x0030 AD CD, 0x2800 opcode UPDATE, 0x784F opcode 15 + Z + rcode 15
MCFlags == {0, 256, 384, 33152, 48, 10240, 30799}
QDef == [id |-> 7, flags |-> 256, ue |-> -2, hasef |-> FALSE, ext |-> 0, z |-> 0, haspl |-> FALSE, payload |-> 0,
         hasrp |-> FALSE, reqpay |-> 0, hasops |-> FALSE, options |-> <<>>, pad |-> 0, dnssec |-> FALSE]
QArgs == {QDef,
          [QDef EXCEPT !.ue = 0],
          [QDef EXCEPT !.ue = -1, !.haspl = TRUE, !.payload = 4096, !.pad = 128],
          [QDef EXCEPT !.dnssec = TRUE],
          [QDef EXCEPT !.flags = 0, !.pad = 128],
          [QDef EXCEPT !.haspl = TRUE, !.payload = 512, !.hasops = TRUE, !.options = <<"NSID", "PAD">>, !.pad = 128],
          [QDef EXCEPT !.ue = 1, !.hasef = TRUE, !.ext = 18, !.z = 32769, !.id = 65535],
          [QDef EXCEPT !.flags = 48, !.ue = 0, !.dnssec = TRUE, !.hasrp = TRUE, !.reqpay = 512],
          [QDef EXCEPT !.flags = 10240, !.hasef = TRUE, !.z = 32768],
          [QDef EXCEPT !.flags = 33152, !.hasops = TRUE, !.options = <<"COOKIE">>, !.id = 0]}
\* every combination of the EDNS-related make_query arguments
QFull == {a \in [id : {7}, flags : {256}, ue : {-2, -1, 0, 1}, hasef : BOOLEAN, ext : {0, 18}, z : {0, 32769}, haspl : BOOLEAN,
                 payload : {0, 512}, hasrp : BOOLEAN, reqpay : {0, 4096}, hasops : BOOLEAN, options : {<<>>, <<"NSID">>},
                 pad : {0, 128}, dnssec : BOOLEAN] :
             /\ (a.hasef <=> (a.ext = 18 /\ a.z = 32769)) /\ (~a.hasef => a.ext = 0 /\ a.z = 0)
             /\ (a.haspl <=> a.payload = 512) /\ (a.hasrp <=> a.reqpay = 4096) /\ (a.hasops <=> a.options = <<"NSID">>)}
QFew == {QDef, [QDef EXCEPT !.ue = 1, !.hasef = TRUE, !.ext = 18, !.z = 32769, !.id = 65535],
         [QDef EXCEPT !.haspl = TRUE, !.payload = 512, !.hasops = TRUE, !.options = <<"NSID", "PAD">>, !.pad = 128]}
QSets == [few |-> QFew, small |-> {QDef, [QDef EXCEPT !.ue = 0]}, mid |-> QArgs, full |-> QFull]
CONSTANT QSel
MCInit == /\ \E a \in QSets[QSel], on \in BOOLEAN, fr \in Frees : (on => a.pad > 0 /\ a.ue = -2) /\ m = AfterQuery(a, on, fr)
          /\ ncalls = 0 /\ last = <<"make_query">> /\ res = "ok"
MCSpec == MCInit /\ [][Next]_vars
=============================================================================
