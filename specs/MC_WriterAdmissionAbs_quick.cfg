SPECIFICATION Spec
CONSTANTS
  Writers = {1, 2, 3}
  Others = {5}
  MaxEv = 3
CONSTRAINT Bound
INVARIANT IndInv
INVARIANT Safety
PROPERTY NoCuts
CHECK_DEADLOCK FALSE
