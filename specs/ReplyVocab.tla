----------------------------- MODULE ReplyVocab -----------------------------
(* C18: vocabulary shared by UdpExchange and StreamFraming -- what a received message
   looks like to a stub that sent one query, and what "a response to the query that was
   sent" means.  Constant-level only (no variables).  Written from the property text:
   "QR set, same id, opcode and question". *)
EXTENDS Integers, Sequences, FiniteSets

WellFormed == {"yes", "shortHeader", "badQuestion", "badRdata", "trailing"}
   \* shortHeader: fewer than 12 octets     badQuestion: header readable, question is not
   \* badRdata: header and question readable, a later record is malformed
   \* trailing: a well-formed message followed by extra octets
QMatch == {"same", "caseVariant", "different", "extra", "emptyErr", "emptyOther"}
   \* caseVariant: the same question, owner name in different letter case
   \* extra     : the question that was asked plus a second one
   \* emptyErr  : empty question section with rcode FORMERR/SERVFAIL/NOTIMP/REFUSED
   \* emptyOther: empty question section with any other rcode (NOERROR, NXDOMAIN)
ReplyType == [wf : WellFormed, qr : BOOLEAN, idm : BOOLEAN, opm : BOOLEAN, qm : QMatch, tc : BOOLEAN]

GoodReply == [wf |-> "yes", qr |-> TRUE, idm |-> TRUE, opm |-> TRUE, qm |-> "same", tc |-> FALSE]

\* header and question could be read at all
HeaderReadable(d) == d.wf \notin {"shortHeader", "badQuestion"}

\* QR set, same id, same opcode, same question (names compare case-insensitively; the
\* documented exemption: an empty question section is accepted with the four error rcodes)
RespondsToQuery(d) == /\ HeaderReadable(d)
                      /\ d.qr /\ d.idm /\ d.opm
                      /\ d.qm \in {"same", "caseVariant", "emptyErr"}

\* the whole octet string is a well-formed message (it = ignore_trailing in force)
ParsesWith(d, it) == d.wf = "yes" \/ (d.wf = "trailing" /\ it)

\* attributes that cannot be observed on an unreadable message are fixed, so that the
\* universe holds one vector per distinguishable message
CanonReply(d) == IF d.wf = "shortHeader" THEN [GoodReply EXCEPT !.wf = "shortHeader"]
                 ELSE IF d.wf = "badQuestion" THEN [d EXCEPT !.qm = "same"]
                 ELSE d
B2N(b) == IF b THEN 0 ELSE 1
\* in how many attributes (other than tc) a reply deviates from the good one
Deviations(d) == (IF d.wf = "yes" THEN 0 ELSE 1) + B2N(d.qr) + B2N(d.idm) + B2N(d.opm)
                 + (IF d.qm = "same" THEN 0 ELSE 1)
AllReplies == {CanonReply(d) : d \in ReplyType}
=============================================================================
