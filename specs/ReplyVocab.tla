----------------------------- MODULE ReplyVocab -----------------------------
(* C18: vocabulary shared by UdpExchange and StreamFraming -- what a received message
   looks like to a stub that sent one query, and what "a response to the query that was
   sent" means.  Constant-level only (no variables).  Written from the property text:
   "QR set, same id, opcode and question". *)
EXTENDS Integers, Sequences, FiniteSets

WellFormed == {"yes", "shortHeader", "badQuestion", "badRdata", "trailing"}
   \* shortHeader: fewer than 12 octets     badQuestion: header readable, question is not
   \* badRdata: header and question readable, a later record is malformed
   \* trailing: a well-formed message followed by extra octets
QMatch == {"same", "caseVariant", "different", "extra", "emptyErr", "emptyOther"}
   \* caseVariant: the same question, owner name in different letter case
   \* extra     : the question that was asked plus a second one
   \* emptyErr  : empty question section with rcode FORMERR/SERVFAIL/NOTIMP/REFUSED
   \* emptyOther: empty question section with any other rcode (NOERROR, NXDOMAIN)
ReplyType == [wf : WellFormed, qr : BOOLEAN, idm : BOOLEAN, opm : BOOLEAN, qm : QMatch, tc : BOOLEAN]

GoodReply == [wf |-> "yes", qr |-> TRUE, idm |-> TRUE, opm |-> TRUE, qm |-> "same", tc |-> FALSE]

\* header and question could be read at all
HeaderReadable(d) == d.wf \notin {"shortHeader", "badQuestion"}

\* QR set, same id, same opcode, same question (names compare case-insensitively; the
\* documented exemption: an empty question section is accepted with the four error rcodes)
RespondsToQuery(d) == /\ HeaderReadable(d)
                      /\ d.qr /\ d.idm /\ d.opm
                      /\ d.qm \in {"same", "caseVariant", "emptyErr"}

(* The message that was sent has an opcode of its own: QUERY, NOTIFY, STATUS or UPDATE.  QR, id
   and opcode are compared the same way for all of them.  For a dynamic UPDATE the "question" is
   the zone section, and RFC 2136 3.8 lets the server return it or leave it out, so an empty
   zone section is a response whatever the rcode; whether a DIFFERENT zone section is a response
   is left open (the universe does not deliver one to an UPDATE sender, see Deliverable). *)
SentOpcodes == {"QUERY", "NOTIFY", "STATUS", "UPDATE"}
RespondsTo(d, qop) == /\ HeaderReadable(d)
                      /\ d.qr /\ d.idm /\ d.opm
                      /\ d.qm \in {"same", "caseVariant", "emptyErr"} \cup (IF qop = "UPDATE" THEN {"emptyOther"} ELSE {})
\* what can be told from a message whose body is cut or garbled: for an UPDATE the zone section
\* need not come back at all, so QR, id and opcode of the header are all there is to match
MayRespond(d, qop) == RespondsTo(d, qop)
                      \/ (qop = "UPDATE" /\ d.wf = "badQuestion" /\ d.qr /\ d.idm /\ d.opm)
Deliverable(d, qop) == qop = "UPDATE" => d.qm \notin {"different", "extra"}

\* the whole octet string is a well-formed message (it = ignore_trailing in force)
ParsesWith(d, it) == d.wf = "yes" \/ (d.wf = "trailing" /\ it)

\* attributes that cannot be observed on an unreadable message are fixed, so that the
\* universe holds one vector per distinguishable message
CanonReply(d) == IF d.wf = "shortHeader" THEN [GoodReply EXCEPT !.wf = "shortHeader"]
                 ELSE IF d.wf = "badQuestion" THEN [d EXCEPT !.qm = "same"]
                 ELSE d
B2N(b) == IF b THEN 0 ELSE 1
\* in how many attributes (other than tc) a reply deviates from the good one
Deviations(d) == (IF d.wf = "yes" THEN 0 ELSE 1) + B2N(d.qr) + B2N(d.idm) + B2N(d.opm)
                 + (IF d.qm = "same" THEN 0 ELSE 1)
AllReplies == {CanonReply(d) : d \in ReplyType}
=============================================================================
