SPECIFICATION Spec
CONSTANTS
  Writers = {1, 2, 3, 4}
  Others = {5, 6}
  MaxEv = 4
CONSTRAINT Bound
INVARIANT IndInv
INVARIANT Safety
PROPERTY NoCuts
CHECK_DEADLOCK FALSE
