-------------------------- MODULE VersionedZoneAbs --------------------------
(* X04 - abstraction of VersionedZone.tla (retention and snapshot model of
   dns.versioned.Zone, property C11) for UNBOUNDED safety arguments.

   Same history/retention variables (versions, allIds, published, readers); dropped: the
   pruning policy, the write transaction's working state and the call outcome.  The
   RECURSIVE Prune of the original (which neither Apalache nor TLAPS accept) is replaced
   by the relation PruneRel that states only what the documentation guarantees whatever
   the policy is ("Pruning checking proceeds from the least version ... the retained
   versions are always a consecutive sequence", never the newest, "never prune a version
   greater than or equal to one that a reader has open"):
       some PREFIX of the retained versions is dropped, the newest version is not in it,
       and every dropped version is older than every version a reader has open.
   Hence every pruning policy - default, max_versions, None, any custom predicate - is
   covered.  Any number of readers (Rids arbitrary), of versions, of commits.  Contents
   are uninterpreted.  TLC checks on the bounded instances that VersionedZone implements
   this module (MC_VersionedZoneRef). *)
EXTENDS Integers, Sequences

CONSTANTS
    \* @type: Set(Int);
    Rids,        \* reader handles
    \* @type: Set(CONTENT);
    Contents,    \* contents a write transaction may produce
    \* @type: CONTENT;
    Empty,       \* the content of a new zone
    \* @type: Set(Int);
    IdSpace      \* the version ids a commit may use

ASSUME IdAssumption == IdSpace \subseteq Nat

VARIABLES
    \* @type: Seq({id: Int, content: CONTENT});
    versions,
    \* @type: Seq(Int);
    allIds,
    \* @type: Int -> CONTENT;
    published,
    \* @type: Int -> {vid: Int, seen: CONTENT};
    readers

vars == <<versions, allIds, published, readers>>

(* vs2 is vs without a prefix that excludes the newest version and contains only
   versions older than every version a reader of rs has open *)
\* @type: (Seq({id: Int, content: CONTENT}), Seq({id: Int, content: CONTENT}), Int -> {vid: Int, seen: CONTENT}) => Bool;
PruneRel(vs, vs2, rs) ==
    \E d \in DOMAIN vs :
        /\ vs2 = SubSeq(vs, d, Len(vs))
        /\ \A i \in DOMAIN vs : i < d => \A r \in DOMAIN rs : vs[i].id < rs[r].vid

Init ==
    /\ versions = <<[id |-> 1, content |-> Empty]>>
    /\ allIds = <<1>>
    /\ published = [x \in {1} |-> Empty]
    /\ readers = [x \in {} |-> [vid |-> 0, seen |-> Empty]]

(* zone.reader(...) in all its forms: a read transaction is opened on a RETAINED version *)
Open(r, i) ==
    /\ r \notin DOMAIN readers
    /\ i \in DOMAIN versions
    /\ readers' = [x \in DOMAIN readers \cup {r} |->
                       IF x = r THEN [vid |-> versions[i].id, seen |-> versions[i].content]
                       ELSE readers[x]]
    /\ UNCHANGED <<versions, allIds, published>>

(* the end of a read transaction: unpin, then prune *)
Close(r) ==
    /\ r \in DOMAIN readers
    /\ readers' = [x \in DOMAIN readers \ {r} |-> readers[x]]
    /\ PruneRel(versions, versions', readers')
    /\ UNCHANGED <<allIds, published>>

(* commit of a changed write transaction: a new version with a greater id, then prune *)
Commit(nid, c) ==
    /\ nid > allIds[Len(allIds)]
    /\ PruneRel(Append(versions, [id |-> nid, content |-> c]), versions', readers)
    /\ allIds' = Append(allIds, nid)
    /\ published' = [x \in DOMAIN published \cup {nid} |-> IF x = nid THEN c ELSE published[x]]
    /\ UNCHANGED readers

(* set_max_versions / set_pruning_policy: prune under the new policy *)
Reprune ==
    /\ PruneRel(versions, versions', readers)
    /\ UNCHANGED <<allIds, published, readers>>

Next ==
    \/ \E r \in Rids : \E i \in DOMAIN versions : Open(r, i)
    \/ \E r \in Rids : Close(r)
    \/ \E nid \in IdSpace : \E c \in Contents : Commit(nid, c)
    \/ Reprune

Spec == Init /\ [][Next]_vars

-----------------------------------------------------------------------------
(* RetentionSound, stated elementwise (the SubSeq form of VersionedZone.tla is derived in
   the proofs module) *)
IdsIncrease ==
    /\ \A i, j \in DOMAIN allIds : i < j => allIds[i] < allIds[j]
    /\ \A i, j \in DOMAIN versions : i < j => versions[i].id < versions[j].id
(* the retained versions are the last Len(versions) versions of the history: contiguous,
   and the newest is retained *)
ContiguousNewest ==
    /\ 1 <= Len(versions) /\ Len(versions) <= Len(allIds)
    /\ \A i \in DOMAIN versions : versions[i].id = allIds[Len(allIds) - Len(versions) + i]
NewestRetained == versions[Len(versions)].id = allIds[Len(allIds)]
PinnedRetained == \A r \in DOMAIN readers : \E i \in DOMAIN versions : versions[i].id = readers[r].vid
VersionsImmutable ==
    \A i \in DOMAIN versions : versions[i].id \in DOMAIN published
                               /\ versions[i].content = published[versions[i].id]
Snapshot ==
    \A r \in DOMAIN readers :
        /\ readers[r].vid \in DOMAIN published /\ readers[r].seen = published[readers[r].vid]
        /\ \E i \in DOMAIN versions : versions[i].id = readers[r].vid /\ versions[i].content = readers[r].seen

RetentionSound == IdsIncrease /\ ContiguousNewest /\ NewestRetained /\ PinnedRetained
Safety == RetentionSound /\ VersionsImmutable /\ Snapshot

-----------------------------------------------------------------------------
(* The inductive invariant *)
Cont == Contents \cup {Empty}
TypeSeq ==
    /\ versions \in Seq([id : Nat, content : Cont])
    /\ allIds \in Seq(Nat)
TypeRest ==
    /\ DOMAIN readers \subseteq Rids
    /\ \A i \in DOMAIN versions : versions[i].id \in Nat
    /\ \A i \in DOMAIN allIds : allIds[i] \in Nat
    /\ \A r \in DOMAIN readers : readers[r].vid \in Nat
J_Hist == \A i, j \in DOMAIN allIds : i < j => allIds[i] < allIds[j]
IndCore == J_Hist /\ ContiguousNewest /\ VersionsImmutable /\ Snapshot
IndInv == TypeSeq /\ TypeRest /\ IndCore
=============================================================================
