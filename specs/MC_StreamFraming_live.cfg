SPECIFICATION Spec
CONSTANTS
  Cases <- MCLive
  MaxBlocks = 2
INVARIANT TypeOK
INVARIANT SendExact
INVARIANT ReassembledExact
INVARIANT NeverShort
INVARIANT EofIsError
INVARIANT DeadlineRespected
INVARIANT NeverOverRead
PROPERTY EndIsFinal
PROPERTY Terminates
CHECK_DEADLOCK FALSE
