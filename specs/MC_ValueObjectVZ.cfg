SPECIFICATION Spec
CONSTANTS
  Kinds = {"txn", "rdsitems"}
  States = {"s1"}
CONSTRAINT Bound
PROPERTY WorldFrozen
PROPERTY ObjectFrozen
PROPERTY AttemptsMonotone
CHECK_DEADLOCK FALSE
