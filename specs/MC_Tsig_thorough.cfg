SPECIFICATION Spec
CONSTANTS
  KeyNames = {"k1"}
  Secrets = {"s1"}
  Algs <- MCAllAlgs
  Fudges = {0, 2}
  Skews <- MCSkews6
  Errors = {0, 16}
  Kinds = {"query", "response"}
  MaxEnv = 3
  MaxFaults = 2
  MaxResign = 0
  ResignMods = {"none", "id", "head", "body"}
INVARIANT TypeOK
INVARIANT GenuineAccepted
INVARIANT AlteredRefused
INVARIANT UnsignedNeverOk
INVARIANT Window
INVARIANT Family
INVARIANT PeerReported
CHECK_DEADLOCK FALSE
