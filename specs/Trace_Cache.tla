----------------------------- MODULE Trace_Cache -----------------------------
(* Trace validation for the sequential part of C17: every recorded cache call must be
   the Cache action from the current model state with the same result, counters and
   (structural) content. *)
EXTENDS Cache, VTrace
VARIABLES t, l
tvars == <<vars, t, l>>

TraceInit ==
    /\ RegInit
    /\ t \in 1..NTraces /\ l = 1
    /\ kind = Log[t].kind /\ max = Log[t].max
    /\ now = 0 /\ data = <<>> /\ order = <<>> /\ hits = 0 /\ misses = 0 /\ gets = 0 /\ res = <<"-">>

e == Ev(t)[l]
Adv == l' = l + 1 /\ t' = t
Rev(s) == [i \in 1..Len(s) |-> s[Len(s) + 1 - i]]

(* e.ring: lru: forward walk of the ring from the sentinel: <<key, val, exp, hits>>;
   e.back: backward walk (keys); e.keys: keys of the dict; e.live (plain): <<key, val, exp>>
   of the entries that are present and fresh *)
Obs ==
    /\ Check(t, l, "Counters", e.hits = hits' /\ e.misses = misses')
    /\ IF kind = "lru"
       THEN /\ Check(t, l, "LruBound", Len(e.ring) <= max')
            /\ Check(t, l, "LruOrder", [i \in 1..Len(e.ring) |-> e.ring[i][1]] = order')
            /\ Check(t, l, "RingConsistent", e.back = Rev([i \in 1..Len(e.ring) |-> e.ring[i][1]])
                                              /\ ToSetOf(e.keys) = ToSetOf([i \in 1..Len(e.ring) |-> e.ring[i][1]])
                                              /\ Len(e.keys) = Len(e.ring))
            /\ Check(t, l, "LruContent", \A i \in 1..Len(e.ring) :
                        LET k == e.ring[i][1] IN
                        k \in DOMAIN data' /\ data'[k].val = e.ring[i][2] /\ data'[k].exp = e.ring[i][3]
                        /\ data'[k].hits = e.ring[i][4])
       ELSE Check(t, l, "LiveContent",
                  ToSetOf(e.live) = {<<k, data'[k].val, data'[k].exp>> : k \in {k \in DOMAIN data' : now' < data'[k].exp}})
Result == Check(t, l, "Result", e.res = res')

TAdvance == e.op = "advance" /\ Advance(e.d) /\ Obs /\ Adv
TPut == e.op = "put" /\ Put(e.k, e.v, now + e.ttl) /\ Check(t, l, "NoError", e.exc = "") /\ Obs /\ Adv
TGet == e.op = "get" /\ Get(e.k) /\ Result /\ Obs /\ Adv
TFlush == e.op = "flush" /\ Flush(e.k) /\ Check(t, l, "NoError", e.exc = "") /\ Obs /\ Adv
TFlushAll == e.op = "flushall" /\ FlushAll /\ Check(t, l, "NoError", e.exc = "") /\ Obs /\ Adv
TReset == e.op = "reset" /\ ResetStatistics /\ Obs /\ Adv
TSetMax == e.op = "setmax" /\ SetMaxSize(e.n) /\ Check(t, l, "NoError", e.exc = "") /\ Obs /\ Adv
THitsFor == e.op = "hitsfor" /\ GetHitsForKey(e.k) /\ Result /\ Obs /\ Adv
\* calls a plain cache does not have: nothing happens
TSkip == e.op \in {"setmax", "hitsfor"} /\ kind = "plain" /\ e.exc = "skipped" /\ UNCHANGED vars /\ Adv

TraceNext ==
    /\ l <= Len(Ev(t))
    /\ \/ TAdvance \/ TPut \/ TGet \/ TFlush \/ TFlushAll \/ TReset \/ TSetMax \/ THitsFor \/ TSkip

Accepted == Accepting(t, l)
=============================================================================
