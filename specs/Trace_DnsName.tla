--------------------------- MODULE Trace_DnsName ---------------------------
(* Trace validation for the pure operators of DnsName (C06 order / relations /
   neighbours, C01 constructors).  One event = one evaluation on the real dns.name code;
   every logged output is RECOMPUTED here with the specification's operators.
   Hard clauses are what the properties state; with Strict = TRUE the deterministic
   choices of the specification (the exact RFC 4471 neighbour) are compared as well -
   that run only feeds the "drift" counter, never an alarm. *)
EXTENDS DnsName, VTrace

CONSTANT Strict
VARIABLES t, l
tvars == <<t, l>>

TraceInit == RegInit /\ t \in 1..NTraces /\ l = 1
e == Ev(t)[l]
Adv == l' = l + 1 /\ t' = t
C(id, cond) == Check(t, l, id, cond)

ResOk(r) == r[1] = "ok"
(* the implementation refused: must be one of the library's own errors *)
LibErr(r) == r[1] = "err" /\ r[3]
Agrees(r, s) == IF IsOk(s) THEN r[1] = "ok" /\ r[2] = s[2] ELSE r[1] = "err"

TPair ==
    /\ e.op = "pair"
    /\ LET c == Cmp(e.a, e.b) IN
        /\ C("CmpSign", e.fc[2] = c)
        /\ C("Relation", e.fc[1] = Relation(e.a, e.b))
        /\ C("CommonLabels", e.fc[3] = Common(e.a, e.b))
        /\ C("RichCompare", e.rich = RichOf(c))
        /\ C("EqImpliesSameHash", c = 0 => e.heq)
        /\ C("SubSuper", e.sub = IsSub(e.a, e.b) /\ e.sup = IsSuper(e.a, e.b))
    /\ Adv

TName ==
    /\ e.op = "name"
    /\ C("Parent", Agrees(e.parent, Parent(e.n)))
    /\ C("Split", \A i \in 1..Len(e.splits) :
            LET d == i - 2  s == Split(e.n, d)  r == e.splits[i]
            IN  IF IsOk(s) THEN r[1] = "ok" /\ r[2] = s[2] /\ r[3] = s[3] ELSE r[1] = "err")
    /\ C("LenAbs", e.len = Len(e.n) /\ e.abs = IsAbs(e.n))
    /\ Adv

TRel ==
    /\ e.op = "rel"
    /\ C("Relativize", Agrees(e.rel, Ok(Relativize(e.n, e.o))))
    /\ C("Derelativize", Agrees(e.derel, Derelativize(e.n, e.o)))
    /\ C("DerelativizeLibErr", e.derel[1] = "err" => LibErr(e.derel))
    /\ C("RelativizeRoundTrip", IsSub(e.n, e.o) => e.back[1] = "ok" /\ SameName(e.back[2], e.n)
                                                   /\ Prefix(e.back[2], Len(e.o)) = Prefix(e.n, Len(e.o)))
    /\ C("ChooseRelativity", /\ Agrees(e.crt, ChooseRel(e.n, Some(e.o), TRUE))
                             /\ Agrees(e.crf, ChooseRel(e.n, Some(e.o), FALSE)))
    /\ C("ResultValid", /\ (ResOk(e.rel) => Valid(e.rel[2])) /\ (ResOk(e.derel) => Valid(e.derel[2])))
    /\ Adv

TNeigh ==
    /\ e.op \in {"succ", "pred"}
    /\ LET s == IF e.op = "succ" THEN Succ(e.n, e.o, e.p) ELSE Pred(e.n, e.o, e.p)
           r == e.res
       IN
        /\ C("NeighbourDefined", IsOk(s) => ResOk(r))
        /\ C("NeighbourLibErr", r[1] = "err" => LibErr(r))
        /\ C("NeighbourValid", ResOk(r) => Valid(r[2]))
        /\ IF IsOk(s) /\ ResOk(r) THEN
              /\ C("NeighbourRelativity", IsAbs(r[2]) = IsAbs(e.n))
              /\ C("NeighbourInZone", Valid(AbsOf(r[2], e.o)) /\ IsSub(AbsOf(r[2], e.o), e.o))
              /\ IF e.op = "succ" THEN C("SuccGreater", GoodSucc(e.n, e.o, r[2]))
                 ELSE C("PredSmaller", GoodPred(e.n, e.o, r[2]))
              /\ (Strict => C("NeighbourExact", SameName(r[2], s[2])))
           ELSE TRUE
    /\ Adv

IsPerm(q, n) == Len(q) = n /\ {q[i] : i \in 1..n} = 1..n
TSorted ==
    /\ e.op = "sorted"
    /\ C("SortedIsPermutation", IsPerm(e.perm, Len(e.names)))
    /\ C("SortedAscending", \A i \in 1..Len(e.perm) - 1 : Cmp(e.names[e.perm[i]], e.names[e.perm[i + 1]]) <= 0)
    /\ C("MinMax", Len(e.names) > 0 =>
            /\ \A i \in 1..Len(e.names) : Cmp(e.names[e.min], e.names[i]) <= 0
            /\ \A i \in 1..Len(e.names) : Cmp(e.names[i], e.names[e.max]) <= 0)
    /\ Adv

TDeepest ==
    /\ e.op = "deepest"
    /\ LET live == {k \in ToSetOf(e.keys) : \A j \in 1..Len(e.dels) : ~SameName(e.dels[j], k)}
           s == Deepest(live, e.q)
       IN  (* no superdomain among the keys: the outcome is left open *)
           C("DeepestMatch", IsOk(s) => e.res[1] = "ok" /\ SameName(e.res[2], s[2]))
    /\ Adv

TConcat ==
    /\ e.op = "concat"
    /\ C("Concat", Agrees(e.res, Concat(e.a, e.b)))
    /\ C("ConcatLibErr", e.res[1] = "err" => LibErr(e.res))
    /\ C("ResultValid", ResOk(e.res) => Valid(e.res[2]))
    /\ Adv

TConstruct ==
    /\ e.op = "construct"
    (* e.ls = the octets of the labels given (UTF-8 octets of `str` labels); e.res[2] = the octets
       the constructed object actually holds *)
    /\ C("HeldNameValid", ResOk(e.res) => Valid(e.res[2]))          \* valid or the constructor raised
    /\ C("HoldsOctets", ResOk(e.res) => e.allbytes)
    /\ C("Construct", Agrees(e.res, Construct(e.ls)))
    /\ C("ConstructLibErr", e.res[1] = "err" => LibErr(e.res))
    /\ Adv

TraceNext == /\ l <= Len(Ev(t))
             /\ \/ TPair \/ TName \/ TRel \/ TNeigh \/ TSorted \/ TDeepest \/ TConcat \/ TConstruct
Accepted == Accepting(t, l)
=============================================================================
