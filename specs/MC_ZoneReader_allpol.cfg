INIT MCInit
NEXT MCNext
CONSTANTS
  Alphabet <- MCAlpha
  MaxLines = 3
  MaxDepth = 2
  Cfgs <- MCCfgs
  Pols <- PolsAll
INVARIANTS RedundantDirective InlineLaw Shape OutSane
PROPERTIES ExitRestoresOrigin Hermetic OutGrows
CHECK_DEADLOCK FALSE
