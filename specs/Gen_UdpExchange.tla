--------------------------- MODULE Gen_UdpExchange ---------------------------
(* UdpExchange plus a history variable: every behaviour is one exchange script -- the
   configuration and the environment's events (would-block, datagram vector, silence).
   No expected verdicts are emitted: the oracle is Trace_UdpExchange.  Where the
   specification allows both "skip" and "raise" the generator follows "skip", so that the
   script always has a continuation for an implementation that keeps listening. *)
EXTENDS UdpExchange, Json

VARIABLE hist
gvars == <<vars, hist>>

GenKind(d) == IF "skip" \in AllowedKinds(d, cfg) THEN "skip"
              ELSE CHOOSE k \in AllowedKinds(d, cfg) : TRUE

GInit == Init /\ hist = <<>>
GBlock == Block /\ hist' = Append(hist, [op |-> "block"])
GSilence == Silence /\ hist' = Append(hist, [op |-> "silence"])
GDeliver == \E d \in Dgrams : Deliver(d, GenKind(d)) /\ hist' = Append(hist, [op |-> "dgram", d |-> d])
GNext == GBlock \/ GSilence \/ GDeliver

Emit == (status # "open") => PrintT("BEH " \o ToJson([cfg |-> cfg, ev |-> hist]))

\* universes for the generator configurations
GAll == AllDgrams
GDev1 == DevDgrams(1)
GDev2 == DevDgrams(2)
\* a trimmed universe for longer sequences: one representative per verdict-relevant class
GGood == [src |-> "dest"] @@ GoodReply
GCore == {GGood,
          [GGood EXCEPT !.tc = TRUE],
          [GGood EXCEPT !.src = "otherAddr"],
          [GGood EXCEPT !.src = "otherPort"],
          [GGood EXCEPT !.src = "altText"],
          [GGood EXCEPT !.wf = "shortHeader"],
          [GGood EXCEPT !.wf = "badRdata"],
          [GGood EXCEPT !.wf = "badRdata", !.tc = TRUE],
          [GGood EXCEPT !.wf = "trailing"],
          [GGood EXCEPT !.idm = FALSE],
          [GGood EXCEPT !.idm = FALSE, !.tc = TRUE],
          [GGood EXCEPT !.qr = FALSE],
          [GGood EXCEPT !.qm = "different"],
          [GGood EXCEPT !.qm = "extra"],
          [GGood EXCEPT !.qm = "emptyErr"],
          [GGood EXCEPT !.qm = "emptyOther"]}
GCoreQ == {d \in GCore : d.src # "otherPort" /\ d.qm # "emptyOther" /\ ~(d.wf = "badRdata" /\ d.tc)
                          /\ ~(~d.idm /\ d.tc) /\ d.wf # "shortHeader"}
GCfgV4 == ConfigsOver({"udp"}, {5}, {FALSE}, {"v4"})
GClockD == {GGood, [GGood EXCEPT !.wf = "badRdata"], [GGood EXCEPT !.idm = FALSE],
            [GGood EXCEPT !.src = "otherAddr"], [GGood EXCEPT !.tc = TRUE]}
GCfgUdp == ConfigsOver({"udp"}, {5}, {FALSE}, {"v4", "v6"})
GCfgUdpMc == ConfigsOver({"udp"}, {5}, {TRUE}, {"v4", "v6"})
GCfgAllApi == ConfigsOver({"udp", "recv", "fallback"}, {5}, BOOLEAN, {"v4", "v6"})
GCfgRecvFb == ConfigsOver({"recv", "fallback"}, {5}, {FALSE}, {"v6"})
GCfgClock0 == {c \in ConfigsOver({"udp", "recv", "fallback"}, {0, 1, 3, 5}, {FALSE}, {"v4"}) :
                 ~c.rot /\ c.hasq /\ ~c.anysrc /\ c.it}
\* ... and the zero timeouts (0, 0.0, tiny), for every entry point incl. udp_with_fallback
GCfgZero == ZeroTimeouts({c \in ConfigsOver({"udp", "recv", "fallback"}, {0}, {FALSE}, {"v4"}) :
                             c.hasq /\ ~c.anysrc /\ c.it /\ (c.api = "fallback" \/ ~c.rot)})
GCfgClock == GCfgClock0 \cup GCfgZero
GCfgV6 == ConfigsOver({"udp"}, {5}, {FALSE}, {"v6"})
\* other kinds of message sent (NOTIFY, STATUS, dynamic UPDATE), every option set, udp and the rest
GCfgOps == WithOpcodes(ConfigsOver({"udp"}, {5}, {FALSE}, {"v4"}), {"NOTIFY", "STATUS", "UPDATE"})
GCfgOpsApi == WithOpcodes({c \in ConfigsOver({"recv", "fallback"}, {5}, {FALSE}, {"v4"}) : ~c.anysrc /\ c.it /\ ~c.iu},
                          {"NOTIFY", "STATUS", "UPDATE"})
=============================================================================
