INIT TraceInit
NEXT TraceNext
CONSTANTS
  RdSets = {}
  MinShuffle = 40
  MinWeighted = 60
CONSTRAINT Accepted
POSTCONDITION Post
CHECK_DEADLOCK FALSE
