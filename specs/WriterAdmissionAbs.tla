------------------------- MODULE WriterAdmissionAbs -------------------------
(* X04 - hand-written abstraction of WriterAdmission.tla (the PlusCal model of the writer
   admission protocol of dns.versioned.Zone) for UNBOUNDED safety arguments.

   Same protocol variables (lock, writeTxn, writeEvent, waiters, evSet, nextEv, myEv) and,
   for writers, the SAME labels as the PlusCal translation, so the refinement mapping from
   WriterAdmission is the identity on these variables.  Abstracted away:
     * the environment script (plan/rplan/pplan, k, enq): a writer may start any number of
       transactions and each one ends by commit or by rollback, nondeterministically;
     * versions, published, readerVer, maxv and the ghost histories: they do not influence
       admission (no guard of a writer label reads them);
     * readers and policy threads: all that matters here is that they take and release the
       lock; they are the set Others with two labels, "oIdle" and "oCS".
   Writers and Others are ARBITRARY sets (any number of threads, also infinitely many);
   0 is None.  TLC checks on small instances that WriterAdmission implements this module
   (MC_WriterAdmissionRef).  The inductive invariant and its proof (TLAPS) are in
   WriterAdmissionAbs_proofs.tla; Apalache checks the same invariant in
   Apa_WriterAdmission.tla. *)
EXTENDS Integers, Sequences

CONSTANTS
    \* @type: Set(Int);
    Writers,
    \* @type: Set(Int);
    Others

ASSUME ThreadsAssumption == /\ 0 \notin Writers /\ 0 \notin Others /\ Writers \cap Others = {}

VARIABLES
    \* @type: Int -> Str;
    pc,
    \* @type: Int;
    lock,
    \* @type: Int;
    writeTxn,
    \* @type: Int;
    writeEvent,
    \* @type: Seq(Int);
    waiters,
    \* @type: Set(Int);
    evSet,
    \* @type: Int;
    nextEv,
    \* @type: Int -> Int;
    myEv

vars == <<pc, lock, writeTxn, writeEvent, waiters, evSet, nextEv, myEv>>

Threads == Writers \cup Others

WLabels == {"wStart", "wAcq", "wTest", "wRelA", "wNewEv", "wEnq", "wRelW", "wWait", "wSetup", "wRet",
            "wBody", "eAcq", "cAppend", "cPrune", "cPublish", "xClear", "xTest", "xPop", "xSet", "eRel",
            "eEnd", "Done"}
OLabels == {"oIdle", "oCS"}

Init ==
    /\ pc = [t \in Threads |-> IF t \in Writers THEN "wStart" ELSE "oIdle"]
    /\ lock = 0 /\ writeTxn = 0 /\ writeEvent = 0
    /\ waiters = <<>> /\ evSet = {} /\ nextEv = 0
    /\ myEv = [t \in Writers |-> 0]

(* a step that only moves the program counter *)
Goto(self, from, to) ==
    /\ pc[self] = from
    /\ pc' = [pc EXCEPT ![self] = to]
    /\ UNCHANGED <<lock, writeTxn, writeEvent, waiters, evSet, nextEv, myEv>>

Acquire(self, from, to) ==
    /\ pc[self] = from /\ lock = 0
    /\ lock' = self
    /\ pc' = [pc EXCEPT ![self] = to]
    /\ UNCHANGED <<writeTxn, writeEvent, waiters, evSet, nextEv, myEv>>

Release(self, from, to) ==
    /\ pc[self] = from
    /\ lock' = 0
    /\ pc' = [pc EXCEPT ![self] = to]
    /\ UNCHANGED <<writeTxn, writeEvent, waiters, evSet, nextEv, myEv>>

wStart(self) ==
    /\ pc[self] = "wStart"
    /\ \/ /\ myEv' = [myEv EXCEPT ![self] = 0]
          /\ pc' = [pc EXCEPT ![self] = "wAcq"]
       \/ /\ pc' = [pc EXCEPT ![self] = "Done"]
          /\ UNCHANGED myEv
    /\ UNCHANGED <<lock, writeTxn, writeEvent, waiters, evSet, nextEv>>

wTest(self) ==
    /\ pc[self] = "wTest"
    /\ IF writeTxn = 0 /\ myEv[self] = writeEvent
       THEN /\ writeTxn' = self /\ writeEvent' = 0
            /\ pc' = [pc EXCEPT ![self] = "wRelA"]
       ELSE /\ pc' = [pc EXCEPT ![self] = "wNewEv"]
            /\ UNCHANGED <<writeTxn, writeEvent>>
    /\ UNCHANGED <<lock, waiters, evSet, nextEv, myEv>>

wNewEv(self) ==
    /\ pc[self] = "wNewEv"
    /\ nextEv' = nextEv + 1
    /\ myEv' = [myEv EXCEPT ![self] = nextEv + 1]
    /\ pc' = [pc EXCEPT ![self] = "wEnq"]
    /\ UNCHANGED <<lock, writeTxn, writeEvent, waiters, evSet>>

wEnq(self) ==
    /\ pc[self] = "wEnq"
    /\ waiters' = Append(waiters, myEv[self])
    /\ pc' = [pc EXCEPT ![self] = "wRelW"]
    /\ UNCHANGED <<lock, writeTxn, writeEvent, evSet, nextEv, myEv>>

wWait(self) ==
    /\ pc[self] = "wWait"
    /\ myEv[self] \in evSet
    /\ pc' = [pc EXCEPT ![self] = "wAcq"]
    /\ UNCHANGED <<lock, writeTxn, writeEvent, waiters, evSet, nextEv, myEv>>

eAcq(self) ==
    /\ pc[self] = "eAcq" /\ lock = 0
    /\ lock' = self
    /\ \/ pc' = [pc EXCEPT ![self] = "cAppend"]      \* commit
       \/ pc' = [pc EXCEPT ![self] = "xClear"]       \* rollback, or nothing to commit
    /\ UNCHANGED <<writeTxn, writeEvent, waiters, evSet, nextEv, myEv>>

xClear(self) ==
    /\ pc[self] = "xClear"
    /\ writeTxn' = 0
    /\ pc' = [pc EXCEPT ![self] = "xTest"]
    /\ UNCHANGED <<lock, writeEvent, waiters, evSet, nextEv, myEv>>

xTest(self) ==
    /\ pc[self] = "xTest"
    /\ pc' = [pc EXCEPT ![self] = IF waiters # <<>> THEN "xPop" ELSE "eRel"]
    /\ UNCHANGED <<lock, writeTxn, writeEvent, waiters, evSet, nextEv, myEv>>

xPop(self) ==
    /\ pc[self] = "xPop"
    /\ writeEvent' = Head(waiters)
    /\ waiters' = Tail(waiters)
    /\ pc' = [pc EXCEPT ![self] = "xSet"]
    /\ UNCHANGED <<lock, writeTxn, evSet, nextEv, myEv>>

xSet(self) ==
    /\ pc[self] = "xSet"
    /\ evSet' = evSet \cup {writeEvent}
    /\ pc' = [pc EXCEPT ![self] = "eRel"]
    /\ UNCHANGED <<lock, writeTxn, writeEvent, waiters, nextEv, myEv>>

w(self) ==
    \/ wStart(self) \/ Acquire(self, "wAcq", "wTest") \/ wTest(self)
    \/ Release(self, "wRelA", "wSetup") \/ wNewEv(self) \/ wEnq(self)
    \/ Release(self, "wRelW", "wWait") \/ wWait(self)
    \/ Goto(self, "wSetup", "wRet") \/ Goto(self, "wRet", "wBody") \/ Goto(self, "wBody", "eAcq")
    \/ eAcq(self)
    \/ Goto(self, "cAppend", "cPrune") \/ Goto(self, "cPrune", "cPublish") \/ Goto(self, "cPublish", "xClear")
    \/ xClear(self) \/ xTest(self) \/ xPop(self) \/ xSet(self)
    \/ Release(self, "eRel", "eEnd") \/ Goto(self, "eEnd", "wStart")

o(self) == Acquire(self, "oIdle", "oCS") \/ Release(self, "oCS", "oIdle")

Next == (\E self \in Writers : w(self)) \/ (\E self \in Others : o(self))

Spec == Init /\ [][Next]_vars

-----------------------------------------------------------------------------
(* The properties of WriterAdmission.tla that speak about admission only, restated on the
   common variables.  (MutualExclusion: the Cardinality conjunct of the original is the
   pairwise statement here, which also makes sense for infinitely many writers.) *)
CSLabels == {"wTest", "wRelA", "wNewEv", "wEnq", "wRelW", "cAppend", "cPrune", "cPublish",
             "xClear", "xTest", "xPop", "xSet", "eRel", "oCS"}
OpenLabels == {"wRelA", "wSetup", "wRet", "wBody", "eAcq", "cAppend", "cPrune", "cPublish", "xClear"}

MutualExclusion ==
    /\ \A t, u \in Writers : pc[t] \in OpenLabels /\ pc[u] \in OpenLabels => t = u
    /\ \A t \in Writers : pc[t] \in OpenLabels => writeTxn = t
    /\ writeTxn # 0 => pc[writeTxn] \in OpenLabels

LockDiscipline ==
    /\ lock # 0 => pc[lock] \in CSLabels
    /\ \A t \in Threads : pc[t] \in CSLabels => lock = t

QueueWellFormed ==
    /\ \A i, j \in DOMAIN waiters : i # j => waiters[i] # waiters[j]
    /\ \A i \in DOMAIN waiters :
           /\ waiters[i] \notin evSet /\ waiters[i] # writeEvent
           /\ \E t \in Writers : myEv[t] = waiters[i] /\ pc[t] \in {"wRelW", "wWait"}
    /\ writeEvent # 0 =>
           /\ (lock = 0 => writeEvent \in evSet)
           /\ \E t \in Writers : myEv[t] = writeEvent /\ pc[t] \in {"wRelW", "wWait", "wAcq", "wTest"}

NoLostWakeup == (lock = 0 /\ writeTxn = 0 /\ writeEvent = 0) => waiters = <<>>

OneEventPerCall == \A t \in Writers : pc[t] = "wNewEv" => myEv[t] = 0

(* an admission step is taken either when nobody waits and nobody holds the right, or by
   the thread that holds the right (no newcomer overtakes a waiter) *)
NoCutsStep ==
    \A t \in Writers : (pc[t] = "wTest" /\ pc'[t] = "wRelA") =>
        \/ (writeEvent = 0 /\ waiters = <<>> /\ myEv[t] = 0)
        \/ (myEv[t] # 0 /\ myEv[t] = writeEvent)
NoCuts == [][NoCutsStep]_vars

-----------------------------------------------------------------------------
(* The inductive invariant. *)
InQ(e) == \E i \in DOMAIN waiters : waiters[i] = e

TypeSeq == waiters \in Seq(Nat)
TypeRest ==
    /\ pc \in [Threads -> WLabels \cup OLabels]
    /\ \A t \in Writers : pc[t] \in WLabels
    /\ \A t \in Others : pc[t] \in OLabels
    /\ lock \in Threads \cup {0}
    /\ writeTxn \in Writers \cup {0}
    /\ nextEv \in Nat
    /\ writeEvent \in Nat /\ writeEvent <= nextEv
    /\ \A e \in evSet : e \in Nat /\ 1 <= e /\ e <= nextEv
    /\ \A i \in DOMAIN waiters : waiters[i] \in Nat /\ 1 <= waiters[i] /\ waiters[i] <= nextEv
    /\ myEv \in [Writers -> Nat]
    /\ \A t \in Writers : myEv[t] <= nextEv

(* somebody has, or holds the right to, the write transaction *)
Busy == writeTxn # 0 \/ writeEvent # 0

I_ME == \A t \in Writers : pc[t] \in OpenLabels <=> writeTxn = t
I_Right == writeEvent # 0 => writeTxn = 0
I_Ender ==
    \A t \in Writers :
        /\ pc[t] \in {"xTest", "xPop"} => (writeEvent = 0 /\ writeTxn = 0)
        /\ pc[t] = "xPop" => waiters # <<>>
I_Inj == \A t, u \in Writers : myEv[t] = myEv[u] /\ myEv[t] # 0 => t = u
I_Phase ==
    \A t \in Writers :
        /\ pc[t] = "wNewEv" => myEv[t] = 0 /\ Busy
        /\ pc[t] = "wEnq" => /\ myEv[t] # 0 /\ myEv[t] \notin evSet /\ myEv[t] # writeEvent
                             /\ ~InQ(myEv[t]) /\ Busy
        /\ pc[t] \in {"wRelW", "wWait"} => myEv[t] # 0 /\ (InQ(myEv[t]) \/ myEv[t] = writeEvent)
        /\ pc[t] \in {"wAcq", "wTest"} => myEv[t] = 0 \/ (myEv[t] = writeEvent /\ myEv[t] \in evSet)
I_Queue ==
    /\ \A i, j \in DOMAIN waiters : i # j => waiters[i] # waiters[j]
    /\ \A i \in DOMAIN waiters :
           /\ waiters[i] \notin evSet /\ waiters[i] # writeEvent
           /\ \E t \in Writers : myEv[t] = waiters[i] /\ pc[t] \in {"wRelW", "wWait"}
I_Holder ==
    writeEvent # 0 =>
        /\ \E t \in Writers : myEv[t] = writeEvent /\ pc[t] \in {"wRelW", "wWait", "wAcq", "wTest"}
        /\ writeEvent \in evSet \/ \E t \in Writers : pc[t] = "xSet"
I_Setter == \A t \in Writers : pc[t] = "xSet" => writeEvent # 0
I_Wake == waiters # <<>> => Busy \/ \E t \in Writers : pc[t] \in {"xTest", "xPop"}

IndCore == /\ LockDiscipline /\ I_ME /\ I_Right /\ I_Ender /\ I_Inj /\ I_Phase /\ I_Queue
           /\ I_Holder /\ I_Setter /\ I_Wake
IndInv == TypeSeq /\ TypeRest /\ IndCore

Safety == MutualExclusion /\ LockDiscipline /\ QueueWellFormed /\ NoLostWakeup /\ OneEventPerCall
=============================================================================
