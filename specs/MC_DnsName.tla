---------------------------- MODULE MC_DnsName ----------------------------
(* Bounded instance of DnsName: the algebraic laws of DESIGN.md section 4 "C06" (and the
   constructor laws of "C01") as invariants over the universes of NameUniverse.
   A "behaviour" is the choice of the arguments, one per step, so that TLC's workers
   share the enumeration (initial states are enumerated by one thread only):
       mode "pair"    a, b \in U06                     order / relation laws
       mode "mimic"   a, b \in UMimic                  the same laws where labels contain <len><label> of other names
       mode "triple"  a, b, c \in V06                  transitivity
       mode "neigh"   <<a, b>> \in NeighbourBase, p    successor / predecessor at 63 / 253..255
       mode "neigh2"  <<a, b>> \in MixedCases, p       the same where the stepped octet is followed by a 0xFF / 0x00 run
       mode "cons"    a \in ConstructInputs, b too     Construct / Concat / Split / Parent at the limits
       mode "zone"    (tiny limits) a, b in ONE zone   minimality of Succ, maximality of Pred *)
EXTENDS NameUniverse, TLC

CONSTANTS Modes,
          PairAlpha,   \* alphabet of the pair universe (A10 = the universe run on the implementation)
          ZAlpha       \* alphabet of the tiny zone of mode "zone"
VARIABLES mode, stage, a, b, c, p
vars == <<mode, stage, a, b, c, p>>

(* every legal name of the zone "o." under the (tiny) limits, over ZAlpha *)
UPair == WithAbs(Rel06(PairAlpha))
ZOrigin == << <<111>>, <<>> >>
ZoneNames == {n \in {ZOrigin} \cup {<<x>> \o ZOrigin : x \in UpTo(ZAlpha, MaxLabel)}
                        \cup {<<x, y>> \o ZOrigin : x \in UpTo(ZAlpha, MaxLabel), y \in UpTo(ZAlpha, MaxLabel)} : Valid(n)}

FirstArgs(m) == CASE m = "pair" -> UPair
                  [] m = "mimic" -> UMimic
                  [] m = "triple" -> V06
                  [] m = "neigh" -> {cs[1] : cs \in NeighbourBase}
                  [] m = "neigh2" -> {cs[1] : cs \in MixedCases}
                  [] m = "cons" -> ConstructInputs
                  [] m = "zone" -> ZoneNames
SecondArgs(m, x) == CASE m = "pair" -> UPair
                      [] m = "mimic" -> UMimic
                      [] m = "triple" -> V06
                      [] m = "neigh" -> {cs[2] : cs \in {d \in NeighbourBase : d[1] = x}}
                      [] m = "neigh2" -> {cs[2] : cs \in {d \in MixedCases : d[1] = x}}
                      [] m = "cons" -> ConstructInputs
                      [] m = "zone" -> {ZOrigin}

Init == /\ mode \in Modes /\ stage = 1 /\ a \in FirstArgs(mode)
        /\ b = <<>> /\ c = <<>> /\ p = FALSE
Next == \/ /\ stage = 1 /\ b' \in SecondArgs(mode, a) /\ p' \in (IF mode \in {"neigh", "neigh2", "zone"} THEN BOOLEAN ELSE {FALSE})
           /\ stage' = 2 /\ UNCHANGED <<mode, a, c>>
        \/ /\ stage = 2 /\ mode = "triple" /\ c' \in V06 /\ stage' = 3 /\ UNCHANGED <<mode, a, b, p>>
Spec == Init /\ [][Next]_vars

Pair == mode \in {"pair", "mimic"} /\ stage = 2
Triple == mode = "triple" /\ stage = 3
Neigh == mode \in {"neigh", "neigh2"} /\ stage = 2
Cons == mode = "cons" /\ stage = 2
Zone == mode = "zone" /\ stage = 2

-----------------------------------------------------------------------------
(* C06 laws on pairs *)
Total        == Pair => Cmp(a, b) \in {-1, 0, 1} /\ Cmp(a, a) = 0
Antisymmetric == Pair => Cmp(a, b) = -Cmp(b, a)
EqualIffFold == Pair => /\ ((Cmp(a, b) = 0) <=> SameName(a, b))
                        /\ (SameName(a, b) <=> LowerAll(a) = LowerAll(b))
RelativeFirst == Pair => (~IsAbs(a) /\ IsAbs(b) => Cmp(a, b) < 0 /\ Relation(a, b) = "none" /\ Common(a, b) = 0)
RelationCoherent ==
    Pair => /\ (IsSub(a, b) <=> Relation(a, b) \in {"subdomain", "equal"})
            /\ (IsSuper(a, b) <=> Relation(a, b) \in {"superdomain", "equal"})
            /\ (Relation(a, b) = "subdomain" <=> Relation(b, a) = "superdomain")
            /\ (Relation(a, b) = "equal" <=> Cmp(a, b) = 0)
            /\ (Relation(a, b) = "commonancestor" <=> Relation(b, a) = "commonancestor")
            /\ (Relation(a, b) = "subdomain" => Cmp(a, b) > 0)      \* an ancestor sorts first
CommonCoherent ==
    Pair => LET k == Common(a, b)
            IN  /\ k = Common(b, a) /\ k <= Min(Len(a), Len(b))
                /\ (IsAbs(a) = IsAbs(b) => SameName(Suffix(a, k), Suffix(b, k)))
                /\ (IsAbs(a) = IsAbs(b) /\ k < Min(Len(a), Len(b)) => ~SameName(Suffix(a, k + 1), Suffix(b, k + 1)))
                /\ (IsSub(a, b) <=> IsAbs(a) = IsAbs(b) /\ k = Len(b))
SplitParentCoherent ==
    Pair => /\ \A d \in 0..Len(a) : LET s == Split(a, d) IN
                  /\ s[1] = "ok" /\ s[2] \o s[3] = a /\ Len(s[3]) = d
                  /\ (((d > 0 /\ IsAbs(a)) \/ ~IsAbs(a)) => IsSub(a, s[3]))
                  /\ (IsSub(a, b) /\ d = Len(b) => SameName(s[3], b) /\ s[2] = Relativize(a, b))
            /\ ~IsOk(Split(a, Len(a) + 1)) /\ ~IsOk(Split(a, -1))
            /\ (IsOk(Parent(a)) <=> Len(a) > 0 /\ a # Root)
            /\ (IsOk(Parent(a)) => LET q == Parent(a)[2] IN
                  /\ q = Split(a, Len(a) - 1)[3]
                  /\ ((Len(q) > 0 \/ ~IsAbs(a)) => IsSub(a, q) /\ Relation(a, q) = "subdomain" /\ Common(a, q) = Len(a) - 1))
RelativizeRoundTrip ==
    Pair => /\ (IsSub(a, b) => LET r == Relativize(a, b) IN
                    /\ (Len(b) > 0 => ~IsAbs(r)) /\ Valid(r)
                    /\ IsOk(Derelativize(r, b)) /\ SameName(Derelativize(r, b)[2], a)
                    /\ (~IsAbs(r) => Prefix(Derelativize(r, b)[2], Len(b)) = r))
            /\ (~IsSub(a, b) => Relativize(a, b) = a)
            /\ (IsAbs(a) => Derelativize(a, b) = Ok(a))
            /\ (~IsAbs(a) /\ IsAbs(b) /\ IsOk(Derelativize(a, b)) =>
                    LET d == Derelativize(a, b)[2] IN IsAbs(d) /\ IsSub(d, b) /\ Relativize(d, b) = a)
DeepestIsSuper ==
    Pair => LET keys == {b, Suffix(b, Min(1, Len(b))), Empty}
                r == Deepest(keys, a)
            IN  IF IsOk(r) THEN IsSub(a, r[2]) /\ \A k \in keys : IsSub(a, k) => Len(k) <= Len(r[2])
                ELSE \A k \in keys : ~IsSub(a, k)

(* a subdomain's folded wire form ends with the ancestor's, but NOT conversely: label boundaries
   matter (the mimic universe contains the counterexamples; WireMimicWitness must be violated there) *)
RECURSIVE WireFrom(_, _)
WireFrom(n, i) == IF i > Len(n) THEN <<>> ELSE <<Len(n[i])>> \o LowerLabel(n[i]) \o WireFrom(n, i + 1)
Wire(n) == WireFrom(n, 1)
EndsWith(u, v) == Len(v) <= Len(u) /\ SubSeq(u, Len(u) - Len(v) + 1, Len(u)) = v
SubdomainIsWireSuffix == Pair /\ IsSub(a, b) => EndsWith(Wire(a), Wire(b))
WireMimicWitness == ~(mode = "mimic" /\ stage = 2 /\ IsAbs(a) = IsAbs(b) /\ Len(b) <= Len(a) /\ EndsWith(Wire(a), Wire(b)) /\ ~IsSub(a, b))

(* transitivity on triples *)
Transitive == Triple => /\ (Cmp(a, b) <= 0 /\ Cmp(b, c) <= 0 => Cmp(a, c) <= 0)
                        /\ (Cmp(a, b) < 0 /\ Cmp(b, c) <= 0 => Cmp(a, c) < 0)
                        /\ (Cmp(a, b) = 0 => Cmp(a, c) = Cmp(b, c))
SubTransitive == Triple => (IsSub(a, b) /\ IsSub(b, c) => IsSub(a, c))

(* successor / predecessor (RFC 4471) at the real limits *)
NeighOk == Neigh => LET s == Succ(a, b, p)  q == Pred(a, b, p)
                    IN  /\ (IsOk(Derelativize(a, b)) => (IsOk(s) /\ GoodSucc(a, b, s[2]) /\ IsOk(q) /\ GoodPred(a, b, q[2])))
                        /\ (~IsOk(Derelativize(a, b)) => (~IsOk(s) /\ ~IsOk(q)))
(* successor(predecessor(n)) = n and predecessor(successor(n)) = n inside the zone, when no wrap
   happens and prefixing is allowed (then both are exact neighbours) *)
NeighInverse ==
    Neigh /\ p /\ IsAbs(a) => LET s == Succ(a, b, TRUE)[2]  q == Pred(a, b, TRUE)[2]
                              IN  /\ (~SameName(s, b) => SameName(Pred(s, b, TRUE)[2], a))
                                  /\ (~SameName(a, b) => SameName(Succ(q, b, TRUE)[2], a))

(* constructors at the limits (C01) *)
ConstructValid == Cons => /\ (IsOk(Construct(a)) <=> Valid(a))
                          /\ (IsOk(Construct(a)) => Construct(a)[2] = a)
ConcatValid == Cons /\ Valid(a) /\ Valid(b) =>
                   LET r == Concat(a, b)
                   IN  /\ (IsOk(r) => Valid(r[2]) /\ r[2] = a \o b /\ WireLen(r[2]) = WireLen(a) + WireLen(b))
                       /\ (~IsOk(r) <=> (IsAbs(a) /\ Len(b) > 0) \/ WireLen(a) + WireLen(b) > MaxWire
                                        \/ (IsAbs(a) /\ Len(b) = 0 /\ FALSE))
                       /\ (IsOk(Derelativize(a, b)) => Valid(Derelativize(a, b)[2]))
                       /\ Valid(Relativize(a, b))
SplitValid == Cons /\ Valid(a) => \A d \in 0..Len(a) : Valid(Split(a, d)[2]) /\ Valid(Split(a, d)[3])

(* tiny limits: Succ is THE least greater name of the zone, Pred THE greatest smaller one
   (stage 2 has b = the origin; the quantifier ranges over every legal name of the zone) *)
SuccMinimal ==
    Zone => LET s == AbsSucc(a, b, p)
                after == {m \in ZoneNames : Cmp(a, m) < 0 /\ (p \/ ~IsSub(m, a))}
            IN  /\ Valid(s) /\ IsSub(s, b)
                /\ IF after = {} THEN SameName(s, b)
                   ELSE Cmp(a, s) < 0 /\ (p \/ ~IsSub(s, a)) /\ \A m \in after : Cmp(s, m) <= 0
PredMaximal ==
    Zone /\ p => LET q == AbsPred(a, b, TRUE)
                     before == {m \in ZoneNames : Cmp(m, a) < 0}
                 IN  /\ Valid(q) /\ IsSub(q, b)
                     /\ IF before = {} THEN \A m \in ZoneNames : Cmp(m, q) <= 0      \* wrapped to the last name
                        ELSE Cmp(q, a) < 0 /\ \A m \in before : Cmp(m, q) <= 0
PredNoPrefix ==
    Zone /\ ~p /\ ~SameName(a, b) => LET q == AbsPred(a, b, FALSE) IN Valid(q) /\ IsSub(q, b) /\ Cmp(q, a) < 0
=============================================================================
