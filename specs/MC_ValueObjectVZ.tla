--------------------------- MODULE MC_ValueObjectVZ ---------------------------
EXTENDS ValueObjectVZ
Bound == examined <= 2 /\ \A k \in Kinds : Cardinality(attempted[k]) <= 1 /\ Cardinality(offered[k]) <= 2
=============================================================================
