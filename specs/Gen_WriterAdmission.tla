------------------------- MODULE Gen_WriterAdmission -------------------------
(* Schedule generator for C12.  The state graph of WriterAdmission is explored at
   lock/event granularity: the internal (line) steps of a thread are taken eagerly, lowest
   thread first (and, to reduce the graph further, the observable labels in EagerLabels:
   purely local API returns, optionally the operations inside a lock hold), so every remaining transition is one OBSERVABLE operation (lock acquire /
   release, event creation / wait / set, API return) of one thread.  hist is the string of
   thread ids of the observable steps taken so far; it is excluded from the VIEW, so TLC
   visits every state once (by a shortest path) and evaluates the ACTION_CONSTRAINT EmitEdge
   once for every transition of the graph: the printed schedules are an exact EDGE COVER
   (shortest path to the source state + the edge).  Only the environment's choices are
   emitted: the plan (how each transaction ends) and the schedule. *)
EXTENDS MC_WriterAdmission, Json

CONSTANT EagerLabels   \* observable labels that are also taken eagerly (graph reduction)
VARIABLE hist
gvars == <<vars, hist>>
GView == vars

InternalLabels == {"wStart", "wTest", "wEnq", "wSetup", "cAppend", "cPrune", "cPublish",
                   "xClear", "xTest", "xPop", "rStart", "rPick", "rcEnd", "rcPrune",
                   "pStart", "pSet", "pPrune"}
LocalApiLabels == {"wRet", "wBody", "eEnd", "rOpen", "rRead", "rEnd", "pEnd"}
InLockLabels == {"wRelA", "wNewEv", "wRelW", "xSet", "eRel", "rRel", "rcRel", "pRel"}
IntThreads == {t \in Threads : pc[t] \in InternalLabels \cup EagerLabels}
StepOf(t) == IF t \in Writers THEN w(t) ELSE IF t \in Readers THEN r(t) ELSE pol(t)

GInit == Init /\ hist = ""
GNext ==
    IF IntThreads # {}
    THEN LET t == MinOf(IntThreads)
         IN StepOf(t) /\ hist' = IF pc[t] \in InternalLabels THEN hist ELSE hist \o ToString(t)
    ELSE \E t \in Threads : StepOf(t) /\ hist' = hist \o ToString(t)

EagerA == LocalApiLabels \cup InLockLabels
EagerB == LocalApiLabels
EagerNone == {}
WSeq == [i \in 1..Cardinality(Writers) |-> plan[i]]
RSeq == [i \in 1..Cardinality(Readers) |-> rplan[4 + i]]
RMSeq == [i \in 1..Cardinality(Readers) |-> rmode[4 + i]]
PSeq == IF Policers = {} THEN <<>> ELSE pplan[7]
EmitEdge == (hist' # hist) => PrintT("SCH " \o ToJson([p |-> WSeq, rp |-> RSeq, rm |-> RMSeq, pp |-> PSeq, s |-> hist']))
=============================================================================
