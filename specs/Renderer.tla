------------------------------ MODULE Renderer ------------------------------
(* Incremental renderer of DNS messages with a size budget (the documented behaviour of
   dns.renderer.Renderer, one action per public call) and the composite rendering of a
   whole message with OPT / TSIG reserve, truncation and padding (Message.to_wire).

   State (one record, so that the composite can be written as function composition):
     out       octets written so far (12-octet header placeholder first); pos == Len(out)
     table     compression table: lower-cased non-root name -> offset
     counts    <<QD, AN, NS, AR>> records added per section
     section   current section 0..3 (sections are rendered in order)
     maxSize   current budget;  reserved  octets set aside by Reserve
     flags/id  header fields written by WriteHeader;  padded  a padding option was added
     res       outcome of the last call: "ok" | "toobig" | "formerr"
   Ghost (for stating the properties):
     qs, xs    questions / records (ExpRRs) that are in  out
     rb        rollback points so far *)
EXTENDS MessageCodec

Pos(S) == Len(S.out)
Bump(c, sec, n) == [c EXCEPT ![sec + 1] = @ + n]

FInit(id, flags, max) ==
    [out |-> Fill(12, 0), table |-> <<>>, counts |-> <<0, 0, 0, 0>>, section |-> 0, maxSize |-> max,
     reserved |-> 0, flags |-> flags, id |-> id, padded |-> FALSE, res |-> "ok",
     qs |-> <<>>, xs |-> <<>>, rb |-> <<>>]

\* common tail of every add: the encoding e (octets + new table) of one question / record
\* set is appended whole, or - if it would end beyond the budget - removed whole: the
\* output and the table are exactly as before the call (no entry at or after the start)
FCommit(S, sec, e, n, q, x) ==
    IF S.section > sec THEN [S EXCEPT !.res = "formerr"]
    ELSE IF Pos(S) + Len(e.b) > S.maxSize
         THEN [S EXCEPT !.section = sec, !.res = "toobig", !.rb = Append(@, Pos(S))]
         ELSE [S EXCEPT !.section = sec, !.res = "ok", !.out = @ \o e.b, !.table = e.t,
                        !.counts = Bump(@, sec, n), !.qs = @ \o q, !.xs = @ \o x]

FAddQuestion(S, q) == FCommit(S, 0, EncQuestion(q, Pos(S), S.table), 1, <<q>>, <<>>)
FAddRRset(S, sec, rs) == FCommit(S, sec, EncRRset(rs, Pos(S), S.table), RRCount(rs), <<>>, ExpRRs(rs, sec))

FReserve(S, n) == [S EXCEPT !.reserved = @ + n, !.maxSize = @ - n, !.res = "ok"]
FRelease(S) == [S EXCEPT !.maxSize = @ + S.reserved, !.reserved = 0, !.res = "ok"]
FSetFlags(S, f) == [S EXCEPT !.flags = f]
FWriteHeader(S) == [S EXCEPT !.out = Header(S.id, S.flags, S.counts) \o SubSeq(@, 13, Len(@)), !.res = "ok"]

\* OPT with optional padding (RFC 7830): the padding option (code 12) is appended to the
\* options so that  pos + optSize + tsigSize + padding  is a multiple of pad, where
\* optSize is the size of the OPT record with an EMPTY padding option and tsigSize the
\* size of the TSIG record that will follow
PadLen(pos, pad, optSize, tsigSize) ==
    LET r == (pos + optSize + tsigSize) % pad IN IF r = 0 THEN 0 ELSE pad - r
PadOption(n) == <<<<"b", U16(12) \o U16(n)>>, <<"z", n, 0>>>>
WithPadding(opt, n) == [opt EXCEPT !.rds = <<@[1] \o PadOption(n)>>]
FAddOpt(S, opt, pad, optSize, tsigSize) ==
    IF pad = 0 THEN FAddRRset(S, 3, opt)
    ELSE LET T == FAddRRset(S, 3, WithPadding(opt, PadLen(Pos(S), pad, optSize, tsigSize)))
         IN [T EXCEPT !.padded = TRUE]

\* TSIG record (low-level add_tsig): owner name compressed only if no padding was applied
\* (its size was reserved uncompressed); ARCOUNT in the already written header is patched
EncTsig(rs, pos, tab, c) ==
    LET o == EncName(rs.name, pos, tab, c, c)
        d == EncItems(rs.rds[1], pos + Len(o.b) + 10, o.t)
    IN [b |-> o.b \o U16(rs.type) \o U16(rs.cls) \o U32L(rs.ttl) \o U16(Len(d.b)) \o d.b, t |-> d.t]
FAddTsig(S, rs, c) ==
    LET T == FCommit(S, 3, EncTsig(rs, Pos(S), S.table, c), 1, <<>>, ExpRRs(rs, 3))
    IN IF T.res # "ok" THEN T
       ELSE [T EXCEPT !.out = SubSeq(@, 1, 10) \o U16(T.counts[4]) \o SubSeq(@, 13, Len(@))]

(* ------------------------------------------------------------------ sizes *)
RECURSIVE ItemsLen(_)
ItemsLen(it) == IF it = <<>> THEN 0
                ELSE (IF it[1][1] = "b" THEN Len(it[1][2]) ELSE IF it[1][1] = "z" THEN it[1][2]
                      ELSE NameWireLen(it[1][2])) + ItemsLen(Tail(it))
\* size of a one-record record set written without any compression
PlainSize(rs) == NameWireLen(rs.name) + 10 + ItemsLen(rs.rds[1])

(* ------------------------------------------------------------------ whole message
   m = [id, flags, q, an, au, ad, opt, tsig, pad]:  q a sequence of questions, an/au/ad
   sequences of record sets, opt / tsig sequences of length 0 or 1 (a one-record record
   set), pad the padding block size (0 = none).
   pol = [optRes, tsigRes, ctsig]: how much is set aside for OPT and TSIG while the
   sections are rendered and whether the TSIG owner name may be compressed - choices of
   the implementation; the properties below hold for the INTENDED policy. *)
Clamp(max) == IF max = 0 THEN 65535 ELSE IF max < 512 THEN 512 ELSE IF max > 65535 THEN 65535 ELSE max
SecItems(rss, sec) == [i \in 1..Len(rss) |-> [sec |-> sec, v |-> rss[i]]]
MsgItems(m) == [i \in 1..Len(m.q) |-> [sec |-> 0, v |-> m.q[i]]]
               \o SecItems(m.an, 1) \o SecItems(m.au, 2) \o SecItems(m.ad, 3)
OptBase(m) == IF m.opt = <<>> THEN 0 ELSE PlainSize(m.opt[1]) + (IF m.pad > 0 THEN 4 ELSE 0)
TsigSize(m) == IF m.tsig = <<>> THEN 0 ELSE PlainSize(m.tsig[1])
Intended(m) == [optRes |-> OptBase(m) + (IF m.opt # <<>> /\ m.pad > 0 THEN m.pad - 1 ELSE 0),
                tsigRes |-> TsigSize(m),
                ctsig |-> m.opt = <<>> \/ m.pad = 0]

FAddItem(S, it) == IF it.sec = 0 THEN FAddQuestion(S, it.v) ELSE FAddRRset(S, it.sec, it.v)
RECURSIVE FAddAll(_, _)
FAddAll(S, items) ==
    IF items = <<>> THEN S
    ELSE LET T == FAddItem(S, items[1]) IN IF T.res # "ok" THEN T ELSE FAddAll(T, Tail(items))

SetTC(f) == IF HasBit(f, TC) THEN f ELSE f + TC
ToWire(m, maxArg, pt, pol) ==
    LET S1 == FReserve(FReserve(FInit(m.id, m.flags, Clamp(maxArg)), pol.optRes), pol.tsigRes)
        S2 == FAddAll(S1, MsgItems(m))
    IN IF S2.res # "ok" /\ ~pt THEN S2
       ELSE LET S2b == IF S2.res # "ok" /\ S2.section < 3 THEN FSetFlags(S2, SetTC(S2.flags)) ELSE S2
                S3 == FRelease(S2b)
                S4 == IF m.opt = <<>> THEN S3 ELSE FAddOpt(S3, m.opt[1], m.pad, OptBase(m), TsigSize(m))
            IN IF S4.res # "ok" THEN S4
               ELSE IF m.tsig = <<>> THEN FWriteHeader(S4)
               ELSE LET S6 == FCommit(S4, 3, EncTsig(m.tsig[1], Pos(S4), S4.table, pol.ctsig), 1,
                                      <<>>, ExpRRs(m.tsig[1], 3))
                    IN IF S6.res # "ok" THEN S6 ELSE FWriteHeader(S6)

(* ------------------------------------------------------------------ properties of a result
   All are stated on the octets alone (decoded with Parse / Decode), given the message. *)
AllSets(m) == SecItems(m.an, 1) \o SecItems(m.au, 2) \o SecItems(m.ad, 3)
RECURSIVE ExpItems(_)
ExpItems(its) == IF its = <<>> THEN <<>> ELSE ExpRRs(its[1].v, its[1].sec) \o ExpItems(Tail(its))
\* the record sequence a result must hold when the first k record sets were kept and the
\* padding option carries n octets
Trailer(m, n) ==
    (IF m.opt = <<>> THEN <<>> ELSE ExpRRs(IF m.pad > 0 THEN WithPadding(m.opt[1], n) ELSE m.opt[1], 3))
    \o (IF m.tsig = <<>> THEN <<>> ELSE ExpRRs(m.tsig[1], 3))
KeptOk(w, m, flags, nq, k, n) ==
    WireIs(w, m.id, flags, SubSeq(m.q, 1, nq), ExpItems(SubSeq(AllSets(m), 1, k)) \o Trailer(m, n))
\* was something before ADDITIONAL left out?
DroppedEarly(m, nq, k) == nq < Len(m.q) \/ k < Len(m.an) + Len(m.au)
RECURSIVE CumCount(_, _)
CumCount(its, k) == IF k = 0 THEN 0 ELSE CumCount(its, k - 1) + RRCount(its[k].v)
TrailerCount(m) == Len(m.opt) + Len(m.tsig)
\* I1-I8 for octets w returned for (m, max, pt).  The number of questions / record sets kept
\* and the padding length are read off the octets (header counts, OPT RDLENGTH); everything
\* is then verified by WireIs with the independent decoder.
ResultOk(w, m, maxArg, pt) ==
    LET p == Parse(w)
        nq == p.counts[1]
        nrec == p.counts[2] + p.counts[3] + p.counts[4] - TrailerCount(m)
        ks == {k \in 0..Len(AllSets(m)) : CumCount(AllSets(m), k) = nrec}
        k == CHOOSE k \in ks : TRUE
        optIx == {i \in 1..Len(p.rr) : p.rr[i].type = TyOPT}
        n == IF m.opt = <<>> \/ m.pad = 0 \/ optIx = {} THEN 0
             ELSE p.rr[CHOOSE i \in optIx : TRUE].rdlen - ItemsLen(m.opt[1].rds[1]) - 4
        tc == IF DroppedEarly(m, nq, k) THEN SetTC(m.flags) ELSE m.flags
    IN /\ Len(w) <= Clamp(maxArg)                                                   \* I1
       /\ p.ok                                                                      \* I7
       /\ (m.opt # <<>> /\ m.pad > 0) => Len(w) % m.pad = 0                          \* I8
       /\ nq <= Len(m.q) /\ ks # {} /\ n >= 0                                        \* I2 whole sets
       /\ (nq < Len(m.q) => k = 0)
       /\ (~pt => nq = Len(m.q) /\ k = Len(AllSets(m)))
       /\ KeptOk(w, m, tc, nq, k, n)                                     \* I2 I3 I4 I5 I6 I7
\* the first failing conjunct, for diagnostics
ResultClause(w, m, maxArg, pt) ==
    LET p == Parse(w) IN
    IF Len(w) > Clamp(maxArg) THEN "I1_SizeLimit"
    ELSE IF ~p.ok THEN "I7_Parses"
    ELSE IF m.opt # <<>> /\ m.pad > 0 /\ Len(w) % m.pad # 0 THEN "I8_PadMultiple"
    ELSE IF p.counts[4] < TrailerCount(m) THEN "I4_OptTsigPresent"
    ELSE "I2_PrefixWholeSets_I3_TC_I5_Counts_I6_Pointers"

(* ------------------------------------------------------------------ actions *)
VARIABLE st
vars == <<st>>

RInit(id, flags, max) == st = FInit(id, flags, max)
AddQuestion(q) == st' = FAddQuestion(st, q)
AddRRset(sec, rs) == st' = FAddRRset(st, sec, rs)
AddOpt(opt, pad, optSize, tsigSize) == st' = FAddOpt(st, opt, pad, optSize, tsigSize)
WriteHeader == st' = FWriteHeader(st)
AddTsig(rs) == st' = FAddTsig(st, rs, ~st.padded)
Reserve(n) == n >= 0 /\ n <= st.maxSize /\ st' = FReserve(st, n)
Release == st' = FRelease(st)
SetFlags(f) == st' = FSetFlags(st, f)
MessageToWire(m, maxArg, pt) == st' = ToWire(m, maxArg, pt, Intended(m))

(* ------------------------------------------------------------------ state invariants *)
\* every table entry names an offset that is addressable by a pointer, lies inside the
\* current output and decodes (independent decoder) to exactly the name it is filed under
TableSound ==
    \A k \in DOMAIN st.table :
        LET off == st.table[k] d == Decode(st.out, off)
        IN off >= 12 /\ off <= MaxPtr /\ off < Len(st.out) /\ d.ok /\ LowerName(d.name) = k /\ k # <<>>
CountsMatch ==
    /\ st.counts[1] = Len(st.qs)
    /\ \A s \in 1..3 : st.counts[s + 1] = Cardinality({i \in 1..Len(st.xs) : st.xs[i].sec = s})
\* Parse(Render) = identity and CompressionSound, at every prefix of the rendering
RoundTrip == WireIs(FWriteHeader(st).out, st.id, st.flags, st.qs, st.xs)
Budget == Len(st.out) <= st.maxSize + st.reserved
\* an add that was refused leaves output, table and counts untouched
RefusedIsNoop == [][st'.res # "ok" => /\ st'.out = st.out /\ st'.table = st.table
                                      /\ st'.counts = st.counts /\ st'.xs = st.xs]_vars
=============================================================================
