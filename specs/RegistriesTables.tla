--------------------------- MODULE RegistriesTables ---------------------------
(* X09 - the mnemonic tables used by the STRICT (drift-only) configuration and as sample
   tables for the laws of RegistriesText.  A table is a sequence of <<value, NAME>>; the first
   entry of a value is its canonical name.
   TypeTable / ClassTable: generated once from the published lists doc/rdatatype-list.rst and
   doc/rdataclass-list.rst ("_" written as "-": the IANA mnemonic of 23 is NSAP-PTR).
   The others: IANA "DNS Parameters" as of the RFCs named in the module sources - RFC 6895 2.2 /
   2.3, RFC 8490 (DSO), RFC 8945, RFC 2930, RFC 7873; the EDNS option constants published in
   doc/message-edns.rst; IANA "DNS Security Algorithm Numbers", "DS RR Type Digest
   Algorithms", RFC 5155; RFC 9460 14.3.2, RFC 9461, RFC 9540; RFC 8976; RFC 1035 4.1 / RFC 2136 2. *)
EXTENDS RegistriesText

TypeTable == <<
    <<0, "TYPE0">>, <<0, "NONE">>, <<1, "A">>, <<2, "NS">>, <<3, "MD">>, <<4, "MF">>,
    <<5, "CNAME">>, <<6, "SOA">>, <<7, "MB">>, <<8, "MG">>, <<9, "MR">>, <<10, "NULL">>,
    <<11, "WKS">>, <<12, "PTR">>, <<13, "HINFO">>, <<14, "MINFO">>, <<15, "MX">>, <<16, "TXT">>,
    <<17, "RP">>, <<18, "AFSDB">>, <<19, "X25">>, <<20, "ISDN">>, <<21, "RT">>, <<22, "NSAP">>,
    <<23, "NSAP-PTR">>, <<24, "SIG">>, <<25, "KEY">>, <<26, "PX">>, <<27, "GPOS">>,
    <<28, "AAAA">>, <<29, "LOC">>, <<30, "NXT">>, <<33, "SRV">>, <<35, "NAPTR">>, <<36, "KX">>,
    <<37, "CERT">>, <<38, "A6">>, <<39, "DNAME">>, <<41, "OPT">>, <<42, "APL">>, <<43, "DS">>,
    <<44, "SSHFP">>, <<45, "IPSECKEY">>, <<46, "RRSIG">>, <<47, "NSEC">>, <<48, "DNSKEY">>,
    <<49, "DHCID">>, <<50, "NSEC3">>, <<51, "NSEC3PARAM">>, <<52, "TLSA">>, <<53, "SMIMEA">>,
    <<55, "HIP">>, <<56, "NINFO">>, <<59, "CDS">>, <<60, "CDNSKEY">>, <<61, "OPENPGPKEY">>,
    <<62, "CSYNC">>, <<63, "ZONEMD">>, <<64, "SVCB">>, <<65, "HTTPS">>, <<66, "DSYNC">>,
    <<99, "SPF">>, <<103, "UNSPEC">>, <<104, "NID">>, <<105, "L32">>, <<106, "L64">>,
    <<107, "LP">>, <<108, "EUI48">>, <<109, "EUI64">>, <<128, "NXNAME">>, <<249, "TKEY">>,
    <<250, "TSIG">>, <<251, "IXFR">>, <<252, "AXFR">>, <<253, "MAILB">>, <<254, "MAILA">>,
    <<255, "ANY">>, <<256, "URI">>, <<257, "CAA">>, <<258, "AVC">>, <<260, "AMTRELAY">>,
    <<261, "RESINFO">>, <<262, "WALLET">>, <<32768, "TA">>, <<32769, "DLV">> >>

ClassTable == <<
    <<0, "RESERVED0">>, <<1, "IN">>, <<1, "INTERNET">>, <<3, "CH">>, <<3, "CHAOS">>, <<4, "HS">>,
    <<4, "HESIOD">>, <<254, "NONE">>, <<255, "ANY">> >>

RcodeTable == <<
    <<0, "NOERROR">>, <<1, "FORMERR">>, <<2, "SERVFAIL">>, <<3, "NXDOMAIN">>, <<4, "NOTIMP">>, <<5, "REFUSED">>,
    <<6, "YXDOMAIN">>, <<7, "YXRRSET">>, <<8, "NXRRSET">>, <<9, "NOTAUTH">>, <<10, "NOTZONE">>, <<11, "DSOTYPENI">>,
    <<16, "BADVERS">>, <<16, "BADSIG">>, <<17, "BADKEY">>, <<18, "BADTIME">>, <<19, "BADMODE">>, <<20, "BADNAME">>,
    <<21, "BADALG">>, <<22, "BADTRUNC">>, <<23, "BADCOOKIE">> >>
OpcodeTable == << <<0, "QUERY">>, <<1, "IQUERY">>, <<2, "STATUS">>, <<4, "NOTIFY">>, <<5, "UPDATE">>, <<6, "DSO">> >>
OptionTable == << <<3, "NSID">>, <<5, "DAU">>, <<6, "DHU">>, <<7, "N3U">>, <<8, "ECS">>, <<9, "EXPIRE">>,
    <<10, "COOKIE">>, <<11, "KEEPALIVE">>, <<12, "PADDING">>, <<13, "CHAIN">> >>
AlgorithmTable == << <<1, "RSAMD5">>, <<2, "DH">>, <<3, "DSA">>, <<5, "RSASHA1">>, <<6, "DSANSEC3SHA1">>,
    <<7, "RSASHA1NSEC3SHA1">>, <<8, "RSASHA256">>, <<10, "RSASHA512">>, <<12, "ECCGOST">>, <<13, "ECDSAP256SHA256">>,
    <<14, "ECDSAP384SHA384">>, <<15, "ED25519">>, <<16, "ED448">>, <<252, "INDIRECT">>, <<253, "PRIVATEDNS">>,
    <<254, "PRIVATEOID">> >>
DsDigestTable == << <<1, "SHA1">>, <<2, "SHA256">>, <<3, "GOST">>, <<4, "SHA384">> >>
Nsec3HashTable == << <<1, "SHA1">> >>
SvcParamTable == << <<0, "MANDATORY">>, <<1, "ALPN">>, <<2, "NO-DEFAULT-ALPN">>, <<3, "PORT">>, <<4, "IPV4HINT">>,
    <<5, "ECH">>, <<6, "IPV6HINT">>, <<7, "DOHPATH">>, <<8, "OHTTP">> >>
SectionTable == << <<0, "QUESTION">>, <<1, "ANSWER">>, <<2, "AUTHORITY">>, <<3, "ADDITIONAL">> >>
UpdSectionTable == << <<0, "ZONE">>, <<1, "PREREQ">>, <<2, "UPDATE">>, <<3, "ADDITIONAL">> >>
ZonemdSchemeTable == << <<1, "SIMPLE">> >>
ZonemdHashTable == << <<1, "SHA384">>, <<2, "SHA512">> >>

(* registries with no table here (EDE: the info-code names are prose, RFC 8914 4) are judged by the laws only *)
Tabled == Regs \ {"ede"}
Table(reg) == CASE reg = "type" -> TypeTable [] reg = "class" -> ClassTable [] reg = "rcode" -> RcodeTable
                [] reg = "opcode" -> OpcodeTable [] reg = "option" -> OptionTable [] reg = "algorithm" -> AlgorithmTable
                [] reg = "dsdigest" -> DsDigestTable [] reg = "nsec3hash" -> Nsec3HashTable [] reg = "svcparam" -> SvcParamTable
                [] reg = "section" -> SectionTable [] reg = "updsection" -> UpdSectionTable
                [] reg = "zonemdscheme" -> ZonemdSchemeTable [] reg = "zonemdhash" -> ZonemdHashTable [] OTHER -> <<>>

(* dns.rdatatype.is_metatype: "The currently defined metatypes are TKEY, TSIG, IXFR, AXFR, MAILA, MAILB,
   ANY, OPT, and NXNAME."  RFC 6895 3.1: 128-255 is the range of Q and Meta types.
   dns.rdatatype.is_singleton: "The currently defined singleton types are CNAME, DNAME, NSEC, NXT, and SOA."
   dns.rdataclass.is_metaclass: "The currently defined metaclasses are ANY and NONE." *)
MetaTypesListed == {249, 250, 251, 252, 254, 253, 255, 41, 128}
MetaTypeRange == 128..255
SingletonTypes == {5, 39, 47, 30, 6}
MetaClasses == {255, 254}
=============================================================================
