--------------------------- MODULE Gen_XfrInbound ---------------------------
(* Behaviour generator for C13.  All choices of the environment (chain of versions,
   serials, kind of exchange, fault, cut into messages, question mode) are made in the
   initial state and collected in `script`, so a behaviour is determined by its initial
   state: every initial state is printed as one JSON string and nothing is explored
   beyond it.  Only the environment's choices are emitted; the oracle is Trace_XfrInbound. *)
EXTENDS MC_XfrInbound, Json

GInit == Init
GNext == UNCHANGED vars
Emit == PrintT("BEH " \o ToJson(script))

(* vacuity witnesses (run with -workers 1): print each distinct (reason of the error,
   done, kind of exchange) reached at exit once *)
WInit == Init /\ TLCSet(5, {})
Witness == (phase = "exited") =>
    LET w == <<c.why, c.done, script.kind>> IN
    IF w \in TLCGet(5) THEN TRUE
    ELSE TLCSet(5, TLCGet(5) \cup {w}) /\ PrintT("WIT " \o ToJson(w))
=============================================================================
