------------------------------ MODULE ZoneTxn ------------------------------
(* Reference model of zone transactions (dns.transaction.Transaction as implemented by
   dns.zone.Zone, dns.versioned.Zone and dns.btreezone.Zone), property C10.

   Zone content is a function from <<owner, type>> to [ttl, rds]; owners are written
   relative to the zone origin ("@" is the apex), types are strings ("RRSIG/A" is the
   RRSIG rdataset covering A), an rdata is a tuple of naturals: <<k>> for ordinary
   records, <<hi, lo>> (two 16-bit limbs of the serial) for SOA.

   One action per public call of a transaction; each action either applies its
   documented effect to `working` or is refused and changes nothing.  `res` records
   whether the last call was refused, `val` the value a read returned. *)
EXTENDS Integers, Sequences, FiniteSets, TLC

CONSTANTS Names,        \* owner names inside the zone, relative spelling, "@" = apex
          Types,        \* rdataset types
          RdIds,        \* rdata identifiers k of ordinary types (rdata = <<k>>)
          TTLs,
          Serials,      \* SOA serials <<hi, lo>> used by add/replace of SOA
          SerialArgs,   \* arguments of update_serial: [neg |-> BOOLEAN, value |-> <<hi,lo>>, relative |-> BOOLEAN]
          InitZones,    \* set of initial zone contents
          MaxOps        \* bound on calls per transaction (model checking only)

VARIABLES committed,   \* content of the zone as visible outside the transaction
          working,     \* content seen inside the open transaction
          mode,        \* "idle" | "write" | "read" | "ended"
          replacing,   \* the open write transaction was begun with replacement=True
          corigin,     \* BOOLEAN: the zone's origin is known outside the transaction
          worigin,     \* BOOLEAN: the origin is known inside the open transaction
          nops,        \* calls made in this transaction
          res,         \* "ok" | "refused"   outcome of the last call
          val          \* value returned by the last read: <<"-">>, <<"none">>, <<"rds", ttl, rds>>, <<"bool", b>>,
                       \* <<"names", set>>, <<"node", set of types>>

vars == <<committed, working, mode, replacing, corigin, worigin, nops, res, val>>

---------------------------------------------------------------------------
(* Static rules *)
Singleton(ty) == ty \in {"SOA", "CNAME", "DNAME", "NSEC", "NXT"}
CnameKind(ty) == ty \in {"CNAME", "RRSIG/CNAME"}
NeutralKind(ty) == ty \in {"NSEC", "NSEC3", "KEY", "RRSIG/NSEC", "RRSIG/NSEC3", "RRSIG/KEY"}
RegularKind(ty) == ~CnameKind(ty) /\ ~NeutralKind(ty)

Min(a, b) == IF a < b THEN a ELSE b

Has(w, n, ty) == <<n, ty>> \in DOMAIN w
NodeTypes(w, n) == {k[2] : k \in {k \in DOMAIN w : k[1] = n}}
NameExists(w, n) == NodeTypes(w, n) # {}

(* store rdataset (ty, ttl, rds) at n, "most recent change wins" for CNAME vs other data *)
Put(w, n, ty, ttl, rds) ==
    LET others == {k \in DOMAIN w : k[1] = n /\ k[2] # ty}
        drop == IF CnameKind(ty) THEN {k \in others : RegularKind(k[2])}
                ELSE IF RegularKind(ty) THEN {k \in others : CnameKind(k[2])}
                ELSE {}
        keep == (DOMAIN w \ drop) \cup {<<n, ty>>}
    IN [k \in keep |-> IF k = <<n, ty>> THEN [ttl |-> ttl, rds |-> rds] ELSE w[k]]

DelRds(w, n, ty) == [k \in DOMAIN w \ {<<n, ty>>} |-> w[k]]
DelName(w, n) == [k \in {k \in DOMAIN w : k[1] # n} |-> w[k]]

(* RFC 1982 serial arithmetic on two 16-bit limbs *)
SerialAdd(s, v) ==
    LET lo == s[2] + v[2]
        hi == s[1] + v[1] + (IF lo >= 65536 THEN 1 ELSE 0)
    IN <<hi % 65536, lo % 65536>>
NoZero(s) == IF s = <<0, 0>> THEN <<0, 1>> ELSE s

(* Well-formedness of a zone content *)
NoCnameAndOther(w) ==
    \A n \in {k[1] : k \in DOMAIN w} :
        ~(\E a, b \in NodeTypes(w, n) : CnameKind(a) /\ RegularKind(b))
NoEmptyRdataset(w) == \A k \in DOMAIN w : w[k].rds # {}
SingletonsSingle(w) == \A k \in DOMAIN w : Singleton(k[2]) => Cardinality(w[k].rds) = 1
SoaOnlyAtApex(w) == \A k \in DOMAIN w : k[2] = "SOA" => k[1] = "@"
WellFormed(w) == NoCnameAndOther(w) /\ NoEmptyRdataset(w) /\ SingletonsSingle(w) /\ SoaOnlyAtApex(w)

---------------------------------------------------------------------------
(* Calls.  `Refuse` is what every call does when it raises: nothing. *)
Refuse == /\ res' = "refused" /\ val' = <<"-">>
          /\ UNCHANGED <<committed, working, mode, replacing, corigin, worigin>>

Called == nops' = nops + 1

Begin(kind, replacement) ==
    /\ mode = "idle"
    /\ mode' = kind
    /\ working' = IF kind = "write" /\ replacement THEN <<>> ELSE committed
    /\ replacing' = (kind = "write" /\ replacement)
    /\ nops' = 0 /\ res' = "ok" /\ val' = <<"-">>
    /\ worigin' = corigin
    /\ UNCHANGED <<committed, corigin>>

Open == mode \in {"write", "read"}

(* add(name, ttl, rdata...) / add(name, rdataset) / add(rrset);  inzone = FALSE models
   an owner name that is not at or below the origin *)
Add(inzone, n, ty, ttl, rds) ==
    /\ Open /\ Called
    /\ IF mode = "read" \/ (~inzone \/ ~worigin) \/ (ty = "SOA" /\ n # "@") \/ rds = {}
       THEN Refuse
       ELSE /\ working' =
                 IF Has(working, n, ty)
                 THEN Put(working, n, ty, Min(working[<<n, ty>>].ttl, ttl),
                          IF Singleton(ty) THEN rds ELSE working[<<n, ty>>].rds \cup rds)
                 ELSE Put(working, n, ty, ttl, rds)
            /\ res' = "ok" /\ val' = <<"-">>
            /\ UNCHANGED <<committed, mode, replacing, corigin, worigin>>

Replace(inzone, n, ty, ttl, rds) ==
    /\ Open /\ Called
    /\ IF mode = "read" \/ (~inzone \/ ~worigin) \/ (ty = "SOA" /\ n # "@") \/ rds = {}
       THEN Refuse
       ELSE /\ working' = Put(working, n, ty, ttl, rds)
            /\ res' = "ok" /\ val' = <<"-">>
            /\ UNCHANGED <<committed, mode, replacing, corigin, worigin>>

(* delete(name) / delete_exact(name) *)
DeleteName(exact, inzone, n) ==
    /\ Open /\ Called
    /\ IF mode = "read" \/ (~inzone \/ ~worigin) \/ (exact /\ ~NameExists(working, n))
       THEN Refuse
       ELSE /\ working' = DelName(working, n)
            /\ res' = "ok" /\ val' = <<"-">>
            /\ UNCHANGED <<committed, mode, replacing, corigin, worigin>>

(* delete(name, type[, covers]) *)
DeleteType(exact, inzone, n, ty) ==
    /\ Open /\ Called
    /\ IF mode = "read" \/ (~inzone \/ ~worigin) \/ (exact /\ ~Has(working, n, ty))
       THEN Refuse
       ELSE /\ working' = DelRds(working, n, ty)
            /\ res' = "ok" /\ val' = <<"-">>
            /\ UNCHANGED <<committed, mode, replacing, corigin, worigin>>

(* delete(name, rdataset) / delete(name, rdata) / delete(rrset) *)
DeleteRdatas(exact, inzone, n, ty, rds) ==
    /\ Open /\ Called
    /\ IF \/ mode = "read" \/ (~inzone \/ ~worigin) \/ rds = {}
          \/ (exact /\ (~Has(working, n, ty) \/ ~(rds \subseteq working[<<n, ty>>].rds)))
       THEN Refuse
       ELSE /\ working' =
                 IF ~Has(working, n, ty) THEN working
                 ELSE LET rest == working[<<n, ty>>].rds \ rds
                      IN IF rest = {} THEN DelRds(working, n, ty)
                         ELSE Put(working, n, ty, working[<<n, ty>>].ttl, rest)
            /\ res' = "ok" /\ val' = <<"-">>
            /\ UNCHANGED <<committed, mode, replacing, corigin, worigin>>

(* update_serial(value, relative) on the apex SOA *)
UpdateSerial(a) ==
    /\ Open /\ Called
    /\ IF \/ a.neg
          \/ ~Has(working, "@", "SOA")
          \/ mode = "read"
          \/ (a.relative /\ a.value[1] >= 32768)       \* increment > 2^31 - 1
       THEN Refuse
       ELSE LET cur == working[<<"@", "SOA">>]
                old == CHOOSE s \in cur.rds : TRUE
                new == NoZero(IF a.relative THEN SerialAdd(old, a.value) ELSE a.value)
            IN /\ working' = Put(working, "@", "SOA", cur.ttl, {new})
               /\ res' = "ok" /\ val' = <<"-">>
               /\ UNCHANGED <<committed, mode, replacing, corigin, worigin>>

(* reads: answered from `working` (read-your-writes) *)
Get(inzone, n, ty) ==
    /\ Open /\ Called
    /\ IF (~inzone \/ ~worigin) THEN Refuse
       ELSE /\ res' = "ok"
            /\ val' = IF Has(working, n, ty) THEN <<"rds", working[<<n, ty>>].ttl, working[<<n, ty>>].rds>> ELSE <<"none">>
            /\ UNCHANGED <<committed, working, mode, replacing, corigin, worigin>>

Exists(inzone, n) ==
    /\ Open /\ Called
    /\ IF (~inzone \/ ~worigin) THEN Refuse
       ELSE /\ res' = "ok"
            /\ val' = <<"bool", NameExists(working, n)>>
            /\ UNCHANGED <<committed, working, mode, replacing, corigin, worigin>>

(* iterate_names(): the owner names present;  get_node(name): the rdataset types there *)
IterNames ==
    /\ Open /\ Called
    /\ res' = "ok" /\ val' = <<"names", {k[1] : k \in DOMAIN working}>>
    /\ UNCHANGED <<committed, working, mode, replacing, corigin, worigin>>

GetNode(inzone, n) ==
    /\ Open /\ Called
    /\ IF (~inzone \/ ~worigin) THEN Refuse
       ELSE /\ res' = "ok"
            /\ val' = IF NameExists(working, n) THEN <<"node", NodeTypes(working, n)>> ELSE <<"none">>
            /\ UNCHANGED <<committed, working, mode, replacing, corigin, worigin>>

(* changed(): FALSE guarantees that nothing was changed; TRUE is also allowed after calls
   that touched a node without changing its content (a free choice) *)
Changed(answer) ==
    /\ Open /\ Called
    /\ (answer = FALSE => (mode = "read" \/ working = (IF replacing THEN <<>> ELSE committed)))
    /\ (mode = "read" => answer = FALSE)
    /\ res' = "ok" /\ val' = <<"bool", answer>>
    /\ UNCHANGED <<committed, working, mode, replacing, corigin, worigin>>

(* the transaction learns the zone origin (a $ORIGIN line read by dns.zonefile.Reader in a
   zone created without an origin); nothing is published before the commit *)
LearnOrigin ==
    /\ mode = "write" /\ Called
    /\ worigin' = TRUE
    /\ res' = "ok" /\ val' = <<"-">>
    /\ UNCHANGED <<committed, working, mode, replacing, corigin>>

(* an exception thrown by a check_put_rdataset callback: the call fails, nothing stored *)
CallbackRaises ==
    /\ mode = "write" /\ Called /\ Refuse

(* Committing a replacement transaction that holds no records at all is degenerate (an
   empty zone is not a zone): the property does not say whether that publishes "nothing"
   or "no content", so the model allows both. *)
Commit ==
    /\ Open
    /\ \/ /\ committed' = IF mode = "write" THEN working ELSE committed
          \* the origin learned in the transaction is published with its content; a commit
          \* that changes no content may or may not publish it (free choice)
          /\ \/ corigin' = IF mode = "write" THEN worigin ELSE corigin
             \/ (committed' = committed /\ corigin' = corigin)
       \/ (mode = "write" /\ replacing /\ working = <<>> /\ committed' = committed /\ corigin' = corigin)
    /\ mode' = "ended" /\ res' = "ok" /\ val' = <<"-">>
    /\ UNCHANGED <<working, nops, replacing, worigin>>

(* explicit rollback, or leaving the `with` block through an exception *)
Rollback ==
    /\ Open
    /\ mode' = "ended" /\ res' = "ok" /\ val' = <<"-">>
    /\ UNCHANGED <<committed, working, nops, replacing, corigin, worigin>>

(* any call on an ended transaction is refused *)
UseAfterEnd ==
    /\ mode = "ended" /\ res' = "refused" /\ val' = <<"-">>
    /\ UNCHANGED <<committed, working, nops, mode, replacing, corigin, worigin>>

---------------------------------------------------------------------------
Init == /\ committed \in InitZones
        /\ corigin \in (IF committed = <<>> THEN BOOLEAN ELSE {TRUE}) /\ worigin = FALSE
        /\ working = <<>> /\ mode = "idle" /\ replacing = FALSE /\ nops = 0 /\ res = "ok" /\ val = <<"-">>

RdSets(ty) == IF ty = "SOA" THEN {{s} : s \in Serials}
              ELSE IF Singleton(ty) THEN {{<<k>>} : k \in RdIds}
              ELSE {{<<k>>} : k \in RdIds} \cup {{<<k>> : k \in RdIds}}

Step ==
    \/ \E n \in Names, ty \in Types, ttl \in TTLs : \E rds \in RdSets(ty) :
          Add(TRUE, n, ty, ttl, rds) \/ Replace(TRUE, n, ty, ttl, rds)
    \/ \E n \in Names, ex \in BOOLEAN : DeleteName(ex, TRUE, n)
    \/ \E n \in Names, ty \in Types, ex \in BOOLEAN : DeleteType(ex, TRUE, n, ty)
    \/ \E n \in Names, ty \in Types, ex \in BOOLEAN : \E rds \in RdSets(ty) : DeleteRdatas(ex, TRUE, n, ty, rds)
    \/ \E a \in SerialArgs : UpdateSerial(a)
    \/ \E n \in Names, ty \in Types : Get(TRUE, n, ty)
    \/ \E n \in Names : Exists(TRUE, n) \/ GetNode(TRUE, n)
    \/ IterNames
    \/ \E b \in BOOLEAN : Changed(b)
    \/ DeleteName(FALSE, FALSE, "@")     \* an out-of-zone owner
    \/ CallbackRaises
    \/ LearnOrigin

Next ==
    \/ \E k \in {"write", "read"}, r \in BOOLEAN : Begin(k, r)
    \/ (nops < MaxOps /\ Step)
    \/ Commit \/ Rollback \/ UseAfterEnd

Spec == Init /\ [][Next]_vars

---------------------------------------------------------------------------
(* Properties of the reference model itself *)
TypeOK == mode \in {"idle", "write", "read", "ended"} /\ res \in {"ok", "refused"}
WorkingWellFormed == WellFormed(working)
CommittedWellFormed == WellFormed(committed)

(* all-or-nothing: the zone changes only in the commit step of a write transaction,
   and then becomes exactly the working content *)
Atomic == [][(committed' # committed) => (mode = "write" /\ mode' = "ended" /\ res' = "ok" /\ committed' = working)]_vars
(* the origin becomes known outside only by a commit *)
OriginAtomic == [][(corigin' # corigin) => (mode = "write" /\ mode' = "ended" /\ corigin' = worigin)]_vars
(* a refused call changes nothing *)
RefusedIsNoop == [][(res' = "refused") => (working' = working /\ committed' = committed)]_vars
(* a read-only transaction never changes anything *)
ReadOnlyNoChange == [][(mode = "read") => (working' = working /\ committed' = committed)]_vars
(* ended transactions refuse further use *)
EndedRefuses == [][(mode = "ended") => (res' = "refused" /\ mode' = "ended" /\ committed' = committed)]_vars
=============================================================================
