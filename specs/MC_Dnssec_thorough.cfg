INIT MInit
NEXT MNext
CONSTANTS
  MPart = "all"
  Thorough = TRUE
INVARIANT CanonLaws
INVARIANT SigLaws
INVARIANT KeyLaws
INVARIANT BitmapLaws
INVARIANT ZoneLaws
INVARIANT Nsec3Laws
INVARIANT KnownAnswers
CHECK_DEADLOCK FALSE
