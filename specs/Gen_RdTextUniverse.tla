------------------------- MODULE Gen_RdTextUniverse -------------------------
(* Prints the declared universe of RdTextUniverse as ONE JSON line for drivers/c05_text.py. *)
EXTENDS RdTextUniverse, Json
VARIABLE done
GInit == done = FALSE
GNext == ~done /\ done' = TRUE
U == [kinds |-> [k \in Kinds |-> Kind(k, 0)],
      fixed |-> [n \in {4, 6, 8} |-> [u |-> Kind("u32", n), b |-> Kind("bytes", n)]],
      special |-> Special, extra |-> Extra, origin |-> Origin, suborigin |-> SubOrigin,
      \* which records (held absolute / relative to the origin) a configuration may be applied to
      applicable |-> [b \in {"abs", "org"} |-> {oc.id : oc \in {c \in OrgConfigs : Applicable(c, b)}}],
      styles |-> Styles, orgconfigs |-> OrgConfigs, genconfigs |-> GenConfigs, numsubst |-> NumSubst, numsubst_short |-> NumSubstShort, short_types |-> {"WKS"}]
Emit == done => PrintT("BEH " \o ToJson(U))
=============================================================================
