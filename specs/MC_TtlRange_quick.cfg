SPECIFICATION Spec
CONSTANTS
  Modes = {"ttl", "range", "serial"}
  N2 <- QN2
  C2 <- QC2
  N3 <- QN3
  C3 <- QC3
  RTok <- QRTok
  RLen = 5
  RMidTok <- QRMid
  RLongTok <- QRLong
  SBits <- AllBits
INVARIANT TtlFoldAgrees
INVARIANT TtlBound
INVARIANT TtlRoundTrip
INVARIANT TtlPlain
INVARIANT TtlCaseBlind
INVARIANT TtlRotate
INVARIANT TtlAdditive
INVARIANT TtlNative
INVARIANT TtlRefuses
INVARIANT RangeFoldAgrees
INVARIANT RangeOrdered
INVARIANT RangeDefaultStep
INVARIANT RangeRoundTrip
INVARIANT RangeRefuses
INVARIANT SerIrreflexive
INVARIANT SerAntisymmetric
INVARIANT SerDual
INVARIANT SerOneOfFour
INVARIANT SerModular
INVARIANT SerAddWraps
INVARIANT SerAddOne
INVARIANT SerLimbs
PROPERTY Progress
PROPERTY SerIncreases
CHECK_DEADLOCK FALSE
