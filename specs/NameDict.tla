------------------------------ MODULE NameDict ------------------------------
(* X03a - dns.namedict.NameDict, written from its documentation:

     "A dictionary whose keys are dns.name.Name objects.  In addition to being like a
      regular Python dictionary, this dictionary can also get the deepest match for a
      given key."
     get_deepest_match(name): "The deepest match is the longest name in the dictionary
      which is a superdomain of name.  Note that superdomain includes matching name
      itself.  Returns a (key, value) tuple where key is the deepest matching Name."
     max_depth: "the maximum depth of the keys that have ever been added"
     max_depth_items: "the number of items of maximum depth"

   A name is the sequence of its labels, most specific first, already case-folded (name
   equality in dnspython ignores ASCII case); an absolute name ends with the root label
   "".  <<>> is dns.name.empty, <<"">> is the root.  k is a superdomain of n iff k is a
   label-wise suffix of n.  The only suffix of an ABSOLUTE name that is not absolute is
   the empty name: dns.name's own is_superdomain says "no relation" for such a pair,
   the label-suffix reading says "superdomain" - the documentation does not decide, so
   that single case is a free choice (hit on the empty name, or no match). *)
EXTENDS Integers, Sequences, FiniteSets, TLC

CONSTANTS Keys,      \* names that may be stored
          Queries,   \* names that may be looked up with get_deepest_match
          Vals,      \* values
          MaxOps     \* bound on the number of calls (model checking only)

VARIABLES d,     \* the mapping: a function from a subset of Keys to Vals
          ever,  \* greatest depth of any key ever added
          nops,  \* number of calls made
          last,  \* kind of the last call
          res,   \* "ok" | "err" : outcome of the last call
          val    \* tagged result of the last call
vars == <<d, ever, nops, last, res, val>>

NoVal == <<"-">>
Empty == [k \in {} |-> 0]
IsAbs(n) == Len(n) > 0 /\ n[Len(n)] = ""
IsSuffix(s, n) == /\ Len(s) <= Len(n)
                  /\ \A i \in 1..Len(s) : s[i] = n[Len(n) - Len(s) + i]
Max(a, b) == IF a >= b THEN a ELSE b
MaxLen(S) == IF S = {} THEN 0 ELSE CHOOSE m \in {Len(k) : k \in S} : \A k \in S : Len(k) <= m

Put(dd, k, v) == [x \in DOMAIN dd \cup {k} |-> IF x = k THEN v ELSE dd[x]]
Remove(dd, k) == [x \in DOMAIN dd \ {k} |-> dd[x]]

(* ---------------------------------------------------------------- deepest match *)
Supers(dd, q) == {k \in DOMAIN dd : IsSuffix(k, q)}
\* superdomains in the sense of both readings (same absoluteness as the query)
Strict(dd, q) == {k \in Supers(dd, q) : IsAbs(k) = IsAbs(q)}
Longest(S) == CHOOSE k \in S : \A j \in S : Len(j) <= Len(k)
Hit(dd, k) == <<"hit", k, dd[k]>>
Miss == <<"err", <<>>, 0>>
\* the set of allowed results of get_deepest_match(q)
MatchResults(dd, q) ==
    IF Strict(dd, q) # {} THEN {Hit(dd, Longest(Strict(dd, q)))}
    ELSE IF Supers(dd, q) # {} THEN {Hit(dd, Longest(Supers(dd, q))), Miss}   \* only <<>> under an absolute q
    ELSE {Miss}

(* ---------------------------------------------------------------- bookkeeping attributes
   Both readings of "have ever been added" / what the code does after deletions are
   admitted: max_depth may be anything from the depth of the deepest CURRENT key up to the
   deepest key EVER added.  (The lower bound is what makes get_deepest_match correct.) *)
MaxDepthAllowed(dd, ev) == MaxLen(DOMAIN dd)..ev
ItemsAtDepth(dd, m) == Cardinality({k \in DOMAIN dd : Len(k) = m})

(* ---------------------------------------------------------------- calls *)
Step(kind) == nops' = nops + 1 /\ last' = kind
Ok(v) == res' = "ok" /\ val' = v
Err == res' = "err" /\ val' = NoVal

Init == d \in {Empty} /\ ever = 0 /\ nops = 0 /\ last = "init" /\ res = "ok" /\ val = NoVal

\* d[k] = v
Set(k, v) == /\ d' = Put(d, k, v) /\ ever' = Max(ever, Len(k)) /\ Ok(NoVal) /\ Step("set")
\* d[<something that is not a Name>] = v : keys are names
SetBad == /\ UNCHANGED <<d, ever>> /\ Err /\ Step("setbad")
\* del d[k]
Del(k) == /\ IF k \in DOMAIN d THEN d' = Remove(d, k) /\ Ok(NoVal) ELSE UNCHANGED d /\ Err
          /\ UNCHANGED ever /\ Step("del")
\* d.pop(k, dflt)
Pop(k, dflt) == /\ IF k \in DOMAIN d THEN d' = Remove(d, k) /\ Ok(<<"val", d[k]>>)
                   ELSE UNCHANGED d /\ Ok(<<"val", dflt>>)
                /\ UNCHANGED ever /\ Step("pop")
\* d.setdefault(k, v)
SetDefault(k, v) == /\ IF k \in DOMAIN d THEN UNCHANGED <<d, ever>> /\ Ok(<<"val", d[k]>>)
                       ELSE d' = Put(d, k, v) /\ ever' = Max(ever, Len(k)) /\ Ok(<<"val", v>>)
                    /\ Step("setdefault")
\* d.clear()
Clear == d' = Empty /\ UNCHANGED ever /\ Ok(NoVal) /\ Step("clear")
\* d[k]
Get(k) == /\ IF k \in DOMAIN d THEN Ok(<<"val", d[k]>>) ELSE Err
          /\ UNCHANGED <<d, ever>> /\ Step("get")
\* k in d, d.has_key(k)
Has(k) == Ok(<<"bool", k \in DOMAIN d>>) /\ UNCHANGED <<d, ever>> /\ Step("has")
\* d.get_deepest_match(q)
Match(q) == /\ \E r \in MatchResults(d, q) : res' = (IF r[1] = "hit" THEN "ok" ELSE "err") /\ val' = r
            /\ UNCHANGED <<d, ever>> /\ Step("match")

Next == /\ nops < MaxOps
        /\ \/ \E k \in Keys, v \in Vals : Set(k, v) \/ SetDefault(k, v) \/ Pop(k, v)
           \/ \E k \in Keys : Del(k) \/ Get(k) \/ Has(k)
           \/ SetBad \/ Clear
           \/ \E q \in Queries : Match(q)
Spec == Init /\ [][Next]_vars

(* ---------------------------------------------------------------- properties *)
TypeOK == /\ DOMAIN d \subseteq Keys /\ \A k \in DOMAIN d : d[k] \in Vals
          /\ ever \in 0..MaxLen(Keys) /\ res \in {"ok", "err"}
\* every allowed result is a stored superdomain of the query and nothing stored is deeper
MatchSound == \A q \in Queries : \A r \in MatchResults(d, q) :
    r[1] = "hit" => /\ r[2] \in DOMAIN d /\ IsSuffix(r[2], q) /\ r[3] = d[r[2]]
                    /\ \A k \in Supers(d, q) : Len(k) <= Len(r[2])
\* "superdomain includes matching name itself"
SelfMatch == \A k \in DOMAIN d : MatchResults(d, k) = {Hit(d, k)}
\* a stored root catches every absolute name; a stored empty name every relative name
CatchAll == \A q \in Queries :
    /\ (IsAbs(q) /\ <<"">> \in DOMAIN d) => Miss \notin MatchResults(d, q)
    /\ (~IsAbs(q) /\ <<>> \in DOMAIN d) => Miss \notin MatchResults(d, q)
\* no superdomain stored => no match (the call fails, it does not invent an entry)
NoneMeansMiss == \A q \in Queries : Supers(d, q) = {} => MatchResults(d, q) = {Miss}
EverBounds == MaxLen(DOMAIN d) <= ever
ReadsDontWrite == [][last' \in {"get", "has", "match", "setbad"} => d' = d]_vars
FailedIsNoop == [][res' = "err" => d' = d]_vars
\* adding a key never loses a match and never makes one shallower
AddMonotone == [][last' = "set" => \A q \in Queries :
                    (Miss \notin MatchResults(d, q)) =>
                        /\ Miss \notin MatchResults(d', q)
                        /\ \A r \in MatchResults(d, q), s \in MatchResults(d', q) : Len(s[2]) >= Len(r[2])]_vars
=============================================================================
